#!/usr/bin/env python3
"""Runs the quick (or thorough) command of every check claimed in MANIFEST.json on the current tree and prints
one line per check (exit code, seconds, VIOLATION lines).  Usage: tools/runall.py [quick|thorough] [ids...]"""
import json, os, subprocess, sys, time
V = os.path.dirname(os.path.dirname(os.path.abspath(__file__)))
tier = sys.argv[1] if len(sys.argv) > 1 else "quick"
only = sys.argv[2:]
man = json.load(open(os.path.join(V, "MANIFEST.json")))
bad = 0
for c in man["checks"]:
    if only and c["property_id"] not in only:
        continue
    cmd = c["quick_cmd"] if tier == "quick" else c["thorough_cmd"]
    t0 = time.time()
    p = subprocess.run(cmd, shell=True, cwd=V, capture_output=True, text=True)
    viol = [l for l in p.stdout.splitlines() if l.startswith("VIOLATION")]
    known = sum(1 for l in p.stdout.splitlines() if l.startswith("KNOWN-FINDING"))
    print("%s exit=%d %.0fs known=%d %s" % (c["property_id"], p.returncode, time.time() - t0, known, " | ".join(viol)), flush=True)
    if p.returncode != 0:
        bad += 1
        print("   " + "\n   ".join((p.stdout + p.stderr).splitlines()[-6:]), flush=True)
sys.exit(1 if bad else 0)
