#!/usr/bin/env python3
"""Regenerates /verif/MANIFEST.json from tools/claims.json (one entry per claimed property)."""
import json
import os

VERIF = os.path.dirname(os.path.dirname(os.path.abspath(__file__)))
props = [json.loads(l) for l in open(os.path.join(VERIF, "properties.jsonl"))]
claims = json.load(open(os.path.join(VERIF, "tools", "claims.json")))
man = {
    "version": 1,
    "setup_cmd": "./check --setup",
    "hooks": {"guard": "BARRIL_VERIF",
              "enable": "no source hooks are needed: the checks observe public API and plain attributes only",
              "baseline_off_cmd": "cd /repo && /venv/bin/python -m pytest -ra -q -p no:cacheprovider --timeout=900 --continue-on-collection-errors",
              "source_commits": [], "add_only": True},
    "engines": claims.get("engines", []),
    "checks": [], "not_applicable": [],
    "notes": claims.get("notes", ""),
}
for p in props:
    c = claims["checks"].get(p["id"])
    if c:
        man["checks"].append({
            "property_id": p["id"],
            "quick_cmd": "./check %s --tier quick" % p["id"],
            "thorough_cmd": "./check %s --tier thorough" % p["id"],
            "evidence_file": "evidence/%s.json" % p["id"],
            "replay_cmd_template": "./check %s --replay {path}" % p["id"],
            "engine": c["engine"],
            "level_claimed": {"category": "proof", "text": c["text"], "design_ref": "DESIGN.md section 8, " + p["id"]},
            "level_note": c["note"],
            "technique": c["technique"],
        })
    else:
        man["not_applicable"].append({"property_id": p["id"], "reason": claims["pending_reason"]})
json.dump(man, open(os.path.join(VERIF, "MANIFEST.json"), "w"), indent=1)
print(len(man["checks"]), "claimed,", len(man["not_applicable"]), "not claimed")
