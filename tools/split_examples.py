#!/usr/bin/env python3
"""Moves the `example` blocks of lean/Barril/Props/Cxx.lean into lean/Barril/Props/CxxExamples.lean.

Why: non-vacuity examples evaluate concrete instances, many of them over the REGENERATED tables.  A change of a
table value can make such an instance evaluate differently without touching any property theorem; if the example
sits in the theorem module, that module (and every module importing it) stops building and the check can say
nothing.  In their own module a failing example is recorded in the evidence and nothing else."""
import os, re, sys
V = os.path.dirname(os.path.dirname(os.path.abspath(__file__)))
PROPS = os.path.join(V, "lean", "Barril", "Props")
START = re.compile(r"^(theorem|example|def|private|protected|abbrev|structure|inductive|instance|lemma|@\[|/--|/-!|/-|namespace|end\b|section|open\b|variable|set_option|noncomputable|local|attribute|universe|--)")
CTX = re.compile(r"^(namespace|end\b|section|open\b|variable|set_option|universe|local)")


def blocks(lines):
    """split into top-level blocks; a doc comment / attribute line is glued to the declaration that follows it"""
    out, cur, depth = [], [], 0
    for ln in lines:
        if depth == 0 and START.match(ln) is not None and cur:
            out.append(cur)
            cur = []
        cur.append(ln)
        i = 0
        while i < len(ln) - 1:
            two = ln[i:i + 2]
            if two == "/-":
                depth += 1
                i += 2
            elif two == "-/" and depth > 0:
                depth -= 1
                i += 2
            elif two == "--" and depth == 0:
                break
            else:
                i += 1
    if cur:
        out.append(cur)
    glued, i = [], 0
    while i < len(out):
        b = out[i]
        while i + 1 < len(out) and (re.match(r"^(/--|@\[)", b[0]) or re.match(r"^(open|set_option)\b.*\bin\s*$", b[-1].strip() and [l for l in b if l.strip()][-1])) and not re.search(
                r"^(?:private\s+|protected\s+|noncomputable\s+)*(theorem|example|def|abbrev|structure|inductive|instance|lemma)\b",
                "\n".join(b), flags=re.M):
            i += 1
            b = b + out[i]
        glued.append(b)
        i += 1
    return glued


def kind(b):
    for ln in b:
        m = re.match(r"^(?:private\s+|protected\s+|noncomputable\s+)*(theorem|example|def|abbrev|structure|inductive|instance|lemma)\b", ln)
        if m:
            return m.group(1)
    if CTX.match(b[0]):
        return "ctx"
    return "other"


def split(pid):
    src = os.path.join(PROPS, pid + ".lean")
    lines = open(src, encoding="utf8").read().split("\n")
    bs = blocks(lines)
    keep, ex = [], []
    for b in bs:
        k = kind(b)
        text = "\n".join(b)
        if k == "example":
            ex.append(b)
        elif k == "ctx":
            keep.append(b)
            ex.append(b)
        elif k in ("def", "abbrev") and re.search(r"^private\s+(noncomputable\s+)?(def|abbrev)\b", text, flags=re.M):
            # private helpers (module-scoped names): both modules get their own copy
            keep.append(b)
            ex.append(b)
        else:
            keep.append(b)
    n = sum(1 for b in bs if kind(b) == "example")
    if n == 0:
        return 0
    imports = [ln for ln in lines if ln.startswith("import ")]
    header = ["/- Non-vacuity examples of " + pid + " (moved out of Props/" + pid + ".lean by tools/split_examples.py: they evaluate",
              "concrete instances, many over the regenerated tables, and must not be able to stop the theorem module from",
              "building).  Not property theorems: the check builds this module separately and only records the outcome. -/",
              "import Barril.Props." + pid] + imports + [""]
    body = []
    for b in ex:
        if b[0].startswith("import "):
            continue
        body += b
    open(os.path.join(PROPS, pid + "Examples.lean"), "w", encoding="utf8").write("\n".join(header + body).rstrip("\n") + "\n")
    open(src, "w", encoding="utf8").write("\n".join(ln for b in keep for ln in b).rstrip("\n") + "\n")
    return n


if __name__ == "__main__":
    for pid in sys.argv[1:]:
        print(pid, split(pid), "examples moved")
