#!/venv/bin/python
"""Union of tools/implcov.py over all 20 checks: which statements of the library does NO correspondence leg execute?

  tools/implcov_all.py [quick|thorough] [--jobs N] [--out notes/implcov_all.json]

Runs implcov for every property (in parallel processes), then reports per source file the number of statements, the
number no check reaches, and those line numbers.  A diagnostic for the generators (DESIGN section 5), not a verdict."""
import json
import os
import subprocess
import sys
import tempfile
from concurrent.futures import ThreadPoolExecutor

V = os.path.dirname(os.path.dirname(os.path.abspath(__file__)))


def main():
    tier = sys.argv[1] if len(sys.argv) > 1 and not sys.argv[1].startswith("--") else "quick"
    jobs = int(sys.argv[sys.argv.index("--jobs") + 1]) if "--jobs" in sys.argv else 6
    out = sys.argv[sys.argv.index("--out") + 1] if "--out" in sys.argv else None
    pids = ["C%02d" % i for i in range(1, 21)]
    tmp = tempfile.mkdtemp(prefix="implcov_")

    def one(pid):
        p = os.path.join(tmp, pid + ".json")
        r = subprocess.run(["/venv/bin/python", os.path.join(V, "tools", "implcov.py"), pid, tier, "--json", p],
                           capture_output=True, text=True)
        return pid, p if os.path.exists(p) else None, r.stdout[-300:] + r.stderr[-300:]

    with ThreadPoolExecutor(jobs) as ex:
        res = list(ex.map(one, pids))
    stmts, missing, reached_by = {}, {}, {}
    failed = []
    for pid, p, log in res:
        if p is None:
            failed.append((pid, log))
            continue
        d = json.load(open(p))
        for f, info in d.items():
            stmts[f] = info["statements"]
            m = set(info["missing"])
            missing[f] = m if f not in missing else (missing[f] & m)
    total = sum(stmts.values())
    unreached = sum(len(m) for f, m in missing.items())
    print("tier %s: %d statements in %d files, %d reached by no correspondence leg (%.1f%%)" % (
        tier, total, len(stmts), unreached, 100.0 * unreached / max(1, total)))
    for f in sorted(stmts):
        if f.endswith("posc.py"):
            continue  # the table is read by the translator
        m = sorted(missing.get(f, []))
        print("  %-52s %4d stmts, %3d unreached  %s" % (f, stmts[f], len(m), " ".join(map(str, m))[:160]))
    for pid, log in failed:
        print("FAILED", pid, log)
    if out:
        json.dump(dict(tier=tier, statements=stmts, unreached={f: sorted(m) for f, m in missing.items()}),
                  open(out, "w"), indent=1)


if __name__ == "__main__":
    main()
