#!/usr/bin/env python3
"""Seeded-defect bookkeeping.

  seeded.py confirm <src_dir> <name> <property>   confirm a candidate (patch.diff, demo.py, meta.json) in a scratch
                                                  worktree (demo passes without, fails with the patch; 322 tests pass
                                                  with it) and store it as /verif/seeded/<name>/
  seeded.py run <name> [<check id> ...]           apply /verif/seeded/<name>/patch.diff to /repo, run the quick checks
                                                  (default: the property it breaks), undo, record the outcome in meta.json
"""
import glob
import json
import os
import shutil
import subprocess
import sys
import time

VERIF = os.path.dirname(os.path.dirname(os.path.abspath(__file__)))
SEEDED = os.path.join(VERIF, "seeded")
PY = "/venv/bin/python"


def sh(cmd, cwd=None, env=None, timeout=3600):
    e = dict(os.environ)
    if env:
        e.update(env)
    p = subprocess.run(cmd, cwd=cwd, env=e, capture_output=True, text=True, timeout=timeout)
    return p.returncode, p.stdout + p.stderr


def confirm(src, name, prop):
    wt = "/tmp/seedconfirm_%s" % name
    sh(["git", "-C", "/repo", "worktree", "remove", "--force", wt])
    rc, out = sh(["git", "-C", "/repo", "worktree", "add", "--detach", wt, "HEAD"])
    assert rc == 0, out
    env = {"PYTHONPATH": wt + "/src"}
    res = {}
    try:
        demo = os.path.abspath(os.path.join(src, "demo.py"))
        res["demo_clean_exit"], _ = sh([PY, demo], cwd=wt, env=env)
        rc, out = sh(["git", "apply", os.path.abspath(os.path.join(src, "patch.diff"))], cwd=wt)
        assert rc == 0, "patch does not apply: " + out
        rc, out = sh([PY, "-m", "pytest", "-q", "-p", "no:cacheprovider"], cwd=wt, env=env)
        res["tests_with_patch"] = out.strip().splitlines()[-1]
        res["demo_patched_exit"], demo_out = sh([PY, demo], cwd=wt, env=env)
        res["demo_patched_output_tail"] = demo_out[-400:]
    finally:
        sh(["git", "-C", "/repo", "worktree", "remove", "--force", wt])
    ok = res["demo_clean_exit"] == 0 and res["demo_patched_exit"] == 1 and "322 passed" in res["tests_with_patch"]
    print(name, "CONFIRMED" if ok else "REJECTED", res["demo_clean_exit"], res["demo_patched_exit"], res["tests_with_patch"])
    if ok:
        dst = os.path.join(SEEDED, name)
        os.makedirs(dst, exist_ok=True)
        shutil.copy(os.path.join(src, "patch.diff"), dst)
        shutil.copy(os.path.join(src, "demo.py"), dst)
        meta = {}
        mp = os.path.join(src, "meta.json")
        if os.path.exists(mp):
            meta = json.load(open(mp))
        meta.update(property=prop, confirmed=dict(
            how="scratch worktree of /repo HEAD: demo.py exit 0 without the patch, exit 1 with it; "
                "pytest with the patch: " + res["tests_with_patch"],
            repo_head=sh(["git", "-C", "/repo", "rev-parse", "--short", "HEAD"])[1].strip()))
        json.dump(meta, open(os.path.join(dst, "meta.json"), "w"), indent=1)
    return ok


def run(name, checks):
    """Runs the quick checks against a scratch worktree of /repo with the patch applied (BARRIL_REPO), with a
    private copy of the Lean project and private evidence/replay directories, so that neither /repo nor the
    committed evidence is disturbed while other work goes on.  (Equivalent to: git -C /repo apply; run; undo.)"""
    dst = os.path.join(SEEDED, name)
    meta = json.load(open(os.path.join(dst, "meta.json")))
    checks = checks or [meta["property"]]
    wt = "/tmp/seedrun_%s_repo" % name
    lean = "/tmp/seedrun_lean"
    out_dir = "/tmp/seedrun_%s_out" % name
    import fcntl
    lock = open("/tmp/seedrun.lock", "w")
    fcntl.flock(lock, fcntl.LOCK_EX)  # one seeded run at a time (they share the private Lean copy)
    sh(["git", "-C", "/repo", "worktree", "remove", "--force", wt])
    rc, out = sh(["git", "-C", "/repo", "worktree", "add", "--detach", wt, "HEAD"])
    assert rc == 0, out
    rc, out = sh(["git", "apply", os.path.join(dst, "patch.diff")], cwd=wt)
    assert rc == 0, out
    sh(["rsync", "-a", "--delete", "--exclude", ".verif.lock", os.path.join(VERIF, "lean") + "/", lean + "/"])
    shutil.rmtree(out_dir, ignore_errors=True)
    os.makedirs(out_dir + "/replays")
    env = {"BARRIL_REPO": wt, "BARRIL_LEAN_DIR": lean, "BARRIL_EVIDENCE_DIR": out_dir + "/evidence",
           "BARRIL_REPLAY_DIR": out_dir + "/replays"}
    results = meta.setdefault("detected_by", {})
    try:
        for cid in checks:
            t0 = time.time()
            before = set(glob.glob(out_dir + "/replays/*.json"))
            rc, out = sh([os.path.join(VERIF, "check"), cid, "--tier", "quick"], cwd=VERIF, env=env)
            line = [l for l in out.splitlines() if l.startswith("VIOLATION")]
            new = sorted(set(glob.glob(out_dir + "/replays/*.json")) - before)
            kind, what = None, None
            if new:
                rp = json.load(open(new[-1]))
                kind = rp.get("kind")
                what = json.dumps(rp.get("failure") or rp.get("broken"), default=str)[:400]
            results[cid] = dict(exit=rc, violation_line=line[0] if line else None, replay_kind=kind, replay_says=what,
                                seconds=round(time.time() - t0, 1))
            print(name, cid, "exit", rc, kind, line[0] if line else out[-300:])
    finally:
        sh(["git", "-C", "/repo", "worktree", "remove", "--force", wt])
        shutil.rmtree(out_dir, ignore_errors=True)
    json.dump(meta, open(os.path.join(dst, "meta.json"), "w"), indent=1)


if __name__ == "__main__":
    if sys.argv[1] == "confirm":
        sys.exit(0 if confirm(sys.argv[2], sys.argv[3], sys.argv[4]) else 1)
    elif sys.argv[1] == "run":
        run(sys.argv[2], sys.argv[3:])
