#!/venv/bin/python
"""Records the AST hashes of the anchor files of all properties for /repo's current working tree
(run after the checks agree with the code; see harness/fingerprints.py)."""
import json, os, subprocess, sys
V = os.path.dirname(os.path.dirname(os.path.abspath(__file__)))
sys.path.insert(0, os.path.join(V, "harness"))
import fingerprints
head = subprocess.run(["git", "-C", "/repo", "rev-parse", "--short", "HEAD"], capture_output=True, text=True).stdout.strip()
json.dump(dict(repo_head=head, python=list(sys.version_info[:2]), files=fingerprints.current()), open(fingerprints.STORE, "w"), indent=1, sort_keys=True)
print("recorded", len(fingerprints.current()), "files at", head)
