#!/usr/bin/env python3
"""Writes the brief a seeding agent gets for one property: the property text and quantifier only (nothing from
/verif's machinery), plus one-line summaries of the seeds that already exist for it so that the agent looks
elsewhere.  Usage: tools/seedbrief.py <Cxx> <first new index> [<count>]  -> /tmp/seedbrief_<Cxx>.md"""
import glob, json, os, sys
V = os.path.dirname(os.path.dirname(os.path.abspath(__file__)))
pid = sys.argv[1]
first = int(sys.argv[2])
count = int(sys.argv[3]) if len(sys.argv) > 3 else 2
prop = [json.loads(l) for l in open(os.path.join(V, "properties.jsonl")) if json.loads(l)["id"] == pid][0]
earlier = []
for d in sorted(glob.glob(os.path.join(V, "seeded", pid + "-*"))):
    m = json.load(open(os.path.join(d, "meta.json")))
    s = " ".join(m.get("summary", "").split())
    earlier.append("  - " + (s[:230] + ("…" if len(s) > 230 else "")))
idx = ", ".join(str(first + i) for i in range(count))
wt = "/tmp/seed_%s" % pid
text = f"""You are testing how robust a semantic property of the Python library ESSS/barril (a units-of-measure library) is.

The property ({pid} - {prop['title']}):

{prop['statement']}

Quantifier: {prop['quantifier']['text']}

Your job: produce {count} different, independent changes to the library's source that each BREAK this property while the library still imports and its whole existing test suite still passes, each with a small demonstration program. Work ONLY in your own scratch git worktree; never touch /repo itself and do not read anything under /verif.

Setup:
  git -C /repo worktree add --detach {wt} HEAD
  cd {wt}          # sources are in src/barril ; run Python as: PYTHONPATH={wt}/src /venv/bin/python
  tests: cd {wt} && PYTHONPATH={wt}/src /venv/bin/python -m pytest -q -p no:cacheprovider   (322 tests, ~10 s; all must pass WITH your change)

What kind of change: a realistic defect a maintainer could introduce by accident (a refactor, an "optimisation", a wrong condition, a missing copy, an off-by-one, a swapped argument, a stale cache or memo, a wrong table value, state that leaks between calls...), small (a few lines), and SUBTLE: it must need something specific to manifest. This round, prefer (a) changes that only show after a MULTI-STEP SEQUENCE of public operations (an earlier call changes what a later, unrelated-looking call returns; an order of registration/creation/conversion matters; something is remembered too long or forgotten too early), (b) TWO COOPERATING SITES that each look fine alone, (c) an unusual but legitimate input (a particular row of the unit table, a rarely used argument form, container kind, numpy dtype, sign, zero, exponent, empty or one-element container, a category that shares its quantity type with another, a derived quantity with a repeated quantity type) - not something ordinary use would expose at once, and certainly not something the existing tests catch. The changes must touch different mechanisms from each other and from the earlier ones listed below. Do not change test files. Do not make the library crash on import. Do not merely change error messages or documentation.

Changes that were already made for this property by others (find something ELSE: another code path, another mechanism, another kind of input):
{chr(10).join(earlier) if earlier else '  (none)'}

For each change i in ({idx}) deliver a directory /tmp/seedout_{pid}_i/ containing:
  patch.diff   - `git diff` of your change against HEAD of the worktree (must apply with `git apply` in a clean checkout of the same HEAD)
  demo.py      - a self-contained program using only the public API of barril (+ numpy/stdlib) that checks the property on the specific inputs that expose the change, comparing against independently computed expectations (not against recorded outputs of the library); it must exit 0 on the unchanged library and exit 1 (printing what went wrong) with your change applied. Run it both ways to confirm.
  meta.json    - {{"summary": what the change does and why the property breaks, "what_it_needs_to_manifest": the specific input/sequence needed, "files_touched": [...]}}

Reset the worktree between the changes (git -C {wt} checkout -- .). Never use `git stash` (the stash is shared by all worktrees of /repo and other agents work in parallel): to put a change aside use `git diff > /tmp/mychange.diff; git checkout -- .` and later `git apply /tmp/mychange.diff`. When done, remove the worktree: git -C /repo worktree remove --force {wt}. Your final message: for each change two or three lines (what, where, how it manifests) and confirmation that demo.py exits 0 without / 1 with the patch and that 322 tests pass with the patch.
"""
out = "/tmp/seedbrief_%s.md" % pid
open(out, "w").write(text)
print(out, len(text))
