#!/usr/bin/env python3
"""Writes, under every `### Cxx —` heading of DESIGN.md section 8, an *As built* paragraph generated from
tools/claims.json (the same text as MANIFEST.json's level_claimed), the theorem count and the file names, so that
the plan text above it and what exists cannot drift apart silently.  Idempotent."""
import json, os, re, glob
V = os.path.dirname(os.path.dirname(os.path.abspath(__file__)))
claims = json.load(open(os.path.join(V, "tools", "claims.json")))["checks"]
s = open(os.path.join(V, "DESIGN.md"), encoding="utf8").read()
s = re.sub(r"<!-- asbuilt:(C\d+) -->.*?<!-- /asbuilt -->\n\n", "", s, flags=re.S)
for pid, c in sorted(claims.items()):
    props = os.path.join(V, "lean", "Barril", "Props", pid + ".lean")
    n = 0
    if os.path.exists(props):
        body = re.sub(r"/-.*?-/", "", open(props, encoding="utf8").read(), flags=re.S)
        n = len(re.findall(r"^\s*(?:private\s+|protected\s+)?theorem\s", body, flags=re.M))
    m = re.search(r"^### %s — .*$" % pid, s, flags=re.M)
    if not m:
        continue
    # insert before the next heading
    nxt = re.search(r"^(### C\d+ — |---------)", s[m.end():], flags=re.M)
    pos = m.end() + nxt.start()
    block = ("<!-- asbuilt:%s -->\n*As built (%d property theorems in `lean/Barril/Props/%s.lean`, module "
             "`harness/props/%s.py`).* %s  *Trusted / limits:* %s\n<!-- /asbuilt -->\n\n" % (pid, n, pid, pid, c["text"], c["note"]))
    s = s[:pos] + block + s[pos:]
open(os.path.join(V, "DESIGN.md"), "w", encoding="utf8").write(s)
print("ok")
