#!/venv/bin/python
"""Which lines of the real library does the correspondence leg of a check execute?

  tools/implcov.py <Cxx> [quick|thorough] [--json out.json]

Runs the property module's generators and `impl` wrappers (the real code, in-process) under coverage.py and
prints, per source file, the executed fraction and the lines never reached.  A diagnostic for the generators
(DESIGN section 5: the correspondence is differential testing and its generators bound what it sees): a line no
check reaches is a line where a change is seen by no correspondence.  Not part of any verdict."""
import json
import os
import sys

V = os.path.dirname(os.path.dirname(os.path.abspath(__file__)))
sys.path.insert(0, os.path.join(V, "harness"))
import coverage  # noqa: E402

import common  # noqa: E402
import engine  # noqa: E402


def main():
    pid = sys.argv[1]
    tier = sys.argv[2] if len(sys.argv) > 2 and not sys.argv[2].startswith("--") else "quick"
    out = sys.argv[sys.argv.index("--json") + 1] if "--json" in sys.argv else None
    seed = int(os.environ.get("VERIF_SEED", "0") or 0)
    src = os.path.join(common.REPO, "src", "barril")
    cov = coverage.Coverage(data_file=None, include=[src + "/*"], omit=["*/_tests/*", "*/conftest.py"], branch=True)
    cov.start()
    common.load_barril()
    import translate
    prop = engine.load_prop(pid)
    data = translate.read_all()
    ctx = engine.Ctx(tier, seed, data)
    if hasattr(prop, "setup"):
        prop.setup(ctx)
    n = 0
    for c in list(prop.cases(ctx)):
        prop.impl(c, ctx)
        n += 1
    if "--oracle" in sys.argv and hasattr(prop, "search"):
        import time
        t0 = time.time()
        for c in prop.search(ctx):
            prop.oracle(c, ctx)
            if time.time() - t0 > 30:
                break
    cov.stop()
    res = {}
    for f in sorted(cov.get_data().measured_files()):
        rel = os.path.relpath(f, src)
        if rel == "units/posc.py":
            continue
        _fn, stmts, _excl, missing, _fmt = cov.analysis2(f)
        try:
            arcs_missing = sorted(cov._analyze(f).arcs_missing())
        except Exception:
            arcs_missing = []
        res[rel] = dict(statements=len(stmts), missing=missing,
                        partial_branches=[list(a) for a in arcs_missing if a[0] not in missing and a[1] > 0 and a[1] not in missing])
    print("%s %s: %d cases" % (pid, tier, n))
    for rel, r in res.items():
        pct = 100.0 * (r["statements"] - len(r["missing"])) / max(1, r["statements"])
        print("  %-50s %5.1f%%  missing %s" % (rel, pct, compress(r["missing"])))
    if out:
        json.dump(res, open(out, "w"))


def compress(lines):
    out, i = [], 0
    while i < len(lines):
        j = i
        while j + 1 < len(lines) and lines[j + 1] - lines[j] <= 2:
            j += 1
        out.append(str(lines[i]) if i == j else "%d-%d" % (lines[i], lines[j]))
        i = j + 1
    return " ".join(out)


if __name__ == "__main__":
    main()
