import json, sys
sys.path.insert(0, __import__('os').path.join(__import__('os').path.dirname(__import__('os').path.dirname(__import__('os').path.abspath(__file__))), 'harness'))
import common; common.load_barril()
import translate, c06rule
from fractions import Fraction as F
d=translate.read_all()
rows={r['sym']:dict(qtype=r['qtype'],name=r['name'],slope=r['tobase'][1]/r['tobase'][2],prec=r['prec']) for r in d['posc']['units']}
base_of={}
for r in d["posc"]["units"]: base_of.setdefault(r["qtype"], r["sym"])
j=c06rule.judge(rows, base_of)
def parts_str(v):
    if v['kind']=='si': return "SI prefix 10^%d x '%s'"%(v['parts'][0][1], v['parts'][0][0])
    return " ".join("%s%s^%d"%(("%d*"%p) if p!=1 else "",u,e) for u,e,p in v['parts'])
path=sys.argv[1]
kf=json.load(open(path))
kf['findings']=[e for e in kf['findings'] if e.get('property')!='C06']
n=0
for s,v in j.items():
    if not v['ok']:
        n+=1
        kf['findings'].append(dict(property="C06",status="known",id="C06-row-"+s,
            what="unit '%s' (%s, %s): factor to base %.10g but its parts (%s) give %.10g; relative deviation %.3g exceeds the written precision %.3g"%(
                s,rows[s]['name'],rows[s]['qtype'],float(rows[s]['slope']),parts_str(v),float(v['expected']),float(v['dev']),float(v['tol'])),
            matcher=dict(symbol=s)))
json.dump(kf,open(path,'w'),indent=1,ensure_ascii=False)
print(n,"C06 entries")
