#!/usr/bin/env python3
"""Prints the markdown table of seeded defects (seeded/*/meta.json) and what detected them;
with --write, replaces the text between <!-- seeds:begin --> and <!-- seeds:end --> in DESIGN.md with it."""
import glob, io, json, os, sys
_out = io.StringIO()
_print = print
def print(*a):
    _print(*a, file=_out)
V = os.path.dirname(os.path.dirname(os.path.abspath(__file__)))
print("| seed | breaks | change (short) | detected by (quick tier) |")
print("|---|---|---|---|")
for d in sorted(glob.glob(os.path.join(V, "seeded", "*"))):
    m = json.load(open(os.path.join(d, "meta.json")))
    det = []
    for cid, r in sorted((m.get("detected_by") or {}).items()):
        if r.get("exit") == 1:
            det.append("%s: %s" % (cid, "concrete replay" if r.get("replay_kind") == "failing-input" else "no-failing-input-found"))
        else:
            det.append("%s: missed" % cid)
    s = m.get("summary", "").replace("|", "/").replace("\n", " ")
    print("| %s | %s | %s | %s |" % (os.path.basename(d), m.get("property"), s[:170] + ("…" if len(s) > 170 else ""), "; ".join(det) or "not run yet"))

text = _out.getvalue()
if "--write" in sys.argv:
    dp = os.path.join(V, "DESIGN.md")
    d = open(dp).read()
    i, j = d.index("<!-- seeds:begin -->") + len("<!-- seeds:begin -->"), d.index("<!-- seeds:end -->")
    open(dp, "w").write(d[:i] + "\n" + text + d[j:])
    _print("DESIGN.md: %d rows" % (text.count("\n") - 2))
else:
    _print(text, end="")
