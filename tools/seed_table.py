#!/usr/bin/env python3
"""Prints the markdown table of seeded defects (seeded/*/meta.json) and what detected them."""
import glob, json, os
V = os.path.dirname(os.path.dirname(os.path.abspath(__file__)))
print("| seed | breaks | change (short) | detected by (quick tier) |")
print("|---|---|---|---|")
for d in sorted(glob.glob(os.path.join(V, "seeded", "*"))):
    m = json.load(open(os.path.join(d, "meta.json")))
    det = []
    for cid, r in sorted((m.get("detected_by") or {}).items()):
        if r.get("exit") == 1:
            det.append("%s: %s" % (cid, "concrete replay" if r.get("replay_kind") == "failing-input" else "no-failing-input-found"))
        else:
            det.append("%s: missed" % cid)
    s = m.get("summary", "").replace("|", "/").replace("\n", " ")
    print("| %s | %s | %s | %s |" % (os.path.basename(d), m.get("property"), s[:170] + ("…" if len(s) > 170 else ""), "; ".join(det) or "not run yet"))
