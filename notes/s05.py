import collections, itertools, copy, pickle, random
import numpy as np
from barril.units import *
from barril.units.unit_database import UnitDatabase, UnitsError
from barril.basic.fraction import FractionValue, Fraction
from barril.curve.curve import Curve
from barril.units.unit_system import UnitSystem
db = UnitDatabase.GetSingleton()
random.seed(3)
qts = [q for q in db.quantity_types]
first = {q: db.quantity_types[q][min(1,len(db.quantity_types[q])-1)].unit for q in qts}
cnt = collections.Counter(); ex={}
def rec(k, info): cnt[k]+=1; ex.setdefault(k, info)
OKERR = (UnitsError, TypeError, ValueError)
for qa in qts:
    for qb in qts:
        if qa==qb: continue
        if 'Unknown' in (qa,qb) or 'dimensionless' in (qa,qb): continue
        ua, ub = first[qa], first[qb]
        ca = db.GetDefaultCategory(ua)
        tests = {
          'convert': lambda: db.Convert(qa, ua, ub, 1.0),
          'create': lambda: Scalar(1.0, ub, ca),
          'obtain': lambda: ObtainQuantity(ub, ca),
          'getvalue': lambda: Scalar(1.0, ua).GetValue(ub),
          'add': lambda: Scalar(1.0, ua)+Scalar(1.0, ub),
          'sub': lambda: Scalar(1.0, ua)-Scalar(1.0, ub),
          'lt': lambda: Scalar(1.0, ua)<Scalar(1.0, ub),
          'ge': lambda: Scalar(1.0, ua)>=Scalar(1.0, ub),
          'arr add': lambda: Array([1.0], ua)+Array([1.0], ub),
          'arr getvalues': lambda: Array([1.0], ua).GetValues(ub),
          'fs lt': lambda: FractionScalar(1.0, ua)<FractionScalar(1.0, ub),
          'fs getvalue': lambda: FractionScalar(1.0, ua).GetValue(ub),
          'createcopy': lambda: Scalar(1.0, ua).CreateCopy(unit=ub),
        }
        for k,t in tests.items():
            try:
                r = t(); rec(k+' RETURNS', (ua,ub,repr(r)[:60]))
            except OKERR: pass
            except Exception as e: rec(k+' other '+type(e).__name__, (ua,ub,str(e)[:60]))
print("C05:", dict(cnt))
for k,v in ex.items(): print("  ",k,v)

# C08 equality pool
pool = [ObtainQuantity('m'), ObtainQuantity('m','depth'), (Scalar(1,'m')*Scalar(1,'s')).GetQuantity(), Quantity.CreateEmpty(), GetUnknownQuantity('foo'),
  Scalar(1,'m'), Scalar(1,'m','depth'), Scalar(100,'cm'), Scalar(1,'m')*Scalar(1,'s'), Scalar.CreateEmptyScalar(1.0), Scalar(GetUnknownQuantity('x'),1.0),
  Array([1.,2.],'m'), Array((1.,2.),'m'), Array(np.array([1.,2.]),'m'), Array([1.],'m'), Array([],'m'), Array.CreateEmptyArray([1.,2.]), Array([1.,2.],'m')*Array([1.,2.],'s'),
  FixedArray(2,[1.,2.],'m'), FixedArray(2,(1.,2.),'m'), FixedArray(2,np.array([1.,2.]),'m'), FixedArray(3,[1.,2.,3.],'m'), FixedArray.CreateEmptyArray(2),
  FractionScalar(1.0,'m'), FractionScalar(FractionValue(1,(1,2)),'m'), FractionScalar(100.0,'cm'),
  FractionValue(1,(1,2)), FractionValue(1.5), FractionValue(0,(3,2)), Fraction(1,2), Fraction(2,4), Fraction(3,1),
  Curve(Array([1.,2.],'m'),Array([0.,1.],'s')), Curve(Array([1.,2.],'m'),Array([0.,1.],'s')), Curve(Array([1.],'m'),Array([0.],'s')),
  UnitSystem('a','A',{'length':'m'}), UnitSystem('a','A',{'length':'m'}), UnitSystem('b','B',{}),
  None, 'a', 1, 3, 0.5, (), (1.,2.), [1.,2.]]
c8=collections.Counter(); e8={}
for i,a in enumerate(pool):
    for j,b in enumerate(pool):
        barril = lambda o: type(o).__module__.startswith('barril')
        if not (barril(a) or barril(b)): continue
        try:
            e1 = (a==b); n1 = (a!=b)
        except Exception as e:
            c8['raises '+type(e).__name__]+=1; e8.setdefault('raises '+type(e).__name__, (i,j,repr(a)[:40],repr(b)[:40],str(e)[:50])); continue
        try: e2 = (b==a)
        except Exception as e: continue
        if not isinstance(e1,(bool,np.bool_)): c8['nonbool']+=1; e8.setdefault('nonbool',(repr(a)[:40],repr(b)[:40],repr(e1)[:40])); continue
        if bool(e1)!=bool(e2): c8['asym']+=1; e8.setdefault('asym',(repr(a)[:40],repr(b)[:40],e1,e2))
        if bool(e1)==bool(n1): c8['ne!=not eq']+=1; e8.setdefault('ne',(repr(a)[:40],repr(b)[:40]))
        if i==j and not e1: c8['nonreflexive']+=1; e8.setdefault('nonreflexive', repr(a)[:50])
        if e1:
            try:
                ha,hb = hash(a),hash(b)
                if ha!=hb: c8['hash']+=1; e8.setdefault('hash',(repr(a)[:40],repr(b)[:40]))
            except TypeError: pass
            except NotImplementedError: pass
print("C08:", dict(c8))
for k,v in e8.items(): print("  ",k,v)
