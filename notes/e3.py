import pickle, copy, math, random
from barril.units import *
from barril.units.unit_database import UnitDatabase
from barril.basic.fraction import Fraction, FractionValue
from barril.curve.curve import Curve
import numpy as np
def show(label, f):
    try:
        r = f(); print(f"{label}: {r!r}")
    except Exception as e:
        print(f"{label}: RAISES {type(e).__name__}: {str(e)[:120]}")
def fa_info(fa): return (fa.dimension, len(fa.values), fa.values, fa.unit)
# C11 FixedArray routes
show("FA dim mismatch", lambda: FixedArray(3,[1,2],'m'))
show("FA dim 1", lambda: FixedArray(1,[1],'m'))
show("FA CreateWithQuantity no dim", lambda: fa_info(FixedArray.CreateWithQuantity(ObtainQuantity('m'), [1,2,3])))
show("FA CreateWithQuantity len1", lambda: fa_info(FixedArray.CreateWithQuantity(ObtainQuantity('m'), [1])))
show("FA CreateWithQuantity dim mismatch", lambda: fa_info(FixedArray.CreateWithQuantity(ObtainQuantity('m'), [1,2,3], dimension=2)))
show("FA CreateEmptyArray", lambda: fa_info(FixedArray.CreateEmptyArray(3)))
show("FA CreateEmptyArray mismatch", lambda: fa_info(FixedArray.CreateEmptyArray(3,[1,2])))
show("FA CreateEmptyArray 1", lambda: fa_info(FixedArray.CreateEmptyArray(1)))
fa = FixedArray(3,[1.,2.,3.],'m')
show("FA CreateCopy values mismatch", lambda: fa_info(fa.CreateCopy(values=[1,2])))
show("FA CreateCopy unit", lambda: fa_info(fa.CreateCopy(unit='cm')))
show("FA + FA", lambda: fa_info(fa+fa))
show("FA + FA(2)", lambda: fa_info(fa+FixedArray(2,[1.,2.],'m')))
show("FA(np)+FA(np 2)", lambda: fa_info(FixedArray(3,np.array([1.,2,3]),'m')+FixedArray(2,np.array([1.,2]),'m')))
show("FA * 2", lambda: fa_info(fa*2))
show("FA * Array", lambda: (type(fa*Array([1.,2.,3.],'m')).__name__, (fa*Array([1.,2.,3.],'m')).values))
show("Array * FA", lambda: (type(Array([1.,2.,3.],'m')*fa).__name__))
show("FA*Array(2)", lambda: fa_info(fa*Array([1.,2.],'m')))
show("FA pickle", lambda: pickle.loads(pickle.dumps(fa))==fa)
show("FA(category only)", lambda: fa_info(FixedArray(3,'length')))
show("FA ChangingIndex", lambda: fa_info(fa.ChangingIndex(1, Scalar(5,'cm'))))
show("FA ChangingIndex keep", lambda: fa_info(fa.ChangingIndex(1, Scalar(5,'cm'), use_value_unit=False)))
show("FA ChangingIndex tuple", lambda: fa_info(fa.ChangingIndex(1, (5,'cm'))))
show("FA ChangingIndex float", lambda: fa_info(fa.ChangingIndex(-1, 5.0)))
show("FA ChangingIndex oob", lambda: fa_info(fa.ChangingIndex(3, 5.0)))
show("FA ChangingIndex wrong qt", lambda: fa_info(fa.ChangingIndex(0, Scalar(5,'s'))))
show("FA IndexAsScalar", lambda: fa.IndexAsScalar(1, ObtainQuantity('cm')))
show("fa unchanged", lambda: fa_info(fa))
show("FA deepcopy is", lambda: copy.deepcopy(fa) is fa)
show("FA empty ChangingIndex", lambda: fa_info(FixedArray.CreateEmptyArray(2).ChangingIndex(0, 1.0)))
# Curve
c = Curve(Array([1,2,3],'m'), Array([0,1,2],'s'))
show("Curve SetImage bad", lambda: c.SetImage(Array([1,2],'m')))
show("Curve lens", lambda: (len(c.GetImage()), len(c.GetDomain())))
show("Curve ctor bad", lambda: Curve(Array([1,2],'m'), Array([0,1,2],'s')))
# C13 / C07 pickles
for s in [Scalar(1,'m'), Scalar(1,'m')*Scalar(2,'s'), Scalar(1,'m')/Scalar(2,'s'), Scalar.CreateEmptyScalar(3), Scalar(GetUnknownQuantity('foo'), 3.0), Scalar(1,'m','depth')]:
    show(f"pickle {s!r}", lambda: (pickle.loads(pickle.dumps(s))==s, pickle.loads(pickle.dumps(s.GetQuantity())) is s.GetQuantity(), s.CreateCopy()==s))
show("Array pickle", lambda: pickle.loads(pickle.dumps(Array([1,2],'m')))==Array([1,2],'m'))
show("FracScalar pickle", lambda: pickle.loads(pickle.dumps(FractionScalar(1.5,'m')))==FractionScalar(1.5,'m'))
show("FracScalar CreateCopy", lambda: FractionScalar(FractionValue(1,(1,2)),'m').CreateCopy()==FractionScalar(FractionValue(1,(1,2)),'m'))
show("FracScalar CreateCopy unit", lambda: FractionScalar(FractionValue(1,(1,2)),'m').CreateCopy(unit='cm'))
# derived CreateCopy(unit=...)
d = Scalar(1,'m')/Scalar(2,'s')
show("derived CreateCopy(unit)", lambda: d.CreateCopy(unit='km/h'))
show("derived GetValue(own unit)", lambda: d.GetValue('m/s'))
show("derived GetValue(other)", lambda: d.GetValue('km/h'))
dd = Scalar(1,'m')*Scalar(1,'m')
show("m2 GetValue m2", lambda: dd.GetValue('m2'))
show("m2 GetValue cm2", lambda: dd.GetValue('cm2'))
show("m2 unit/cat/qt", lambda: (dd.unit, dd.category, dd.quantity_type, dd.GetQuantity().GetComposingUnits(), dd.GetQuantity().GetComposingCategories()))
