import collections, random, copy
from barril.units.unit_database import UnitDatabase
from barril.units.unit_system_manager import UnitSystemManager
random.seed(19)
db=UnitDatabase.GetSingleton()
IDS=['a','b','c']; CATS=['length','time']; UNITS={'length':['m','cm','km'],'time':['s','min']}
cnt=collections.Counter(); ex={}
def rec(k,i): cnt[k]+=1; ex.setdefault(k,i)
for hist in range(3000):
    m=UnitSystemManager(); log=[]
    m.on_current.Register(lambda s: log.append(('cur', s.GetId())))
    m.on_unit_changed.Register(lambda c,u: log.append(('unit',c,u)))
    # reference
    R={'sys':collections.OrderedDict(),'cur':None,'tmpl':None,'log':[]}
    objs={}   # id -> real system object (incl. removed ones)
    trace=[]
    for step in range(random.randint(1,14)):
        op=random.choice(['add','add','remove','setcur','setdef','setdef','rmcat','template','convert','newid'])
        before=(list(m.GetUnitSystems()), m.GetCurrent().GetId(), {k:dict(v.GetUnitsMapping()) for k,v in m.GetUnitSystems().items()}, list(log))
        rej_real=None; rej_ref=None
        if op=='add':
            i=random.choice(IDS); mp=random.choice([None, {}, {'length':random.choice(UNITS['length'])}, {'length':'m','time':'s'}])
            trace.append(('add',i,mp))
            try: objs[i]=m.AddUnitSystem(i,i.upper(),copy.deepcopy(mp) if mp is not None else None)
            except Exception as e: rej_real=type(e).__name__
            if i in R['sys']: rej_ref=True
            else:
                if R['tmpl'] is not None:
                    if mp is None: mp2=dict(R['tmpl'])
                    elif set(mp)>=set(R['tmpl']): mp2=dict(mp)
                    else: rej_ref=True
                else: mp2=dict(mp) if mp is not None else {}
                if not rej_ref:
                    R['sys'][i]=mp2
                    if R['cur'] is None: R['cur']=i; R['log'].append(('cur',i))
        elif op=='remove':
            i=random.choice(IDS); trace.append(('remove',i))
            try: m.RemoveUnitSystem(i)
            except Exception as e: rej_real=type(e).__name__
            if i not in R['sys']: rej_ref=True
            else:
                del R['sys'][i]
                if R['cur']==i:
                    R['cur']=next(iter(R['sys']),None); R['log'].append(('cur',R['cur']))
        elif op=='setcur':
            i=random.choice(list(R['sys'])+[None]); trace.append(('setcur',i))
            try: m.SetCurrent(m.GetUnitSystems()[i] if i is not None else None)
            except Exception as e: rej_real=type(e).__name__
            R['cur']=i; R['log'].append(('cur',i))
        elif op=='setdef':
            if not R['sys']: continue
            i=random.choice(list(R['sys'])); c=random.choice(CATS); u=random.choice(UNITS[c]); trace.append(('setdef',i,c,u))
            m.GetUnitSystems()[i].SetDefaultUnit(c,u)
            R['sys'][i][c]=u
            if R['cur']==i: R['log'].append(('unit',c,u))
        elif op=='rmcat':
            if not R['sys']: continue
            i=random.choice(list(R['sys'])); c=random.choice(CATS); trace.append(('rmcat',i,c))
            m.GetUnitSystems()[i].RemoveCategory(c)
            if c in R['sys'][i]:
                del R['sys'][i][c]
                if R['cur']==i: R['log'].append(('unit',c,None))
        elif op=='template':
            mp=random.choice([{}, {'length':'m'}, {'length':'m','time':'s'}]); trace.append(('template',mp))
            try: m.SetTemplateUnitSystemByUnitsMapping(dict(mp))
            except Exception as e: rej_real=type(e).__name__
            if any(not set(v)>=set(mp) for v in R['sys'].values()): rej_ref=True
            else: R['tmpl']=dict(mp)
        elif op=='convert':
            c=random.choice(CATS); u=random.choice(UNITS[c]); trace.append(('convert',c,u))
            r=m.ConvertToCurrent(c,u,2.0)
            tu=R['sys'][R['cur']].get(c) if R['cur'] is not None else None
            want=(db.Convert(c,u,tu,2.0),tu) if tu is not None else (2.0,u)
            if r!=want: rec('convert',(trace[-6:],r,want))
        elif op=='newid':
            n=m.GetNewId()
            if n in m.GetUnitSystems(): rec('newid',n)
        if bool(rej_real)!=bool(rej_ref): rec('reject mismatch '+op,(trace[-6:],rej_real,rej_ref)); break
        after=(list(m.GetUnitSystems()), m.GetCurrent().GetId(), {k:dict(v.GetUnitsMapping()) for k,v in m.GetUnitSystems().items()}, list(log))
        if rej_real and after!=before: rec('rejected call changed state '+op,(trace[-6:],before,after)); break
        ref=(list(R['sys']), R['cur'], {k:dict(v) for k,v in R['sys'].items()}, R['log'])
        if after!=ref:
            rec('state/log mismatch after '+op,(trace[-8:],after,ref)); break
        # invariants
        if m.GetCurrent().GetId() is not None and m.GetCurrent().GetId() not in m.GetUnitSystems(): rec('current not registered',trace[-6:])
        if R['tmpl'] is not None and any(not set(v.GetUnitsMapping())>=set(R['tmpl']) for v in m.GetUnitSystems().values()): rec('system not covering template',(trace[-8:],))
print(dict(cnt))
for k,v in ex.items(): print("  ",k,v)
