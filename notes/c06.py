import re, math, collections
from fractions import Fraction as F
from barril.units.unit_database import UnitDatabase
db = UnitDatabase.GetSingleton()
rows = {}
for qt, infos in db.quantity_types.items():
    for info in infos:
        tb = info.tobase
        if hasattr(tb,'__a__'):
            a,b,c,d = (F(repr(x)) if isinstance(x,float) else F(x) for x in (tb.__a__,tb.__b__,tb.__c__,tb.__d__))
            rows[info.unit] = (qt, info.name, a, b/c, (repr(tb.__b__), repr(tb.__c__)))
        else:
            rows[info.unit] = (qt, info.name, F(0), F(1), ('1','1'))
units = set(rows)
# grammar: num/den ; factors separated by '.', exponent suffix digits ; '1' numerator allowed
def parse_factor(f):
    # try whole as unit first, then unit+exp digits
    if f in units: return [(f,1)]
    m = re.match(r'^(.*?)(\d+)$', f)
    if m and m.group(1) in units: return [(m.group(1), int(m.group(2)))]
    return None
def parse_side(s):
    out=[]
    for f in s.split('.'):
        if f=='1': continue
        # numeric prefix like '1000ft3'
        r = parse_factor(f)
        if r is None: return None
        out+=r
    return out
def decompose(sym):
    if '/' in sym:
        parts = sym.split('/')
        if len(parts)!=2: return None
        n = parse_side(parts[0]); d = parse_side(parts[1])
        if n is None or d is None: return None
        return n + [(u,-e) for u,e in d]
    else:
        if '.' in sym or re.search(r'\d$', sym):
            r = parse_side(sym)
            if r is None: return None
            if len(r)==1 and r[0]==(sym,1): return None
            return r
    return None
res=[]; affine_comp=0
for sym,(qt,name,a,k,raw) in rows.items():
    comp = decompose(sym)
    if comp is None or comp==[(sym,1)]: continue
    if any(rows[u][2]!=0 for u,e in comp): affine_comp+=1; continue
    prod = F(1)
    for u,e in comp: prod *= rows[u][3]**e
    ratio = float(k/prod)
    res.append((abs(math.log10(ratio)) if ratio>0 else 99, sym, qt, float(k), float(prod), ratio, raw))
print("decomposable rows", len(res), "skipped affine comps", affine_comp)
bins=collections.Counter()
for r in res:
    e = abs(r[5]-1)
    b = 'exact' if e==0 else ('<1e-9' if e<1e-9 else '<1e-7' if e<1e-7 else '<1e-6' if e<1e-6 else '<1e-5' if e<1e-5 else '<1e-4' if e<1e-4 else '<1e-3' if e<1e-3 else '<1e-2' if e<1e-2 else 'big')
    bins[b]+=1
print(bins)
for r in sorted(res, key=lambda r:-abs(r[5]-1))[:70]:
    print(f"{r[1]:22s} {r[2]:35s} k={r[3]:.10g} prod={r[4]:.10g} ratio={r[5]:.9g} raw={r[6]}")
