import collections, random, re
from barril.units import *
from barril.units.unit_database import UnitDatabase
db = UnitDatabase.GetSingleton()
random.seed(13)
atoms = {'length':(['m','cm','ft'],['length','depth']), 'time':(['s','min'],['time']), 'mass':(['kg','g'],['mass']), 'temperature':(['K','degC'],['temperature']),
         'pressure':(['Pa','psi'],['pressure']), 'electric current':(['A','mA'],['electric current']), 'dimensionless':(['%'],['dimensionless']), 'plane angle':(['rad','dega'],['plane angle'])}
def parse(s):
    if s=='': return []
    parts=s.split('/')
    assert len(parts)<=2, s
    def side(t):
        out=[]
        if t=='1': return out
        for f in t.split('.'):
            m=re.match(r'^(.*?)(\d*)$',f); out.append((m.group(1), int(m.group(2)) if m.group(2) else 1))
        return out
    num=side(parts[0]); den=side(parts[1]) if len(parts)==2 else []
    return num+[(u,-e) for u,e in den]
def parse_str(s, sep=' * '):
    if s=='': return []
    parts=s.split(' / ')
    assert len(parts)<=2, s
    def side(t):
        out=[]
        if t=='1': return out
        for f in t.split(sep):
            m=re.match(r'^\((.*)\) \*\* (\d+)$',f)
            out.append((m.group(1),int(m.group(2))) if m else (f,1))
        return out
    return side(parts[0])+[(u,-e) for u,e in (side(parts[1]) if len(parts)==2 else [])]
cnt=collections.Counter(); ex={}
def rec(k,i): cnt[k]+=1; ex.setdefault(k,i)
for it in range(5000):
    n=random.randint(1,6); s=None
    for _ in range(n):
        qt=random.choice(list(atoms)); us,cs=atoms[qt]
        x=Scalar(1.0, random.choice(us), random.choice(cs))
        s = x if s is None else (s*x if random.random()<0.5 else s/x)
    q=s.GetQuantity()
    joined=[(u,e) for u,e in q.GetComposingUnitsJoiningExponents()]
    expect=[(u,e) for u,e in joined if e>0]+[(u,e) for u,e in joined if e<0]
    try:
        got=parse(q.GetUnit())
        if got!=expect: rec('unit parse', (q.GetUnit(), expect, got))
    except Exception as e: rec('unit parse raises',(q.GetUnit(),str(e)))
    if q.IsDerived():
        ents=[(c,e) for c,(u,e) in q.GetCategoryToUnitAndExps().items()]
        exp_c=[(c,e) for c,e in ents if e>0]+[(c,e) for c,e in ents if e<0]
        try:
            if parse_str(q.GetCategory())!=exp_c: rec('category str',(q.GetCategory(),exp_c))
        except Exception as e: rec('category parse raises',(q.GetCategory(),str(e)))
        d=collections.OrderedDict()
        for c,(u,e) in q.GetCategoryToUnitAndExps().items():
            qt=db.GetCategoryQuantityType(c); d[qt]=d.get(qt,0)+e
        exp_q=[(k,e) for k,e in d.items() if e>0]+[(k,e) for k,e in d.items() if e<0]
        try:
            if parse_str(q.GetQuantityType())!=exp_q: rec('qtype str',(q.GetQuantityType(),exp_q))
        except Exception as e: rec('qtype parse raises',(q.GetQuantityType(),str(e)))
    if q.GetUnit() not in repr(s) or q.GetUnit() not in str(s): rec('repr/str lacks unit',(repr(s),str(s)))
print(dict(cnt))
for k,v in ex.items(): print("  ",k,v)
