import ast, inspect, textwrap, time
from fractions import Fraction as F
from barril.units.unit_database import UnitDatabase, UnitInfo

# rational functions as (num poly, den poly); poly = list of Fractions, index = degree
def padd(a,b):
    n=max(len(a),len(b)); return trim([ (a[i] if i<len(a) else 0)+(b[i] if i<len(b) else 0) for i in range(n)])
def pmul(a,b):
    r=[F(0)]*(len(a)+len(b)-1)
    for i,x in enumerate(a):
        for j,y in enumerate(b): r[i+j]+=x*y
    return trim(r)
def trim(p):
    p=list(p)
    while len(p)>1 and p[-1]==0: p.pop()
    return p
class RF:
    def __init__(s,n,d=None): s.n=trim(n); s.d=trim(d or [F(1)])
    def __add__(a,b): return RF(padd(pmul(a.n,b.d),pmul(b.n,a.d)), pmul(a.d,b.d))
    def __neg__(a): return RF([-c for c in a.n], a.d)
    def __sub__(a,b): return a+(-b)
    def __mul__(a,b): return RF(pmul(a.n,b.n), pmul(a.d,b.d))
    def __truediv__(a,b): return RF(pmul(a.n,b.d), pmul(a.d,b.n))
def const(c):
    if isinstance(c,bool): raise ValueError
    if isinstance(c,int): return RF([F(c)])
    if isinstance(c,float): return RF([F(repr(c))])
    raise ValueError(type(c))
X = RF([F(0),F(1)])
def ev(node, env, arg):
    if isinstance(node, ast.BinOp):
        l, r = ev(node.left,env,arg), ev(node.right,env,arg)
        if isinstance(node.op, ast.Add): return l+r
        if isinstance(node.op, ast.Sub): return l-r
        if isinstance(node.op, ast.Mult): return l*r
        if isinstance(node.op, ast.Div): return l/r
        raise ValueError(ast.dump(node.op))
    if isinstance(node, ast.UnaryOp) and isinstance(node.op, ast.USub): return -ev(node.operand,env,arg)
    if isinstance(node, ast.Constant): return const(node.value)
    if isinstance(node, ast.Name):
        if node.id == arg: return X
        return const(env[node.id])
    if isinstance(node, ast.Call) and isinstance(node.func, ast.Name) and node.func.id=='float' and len(node.args)==1:
        return ev(node.args[0],env,arg)
    raise ValueError(ast.dump(node))
def mobius(rf):
    if len(rf.n)>2 or len(rf.d)>2: raise ValueError("degree")
    p=rf.n[0]; q=rf.n[1] if len(rf.n)>1 else F(0); r=rf.d[0]; s=rf.d[1] if len(rf.d)>1 else F(0)
    return (p,q,r,s)
def translate(func, formula):
    if isinstance(formula, str):
        s = formula.replace("%s","x").replace("%f","x")
        return mobius(ev(ast.parse(s.strip(), mode='eval').body, {}, 'x'))
    src = textwrap.dedent(inspect.getsource(func))
    fn = ast.parse(src).body[0]
    assert isinstance(fn, ast.FunctionDef) and len(fn.body)==1 and isinstance(fn.body[0], ast.Return), ast.dump(fn)[:200]
    env = dict(zip(func.__code__.co_freevars, (c.cell_contents for c in (func.__closure__ or ()))))
    return mobius(ev(fn.body[0].value, env, fn.args.args[0].arg))
def wf(to, fr):
    p,q,r,s = to; p2,q2,r2,s2 = fr
    return s==0 and s2==0 and r!=0 and r2!=0 and q*r>0 and p2*r+q2*p==0 and q2*q==r*r2

UnitInfo.ADD_STR_INFO_TO_UNIT_INFO = True
t0=time.time()
def build(kind):
    db = UnitDatabase()
    if kind=='posc': UnitDatabase.FillUnitDatabaseWithPosc(db)
    elif kind=='nocat': UnitDatabase.FillUnitDatabaseWithPosc(db, fill_categories=False)
    else: UnitDatabase.FillSimple(db)
    return db
for kind in ('posc','nocat','simple'):
    db = build(kind); bad=[]; n=0
    for qt, infos in db.quantity_types.items():
        for info in infos:
            to = translate(info.tobase, info.tobase_str); fr = translate(info.frombase, info.frombase_str); n+=1
            if not wf(to,fr): bad.append((qt,info.unit,to,fr))
    print(kind, n, "rows; not WF:", [(b[0],b[1]) for b in bad])
print("time %.1fs"%(time.time()-t0))

# ---- emit Lean chunk(s) with real rows
def enc(s): return int.from_bytes(s.encode('utf8'),'little')
def rat(fr): return f"({fr.numerator},{fr.denominator})"
db = build('posc')
rows=[]
for qt, infos in db.quantity_types.items():
    for info in infos:
        to = translate(info.tobase, info.tobase_str); fr = translate(info.frombase, info.frombase_str)
        rows.append(f"⟨{enc(qt)},{enc(info.unit)},⟨{','.join(rat(c) for c in to)}⟩,⟨{','.join(rat(c) for c in fr)}⟩⟩")
HEAD = '''
set_option maxRecDepth 100000
structure Mob where
  p : Int × Nat
  q : Int × Nat
  r : Int × Nat
  s : Int × Nat
structure Row where
  qt : Nat
  sym : Nat
  to : Mob
  fr : Mob
def R (x : Int × Nat) : Rat := (x.1 : Rat) / (x.2 : Rat)
def Row.wf (w : Row) : Bool :=
  R w.to.s == 0 && R w.fr.s == 0 && R w.to.r != 0 && R w.fr.r != 0 && decide (0 < R w.to.q * R w.to.r)
  && R w.fr.p * R w.to.r + R w.fr.q * R w.to.p == 0 && R w.fr.q * R w.to.q == R w.to.r * R w.fr.r
'''
def emit(path, rs):
    open(path,'w').write(HEAD + "def tbl : List Row := [\n" + ",\n".join(rs) + "]\n" +
      "theorem tbl_wf : tbl.all Row.wf = true := by decide +kernel\n#print axioms tbl_wf\n")
emit('/tmp/probe/c100.lean', rows[300:400])
emit('/tmp/probe/call.lean', rows)
