import collections, random, copy, attr
from barril.units import *
from barril.units.unit_database import UnitDatabase, UnitsError
random.seed(23)
cnt=collections.Counter(); ex={}
def rec(k,i): cnt[k]+=1; ex.setdefault(k,i)
QT=['length','time','x']; SY=['m','cm','1000ft3','Mcf','s','min']; CA=['length','time','depth','c1']
FORM={'cm':('x*100.0','x/100.0'),'min':('x/60.0','x*60.0'),'m':('x*2.0','x/2.0'),'s':('x*3.0','x/3.0'),'1000ft3':('x*5.0','x/5.0'),'Mcf':('x*7.0','x/7.0')}
def snap(db):
    qt={k:[(i.unit,i.name,i.default_category,i.quantity_type,i.tobase(1.0),i.frombase(1.0)) for i in v] for k,v in db.quantity_types.items()}
    un={k:(i.unit,i.quantity_type) for k,i in db.unit_to_unit_info.items()}
    ca={k:attr.asdict(v) for k,v in db.categories_to_quantity_types.items()}
    return copy.deepcopy((qt,un,ca))
def rnd_op():
    k=random.choice(['base','unit','unit','cat','cat','cat'])
    if k=='base': return ('base',random.choice(QT),random.choice(SY))
    if k=='unit':
        u=random.choice(SY+[None]); f=random.choice([FORM.get(u,('x','x')),('y*2','x'),('x*','x')]) if random.random()<0.2 else FORM.get(u,('x','x'))
        return ('unit',random.choice(QT),u,f,random.choice([None,None,'depth','nope']))
    kw={}
    if random.random()<0.4: kw['valid_units']=random.sample(SY,random.randint(0,3))
    if random.random()<0.3: kw['default_unit']=random.choice(SY)
    if random.random()<0.3: kw['override']=True
    if random.random()<0.3: kw['min_value']=random.choice([0.0,5.0])
    if random.random()<0.3: kw['max_value']=random.choice([1.0,10.0])
    if random.random()<0.2: kw['is_min_exclusive']=True
    if random.random()<0.2: kw['is_max_exclusive']=True
    if random.random()<0.3: kw['default_value']=random.choice([0.0,1.0,5.0,20.0])
    if random.random()<0.2: return ('cat',random.choice(CA),None,dict(kw,from_category=random.choice(CA)))
    return ('cat',random.choice(CA),random.choice(QT+['nope']),kw)
def apply(db,op):
    if op[0]=='base': db.AddUnitBase(op[1],op[2],op[2])
    elif op[0]=='unit': db.AddUnit(op[1],str(op[2]),op[2],op[3][0],op[3][1],default_category=op[4])
    else: db.AddCategory(op[1],op[2],**copy.deepcopy(op[3]))
def queries(db):
    out=[]
    def q(label,f):
        try: r=f()
        except Exception as e: r='ERR '+('units' if isinstance(e,UnitsError) else type(e).__name__)
        out.append((label,repr(r)))
    for c in CA:
        q(('validunits',c),lambda: list(db.GetValidUnits(c))); q(('defunit',c),lambda: db.GetDefaultUnit(c)); q(('defval',c),lambda: db.GetDefaultValue(c))
        q(('Scalar(c)',c),lambda: (Scalar(c), Scalar(c).IsValid()))
        for u in SY:
            q(('Scalar',c,u),lambda: (Scalar(1.0,u,c), Scalar(1.0,u,c).IsValid(), Scalar(1.0,u,c).GetValidUnits()))
            q(('check',c,u),lambda: db.CheckCategoryUnit(c,u))
    for u in SY:
        q(('defcat',u),lambda: db.GetDefaultCategory(u)); q(('qt',u),lambda: db.GetQuantityType(u)); q(('Scalar(u)',u),lambda: Scalar(2.0,u))
        for v in SY:
            for t in QT: q(('conv',t,u,v),lambda: db.Convert(t,u,v,2.0))
    for t in QT: q(('units',t),lambda: db.GetUnits(t)); q(('base',t),lambda: db.GetBaseUnit(t))
    return out
for hist in range(1500):
    db=UnitDatabase(); UnitDatabase.PushSingleton(db); accepted=[]; hasbase=set()
    try:
        for step in range(random.randint(1,12)):
            op=rnd_op(); before=snap(db)
            # a few read-only/failed queries interleaved (warm the caches)
            if random.random()<0.6:
                b0=snap(db); queries(db)
                if snap(db)!=b0: rec('query changed registry',(accepted[-5:],)); 
            try:
                apply(db,op); accepted.append(op)
                if op[0]=='base': hasbase.add(op[1])
            except Exception as e:
                if snap(db)!=before: rec('rejected registration changed registry '+op[0]+' '+type(e).__name__,(accepted[-4:],op,str(e)[:60]))
                continue
            # invariants
            syms=[i.unit for v in db.quantity_types.values() for i in v]
            if len(syms)!=len(set(syms)) or set(syms)!=set(db.unit_to_unit_info): rec('symbol maps inconsistent',(accepted[-5:],))
            for k,i in db.unit_to_unit_info.items():
                if i not in db.quantity_types.get(i.quantity_type,[]): rec('unit not in its type list',(accepted[-5:],k))
            for t,v in db.quantity_types.items():
                if not v: rec('empty type',(accepted[-5:],t))
                elif t in hasbase and v[0].tobase.__has_conversion__ is not False: rec('base not first',(accepted[-5:],t))
            for c,ci in db.categories_to_quantity_types.items():
                if ci.quantity_type not in db.quantity_types: rec('category dangling type',(accepted[-5:],c)); continue
                us=set(db.GetUnits(ci.quantity_type))
                if ci.default_unit not in us: rec('default unit not in type',(accepted[-5:],c,ci.default_unit))
                if ci.valid_units is not None and not set(ci.valid_units)<=us: rec('valid units not in type',(accepted[-5:],c,ci.valid_units))
                dv=ci.default_value
                if ci.min_value is not None and not (dv>ci.min_value if ci.is_min_exclusive else dv>=ci.min_value): rec('default below min',(accepted[-5:],c))
                if ci.max_value is not None and not (dv<ci.max_value if ci.is_max_exclusive else dv<=ci.max_value): rec('default above max',(accepted[-5:],c))
                try:
                    if not Scalar(c).IsValid(): rec('Scalar(c) invalid',(accepted[-5:],c))
                except Exception as e: rec('Scalar(c) raises '+type(e).__name__,(accepted[-5:],c,str(e)[:60]))
        # warm vs fresh
        warm=queries(db)
        fresh=UnitDatabase(); UnitDatabase.PushSingleton(fresh)
        try:
            for op in accepted: apply(fresh,op)
            cold=queries(fresh)
        finally: UnitDatabase.PopSingleton()
        if warm!=cold:
            d=[(a,b) for a,b in zip(warm,cold) if a!=b][0]
            rec('warm!=fresh '+str(d[0][0][0]),(accepted,d))
    finally:
        UnitDatabase.PopSingleton()
print(dict(cnt))
for k,v in ex.items(): print("  ",k,str(v)[:700])
