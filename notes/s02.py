import collections, random, math
import numpy as np
from barril.units import *
from barril.units.unit_database import UnitDatabase
from barril.units.unit_system_manager import UnitSystemManager
db = UnitDatabase.GetSingleton()
random.seed(7)
cnt=collections.Counter(); ex={}
def rec(k, info): cnt[k]+=1; ex.setdefault(k, info)
def close(a,b):
    a=float(a); b=float(b)
    return a==b or abs(a-b) <= 1e-9*max(abs(a),abs(b),1e-300) or (math.isnan(a) and math.isnan(b))
cats_by_qt=collections.defaultdict(list)
for c,ci in db.categories_to_quantity_types.items(): cats_by_qt[ci.quantity_type].append(c)
class Owner: pass
for qt, infos in db.quantity_types.items():
    us=[i.unit for i in infos]
    pairs=[(u,v) for u in us for v in us if u!=v]
    random.shuffle(pairs)
    for (u,v) in pairs[:12]:
        for c in cats_by_qt.get(qt, [])[:3]:
            x=random.choice([0.0,1.0,-3.5,1234.5])
            ref=db.Convert(qt,u,v,x)
            routes={
              'Scalar.GetValue': lambda: Scalar(x,u,c).GetValue(v),
              'CreateCopy.value': lambda: Scalar(x,u,c).CreateCopy(unit=v).value,
              'Quantity.ConvertScalarValue': lambda: ObtainQuantity(u,c).ConvertScalarValue(x,v),
              'Quantity.Convert': lambda: ObtainQuantity(u,c).Convert(x,v),
              'db.Convert cat': lambda: db.Convert(c,u,v,x),
              'db.Convert int': lambda: db.Convert(qt,u,v,int(x)) if x==int(x) else ref,
              'db.Convert list': lambda: db.Convert(qt,u,v,[x,x])[1],
              'db.Convert tuple': lambda: db.Convert(qt,u,v,(x,x))[1],
              'db.Convert np': lambda: db.Convert(qt,u,v,np.array([x,x]))[1],
              'db.Convert exp-list': lambda: db.Convert(qt,[(u,1)],[(v,1)],x),
              'Array.GetValues list': lambda: Array([x,x],u,c).GetValues(v)[1],
              'Array.GetValues tuple': lambda: Array((x,x),u,c).GetValues(v)[1],
              'Array.GetValues np': lambda: Array(np.array([x,x]),u,c).GetValues(v)[1],
              'Array.GetValues tuples': lambda: Array([(x,x),(x,x)],u,c).GetValues(v)[1][1],
              'FixedArray.IndexAsScalar': lambda: FixedArray(2,c,[x,x],u).IndexAsScalar(1, ObtainQuantity(v,c)).value,
              'FixedArray.ChangingIndex': lambda: FixedArray(2,c,[x,x],u).ChangingIndex(0, Scalar(1.0,v,c)).values[1],
              'FractionScalar.GetValue': lambda: float(FractionScalar(x,u,c).GetValue(v)),
            }
            for k,f in routes.items():
                try:
                    r=f()
                    if not close(r,ref): rec(k+' differs', (qt,u,v,c,x,r,ref))
                except Exception as e: rec(k+' raises '+type(e).__name__, (qt,u,v,c,str(e)[:60]))
            # category/type kept
            try:
                cc=Scalar(x,u,c).CreateCopy(unit=v)
                if cc.category!=c or cc.quantity_type!=qt or cc.unit!=v: rec('CreateCopy cat/type', (u,v,c,cc))
                o=Owner(); o.s=Scalar(x,u,c); ChangeScalars(o, s=(None,v))
                if o.s.category!=c or not close(o.s.value,ref): rec('ChangeScalars', (u,v,c,o.s))
                m=UnitSystemManager(); m.AddUnitSystem('a','A',{c:v})
                r,ru=m.ConvertToCurrent(c,u,x)
                if ru!=v or not close(r,ref): rec('ConvertToCurrent',(u,v,c,r,ref))
                s2=m.ConvertScalarToCurrent(Scalar(x,u,c))
                if s2.category!=c or s2.unit!=v or not close(s2.value,ref): rec('ConvertScalarToCurrent',(u,v,c,s2))
                # default in non-default unit
                ci=db.GetCategoryInfo(c)
                d=Scalar(c, unit=v)
                if not close(d.value, db.Convert(qt,ci.default_unit,v,ci.default_value)): rec('default value', (c,v,d))
            except Exception as e: rec('glue raises '+type(e).__name__, (qt,u,v,c,str(e)[:80]))
print(dict(cnt))
for k,v in ex.items(): print("  ",k,v)
