import math, random
from barril.units import *
from barril.units.unit_database import UnitDatabase
from barril.units.unit_system_manager import UnitSystemManager
from barril.basic.fraction import Fraction, FractionValue
from fractions import Fraction as F
def show(label, f):
    try:
        r = f(); print(f"{label}: {r!r}")
    except Exception as e:
        print(f"{label}: RAISES {type(e).__name__}: {str(e)[:140]}")
# C18 CreateFromFloat sweep
random.seed(1)
bad=[]; n=0
for _ in range(200000):
    digits = random.randint(1,8)
    mant = random.randint(1,10**digits-1)
    exp = random.randint(0,digits)
    x = mant/10**exp
    if random.random()<0.3: x=-x
    x = float(repr(x))
    try:
        fv = FractionValue.CreateFromFloat(x)
        y = float(fv)
        n+=1
        if abs(y-x) > 1e-9*max(1,abs(x)): bad.append((x,repr(fv),y))
    except Exception as e:
        bad.append((x,type(e).__name__,str(e)[:60]))
print("CreateFromFloat bad", len(bad), "of", n, bad[:15])
# format/parse round trip
bad=[]
for _ in range(50000):
    num = random.choice([random.randint(-1000,1000), round(random.uniform(-100,100),random.randint(0,3))])
    p = random.randint(0,50); q = random.randint(1,64)
    if random.random()<0.2: p = round(random.uniform(0,10),1)
    fv = FractionValue(num,(p,q))
    s = str(fv)
    try:
        fv2 = FractionValue.CreateFromString(s)
        if not (fv2==fv) : bad.append((repr(fv), s, repr(fv2)))
    except Exception as e:
        bad.append((repr(fv), s, type(e).__name__))
print("format/parse bad", len(bad), bad[:15])
# Fraction arithmetic vs exact
bad=[]
ops = ['+','-','*','/','<','==','%']
for _ in range(50000):
    a,b,c,d = random.randint(-50,50), random.randint(1,30), random.randint(-50,50), random.randint(1,30)
    if random.random()<0.1: b=-b
    x, y = Fraction(a,b), Fraction(c,d); X,Y = F(a,b), F(c,d)
    for op in ops:
        try:
            r = eval(f"x {op} y"); R = eval(f"X {op} Y")
            if isinstance(r, Fraction): r = F(r.numerator, r.denominator)
            if r!=R: bad.append((a,b,c,d,op,r,R))
        except ZeroDivisionError: pass
        except Exception as e: bad.append((a,b,c,d,op,type(e).__name__))
print("Fraction arith bad", len(bad), bad[:10])
show("Fraction(1,2)+0.25", lambda: Fraction(1,2)+0.25)
show("Fraction(0.1,3)", lambda: Fraction(0.1,3))
show("Fraction(1,2)**2", lambda: Fraction(1,2)**2)
show("Fraction(1,2)**-2", lambda: Fraction(1,2)**-2)
show("Fraction(1,4)**0.5", lambda: Fraction(1,4)**0.5)
show("abs(Fraction(-1,2))", lambda: abs(Fraction(-1,2)))
show("Fraction(1,2)==0.5", lambda: Fraction(1,2)==0.5)
show("Fraction(1,2)<'a'", lambda: Fraction(1,2)<'a')
show("FV lt", lambda: FractionValue(1,(1,2)) < FractionValue(1.5,(1,100)))
show("FV copy", lambda: __import__('copy').copy(FractionValue(1,(1,2)))==FractionValue(1,(1,2)))
show("FV eq None", lambda: FractionValue(1,(1,2))==None)
show("FV neg", lambda: (str(FractionValue(-1,(1,2))), float(FractionValue(-1,(1,2)))))
show("FV CreateFromFloat -1.5", lambda: (FractionValue.CreateFromFloat(-1.5), float(FractionValue.CreateFromFloat(-1.5))))
show("FV CreateFromFloat -0.5", lambda: (FractionValue.CreateFromFloat(-0.5), float(FractionValue.CreateFromFloat(-0.5))))
# FractionScalar compare/convert
show("FS lt", lambda: FractionScalar(FractionValue(1,(1,2)),'m') < FractionScalar(FractionValue(151,(0,1)),'cm'))
show("FS gt both", lambda: (FractionScalar(1.0,'m') > FractionScalar(100.0,'cm'), FractionScalar(100.0,'cm') > FractionScalar(1.0,'m')))
show("FS lt other qt", lambda: FractionScalar(1.0,'m') < FractionScalar(100.0,'s'))
show("FS vs Scalar lt", lambda: FractionScalar(1.0,'m') < Scalar(100.0,'cm'))
show("Scalar vs FS lt", lambda: Scalar(1.0,'m') < FractionScalar(100.0,'cm'))
show("FS convert in->m", lambda: float(FractionScalar(FractionValue(5,(3,4)),'in').GetValue('m')))
# C17
log=[]
m = UnitSystemManager()
m.on_current.Register(lambda s: log.append(('cur', s.GetId())))
m.on_unit_changed.Register(lambda c,u: log.append(('unit',c,u)))
shared = {'length':'m'}
a = m.AddUnitSystem('a','A',shared); b = m.AddUnitSystem('b','B',shared)
b.SetDefaultUnit('length','cm')
show("shared: a mapping, log", lambda: (a.GetUnitsMapping(), log))
show("Add dup id", lambda: m.AddUnitSystem('a','A2',{}))
show("Remove unknown", lambda: m.RemoveUnitSystem('zzz'))
show("Remove a (current)", lambda: (m.RemoveUnitSystem('a'), m.GetCurrent().GetId(), log))
a.SetDefaultUnit('length','km')
show("after removed a changes", lambda: log)
m.SetTemplateUnitSystemByUnitsMapping({'length':'m'})
show("Add lacking cat", lambda: m.AddUnitSystem('c','C',{'time':'s'}))
show("template not covering existing", lambda: m.SetTemplateUnitSystemByUnitsMapping({'time':'s'}))
show("Add None mapping", lambda: m.AddUnitSystem('d','D').GetUnitsMapping())
show("GetNewId", lambda: m.GetNewId())
show("ConvertToCurrent", lambda: m.ConvertToCurrent('length','m',1.0))
show("ConvertToCurrent nocat", lambda: m.ConvertToCurrent('time','s',1.0))
show("SetCurrent unregistered", lambda: (m.SetCurrent(a), m.GetCurrent().GetId(), list(m.GetUnitSystems())))
