import collections, random, math, itertools
import numpy as np
from barril.units import *
from barril.units.unit_database import UnitDatabase
from barril.basic.fraction import FractionValue
random.seed(17)
cnt=collections.Counter(); ex={}
def rec(k,i): cnt[k]+=1; ex.setdefault(k,i)
nan=float('nan'); inf=float('inf')
def ok(v, mn, mx, me, xe):
    if mn is None and mx is None: return True
    if v!=v: return False
    if mn is not None and not (v>mn if me else v>=mn): return False
    if mx is not None and not (v<mx if xe else v<=mx): return False
    return True
configs=[(mn,mx,me,xe) for mn in (None,0.0) for mx in (None,10.0) for me in (False,True) for xe in (False,True)]
for (mn,mx,me,xe) in configs:
    db=UnitDatabase(); UnitDatabase.PushSingleton(db)
    try:
        db.AddUnitBase('length','m','m'); db.AddUnit('length','cm','cm','x*100.0','x/100.0'); db.AddUnit('length','km','km','x/1000.0','x*1000.0')
        db.AddUnitBase('temperature','K','K'); db.AddUnit('temperature','degC','degC','x-273.15','x+273.15')
        kw=dict(min_value=mn,max_value=mx,is_min_exclusive=me,is_max_exclusive=xe)
        try:
            db.AddCategory('L','length',default_value=5.0,**kw); db.AddCategory('Lcm','length',default_unit='cm',default_value=5.0,**kw)
            db.AddCategory('T','temperature',default_value=5.0,**kw)
        except Exception as e:
            rec('AddCategory raises',(mn,mx,me,xe,repr(e)[:80])); continue
        for cat,qt,du in (('L','length','m'),('Lcm','length','cm'),('T','temperature','K')):
            for u in db.GetUnits(qt):
                base_vals=[0.0,10.0,5.0,-1.0,11.0,1e-300,10.000000000000002,9.999999999999998,-0.0,nan,inf,-inf]
                for bv in base_vals:
                    v = db.Convert(qt,du,u,bv) if bv==bv and abs(bv)!=inf else bv
                    vd = db.Convert(qt,u,du,v) if v==v and abs(v)!=inf else v   # what the check will see
                    want=ok(vd,mn,mx,me,xe)
                    s=Scalar(v,u,cat)
                    if s.IsValid()!=want: rec('scalar verdict',(cat,u,v,vd,(mn,mx,me,xe),s.IsValid(),want))
                    if v==v and abs(v)!=inf:
                        fs=FractionScalar(v,u,cat)
                        if fs.IsValid()!=want: rec('fs verdict',(cat,u,v,fs.IsValid(),want))
                    try:
                        s.CheckValidity()
                        if not want: rec('CheckValidity no raise',(cat,u,v))
                    except ValueError as e:
                        if want: rec('CheckValidity raises',(cat,u,v))
                        else:
                            op=e.operator; lim=e.limit_value
                            viol=[]
                            if mn is not None and not (vd>mn if me else vd>=mn): viol.append(('>' if me else '>=',mn))
                            if mx is not None and not (vd<mx if xe else vd<=mx): viol.append(('<' if xe else '<=',mx))
                            if (op,lim) not in viol: rec('reported limit',(cat,u,v,op,lim,viol))
                # arrays
                for trial in range(30):
                    n=random.randint(0,5)
                    elems=[random.choice(base_vals) for _ in range(n)]
                    vals=[db.Convert(qt,du,u,b) if b==b and abs(b)!=inf else b for b in elems]
                    seen=[db.Convert(qt,u,du,v) if v==v and abs(v)!=inf else v for v in vals]
                    want=all(ok(x,mn,mx,me,xe) for x in seen if x==x)
                    verdicts=set()
                    for cont in (list,tuple,np.array):
                        for perm in ([vals, vals[::-1], sorted(vals,key=lambda z:(z!=z,z))]):
                            a=Array(cont(perm),u,cat)
                            r=a.IsValid(); verdicts.add(r)
                            if r!=a.IsValid(): rec('cached verdict differs',None)
                    if verdicts!={want}: rec('array verdict',(cat,u,vals,(mn,mx,me,xe),verdicts,want))
    finally:
        UnitDatabase.PopSingleton()
print(dict(cnt))
for k,v in ex.items(): print("  ",k,v)
