import warnings, traceback
from barril.units import *
from barril.units.unit_database import UnitDatabase
import numpy as np
def show(label, f):
    try:
        r = f()
        print(f"{label}: {r!r}")
    except Exception as e:
        print(f"{label}: RAISES {type(e).__name__}: {str(e)[:150]}")

# C01 FillSimple
db = UnitDatabase(); UnitDatabase.FillSimple(db)
show("simple s->min->s", lambda: db.Convert('time','min','s', db.Convert('time','s','min', 120.0)))
show("simple s->min", lambda: db.Convert('time','s','min', 120.0))
# C02
from barril.units.unit_system_manager import UnitSystemManager
m = UnitSystemManager()
m.AddUnitSystem('a','A',{'depth':'km','length':'cm'})
s = Scalar(1000.0,'m','depth')
show("ConvertScalarToCurrent depth", lambda: m.ConvertScalarToCurrent(s))
# C03
a = Scalar(1,'m')*Scalar(1,'m'); b = Scalar(100,'cm')*Scalar(100,'cm')
show("m2+cm2", lambda: a+b)
show("1/(2s)+1/(2min)", lambda: 1/Scalar(2,'s') + 1/Scalar(2,'min'))
# C04
show("cm*(m*m)", lambda: Scalar(1,'cm')*(Scalar(1,'m')*Scalar(1,'m')))
show("(m*m)*cm", lambda: (Scalar(1,'m')*Scalar(1,'m'))*Scalar(1,'cm'))
# C08
show("1m>100cm", lambda: (Scalar(1,'m') > Scalar(100,'cm'), Scalar(100,'cm') > Scalar(1,'m')))
show("FixedArray==Array", lambda: FixedArray(2,[1,2],'m') == Array([1,2],'m'))
from barril.basic.fraction import Fraction, FractionValue
show("Fraction==None", lambda: Fraction(1,2) == None)
# C09
show("ndarray*Array", lambda: np.array([1.,2.])*Array(np.array([1.,2.]),'m'))
show("ndarray*Array(list)", lambda: np.array([1.,2.])*Array([1.,2.],'m'))
show("npfloat*Scalar", lambda: np.float64(2.0)*Scalar(1,'m'))
show("npfloat+Scalar", lambda: np.float64(2.0)+Scalar(1,'m'))
show("npfloat/Scalar", lambda: np.float64(2.0)/Scalar(1,'m'))
# C10
show("list len mismatch", lambda: Array([1,2,3],'m')+Array([1,2],'m'))
show("np len mismatch", lambda: Array(np.array([1,2,3.]),'m')+Array(np.array([1,2.]),'m'))
# C15
d = Scalar(1,'km','depth'); 
print("depth valid before", UnitDatabase.GetSingleton().GetValidUnits('depth'))
d.GetValidUnits()
print("depth valid after", UnitDatabase.GetSingleton().GetValidUnits('depth'))
# C17
m2 = UnitSystemManager()
m2.AddUnitSystem('a','A',{})
m2.SetCurrent(None)
show("Remove while none current", lambda: m2.RemoveUnitSystem('a'))
print(list(m2.GetUnitSystems()))
# C18
fs = FractionScalar('temperature', FractionValue(5, Fraction(1,2)), 'degC')
show("5 1/2 degC -> K", lambda: float(fs.GetValue('K')))
# C20
q = (Scalar(1,'m')/Scalar(1,'s'))/Scalar(1,'kg')
show("m/s/kg", lambda: (q.GetUnit(), q.GetCategory(), q.GetQuantityType(), q.GetUnitName()))
