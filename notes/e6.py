from barril.units import *
from barril.units.unit_database import UnitDatabase
def show(label, f):
    try:
        r = f(); print(f"{label}: {r!r}")
    except Exception as e:
        print(f"{label}: RAISES {type(e).__name__}: {str(e)[:100]}")
fa = FixedArray(3,'depth',[1.,2.,3.],'m')
show("FA depth ChangingIndex", lambda: (fa.ChangingIndex(0,5.0).category, fa.ChangingIndex(0,(5.0,'cm')).category, fa.ChangingIndex(0,(5.0,'cm')).values))
show("FA empty ChangingIndex", lambda: FixedArray.CreateEmptyArray(2).ChangingIndex(0, 1.0).values)
db = UnitDatabase(); UnitDatabase.PushSingleton(db)
db.AddUnitBase('length','m','m'); db.AddCategory('length','length')
show("before reg", lambda: Scalar(1,'cm','length'))
db.AddUnit('length','cm','cm','x*100.0','x/100.0')
show("after reg", lambda: Scalar(1,'cm','length'))
db.AddUnitBase('time','s','s'); db.AddCategory('pos','length')
show("pos m", lambda: Scalar(1,'m','pos'))
db.AddCategory('pos','time',override=True)
show("pos m after override", lambda: Scalar(1,'m','pos'))
show("pos s after override", lambda: Scalar(1,'s','pos'))
