import pickle, copy
from barril.units import *
from barril.units.unit_database import UnitDatabase, FixUnitIfIsLegacy, _LEGACY_TO_CURRENT
from barril.basic.fraction import Fraction, FractionValue
import numpy as np
db = UnitDatabase.GetSingleton()
def show(label, f):
    try:
        r = f(); print(f"{label}: {r!r}")
    except Exception as e:
        print(f"{label}: RAISES {type(e).__name__}: {str(e)[:120]}")
# C10 empties
show("empty list + empty list", lambda: Array([], 'm')+Array([], 'm'))
show("empty list * empty list", lambda: Array([], 'm')*Array([], 'm'))
show("empty np * empty np", lambda: Array(np.array([]), 'm')*Array(np.array([]), 'm'))
show("empty list * 2", lambda: Array([], 'm')*2)
show("np(3)+np(1) broadcast", lambda: Array(np.array([1.,2,3]),'m')+Array(np.array([1.]),'m'))
show("list + tuple", lambda: Array([1.,2],'m')+Array((1.,2),'cm'))
show("tuple + tuple", lambda: Array((1.,2),'m')+Array((1.,2),'cm'))
show("list + np", lambda: Array([1.,2],'m')+Array(np.array([1.,2]),'cm'))
show("np + list", lambda: Array(np.array([1.,2]),'m')+Array([1.,2],'cm'))
show("np.float64 * Array(list)", lambda: np.float64(2)*Array([1.,2],'m'))
show("np.float64 + Array(np)", lambda: np.float64(2)+Array(np.array([1.,2]),'m'))
show("2/Array(list)", lambda: 2/Array([1.,2],'m'))
show("2-Array(list)", lambda: 2-Array([1.,2],'m'))
show("Array(list)//2", lambda: Array([1.,2],'m')//2)
show("2//Scalar", lambda: 2//Scalar(3,'m'))
show("Scalar**0", lambda: Scalar(3,'m')**0)
show("FromScalars", lambda: Array.FromScalars([Scalar(1,'m'),Scalar(1,'cm')]))
show("Array list of tuples GetValues", lambda: Array([(1.,2.),(3.,4.)],'m').GetValues('cm'))
# C19 default categories dangling
bad=[]
for u,info in db.unit_to_unit_info.items():
    c = db.GetDefaultCategory(u)
    if c is None or c not in db.categories_to_quantity_types: bad.append((u,c,'missing'))
    elif db.GetCategoryQuantityType(c)!=info.quantity_type: bad.append((u,c,db.GetCategoryQuantityType(c),info.quantity_type))
print("dangling default categories:", bad[:20], len(bad))
print("symbols with quote/backslash:", [u for u in db.unit_to_unit_info if "'" in u or "\\" in u], [c for c in db.categories_to_quantity_types if "'" in c or "\\" in c])
# categories: default unit/valid units consistency
badc=[]
for c,ci in db.categories_to_quantity_types.items():
    us=set(db.GetUnits(ci.quantity_type))
    if ci.default_unit not in us: badc.append((c,'default',ci.default_unit))
    if ci.valid_units is not None:
        for v in ci.valid_units:
            if v not in us: badc.append((c,'valid',v))
        if ci.default_unit not in ci.valid_units: badc.append((c,'default-not-in-valid',ci.default_unit, ci.valid_units[:3]))
    if ci.quantity_type not in db.quantity_types: badc.append((c,'qt'))
print("bad categories:", badc[:20], len(badc))
# C16 legacy
legacy=set()
for u in db.unit_to_unit_info:
    for leg,cur in _LEGACY_TO_CURRENT:
        if cur in u:
            legacy.add((u.replace(cur,leg), u))
print("legacy spellings", len(legacy))
nonidem=[(l,u) for l,u in legacy if FixUnitIfIsLegacy(FixUnitIfIsLegacy(l)[1])[1]!=FixUnitIfIsLegacy(l)[1]]
notback=[(l,u,FixUnitIfIsLegacy(l)[1]) for l,u in legacy if FixUnitIfIsLegacy(l)[1]!=u]
print("non idempotent", nonidem, "not mapped back", notback[:10], len(notback))
print("current rewritten", [(u,FixUnitIfIsLegacy(u)[1]) for u in db.unit_to_unit_info if FixUnitIfIsLegacy(u)[0]])
fails=[]
for l,u in sorted(legacy):
    if l in db.unit_to_unit_info: continue
    qt = db.unit_to_unit_info[u].quantity_type
    base = db.GetBaseUnit(qt)
    tests = {
     'Obtain': lambda: ObtainQuantity(l)==ObtainQuantity(u),
     'ObtainCat': lambda: ObtainQuantity(l,qt)==ObtainQuantity(u,qt),
     'Scalar': lambda: Scalar(1.5,l)==Scalar(1.5,u),
     'ScalarCat': lambda: Scalar(1.5,l,qt)==Scalar(1.5,u,qt),
     'Array': lambda: Array([1.5],l)==Array([1.5],u),
     'Frac': lambda: FractionScalar(1.5,l)==FractionScalar(1.5,u),
     'CreateCopy': lambda: Scalar(1.5,base).CreateCopy(unit=l)==Scalar(1.5,base).CreateCopy(unit=u),
     'GetValue': lambda: Scalar(1.5,base).GetValue(l)==Scalar(1.5,base).GetValue(u),
     'GetValues': lambda: Array([1.5],base).GetValues(l)==Array([1.5],base).GetValues(u),
     'ConvertFrom': lambda: db.Convert(qt,l,base,1.5)==db.Convert(qt,u,base,1.5),
     'ConvertTo': lambda: db.Convert(qt,base,l,1.5)==db.Convert(qt,base,u,1.5),
     'ConvertNp': lambda: (db.Convert(qt,l,base,np.array([1.5]))==db.Convert(qt,u,base,np.array([1.5]))).all(),
     'DefCat': lambda: db.GetDefaultCategory(l)==db.GetDefaultCategory(u),
     'ArrGetValuesSelf': lambda: Array([1.5],u).GetValues(l)==[1.5],
    }
    for k,t in tests.items():
        try:
            if not t(): fails.append((l,k,'False'))
        except Exception as e:
            fails.append((l,k,type(e).__name__))
import collections
print("legacy API failures:", collections.Counter((k,r) for l,k,r in fails)); print(fails[:8])
