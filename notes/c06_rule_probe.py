import re, math, collections
from fractions import Fraction as F
from barril.units.unit_database import UnitDatabase
db = UnitDatabase.GetSingleton()
def lit(x):
    """(value Fraction, rel one-unit-in-last-place or 0 if exact)"""
    if isinstance(x,int): return F(x), F(0)
    r = repr(x); v = F(r)
    if v == int(v): return v, F(0)
    m = re.match(r'^-?(\d*)\.?(\d*)(?:e([-+]?\d+))?$', r)
    ip, fp, ex = m.group(1), m.group(2), int(m.group(3) or 0)
    digits = (ip+fp).lstrip('0')
    sig = len(digits)
    if sig <= 5: return v, F(0)
    ulp = F(10)**(ex-len(fp))
    return v, abs(ulp/v)
rows={}
for qt, infos in db.quantity_types.items():
    for info in infos:
        tb=info.tobase
        if hasattr(tb,'__a__'):
            b,rb = lit(tb.__b__); c,rc = lit(tb.__c__)
            rows[info.unit]=(qt,info.name,b/c,rb+rc)
        else: rows[info.unit]=(qt,info.name,F(1),F(0))
units=set(rows)
def factor(f):
    if f in units: return [(f,1,F(1))]
    m=re.match(r'^(.*?)(\d+)$',f)
    if m and m.group(1) in units: return [(m.group(1),int(m.group(2)),F(1))]
    m=re.match(r'^(\d+)(.+)$',f)   # numeric prefix
    if m:
        r=factor(m.group(2))
        if r: return [(r[0][0],r[0][1],F(int(m.group(1))))]+r[1:]
    return None
def side(s):
    out=[]
    for f in s.split('.'):
        if f=='1': continue
        r=factor(f)
        if r is None: return None
        out+=r
    return out
def decomp(sym):
    if sym.count('/')==1:
        n,d=sym.split('/'); a=side(n); b=side(d)
        if a is None or b is None: return None
        return a+[(u,-e,1/p if p!=1 else F(1)) for u,e,p in b]
    if '/' in sym: return None
    if '.' in sym or re.search(r'\d$',sym):
        r=side(sym)
        if r and not (len(r)==1 and r[0][0]==sym): return r
    return None
SI={'y':-24,'z':-21,'a':-18,'f':-15,'p':-12,'n':-9,'u':-6,'m':-3,'c':-2,'d':-1,'da':1,'h':2,'k':3,'M':6,'G':9,'T':12,'P':15,'E':18}
SIN={'yocto':-24,'zepto':-21,'atto':-18,'femto':-15,'pico':-12,'nano':-9,'micro':-6,'milli':-3,'centi':-2,'deci':-1,'deca':1,'deka':1,'hecto':2,'kilo':3,'mega':6,'giga':9,'tera':12,'peta':15,'exa':18}
flag=[]; n=0; nsi=0
for sym,(qt,name,k,rk) in rows.items():
    comp=decomp(sym)
    if comp:
        n+=1
        prod=F(1); tol=rk
        for u,e,p in comp:
            prod*=p*rows[u][2]**e; tol+=abs(e)*rows[u][3]
        dev=abs(k-prod)/abs(prod)
        if dev>tol: flag.append((float(dev),float(tol),sym,qt,[ (u,e) for u,e,p in comp]))
    elif '/' not in sym and '.' not in sym:
        for pre,ex in SI.items():
            if sym.startswith(pre) and sym[len(pre):] in units and rows[sym[len(pre):]][0]==qt:
                base=sym[len(pre):]
                bn=rows[base][1].lower(); nm=name.lower()
                if any(nm==pn+bn or nm==pn+' '+bn for pn,pe in SIN.items() if pe==ex):
                    nsi+=1
                    prod=rows[base][2]*F(10)**ex; tol=rk+rows[base][3]
                    dev=abs(k-prod)/abs(prod)
                    if dev>tol: flag.append((float(dev),float(tol),sym,qt,[('SI',pre,base)]))
print("decomposable",n,"si-prefixed",nsi,"flagged",len(flag))
for f in sorted(flag,key=lambda f:-f[0]): print("%.3g tol=%.2g %-18s %-34s %s"%f)
