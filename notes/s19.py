import collections, itertools
from barril.units import *
from barril.units.unit_database import UnitDatabase
from barril.basic.fraction import FractionValue
db = UnitDatabase.GetSingleton()
fails = collections.Counter(); ex = {}
def rec(k, u, info):
    fails[k]+=1; ex.setdefault(k, (u, info))
for u, info in db.unit_to_unit_info.items():
    c = db.GetDefaultCategory(u)
    v = 2.5
    try:
        ref = Scalar(v, u)
    except Exception as e:
        rec('Scalar(v,u) raises', u, repr(e)[:80]); continue
    forms = {
      'Scalar(v,u,c)': lambda: Scalar(v,u,c), 'Scalar(c,v,u)': lambda: Scalar(c,v,u), 'Scalar((v,u))': lambda: Scalar((v,u)),
      'Scalar(q,v)': lambda: Scalar(ObtainQuantity(u,c), v), 'CreateWithQuantity': lambda: Scalar.CreateWithQuantity(ObtainQuantity(u,c), v),
      'kw': lambda: Scalar(value=v, unit=u, category=c),
    }
    for k,f in forms.items():
        try:
            if not (f()==ref and ref==f()): rec(k+' !=', u, (repr(f()), repr(ref)))
        except Exception as e: rec(k+' raises', u, repr(e)[:80])
    try:
        if eval(repr(ref)) != ref: rec('repr', u, repr(ref))
    except Exception as e: rec('repr raises', u, repr(e)[:80])
    # arrays
    aref = Array([v,1.0], u)
    for k,f in {'Array(vals,u,c)': lambda: Array([v,1.0],u,c), 'Array(c,vals,u)': lambda: Array(c,[v,1.0],u), 'Array(q,vals)': lambda: Array(ObtainQuantity(u,c),[v,1.0]),
                'Array.CWQ': lambda: Array.CreateWithQuantity(ObtainQuantity(u,c),[v,1.0])}.items():
        try:
            if not f()==aref: rec(k+' !=', u, None)
        except Exception as e: rec(k+' raises', u, repr(e)[:80])
    fref = FixedArray(2,[v,1.0],u)
    for k,f in {'FA(d,vals,u,c)?': lambda: FixedArray(2,c,[v,1.0],u), 'FA(q,vals)': lambda: FixedArray(2,ObtainQuantity(u,c),[v,1.0]),
                'FA.CWQ': lambda: FixedArray.CreateWithQuantity(ObtainQuantity(u,c),[v,1.0]), 'FA.CWQdim': lambda: FixedArray.CreateWithQuantity(ObtainQuantity(u,c),[v,1.0],dimension=2)}.items():
        try:
            if not f()==fref: rec(k+' !=', u, None)
        except Exception as e: rec(k+' raises', u, repr(e)[:80])
    sref = FractionScalar(v,u)
    for k,f in {'FS(v,u,c)': lambda: FractionScalar(v,u,c), 'FS(c,v,u)': lambda: FractionScalar(c,v,u), 'FS(q,v)': lambda: FractionScalar(ObtainQuantity(u,c),v),
                'FS(c,value=,unit=)': lambda: FractionScalar(c,value=FractionValue(v),unit=u)}.items():
        try:
            if not f()==sref: rec(k+' !=', u, None)
        except Exception as e: rec(k+' raises', u, repr(e)[:80])
# categories
for c, ci in db.categories_to_quantity_types.items():
    for k,f in {'Scalar(c)': lambda: Scalar(c)==Scalar(ci.default_value, ci.default_unit, c), 'Array(c)': lambda: Array(c)==Array([], ci.default_unit, c),
                'FA(3,c)': lambda: FixedArray(3,c)==FixedArray(3,[0.0]*3, ci.default_unit, c) if False else FixedArray(3,c)==FixedArray(3,c,[0.0]*3,ci.default_unit),
                'FS(c)': lambda: FractionScalar(c)==FractionScalar(c, ci.default_value, ci.default_unit),
                'Scalar(c).IsValid': lambda: Scalar(c).IsValid()}.items():
        try:
            if not f(): rec(k+' False', c, None)
        except Exception as e: rec(k+' raises', c, repr(e)[:80])
print(dict(fails)); 
for k,v in ex.items(): print(k, v)
