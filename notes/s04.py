import collections, random, math
from fractions import Fraction as F
from barril.units import *
from barril.units.unit_database import UnitDatabase
db = UnitDatabase.GetSingleton()
random.seed(11)
U = {'length':(['m','cm','km','ft','in'],['length','depth','diameter']), 'time':(['s','min','h','d'],['time']), 'mass':(['kg','g','lbm'],['mass']),
     'pressure':(['Pa','psi','bar','kPa'],['pressure']), 'volume':(['m3','L','bbl','ft3'],['volume','liquid volume'])}
def slope(qt,u): return db.Convert(qt,u,db.GetBaseUnit(qt),1.0)
def leaf():
    qt=random.choice(list(U)); us,cs=U[qt]; u=random.choice(us); c=random.choice([c for c in cs if c in db.categories_to_quantity_types])
    v=random.choice([1.0,2.0,-3.0,0.5,7.25])
    return Scalar(v,u,c), {qt:1}, v*slope(qt,u)
def comb(d1,d2,sign):
    d=dict(d1)
    for k,e in d2.items(): d[k]=d.get(k,0)+sign*e
    return {k:e for k,e in d.items() if e!=0}
def tree(depth):
    if depth==0 or random.random()<0.3: return leaf()
    (a,da,ma),(b,db_,mb)=tree(depth-1),tree(depth-1)
    if random.random()<0.55: return a*b, comb(da,db_,1), ma*mb
    return a/b, comb(da,db_,-1), ma/mb
def dims_of(s):
    q=s.GetQuantity(); d={}
    for c,(u,e) in q.GetCategoryToUnitAndExps().items():
        qt=db.GetCategoryQuantityType(c); d[qt]=d.get(qt,0)+e
    return {k:e for k,e in d.items() if e!=0}
def mag_of(s):
    q=s.GetQuantity(); m=s.value
    for c,(u,e) in q.GetCategoryToUnitAndExps().items():
        qt=db.GetCategoryQuantityType(c); m*=slope(qt,u)**e
    return m
def close(a,b): return abs(a-b)<=1e-9*max(abs(a),abs(b),1e-300)
cnt=collections.Counter(); ex={}
def rec(k,i): cnt[k]+=1; ex.setdefault(k,i)
for it in range(6000):
    try:
        s,d,m=tree(3)
    except ZeroDivisionError: continue
    if dims_of(s)!=d: rec('mul/div dims',(repr(s),d,dims_of(s)))
    if not close(mag_of(s),m): rec('mul/div mag',(repr(s),m,mag_of(s)))
    q=s.GetQuantity()
    if any(e==0 for c,(u,e) in q.GetCategoryToUnitAndExps().items()): rec('zero exp kept', repr(s))
    # per-type single unit inside result?
    seen={}
    for c,(u,e) in q.GetCategoryToUnitAndExps().items():
        qt=db.GetCategoryQuantityType(c)
        if seen.setdefault(qt,u)!=u: rec('two units one type', repr(s))
    # addition with a compatible tree: rebuild same dims by scaling the tree with a different-unit copy
    try:
        t,d2,m2=tree(3)
    except ZeroDivisionError: continue
    if d2==d:
        try:
            r=s+t; r2=t+s; r3=(s+t)-t
            if not close(mag_of(r), m+m2): rec('add mag',(repr(s),repr(t),repr(r),m+m2,mag_of(r)))
            if r.GetQuantity()!=s.GetQuantity() and d: rec('add quantity not left', (repr(s),repr(t),repr(r)))
            if not close(mag_of(r2), m+m2): rec('add comm',(repr(s),repr(t)))
            if not close(mag_of(r3), m) and abs(m)>1e-9*abs(m2): rec('add-sub',(repr(s),repr(t),repr(r3)))
        except Exception as e: rec('add raises '+type(e).__name__,(repr(s),repr(t),str(e)[:80]))
    else:
        try:
            r=s+t
            if d and d2: rec('incompatible add RETURNS',(repr(s),repr(t),repr(r)))
        except Exception as e: pass
    # commutativity of mul, (a*b)/b
    try:
        ab=s*t; ba=t*s; back=(s*t)/t
        if dims_of(ab)!=dims_of(ba) or not close(mag_of(ab),mag_of(ba)): rec('mul comm',(repr(s),repr(t)))
        if dims_of(back)!=d or not close(mag_of(back),m): rec('mul-div cancel',(repr(s),repr(t),repr(back)))
        sd=s/s
        if dims_of(sd)!={} or sd.unit!='': rec('a/a not dimensionless',(repr(s),repr(sd)))
    except ZeroDivisionError: pass
    except Exception as e: rec('muldiv raises '+type(e).__name__,(repr(s),repr(t),str(e)[:80]))
print(dict(cnt))
for k,v in ex.items(): print("  ",k,v)
