/-! reduced C20 round trip: factors joined by '.', exponent as decimal suffix -/

def isDigit (c : Char) : Bool := '0' ≤ c ∧ c ≤ '9'

/-- split on a separator character -/
def splitOn (sep : Char) : List Char → List (List Char)
  | [] => [[]]
  | c :: cs =>
    if c = sep then [] :: splitOn sep cs
    else match splitOn sep cs with
      | [] => [[c]]          -- unreachable
      | h :: t => (c :: h) :: t

def joinWith (sep : Char) : List (List Char) → List Char
  | [] => []
  | [x] => x
  | x :: y :: t => x ++ sep :: joinWith sep (y :: t)

theorem splitOn_ne_nil (sep : Char) (s : List Char) : splitOn sep s ≠ [] := by
  induction s with
  | nil => simp [splitOn]
  | cons c cs ih =>
    simp only [splitOn]; split
    · simp
    · split <;> simp

theorem splitOn_append_sep (sep : Char) (x : List Char) (hx : sep ∉ x) (rest : List Char) :
    splitOn sep (x ++ sep :: rest) = x :: splitOn sep rest := by
  induction x with
  | nil => simp [splitOn]
  | cons c cs ih =>
    have hc : c ≠ sep := by intro h; apply hx; simp [h]
    have hcs : sep ∉ cs := by intro h; apply hx; simp [h]
    simp only [List.cons_append, splitOn, hc, ↓reduceIte, ih hcs]

theorem splitOn_noSep (sep : Char) (x : List Char) (hx : sep ∉ x) : splitOn sep x = [x] := by
  induction x with
  | nil => simp [splitOn]
  | cons c cs ih =>
    have hc : c ≠ sep := by intro h; apply hx; simp [h]
    have hcs : sep ∉ cs := by intro h; apply hx; simp [h]
    simp only [splitOn, hc, ↓reduceIte, ih hcs]

theorem split_join (sep : Char) : ∀ (xs : List (List Char)), xs ≠ [] → (∀ x ∈ xs, sep ∉ x) →
    splitOn sep (joinWith sep xs) = xs
  | [], h, _ => absurd rfl h
  | [x], _, hx => by simpa [joinWith] using splitOn_noSep sep x (hx x (by simp))
  | x :: y :: t, _, hx => by
    have h1 : sep ∉ x := hx x (by simp)
    have ih := split_join sep (y :: t) (by simp) (fun z hz => hx z (by simp [hz]))
    simp only [joinWith, splitOn_append_sep sep x h1, ih]

/-! exponent suffix -/
def digitChar (d : Nat) : Char := Char.ofNat (48 + d)

/-- little-endian decimal digits, fuel-bounded -/
def revDigits : Nat → Nat → List Char
  | 0, _ => []
  | f+1, n => if n < 10 then [digitChar n] else digitChar (n % 10) :: revDigits f (n / 10)
def digits (n : Nat) : List Char := (revDigits (n+1) n).reverse

def valRev : List Char → Nat
  | [] => 0
  | c :: cs => (c.toNat - 48) + 10 * valRev cs

/-- split trailing digits off (works on the reversed string) -/
def spanDigits : List Char → List Char × List Char
  | [] => ([], [])
  | c :: cs => if isDigit c then let (d, r) := spanDigits cs; (c :: d, r) else ([], c :: cs)

def parseFactor (s : List Char) : List Char × Nat :=
  let (d, r) := spanDigits s.reverse
  (r.reverse, if d = [] then 1 else valRev d)

def renderFactor (u : List Char) (e : Nat) : List Char := if e = 1 then u else u ++ digits e

theorem digitChar_toNat (d : Nat) (h : d < 10) : (digitChar d).toNat = 48 + d := by
  unfold digitChar
  have : d = 0 ∨ d = 1 ∨ d = 2 ∨ d = 3 ∨ d = 4 ∨ d = 5 ∨ d = 6 ∨ d = 7 ∨ d = 8 ∨ d = 9 := by omega
  rcases this with h|h|h|h|h|h|h|h|h|h <;> subst h <;> decide

theorem digitChar_isDigit (d : Nat) (h : d < 10) : isDigit (digitChar d) = true := by
  have : d = 0 ∨ d = 1 ∨ d = 2 ∨ d = 3 ∨ d = 4 ∨ d = 5 ∨ d = 6 ∨ d = 7 ∨ d = 8 ∨ d = 9 := by omega
  rcases this with h|h|h|h|h|h|h|h|h|h <;> subst h <;> decide

theorem revDigits_spec : ∀ (f n : Nat), n < f → valRev (revDigits f n) = n ∧ (∀ c ∈ revDigits f n, isDigit c = true) ∧ revDigits f n ≠ []
  | 0, n, h => by omega
  | f+1, n, h => by
    unfold revDigits
    split
    · rename_i hn
      refine ⟨?_, ?_, by simp⟩
      · simp [valRev, digitChar_toNat n hn]
      · intro c hc; simp at hc; subst hc; exact digitChar_isDigit n hn
    · rename_i hn
      have hlt : n / 10 < f := by omega
      obtain ⟨h1, h2, _⟩ := revDigits_spec f (n / 10) hlt
      refine ⟨?_, ?_, by simp⟩
      · simp only [valRev, h1, digitChar_toNat (n % 10) (Nat.mod_lt _ (by omega))]; omega
      · intro c hc; simp at hc; rcases hc with rfl | hc
        · exact digitChar_isDigit _ (Nat.mod_lt _ (by omega))
        · exact h2 c hc

theorem spanDigits_all (d : List Char) (hd : ∀ c ∈ d, isDigit c = true) (r : List Char)
    (hr : ∀ c, r.head? = some c → isDigit c = false) : spanDigits (d ++ r) = (d, r) := by
  induction d with
  | nil =>
    cases r with
    | nil => rfl
    | cons c cs => simp [spanDigits, hr c (by simp)]
  | cons c cs ih =>
    have hc := hd c (by simp)
    have := ih (fun x hx => hd x (by simp [hx]))
    simp [spanDigits, hc, this]

def Atomic (u : List Char) : Prop := u ≠ [] ∧ '.' ∉ u ∧ (∀ c, u.getLast? = some c → isDigit c = false)

theorem parse_renderFactor (u : List Char) (e : Nat) (hu : Atomic u) (he : 1 ≤ e) :
    parseFactor (renderFactor u e) = (u, e) := by
  obtain ⟨hne, _, hlast⟩ := hu
  have hhead : ∀ c, u.reverse.head? = some c → isDigit c = false := by
    intro c hc; apply hlast; simpa [List.head?_reverse] using hc
  unfold renderFactor parseFactor
  by_cases h1 : e = 1
  · have := spanDigits_all [] (by simp) u.reverse hhead
    simp at this
    simp [h1, this]
  · obtain ⟨hv, hdig, hnn⟩ := revDigits_spec (e+1) e (by omega)
    have := spanDigits_all (revDigits (e+1) e) hdig u.reverse hhead
    simp only [h1, ↓reduceIte, digits, List.reverse_append, List.reverse_reverse, this]
    simp [hnn, hv]

#print axioms parse_renderFactor
#print axioms split_join
#eval String.ofList (joinWith '.' [renderFactor "m".toList 2, renderFactor "kg".toList 1, renderFactor "s".toList 12])
#eval (splitOn '.' "m2.kg.s12".toList).map parseFactor |>.map (fun (a,b) => (String.ofList a, b))
