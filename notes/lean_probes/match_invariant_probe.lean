import Mathlib.Tactic.Ring
import Mathlib.Tactic.FieldSimp
import Mathlib.Algebra.Order.Field.Rat
abbrev Sym := Nat
structure Entry where
  cat : Sym
  unit : Sym
  exp : Int
deriving Repr, DecidableEq

structure Db where
  qtOfCat : Sym → Option Sym
  slope : Sym → Rat

def lookup (k : Sym) : List (Sym × Sym) → Option Sym
  | [] => none
  | (a,b)::t => if a = k then some b else lookup k t

/-- one pass of `_MatchQuantities` over one operand (repaired form: value scaled by ratio^exp) -/
def matchOne (db : Db) : List (Sym × Sym) → List Entry → Rat → Option (List (Sym × Sym) × List Entry × Rat)
  | used, [], v => some (used, [], v)
  | used, e :: es, v =>
    match db.qtOfCat e.cat with
    | none => none
    | some qt =>
      match lookup qt used with
      | none =>
        match matchOne db ((qt, e.unit) :: used) es v with
        | none => none
        | some (u', es', v') => some (u', e :: es', v')
      | some w =>
        match matchOne db used es (v * (db.slope e.unit / db.slope w) ^ e.exp) with
        | none => none
        | some (u', es', v') => some (u', { e with unit := w } :: es', v')

def mag (db : Db) : List Entry → Rat
  | [] => 1
  | e :: es => db.slope e.unit ^ e.exp * mag db es

def baseMag (db : Db) (m : List Entry) (v : Rat) : Rat := v * mag db m

theorem matchOne_mag (db : Db) (hs : ∀ u, db.slope u ≠ 0) :
    ∀ (es : List Entry) (used : List (Sym × Sym)) (v : Rat) u' es' v',
      matchOne db used es v = some (u', es', v') → baseMag db es' v' = baseMag db es v := by
  intro es
  induction es with
  | nil => intro used v u' es' v' h; simp [matchOne] at h; obtain ⟨_, rfl, rfl⟩ := h; rfl
  | cons e es ih =>
    intro used v u' es' v' h
    simp only [matchOne] at h
    split at h
    · contradiction
    · rename_i qt hq
      split at h
      · rename_i hl
        split at h
        · contradiction
        · rename_i u2 es2 v2 hm
          cases h
          have := ih _ _ _ _ _ hm
          simp only [baseMag, mag] at this ⊢
          rw [mul_left_comm, this, mul_left_comm]
      · rename_i w hl
        split at h
        · contradiction
        · rename_i u2 es2 v2 hm
          cases h
          have := ih _ _ _ _ _ hm
          simp only [baseMag, mag] at this ⊢
          rw [mul_left_comm, this]
          have hw := hs w
          rw [div_zpow]
          have : db.slope w ^ e.exp ≠ 0 := zpow_ne_zero _ hw
          field_simp
#print axioms matchOne_mag
