import Mathlib.Tactic.FieldSimp
import Mathlib.Tactic.Ring
import Mathlib.Tactic.Linarith
import Mathlib.Tactic.Positivity

-- affine POSC pair over Rat
def toBase (a b c x : Rat) : Rat := (a + b * x) / c
def fromBase (a b c y : Rat) : Rat := (a - c * y) / (0 * y - b)

theorem rt (a b c x : Rat) (hb : b ≠ 0) (hc : c ≠ 0) : fromBase a b c (toBase a b c x) = x := by
  unfold fromBase toBase
  field_simp
  ring

theorem mono (a b c x y : Rat) (h : 0 < b / c) (hc : c ≠ 0) (hxy : x < y) : toBase a b c x < toBase a b c y := by
  unfold toBase
  have : (a + b * y) / c - (a + b * x) / c = (b / c) * (y - x) := by field_simp; ring
  have h2 : 0 < (b / c) * (y - x) := mul_pos h (by linarith)
  linarith
#print axioms rt
#print axioms mono
