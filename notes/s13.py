import collections, copy, pickle, random
import numpy as np
from barril.units import *
from barril.units.unit_database import UnitDatabase
from barril.basic.fraction import FractionValue, Fraction
db = UnitDatabase.GetSingleton()
random.seed(5)
def qsnap(q):
    return (q.GetCategory(), q.GetQuantityType(), q.GetUnit(), repr(q.GetComposingUnits()), repr(q.GetComposingCategories()),
            tuple((c,tuple(ue)) for c,ue in q.GetCategoryToUnitAndExps().items()), q.GetUnknownCaption(), q.IsDerived(), hash(q), q.GetComposingUnitsJoiningExponents())
def vsnap(o):
    if isinstance(o, Scalar): return ('S', repr(o.value), qsnap(o.GetQuantity()))
    if isinstance(o, FixedArray): return ('FA', o.dimension, type(o.values).__name__, tuple(map(repr,o.values)), qsnap(o.GetQuantity()))
    if isinstance(o, Array): return ('A', type(o.values).__name__, tuple(map(repr,o.values)), qsnap(o.GetQuantity()))
    if isinstance(o, FractionScalar):
        v=o.value; return ('FS', v.number, v.fraction.numerator, v.fraction.denominator, qsnap(o.GetQuantity()))
    return repr(o)
units = {'length':['m','cm','km','ft','in'], 'time':['s','min','h'], 'temperature':['K','degC','degF'], 'mass':['kg','g','lbm'], 'pressure':['Pa','psi','bar(g)']}
cats = {'length':['length','depth'], 'time':['time'], 'temperature':['temperature'], 'mass':['mass'], 'pressure':['pressure']}
def rnd_scalar():
    qt=random.choice(list(units)); return Scalar(random.choice([0.0,1.0,-2.5,3.75,100.0]), random.choice(units[qt]), random.choice(cats[qt]))
def rnd_array():
    qt=random.choice(list(units)); n=random.choice([0,1,2,3])
    vals=[random.choice([0.0,1.0,-2.5,3.75]) for _ in range(n)]
    cont=random.choice([list,tuple,np.array])
    return Array(cont(vals), random.choice(units[qt]), random.choice(cats[qt]))
def rnd_fa():
    qt=random.choice(list(units)); n=random.choice([2,3]); vals=[random.choice([0.0,1.0,-2.5]) for _ in range(n)]
    return FixedArray(n, random.choice([list,tuple,np.array])(vals), random.choice(units[qt]))
def rnd_fs():
    qt=random.choice(list(units)); return FractionScalar(FractionValue(random.choice([0,1,5]),(random.choice([0,1,3]),random.choice([2,4,8]))), random.choice(units[qt]))
bad=collections.Counter(); ex={}
for hist in range(300):
    pool=[rnd_scalar() for _ in range(3)]+[rnd_array() for _ in range(3)]+[rnd_fa() for _ in range(2)]+[rnd_fs() for _ in range(2)]
    keep_containers=[copy.deepcopy(getattr(o,'_value',None)) for o in pool]
    for step in range(25):
        before=[vsnap(o) for o in pool]
        cache_before={k:(id(q),qsnap(q)) for k,q in db.quantities_cache.items()}
        a,b=random.choice(pool),random.choice(pool)
        op=random.choice(['+','-','*','/','//','<','==','getvalue','createcopy','copy','str','repr','valid','pickle','num','changing','index','formatted','pow','validunits'])
        desc=(op,repr(a)[:50],repr(b)[:50])
        try:
            if op in '+-*/' or op=='//': r=eval(f"a {op} b")
            elif op=='<': r=a<b
            elif op=='==': r=(a==b)
            elif op=='getvalue':
                u=random.choice(units.get(a.GetQuantityType(), ['m'])); r=a.GetAbstractValue(u)
            elif op=='createcopy':
                u=random.choice(units.get(a.GetQuantityType(), ['m'])); r=a.CreateCopy(unit=u)
            elif op=='copy': r=(copy.copy(a), copy.deepcopy(a))
            elif op=='str': r=str(a)
            elif op=='repr': r=repr(a)
            elif op=='valid': r=a.IsValid()
            elif op=='pickle': r=pickle.loads(pickle.dumps(a))
            elif op=='num': r=eval(f"a {random.choice(['*','+','-','/'])} 2.0"), eval(f"3.0 {random.choice(['*','+','-','/'])} a")
            elif op=='changing': r=a.ChangingIndex(0,b) if isinstance(a,FixedArray) else None
            elif op=='index': r=a.IndexAsScalar(1) if isinstance(a,FixedArray) else None
            elif op=='formatted': r=a.GetFormatted() if hasattr(a,'GetFormatted') else None
            elif op=='pow': r=a**2 if isinstance(a,Scalar) else None
            elif op=='validunits': r=a.GetValidUnits()
            if op in ('+','-','*','/','//','createcopy','num') and random.random()<0.5 and not isinstance(r,(bool,tuple)) and r is not None and hasattr(r,'GetQuantity'):
                pool[random.randrange(len(pool))]=r
                continue
        except Exception as e:
            pass
        after=[vsnap(o) for o in pool]
        if before!=after:
            i=[k for k in range(len(pool)) if before[k]!=after[k]][0]
            bad['operand changed by '+op]+=1; ex.setdefault('operand changed by '+op,(desc,before[i],after[i]))
        for k,(i_,sn) in cache_before.items():
            q=db.quantities_cache.get(k)
            if q is None: bad['cache entry removed']+=1; ex.setdefault('cache entry removed',(desc,k))
            elif id(q)!=i_ or qsnap(q)!=sn: bad['cached quantity changed by '+op]+=1; ex.setdefault('cached quantity changed by '+op,(desc,k,sn,qsnap(q)))
print(dict(bad))
for k,v in ex.items(): print(k, v)
print("cache size", len(db.quantities_cache))
