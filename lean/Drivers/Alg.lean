/- line-protocol driver of the `Alg` engine (C03, C04): the real `Scalar` operators `+ - * / // **` against
`Alg.opSame` / `Alg.opNew` / `Alg.pow` on the POSC database.

request   {"op": add|sub|mul|div|floordiv|pow, "e1": [[cat,unit,exp],..], "c1": caption, "v1": "n/d",
           "e2": .., "c2": .., "v2": ..   (binary operators)   |   "n": int   (pow)}
answer    {"ok": {"e": [[cat,unit,exp],..], "cap": caption, "derived": bool}, "v": "n/d", "M": "n/d", "br": [..],
           "T": [[quantity type, exp],..]  (what the result reports as its quantity type, `Alg.reportedTypes`)
           [, "quot": "n/d"  (floordiv: the exact matched quotient)]}   |   {"err": kind, "br": [..]}
           ("br": the branches of the modelled functions this request went through; "F": the largest
           |ratio ** exp| of the matching, the only float operation of the modelled code that raises OverflowError;
           "D" (div, floordiv): the exact matched divisor, which underflows to 0.0 in floats below about 1e-308)

`M` is the error-propagation magnitude of the exact evaluation in the result's unit: every conversion step
contributes the magnitude of its intermediate quantities (offsets included) and scales what was accumulated
before by its slope; sums add the magnitudes of the two matched operands, products/quotients propagate them
relatively.  The harness accepts |float - exact| <= 64 * 2^-53 * max(M, |exact|). -/
import Barril.Model.Proto
import Barril.Model.Alg
import Barril.Model.AlgType
import Barril.Gen.Dbs
open Lean Barril Barril.Proto Barril.Alg

def absR (q : Rat) : Rat := if q < 0 then -q else q
def maxR (a b : Rat) : Rat := if a < b then b else a

/-- the two rows `Db.convert qt u w` composes -/
def rowsOf (db : Db) (qt u w : Sym) : Option (UnitRow × UnitRow) :=
  match db.typeOf qt with
  | .error _ => none
  | .ok t =>
    match db.getInfo t u true, db.getInfo t w true with
    | .ok a, .ok b => some (a, b)
    | _, _ => none

/-- magnitude of the intermediate quantities of `from(to x)`, in the result's unit -/
def convStepMag (a b : UnitRow) (x : Rat) : Rat :=
  let sFrom := absR (b.fromBase.q / b.fromBase.r)
  let base := a.toBase.eval x
  let m1 := sFrom * ((absR a.toBase.p + absR (a.toBase.q * x)) / absR a.toBase.r)
  let m2 := (absR b.fromBase.p + absR (b.fromBase.q * base)) / absR b.fromBase.r
  m1 + m2 + absR (b.fromBase.eval base)

/-- the magnitude after one `_ConvertMatchingExp` step -/
def stepMag (db : Db) (qt u w : Sym) (exp : Int) (vin vout m : Rat) (inD : Bool) : Rat :=
  if u == w then m else
  match rowsOf db qt u w with
  | none => m
  | some (a, b) =>
    let slope := absR (a.toBase.q / a.toBase.r) * absR (b.fromBase.q / b.fromBase.r)
    if exp == 1 && (!inD || b.fromBase.eval (a.toBase.eval 0) == 0) then m * slope + convStepMag a b vin
    else
      let c1 := b.fromBase.eval (a.toBase.eval 1)
      let c0 := b.fromBase.eval (a.toBase.eval 0)
      let ratio := c1 - c0
      let kappa := if ratio = 0 then 1 else (convStepMag a b 1 + convStepMag a b 0) / absR ratio
      m * absR (zpowR ratio exp) + absR vout * (absR (exp : Rat) + 1) * maxR 1 kappa

/-- `matchOne` once more, carrying the magnitude -/
def matchMag (db : Db) (inD : Bool) : List (Sym × Sym) → List Entry → Rat → Rat → Rat
  | _, [], _, m => m
  | used, e :: es, v, m =>
    match catQType db e.cat with
    | .error _ => m
    | .ok qt =>
      match lookupU qt used with
      | none => matchMag db inD ((qt, e.unit) :: used) es v m
      | some w =>
        match convertMatchingExp db qt e.unit w e.exp v inD with
        | .error _ => m
        | .ok v1 => matchMag db inD used es v1 (stepMag db qt e.unit w e.exp v v1 m inD)

/-- magnitudes of the two matched operands -/
def matchedMags (db : Db) (e1 e2 : List Entry) (v1 v2 m1 m2 : Rat) : Rat × Rat :=
  match matchOne db (isDerivedDict e1) [] e1 v1 with
  | .error _ => (m1, m2)
  | .ok (used, _, _) => (matchMag db (isDerivedDict e1) [] e1 v1 m1, matchMag db (isDerivedDict e2) used e2 v2 m2)

def matchedVals (db : Db) (e1 e2 : List Entry) (v1 v2 : Rat) : Rat × Rat :=
  match matchQuantities db e1 e2 v1 v2 with
  | .ok (_, _, w1, w2) => (w1, w2)
  | .error _ => (v1, v2)

def newMag (db : Db) (op : NewOp) (q1 q2 : Quantity) (v1 v2 m1 m2 : Rat) : Rat :=
  let (n1, n2) := matchedMags db q1.entries q2.entries v1 v2 m1 m2
  let (w1, w2) := matchedVals db q1.entries q2.entries v1 v2
  match op with
  | .mul => n1 * absR w2 + n2 * absR w1
  | _ => n1 / absR w2 + n2 * absR w1 / (w2 * w2)

def powMag (db : Db) (q : Quantity) (v : Rat) : Nat → Quantity → Rat → Rat → Rat
  | 0, _, _, m => m
  | k + 1, rq, rv, m =>
    match opNew db .mul rq q rv v with
    | .error _ => m
    | .ok (rq', rv') => powMag db q v k rq' rv' (newMag db .mul rq q rv v m (absR v))


/-! branch tags of the modelled functions hit by a request (reported as "br", tallied in the evidence) -/

def matchTags (db : Db) (side : String) (inD : Bool) : List (Sym × Sym) → List Entry → Rat → List String × List (Sym × Sym)
  | used, [], _ => ([], used)
  | used, e :: es, v =>
    match catQType db e.cat with
    | .error _ => ([s!"match{side}:unknown-category"], used)
    | .ok qt =>
      match lookupU qt used with
      | none =>
        let (t, u) := matchTags db side inD ((qt, e.unit) :: used) es v
        (s!"match{side}:first-unit-of-type" :: t, u)
      | some w =>
        let tag :=
          if e.unit == w then "same-unit"
          else if e.exp == 1 && !inD then "convert-exp1-simple-operand"
          else if e.exp == 1 then
            (match db.convert qt e.unit w 0 with
             | .ok c0 => if c0 == 0 then "convert-exp1-derived-no-offset" else "scale-exp1-derived-offset"
             | .error _ => "zero-conversion-error")
          else "scale-ratio-pow-exp"
        match convertMatchingExp db qt e.unit w e.exp v inD with
        | .error _ => ([s!"match{side}:{tag}:error"], used)
        | .ok v1 =>
          let (t, u) := matchTags db side inD used es v1
          (s!"match{side}:{tag}" :: t, u)

def bothMatchTags (db : Db) (q1 q2 : Quantity) (v1 v2 : Rat) : List String :=
  let (t1, used) := matchTags db "1" (isDerivedDict q1.entries) [] q1.entries v1
  let (t2, _) := matchTags db "2" (isDerivedDict q2.entries) used q2.entries v2
  t1 ++ t2

def shapeTag (q : Quantity) : String :=
  if q.entries.isEmpty then "result:empty" else if q.derived then "result:derived" else "result:simple"

def sameTags (db : Db) (q1 q2 : Quantity) (v1 v2 : Rat) : List String :=
  if q1.eqv q2 then ["same:equal-quantities"] else
  bothMatchTags db q1 q2 v1 v2 ++
  match matchQuantities db q1.entries q2.entries v1 v2 with
  | .error _ => ["same:matching-failed"]
  | .ok (e1, e2, _, _) =>
    if sameSet (joined e1) (joined e2) then ["same:unit-sets-equal"]
    else if (joined e1).isEmpty then ["same:left-has-no-units"]
    else if (joined e2).isEmpty then ["same:right-has-no-units"]
    else ["same:units-differ-error"]

def mergeTags (e1 : List Entry) (e2 : List Entry) : List String :=
  e2.map (fun x => if e1.any (·.cat == x.cat) then "merge:existing-category" else "merge:new-category")

def newTags (db : Db) (op : NewOp) (q1 q2 : Quantity) (v1 v2 : Rat) : List String :=
  bothMatchTags db q1 q2 v1 v2 ++
  match matchQuantities db q1.entries q2.entries v1 v2 with
  | .error _ => ["new:matching-failed"]
  | .ok (e1, e2, _, w2) =>
    mergeTags e1 e2 ++
    (match mergeAll (expOp op) e1 e2 with
     | .error _ => ["merge:error"]
     | .ok m => m.map (fun e => if e.exp == 0 then "drop:own-exponent-0"
                                else if unitTotal e.unit m == 0 then "drop:unit-total-0" else "drop:kept"))
    ++ (if op != .mul && w2 == 0 then ["value:zero-divisor"] else [])

def dedupS : List String → List String
  | [] => []
  | x :: xs => if xs.contains x then dedupS xs else x :: dedupS xs

def brJ (tags : List String) : List (String × Json) := [("br", Json.arr ((dedupS tags).map Json.str).toArray)]

def entryJ (e : Entry) : Json := Json.arr #[symJ e.cat, symJ e.unit, .str (toString e.exp)]

def quantityJ (q : Quantity) : Json :=
  Json.mkObj [("e", Json.arr (q.entries.map entryJ).toArray), ("cap", symJ q.caption), ("derived", .bool q.derived)]

/-- "T": the dimension vector the result REPORTS through its quantity type (`reportedTypes`: `rep_and_exp` of
`Quantity.__init__` without the zero exponents `_MakeStr` does not write), in the order of the string -/
def typesJ (db : Db) (q : Quantity) : List (String × Json) :=
  match reportedTypes db q.entries with
  | .error _ => []
  | .ok l => [("T", Json.arr (l.map (fun p => Json.arr #[symJ p.1, .str (toString p.2)])).toArray)]

def parseEntry (j : Json) : Except String Entry :=
  match j with
  | .arr #[.str c, .str u, .str x] =>
    match c.toNat?, u.toNat?, x.toInt? with
    | some c, some u, some x => .ok ⟨c, u, x⟩
    | _, _, _ => .error "entry fields are not numbers"
  | _ => .error "entry is not [cat, unit, exp]"

def getQuantity (j : Json) (i : String) : Except String (Quantity × Rat) := do
  let es ← getArr j ("e" ++ i)
  let es ← es.toList.mapM parseEntry
  let cap ← getSym j ("c" ++ i)
  let v ← getRat j ("v" ++ i)
  -- what `ObtainQuantity` makes of a dict: one entry with exponent 1 is a simple quantity
  let derived := match es with
    | [e] => !(e.exp == 1)
    | _ => true
  pure (⟨es, cap, derived⟩, v)

/-- the largest `|ratio ** exp|` computed by the matching of one operand (the only float operation of the
modelled code that raises `OverflowError`; reported as "F") -/
def matchFactor (db : Db) (inD : Bool) : List (Sym × Sym) → List Entry → Rat → Rat → Rat
  | _, [], _, f => f
  | used, e :: es, v, f =>
    match catQType db e.cat with
    | .error _ => f
    | .ok qt =>
      match lookupU qt used with
      | none => matchFactor db inD ((qt, e.unit) :: used) es v f
      | some w =>
        match convertMatchingExp db qt e.unit w e.exp v inD with
        | .error _ => f
        | .ok v1 =>
          let plain := e.unit == w || (e.exp == 1 && (!inD ||
            (match db.convert qt e.unit w 0 with | .ok c0 => c0 == 0 | .error _ => true)))
          let f1 := if plain || v == 0 then f else maxR f (absR (v1 / v))
          matchFactor db inD used es v1 f1

def bothFactor (db : Db) (q1 q2 : Quantity) (v1 v2 : Rat) : Rat :=
  match matchOne db (isDerivedDict q1.entries) [] q1.entries v1 with
  | .error _ => matchFactor db (isDerivedDict q1.entries) [] q1.entries v1 0
  | .ok (used, _, _) =>
    maxR (matchFactor db (isDerivedDict q1.entries) [] q1.entries v1 0)
      (matchFactor db (isDerivedDict q2.entries) used q2.entries v2 0)

/-! "R": the smallest non-zero and the largest magnitude the exact evaluation goes through (operand values, every
matched intermediate value, every conversion factor, the result).  The harness judges the VALUE of a case computed
in float32 arrays only when this range lies well inside the float32 normal range. -/

def rangeAdd (r : Rat × Rat) (x : Rat) : Rat × Rat :=
  let a := absR x
  if a == 0 then r else (if r.1 == 0 || a < r.1 then a else r.1, maxR r.2 a)

def matchRange (db : Db) (inD : Bool) : List (Sym × Sym) → List Entry → Rat → Rat × Rat → Rat × Rat
  | _, [], _, r => r
  | used, e :: es, v, r =>
    match catQType db e.cat with
    | .error _ => r
    | .ok qt =>
      match lookupU qt used with
      | none => matchRange db inD ((qt, e.unit) :: used) es v r
      | some w =>
        match convertMatchingExp db qt e.unit w e.exp v inD with
        | .error _ => r
        | .ok v1 =>
          let r1 := rangeAdd r v1
          let r2 := match convertMatchingExp db qt e.unit w e.exp 1 inD, convertMatchingExp db qt e.unit w e.exp 0 inD with
            | .ok c1, .ok c0 => rangeAdd (rangeAdd r1 (c1 - c0)) c0
            | _, _ => r1
          matchRange db inD used es v1 r2

def bothRange (db : Db) (q1 q2 : Quantity) (v1 v2 : Rat) : Rat × Rat :=
  let r0 := rangeAdd (rangeAdd (0, 0) v1) v2
  let r1 := matchRange db (isDerivedDict q1.entries) [] q1.entries v1 r0
  match matchOne db (isDerivedDict q1.entries) [] q1.entries v1 with
  | .error _ => r1
  | .ok (used, _, _) => matchRange db (isDerivedDict q2.entries) used q2.entries v2 r1

def rangeJ (rg : Rat × Rat) (v : Rat) : List (String × Json) :=
  let r := rangeAdd rg v
  [("R", Json.arr #[ratJ r.1, ratJ r.2])]

def answer (r : Except ErrKind (Quantity × Rat)) (m : Rat) (tags : List String) (extra : List (String × Json) := [])
    (f : Rat := 0) : Json :=
  match r with
  | .error e => Json.mkObj ([("err", .str e.name), ("F", ratJ f)] ++ brJ tags)
  | .ok (q, v) => Json.mkObj ([("ok", quantityJ q), ("v", ratJ v), ("M", ratJ (maxR m (absR v))), ("F", ratJ f)]
      ++ typesJ Gen.poscDb q ++ brJ (shapeTag q :: tags) ++ extra)

def handle (j : Json) : Except String Json := do
  let db := Gen.poscDb
  let op ← getStr j "op"
  let (q1, v1) ← getQuantity j "1"
  match op with
  | "pow" =>
    let n ← getInt j "n"
    pure (answer (pow db q1 v1 n) (powMag db q1 v1 (n - 1).toNat q1 v1 (absR v1))
      (if n ≤ 1 then ["pow:no-iteration"] else "pow:loop" :: newTags db .mul q1 q1 v1 v1) [] (bothFactor db q1 q1 v1 v1))
  | _ =>
    let (q2, v2) ← getQuantity j "2"
    match op with
    | "add" | "sub" =>
      let sop := if op == "add" then SameOp.add else SameOp.sub
      let m :=
        if q1.eqv q2 then maxR (absR v1) (absR v2)
        else
          let (n1, n2) := matchedMags db q1.entries q2.entries v1 v2 (absR v1) (absR v2)
          n1 + n2
      let res := opSame db sop q1 q2 v1 v2
      let rg := if q1.eqv q2 then rangeAdd (rangeAdd (0, 0) v1) v2 else bothRange db q1 q2 v1 v2
      pure (answer res m (sameTags db q1 q2 v1 v2) (rangeJ rg (match res with | .ok (_, v) => v | .error _ => 0))
        (bothFactor db q1 q2 v1 v2))
    | "mul" => pure (answer (opNew db .mul q1 q2 v1 v2) (newMag db .mul q1 q2 v1 v2 (absR v1) (absR v2))
        (newTags db .mul q1 q2 v1 v2)
        (rangeJ (bothRange db q1 q2 v1 v2) (match opNew db .mul q1 q2 v1 v2 with | .ok (_, v) => v | .error _ => 0))
        (bothFactor db q1 q2 v1 v2))
    | "div" =>
      let (_, w2) := matchedVals db q1.entries q2.entries v1 v2
      pure (answer (opNew db .div q1 q2 v1 v2) (newMag db .div q1 q2 v1 v2 (absR v1) (absR v2))
        (newTags db .div q1 q2 v1 v2) ([("D", ratJ (absR w2))] ++
          rangeJ (bothRange db q1 q2 v1 v2) (match opNew db .div q1 q2 v1 v2 with | .ok (_, v) => v | .error _ => 0))
        (bothFactor db q1 q2 v1 v2))
    | "floordiv" =>
      let (w1, w2) := matchedVals db q1.entries q2.entries v1 v2
      pure (answer (opNew db .floordiv q1 q2 v1 v2) (newMag db .div q1 q2 v1 v2 (absR v1) (absR v2))
        (newTags db .floordiv q1 q2 v1 v2) ([("quot", ratJ (w1 / w2)), ("D", ratJ (absR w2))] ++
          rangeJ (bothRange db q1 q2 v1 v2) (if w2 == 0 then 0 else w1 / w2))
        (bothFactor db q1 q2 v1 v2))
    | _ => throw s!"unknown op {op}"

def step (j : Json) : Json :=
  match handle j with
  | .ok r => r
  | .error e => Json.mkObj [("bad", .str e)]

def main : IO Unit := do
  loop (← IO.getStdin) (← IO.getStdout) step
