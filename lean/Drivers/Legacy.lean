/- line-protocol driver of the `Legacy` engine (C16): `Barril/Model/Legacy.lean`, `LegacyApi.lean` -/
import Barril.Model.Proto
import Barril.Model.LegacyApi
import Barril.Gen.Dbs
open Lean Barril Barril.Proto

def dbOf (name : String) : Except String Db :=
  match name with
  | "posc" => .ok Gen.poscDb
  | "nocat" => .ok Gen.nocatDb
  | "simple" => .ok Gen.simpleDb
  | _ => .error s!"unknown db {name}"

def absR (q : Rat) : Rat := if q < 0 then -q else q
def maxR (a b : Rat) : Rat := if a < b then b else a

/-- magnitude of the intermediate quantities of `b.from(a.to x)`, in the result's unit -/
def magRows (a b : UnitRow) (x y : Rat) : Rat :=
  let base := a.toBase.eval x
  let s := if b.fromBase.r = 0 then 0 else absR (b.fromBase.q / b.fromBase.r)
  let m1 := if a.toBase.r = 0 then 0 else s * ((absR a.toBase.p + absR (a.toBase.q * x)) / absR a.toBase.r)
  let m2 := if b.fromBase.r = 0 then 0 else (absR b.fromBase.p + absR (b.fromBase.q * base)) / absR b.fromBase.r
  maxR (maxR (maxR m1 m2) (absR y)) (absR x)

/-- the same for a conversion inside quantity type / category `cq` -/
def magConv (db : Db) (cq u v : Sym) (x y : Rat) : Rat :=
  match db.typeOf cq with
  | .error _ => maxR (absR x) (absR y)
  | .ok qt =>
    match db.getInfo qt u true, db.getInfo qt v true with
    | .ok a, .ok b => magRows a b x y
    | _, _ => maxR (absR x) (absR y)

def magList (db : Db) (cq u v : Sym) : List Rat → List Rat → Rat
  | x :: xs, y :: ys => maxR (magConv db cq u v x y) (magList db cq u v xs ys)
  | _, _ => 0

/-- an optional symbol: JSON `null` or a decimal string -/
def getOptSym (j : Json) (k : String) : Except String (Option Sym) :=
  match j.getObjVal? k with
  | .ok .null => .ok none
  | .ok (.str s) => match s.toNat? with
    | some n => .ok (some n)
    | none => .error s!"field {k} is not a symbol code"
  | _ => .error s!"missing field {k}"

def symOfJson (v : Json) : Except String Sym :=
  match v with
  | .str s => match s.toNat? with
    | some n => .ok n
    | none => .error "not a symbol code"
  | _ => .error "not a symbol code"

def ratOfJson (v : Json) : Except String Rat :=
  match v with
  | .str s => match parseRat? s with
    | some q => .ok q
    | none => .error "not a rational"
  | _ => .error "not a rational"

def getOptSyms (j : Json) (k : String) : Except String (Option (List Sym)) :=
  match j.getObjVal? k with
  | .ok .null => .ok none
  | .ok (.arr a) => do
    let l ← a.toList.mapM symOfJson
    pure (some l)
  | _ => .error s!"missing field {k}"

def getRats (j : Json) (k : String) : Except String (List Rat) := do
  let a ← getArr j k
  a.toList.mapM ratOfJson

def simpleJ (q : Simple) : List (String × Json) := [("cat", symJ q.cat), ("unit", symJ q.unit)]

def optSymJ : Option Sym → Json
  | none => Json.null
  | some s => symJ s

def getOptRat (j : Json) (k : String) : Except String (Option Rat) :=
  match j.getObjVal? k with
  | .ok .null => .ok none
  | .ok (.str s) => match parseRat? s with
    | some q => .ok (some q)
    | none => .error s!"field {k} is not a rational"
  | _ => .error s!"missing field {k}"

/-- the category of a `valueless`/`regcopy` line, registered on the named database -/
def registered (j : Json) : Except String (Sym × Except ErrKind Db) := do
  let db ← dbOf (← getStr j "db")
  let name ← getSym j "name"
  pure (name, db.addCategoryFull name (← getSym j "qt") (← getOptSyms j "valid") (← getOptSym j "default")
    (← getSym j "caption") (← getBool j "override") (← getOptRat j "dv") (← getOptRat j "mn")
    (← getOptRat j "mx") (← getBool j "minx") (← getBool j "maxx"))

/-- the value read in another unit afterwards (`then_to`), with its magnitude -/
def thenJ (db : Db) (q : Simple) (x : Rat) : Option Sym → List (String × Json)
  | none => []
  | some t =>
    match db.getValue q x t with
    | .ok y => [("then", Json.mkObj [("ok", ratJ y), ("M", ratJ (magConv db q.cat q.unit t x y))])]
    | .error e => [("then", errJ e)]

def thenListJ (db : Db) (q : Simple) (xs : List Rat) : Option Sym → List (String × Json)
  | none => []
  | some t =>
    match db.getValues q xs t with
    | .ok ys => [("then", Json.mkObj [("ok", Json.arr (ys.map ratJ).toArray),
        ("M", ratJ (magList db q.cat q.unit t xs ys))])]
    | .error e => [("then", errJ e)]

/-- a cell `{"cat": sym, "unit": sym, "exp": int}` of a composing mapping -/
def cellOfJson (v : Json) : Except String MapCell := do
  pure ⟨← getSym v "cat", ← getSym v "unit", ← getInt v "exp"⟩

def pairOfJson (v : Json) : Except String (Sym × Int) := do
  pure (← getSym v "unit", ← getInt v "exp")

/-- the `category` argument of the parallel-lists form: `null`, a symbol, or a list of symbols -/
def getCatArg (j : Json) (k : String) : Except String CatArg :=
  match j.getObjVal? k with
  | .ok .null => .ok .none
  | .ok (.str s) => match s.toNat? with
    | some n => .ok (.str n)
    | none => .error s!"field {k} is not a symbol code"
  | .ok (.arr a) => do
    let l ← a.toList.mapM symOfJson
    pure (.list l)
  | _ => .error s!"missing field {k}"

def cellJ (c : MapCell) : Json := Json.arr #[symJ c.cat, symJ c.unit, .str (toString c.exp)]

def obtainedJ : Except ErrKind Obtained → Json
  | .ok (.simple q) => Json.mkObj [("ok", Json.mkObj ([("kind", .str "simple")] ++ simpleJ q))]
  | .ok (.derived cells) => Json.mkObj [("ok", Json.mkObj [("kind", .str "derived"),
      ("cells", Json.arr (cells.map cellJ).toArray)])]
  | .error e => errJ e

def handle (j : Json) : Except String Json := do
  let op ← getStr j "op"
  match op with
  | "fix" =>
    let u ← getSym j "u"
    let L := Gen.legacyList
    pure (Json.mkObj [("ok", symJ (fixLegacy L u)), ("legacy", .bool (isLegacy L u)),
      ("again", symJ (fixLegacy L (fixLegacy L u)))])
  | "derive" =>
    let db ← dbOf (← getStr j "db")
    pure (Json.mkObj [("ok", Json.arr (db.derive.map (fun p => Json.arr #[symJ p.1, symJ p.2])).toArray)])
  | "badrows" =>
    let db ← dbOf (← getStr j "db")
    let bad := db.units.filter (fun r =>
      !(r.notRewritten db.legacy && r.derivedOk db))
    pure (Json.mkObj [("rows", Json.arr (bad.map (fun r => symJ r.sym)).toArray)])
  | "info" =>
    let db ← dbOf (← getStr j "db")
    match db.getInfo (← getSym j "qt") (← getSym j "unit") (← getBool j "fix_unknown") (← getBool j "fix_legacy") with
    | .ok r => pure (Json.mkObj [("ok", symJ r.sym), ("qtype", symJ r.qtype)])
    | .error e => pure (errJ e)
  | "defcat" =>
    let db ← dbOf (← getStr j "db")
    match db.getDefaultCategory (← getSym j "unit") with
    | .ok c => pure (Json.mkObj [("ok", optSymJ c)])
    | .error e => pure (errJ e)
  | "obtain" =>
    let db ← dbOf (← getStr j "db")
    match db.obtainQuantity (← getSym j "unit") (← getOptSym j "cat") with
    | .ok q => pure (Json.mkObj [("ok", Json.mkObj (simpleJ q))])
    | .error e => pure (errJ e)
  | "obtainmap" =>
    let db ← dbOf (← getStr j "db")
    let shape ← getStr j "shape"
    if shape == "lists" then
      let units ← (← getArr j "cells").toList.mapM pairOfJson
      pure (obtainedJ (db.obtainFromLists units (← getCatArg j "catarg")))
    else
      let cells ← (← getArr j "cells").toList.mapM cellOfJson
      pure (obtainedJ (db.obtainFromMapping (shape == "odict") cells))
  | "getvalue" =>
    let db ← dbOf (← getStr j "db")
    let x ← getRat j "x"
    let toU ← getSym j "to"
    match db.obtainQuantity (← getSym j "unit") (some (← getSym j "cat")) with
    | .error e => pure (Json.mkObj [("err", .str e.name), ("at", .str "source")])
    | .ok q =>
      match db.getValue q x toU with
      | .ok y => pure (Json.mkObj [("ok", ratJ y), ("M", ratJ (magConv db q.cat q.unit toU x y))])
      | .error e => pure (errJ e)
  | "getvalues" =>
    let db ← dbOf (← getStr j "db")
    let xs ← getRats j "xs"
    let toU ← getSym j "to"
    match db.obtainQuantity (← getSym j "unit") (some (← getSym j "cat")) with
    | .error e => pure (Json.mkObj [("err", .str e.name), ("at", .str "source")])
    | .ok q =>
      match db.getValues q xs toU with
      | .ok ys => pure (Json.mkObj [("ok", Json.arr (ys.map ratJ).toArray),
          ("M", ratJ (magList db q.cat q.unit toU xs ys))])
      | .error e => pure (errJ e)
  | "copy" =>
    let db ← dbOf (← getStr j "db")
    let x ← getRat j "x"
    let toU ← getSym j "to"
    match db.obtainQuantity (← getSym j "unit") (some (← getSym j "cat")) with
    | .error e => pure (Json.mkObj [("err", .str e.name), ("at", .str "source")])
    | .ok q =>
      match db.createCopy q x toU with
      | .ok (q', y) => pure (Json.mkObj [("ok", Json.mkObj (simpleJ q' ++ [("x", ratJ y)])),
          ("M", ratJ (magConv db q.cat q.unit toU x y))])
      | .error e => pure (errJ e)
  | "convert" =>
    let db ← dbOf (← getStr j "db")
    let cq ← getSym j "cq"
    let u ← getSym j "from"
    let v ← getSym j "to"
    let x ← getRat j "x"
    match db.convert cq u v x with
    | .ok y => pure (Json.mkObj [("ok", ratJ y), ("M", ratJ (magConv db cq u v x y))])
    | .error e => pure (errJ e)
  | "convertl" =>
    let db ← dbOf (← getStr j "db")
    let cq ← getSym j "cq"
    let u ← getSym j "from"
    let v ← getSym j "to"
    let xs ← getRats j "xs"
    match db.convertList cq u v xs with
    | .ok ys => pure (Json.mkObj [("ok", Json.arr (ys.map ratJ).toArray), ("M", ratJ (magList db cq u v xs ys))])
    | .error e => pure (errJ e)
  | "addcat" =>
    let db ← dbOf (← getStr j "db")
    let name ← getSym j "name"
    match db.addCategory name (← getSym j "qt") (← getOptSyms j "valid") (← getOptSym j "default")
        (← getSym j "caption") (← getBool j "override") with
    | .error e => pure (errJ e)
    | .ok db' =>
      match db'.catByName name with
      | none => throw "registered category not found"
      | some c =>
        let valid := match c.validUnits with
          | none => Json.null
          | some vs => Json.arr (vs.map symJ).toArray
        let thenJ := match db'.obtainQuantity (← getSym j "then_unit") (some name) with
          | .ok q => Json.mkObj (simpleJ q)
          | .error e => errJ e
        pure (Json.mkObj [("ok", Json.mkObj [("valid", valid), ("default", symJ c.defaultUnit),
          ("qtype", symJ c.qtype), ("then", thenJ)])])
  | "valueless" =>
    let (name, reg) ← registered j
    let u ← getOptSym j "unit"
    let thenTo ← getOptSym j "then_to"
    let form ← getStr j "form"
    match reg with
    | .error e => pure (Json.mkObj [("err", .str e.name), ("at", .str "register")])
    | .ok db =>
      match db.catByName name with
      | none => throw "registered category not found"
      | some ci =>
        let info := [("dvalue", ratJ ci.defaultValue), ("dunit", symJ ci.defaultUnit)]
        if form == "scalar" || form == "fraction" then
          match db.createDefault name u with
          | .error e => pure (Json.mkObj ([("err", .str e.name)] ++ info))
          | .ok (q, x) =>
            let m := match u with
              | none => absR x
              | some t => magConv db name ci.defaultUnit t ci.defaultValue x
            pure (Json.mkObj ([("ok", Json.mkObj (simpleJ q ++ [("x", ratJ x)])), ("M", ratJ m)] ++ info
              ++ thenJ db q x thenTo))
        else
          let n ← if form == "fixed" then (do let d ← getInt j "dim"; pure d.toNat) else pure 0
          match db.createDefaultList n name u with
          | .error e => pure (Json.mkObj ([("err", .str e.name)] ++ info))
          | .ok (q, xs) =>
            pure (Json.mkObj ([("ok", Json.mkObj (simpleJ q ++ [("xs", Json.arr (xs.map ratJ).toArray)])),
              ("M", ratJ 0)] ++ info ++ thenListJ db q xs thenTo))
  | "regcopy" =>
    -- a value in a unit of a freshly registered category (limits, non-zero default), copied/read in another unit
    let (name, reg) ← registered j
    let x ← getRat j "x"
    let toU ← getSym j "to"
    match reg with
    | .error e => pure (Json.mkObj [("err", .str e.name), ("at", .str "register")])
    | .ok db =>
      match db.obtainQuantity (← getSym j "unit") (some name) with
      | .error e => pure (Json.mkObj [("err", .str e.name), ("at", .str "source")])
      | .ok q =>
        match db.createCopy q x toU with
        | .ok (q', y) => pure (Json.mkObj [("ok", Json.mkObj (simpleJ q' ++ [("x", ratJ y)])),
            ("M", ratJ (magConv db q.cat q.unit toU x y))])
        | .error e => pure (errJ e)
  | "copyl" =>
    let db ← dbOf (← getStr j "db")
    let xs ← getRats j "xs"
    let toU ← getSym j "to"
    match db.obtainQuantity (← getSym j "unit") (some (← getSym j "cat")) with
    | .error e => pure (Json.mkObj [("err", .str e.name), ("at", .str "source")])
    | .ok q =>
      match db.createCopyList q xs toU with
      | .ok (q', ys) => pure (Json.mkObj [("ok", Json.mkObj (simpleJ q' ++ [("xs", Json.arr (ys.map ratJ).toArray)])),
          ("M", ratJ (magList db q.cat q.unit toU xs ys))])
      | .error e => pure (errJ e)
  | "unitname" =>
    let db ← dbOf (← getStr j "db")
    match db.getUnitName (← getSym j "qt") (← getSym j "unit") with
    | .ok n => pure (Json.mkObj [("ok", symJ n)])
    | .error e => pure (errJ e)
  | _ => throw s!"unknown op {op}"

def step (j : Json) : Json :=
  match handle j with
  | .ok r => r
  | .error e => Json.mkObj [("bad", .str e)]

def main : IO Unit := do
  loop (← IO.getStdin) (← IO.getStdout) step
