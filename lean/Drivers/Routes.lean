/- line-protocol driver of the `Routes` engine (C02) -/
import Barril.Model.Proto
import Barril.Model.Routes
import Barril.Gen.Dbs
open Lean Barril Barril.Proto Barril.Routes

def dbOf (name : String) : Except String Db :=
  match name with
  | "posc" => .ok Gen.poscDb
  | "nocat" => .ok Gen.nocatDb
  | "simple" => .ok Gen.simpleDb
  | _ => .error s!"unknown db {name}"

def absR (q : Rat) : Rat := if q < 0 then -q else q
def maxR (a b : Rat) : Rat := if a < b then b else a

/-- magnitude of the intermediate quantities of `from(to x)`, in the result's unit; 0 = the value is
handed through unchanged (compared exactly) -/
def convMag (db : Db) (cq u v : Sym) (x y : Rat) : Rat :=
  if u == v then 0 else
  match db.typeOf cq with
  | .error _ => absR y
  | .ok qt =>
    match db.getInfo qt u true, db.getInfo qt v true with
    | .ok a, .ok b =>
      let base := a.toBase.eval x
      let s := if b.fromBase.r = 0 then 0 else absR (b.fromBase.q / b.fromBase.r)
      let m1 := if a.toBase.r = 0 then 0 else s * ((absR a.toBase.p + absR (a.toBase.q * x)) / absR a.toBase.r)
      let m2 := if b.fromBase.r = 0 then 0 else (absR b.fromBase.p + absR (b.fromBase.q * base)) / absR b.fromBase.r
      maxR (maxR m1 m2) (absR y)
    | _, _ => absR y

/-- a magnitude function for numbers of quantity `q` re-expressed in `toU` -/
def qMag (db : Db) (q : Quantity) (toU : Option Sym) (x y : Rat) : Rat :=
  match q, toU with
  | .simple c _ u _, some v => convMag db c u v x y
  | _, _ => 0

/-! ### parsing -/

def getOpt (j : Json) (k : String) : Option Json :=
  match j.getObjVal? k with
  | .ok .null => none
  | .ok v => some v
  | .error _ => none

def symOf (j : Json) : Except String Sym :=
  match j with
  | .str s => match s.toNat? with
    | some n => .ok n
    | none => .error "not a symbol code"
  | _ => .error "symbol must be a string"

def ratOf (j : Json) : Except String Rat :=
  match j with
  | .str s => match parseRat? s with
    | some q => .ok q
    | none => .error "not a rational"
  | _ => .error "rational must be a string"

def intOf (j : Json) : Except String Int :=
  match j with
  | .num n => if n.exponent = 0 then .ok n.mantissa else .error "not an integer"
  | .str s => match s.toInt? with
    | some n => .ok n
    | none => .error "not an integer"
  | _ => .error "not an integer"

def getOptSym (j : Json) (k : String) : Except String (Option Sym) :=
  match getOpt j k with
  | none => .ok none
  | some v => (symOf v).map some

def getOptRat (j : Json) (k : String) : Except String (Option Rat) :=
  match getOpt j k with
  | none => .ok none
  | some v => (ratOf v).map some

def arrOf (j : Json) : Except String (List Json) :=
  match j with
  | .arr a => .ok a.toList
  | _ => .error "array expected"

def getObj (j : Json) (k : String) : Except String Json :=
  match j.getObjVal? k with
  | .ok v => .ok v
  | .error _ => .error s!"missing field {k}"

def elemOf (j : Json) : Except String Elem :=
  match j with
  | .arr a => do pure (.tup (← a.toList.mapM ratOf))
  | _ => do pure (.num (← ratOf j))

def valOf (j : Json) : Except String Val := do
  let k ← getStr j "k"
  match k with
  | "num" => pure (.num (← getRat j "x"))
  | "list" => pure (.list (← (← arrOf (← getObj j "es")).mapM elemOf))
  | "tuple" => pure (.tuple (← (← arrOf (← getObj j "es")).mapM elemOf))
  | "nd" => pure (.nd (← (← arrOf (← getObj j "xs")).mapM ratOf))
  | _ => throw s!"bad value kind {k}"

def entryOf (j : Json) : Except String Entry := do
  match j with
  | .arr #[c, u, e] => pure ⟨← symOf c, ← symOf u, ← intOf e⟩
  | _ => throw "entry must be [cat, unit, exp]"

/-- a quantity specification: `{cat, unit}` (ObtainQuantity(unit, category)) or `{entries}`
(Quantity.CreateDerived) -/
def quantityOf (db : Db) (j : Json) : Except String (Except ErrKind Quantity) := do
  match getOpt j "entries" with
  | some es => pure (createDerived db (← (← arrOf es).mapM entryOf))
  | none => pure (newSimple db (← getSym j "cat") (← getSym j "unit"))

def pairOf (j : Json) : Except String (Sym × Int) := do
  match j with
  | .arr #[u, e] => pure (← symOf u, ← intOf e)
  | _ => throw "pair must be [unit, exp]"

def unitArgOf (j : Json) : Except String UnitArg := do
  let k ← getStr j "k"
  match k with
  | "str" => pure (.str (← getSym j "u"))
  | "list" => pure (.list (← (← arrOf (← getObj j "es")).mapM pairOf))
  | "tuple" => pure (.tuple (← (← arrOf (← getObj j "es")).mapM pairOf))
  | _ => throw s!"bad unit arg {k}"

def catArgOf (j : Json) : Except String CatArg := do
  let k ← getStr j "k"
  match k with
  | "str" => pure (.str (← getSym j "c"))
  | "list" => pure (.list (← (← arrOf (← getObj j "cs")).mapM symOf))
  | "tuple" => pure (.tuple (← (← arrOf (← getObj j "cs")).mapM symOf))
  | _ => throw s!"bad cat arg {k}"

def currentOf (j : Json) : Except String Current := do
  match getOpt j "mapping" with
  | none => pure none
  | some m =>
    let ps ← (← arrOf m).mapM (fun p => do
      match p with
      | .arr #[c, u] => pure (← symOf c, ← symOf u)
      | _ => throw "mapping item must be [category, unit]")
    pure (some ps)

/-! ### output -/

def numJ (y m : Rat) : Json := Json.arr #[ratJ y, ratJ m]

/-- numbers of an output container next to the input numbers they were computed from -/
def elemJ (mag : Rat → Rat → Rat) (inp : Option Elem) (out : Elem) : Json :=
  match out with
  | .num y =>
    let x := match inp with
      | some (.num x) => x
      | _ => y
    numJ y (mag x y)
  | .tup ys =>
    let xs := match inp with
      | some (.tup xs) => xs
      | _ => ys
    Json.arr ((ys.zipIdx.map (fun (y, i) => numJ y (mag (xs.getD i y) y))).toArray)

def elemsJ (mag : Rat → Rat → Rat) (inp out : List Elem) : Json :=
  Json.arr ((out.zipIdx.map (fun (o, i) => elemJ mag inp[i]? o)).toArray)

def valJ (mag : Rat → Rat → Rat) (inp out : Val) : Json :=
  match out with
  | .num y =>
    let x := match inp with
      | .num x => x
      | _ => y
    Json.mkObj [("k", "num"), ("x", numJ y (mag x y))]
  | .list es => Json.mkObj [("k", "list"), ("es", elemsJ mag inp.items es)]
  | .tuple es => Json.mkObj [("k", "tuple"), ("es", elemsJ mag inp.items es)]
  | .nd ys => Json.mkObj [("k", "nd"), ("es", elemsJ mag inp.items (ys.map .num))]

def okJ (j : Json) : Json := Json.mkObj [("ok", j)]

def scalarFields (s : Scalar) (m : Rat) : List (String × Json) :=
  [("cat", symJ s.q.category), ("qtype", symJ s.q.qtype), ("unit", symJ s.q.unit),
   ("derived", .bool s.q.isDerived), ("x", numJ s.value m)]

def scalarJ (s : Scalar) (m : Rat) : Json := Json.mkObj (scalarFields s m)

def exJ {α : Type} (r : Except ErrKind α) (f : α → Json) : Json :=
  match r with
  | .error e => errJ e
  | .ok a => okJ (f a)

/-- the slope of a conversion (for propagating the error bound of an intermediate value) -/
def slopeAbs (db : Db) (q : Quantity) (toU : Sym) (x : Rat) : Rat :=
  match q.convertScalarValue db x toU, q.convertScalarValue db (x + 1) toU with
  | .ok a, .ok b => absR (b - a)
  | _, _ => 1

/-! ### manager histories -/

def mappingOf (m : Json) : Except String (List (Sym × Sym)) := do
  (← arrOf m).mapM (fun p => do
    match p with
    | .arr #[c, u] => pure (← symOf c, ← symOf u)
    | _ => throw "mapping item must be [category, unit]")

/-- one call of a history; the inner `Except` = the arguments could not be built (the real call raises
before it reaches the manager) -/
def mgrOpOf (db : Db) (j : Json) : Except String (Except ErrKind MgrOp) := do
  let k ← getStr j "k"
  match k with
  | "add" => pure (.ok (.add (← getSym j "id") (← mappingOf (← getObj j "mapping"))))
  | "remove" => pure (.ok (.remove (← getSym j "id")))
  | "set_current" => pure (.ok (.setCurrent (← getOptSym j "id")))
  | "set_default_unit" => pure (.ok (.setDefaultUnit (← getOptSym j "on") (← getSym j "c") (← getSym j "u")))
  | "remove_category" => pure (.ok (.removeCategory (← getOptSym j "on") (← getSym j "c")))
  | "convert" => pure (.ok (.convert (← getSym j "c") (← getSym j "u") (← valOf (← getObj j "val"))))
  | "convert_scalar" =>
    let x ← getRat j "x"
    match ← quantityOf db (← getObj j "q") with
    | .error e => pure (.error e)
    | .ok q => pure (.ok (.convertScalar ⟨q, x⟩))
  | _ => throw s!"bad manager op {k}"

def mappingJ (m : List (Sym × Sym)) : Json :=
  Json.arr ((m.map (fun (c, u) => Json.arr #[symJ c, symJ u])).toArray)

def mgrOutJ (db : Db) (op : MgrOp) (r : Except ErrKind MgrOut) : Json :=
  match r with
  | .error e => errJ e
  | .ok (.state cur) => okJ (Json.mkObj [("cur", mappingJ cur)])
  | .ok (.conv v toU) =>
    match op with
    | .convert c u val => okJ (Json.mkObj [("unit", symJ toU), ("val", valJ (convMag db c u toU) val v)])
    | _ => okJ (Json.mkObj [("unit", symJ toU)])
  | .ok (.scalar s) =>
    match op with
    | .convertScalar s0 => okJ (scalarJ s (qMag db s0.q (some s.q.unit) s0.value s.value))
    | _ => okJ (scalarJ s 0)

def runMgr (db : Db) : Mgr → List (Except ErrKind MgrOp) → List Json
  | _, [] => []
  | m, .error e :: rest => errJ e :: runMgr db m rest
  | m, .ok op :: rest =>
    let r := m.step db op
    mgrOutJ db op r.2 :: runMgr db r.1 rest

def handle (j : Json) : Except String Json := do
  let op ← getStr j "op"
  let db ← dbOf (← getStr j "db")
  match op with
  | "scalar_getvalue" =>
    let unit ← getOptSym j "unit"
    let x ← getRat j "x"
    match ← quantityOf db (← getObj j "q") with
    | .error e => pure (errJ e)
    | .ok q => pure (exJ ((Scalar.mk q x).getValue db unit) (fun y => numJ y (qMag db q unit x y)))
  | "q_convert_scalar" =>
    let to ← getSym j "to"
    let x ← getRat j "x"
    match ← quantityOf db (← getObj j "q") with
    | .error e => pure (errJ e)
    | .ok q => pure (exJ (q.convertScalarValue db x to) (fun y => numJ y (qMag db q (some to) x y)))
  | "q_convert" =>
    let to ← getSym j "to"
    let v ← valOf (← getObj j "val")
    match ← quantityOf db (← getObj j "q") with
    | .error e => pure (errJ e)
    | .ok q => pure (exJ (q.convert db v to) (fun r => valJ (qMag db q (some to)) v r))
  | "db_convert" =>
    let cq ← catArgOf (← getObj j "cq")
    let fromU ← unitArgOf (← getObj j "from")
    let toU ← unitArgOf (← getObj j "to")
    let v ← valOf (← getObj j "val")
    let mag : Rat → Rat → Rat :=
      if fromU.sameExps toU then fun _ _ => 0 else
      match cq.unwrap1, fromU.exps, toU.exps with
      | .str c, [(u, 1)], [(w, 1)] => convMag db c u w
      | _, [(_, e)], [(_, e')] =>
        if e == 1 && e' == 1 then fun x y => if x == y then 0 else absR y
        else fun _ y => absR y                       -- the `math.pow` part is never exact
      | _, _, _ => fun x y => if x == y then 0 else absR y
    match convertAny db cq fromU toU v with
    | none => pure (Json.mkObj [("outside", .bool true)])
    | some r => pure (exJ r (fun r => valJ mag v r))
  | "array_getvalues" =>
    let unit ← getOptSym j "unit"
    let v ← valOf (← getObj j "val")
    match ← quantityOf db (← getObj j "q") with
    | .error e => pure (errJ e)
    | .ok q => pure (exJ ((Arr.mk q v).getValues db unit) (fun r => valJ (qMag db q unit) v r))
  | "create_copy" =>
    let x ← getRat j "x"
    let value ← getOptRat j "value"
    let unit ← getOptSym j "unit"
    let category ← getOptSym j "category"
    match ← quantityOf db (← getObj j "q") with
    | .error e => pure (errJ e)
    | .ok q =>
      pure (exJ ((Scalar.mk q x).createCopy db value unit category)
        (fun s => scalarJ s (if value.isSome then 0 else qMag db q unit x s.value)))
  | "array_create_copy" =>
    let v ← valOf (← getObj j "val")
    let unit ← getOptSym j "unit"
    let category ← getOptSym j "category"
    match ← quantityOf db (← getObj j "q") with
    | .error e => pure (errJ e)
    | .ok q =>
      pure (exJ ((Arr.mk q v).createCopy db none unit category)
        (fun a => Json.mkObj [("cat", symJ a.q.category), ("qtype", symJ a.q.qtype), ("unit", symJ a.q.unit),
          ("val", valJ (qMag db q unit) v a.values)]))
  | "default_scalar" =>
    let c ← getSym j "c"
    let unit ← getOptSym j "unit"
    -- optional re-registration of the category with another default (AddCategory(override=True))
    let du ← getOptSym j "def_unit"
    let dv ← getOptRat j "def_value"
    let db : Db := match du, dv with
      | some du, some dv =>
        { db with cats := db.cats.map (fun r => if r.name == c then { r with defaultUnit := du, defaultValue := dv } else r) }
      | _, _ => db
    let mag : Rat → Rat := fun y =>
      match db.catByName c with
      | none => 0
      | some ci =>
        match newSimple db ci.name ci.defaultUnit with
        | .ok q => qMag db q unit ci.defaultValue y
        | .error _ => 0
    pure (exJ (Scalar.ofCategory db c unit) (fun s => scalarJ s (maxR (mag s.value) (absR s.value))))
  | "scalar_of_q" =>
    match ← quantityOf db (← getObj j "q") with
    | .error e => pure (errJ e)
    | .ok q => pure (exJ (Scalar.ofQuantity db q none) (fun s => scalarJ s (absR s.value)))
  | "change_scalars" =>
    let owner ← (← arrOf (← getObj j "owner")).mapM (fun a => do
      let name ← getSym a "name"
      let x ← getRat a "x"
      pure (name, x, ← quantityOf db (← getObj a "q")))
    let changes ← (← arrOf (← getObj j "changes")).mapM (fun a => do
      pure ((← getSym a "name"), (← getOptRat a "value"), (← getOptSym a "unit")))
    -- building the owner's scalars comes first; the first failure is the result
    match mapE (fun (o : Sym × Rat × Except ErrKind Quantity) => match o.2.2 with
                  | .error e => .error e
                  | .ok q => .ok (o.1, Scalar.mk q o.2.1)) owner with
    | .error e => pure (errJ e)
    | .ok own =>
      let mags : Sym → Rat → Rat := fun name y =>
        match own.find? (·.1 == name), changes.find? (·.1 == name) with
        | some (_, s), some (_, none, unit) => qMag db s.q unit s.value y
        | _, _ => 0
      pure (exJ (changeScalars db own changes) (fun l => Json.arr (l.map (fun (n, s) =>
        Json.mkObj (("name", symJ n) :: scalarFields s (mags n s.value)))).toArray))
  | "index_as_scalar" =>
    let dim ← getInt j "dim"
    let i ← getInt j "index"
    let v ← valOf (← getObj j "val")
    let quantity ← match getOpt j "quantity" with
      | none => pure none
      | some qj => pure (some (← quantityOf db qj))
    match ← quantityOf db (← getObj j "q"), quantity with
    | .error e, _ => pure (errJ e)
    | _, some (.error e) => pure (errJ e)
    | .ok q, quantity =>
      let quantity : Option Quantity := match quantity with
        | some (.ok q') => some q'
        | _ => none
      let toU := (quantity.getD q).unit
      let inp : Rat → Rat := fun y => match v.index i with
        | .ok (.num x) => x
        | _ => y
      pure (exJ ((FixedArr.mk dim.toNat ⟨q, v⟩).indexAsScalar db i quantity)
        (fun s => scalarJ s (qMag db q (some toU) (inp s.value) s.value)))
  | "changing_index" =>
    let dim ← getInt j "dim"
    let i ← getInt j "index"
    let v ← valOf (← getObj j "val")
    let uvu ← getBool j "use_value_unit"
    let nvj ← getObj j "nv"
    let k ← getStr nvj "k"
    let nv : Except ErrKind NewValue ← match k with
      | "number" => pure (.ok (.number (← getRat nvj "x")))
      | "scalar" =>
        let x ← getRat nvj "x"
        match ← quantityOf db (← getObj nvj "q") with
        | .error e => pure (.error e)
        | .ok q => pure (.ok (.scalar ⟨q, x⟩))
      | "tuple" => pure (.ok (.tuple (← getOptRat nvj "value") (← getOptSym nvj "unit") (← getOptSym nvj "category")))
      | _ => throw s!"bad new value {k}"
    match ← quantityOf db (← getObj j "q"), nv with
    | .error e, _ => pure (errJ e)
    | _, .error e => pure (errJ e)
    | .ok q, .ok nv =>
      let fa := FixedArr.mk dim.toNat ⟨q, v⟩
      match fa.changingIndex db i nv uvu with
      | .error e => pure (errJ e)
      | .ok r =>
        let toU := r.arr.q.unit
        -- magnitude of the replaced item: through the scalar that was used
        let mNew : Rat := match fa.scalarFor db i nv, normIndex v.items.length i with
          | .ok s, .ok kk =>
            let y := match r.arr.values.items[kk]? with
              | some (.num y) => y
              | _ => 0
            let m2 := qMag db s.q (some toU) s.value y
            let m1 := match nv, v.items[kk]? with
              | .tuple none u _, some (.num x) => qMag db q u x s.value * slopeAbs db s.q toU s.value
              | _, _ => 0
            maxR (m2 + m1) (absR y)
          | _, _ => 0
        let kk := match normIndex v.items.length i with
          | .ok kk => kk
          | .error _ => 0
        let mag := qMag db q (some toU)
        let items := r.arr.values.items.zipIdx.map (fun (o, idx) =>
          if idx == kk then (match o with
            | .num y => numJ y mNew
            | _ => Json.null)
          else elemJ mag v.items[idx]? o)
        pure (okJ (Json.mkObj [("dim", toJson r.dim), ("cat", symJ r.arr.q.category), ("qtype", symJ r.arr.q.qtype),
          ("unit", symJ r.arr.q.unit), ("val", Json.mkObj [("k", "tuple"), ("es", Json.arr items.toArray)])]))
  | "convert_to_current" =>
    let cur ← currentOf j
    let c ← getSym j "c"
    let u ← getSym j "u"
    let v ← valOf (← getObj j "val")
    pure (exJ (convertToCurrent db cur c u v) (fun (r, toU) =>
      Json.mkObj [("unit", symJ toU), ("val", valJ (convMag db c u toU) v r)]))
  | "convert_scalar_to_current" =>
    let cur ← currentOf j
    let x ← getRat j "x"
    match ← quantityOf db (← getObj j "q") with
    | .error e => pure (errJ e)
    | .ok q =>
      pure (exJ (convertScalarToCurrent db cur ⟨q, x⟩) (fun s => scalarJ s (qMag db q (some s.q.unit) x s.value)))
  | "mgr_history" =>
    let ops ← (← arrOf (← getObj j "ops")).mapM (mgrOpOf db)
    pure (okJ (Json.arr (runMgr db Mgr.new ops).toArray))
  | _ => throw s!"unknown op {op}"

def step (j : Json) : Json :=
  match handle j with
  | .ok r => r
  | .error e => Json.mkObj [("bad", .str e)]

def main : IO Unit := do
  loop (← IO.getStdin) (← IO.getStdout) step
