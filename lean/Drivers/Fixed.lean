/- line-protocol driver of the `Fixed` engine (C11): `Barril/Model/Fixed.lean` over the POSC database -/
import Barril.Model.Proto
import Barril.Model.Fixed
import Barril.Gen.Dbs
open Lean Barril Barril.Proto Barril.Fixed

def theDb : Db := Gen.poscDb

def absR (q : Rat) : Rat := if q < 0 then -q else q
def maxR (a b : Rat) : Rat := if a < b then b else a

/-! ### parsing -/

/-- a field that may be absent or `null` -/
def opt (j : Json) (k : String) : Option Json :=
  match j.getObjVal? k with
  | .ok .null => none
  | .ok v => some v
  | .error _ => none

def asRat (j : Json) : Except String Rat :=
  match j with
  | .str s => match parseRat? s with
    | some q => .ok q
    | none => .error s!"not a rational: {s}"
  | _ => .error "rational expected as a string"

def asSym (j : Json) : Except String Sym :=
  match j with
  | .str s => match s.toNat? with
    | some n => .ok n
    | none => .error s!"not a symbol code: {s}"
  | _ => .error "symbol code expected as a string"

def asInt (j : Json) : Except String Int :=
  match j with
  | .num n => if n.exponent = 0 then .ok n.mantissa else .error "integer expected"
  | .str s => match s.toInt? with
    | some n => .ok n
    | none => .error "integer expected"
  | _ => .error "integer expected"

def asRats (j : Json) : Except String (List Rat) :=
  match j with
  | .arr a => a.toList.mapM asRat
  | _ => .error "array of rationals expected"

def optSym (j : Json) (k : String) : Except String (Option Sym) :=
  match opt j k with
  | none => .ok none
  | some v => (asSym v).map some

def optInt (j : Json) (k : String) : Except String (Option Int) :=
  match opt j k with
  | none => .ok none
  | some v => (asInt v).map some

def asKind (s : String) : Except String Kind :=
  match s with
  | "list" => .ok .list
  | "tuple" => .ok .tuple
  | "ndarray" => .ok .ndarray
  | _ => .error s!"unknown container {s}"

def asVals (j : Json) : Except String Vals := do
  let k ← asKind (← getStr j "k")
  let xs ← asRats (← j.getObjVal? "xs")
  pure ⟨k, xs⟩

def asValArg (j : Json) : Except String ValArg :=
  match j with
  | .str "unsized" => .ok .unsized
  | .str s => .error s!"unknown values token {s}"
  | _ => (asVals j).map .sized

def optValArg (j : Json) (k : String) : Except String (Option ValArg) :=
  match opt j k with
  | none => .ok none
  | some v => (asValArg v).map some

def asQty (j : Json) : Except String Qty :=
  match j with
  | .str "empty" => .ok .empty
  | .str s => .error s!"unknown quantity token {s}"
  | _ => do
    let c ← getSym j "cat"
    let u ← getSym j "unit"
    pure (.simple c u)

def optQty (j : Json) (k : String) : Except String (Option Qty) :=
  match opt j k with
  | none => .ok none
  | some v => (asQty v).map some

def asCls (j : Json) : Except String ClsAttr :=
  match j with
  | .str "none" => .ok .none
  | .str "missing" => .ok .missing
  | .str s => .error s!"unknown class token {s}"
  | _ => do pure (.val (← getInt j "val"))

def asState (j : Json) : Except String FixedArr := do
  let dim ← getInt j "dim"
  let v ← asVals j
  let q ← asQty (← j.getObjVal? "q")
  pure ⟨dim, v, q⟩

def parseRoute (kind : String) (j : Json) : Except String Route := do
  let cls ← asCls (← j.getObjVal? "cls")
  match kind with
  | "init" =>
    let dim ← getInt j "dim"
    let form ← getStr j "form"
    let values ← optValArg j "values"
    let unit ← optSym j "unit"
    match form with
    | "cat" =>
      let c ← j.getObjVal? "c"
      let ca ← match opt c "str" with
        | some s => (asSym s).map CatArg.str
        | none => (do pure (CatArg.qty (← asQty (← c.getObjVal? "qty"))) : Except String CatArg)
      pure (.init cls dim (.catFirst ca values unit))
    | "val" => pure (.init cls dim (.valFirst values unit (← optSym j "category")))
    | _ => throw s!"unknown form {form}"
  | "cwq" =>
    pure (.cwq cls (← asQty (← j.getObjVal? "q")) (← optValArg j "values") (← optInt j "dimension")
      (← optValArg j "value"))
  | "cea" => pure (.cea cls (← getInt j "dimension") (← optValArg j "values"))
  | "internal" =>
    pure (.internal cls (← optInt j "inst") (← asQty (← j.getObjVal? "q")) (← optValArg j "values")
      (← optInt j "dimension") (← optValArg j "value"))
  | _ => throw s!"unknown route {kind}"

def asAOp (s : String) : Except String AOp :=
  match s with
  | "sum" => .ok .sum
  | "sub" => .ok .sub
  | "mul" => .ok .mul
  | "div" => .ok .div
  | "floordiv" => .ok .floordiv
  | _ => .error s!"unknown arithmetic operator {s}"

/-- the operand of an arithmetic request and the side `self` is on -/
def parseOperand (rhs : Json) : Except String (Operand × Bool) :=
  match opt rhs "arr" with
  | some a => do
    let v ← asVals a
    let q ← asQty (← a.getObjVal? "q")
    pure (.arr v q, true)
  | none =>
    match opt rhs "num" with
    | some x => do pure (.num (← asRat x), ← getBool rhs "left")
    | none => do pure (.nd (← asRats (← rhs.getObjVal? "nd")), ← getBool rhs "left")

def parseCIValue (v : Json) : Except String CIValue :=
  match opt v "num" with
  | some x => do pure (.num (← asRat x))
  | none =>
    match opt v "scalar" with
    | some s => do pure (.scalar ⟨← asQty (← s.getObjVal? "q"), ← getRat s "v"⟩)
    | none => do
      let t ← v.getObjVal? "tup"
      let x ← match opt t "v" with
        | none => (pure none : Except String (Option Rat))
        | some x => (asRat x).map some
      pure (.tup x (← optSym t "unit") (← optSym t "category"))

def parseSlice (j : Json) : Except String PySlice := do
  pure ⟨← optInt j "start", ← optInt j "stop", ← optInt j "step"⟩

def parseScalar (s : Json) : Except String Scalar := do
  pure ⟨← asQty (← s.getObjVal? "q"), ← getRat s "v"⟩

/-- an operation (everything but the source) -/
def parseOp (kind : String) (j : Json) : Except String Op := do
  match kind with
  | "copy" => pure .copy
  | "createCopy" => pure (.createCopy (← optValArg j "values") (← optSym j "unit") (← optSym j "category"))
  | "pickle" => pure .pickle
  | "arith" =>
    let op ← asAOp (← getStr j "aop")
    match opt j "other" with
    | some i => pure (.arith op (.other (← asInt i).toNat))
    | none =>
      let (p, left) ← parseOperand (← j.getObjVal? "rhs")
      pure (.arith op (.operand p left))
  | "changingIndex" =>
    pure (.changingIndex (← getInt j "index") (← parseCIValue (← j.getObjVal? "value")) (← getBool j "uvu"))
  | "indexAsScalar" => pure (.indexAsScalar (← getInt j "index") (← optQty j "quantity"))
  | "assign" =>
    match ← getStr j "attr" with
    | "dimension" => pure (.assign .dimension)
    | "values" => pure (.assign .values)
    | "unit" => pure (.assign .unit)
    | "category" => pure (.assign .category)
    | "quantity_type" => pure (.assign .quantityType)
    | a => throw s!"unknown attribute {a}"
  | "createCopyKw" =>
    let extra ← match ← getStr j "extra" with
      | "dimension" => pure ExtraKw.dimension
      | "value" => pure ExtraKw.value
      | "unit_database" => pure ExtraKw.unitDatabase
      | e => throw s!"unknown extra keyword {e}"
    pure (.createCopyKw (← optValArg j "values") (← optSym j "unit") (← optSym j "category") extra)
  | "len" => pure .len
  | "iter" => pure .iter
  | "getItem" => pure (.getItem (← getInt j "index"))
  | "getSlice" => pure (.getSlice (← parseSlice (← j.getObjVal? "slice")))
  | "checkValues" =>
    match ← optValArg j "values" with
    | none => throw "checkValues needs values"
    | some v => pure (.checkValues v (← optInt j "dimension"))
  | "eq" =>
    match opt j "other" with
    | some (.str "foreign") => pure (.eq .foreign)
    | some i => pure (.eq (.store (← asInt i).toNat))
    | none => throw "eq needs other"
  | _ => throw s!"unknown operation {kind}"

/-! ### magnitudes for the float comparison -/

/-- magnitude of the intermediates of a conversion `u → v` of `x` (result `y`), in the result's unit -/
def convMag (db : Db) (cq u v : Sym) (x y : Rat) : Rat :=
  match db.typeOf cq with
  | .error _ => maxR (absR x) (absR y)
  | .ok qt =>
    match db.getInfo qt u true, db.getInfo qt v true with
    | .ok a, .ok b =>
      let base := a.toBase.eval x
      let s := if b.fromBase.r = 0 then 0 else absR (b.fromBase.q / b.fromBase.r)
      let m1 := if a.toBase.r = 0 then 0 else s * ((absR a.toBase.p + absR (a.toBase.q * x)) / absR a.toBase.r)
      let m2 := if b.fromBase.r = 0 then 0 else (absR b.fromBase.p + absR (b.fromBase.q * base)) / absR b.fromBase.r
      maxR (maxR m1 m2) (absR y)
    | _, _ => maxR (absR x) (absR y)

/-- the same for a value of quantity `q` re-expressed in unit `v` -/
def qMag (db : Db) (q : Qty) (v : Sym) (x : Rat) : Rat :=
  match q with
  | .empty => absR x
  | .simple c u =>
    if u == v then absR x else
    match db.convert c u v x with
    | .ok y => convMag db c u v x y
    | .error _ => absR x

def zipMax (a b : List Rat) : List Rat := (a.zip b).map (fun p => maxR p.1 p.2)

/-- per-element magnitudes of an array result -/
def objMag (db : Db) (store : List Obj) (src : Obj) (o : Op) (res : Obj) : List Rat :=
  let base := res.st.vals.xs.map absR
  match o with
  | .createCopy none (some _) _ => zipMax base (src.st.vals.xs.map (qMag db src.st.q res.st.q.unit))
  | .arith _ rhs =>
    let operand : Operand × Bool := match rhs with
      | .other i => (match store[i]? with
        | some b => (.arr b.st.vals b.st.q, true)
        | none => (.num 0, true))
      | .operand p l => (p, l)
    let a := if operand.2 then PyVal.seq src.st.vals else operand.1.val
    let b := if operand.2 then operand.1.val else PyVal.seq src.st.vals
    match pairs a b with
    | .ok (_, ps) =>
      let q1 := if operand.2 then src.st.q else operand.1.qty
      let q2 := if operand.2 then operand.1.qty else src.st.q
      zipMax base (ps.map (fun p => maxR (absR p.1) (maxR (absR p.2) (qMag db q2 q1.unit p.2))))
    | .error _ => base
  | .changingIndex i v uvu =>
    let others := src.st.vals.xs.map (qMag db src.st.q res.st.q.unit)
    let m := zipMax base others
    -- the replaced element: the supplied amount, possibly converted twice
    let extra : Rat := match ciScalar db src i v with
      | .ok sc =>
        let viaTup : Rat := match v with
          | .tup none (some u) _ => (match pyGet src.st.vals.xs i with
            | .ok x => qMag db src.st.q u x
            | .error _ => 0)
          | _ => 0
        maxR viaTup (maxR (absR sc.v) (qMag db sc.q (if uvu then sc.q.unit else src.st.q.unit) sc.v))
      | .error _ => 0
    m.map (fun x => maxR x extra)
  | _ => base

def scalarMag (db : Db) (src : Obj) (i : Int) (res : Scalar) : Rat :=
  match pyGet src.st.vals.xs i with
  | .ok x => maxR (absR res.v) (qMag db src.st.q res.q.unit x)
  | .error _ => absR res.v

/-! ### answers -/

def kindStr : Kind → String
  | .list => "list"
  | .tuple => "tuple"
  | .ndarray => "ndarray"

def qtyJ (q : Qty) : Json := Json.mkObj [("cat", symJ q.cat), ("unit", symJ q.unit)]

def intJ (n : Int) : Json := .num ⟨n, 0⟩

/-- an array with its numbers -/
def objJ (o : Obj) (mags : List Rat) : Json :=
  Json.mkObj [("ok", Json.mkObj [("dim", intJ o.st.dim), ("len", intJ o.st.vals.xs.length),
    ("k", .str (kindStr o.st.vals.kind)), ("q", qtyJ o.st.q),
    ("xs", Json.arr (o.st.vals.xs.map ratJ).toArray), ("M", Json.arr (mags.map ratJ).toArray)])]

/-- an array, structure only -/
def objShapeJ (o : Obj) : Json :=
  Json.mkObj [("ok", Json.mkObj [("dim", intJ o.st.dim), ("len", intJ o.st.vals.xs.length),
    ("k", .str (kindStr o.st.vals.kind)), ("q", qtyJ o.st.q)])]

def scalarJ (s : Scalar) (m : Rat) : Json :=
  Json.mkObj [("ok", Json.mkObj [("v", ratJ s.v), ("q", qtyJ s.q), ("M", ratJ m)])]

/-- requests outside the domain of `opFuncSimple` are refused, not answered -/
def arithInDomain (src : Obj) (op : AOp) (p : Operand) (selfLeft : Bool) : Bool :=
  if selfLeft then opInDomain op src.st.q p.qty else
    match p with
    | .arr _ _ => false        -- an Array on the left decides the class of the result itself
    | _ => opInDomain op p.qty src.st.q

def opInDomainOk (store : List Obj) (src : Obj) : Op → Bool
  | .arith op (.other i) =>
    match store[i]? with
    | some b => arithInDomain src op (.arr b.st.vals b.st.q) true
    | none => false
  | .arith op (.operand p l) => arithInDomain src op p l
  | _ => true

def F : OpFunc := opFuncSimple theDb

/-- a value that is neither an array nor a Scalar -/
def plainJ : Out → Json
  | .int n => Json.mkObj [("ok", Json.mkObj [("int", intJ n)])]
  | .num x => Json.mkObj [("ok", Json.mkObj [("num", ratJ x)])]
  | .vals v => Json.mkObj [("ok", Json.mkObj [("seq", .str (kindStr v.kind)), ("xs", Json.arr (v.xs.map ratJ).toArray)])]
  | .bool b => Json.mkObj [("ok", Json.mkObj [("bool", .bool b)])]
  | .unit => Json.mkObj [("ok", Json.mkObj [("none", .bool true)])]
  | _ => Json.mkObj [("bad", .str "not a plain value")]

def answerOp (store : List Obj) (src : Obj) (o : Op) : Except String Json :=
  if !opInDomainOk store src o then .error "arithmetic with a derived result is not modelled by this engine" else
  match runOp theDb F store src o with
  | .error e => .ok (errJ e)
  | .ok (.obj r) => .ok (objJ r (objMag theDb store src o r))
  | .ok (.scalar s) =>
    match o with
    | .indexAsScalar i _ => .ok (scalarJ s (scalarMag theDb src i s))
    | _ => .ok (scalarJ s (absR s.v))
  | .ok out => .ok (plainJ out)

/-- class, dimension, length and container of an arithmetic result whose quantity is derived: the model's
`doOperation` with the size-only `operation_func` -/
def answerShape (src : Obj) (o : Op) : Except String Json :=
  match o with
  | .arith op (.operand p l) =>
    match doOperation opFuncShape src op p l with
    | .error e => .ok (errJ e)
    | .ok r => .ok (Json.mkObj [("ok", Json.mkObj [("dim", intJ r.st.dim), ("len", intJ r.st.vals.xs.length),
        ("k", .str (kindStr r.st.vals.kind))])])
  | _ => .error "arithShape takes an arithmetic operation with an explicit operand"

def answerFromScalars (j : Json) : Except String Json := do
  let cls ← asCls (← j.getObjVal? "cls")
  let scalars ← (← getArr j "scalars").toList.mapM parseScalar
  match fromScalars theDb cls scalars (← optSym j "unit") (← optSym j "category") with
  | .error e => pure (errJ e)
  | .ok o => pure (objShapeJ o)

def answerRoute (r : Route) : Json :=
  match runRoute theDb r with
  | .error e => errJ e
  | .ok o => objJ o (o.st.vals.xs.map absR)

/-- a command of a history: `route` for a construction, `do` for an operation on `src` (a store index) -/
def parseCmd (j : Json) : Except String Cmd :=
  match opt j "route" with
  | some (.str "fromScalars") => do
    let cls ← asCls (← j.getObjVal? "cls")
    let scalars ← (← getArr j "scalars").toList.mapM parseScalar
    pure (.fromScalars cls scalars (← optSym j "unit") (← optSym j "category"))
  | some (.str kind) => do pure (.make (← parseRoute kind j))
  | some _ => .error "route must be a string"
  | none =>
    match opt j "fromScalars" with
    | some _ => do
      let cls ← asCls (← j.getObjVal? "cls")
      let scalars ← (← getArr j "scalars").toList.mapM parseScalar
      pure (.fromScalars cls scalars (← optSym j "unit") (← optSym j "category"))
    | none => do
    let kind ← getStr j "do"
    let src ← getInt j "src"
    pure (.op src.toNat (← parseOp kind j))

def cmdInDomain (store : List Obj) : Cmd → Bool
  | .make _ => true
  | .fromScalars _ _ _ _ => true
  | .op src o =>
    match store[src]? with
    | some s => opInDomainOk store s o
    | none => false

def historyJ : List Obj → List Cmd → Except String (List Json)
  | _, [] => .ok []
  | store, c :: cs =>
    if !cmdInDomain store c then .error "history command outside the modelled domain" else
    let r := step theDb F store c
    let out : Json := match r.2 with
      | .error e => errJ e
      | .ok (.obj o) => objShapeJ o
      | .ok (.scalar _) => Json.mkObj [("ok", Json.mkObj [("scalar", .bool true)])]
      | .ok _ => Json.mkObj [("ok", Json.mkObj [("plain", .bool true)])]
    match historyJ r.1 cs with
    | .error e => .error e
    | .ok rest => .ok (out :: rest)

/-- an array as a Curve sees it: `len` elements in the outer container, each a number (`w` null) or a
tuple / row of `w` numbers -/
def parseRef (j : Json) : Except String ArrRef := do
  let id ← getInt j "id"
  let len ← getInt j "len"
  match ← optInt j "w" with
  | none => pure ⟨id.toNat, .flat len.toNat⟩
  | some w => pure ⟨id.toNat, .points len.toNat w.toNat⟩

def parseSetter (j : Json) : Except String Setter := do
  let a ← parseRef (← j.getObjVal? "a")
  match ← getStr j "set" with
  | "image" => pure (.image a)
  | "domain" => pure (.domain a)
  | s => throw s!"unknown setter {s}"

def parseElem (j : Json) : Except String Elem :=
  match j with
  | .arr a => do pure (.point (← a.toList.mapM asRat))
  | _ => do pure (.num (← asRat j))

/-- the content of one array of a curve request: `id`, container `k`, `unit`, `elems` -/
def parseArrData (j : Json) : Except String (Nat × ArrData) := do
  let id ← getInt j "id"
  let k ← asKind (← getStr j "k")
  let elems ← (← getArr j "elems").toList.mapM parseElem
  pure (id.toNat, ⟨k, elems, ← getSym j "unit"⟩)

def contentOf (arrs : List (Nat × ArrData)) : Content := fun a =>
  match arrs.find? (fun p => p.1 == a.id) with
  | some p => p.2
  | none => ⟨.list, [], 0⟩

def parseCurveOp (j : Json) : Except String CurveOp :=
  match opt j "set" with
  | some _ => do pure (.set (← parseSetter j))
  | none =>
    match opt j "get" with
    | some i => do pure (.getItem (← asInt i))
    | none =>
      match opt j "slice" with
      | some sl => do pure (.getSlice (← parseSlice sl))
      | none =>
        match opt j "length" with
        | some _ => pure .length
        | none =>
          match opt j "repr" with
          | some _ => pure .repr
          | none => .error "unknown curve operation"

def elemJ : Elem → Json
  | .num x => ratJ x
  | .point xs => Json.arr (xs.map ratJ).toArray

def seqJ (p : Kind × List Elem) : Json :=
  Json.mkObj [("k", .str (kindStr p.1)), ("elems", Json.arr (p.2.map elemJ).toArray)]

def curveOutJ : CurveOut → Json
  | .done => Json.mkObj [("done", .bool true)]
  | .item d im => Json.mkObj [("item", Json.arr #[elemJ d, elemJ im])]
  | .slices d im => Json.mkObj [("slices", Json.arr #[seqJ d, seqJ im])]
  | .length n => Json.mkObj [("length", intJ n)]
  | .repr r => Json.mkObj [("repr", Json.mkObj [("iunit", symJ r.imageUnit), ("dunit", symJ r.domainUnit),
      ("items", Json.arr (r.items.map (fun p => Json.arr #[elemJ p.1, elemJ p.2])).toArray),
      ("ellipsis", .bool r.ellipsis)])]

/-- every call of a curve history: its outcome and the arrays the curve holds afterwards -/
def curveOpSteps (h : Content) : Curve → List CurveOp → List Json
  | _, [] => []
  | c, o :: os =>
    let c' := c.next o
    let common := [("image", Json.str (toString c'.image.id)), ("domain", .str (toString c'.domain.id)),
      ("ilen", .str (toString c'.image.len)), ("dlen", .str (toString c'.domain.len))]
    let this : Json := match c.answer h o with
      | .error e => Json.mkObj (("res", .str e.name) :: common)
      | .ok out => Json.mkObj (("res", .str "ok") :: ("out", curveOutJ out) :: common)
    this :: curveOpSteps h c' os

/-- the references of a request and their content must tell the same lengths -/
def faithfulOn (h : Content) (refs : List ArrRef) : Bool := refs.all (fun a => (h a).elems.length == a.len)

def curveOpRefs : List CurveOp → List ArrRef
  | [] => []
  | .set (.image a) :: os => a :: curveOpRefs os
  | .set (.domain a) :: os => a :: curveOpRefs os
  | _ :: os => curveOpRefs os

def curveSteps : Curve → List Setter → List Json
  | _, [] => []
  | c, s :: ss =>
    let res : String := match c.apply s with
      | .ok _ => "ok"
      | .error e => e.name
    let c' := c.after s
    Json.mkObj [("res", .str res), ("image", .str (toString c'.image.id)), ("domain", .str (toString c'.domain.id)),
      ("ilen", .str (toString c'.image.len)), ("dlen", .str (toString c'.domain.len))] :: curveSteps c' ss

def handleOne (j : Json) : Except String Json := do
  let op ← getStr j "op"
  match op with
  | "init" | "cwq" | "cea" | "internal" => pure (answerRoute (← parseRoute op j))
  | "createCopy" | "pickle" | "arith" | "changingIndex" | "indexAsScalar" | "assign" | "createCopyKw" | "len" | "iter"
  | "getItem" | "getSlice" | "checkValues" | "eq" =>
    let cls ← asCls (← j.getObjVal? "cls")
    let st ← asState (← j.getObjVal? "src")
    -- `others`: the arrays an `eq` refers to by position
    let others ← match opt j "others" with
      | some (.arr a) => a.toList.mapM (fun x => do
          let c ← asCls (← x.getObjVal? "cls")
          let s ← asState (← x.getObjVal? "src")
          pure (⟨c, s⟩ : Obj))
      | _ => pure []
    answerOp others ⟨cls, st⟩ (← parseOp op j)
  | "history" =>
    let cmds ← (← getArr j "cmds").toList.mapM parseCmd
    pure (Json.mkObj [("steps", Json.arr (← historyJ [] cmds).toArray)])
  | "arithShape" =>
    let cls ← asCls (← j.getObjVal? "cls")
    let st ← asState (← j.getObjVal? "src")
    answerShape ⟨cls, st⟩ (← parseOp "arith" j)
  | "fromScalars" => answerFromScalars j
  | "curveOps" =>
    let image ← parseRef (← j.getObjVal? "image")
    let domain ← parseRef (← j.getObjVal? "domain")
    let arrs ← (← getArr j "arrs").toList.mapM parseArrData
    let ops ← (← getArr j "ops").toList.mapM parseCurveOp
    let h := contentOf arrs
    if !faithfulOn h (image :: domain :: curveOpRefs ops) then throw "content and references disagree on a length" else
    match Curve.new image domain with
    | .error e => pure (Json.mkObj [("new", .str e.name), ("steps", Json.arr #[])])
    | .ok c => pure (Json.mkObj [("new", .str "ok"), ("steps", Json.arr (curveOpSteps h c ops).toArray)])
  | "curve" =>
    let image ← parseRef (← j.getObjVal? "image")
    let domain ← parseRef (← j.getObjVal? "domain")
    let ops ← (← getArr j "ops").toList.mapM parseSetter
    match Curve.new image domain with
    | .error e => pure (Json.mkObj [("new", .str e.name), ("steps", Json.arr #[])])
    | .ok c => pure (Json.mkObj [("new", .str "ok"), ("steps", Json.arr (curveSteps c ops).toArray)])
  | _ => throw s!"unknown op {op}"

/-- a batch answers every request on its own (a refused one does not spoil the others) -/
def handle (j : Json) : Except String Json := do
  match ← getStr j "op" with
  | "batch" =>
    let reqs ← getArr j "reqs"
    let res := reqs.toList.map (fun r => match handleOne r with
      | .ok a => a
      | .error e => Json.mkObj [("bad", .str e)])
    pure (Json.mkObj [("res", Json.arr res.toArray)])
  | _ => handleOne j

def stepJ (j : Json) : Json :=
  match handle j with
  | .ok r => r
  | .error e => Json.mkObj [("bad", .str e)]

def main : IO Unit := do
  loop (← IO.getStdin) (← IO.getStdout) stepJ
