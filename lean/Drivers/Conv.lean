/- line-protocol driver of the `Conv` engine (C01, C02, C05, C16 use it) -/
import Barril.Model.Proto
import Barril.Model.Conv
import Barril.Gen.Dbs
open Lean Barril Barril.Proto

def dbOf (name : String) : Except String Db :=
  match name with
  | "posc" => .ok Gen.poscDb
  | "nocat" => .ok Gen.nocatDb
  | "simple" => .ok Gen.simpleDb
  | _ => .error s!"unknown db {name}"

def absR (q : Rat) : Rat := if q < 0 then -q else q
def maxR (a b : Rat) : Rat := if a < b then b else a

/-- magnitude of the intermediate quantities of `from(to x)`, in the result's unit -/
def convMag (db : Db) (cq u v : Sym) (x y : Rat) : Rat :=
  match db.typeOf cq with
  | .error _ => absR y
  | .ok qt =>
    match db.getInfo qt u true, db.getInfo qt v true with
    | .ok a, .ok b =>
      let base := a.toBase.eval x
      let s := if b.fromBase.r = 0 then 0 else absR (b.fromBase.q / b.fromBase.r)
      let m1 := if a.toBase.r = 0 then 0 else s * ((absR a.toBase.p + absR (a.toBase.q * x)) / absR a.toBase.r)
      let m2 := if b.fromBase.r = 0 then 0 else (absR b.fromBase.p + absR (b.fromBase.q * base)) / absR b.fromBase.r
      maxR (maxR m1 m2) (absR y)
    | _, _ => absR y

def handle (j : Json) : Except String Json := do
  let op ← getStr j "op"
  match op with
  | "convert" =>
    let db ← dbOf (← getStr j "db")
    let cq ← getSym j "cq"
    let u ← getSym j "from"
    let v ← getSym j "to"
    let x ← getRat j "x"
    match db.convert cq u v x with
    | .ok y => pure (Json.mkObj [("ok", ratJ y), ("M", ratJ (convMag db cq u v x y))])
    | .error e => pure (errJ e)
  | "badrows" =>
    -- rows of a database on which a C01 row predicate is false (used after a broken table theorem)
    let db ← dbOf (← getStr j "db")
    let bad := db.units.filter (fun r => !(r.wf && r.annAgree))
    pure (Json.mkObj [("rows", Json.arr (bad.map (fun r => symJ r.sym)).toArray)])
  | "info" =>
    let db ← dbOf (← getStr j "db")
    let qt ← getSym j "qt"
    let u ← getSym j "unit"
    let fu ← getBool j "fix_unknown"
    let fl ← getBool j "fix_legacy"
    match db.getInfo qt u fu fl with
    | .ok r => pure (Json.mkObj [("ok", symJ r.sym), ("qtype", symJ r.qtype)])
    | .error e => pure (errJ e)
  | _ => throw s!"unknown op {op}"

def step (j : Json) : Json :=
  match handle j with
  | .ok r => r
  | .error e => Json.mkObj [("bad", .str e)]

def main : IO Unit := do
  loop (← IO.getStdin) (← IO.getStdout) step
