/- line-protocol driver of the `Frac` engine (C18) -/
import Barril.Model.Proto
import Barril.Model.Frac
import Barril.Gen.Dbs
open Lean Barril Barril.Proto Barril.Frac

def maxR (a b : Rat) : Rat := if a < b then b else a

/-- a row of the small test database -/
def tRow (qt name u : String) (toB fromB : Mob) : UnitRow :=
  { qtype := Sym.ofString qt, name := Sym.ofString name, sym := Sym.ofString u, ok := true, toBase := toB, fromBase := fromB,
    hasConvTo := true, hasConvFrom := true, annTo := none, annFrom := none, defaultCat := 0, digits := 0 }

def tCat (name qt du : String) (mn mx : Option Rat) (mnx mxx : Bool) : CatRow :=
  { name := Sym.ofString name, qtype := Sym.ofString qt, validUnits := none, defaultUnit := Sym.ofString du, defaultValue := 0,
    minV := mn, maxV := mx, minExcl := mnx, maxExcl := mxx, caption := 0 }

/-- a private database with value limits (the shipped tables have none); the property module builds
the same registrations on the real `UnitDatabase` -/
def limDb : Db :=
  { units := [
      tRow "length" "meters" "m" Mob.ident Mob.ident,
      tRow "length" "centimeters" "cm" ⟨0, 1, 100, 0⟩ ⟨0, 100, 1, 0⟩,
      tRow "length" "kilometers" "km" ⟨0, 1000, 1, 0⟩ ⟨0, 1, 1000, 0⟩,
      tRow "temperature" "kelvin" "K" Mob.ident Mob.ident,
      tRow "temperature" "celsius" "degC" ⟨R 27315 100, 1, 1, 0⟩ ⟨R (-27315) 100, 1, 1, 0⟩ ],
    cats := [
      tCat "length" "length" "m" none none false false,
      tCat "temperature" "temperature" "K" none none false false,
      tCat "len_incl" "length" "m" (some 0) (some 1000) false false,
      tCat "len_excl" "length" "m" (some 0) (some 1000) true true,
      tCat "len_min" "length" "cm" (some (R 3 2)) none false false,
      tCat "len_max" "length" "km" none (some 2) false true,
      tCat "temp_abs" "temperature" "K" (some 0) none false false,
      tCat "temp_c" "temperature" "degC" (some (R (-27315) 100)) (some 100) true false ] }

def dbOf (name : String) : Except String Db :=
  match name with
  | "lim" => .ok limDb
  | "posc" => .ok Gen.poscDb
  | "nocat" => .ok Gen.nocatDb
  | "simple" => .ok Gen.simpleDb
  | _ => .error s!"unknown db {name}"

def numOfStr (s : String) : Except String Num :=
  match s with
  | "inf" => .ok (.inf false)
  | "-inf" => .ok (.inf true)
  | "bad" => .ok .bad
  | _ => match parseRat? s with
    | some q => .ok (.fin q)
    | none => .error s!"not a number: {s}"

def getNum (j : Json) (k : String) : Except String Num := do numOfStr (← getStr j k)

def getNumOpt (j : Json) (k : String) : Except String (Option Num) :=
  match j.getObjVal? k with
  | .ok .null => .ok none
  | .ok (.str s) => (numOfStr s).map some
  | _ => .error s!"missing field {k}"

def getObj (j : Json) (k : String) : Except String Json :=
  match j.getObjVal? k with
  | .ok v => .ok v
  | .error _ => .error s!"missing field {k}"

def getFrac (j : Json) (k : String) : Except String Frac := do pure ⟨← getRat j k⟩

def fvOf (j : Json) : Except String FV := do pure ⟨← getRat j "n", ← getFrac j "x"⟩

def getFV (j : Json) (k : String) : Except String FV := do fvOf (← getObj j k)

def operandOf (j : Json) : Except String Operand := do
  match ← getStr j "t" with
  | "frac" => pure (.frac (← getFrac j "x"))
  | "num" => pure (.num (← getNum j "v"))
  | "seq" => pure .seq
  | t => throw s!"bad operand {t}"

def cmpOf (s : String) : Except String CmpOp :=
  match s with
  | "eq" => .ok .eq | "ne" => .ok .ne | "lt" => .ok .lt | "le" => .ok .le | "gt" => .ok .gt | "ge" => .ok .ge
  | _ => .error s!"bad comparison {s}"

def fracArgOf (j : Json) : Except String FracArg := do
  match ← getStr j "t" with
  | "frac" => pure (.frac (← getFrac j "x"))
  | "pair" => pure (.pair (← getNum j "a") (← getNum j "b"))
  | "badlen" => pure .badLen
  | "bad" => pure .bad
  | "default" => pure FracArg.default
  | t => throw s!"bad fraction argument {t}"

def fracJ (f : Frac) : Json := ratJ f.x
def fvJ (v : FV) : Json := Json.mkObj [("n", ratJ v.number), ("x", ratJ v.frac.x)]
def okJ (v : Json) : Json := Json.mkObj [("ok", v)]

def outFrac : Except ErrKind Frac → Json
  | .ok f => okJ (fracJ f)
  | .error e => errJ e
def outFV : Except ErrKind FV → Json
  | .ok f => okJ (fvJ f)
  | .error e => errJ e
def outBool : Except ErrKind Bool → Json
  | .ok b => okJ (.bool b)
  | .error e => errJ e

def strJ (cs : List Char) : Json := .str (String.ofList cs)

/-- magnitude of the intermediates of `ConvertScalarValue`, in the result's unit -/
def convMag (db : Db) (q : Qty) (toU : Sym) (x : Rat) : Rat :=
  match db.getInfo (q.qtype db) q.unit true, db.getInfo (q.qtype db) toU true, q.convertScalarValue db toU x with
  | .ok a, .ok b, .ok y =>
    if q.unit == toU then absR x else
    let base := a.toBase.eval x
    let s := if b.fromBase.r = 0 then 0 else absR (b.fromBase.q / b.fromBase.r)
    let m1 := if a.toBase.r = 0 then 0 else s * ((absR a.toBase.p + absR (a.toBase.q * x)) / absR a.toBase.r)
    let m2 := if b.fromBase.r = 0 then 0 else (absR b.fromBase.p + absR (b.fromBase.q * base)) / absR b.fromBase.r
    maxR (maxR m1 m2) (absR y)
  | _, _, _ => absR x

def fvMags (db : Db) (cat fromU toU : Sym) (fv : FV) : Rat × Rat :=
  match obtain db cat fromU with
  | .error _ => (0, 0)
  | .ok q =>
    (convMag db q toU fv.number,
     maxR (convMag db q toU fv.frac.numerator) (convMag db q toU 0) / (fv.frac.denominator : Rat))

def getFS (db : Db) (j : Json) (k : String) : Except String (Except ErrKind FS) := do
  let o ← getObj j k
  pure (FS.init db (← getSym o "cat") (← getSym o "unit") (← getFV o "v"))

/-! ### pools, setters, powers -/

def splitTag (s : String) : String × String :=
  match s.splitOn ":" with
  | [a, b] => (a, b)
  | _ => (s, "")

def pyNumOfStr (s : String) : Except String PyNum :=
  match s with
  | "inf" => .ok (.inf false)
  | "-inf" => .ok (.inf true)
  | "none" => .ok .none
  | "bad" => .ok .bad
  | _ =>
    let (t, v) := splitTag s
    match t, parseRat? v with
    | "i", some q => if q.den = 1 then .ok (.int q.num) else .error s!"not an int: {s}"
    | "f", some q => .ok (.float q)
    | _, _ => .error s!"bad python number {s}"

def powExpOfStr (s : String) : Except String PowExp :=
  match s with
  | "inf" => .ok (.inf false)
  | "-inf" => .ok (.inf true)
  | "bad" => .ok .bad
  | "frac" => .ok .frac
  | _ =>
    let (t, v) := splitTag s
    match t, v.toInt? with
    | "i", some k => .ok (.int k)
    | "f", some k => .ok (.float k)
    | _, _ => .error s!"bad exponent {s}"

def getKey (j : Json) (k : String) : Except String (Option Int) :=
  match j.getObjVal? k with
  | .ok .null => .ok none
  | .ok (.num n) => if n.exponent = 0 then .ok (some n.mantissa) else .error "key is not an integer"
  | _ => .error s!"missing key field {k}"

def getNat (j : Json) (k : String) : Except String Nat := do
  let i ← getInt j k
  if i < 0 then throw s!"field {k} is negative" else pure i.toNat

def numberOpt (j : Json) (k : String) : Except String (Option Rat) := do
  let n ← getStr j k
  match n with
  | "bad" => pure none
  | _ => match parseRat? n with
    | some q => pure (some q)
    | none => throw "bad number"

def mutOf (j : Json) : Except String Mut := do
  match ← getStr j "t" with
  | "setnum" => pure (.setNum (← pyNumOfStr (← getStr j "v")))
  | "setden" => pure (.setDen (← pyNumOfStr (← getStr j "v")))
  | "setitem" => pure (.setItem (← getKey j "key") (← pyNumOfStr (← getStr j "v")))
  | "reduce" => pure .reduce
  | "setnumber" => pure (.setNumber (← numberOpt j "n"))
  | "setfraction" => pure (.setFraction (← fracArgOf (← getObj j "fr")))
  | t => throw s!"bad in-place operation {t}"

def unOf (s : String) : Except String UnOp :=
  match s with
  | "neg" => .ok .neg | "abs" => .ok .abs | "inv" => .ok .inv | "copy" => .ok .copy
  | _ => .error s!"bad unary {s}"

def binOf (s : String) : Except String BinOp :=
  match s with
  | "add" => .ok .add | "radd" => .ok .radd | "sub" => .ok .sub | "rsub" => .ok .rsub | "mul" => .ok .mul
  | "rmul" => .ok .rmul | "div" => .ok .div | "rdiv" => .ok .rdiv | "mod" => .ok .mod
  | _ => .error s!"bad binary {s}"

def argOf (j : Json) : Except String Arg := do
  match ← getStr j "t" with
  | "ref" => pure (.ref (← getNat j "k"))
  | _ => pure (.lit (← operandOf j))

def qargOf (qj : Json) : Except String QArg := do
  match ← getStr qj "t" with
  | "qtype" => pure (.qtype (← getSym qj "s"))
  | "quantity" => pure (.quantity ⟨← getSym qj "cat", ← getSym qj "unit"⟩)
  | t => throw s!"bad quantity argument {t}"

def cffArgOf (s : String) : Except String CffArg :=
  match s with
  | "none" => .ok .none
  | "bad" => .ok .bad
  | _ => match parseRat? s with
    | some q => .ok (.num q)
    | none => .error "bad decimal"

def ctorOf (j : Json) : Except String Ctor := do
  match ← getStr j "t" with
  | "frac_new" => pure (.fracNew (← getNum j "a") (← getNumOpt j "b"))
  | "frac_un" => pure (.fracUn (← unOf (← getStr j "f")) (← getNat j "k"))
  | "frac_bin" => pure (.fracBin (← binOf (← getStr j "f")) (← getNat j "k") (← argOf (← getObj j "o")))
  | "frac_pow" => pure (.fracPow (← getNat j "k") (← powExpOfStr (← getStr j "e")))
  | "fv_new" => pure (.fvNew (← numberOpt j "number") (← fracArgOf (← getObj j "fr")))
  | "cff" => pure (.fvFromFloat (← cffArgOf (← getStr j "d")))
  | "fv_parse" => pure (.fvFromString (← getStr j "text").toList (← getBool j "cl"))
  | "fv_copy" => pure (.fvCopy (← getNat j "k"))
  | "fs_new" =>
    let vj ← getObj j "v"
    let v ← match ← getStr vj "t" with
      | "num" => pure (FsVal.num (← getRat vj "q"))
      | "fv" => pure (FsVal.fv (← fvOf vj))
      | t => throw s!"bad FractionScalar value {t}"
    pure (.fsNew (← getSym j "cat") (← getSym j "unit") v)
  | "fs_get" => pure (.fsGetValue (← getNat j "k") (← getSym j "unit"))
  | "fv_convert" => pure (.fvConvert (← getNat j "k") (← qargOf (← getObj j "q")) (← getSym j "from") (← getSym j "to"))
  | t => throw s!"bad constructor {t}"

def poolOpOf (j : Json) : Except String PoolOp := do
  match ← getStr j "k" with
  | "new" => pure (.new (← ctorOf (← getObj j "c")))
  | "upd" => pure (.upd (← getNat j "i") (← mutOf (← getObj j "m")))
  | t => throw s!"bad statement {t}"

def snapJ : Obj → Json
  | .frac f => Json.mkObj [("k", "frac"), ("x", ratJ f.x), ("s", strJ f.str)]
  | .fv v => Json.mkObj [("k", "fv"), ("n", ratJ v.number), ("x", ratJ v.frac.x), ("s", strJ v.str)]
  | .fs s => Json.mkObj [("k", "fs"), ("n", ratJ s.value.number), ("x", ratJ s.value.frac.x), ("s", strJ s.value.str),
      ("cat", symJ s.q.cat), ("unit", symJ s.q.unit)]

def traceJ (t : List (Except ErrKind Unit × Pool)) : Json :=
  Json.arr (t.map (fun (r, p) =>
    Json.mkObj [("r", match r with
      | .ok _ => Json.str "ok"
      | .error e => Json.str e.name), ("pool", Json.arr (p.map snapJ).toArray)])).toArray

def handle (j : Json) : Except String Json := do
  let op ← getStr j "op"
  match op with
  | "frac_new" => pure (outFrac (Frac.init (← getNum j "a") (← getNumOpt j "b")))
  | "frac_un" =>
    let x ← getFrac j "x"
    match ← getStr j "f" with
    | "neg" => pure (outFrac x.neg)
    | "abs" => pure (outFrac x.abs)
    | "inv" => pure (outFrac x.inv)
    | "copy" => pure (outFrac x.copy)
    | "float" => pure (okJ (ratJ x.toFloat))
    | "str" => pure (okJ (strJ x.str))
    | f => throw s!"bad unary {f}"
  | "frac_bin" =>
    let x ← getFrac j "x"
    let o ← operandOf (← getObj j "o")
    match ← getStr j "f" with
    | "add" => pure (outFrac (x.add o))
    | "radd" => pure (outFrac (x.radd o))
    | "sub" => pure (outFrac (x.sub o))
    | "rsub" => pure (outFrac (x.rsub o))
    | "mul" => pure (outFrac (x.mul o))
    | "rmul" => pure (outFrac (x.rmul o))
    | "div" => pure (outFrac (x.div o))
    | "rdiv" => pure (outFrac (x.rdiv o))
    | "mod" => pure (outFrac (x.mod o))
    | f => throw s!"bad binary {f}"
  | "frac_cmp" =>
    let x ← getFrac j "x"
    let o ← operandOf (← getObj j "o")
    let c ← cmpOf (← getStr j "f")
    if ← getBool j "refl" then pure (outBool (x.rcmp c o)) else pure (outBool (x.cmp c o))
  | "fv_new" =>
    let n ← getStr j "number"
    let number ← match n with
      | "bad" => pure none
      | _ => match parseRat? n with
        | some q => pure (some q)
        | none => throw "bad number"
    pure (outFV (FV.init number (← fracArgOf (← getObj j "fr"))))
  | "fv_float" => pure (okJ (ratJ (← getFV j "v").value))
  | "fv_copy" => pure (outFV (← getFV j "v").copy)
  | "fv_cmp" =>
    let a ← getFV j "a"
    let c ← cmpOf (← getStr j "f")
    let b ← getObj j "b"
    match b.getObjVal? "num" with
    | .ok _ => pure (outBool (a.cmpNum c (← getRat b "num")))
    | .error _ => pure (outBool (a.cmp c (← fvOf b)))
  | "fv_str" => pure (okJ (strJ (← getFV j "v").str))
  | "fv_parse" =>
    let cl := match j.getObjVal? "cl" with
      | .ok (.bool b) => b
      | _ => true
    pure (outFV (parseWith cl (← getStr j "text").toList))
  | "fv_match" =>
    match matchFractionPart (← getStr j "text").toList with
    | .ok _ => pure (okJ Json.null)
    | .error e => pure (errJ e)
  | "fv_strparse" => pure (outFV (parse (← getFV j "v").str))
  | "cff" =>
    match createFromFloatPy (← cffArgOf (← getStr j "d")) with
    | .error e => pure (errJ e)
    | .ok none => pure (okJ Json.null)
    | .ok (some v) => pure (okJ (fvJ v))
  | "fs_convert" =>
    let db ← dbOf (← getStr j "db")
    let cat ← getSym j "cat"
    let u ← getSym j "from"
    let fv ← getFV j "v"
    match j.getObjVal? "to" with
    | .ok .null =>
      match FS.init db cat u fv with
      | .error e => pure (errJ e)
      | .ok s => pure (outFV (s.getValue db none))
    | _ =>
      let v ← getSym j "to"
      match FS.init db cat u fv with
      | .error e => pure (errJ e)
      | .ok s =>
        match s.getValue db (some v) with
        | .error e => pure (errJ e)
        | .ok r =>
          let m := fvMags db cat s.q.unit v fv
          pure (Json.mkObj [("ok", fvJ r), ("Mn", ratJ m.1), ("Mf", ratJ m.2)])
  | "cfv" =>
    let db ← dbOf (← getStr j "db")
    let u ← getSym j "from"
    let v ← getSym j "to"
    let fv ← getFV j "v"
    let qj ← getObj j "q"
    let done := fun (qa : QArg) (cat : Option Sym) =>
      match convertFractionValue db qa u v fv with
      | .error e => errJ e
      | .ok r =>
        let m := match cat with
          | some c => fvMags db c u v fv
          | none => (0, 0)
        Json.mkObj [("ok", fvJ r), ("Mn", ratJ m.1), ("Mf", ratJ m.2)]
    match ← getStr qj "t" with
    | "qtype" => pure (done (.qtype (← getSym qj "s")) (defaultCategory db u))
    | "quantity" =>
      -- the caller builds the Quantity object first: ObtainQuantity(unit, category)
      match obtain db (← getSym qj "cat") (← getSym qj "unit") with
      | .error e => pure (errJ e)
      | .ok q => pure (done (.quantity q) (some q.cat))
    | t => throw s!"bad quantity argument {t}"
  | "fs_order" =>
    let db ← dbOf (← getStr j "db")
    let c ← cmpOf (← getStr j "f")
    match ← getFS db j "a", ← getFS db j "b" with
    | .error e, _ => pure (errJ e)
    | _, .error e => pure (errJ e)
    | .ok a, .ok b =>
      match a.order db c b with
      | .error e => pure (errJ e)
      | .ok r =>
        let rhs := match b.getValue db (some a.q.unit) with
          | .ok v => v.value
          | .error _ => 0
        let m := fvMags db b.q.cat b.q.unit a.q.unit b.value
        pure (Json.mkObj [("ok", .bool r), ("lhs", ratJ a.value.value), ("rhs", ratJ rhs),
          ("M", ratJ (maxR (maxR m.1 m.2) (absR a.value.value)))])
  | "fs_eq" =>
    let db ← dbOf (← getStr j "db")
    match ← getFS db j "a", ← getFS db j "b" with
    | .error e, _ => pure (errJ e)
    | _, .error e => pure (errJ e)
    | .ok a, .ok b => pure (outBool (a.eq b))
  | "fs_valid" =>
    let db ← dbOf (← getStr j "db")
    match ← getFS db j "a" with
    | .error e => pure (errJ e)
    | .ok a =>
      let same := match a.checkValidity db, scalarCheckValidity db a.q a.value.value with
        | .ok _, .ok _ => true
        | .error e1, .error e2 => e1 == e2
        | _, _ => false
      match a.checkValidity db with
      | .ok _ => pure (Json.mkObj [("ok", Json.null), ("asScalar", .bool same)])
      | .error e => pure (Json.mkObj [("err", .str e.name), ("asScalar", .bool same)])
  | "db_convert" =>
    let db ← dbOf (← getStr j "db")
    let cq ← getSym j "cq"
    let u ← getSym j "from"
    let v ← getSym j "to"
    let fv ← getFV j "v"
    match dbConvertFV db cq u v fv with
    | .error e => pure (errJ e)
    | .ok r =>
      let m := match defaultCategory db u with
        | some c => fvMags db c u v fv
        | none => (0, 0)
      pure (Json.mkObj [("ok", fvJ r), ("Mn", ratJ (maxR m.1 m.2)), ("Mf", ratJ 0)])
  | "hist" =>
    let db ← dbOf (← getStr j "db")
    let ops ← (← getArr j "ops").toList.mapM poolOpOf
    pure (okJ (traceJ (poolTrace db [] ops)))
  | "frac_pow" => pure (outFrac ((← getFrac j "x").pow (← powExpOfStr (← getStr j "e"))))
  | "frac_set" => pure (outFrac ((← getFrac j "x").mutate (← mutOf (← getObj j "m"))))
  | "frac_seq" =>
    let x ← getFrac j "x"
    match ← getStr j "f" with
    | "len" => pure (okJ (Json.num (x.len : Int)))
    | "iter" => pure (okJ (Json.arr (x.iter.map (fun (i : Int) => Json.str (toString i))).toArray))
    | "getitem" =>
      match x.getItem (← getKey j "key") with
      | .ok i => pure (okJ (Json.str (toString i)))
      | .error e => pure (errJ e)
    | f => throw s!"bad sequence operation {f}"
  | "fv_lstr" => pure (okJ (strJ (← getFV j "v").localizedString))
  | "fv_lfrac" => pure (okJ (strJ (← getFV j "v").localizedFraction))
  | "fv_lparse" =>
    let cl := match j.getObjVal? "cl" with
      | .ok (.bool b) => b
      | _ => true
    pure (outFV (parseWith cl (← getFV j "v").localizedString))
  | _ => throw s!"unknown op {op}"

def step (j : Json) : Json :=
  match handle j with
  | .ok r => r
  | .error e => Json.mkObj [("bad", .str e)]

def main : IO Unit := do
  loop (← IO.getStdin) (← IO.getStdout) step
