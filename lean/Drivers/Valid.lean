/- line-protocol driver of the `Valid` engine (C12): one history per line over the category-less POSC
unit table and a private category registry -/
import Barril.Model.Proto
import Barril.Model.Valid
import Barril.Gen.Dbs
open Lean Barril Barril.Proto Barril.Valid

def absR (q : Rat) : Rat := if q < 0 then -q else q
def maxR (a b : Rat) : Rat := if a < b then b else a

def parseVal? (s : String) : Option Val :=
  match s with
  | "inf" => some .posInf
  | "-inf" => some .negInf
  | "nan" => some .nan
  | _ => (parseRat? s).map Val.fin

def valJ : Val → Json
  | .fin q => ratJ q
  | .posInf => .str "inf"
  | .negInf => .str "-inf"
  | .nan => .str "nan"

def getVal (j : Json) (k : String) : Except String Val := do
  let s ← getStr j k
  match parseVal? s with
  | some v => pure v
  | none => throw s!"field {k} is not a value"

def isNull (j : Json) (k : String) : Bool :=
  match j.getObjVal? k with
  | .ok .null => true
  | .ok _ => false
  | .error _ => true

def optSym (j : Json) (k : String) : Except String (Option Sym) :=
  if isNull j k then pure none else do pure (some (← getSym j k))

def optRat (j : Json) (k : String) : Except String (Option Rat) :=
  if isNull j k then pure none else do pure (some (← getRat j k))

def optVal (j : Json) (k : String) : Except String (Option Val) :=
  if isNull j k then pure none else do pure (some (← getVal j k))

def jsonSym (j : Json) : Except String Sym :=
  match j with
  | .str s => match s.toNat? with
    | some n => pure n
    | none => throw "not a symbol code"
  | _ => throw "not a symbol code"

def jsonVal (j : Json) : Except String Val :=
  match j with
  | .str s => match parseVal? s with
    | some v => pure v
    | none => throw "not a value"
  | _ => throw "not a value"

def symList (j : Json) (k : String) : Except String (List Sym) := do
  (← getArr j k).toList.mapM jsonSym

def valList (j : Json) (k : String) : Except String (List Val) := do
  (← getArr j k).toList.mapM jsonVal

def optBool (j : Json) (k : String) : Except String (Option Bool) :=
  if isNull j k then pure none else do pure (some (← getBool j k))

/-- "caption": absent = the default `""`, null = an explicit `None`, else the text -/
def captionArg (j : Json) : Except String (Option Sym) :=
  match j.getObjVal? "caption" with
  | .error _ => pure (some 0)
  | .ok .null => pure none
  | .ok _ => do pure (some (← getSym j "caption"))

def parseAdd (j : Json) : Except String AddArgsRaw := do
  let valid ← if isNull j "valid" then pure none else do pure (some (← symList j "valid"))
  let category ← getSym j "category"
  let qtype ← optSym j "qtype"
  let ovr ← getBool j "override"
  let du ← optSym j "du"
  let dv ← optVal j "dv"
  let mn ← optRat j "min"
  let mx ← optRat j "max"
  let frm ← optSym j "from"
  let mnx ← optBool j "minx"
  let mxx ← optBool j "maxx"
  let cap ← captionArg j
  let base : AddArgs := AddArgs.mk category qtype valid ovr du dv mn mx false false 0 frm
  pure (AddArgsRaw.mk base mnx mxx cap)

def parseKind (s : String) : Except String Container :=
  match s with
  | "list" => pure .list
  | "tuple" => pure .tuple
  | "ndarray" => pure .ndarray
  | _ => throw s!"bad container {s}"

def parseItem (j : Json) : Except String Item := do
  if !isNull j "n" then pure (.num (← getVal j "n")) else pure (.tup (← valList j "t"))

/-- (object, derived?, default?) -/
def parseObj (j : Json) : Except String (Obj × Bool) := do
  let t ← getStr j "t"
  match t with
  | "scalar" => pure (.scalar (← getVal j "v"), false)
  | "fraction" => pure (.fraction (← getVal j "v"), false)
  | "dscalar" => pure (.scalar (← getVal j "v"), true)
  | "flat" => pure (.array (.flat (← parseKind (← getStr j "c")) (← valList j "vs")) Cache.fresh, false)
  | "dflat" => pure (.array (.flat (← parseKind (← getStr j "c")) (← valList j "vs")) Cache.fresh, true)
  | "nested" =>
    let rest ← (← getArr j "rest").toList.mapM parseItem
    pure (.array (.nested (← parseKind (← getStr j "c")) (← valList j "first") rest) Cache.fresh, false)
  | _ => throw s!"bad object {t}"

def parseCall (j : Json) : Except String Call :=
  match j with
  | .str "c" => pure .check
  | .str "i" => pure .isValid
  | _ => throw "bad call"

def optRatJ : Option Rat → Json
  | none => .null
  | some q => ratJ q

def catJ (c : CatInfo) : Json :=
  Json.mkObj [("qtype", symJ c.qtype),
    ("valid", match c.validUnits with | none => .null | some vs => Json.arr (vs.map symJ).toArray),
    ("du", symJ c.defaultUnit), ("dv", valJ c.defaultValue), ("min", optRatJ c.minV),
    ("max", optRatJ c.maxV), ("minx", .bool c.minExcl), ("maxx", .bool c.maxExcl), ("caption", symJ c.caption)]

def verrJ : VErr → Json
  | .validation op m v => Json.mkObj [("verr", Json.mkObj [("op", .str op.name), ("limit", ratJ m), ("value", valJ v)])]
  | .other e => errJ e

def callOutJ : CallOut → Json
  | .checked (.ok _) => Json.mkObj [("ok", .null)]
  | .checked (.error e) => verrJ e
  | .valid (.ok b) => Json.mkObj [("ok", .bool b)]
  | .valid (.error e) => verrJ e

def elemsOf : Obj → List Val
  | .scalar v => [v]
  | .fraction v => [v]
  | .array (.flat _ vs) _ => vs
  | .array (.nested _ f rest) _ =>
    f ++ (rest.map (fun it => match it with | .num _ => [] | .tup vs => vs)).flatten

/-- magnitude of the intermediates of `other.frombase(this.tobase(x))` over the finite elements -/
def magOf (this other : UnitRow) (vs : List Val) : Rat :=
  vs.foldl (fun (m : Rat) v => match v with
    | .fin x =>
      let base := this.toBase.eval x
      let fr : Rat := other.fromBase.r
      let s : Rat := if fr = 0 then 0 else absR (other.fromBase.q / fr)
      let m1 : Rat := if this.toBase.r = 0 then 0 else s * ((absR this.toBase.p + absR (this.toBase.q * x)) / absR this.toBase.r)
      let m2 : Rat := if fr = 0 then 0 else (absR other.fromBase.p + absR (other.fromBase.q * base)) / absR fr
      maxR m (maxR (maxR m1 m2) (absR x))
    | _ => m) (0 : Rat)

def defaultRow (g : Reg) (c : CatInfo) (fallback : UnitRow) : UnitRow :=
  match g.db.getInfo c.qtype c.defaultUnit true with
  | .ok r => r
  | .error _ => fallback

/-- exact converted amounts of the elements (default unit) and the magnitude of the intermediates -/
def convInfo (g : Reg) (q : Quant) (o : Obj) : Json :=
  match q with
  | .derived => Json.mkObj [("conv", Json.arr #[]), ("M", ratJ 0)]
  | .simple c unit this =>
    let vs := elemsOf o
    let conv := vs.map (fun v => match convToDefault g c unit this v with
      | .ok v' => valJ v'
      | .error e => errJ e)
    Json.mkObj [("conv", Json.arr conv.toArray), ("M", ratJ (magOf this (defaultRow g c this) vs))]

/-! #### produced objects -/

def shapeOfObj : Obj → Shape
  | .scalar v => .scalar v
  | .fraction v => .fraction v
  | .array a _ => .array a

def parseShape (j : Json) : Except String Shape := do
  let oj ← match j.getObjVal? "obj" with
    | .ok x => pure x
    | .error _ => throw "missing obj"
  let (o, derived) ← parseObj oj
  if derived then throw "derived object in a production tree" else pure (shapeOfObj o)

def parseOp (s : String) : Except String BinOp :=
  match s with
  | "add" => pure .add
  | "sub" => pure .sub
  | "mul" => pure .mul
  | "div" => pure .div
  | _ => throw s!"bad operation {s}"

def jsonInt (j : Json) : Except String Int :=
  match j.getInt? with
  | .ok i => pure i
  | .error _ => throw "not an integer"

def parseEntry (j : Json) : Except String Entry :=
  match j with
  | .arr #[c, u, e] => do pure (← jsonSym c, ← jsonSym u, ← jsonInt e)
  | _ => throw "bad entry"

def parseUnitExp (j : Json) : Except String (Sym × Int) :=
  match j with
  | .arr #[u, e] => do pure (← jsonSym u, ← jsonInt e)
  | _ => throw "bad unit/exponent"

def parseCatArg (j : Json) : Except String CatArg :=
  match j.getObjVal? "cats" with
  | .ok (.arr cs) => do pure (.many (← cs.toList.mapM jsonSym))
  | .ok (.str s) => do pure (.one (← jsonSym (.str s)))
  | _ => pure .none

def sub? (j : Json) (k : String) : Except String Json :=
  match j.getObjVal? k with
  | .ok x => pure x
  | .error _ => throw s!"missing {k}"

def parseProv : Nat → Json → Except String Prov
  | 0, _ => throw "production tree too deep"
  | n + 1, j => do
    let k ← getStr j "p"
    match k with
    | "direct" => pure (.direct (← getSym j "cat") (← getSym j "unit") (← parseShape j))
    | "map" => pure (.viaMapping (← (← getArr j "entries").toList.mapM parseEntry) (← parseShape j))
    | "list" => pure (.viaList (← (← getArr j "units").toList.mapM parseUnitExp) (← parseCatArg j) (← parseShape j))
    | "num" => pure (.opNumber (← parseProv n (← sub? j "of")) (← parseOp (← getStr j "op")) (← getVal j "x") (← getBool j "left"))
    | "bin" => pure (.opObjects (← parseProv n (← sub? j "a")) (← parseProv n (← sub? j "b")) (← parseOp (← getStr j "op")))
    | "pickle" => pure (.pickle (← parseProv n (← sub? j "of")))
    | "copy" => pure (.copy (← parseProv n (← sub? j "of")) (← optSym j "unit") (← optSym j "cat"))
    | "validated" => pure (.validated (← parseProv n (← sub? j "of")) (← (← getArr j "calls").toList.mapM parseCall))
    | _ => throw s!"bad production {k}"

def finMax (vs : List Val) : Rat :=
  vs.foldl (fun (m : Rat) v => match v with | .fin x => maxR m (absR x) | _ => m) (0 : Rat)

def shapeElems (s : Shape) : List Val := elemsOf s.obj

/-- |slope| of `other.frombase ∘ this.tobase` (how an error of the input is amplified) -/
def slopeOf (this other : UnitRow) : Rat :=
  let a : Rat := if this.toBase.r = 0 then 1 else absR (this.toBase.q / this.toBase.r)
  let b : Rat := if other.fromBase.r = 0 then 1 else absR (other.fromBase.q / other.fromBase.r)
  maxR 1 (a * b)

def resMag (g : Reg) (p : Prov) : Rat :=
  match build g p with
  | .ok (_, s) => finMax (shapeElems s)
  | .error _ => 0

/-- magnitude the float errors of a production path scale with: the largest intermediate, amplified by the
factors and conversion slopes applied afterwards -/
def provMag (g : Reg) : Prov → Rat
  | .direct _ _ s => finMax (shapeElems s)
  | .viaMapping _ s => finMax (shapeElems s)
  | .viaList _ _ s => finMax (shapeElems s)
  | .opNumber p op x nl =>
    let m := provMag g p
    let ax : Rat := match x with | .fin a => absR a | _ => 1
    -- number / v: an error d of v becomes |x| / v^2 * d
    let vmin : Rat := match build g p with
      | .ok (_, s) => (shapeElems s).foldl (fun (a : Rat) v => match v with
          | .fin y => if y = 0 then a else if a = 0 then absR y else (if absR y < a then absR y else a)
          | _ => a) (0 : Rat)
      | .error _ => 0
    let amp : Rat := match op with
      | .mul => maxR 1 ax
      | .div => if nl then (if vmin = 0 then 1 else maxR 1 (ax / (vmin * vmin)))
                else if ax = 0 then 1 else maxR 1 (1 / ax)
      | _ => 1
    maxR (maxR (m * amp) ax) (resMag g (.opNumber p op x nl))
  | .opObjects p1 p2 op =>
    let m1 := provMag g p1
    let m2 := provMag g p2
    let m2' : Rat := match build g p1, build g p2 with
      | .ok (q1, _), .ok (q2, s2) =>
        match sameQuantityOp g q1 q2 with
        | .ok (_, some (this, other)) => slopeOf this other * m2 + magOf this other (shapeElems s2)
        | _ => m2
      | _, _ => m2
    maxR (maxR m1 m2') (resMag g (.opObjects p1 p2 op))
  | .pickle p => provMag g p
  | .validated p _ => provMag g p
  | .copy p unit cat =>
    let m := provMag g p
    match build g p, build g (.copy p unit cat) with
    | .ok (.simple c u _, s), .ok (.simple _ u' _, _) =>
      if u == u' then m else
      match convRowsOf g c.name u u' with
      | .ok (this, other) => slopeOf this other * m + magOf this other (shapeElems s)
      | .error _ => m
    | _, _ => m

def runProv (g : Reg) (j : Json) : Except String Json := do
  let p ← parseProv 12 (← sub? j "tree")
  let cs ← (← getArr j "calls").toList.mapM parseCall
  match build g p with
  | .error e => pure (errJ e)
  | .ok (q, s) =>
    let o := s.obj
    let outs := calls g q o cs
    let vals := shapeElems s
    match q with
    | .derived =>
      pure (Json.mkObj [("ok", Json.mkObj [("derived", .bool true), ("outs", Json.arr (outs.map callOutJ).toArray),
        ("vals", Json.arr (vals.map valJ).toArray), ("conv", Json.arr #[]), ("M", ratJ (provMag g p))])])
    | .simple c u this =>
      let ci := convInfo g q o
      let other := defaultRow g c this
      let m : Rat := magOf this other vals + slopeOf this other * provMag g p
      pure (Json.mkObj [("ok", Json.mkObj [("derived", .bool false), ("outs", Json.arr (outs.map callOutJ).toArray),
        ("unit", symJ u), ("cat", symJ c.name), ("vals", Json.arr (vals.map valJ).toArray),
        ("conv", ci.getObjValD "conv"), ("M", ratJ m), ("Mv", ratJ (provMag g p))])])

def runOp (g : Reg) (j : Json) : Except String (Reg × Json) := do
  let k ← getStr j "k"
  match k with
  | "add" =>
    let a ← parseAdd j
    match addCategoryRaw g a with
    | .ok (g', info) =>
      let gdv : Json := match getDefaultValue g' a.base.category with | .ok v => valJ v | .error e => errJ e
      pure (g', Json.mkObj [("ok", (catJ info).setObjVal! "gdv" gdv)])
    | .error e => pure (g, errJ e)
  | "obj" =>
    let c? ← optSym j "cat"
    let c : Sym := match c? with | some c => c | none => 0
    let mk : Sym → Except ErrKind Quant := fun u => match c? with
      | some c => mkQuant g c u
      | none => mkQuantNoCat g u
    let oj ← match j.getObjVal? "obj" with
      | .ok x => pure x
      | .error _ => throw "missing obj"
    let (o, derived) ← parseObj oj
    let cs ← (← getArr j "calls").toList.mapM parseCall
    if derived then
      -- the two factors of the product are built first (`Scalar(cat, v, unit) * Scalar(cat, 1.0, unit)`)
      let made : Except ErrKind Quant := match (optSym j "unit") with
        | .ok (some u) => mk u
        | _ => .error .other
      match made with
      | .error e => pure (g, errJ e)
      | .ok _ =>
        let outs := calls g .derived o cs
        pure (g, Json.mkObj [("ok", Json.mkObj [("outs", Json.arr (outs.map callOutJ).toArray), ("conv", Json.arr #[]), ("M", ratJ 0)])])
    else
      let useDefault ← getBool j "default"
      let qo : Except ErrKind (Quant × Obj) :=
        if useDefault then
          match g.cat? c with
          | none => .error .units
          | some ci =>
            match mkQuant g c ci.defaultUnit with
            | .ok q => .ok (q, .scalar ci.defaultValue)
            | .error e => .error e
        else
          match (optSym j "unit") with
          | .ok (some u) =>
            match mk u with
            | .ok q => .ok (q, o)
            | .error e => .error e
          | _ => .error .other
      match qo with
      | .error e => pure (g, errJ e)
      | .ok (q, o) =>
        let outs := calls g q o cs
        let unit := match q with | .simple _ u _ => u | .derived => 0
        let ci := convInfo g q o
        pure (g, Json.mkObj [("ok", Json.mkObj [("outs", Json.arr (outs.map callOutJ).toArray), ("unit", symJ unit),
          ("value", match o with | .scalar v => valJ v | _ => .null),
          ("cat", symJ (match q with | .simple ci _ _ => ci.name | .derived => 0)),
          ("conv", (ci.getObjValD "conv")), ("M", ci.getObjValD "M")])])
  | "copy" =>
    let c ← getSym j "cat"
    let oj ← match j.getObjVal? "obj" with
      | .ok x => pure x
      | .error _ => throw "missing obj"
    let (o, _) ← parseObj oj
    let cs ← (← getArr j "calls").toList.mapM parseCall
    let ccs ← (← getArr j "ccalls").toList.mapM parseCall
    let u ← getSym j "unit"
    let cunit ← optSym j "cunit"
    let ccat ← optSym j "ccat"
    match o with
    | .array a k0 =>
      match mkQuant g c u with
      | .error e => pure (g, errJ e)
      | .ok q =>
        let outs := calls g q o cs
        let ci := convInfo g q o
        let srcUnit := match q with | .simple _ su _ => su | .derived => 0
        let srcJ := Json.mkObj [("outs", Json.arr (outs.map callOutJ).toArray), ("unit", symJ srcUnit),
          ("conv", ci.getObjValD "conv"), ("M", ci.getObjValD "M")]
        let k' := match afterCalls g q o cs with | .array _ k' => k' | _ => k0
        let copyJ := match createCopy g q a k' cunit ccat with
          | .error e => errJ e
          | .ok (q', o') =>
            let couts := calls g q' o' ccs
            let cci := convInfo g q' o'
            let extra : Rat := match q, q' with
              | .simple _ _ t, .simple c' _ t' => magOf t (defaultRow g c' t') (elemsOf o)
              | _, _ => 0
            let m2 : Rat := match q' with
              | .simple c' _ t' => magOf t' (defaultRow g c' t') (elemsOf o')
              | .derived => 0
            let cu := match q' with | .simple _ su _ => su | .derived => 0
            Json.mkObj [("ok", Json.mkObj [("outs", Json.arr (couts.map callOutJ).toArray), ("unit", symJ cu),
              ("conv", cci.getObjValD "conv"), ("M", ratJ (m2 + extra))])]
        pure (g, Json.mkObj [("ok", Json.mkObj [("src", srcJ), ("copy", copyJ)])])
    | _ => throw "copy needs an array"
  | "prov" => do pure (g, ← runProv g j)
  | "gdv" =>
    match getDefaultValue g (← getSym j "cat") with
    | .ok v => pure (g, Json.mkObj [("ok", valJ v)])
    | .error e => pure (g, errJ e)
  | "cvc" =>
    let c ← getSym j "cat"
    let v ← getVal j "v"
    let u ← optSym j "unit"
    let out : Json := match checkValueForCategory g c v u with
      | .ok _ => Json.mkObj [("ok", .null)]
      | .error e => verrJ e
    let (conv, m, unit) : Json × Json × Sym := match obtainFor g c u with
      | .ok q =>
        let ci := convInfo g q (.scalar v)
        (ci.getObjValD "conv", ci.getObjValD "M", match q with | .simple _ u' _ => u' | .derived => 0)
      | .error _ => (Json.arr #[], ratJ 0, 0)
    pure (g, Json.mkObj [("ok", Json.mkObj [("out", out), ("conv", conv), ("M", m), ("unit", symJ unit)])])
  | "val" =>
    match mkQuant g (← getSym j "cat") (← getSym j "unit") with
    | .error e => pure (g, errJ e)
    | .ok q =>
      let v ← getVal j "v"
      let ci := convInfo g q (.scalar v)
      let out : Json := match validatorPredicate g q v with
        | .error e => errJ e
        | .ok none => Json.mkObj [("ok", .null)]
        | .ok (some e) => verrJ e
      let unit : Sym := match q with | .simple _ u' _ => u' | .derived => 0
      pure (g, Json.mkObj [("ok", Json.mkObj [("out", out), ("conv", ci.getObjValD "conv"), ("M", ci.getObjValD "M"), ("unit", symJ unit)])])
  | _ => throw s!"unknown op kind {k}"

def runOps : Reg → List Json → Except String (List Json)
  | _, [] => pure []
  | g, j :: js => do
    let (g', out) ← runOp g j
    let rest ← runOps g' js
    pure (out :: rest)

def startReg : Reg := ⟨Gen.nocatDb.units, Gen.nocatDb.legacy, []⟩

def handle (j : Json) : Except String Json := do
  let op ← getStr j "op"
  match op with
  | "history" =>
    let ops ← getArr j "ops"
    let outs ← runOps startReg ops.toList
    pure (Json.mkObj [("outs", Json.arr outs.toArray)])
  | "badrows" =>
    let bad := Gen.nocatDb.units.filter (fun r => !r.valShape)
    pure (Json.mkObj [("rows", Json.arr (bad.map (fun r => symJ r.sym)).toArray)])
  | _ => throw s!"unknown op {op}"

def step' (j : Json) : Json :=
  match handle j with
  | .ok r => r
  | .error e => Json.mkObj [("bad", .str e)]

def main : IO Unit := do
  loop (← IO.getStdin) (← IO.getStdout) step'
