/- line-protocol driver of the `Ops` engine (C09, C10): `Barril/Model/Ops.lean` over the generated POSC table -/
import Barril.Model.Proto
import Barril.Model.Ops
import Barril.Model.OpsRegistry
import Barril.Gen.Dbs
open Lean Barril Barril.Proto Barril.Ops

def absR (q : Rat) : Rat := if q < 0 then -q else q
def maxR (a b : Rat) : Rat := if a < b then b else a
def maxAbs (xs : List Rat) : Rat := xs.foldl (fun m x => maxR m (absR x)) 0

def theEnv : Env := Env.ofDb Gen.poscDb

def minAbs (xs : List Rat) : Rat :=
  match xs with
  | [] => 0
  | x :: rest => rest.foldl (fun m y => if absR y < m then absR y else m) (absR x)

/-! ### magnitude for the float comparison: absolute error carried through unit matching

`M` starts as the largest operand / result magnitude.  Unit matching adds rounding that depends on offsets:
* a plain `Convert` (to base, from base) has absolute error about `eps · B`, `B` = the intermediates
  including the offsets (a gauge unit converted to another gauge unit goes through the absolute base);
* a scaling by `Convert(1.0) - Convert(0.0)` has relative error about `eps · (|one| + |zero|) / |one - zero|`
  per unit of exponent (the difference cancels when the unit has an offset).
The driver replays the matching steps of both operands on every value, carries the absolute error (in
units of eps) through them and through the final operation, and adds it to `M`. -/

/-- magnitude of the intermediates of `from(to x)`, in the target unit (as in Drivers/Conv.lean) -/
def convMag (db : Db) (cq u v : Sym) (x : Rat) : Rat :=
  match db.typeOf cq with
  | .error _ => 0
  | .ok qt =>
    match db.getInfo qt u true, db.getInfo qt v true with
    | .ok a, .ok b =>
      let base := a.toBase.eval x
      let s := if b.fromBase.r = 0 then 0 else absR (b.fromBase.q / b.fromBase.r)
      let m1 := if a.toBase.r = 0 then 0 else s * ((absR a.toBase.p + absR (a.toBase.q * x)) / absR a.toBase.r)
      let m2 := if b.fromBase.r = 0 then 0 else (absR b.fromBase.p + absR (b.fromBase.q * base)) / absR b.fromBase.r
      maxR m1 m2
    | _, _ => 0

def qtOf (c : Sym) : Option Sym :=
  match theEnv.qtype c with
  | .ok t => some t
  | .error _ => none

structure Step where
  cat : Sym
  fromU : Sym
  toU : Sym
  exp : Int
  inDerived : Bool

/-- the conversions `_MatchQuantities` applies to the value of one dict (same walk as `matchDict`) -/
def stepsDict (inDerived : Bool) : List (Sym × Sym) → List Entry → List (Sym × Sym) × List Step
  | found, [] => (found, [])
  | found, e :: es =>
    match qtOf e.cat with
    | none => (found, [])
    | some t =>
      match found.find? (·.1 == t) with
      | none =>
        let (f, st) := stepsDict inDerived ((t, e.unit) :: found) es
        (f, st)
      | some (_, used) =>
        let (f, st) := stepsDict inDerived found es
        (f, if used == e.unit then st else ⟨e.cat, e.unit, used, e.exp, inDerived⟩ :: st)

def okOr (r : Except ErrKind Rat) (d : Rat) : Rat :=
  match r with
  | .ok x => x
  | .error _ => d

/-- value and absolute error (in eps) after the steps -/
def runSteps (steps : List Step) (v : Rat) : Rat × Rat :=
  steps.foldl (fun (va : Rat × Rat) st =>
    let (v, a) := va
    let db := Gen.poscDb
    let zero := okOr (db.convert st.cat st.fromU st.toU 0) 0
    let one := okOr (db.convert st.cat st.fromU st.toU 1) 1
    let ratio := one - zero
    if (st.exp == (1 : Int) && !st.inDerived) || (st.exp == (1 : Int) && zero == 0) then
      (okOr (db.convert st.cat st.fromU st.toU v) v, a * absR ratio + convMag db st.cat st.fromU st.toU v)
    else
      -- repair e246554: with an offset the ratio is the quotient of the two units' base increments, each of
      -- which cancels only against that unit's own offset
      let qt := (qtOf st.cat).getD 0
      let ratio' := okOr (unitRatio theEnv qt st.fromU st.toU zero) ratio
      let incCond := fun (u : Sym) =>
        match db.getInfo qt u with
        | .ok r =>
          let b1 := r.toBase.eval 1
          let b0 := r.toBase.eval 0
          if b1 - b0 = 0 then (1 : Rat) else (absR b1 + absR b0) / absR (b1 - b0)
        | .error _ => 1
      let factor := okOr (powInt ratio' st.exp) 1
      let e : Rat := if st.exp < (0 : Int) then -((st.exp : Int) : Rat) else ((st.exp : Int) : Rat)
      let cond := if zero = 0 then 1 + e else 1 + e * (incCond st.fromU + incCond st.toU)
      (v * factor, a * absR factor + absR (v * factor) * cond)) (v, 0)

def operandValues : Operand → List Rat
  | .num _ k => [k]
  | .ndarr ks => ks
  | .scalar _ v => [v]
  | .array _ _ vs => vs
  | .junk => []
  | .array0 _ v => [v]

def operandQuantity : Operand → Quantity
  | .scalar q _ | .array q _ _ | .array0 q _ => q
  | _ => []

/-- absolute error (in eps) that unit matching and the operation carry into the result -/
def matchErr (op : Op) (a b : Operand) : Rat :=
  let q1 := operandQuantity a
  let q2 := operandQuantity b
  let (f1, s1) := stepsDict (decide (1 < q1.length)) [] q1
  let (_, s2) := stepsDict (decide (1 < q2.length)) f1 q2
  if s1.isEmpty && s2.isEmpty then 0 else
  let r1 := (operandValues a).map (runSteps s1)
  let r2 := (operandValues b).map (runSteps s2)
  let x := maxAbs (r1.map (·.1))
  let y := maxAbs (r2.map (·.1))
  let a1 := maxAbs (r1.map (·.2))
  let a2 := maxAbs (r2.map (·.2))
  match op with
  | .sum | .sub => a1 + a2
  | .mul => y * a1 + x * a2
  | .div | .floordiv =>
    let m := minAbs (r2.map (·.1))
    if m = 0 then 0 else a1 / m + x * a2 / (m * m)

def parseRatJ (j : Json) : Except String Rat :=
  match j with
  | .str s => match parseRat? s with
    | some q => .ok q
    | none => .error s!"not a rational: {s}"
  | _ => .error "rational expected as a string"

def parseRats (j : Json) (k : String) : Except String (List Rat) := do
  let a ← getArr j k
  a.toList.mapM parseRatJ

def parseEntry (j : Json) : Except String Entry :=
  match j with
  | .arr #[.str c, .str u, .str e] =>
    match c.toNat?, u.toNat?, e.toInt? with
    | some c, some u, some e => .ok ⟨c, u, e⟩
    | _, _, _ => .error "bad quantity item"
  | _ => .error "quantity item must be [cat, unit, exp] (strings)"

def parseQuantity (j : Json) (k : String) : Except String Quantity := do
  let a ← getArr j k
  a.toList.mapM parseEntry

def parseKind (s : String) : Except String Kind :=
  match s with
  | "list" => .ok .list
  | "tuple" => .ok .tuple
  | "nd" => .ok .nd
  | _ => .error s!"bad kind {s}"

def parseOperand (j : Json) : Except String Operand := do
  let t ← getStr j "t"
  match t with
  | "num" => pure (.num (← getBool j "np") (← getRat j "k"))
  | "nd" => pure (.ndarr (← parseRats j "ks"))
  | "scalar" => pure (.scalar (← parseQuantity j "q") (← getRat j "v"))
  | "array" => pure (.array (← parseQuantity j "q") (← parseKind (← getStr j "kind")) (← parseRats j "vs"))
  | "junk" => pure .junk
  | "array0" => pure (.array0 (← parseQuantity j "q") (← getRat j "v"))
  | _ => throw s!"bad operand type {t}"

def parseOpName (s : String) : Except String Op :=
  match s with
  | "sum" => .ok .sum
  | "sub" => .ok .sub
  | "mul" => .ok .mul
  | "div" => .ok .div
  | "floordiv" => .ok .floordiv
  | _ => .error s!"bad operator {s}"

def kindStr : Kind → String
  | .list => "list" | .tuple => "tuple" | .nd => "nd"

def quantityJ (q : Quantity) : Json :=
  Json.arr (q.map (fun e => Json.arr #[symJ e.cat, symJ e.unit, .str (toString e.exp)])).toArray

def ratsJ (xs : List Rat) : Json := Json.arr (xs.map ratJ).toArray

def outJ (inMag : Rat) : Except ErrKind Out → Json
  | .error e => errJ e
  | .ok .bare => Json.mkObj [("ok", Json.mkObj [("t", .str "bare")])]
  | .ok (.scalar q v) =>
    Json.mkObj [("ok", Json.mkObj [("t", .str "scalar"), ("q", quantityJ q), ("vs", ratsJ [v]),
      ("M", ratJ (maxR inMag (absR v)))])]
  | .ok (.array q k vs) =>
    Json.mkObj [("ok", Json.mkObj [("t", .str "array"), ("q", quantityJ q), ("kind", .str (kindStr k)),
      ("vs", ratsJ vs), ("M", ratJ (maxR inMag (maxAbs vs)))])]

def parseSimple (j : Json) : Except String SimpleScalar := do
  pure ⟨← getSym j "c", ← getSym j "u", ← getRat j "v"⟩

def parseQScalar (j : Json) : Except String QScalar := do
  pure ⟨← parseQuantity j "q", ← getRat j "v"⟩

/-- an optional string argument: JSON null (or absent) = `None`, otherwise the symbol code as a decimal string -/
def getOptSym (j : Json) (k : String) : Except String (Option Sym) :=
  match j.getObjVal? k with
  | .ok (.str s) => match s.toNat? with
    | some n => .ok (some n)
    | none => .error s!"field {k}: not a symbol code"
  | .ok .null => .ok none
  | .error _ => .ok none
  | .ok _ => .error s!"field {k}: null or a symbol code expected"

def strBytes (s : String) : List Nat := s.toUTF8.toList.map (·.toNat)

def parseElemText (j : Json) : Except String ElemText := do
  pure ⟨← getBool j "tup", strBytes (← getStr j "s"), strBytes (← getStr j "g")⟩

def natsJ (xs : List Nat) : Json := Json.arr (xs.map (fun n => Json.num (JsonNumber.fromNat n))).toArray

def parseNatJ (j : Json) : Except String Nat :=
  match j with
  | .str s => match s.toNat? with
    | some n => .ok n
    | none => .error s!"not a class tag: {s}"
  | _ => .error "class tag expected as a string"

def parseClass (j : Json) : Except String PyClass := do
  pure ⟨← getSym j "tag", ← (← getArr j "bases").toList.mapM parseNatJ⟩

def parseRegEntry (j : Json) : Except String RegEntry := do
  let cls ← getSym j "cls"
  match ← getStr j "fn" with
  | "std" => pure ⟨cls, .std⟩
  | "scaled" => pure ⟨cls, .scaled (← getRat j "k")⟩
  | f => throw s!"bad conversion function {f}"

/-- the two-step history of the registry cases: the registry as it is after import (`base`), then the
registrations `regs` through `RegisterAdditionalConversionType` -/
def parseRegistry (j : Json) : Except String Registry := do
  let base ← (← getArr j "base").toList.mapM parseRegEntry
  let regs ← (← getArr j "regs").toList.mapM parseRegEntry
  pure (Registry.registerAll base regs)

def handleOne (j : Json) : Except String Json := do
  let op ← getStr j "op"
  match op with
  | "regbinop" =>
    -- registrations, then `Array op Array` on the database that has them
    let reg ← parseRegistry j
    let ndc ← parseClass (← j.getObjVal? "ndc")
    let f ← parseOpName (← getStr j "f")
    let a ← parseOperand (← j.getObjVal? "a")
    let b ← parseOperand (← j.getObjVal? "b")
    match a, b with
    | .array q1 k1 xs, .array q2 k2 ys =>
      let r := arrayOpArrayReg theEnv reg ndc f q1 k1 xs q2 k2 ys
      let outMag := match r with
        | .ok o => maxAbs ((o.values?).getD [])
        | .error _ => 0
      let mag := maxR (maxR (maxAbs xs) (maxAbs ys)) outMag + matchErr f a b
      let res := outJ mag r
      match f, arrayOpArrayReg theEnv reg ndc .div q1 k1 xs q2 k2 ys with
      | .floordiv, .ok o =>
        match o.values? with
        | some vs => pure (res.setObjVal! "pre" (ratsJ vs))
        | none => pure res
      | _, _ => pure res
    | _, _ => throw "regbinop: two Array operands expected"
  | "reggetvalues" =>
    let reg ← parseRegistry j
    let ndc ← parseClass (← j.getObjVal? "ndc")
    let c ← getSym j "c"
    let u ← getSym j "u"
    let k ← parseKind (← getStr j "kind")
    let vs ← parseRats j "vs"
    let to ← getSym j "to"
    match arrayGetValuesReg theEnv reg (kindClass ndc k) c u k vs to with
    | .error e => pure (errJ e)
    | .ok (k', ws) =>
      pure (Json.mkObj [("ok", Json.mkObj [("kind", .str (kindStr k')), ("vs", ratsJ ws),
        ("M", ratJ (maxR (maxAbs vs) (maxAbs ws)))])])
  | "rdiv" =>
    -- `self.__rdiv__(other)` called directly
    let a ← parseOperand (← j.getObjVal? "self")
    let b ← parseOperand (← j.getObjVal? "other")
    let r := arrayRDiv theEnv a b
    let outMag := match r with
      | .ok o => maxAbs ((o.values?).getD [])
      | .error _ => 0
    let mag := maxR (maxR (maxAbs (operandValues a)) (maxAbs (operandValues b))) outMag + matchErr .div b a
    pure (outJ mag r)
  | "fromscalars2" =>
    let ss ← (← getArr j "ss").toList.mapM parseQScalar
    let unit ← getOptSym j "unit"
    let category ← getOptSym j "category"
    let r := fromScalarsKw theEnv ss unit category
    let outMag := match r with
      | .ok o => maxAbs ((o.values?).getD [])
      | .error _ => 0
    let mag := maxR (maxAbs (ss.map (·.v))) outMag
    let idx : List Json := match r with
      | .ok o => (List.range (ss.length + 1)).map (fun i =>
          match o.index i with
          | .ok v => ratJ v
          | .error e => errJ e)
      | .error _ => []
    pure (Json.mkObj [("res", outJ mag r), ("index", Json.arr idx.toArray)])
  | "getvaluesrows" =>
    let c ← getSym j "c"
    let u ← getSym j "u"
    let to ← getSym j "to"
    let rows ← (← getArr j "rows").toList.mapM (fun r => match r with
      | .arr a => a.toList.mapM parseRatJ
      | _ => .error "a row must be an array")
    match arrayGetValuesRows theEnv c u rows to with
    | .error e => pure (errJ e)
    | .ok out =>
      pure (Json.mkObj [("ok", Json.mkObj [("rows", Json.arr (out.map ratsJ).toArray),
        ("M", ratJ (maxR (maxAbs rows.flatten) (maxAbs out.flatten)))])])
  | "str" =>
    let q ← parseQuantity j "q"
    let elems ← (← getArr j "elems").toList.mapM parseElemText
    pure (Json.mkObj [("ok", Json.mkObj [("text", natsJ (arrayStr q elems))])])
  | "binop" =>
    let f ← parseOpName (← getStr j "f")
    let defers ← getBool j "defers"
    let a ← parseOperand (← j.getObjVal? "a")
    let b ← parseOperand (← j.getObjVal? "b")
    let r := binop theEnv defers f a b
    let outMag := match r with
      | .ok o => maxAbs ((o.values?).getD [])
      | .error _ => 0
    -- `outJ` takes the maximum with the result magnitude; fold everything in beforehand
    let mag := maxR (maxR (maxAbs (operandValues a)) (maxAbs (operandValues b))) outMag + matchErr f a b
    -- a Scalar of a captioned unknown unit (field `cap` of the operand) with a plain number: the caption of the result
    let capA ← getOptSym (← j.getObjVal? "a") "cap"
    let capB ← getOptSym (← j.getObjVal? "b") "cap"
    let cap : Option Sym := match a, b, capA, capB with
      | .scalar .., .num .., some c, _ => some (scalarNumCaption c a b f)
      | .num .., .scalar .., _, some c => some (scalarNumCaption c a b f)
      | _, _, _, _ => none
    let res0 := outJ mag r
    let res := match cap, r, res0.getObjVal? "ok" with
      | some c, .ok (.scalar ..), .ok okJ => res0.setObjVal! "ok" (okJ.setObjVal! "cap" (symJ c))
      | _, _, _ => res0
    -- for `//` also the exact quotients before the floor (the harness needs them to recognise
    -- quotients that are integers up to float rounding)
    match f, binop theEnv defers .div a b with
    | .floordiv, .ok o =>
      match o.values? with
      | some vs => pure (res.setObjVal! "pre" (ratsJ vs))
      | none => pure res
    | _, _ => pure res
  | "fromscalars" =>
    let ss ← (← getArr j "ss").toList.mapM parseSimple
    let mag := maxAbs (ss.map (·.v))
    let r := fromScalars theEnv ss
    -- also answer the indexing of every position (and one position past the end)
    let idx : List Json := match r with
      | .ok o => (List.range (ss.length + 1)).map (fun i =>
          match o.index i with
          | .ok v => ratJ v
          | .error e => errJ e)
      | .error _ => []
    pure (Json.mkObj [("res", outJ mag r), ("index", Json.arr idx.toArray)])
  | "getvalues" =>
    let c ← getSym j "c"
    let u ← getSym j "u"
    let k ← parseKind (← getStr j "kind")
    let vs ← parseRats j "vs"
    let to ← getSym j "to"
    match arrayGetValues theEnv c u k vs to with
    | .error e => pure (errJ e)
    | .ok (k', ws) =>
      pure (Json.mkObj [("ok", Json.mkObj [("kind", .str (kindStr k')), ("vs", ratsJ ws),
        ("M", ratJ (maxR (maxAbs vs) (maxAbs ws)))])])
  | "getvalue" =>
    let s ← parseSimple j
    let to ← getSym j "to"
    match s.getValue theEnv to with
    | .error e => pure (errJ e)
    | .ok w => pure (Json.mkObj [("ok", Json.mkObj [("vs", ratsJ [w]), ("M", ratJ (maxR (absR s.v) (absR w)))])])
  | _ => throw s!"unknown op {op}"

/-- `{"op":"seq","steps":[…]}`: a sequence of operations of one process; the model is stateless, every
step is answered on its own -/
def handle (j : Json) : Except String Json := do
  match j.getObjVal? "op" with
  | .ok (.str "seq") =>
    let steps ← getArr j "steps"
    let outs ← steps.toList.mapM handleOne
    pure (Json.mkObj [("outs", Json.arr outs.toArray)])
  | _ => handleOne j

def step (j : Json) : Json :=
  match handle j with
  | .ok r => r
  | .error e => Json.mkObj [("bad", .str e)]

def main : IO Unit := do
  loop (← IO.getStdin) (← IO.getStdout) step
