/- line-protocol driver of the `Ops` engine (C09, C10): `Barril/Model/Ops.lean` over the generated POSC table -/
import Barril.Model.Proto
import Barril.Model.Ops
import Barril.Gen.Dbs
open Lean Barril Barril.Proto Barril.Ops

def absR (q : Rat) : Rat := if q < 0 then -q else q
def maxR (a b : Rat) : Rat := if a < b then b else a
def maxAbs (xs : List Rat) : Rat := xs.foldl (fun m x => maxR m (absR x)) 0

def theEnv : Env := Env.ofDb Gen.poscDb

def parseRatJ (j : Json) : Except String Rat :=
  match j with
  | .str s => match parseRat? s with
    | some q => .ok q
    | none => .error s!"not a rational: {s}"
  | _ => .error "rational expected as a string"

def parseRats (j : Json) (k : String) : Except String (List Rat) := do
  let a ← getArr j k
  a.toList.mapM parseRatJ

def parseEntry (j : Json) : Except String Entry :=
  match j with
  | .arr #[.str c, .str u, .str e] =>
    match c.toNat?, u.toNat?, e.toInt? with
    | some c, some u, some e => .ok ⟨c, u, e⟩
    | _, _, _ => .error "bad quantity item"
  | _ => .error "quantity item must be [cat, unit, exp] (strings)"

def parseQuantity (j : Json) (k : String) : Except String Quantity := do
  let a ← getArr j k
  a.toList.mapM parseEntry

def parseKind (s : String) : Except String Kind :=
  match s with
  | "list" => .ok .list
  | "tuple" => .ok .tuple
  | "nd" => .ok .nd
  | _ => .error s!"bad kind {s}"

def parseOperand (j : Json) : Except String Operand := do
  let t ← getStr j "t"
  match t with
  | "num" => pure (.num (← getBool j "np") (← getRat j "k"))
  | "nd" => pure (.ndarr (← parseRats j "ks"))
  | "scalar" => pure (.scalar (← parseQuantity j "q") (← getRat j "v"))
  | "array" => pure (.array (← parseQuantity j "q") (← parseKind (← getStr j "kind")) (← parseRats j "vs"))
  | "junk" => pure .junk
  | _ => throw s!"bad operand type {t}"

def parseOpName (s : String) : Except String Op :=
  match s with
  | "sum" => .ok .sum
  | "sub" => .ok .sub
  | "mul" => .ok .mul
  | "div" => .ok .div
  | "floordiv" => .ok .floordiv
  | _ => .error s!"bad operator {s}"

def kindStr : Kind → String
  | .list => "list" | .tuple => "tuple" | .nd => "nd"

def quantityJ (q : Quantity) : Json :=
  Json.arr (q.map (fun e => Json.arr #[symJ e.cat, symJ e.unit, .str (toString e.exp)])).toArray

def ratsJ (xs : List Rat) : Json := Json.arr (xs.map ratJ).toArray

def operandValues : Operand → List Rat
  | .num _ k => [k]
  | .ndarr ks => ks
  | .scalar _ v => [v]
  | .array _ _ vs => vs
  | .junk => []

def outJ (inMag : Rat) : Except ErrKind Out → Json
  | .error e => errJ e
  | .ok .bare => Json.mkObj [("ok", Json.mkObj [("t", .str "bare")])]
  | .ok (.scalar q v) =>
    Json.mkObj [("ok", Json.mkObj [("t", .str "scalar"), ("q", quantityJ q), ("vs", ratsJ [v]),
      ("M", ratJ (maxR inMag (absR v)))])]
  | .ok (.array q k vs) =>
    Json.mkObj [("ok", Json.mkObj [("t", .str "array"), ("q", quantityJ q), ("kind", .str (kindStr k)),
      ("vs", ratsJ vs), ("M", ratJ (maxR inMag (maxAbs vs)))])]

def parseSimple (j : Json) : Except String SimpleScalar := do
  pure ⟨← getSym j "c", ← getSym j "u", ← getRat j "v"⟩

def handle (j : Json) : Except String Json := do
  let op ← getStr j "op"
  match op with
  | "binop" =>
    let f ← parseOpName (← getStr j "f")
    let defers ← getBool j "defers"
    let a ← parseOperand (← j.getObjVal? "a")
    let b ← parseOperand (← j.getObjVal? "b")
    let mag := maxR (maxAbs (operandValues a)) (maxAbs (operandValues b))
    let res := outJ mag (binop theEnv defers f a b)
    -- for `//` also the exact quotients before the floor (the harness needs them to recognise
    -- quotients that are integers up to float rounding)
    match f, binop theEnv defers .div a b with
    | .floordiv, .ok o =>
      match o.values? with
      | some vs => pure (res.setObjVal! "pre" (ratsJ vs))
      | none => pure res
    | _, _ => pure res
  | "fromscalars" =>
    let ss ← (← getArr j "ss").toList.mapM parseSimple
    let mag := maxAbs (ss.map (·.v))
    let r := fromScalars theEnv ss
    -- also answer the indexing of every position (and one position past the end)
    let idx : List Json := match r with
      | .ok o => (List.range (ss.length + 1)).map (fun i =>
          match o.index i with
          | .ok v => ratJ v
          | .error e => errJ e)
      | .error _ => []
    pure (Json.mkObj [("res", outJ mag r), ("index", Json.arr idx.toArray)])
  | "getvalues" =>
    let c ← getSym j "c"
    let u ← getSym j "u"
    let k ← parseKind (← getStr j "kind")
    let vs ← parseRats j "vs"
    let to ← getSym j "to"
    match arrayGetValues theEnv c u k vs to with
    | .error e => pure (errJ e)
    | .ok (k', ws) =>
      pure (Json.mkObj [("ok", Json.mkObj [("kind", .str (kindStr k')), ("vs", ratsJ ws),
        ("M", ratJ (maxR (maxAbs vs) (maxAbs ws)))])])
  | "getvalue" =>
    let s ← parseSimple j
    let to ← getSym j "to"
    match s.getValue theEnv to with
    | .error e => pure (errJ e)
    | .ok w => pure (Json.mkObj [("ok", Json.mkObj [("vs", ratsJ [w]), ("M", ratJ (maxR (absR s.v) (absR w)))])])
  | _ => throw s!"unknown op {op}"

def step (j : Json) : Json :=
  match handle j with
  | .ok r => r
  | .error e => Json.mkObj [("bad", .str e)]

def main : IO Unit := do
  loop (← IO.getStdin) (← IO.getStdout) step
