/- line-protocol driver of the C05 session model (`Barril/Model/Fail.lean`) -/
import Barril.Model.Proto
import Barril.Model.Fail
import Barril.Gen.Dbs
open Lean Barril Barril.Proto Barril.Fail

def absR (q : Rat) : Rat := if q < 0 then -q else q
def maxR (a b : Rat) : Rat := if a < b then b else a

def parseCmp (f : String) : Except String CmpOp :=
  match f with
  | "lt" => pure CmpOp.lt
  | "le" => pure CmpOp.le
  | "gt" => pure CmpOp.gt
  | "ge" => pure CmpOp.ge
  | _ => throw s!"bad cmp {f}"

def parseOp (j : Json) : Except String FOp := do
  let k ← getStr j "k"
  match k with
  | "create" => pure (.create (← getSym j "c") (← getSym j "u"))
  | "check" => pure (.check (← getSym j "c") (← getSym j "u"))
  | "convert" => pure (.convert (← getSym j "cq") (← getSym j "u") (← getSym j "v") (← getRat j "x"))
  | "arith" =>
    let f ← getStr j "f"
    let op ← match f with
      | "add" => pure ArithOp.add
      | "sub" => pure ArithOp.sub
      | _ => throw s!"bad arith {f}"
    pure (.arith op (← getSym j "c1") (← getSym j "u1") (← getSym j "c2") (← getSym j "u2")
      (← getRat j "x") (← getRat j "y"))
  | "cmp" =>
    let op ← parseCmp (← getStr j "f")
    pure (.cmp op (← getSym j "c1") (← getSym j "u1") (← getSym j "c2") (← getSym j "u2")
      (← getRat j "x") (← getRat j "y"))
  | _ => throw s!"unknown op kind {k}"

def parseEnt (j : Json) : Except String Ent := do
  pure ⟨← getSym j "c", ← getSym j "u", ← getInt j "e"⟩

def parseEnts (j : Json) (k : String) : Except String (List Ent) := do
  (← getArr j k).toList.mapM parseEnt

def parseAEnt (j : Json) : Except String Alg.Entry := do
  pure ⟨← getSym j "c", ← getSym j "u", ← getInt j "e"⟩

/-- an operand's quantity: `{"es": [{c,u,e},..], "cap": caption, "derived": bool}` -/
def parseAQ (j : Json) (k : String) : Except String Alg.Quantity := do
  let o ← (j.getObjVal? k)
  pure ⟨← (← getArr o "es").toList.mapM parseAEnt, ← getSym o "cap", ← getBool o "derived"⟩

def parseXOp (j : Json) : Except String XOp := do
  let k ← getStr j "k"
  match k with
  | "sumq" =>
    let f ← getStr j "f"
    let op ← match f with
      | "add" => pure Alg.SameOp.add
      | "sub" => pure Alg.SameOp.sub
      | _ => throw s!"bad sum {f}"
    pure (.sumq op (← parseAQ j "a") (← parseAQ j "b") (← getRat j "x") (← getRat j "y"))
  | "eqq" => pure (.eqq (← parseAQ j "a") (← parseAQ j "b"))
  | "createu" => pure (.createU (← getSym j "u"))
  | "createdict" => pure (.createDict (← getBool j "validate") (← parseEnts j "es"))
  | "cmpq" =>
    pure (.cmpq (← parseCmp (← getStr j "f")) (← parseEnts j "a") (← parseEnts j "b") (← getRat j "x") (← getRat j "y"))
  | "addcat" => pure (.reg (.addCategory (← getSym j "c") (← getSym j "qt") (← getBool j "override")))
  | "addunit" =>
    pure (.reg (.addUnit (← getSym j "qt") (← getSym j "name") (← getSym j "u") (← getSym j "dc") (← getRat j "scale")))
  | _ => pure (.plain (← parseOp j))

/-- magnitude of the intermediates of an operation (for the float comparison) -/
def magOf : FOp → Rat
  | .convert _ _ _ x => absR x
  | .arith _ _ _ _ _ x y => maxR (absR x) (absR y)
  | .cmp _ _ _ _ _ x y => maxR (absR x) (absR y)
  | _ => 0

def outJ (op : FOp) : Except ErrKind FOut → Json
  | .error e => errJ e
  | .ok (.quantity q) => Json.mkObj [("ok", Json.mkObj [("cat", symJ q.cat), ("unit", symJ q.unit)])]
  | .ok .unit => Json.mkObj [("ok", Json.null)]
  | .ok (.number x) => Json.mkObj [("ok", Json.mkObj [("x", ratJ x), ("M", ratJ (maxR (magOf op) (absR x)))])]
  | .ok (.qnumber q x) =>
    Json.mkObj [("ok", Json.mkObj [("cat", symJ q.cat), ("unit", symJ q.unit), ("x", ratJ x),
      ("M", ratJ (maxR (magOf op) (absR x)))])]
  | .ok (.bool b) => Json.mkObj [("ok", Json.mkObj [("b", .bool b)])]

/-- magnitude of a sum: the operands as given and as matched (`_MatchQuantities` rescales them) -/
def sumMag (db : Db) (a b : Alg.Quantity) (x y : Rat) : Rat :=
  match Alg.matchQuantities db a.entries b.entries x y with
  | .ok (_, _, w1, w2) => maxR (maxR (absR x) (absR y)) (maxR (absR w1) (absR w2))
  | .error _ => maxR (absR x) (absR y)

def xmagOf (db : Db) : XOp → Rat
  | .plain op => magOf op
  | .cmpq _ _ _ x y => maxR (absR x) (absR y)
  | .sumq _ a b x y => sumMag db a b x y
  | _ => 0

def aentJ (e : Alg.Entry) : Json := Json.arr #[symJ e.cat, symJ e.unit, .str (toString e.exp)]

def xoutJ (db : Db) (op : XOp) : Except ErrKind XOut → Json
  | .error e => errJ e
  | .ok (.sum q z) =>
    Json.mkObj [("ok", Json.mkObj [("e", Json.arr (q.entries.map aentJ).toArray), ("cap", symJ q.caption),
      ("derived", .bool q.derived), ("x", ratJ z), ("M", ratJ (maxR (xmagOf db op) (absR z)))])]
  | .ok (.plain o) =>
    match op with
    | .plain fop => outJ fop (.ok o)
    | _ => outJ (.check 0 0) (.ok o)
  | .ok (.quant q) =>
    Json.mkObj [("ok", Json.mkObj [("cat", symJ q.category), ("unit", symJ q.unit), ("qt", symJ q.qtype),
      ("derived", .bool q.derived)])]

def runOps : XState → List XOp → List Json
  | _, [] => []
  | st, op :: ops => xoutJ st.db op (xstep st op).2 :: runOps (xstep st op).1 ops

def handle (j : Json) : Except String Json := do
  let op ← getStr j "op"
  match op with
  | "history" =>
    let ops ← getArr j "ops"
    let ops ← ops.toList.mapM parseXOp
    pure (Json.mkObj [("outs", Json.arr (runOps (XState.fresh Gen.poscDb) ops).toArray)])
  | _ => throw s!"unknown op {op}"

def step' (j : Json) : Json :=
  match handle j with
  | .ok r => r
  | .error e => Json.mkObj [("bad", .str e)]

def main : IO Unit := do
  loop (← IO.getStdin) (← IO.getStdout) step'
