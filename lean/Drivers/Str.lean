/- line-protocol driver of the `Str` engine (C20; the parser is reused by C06) -/
import Barril.Model.Proto
import Barril.Model.Str
import Barril.Model.StrRender
import Barril.Model.StrCaller
open Lean Barril Barril.Proto Barril.Str

def strJ (s : Str) : Json := symJ (Sym.ofBytes s)

def symOfJson (j : Json) : Except String Str :=
  match j with
  | .str s => match s.toNat? with
    | some n => .ok (Sym.bytes n)
    | none => .error "not a symbol code"
  | _ => .error "symbol code expected (decimal string)"

def intOfJson (j : Json) : Except String Int :=
  match j with
  | .num n => if n.exponent = 0 then .ok n.mantissa else .error "not an integer"
  | _ => .error "integer expected"

def pairsJ (ps : List (Str × Int)) : Json :=
  Json.arr (ps.map (fun p => Json.arr #[strJ p.1, toJson p.2])).toArray

def optPairsJ : Option (List (Str × Int)) → Json
  | none => Json.null
  | some ps => pairsJ ps

def entryOfJson (j : Json) : Except String Entry :=
  match j with
  | .arr #[c, u, e] => do pure ⟨← symOfJson c, ← symOfJson u, ← intOfJson e⟩
  | _ => .error "entry = [cat, unit, exp]"

def catOfJson (j : Json) : Except String (Str × Str) :=
  match j with
  | .arr #[c, qt] => do pure (← symOfJson c, ← symOfJson qt)
  | _ => .error "cats item = [cat, qtype]"

def nameOfJson (j : Json) : Except String ((Str × Str) × Str) :=
  match j with
  | .arr #[qt, u, n] => do pure ((← symOfJson qt, ← symOfJson u), ← symOfJson n)
  | _ => .error "names item = [qtype, unit, name]"

def itemOfJson (j : Json) : Except String (Str × Int) :=
  match j with
  | .arr #[r, e] => do pure (← symOfJson r, ← intOfJson e)
  | _ => .error "item = [text, exp]"

def entriesJ (es : List Entry) : Json :=
  Json.arr (es.map (fun e => Json.arr #[strJ e.cat, strJ e.unit, toJson e.exp])).toArray

def stringsJC (reg : Reg) (cap : Str) (r : Except ErrKind Quantity) : Json :=
  match r with
  | .error e => errJ e
  | .ok q =>
    let un := match q.unitName reg with
      | .ok s => Json.mkObj [("ok", strJ s)]
      | .error e => errJ e
    Json.mkObj [("ok", Json.mkObj [
      ("unit", strJ q.unit), ("category", strJ q.category), ("qtype", strJ q.qtype),
      ("derived", .bool q.derived), ("unit_name", un),
      ("entries", entriesJ q.entries),
      ("joined", pairsJ (joinedUnits q.entries)),
      ("scalar_repr_tail", strJ (scalarReprTail q)), ("suffix", strJ (formattedSuffix q)),
      ("array_repr_head", strJ (arrayReprHead q)), ("array_repr_tail", strJ (arrayReprTail q)),
      ("quantity_repr", strJ (quantityReprCaption q cap)),
      ("parsed", optPairsJ (parseUnit q.unit)),
      ("all_atomic", .bool (q.entries.all (fun e => atomic e.unit)))])]

def stringsJ (reg : Reg) (r : Except ErrKind Quantity) : Json := stringsJC reg [] r

/-- one token of an expression in postfix form, applied to the stack of sub-expressions -/
def rpnStep (stack : List Expr) (tok : Json) : Except String (List Expr) :=
  match tok with
  | .arr #[.str "leaf", c, u] => do pure (Expr.leaf (← symOfJson c) (← symOfJson u) :: stack)
  | .arr #[.str "mul"] => match stack with
    | b :: a :: rest => pure (Expr.mul a b :: rest)
    | _ => .error "mul: stack underflow"
  | .arr #[.str "div"] => match stack with
    | b :: a :: rest => pure (Expr.div a b :: rest)
    | _ => .error "div: stack underflow"
  | .arr #[.str "rdiv"] => match stack with
    | a :: rest => pure (Expr.rdiv a :: rest)
    | _ => .error "rdiv: stack underflow"
  | .arr #[.str "spow", n] => match stack with
    | a :: rest => do pure (Expr.spow a (← intOfJson n) :: rest)
    | _ => .error "spow: stack underflow"
  | .arr #[.str "qpow", n] => match stack with
    | a :: rest => do pure (Expr.qpow a (← intOfJson n) :: rest)
    | _ => .error "qpow: stack underflow"
  | _ => .error "bad rpn token"

def exprOfRpn (toks : List Json) : Except String Expr := do
  match ← toks.foldlM rpnStep [] with
  | [e] => pure e
  | _ => .error "rpn: not exactly one expression"

/-- what a creation step of a history makes, as a step of the caller model (`Barril.Str.Caller`): an expression over
simple quantities (`other`), a request to `ObtainQuantity` / `Quantity.CreateDerived` with a mapping or the list form
(the caller keeps the mapping: `request`), the same request object once more as it is now (`again`).  The model has no
cache: every step is predicted from its own operands / request. -/
def creationStep (reg : Reg) (s : Caller) (st : Json) (k : String) : Except String CStep := do
  match k with
  | "expr" =>
    let e ← exprOfRpn (← getArr st "rpn").toList
    pure (.other (e.eval reg))
  | "dict" =>
    let entries ← (← getArr st "entries").toList.mapM entryOfJson
    pure (.request (.dict entries))
  | "list" =>
    let pairs ← (← getArr st "pairs").toList.mapM itemOfJson
    let lcats ← (← getArr st "lcats").toList.mapM symOfJson
    pure (.request (.list pairs lcats))
  | "again" => pure (.again (← intOfJson (← st.getObjVal? "slot")).toNat)
  | "arith" =>
    -- arithmetic on the quantity made as number `on`: `q * leaf`, `q / leaf`, `Scalar ** n`, `Quantity ** n`
    let j := (← intOfJson (← st.getObjVal? "on")).toNat
    if s.made.length ≤ j then throw "arith: no such quantity"
    match ← getStr st "f" with
    | "mul" =>
      let c ← symOfJson (← st.getObjVal? "c"); let u ← symOfJson (← st.getObjVal? "u")
      pure (.arith j (fun q => match newSimple reg c u with | .error e => .error e | .ok l => opQ reg .mul q l))
    | "div" =>
      let c ← symOfJson (← st.getObjVal? "c"); let u ← symOfJson (← st.getObjVal? "u")
      pure (.arith j (fun q => match newSimple reg c u with | .error e => .error e | .ok l => opQ reg .div q l))
    | "spow" => let n ← intOfJson (← st.getObjVal? "n"); pure (.arith j (fun q => spow reg q n))
    | "qpow" => let n ← intOfJson (← st.getObjVal? "n"); pure (.arith j (fun q => qpow reg q n))
    | f => throw s!"arith: unknown operation {f}"
  | _ => throw s!"unknown step kind {k}"

def editOfJson (j : Json) : Except String Edit :=
  match j with
  | .arr #[.str "exp", i, x] => do pure (.setExp (← intOfJson i).toNat (← intOfJson x))
  | .arr #[.str "unit", i, u] => do pure (.setUnit (← intOfJson i).toNat (← symOfJson u))
  | .arr #[.str "add", c, u, e] => do pure (.add ⟨← symOfJson c, ← symOfJson u, ← intOfJson e⟩)
  | .arr #[.str "del", i] => do pure (.del (← intOfJson i).toNat)
  | _ => .error "edit = [exp,i,x] | [unit,i,u] | [add,c,u,e] | [del,i]"

/-- all strings of every quantity made so far (with the caption it was asked with) -/
def rereadJ (reg : Reg) (made : List (Except ErrKind Quantity)) (caps : List Str) : Json :=
  Json.mkObj [("reread", Json.arr ((made.zip caps).map (fun p => stringsJC reg p.2 p.1)).toArray)]

/-- one step of a history on the caller model; `caps` = the unknown-unit captions of the quantities made so far
(the caption takes no part in the strings, only in `Quantity.__repr__`).  `edit`: the caller edits a request it holds,
then ALL strings of every quantity made before are asked again; `reread`: the same without an edit. -/
def historyStep (reg : Reg) (acc : Caller × List Str × List Json) (st : Json) :
    Except String (Caller × List Str × List Json) := do
  let (s, caps, outs) := acc
  let k ← getStr st "k"
  match k with
  | "edit" =>
    let slot := (← intOfJson (← st.getObjVal? "slot")).toNat
    let ed ← editOfJson (← st.getObjVal? "ed")
    let s' := s.step reg (.edit slot ed)
    pure (s', caps, outs ++ [rereadJ reg s'.made caps])
  | "reread" => pure (s, caps, outs ++ [rereadJ reg s.made caps])
  | _ =>
    let cs ← creationStep reg s st k
    let cap ← match st.getObjVal? "cap" with
      | .ok c => symOfJson c
      | .error _ => pure []
    let s' := s.step reg cs
    match s'.made.getLast? with
    | some r =>
      if s'.made.length = s.made.length + 1 then pure (s', caps ++ [cap], outs ++ [stringsJC reg cap r])
      else throw "the step made nothing (no such request)"
    | none => throw "the step made nothing (no such request)"

def handle (j : Json) : Except String Json := do
  let op ← getStr j "op"
  match op with
  | "history" =>
    let cats ← (← getArr j "cats").toList.mapM catOfJson
    let names ← (← getArr j "names").toList.mapM nameOfJson
    let reg : Reg := ⟨cats, names⟩
    let (_, _, outs) ← (← getArr j "steps").toList.foldlM (historyStep reg) (⟨[], []⟩, [], [])
    pure (Json.mkObj [("ok", Json.arr outs.toArray)])
  | "strings" =>
    let entries ← (← getArr j "entries").toList.mapM entryOfJson
    let cats ← (← getArr j "cats").toList.mapM catOfJson
    let names ← (← getArr j "names").toList.mapM nameOfJson
    let reg : Reg := ⟨cats, names⟩
    pure (stringsJ reg (obtainFromDict reg entries))
  | "obtain_list" =>
    let pairs ← (← getArr j "pairs").toList.mapM itemOfJson
    let lcats ← (← getArr j "lcats").toList.mapM symOfJson
    let cats ← (← getArr j "cats").toList.mapM catOfJson
    let names ← (← getArr j "names").toList.mapM nameOfJson
    let reg : Reg := ⟨cats, names⟩
    pure (stringsJ reg (obtainFromList reg pairs lcats))
  | "makestr" =>
    let items ← (← getArr j "items").toList.mapM itemOfJson
    pure (Json.mkObj [("ok", strJ (makeStr items))])
  | "parse" =>
    let syms ← (← getArr j "syms").toList.mapM symOfJson
    pure (Json.mkObj [("ok", Json.arr (syms.map (fun s =>
      Json.mkObj [("atomic", .bool (atomic s)), ("parsed", optPairsJ (parseUnit s))])).toArray)])
  | _ => throw s!"unknown op {op}"

def step (j : Json) : Json :=
  match handle j with
  | .ok r => r
  | .error e => Json.mkObj [("bad", .str e)]

def main : IO Unit := do
  loop (← IO.getStdin) (← IO.getStdout) step
