/- line-protocol driver of the `Cmp` engine (C08) -/
import Barril.Model.Proto
import Barril.Model.Cmp
import Barril.Gen.Dbs
open Lean Barril Barril.Proto

def dbOf (name : String) : Except String Db :=
  match name with
  | "posc" => .ok Gen.poscDb
  | "nocat" => .ok Gen.nocatDb
  | "simple" => .ok Gen.simpleDb
  | _ => .error s!"unknown db {name}"

def maxR (a b : Rat) : Rat := if a < b then b else a

def getObj (j : Json) (k : String) : Except String Json :=
  match j.getObjVal? k with
  | .ok v => .ok v
  | .error _ => .error s!"missing field {k}"

def ratOfJson (j : Json) : Except String Rat :=
  match j with
  | .str s =>
    match parseRat? s with
    | some q => .ok q
    | none => .error s!"not a rational: {s}"
  | _ => .error "rational expected as a string"

def symOfJson (j : Json) : Except String Sym :=
  match j with
  | .str s =>
    match s.toNat? with
    | some n => .ok n
    | none => .error s!"not a symbol code: {s}"
  | _ => .error "symbol expected as a string"

def decRats (j : Json) (k : String) : Except String (List Rat) := do
  (← getArr j k).toList.mapM ratOfJson

def decEntry (j : Json) : Except String QEntry := do
  pure ⟨← getSym j "cat", ← getSym j "unit", ← getInt j "exp", ← getBool j "tup"⟩

def decQty (j : Json) : Except String Qty := do
  let es ← (← getArr j "entries").toList.mapM decEntry
  pure ⟨es, ← getSym j "caption", ← getSym j "unit"⟩

def decKind (s : String) : Except String Container :=
  match s with
  | "list" => .ok .list
  | "tuple" => .ok .tuple
  | "ndarray" => .ok .ndarray
  | _ => .error s!"unknown container {s}"

def decArr (j : Json) : Except String Arr := do
  let c ← getStr j "c"
  let vals ← decRats j "values"
  let kind ← decKind (← getStr j "kind")
  let q ← decQty (← getObj j "q")
  match c with
  | "array" => pure ⟨vals, kind, q, none⟩
  | "fixedarray" => pure ⟨vals, kind, q, some (← getInt j "dim")⟩
  | _ => throw s!"not an array term: {c}"

def decFVal (j : Json) : Except String FVal := do
  pure ⟨← getRat j "number", ← getRat j "frac"⟩

def decPair (j : Json) : Except String (Sym × Sym) :=
  match j with
  | .arr #[k, v] => do pure (← symOfJson k, ← symOfJson v)
  | _ => .error "pair expected"

def decUSys (j : Json) : Except String USys := do
  let id ← match j.getObjVal? "id" with
    | .ok .null => pure none
    | .ok v => do pure (some (← symOfJson v))
    | .error _ => throw "missing field id"
  let mapping ← (← getArr j "mapping").toList.mapM decPair
  pure ⟨id, ← getSym j "caption", mapping, ← getBool j "read_only"⟩

def decObj (j : Json) : Except String Obj := do
  let c ← getStr j "c"
  match c with
  | "quantity" => pure (.quantity (← decQty (← getObj j "q")))
  | "scalar" => pure (.scalar (← getRat j "value") (← decQty (← getObj j "q")))
  | "array" | "fixedarray" => pure (.arr (← decArr j))
  | "fscalar" => pure (.fscalar (← decFVal j) (← decQty (← getObj j "q")))
  | "fvalue" => pure (.fvalue (← decFVal j))
  | "fraction" => pure (.fraction (← getRat j "x"))
  | "curve" => pure (.curve (← decArr (← getObj j "image")) (← decArr (← getObj j "domain")))
  | "usys" => pure (.usys (← decUSys j))
  | "none" => pure .none
  | "str" => pure (.str (← getSym j "s"))
  | "num" => pure (.num (← getRat j "q"))
  | "tuple" => pure (.tuple (← decRats j "xs"))
  | "list" => pure (.list (← decRats j "xs"))
  | _ => throw s!"unknown class {c}"

def natOfJson (j : Json) : Except String Nat :=
  match j with
  | .num n => if n.exponent = 0 && 0 ≤ n.mantissa then .ok n.mantissa.toNat else .error "natural number expected"
  | _ => .error "natural number expected"

def decPObj (j : Json) : Except String PObj := do
  let o ← decObj (← getObj j "t")
  pure ⟨o, ← natOfJson (← getObj j "oid"), ← natOfJson (← getObj j "qid")⟩

/-- `[0,i]` hash, `[1,i,j]` comparison, `[2,i,j]` arithmetic, `[3,i]` conversion / copy / pickle / str -/
def decStirOp (j : Json) : Except String StirOp :=
  match j with
  | .arr #[k, i] => do
    match (← natOfJson k) with
    | 0 => pure (.hash (← natOfJson i))
    | 3 => pure (.read (← natOfJson i))
    | _ => throw "unknown unary stir operation"
  | .arr #[k, i, i2] => do
    match (← natOfJson k) with
    | 1 => pure (.cmp (← natOfJson i) (← natOfJson i2))
    | 2 => pure (.arith (← natOfJson i) (← natOfJson i2))
    | _ => throw "unknown binary stir operation"
  | _ => .error "stir operation expected"

def decQuery (j : Json) : Except String (Nat × Nat) :=
  match j with
  | .arr #[i, i2] => do pure (← natOfJson i, ← natOfJson i2)
  | _ => .error "query pair expected"

def resJ (r : Except ErrKind Bool) : Json :=
  match r with
  | .ok b => .bool b
  | .error e => errJ e

/-- one character per error kind (`runtime` is `n`, the others their initial) -/
def errC (e : ErrKind) : Char :=
  match e.name with
  | "runtime" => 'n'
  | "validation" => 'd'
  | s => s.front

def resC (r : Except ErrKind Bool) : Char :=
  match r with
  | .ok true => 'T'
  | .ok false => 'F'
  | .error e => errC e

def hashC (r : Except ErrKind HKey) : Char :=
  match r with
  | .ok _ => 'h'
  | .error e => errC e

/-- run-length form of a sequence of answers: `TFhh1*3,FThh0,…` -/
structure Rle where
  out : String
  last : String
  n : Nat

def Rle.flush (r : Rle) : String :=
  if r.n == 0 then r.out
  else r.out ++ (if r.out.isEmpty then "" else ",") ++ r.last ++ (if r.n == 1 then "" else s!"*{r.n}")

def Rle.push (r : Rle) (g : String) : Rle :=
  if r.n > 0 && r.last == g then { r with n := r.n + 1 } else ⟨r.flush, g, 1⟩

def hashJ (r : Except ErrKind HKey) : Json :=
  match r with
  | .ok _ => .str "ok"
  | .error e => .str e.name

/-- magnitude of the intermediate quantities of `SimpleQ.convertScalarValue`, in the target unit -/
def magConv (db : Db) (q : SimpleQ) (x : Rat) (toU : Sym) : Rat :=
  if q.unit == toU then absR x else
  match db.getInfo q.qtype toU true with
  | .error _ => absR x
  | .ok b =>
    let a := q.row
    let base := a.toBase.eval x
    let s := if b.fromBase.r = 0 then 0 else absR (b.fromBase.q / b.fromBase.r)
    let m1 := if a.toBase.r = 0 then 0 else s * ((absR a.toBase.p + absR (a.toBase.q * x)) / absR a.toBase.r)
    let m2 := if b.fromBase.r = 0 then 0 else (absR b.fromBase.p + absR (b.fromBase.q * base)) / absR b.fromBase.r
    maxR m1 m2

def decSimpleQ (db : Db) (j : Json) : Except String SimpleQ := do
  match db.simpleQuantity (← getSym j "cat") (← getSym j "unit") with
  | .ok q => pure q
  | .error e => throw s!"the model cannot build the quantity: {e.name}"

/-- an ordered operand: `{cls, q: {k: simple, cat, unit} | {k: empty}, value | number, frac}` -/
def decOperand (db : Db) (jo : Json) : Except String Operand := do
  let jq ← getObj jo "q"
  let q ← match (← getStr jq "k") with
    | "simple" => do pure (OrdQ.simple (← decSimpleQ db jq))
    | "empty" => pure OrdQ.empty
    | k => throw s!"unknown quantity kind {k}"
  match (← getStr jo "cls") with
  | "scalar" => pure (Operand.sc (← getRat jo "value") q)
  | "fscalar" => pure (Operand.fsc (← decFVal jo) q)
  | c => throw s!"unknown cls {c}"

def decOp (n : Nat) : Except String Op :=
  match n with
  | 0 => .ok .lt
  | 1 => .ok .le
  | 2 => .ok .gt
  | 3 => .ok .ge
  | _ => .error "unknown order operator"

/-- `[0,i]` float, `[1,i]` str/repr, `[2,i,"unit"]` GetValue(unit), `[3,op,i,j]` order, `[4,i,j]` ==/!=, `[5,i]` hash,
`[6,i,j]` arithmetic, `[7,i]` copy -/
def decOStirOp (j : Json) : Except String OStirOp :=
  match j with
  | .arr #[k, i] => do
    match (← natOfJson k) with
    | 0 => pure (.float (← natOfJson i))
    | 1 => pure (.show (← natOfJson i))
    | 5 => pure (.hash (← natOfJson i))
    | 7 => pure (.copy (← natOfJson i))
    | _ => throw "unknown unary operation of an order history"
  | .arr #[k, i, x] => do
    match (← natOfJson k) with
    | 2 => pure (.getValue (← natOfJson i) (← symOfJson x))
    | 4 => pure (.eq (← natOfJson i) (← natOfJson x))
    | 6 => pure (.arith (← natOfJson i) (← natOfJson x))
    | _ => throw "unknown binary operation of an order history"
  | .arr #[k, o, i, i2] => do
    match (← natOfJson k) with
    | 3 => pure (.order (← decOp (← natOfJson o)) (← natOfJson i) (← natOfJson i2))
    | _ => throw "unknown operation of an order history"
  | _ => .error "operation of an order history expected"

/-- magnitude of the operand's own parts -/
def ownMag : Operand → Rat
  | .sc v _ => absR v
  | .fsc v _ => absR v.number + absR v.frac

/-- magnitude of the intermediate quantities of `Operand.valueIn` -/
def magOperand (db : Db) (o : Operand) (toU : Sym) : Rat :=
  match o with
  | .sc v (.simple q) => magConv db q v toU
  | .sc v .empty => absR v
  | .fsc v (.simple q) =>
    absR v.number + absR v.frac + magConv db q v.number toU
      + (magConv db q (v.frac.num : Rat) toU + magConv db q 0 toU) / (v.frac.den : Rat)
  | .fsc _ .empty => 0

/-- the two compared amounts are within `tol * M` of each other: the float verdict is not the model's to predict -/
def nearPair (db : Db) (small tol : Rat) (s : OSession) (i j : Nat) : Bool :=
  match s.pool[i]?, s.pool[j]? with
  | some a, some b =>
    -- identically built operands (twins, copies): the same float operations on both sides, the tie is exact
    if a == b then false else
    match b.valueIn db small a.q.unit with
    | .ok v2 => decide (absR (a.own - v2) ≤ tol * (ownMag a + absR v2 + magOperand db b a.q.unit))
    | .error _ => false
  | _, _ => false

def boolC (b : Bool) : Char := if b then '1' else '0'

def ordJ (f : Op → Except ErrKind Bool) : Json :=
  match f .lt, f .le, f .gt, f .ge with
  | .ok a, .ok b, .ok c, .ok d => Json.mkObj [("lt", .bool a), ("le", .bool b), ("gt", .bool c), ("ge", .bool d)]
  | .error e, _, _, _ => errJ e
  | _, .error e, _, _ => errJ e
  | _, _, .error e, _ => errJ e
  | _, _, _, .error e => errJ e

def handle (j : Json) : Except String Json := do
  let op ← getStr j "op"
  match op with
  | "order" =>
    let db ← dbOf (← getStr j "db")
    let small ← getRat j "small"
    let ja ← getObj j "a"
    let jb ← getObj j "b"
    let qa ← decSimpleQ db ja
    let qb ← decSimpleQ db jb
    match (← getStr j "cls") with
    | "scalar" =>
      let a : Sc := ⟨← getRat ja "value", qa⟩
      let b : Sc := ⟨← getRat jb "value", qb⟩
      let base := [("eq", resJ (pyEq small a.toObj b.toObj false)), ("ne", resJ (pyNe small a.toObj b.toObj false)),
                   ("ord", ordJ (fun o => a.order db o b))]
      match a.valuesToCompare db b with
      | .ok (v1, v2) =>
        let m := maxR (maxR (absR v1) (absR v2)) (magConv db b.q b.v a.q.unit)
        pure (Json.mkObj [("ok", Json.mkObj (base ++ [("v1", ratJ v1), ("v2", ratJ v2), ("M", ratJ m)]))])
      | .error _ => pure (Json.mkObj [("ok", Json.mkObj base)])
    | "fscalar" =>
      let a : FSc := ⟨← decFVal ja, qa⟩
      let b : FSc := ⟨← decFVal jb, qb⟩
      let base := [("eq", resJ (pyEq small a.toObj b.toObj false)), ("ne", resJ (pyNe small a.toObj b.toObj false)),
                   ("ord", ordJ (fun o => a.order db small o b))]
      match a.valuesToCompare db small b with
      | .ok (v1, v2) =>
        let u := a.q.unit
        let m := absR a.v.number + absR a.v.frac + absR v2 + magConv db b.q b.v.number u
          + (magConv db b.q (b.v.frac.num : Rat) u + magConv db b.q 0 u) / (b.v.frac.den : Rat)
        pure (Json.mkObj [("ok", Json.mkObj (base ++ [("v1", ratJ v1), ("v2", ratJ v2), ("M", ratJ m)]))])
      | .error _ => pure (Json.mkObj [("ok", Json.mkObj base)])
    | c => throw s!"unknown cls {c}"
  | "eqpair" =>
    let small ← getRat j "small"
    let a ← decObj (← getObj j "a")
    let b ← decObj (← getObj j "b")
    let same ← getBool j "same"
    let ha := pyHash a
    let hb := pyHash b
    let hkeq := match ha, hb with
      | .ok x, .ok y => x == y
      | _, _ => false
    pure (Json.mkObj [("ok", Json.mkObj [("eq", resJ (pyEq small a b same)), ("ne", resJ (pyNe small a b same)),
      ("ha", hashJ ha), ("hb", hashJ hb), ("hkeq", .bool hkeq)])])
  | "fracord" =>
    let small ← getRat j "small"
    let x ← getRat j "x"
    let b ← decObj (← getObj j "b")
    let left ← match (← getStr j "side") with
      | "L" => pure true
      | "R" => pure false
      | s => throw s!"unknown side {s}"
    let fields := [("lt", resJ (fractionOrder small x .lt left b)), ("le", resJ (fractionOrder small x .le left b)),
                   ("gt", resJ (fractionOrder small x .gt left b)), ("ge", resJ (fractionOrder small x .ge left b))]
    let fo := match b with
      | .num q => [("fo", ratJ (fractionOfNumber small q))]
      | _ => []
    pure (Json.mkObj [("ok", Json.mkObj (fields ++ fo))])
  | "xorder" =>
    -- any two operands: Scalar/FractionScalar on a simple (table, `<unknown>` included) or the empty quantity
    let db ← dbOf (← getStr j "db")
    let small ← getRat j "small"
    let a ← decOperand db (← getObj j "a")
    let b ← decOperand db (← getObj j "b")
    pure (Json.mkObj [("ok", Json.mkObj [("ord", ordJ (fun o => a.order db small o b))])])
  | "stir" =>
    -- a pool of objects with identities, a history of operations, then comparisons of pooled objects
    let small ← getRat j "small"
    let pool ← (← getArr j "pool").toList.mapM decPObj
    let ops ← (← getArr j "script").toList.mapM decStirOp
    let queries ← (← getArr j "queries").toList.mapM decQuery
    let s := (Session.fresh pool).run ops
    let (_, rle) := queries.foldl (fun (acc : Session × Rle) q =>
      let (s, out) := acc
      let (ha, s1) := s.hash q.1
      let (hb, s2) := s1.hash q.2
      let hkeq := match ha, hb with
        | .ok x, .ok y => if x == y then '1' else '0'
        | _, _ => '-'
      (s2, out.push (String.ofList [resC (s2.eq small q.1 q.2), resC (s2.ne small q.1 q.2), hashC ha, hashC hb, hkeq])))
      (s, ⟨"", "", 0⟩)
    pure (Json.mkObj [("ok", Json.mkObj [("wf", .bool (poolWF pool)), ("memo", .num s.memo.length),
      ("pool_kept", .bool (s.pool == pool)), ("codes", .str rle.flush)])])
  | "ostir" =>
    -- a pool of ordered operands, a history (reads, shows, conversions, comparisons, copies), then the four order
    -- operators on pairs of the grown pool; the comparisons of the history are answered too
    let db ← dbOf (← getStr j "db")
    let small ← getRat j "small"
    let tol ← getRat j "tol"
    let pool ← (← getArr j "pool").toList.mapM (decOperand db)
    let ops ← (← getArr j "script").toList.mapM decOStirOp
    let queries ← (← getArr j "queries").toList.mapM decQuery
    let s0 : OSession := ⟨pool⟩
    let (_, hist) := ops.foldl (fun (acc : OSession × String) op =>
      let (s, out) := acc
      let out := match op with
        | .order o i i2 => out ++ String.ofList [resC (s.order db small o i i2), boolC (nearPair db small tol s i i2)]
        | _ => out
      (s.step op, out)) (s0, "")
    let s := s0.run ops
    let rle := queries.foldl (fun (out : Rle) q =>
      out.push (String.ofList [resC (s.order db small .lt q.1 q.2), resC (s.order db small .le q.1 q.2),
        resC (s.order db small .gt q.1 q.2), resC (s.order db small .ge q.1 q.2), boolC (nearPair db small tol s q.1 q.2)]))
      ⟨"", "", 0⟩
    pure (Json.mkObj [("ok", Json.mkObj [("n", .num s.pool.length), ("hist", .str hist), ("codes", .str rle.flush)])])
  | "basehash" =>
    -- `AbstractValueWithQuantityObject.__hash__(o)` called explicitly
    let o ← decObj (← getObj j "a")
    pure (Json.mkObj [("ok", Json.mkObj [("h", hashJ (absBaseHash o)), ("slot_raises", .bool (o.cls.hashSlot == .raises))])])
  | "badrows" =>
    -- rows of the database that are not well-formed (the hypothesis `AllWF` of the order theorems)
    let db ← dbOf (← getStr j "db")
    let bad := db.units.filter (fun r => !r.wf)
    pure (Json.mkObj [("rows", Json.arr (bad.map (fun r => symJ r.sym)).toArray)])
  | "fracof" =>
    let small ← getRat j "small"
    let q ← getRat j "q"
    pure (Json.mkObj [("ok", ratJ (fractionOfNumber small q))])
  | _ => throw s!"unknown op {op}"

def step (j : Json) : Json :=
  match handle j with
  | .ok r => r
  | .error e => Json.mkObj [("bad", .str e)]

def main : IO Unit := do
  loop (← IO.getStdin) (← IO.getStdout) step
