/- line-protocol driver of the heap model (`Barril/Model/Heap.lean`), property C13 -/
import Barril.Model.Proto
import Barril.Model.Heap
import Barril.Gen.Dbs
open Lean Barril Barril.Proto Barril.Heap

def absR (q : Rat) : Rat := if q < 0 then -q else q
def maxR (a b : Rat) : Rat := if a < b then b else a
def maxL (xs : List Rat) : Rat := xs.foldl (fun m x => maxR m (absR x)) 0

def getSymOpt (j : Json) (k : String) : Except String (Option Sym) :=
  match j.getObjVal? k with
  | .ok (.str s) => match s.toNat? with
    | some n => .ok (some n)
    | none => .error s!"field {k} is not a symbol code"
  | .ok .null => .ok none
  | .ok _ => .error s!"field {k} is not a symbol code"
  | .error _ => .ok none

def getNat (j : Json) (k : String) : Except String Nat := do
  let i ← getInt j k
  if i < 0 then throw s!"field {k} negative" else pure i.toNat

def parseKind (s : String) : Except String Kind :=
  match s with
  | "list" => pure .list | "tuple" => pure .tuple | "ndarray" => pure .ndarray
  | _ => throw s!"bad container kind {s}"

def getRats (j : Json) (k : String) : Except String (List Rat) := do
  let a ← getArr j k
  a.toList.mapM (fun x => match x with
    | .str s => match parseRat? s with
      | some q => pure q
      | none => throw s!"bad rational in {k}"
    | _ => throw s!"bad rational in {k}")

def parseOperand (j : Json) (k : String) : Except String Operand := do
  let o ← match j.getObjVal? k with
    | .ok o => pure o
    | .error _ => throw s!"missing operand {k}"
  match o.getObjVal? "i" with
  | .ok _ => pure (.obj (← getNat o "i"))
  | .error _ => pure (.num (← getRat o "n"))

def parseBin (s : String) : Except String BinOp :=
  match s with
  | "add" => pure .add | "sub" => pure .sub | "mul" => pure .mul | "div" => pure .div
  | "floordiv" => pure .floordiv
  | _ => throw s!"bad operator {s}"

def parseOp (j : Json) : Except String Op := do
  let k ← getStr j "k"
  match k with
  | "mkScalar" => pure (.mkScalar (← getRat j "v") (← getSym j "u") (← getSym j "c"))
  | "mkEmptyScalar" => pure (.mkEmptyScalar (← getRat j "v"))
  | "mkCaptionScalar" => pure (.mkCaptionScalar (← getRat j "v") (← getSym j "u") (← getSym j "cap"))
  | "mkArray" => pure (.mkArray (← parseKind (← getStr j "kind")) (← getRats j "xs") (← getSym j "u") (← getSym j "c"))
  | "mkArrayFrom" => pure (.mkArrayFrom (← getNat j "i") (← getSym j "u") (← getSym j "c"))
  | "mkEmptyArray" => pure (.mkEmptyArray (← parseKind (← getStr j "kind")) (← getRats j "xs"))
  | "mkFixed" => pure (.mkFixed (← getNat j "dim") (← parseKind (← getStr j "kind")) (← getRats j "xs")
      (← getSym j "u") (← getSym j "c"))
  | "mkFScalar" => pure (.mkFScalar (← getRat j "n") (← getInt j "num") (← getNat j "den") (← getSym j "u") (← getSym j "c"))
  | "mkDerived" =>
    let cls ← match (← getStr j "cls") with
      | "scalar" => pure Cls.scalar | "array" => pure Cls.array | "fixed" => pure Cls.fixed
      | c => throw s!"bad class {c}"
    let arr ← getArr j "items"
    let items ← arr.toList.mapM (fun (t : Json) => match t with
      | .arr #[.str c, .str u, e] => match c.toNat?, u.toNat?, e.getInt? with
        | some c, some u, .ok e => pure ((c, u, e) : Sym × Sym × Int)
        | _, _, _ => throw "bad item"
      | _ => throw "bad item")
    pure (.mkDerived cls items (← getRat j "v") (← parseKind (← getStr j "kind")) (← getRats j "xs"))
  | "arith" => pure (.arith (← parseBin (← getStr j "f")) (← parseOperand j "a") (← parseOperand j "b"))
  | "pow" => pure (.pow (← getNat j "i") (← getInt j "e"))
  | "eq" => pure (.eq (← getNat j "i") (← getNat j "j"))
  | "lt" => pure (.lt (← getNat j "i") (← getNat j "j"))
  | "getValue" => pure (.getValue (← getNat j "i") (← getSymOpt j "u"))
  | "createCopy" => pure (.createCopy (← getNat j "i") (← getSymOpt j "u") (← getSymOpt j "c"))
  | "copy" => pure (.copy (← getNat j "i"))
  | "pickle" => pure (.pickle (← getNat j "i"))
  | "isValid" => pure (.isValid (← getNat j "i"))
  | "checkValidity" => pure (.checkValidity (← getNat j "i"))
  | "validateWith" =>
    let src ← match j.getObjVal? "src" with
      | .ok o => pure o
      | .error _ => throw "missing src"
    let vals ← (match src.getObjVal? "j", src.getObjVal? "kind" with
      | .ok _, _ => do pure (ValSrc.member (← getNat src "j"))
      | _, .ok _ => do pure (ValSrc.literal (← parseKind (← getStr src "kind")) (← getRats src "xs"))
      | _, _ => pure ValSrc.own : Except String ValSrc)
    let qk ← (match j.getObjVal? "qk" with
      | .ok (.num _) => do pure (some (← getNat j "qk"))
      | _ => pure none : Except String (Option Nat))
    pure (.validateWith (← getNat j "i") vals qk)
  | "scribble" =>
    let how ← match (← getStr j "how") with
      | "edit" => pure Scribble.edit | "append" => pure Scribble.append | "clear" => pure Scribble.clear
      | h => throw s!"bad scribble {h}"
    pure (.scribble (← getNat j "i") (← getSymOpt j "u") how)
  | "format" => pure (.format (← getNat j "i"))
  | "changingIndex" => pure (.changingIndex (← getNat j "i") (← getInt j "idx") (← parseOperand j "v") (← getBool j "uvu"))
  | "indexAsScalar" => pure (.indexAsScalar (← getNat j "i") (← getInt j "idx"))
  | _ => throw s!"unknown op kind {k}"

def kindStr : Kind → String
  | .list => "list" | .tuple => "tuple" | .ndarray => "ndarray"

def itemsJ (l : List (Sym × Sym × Int)) : Json :=
  Json.arr (l.map (fun t => Json.arr #[symJ t.1, symJ t.2.1, Json.num (JsonNumber.fromInt t.2.2)])).toArray

def qsnapJ (q : QSnap) : List (String × Json) :=
  [("items", itemsJ q.items), ("comp", itemsJ q.comp), ("cap", symJ q.caption), ("derived", .bool q.derived),
   ("unit", symJ (unitOfComp q.derived q.comp))]

/-- first pool member that holds the same container / FractionValue object -/
def aliasOf (s : St) (r : Ref) : Nat :=
  let rec go (l : List Obj) (i : Nat) : Nat :=
    match l with
    | [] => i
    | o :: rest =>
      let same := match o with
        | .array _ c => c == r
        | .fixed _ _ c => c == r
        | .fscalar _ v => v == r
        | _ => false
      if same then i else go rest (i + 1)
  go s.objs 0

def ratsJ (xs : List Rat) : Json := Json.arr (xs.map ratJ).toArray

def snapJ (s : St) : Option Snap → Json
  | none => Json.mkObj [("cls", .str "dangling")]
  | some (.scalar q v) => Json.mkObj ([("cls", .str "scalar"), ("v", ratJ v)] ++ qsnapJ q)
  | some (.array q c k xs) =>
    Json.mkObj ([("cls", .str "array"), ("kind", .str (kindStr k)), ("xs", ratsJ xs), ("alias", toJson (aliasOf s c))] ++ qsnapJ q)
  | some (.fixed d q c k xs) =>
    Json.mkObj ([("cls", .str "fixed"), ("dim", toJson d), ("kind", .str (kindStr k)), ("xs", ratsJ xs),
      ("alias", toJson (aliasOf s c))] ++ qsnapJ q)
  | some (.fscalar q v n _ x) =>
    Json.mkObj ([("cls", .str "fscalar"), ("n", ratJ n), ("x", ratJ x), ("alias", toJson (aliasOf s v))] ++ qsnapJ q)

def magSnap : Option Snap → Rat
  | some (.scalar _ v) => absR v
  | some (.array _ _ _ xs) => maxL xs
  | some (.fixed _ _ _ _ xs) => maxL xs
  | some (.fscalar _ _ n _ x) => maxR (absR n) (absR x)
  | none => 0

def operandMag (s : St) : Operand → Rat
  | .num k => absR k
  | .obj i => magSnap (snap s i)

def opMag (s : St) : Op → Rat
  | .mkScalar v .. => absR v
  | .mkEmptyScalar v => absR v
  | .mkCaptionScalar v .. => absR v
  | .mkArray _ xs .. => maxL xs
  | .mkEmptyArray _ xs => maxL xs
  | .mkFixed _ _ xs .. => maxL xs
  | .mkFScalar n a b .. => maxR (absR n) (absR (mkRat a b))
  | .mkDerived _ _ v _ xs => maxR (absR v) (maxL xs)
  | .mkArrayFrom i .. => magSnap (snap s i)
  | .arith _ a b => maxR (operandMag s a) (operandMag s b)
  | .pow i _ => magSnap (snap s i)
  | .eq i j => maxR (magSnap (snap s i)) (magSnap (snap s j))
  | .lt i j => maxR (magSnap (snap s i)) (magSnap (snap s j))
  | .getValue i _ => magSnap (snap s i)
  | .createCopy i .. => magSnap (snap s i)
  | .copy i => magSnap (snap s i)
  | .pickle i => magSnap (snap s i)
  | .isValid i => magSnap (snap s i)
  | .checkValidity i => magSnap (snap s i)
  | .validateWith i .. => magSnap (snap s i)
  | .scribble i .. => magSnap (snap s i)
  | .format i => magSnap (snap s i)
  | .changingIndex i _ v _ => maxR (magSnap (snap s i)) (operandMag s v)
  | .indexAsScalar i _ => magSnap (snap s i)

def outJ (s : St) : Out → Json × Rat
  | .obj i fresh =>
    (Json.mkObj [("t", .str "obj"), ("i", toJson i), ("fresh", .bool fresh), ("snap", snapJ s (snap s i))], magSnap (snap s i))
  | .num x => (Json.mkObj [("t", .str "num"), ("x", ratJ x)], absR x)
  | .cont r shared =>
    match s.heap[r]? with
    | some (.seq k xs) =>
      (Json.mkObj [("t", .str "cont"), ("shared", .bool shared), ("kind", .str (kindStr k)), ("xs", ratsJ xs)], maxL xs)
    | _ => (Json.mkObj [("t", .str "dangling")], 0)
  | .fval r shared =>
    match s.heap[r]? with
    | some (.fv n f) =>
      match s.heap[f]? with
      | some (.frac x) =>
        (Json.mkObj [("t", .str "fval"), ("shared", .bool shared), ("n", ratJ n), ("x", ratJ x)], maxR (absR n) (absR x))
      | _ => (Json.mkObj [("t", .str "dangling")], 0)
    | _ => (Json.mkObj [("t", .str "dangling")], 0)
  | .bool b => (Json.mkObj [("t", .str "bool"), ("b", .bool b)], 0)
  | .unit => (Json.mkObj [("t", .str "unit")], 0)
  | .raised e => (Json.mkObj [("t", .str "raised"), ("e", .str e.name)], 0)

/-- pool members whose snapshot after the step differs from the one before -/
def changedIdx (s s' : St) : List Nat :=
  (List.range s.objs.length).filter (fun i => snap s i != snap s' i)

def runOps (db : Db) : St → List Op → List Json × St
  | s, [] => ([], s)
  | s, op :: ops =>
    let r := step db s op
    let m0 := opMag s op
    let j := match r.2 with
      | .error e => Json.mkObj [("err", .str e.name), ("changed", toJson (changedIdx s r.1))]
      | .ok (.raised e) => Json.mkObj [("err", .str e.name), ("changed", toJson (changedIdx s r.1))]
      | .ok o =>
        let (oj, m) := outJ r.1 o
        Json.mkObj [("ok", oj), ("M", ratJ (maxR m0 m)), ("changed", toJson (changedIdx s r.1))]
    let rest := runOps db r.1 ops
    (j :: rest.1, rest.2)

def getRatOpt (j : Json) (k : String) : Except String (Option Rat) :=
  match j.getObjVal? k with
  | .ok (.str s) => match parseRat? s with
    | some q => .ok (some q)
    | none => .error s!"field {k} is not a rational"
  | _ => .ok none

/-- a category registered on top of POSC by the harness (`AddCategory(name, qtype, default_unit=…, limits)`) -/
def parseCat (j : Json) : Except String CatRow := do
  pure { name := ← getSym j "name", qtype := ← getSym j "qtype", validUnits := none,
         defaultUnit := ← getSym j "unit", defaultValue := ← getRat j "default",
         minV := ← getRatOpt j "min", maxV := ← getRatOpt j "max", minExcl := ← getBool j "minExcl",
         maxExcl := ← getBool j "maxExcl", caption := ← getSym j "name" }

def dbWith (j : Json) : Except String Db := do
  match j.getObjVal? "cats" with
  | .ok (.arr a) =>
    let extra ← a.toList.mapM parseCat
    pure { Gen.poscDb with cats := Gen.poscDb.cats ++ extra }
  | _ => pure Gen.poscDb

def getRatsNaN (j : Json) (k : String) : Except String (List (Option Rat)) := do
  let a ← getArr j k
  a.toList.mapM (fun x => match x with
    | .str "nan" => pure none
    | .str s => match parseRat? s with
      | some q => pure (some q)
      | none => throw s!"bad rational in {k}"
    | _ => throw s!"bad rational in {k}")

def handle (j : Json) : Except String Json := do
  let op ← getStr j "op"
  match op with
  | "validate" =>
    let db ← dbWith j
    match validateNaN db (← getSym j "c") (← getSym j "u") (← getRatsNaN j "xs") with
    | .ok _ => pure (Json.mkObj [("ok", .bool true)])
    | .error e => pure (errJ e)
  | "history" =>
    let db ← dbWith j
    let ops ← getArr j "ops"
    let ops ← ops.toList.mapM parseOp
    let r := runOps db St.empty ops
    let pool := (List.range r.2.objs.length).map (fun i => snapJ r.2 (snap r.2 i))
    pure (Json.mkObj [("outs", Json.arr r.1.toArray), ("pool", Json.arr pool.toArray),
      ("cells", toJson r.2.heap.length), ("quants", toJson r.2.quants.length)])
  | _ => throw s!"unknown op {op}"

def step' (j : Json) : Json :=
  match handle j with
  | .ok r => r
  | .error e => Json.mkObj [("bad", .str e)]

def main : IO Unit := do
  loop (← IO.getStdin) (← IO.getStdout) step'
