/- line-protocol driver of the `Compound` engine (C06): the rule's reading and judgement of table rows -/
import Barril.Model.Proto
import Barril.Model.Compound
import Barril.Gen.PoscCompact
import Barril.Gen.KnownBad
open Lean Barril Barril.Proto

def poscLook (s : Sym) : Option CRow := lookL s Gen.poscC
def poscBase (q : Sym) : Option CRow := baseL q Gen.poscC

def factorJ (f : Factor) : Json :=
  Json.arr #[symJ f.unit.sym, Json.num (f.exp : Int), Json.num (f.pre : Int)]

def readingJ : Option Reading → Json
  | none => Json.null
  | some (.compound a b) =>
    Json.mkObj [("kind", .str "compound"), ("num", Json.arr (a.map factorJ).toArray), ("den", Json.arr (b.map factorJ).toArray)]
  | some (.si b ex) => Json.mkObj [("kind", .str "si"), ("base", symJ b.sym), ("ex", Json.num ex)]

/-- everything the rule says about one row -/
def rowJ (look base : Sym → Option CRow) (c : CRow) : Json :=
  let rd := reading look c
  let bf := baseFactor look base c
  let ex := match rd with
    | some r => expected r
    | none => none
  Json.mkObj [
    ("sym", symJ c.sym), ("slope", ratJ c.slope), ("prec", ratJ c.prec),
    ("reading", readingJ rd),
    ("expected", match ex with | some (e, _) => ratJ e | none => Json.null),
    ("tol", match ex, bf with | some (_, t), some (_, bt) => ratJ (c.prec + t + bt) | _, _ => Json.null),
    ("base_expected", match bf with | some (be, _) => ratJ be | none => Json.null),
    ("ok", .bool (compoundOk look base c)),
    ("known", .bool (Gen.c06KnownBad.contains c.sym))]

def getBytes (j : Json) (k : String) : Except String (List Nat) := do
  let a ← getArr j k
  a.toList.mapM (fun x => match x with
    | .num n => if n.exponent = 0 && 0 ≤ n.mantissa then .ok n.mantissa.toNat else .error "bad byte"
    | _ => .error "bad byte")

def handle (j : Json) : Except String Json := do
  let op ← getStr j "op"
  match op with
  | "row" =>
    -- the judgement of the registered row with this symbol
    let s ← getSym j "sym"
    match poscLook s with
    | some c => pure (Json.mkObj [("ok", rowJ poscLook poscBase c)])
    | none => pure (errJ .key)
  | "parse" =>
    -- the grammar applied to an arbitrary byte string (registered symbols = the default table)
    let bs ← getBytes j "bytes"
    match decompose poscLook bs with
    | some (a, b) => pure (Json.mkObj [("ok", readingJ (some (.compound a b)))])
    | none => pure (Json.mkObj [("ok", Json.null)])
  | "badrows" =>
    let bad := Gen.poscC.filter (fun c => !(compoundOkOrKnown Gen.poscC Gen.c06KnownBad c))
    pure (Json.mkObj [("rows", Json.arr (bad.map (fun c => symJ c.sym)).toArray)])
  | "summary" =>
    let cov := Gen.poscC.filter (covered poscLook)
    let comp := Gen.poscC.filter (isCompound poscLook)
    let bad := Gen.poscC.filter (fun c => !(compoundOk poscLook poscBase c))
    pure (Json.mkObj [("rows", Json.num (Gen.poscC.length : Int)), ("covered", Json.num (cov.length : Int)),
      ("compound", Json.num (comp.length : Int)), ("failing", Json.arr (bad.map (fun c => symJ c.sym)).toArray)])
  | _ => throw s!"unknown op {op}"

def step (j : Json) : Json :=
  match handle j with
  | .ok r => r
  | .error e => Json.mkObj [("bad", .str e)]

def main : IO Unit := do
  loop (← IO.getStdin) (← IO.getStdout) step
