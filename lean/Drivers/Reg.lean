/- line-protocol driver of the registry engine (`Barril/Model/Reg.lean`, `RegCache.lean`): C14, C15 -/
import Barril.Model.Proto
import Barril.Model.RegCache
import Barril.Model.RegTable
import Barril.Model.StrRender
import Barril.Model.Ctor
import Barril.Gen.Dbs
open Lean Barril Barril.Proto Barril.Reg

def lg : List (Sym × Sym) := Barril.Gen.legacyList

def absR (q : Rat) : Rat := if q < 0 then -q else q
def maxR (a b : Rat) : Rat := if a < b then b else a

/-! ### decoding -/

def getSArg (j : Json) (k : String) : Except String SArg := do
  let s ← getStr j k
  if s == "n" then pure .none
  else if s == "b" then pure .bad
  else match (s.drop 1).toString.toNat? with
    | some n => if s.startsWith "s" then pure (.str n) else throw s!"bad string argument {s}"
    | none => throw s!"bad string argument {s}"

def optField (j : Json) (k : String) : Option Json :=
  match j.getObjVal? k with
  | .ok .null => none
  | .ok v => some v
  | .error _ => none

def jSym (v : Json) : Except String Sym :=
  match v with
  | .str s => match s.toNat? with
    | some n => pure n
    | none => throw s!"not a symbol code: {s}"
  | _ => throw "symbol code expected"

def jRat (v : Json) : Except String Rat :=
  match v with
  | .str s => match parseRat? s with
    | some q => pure q
    | none => throw s!"not a rational: {s}"
  | _ => throw "rational expected"

def getOptSym (j : Json) (k : String) : Except String (Option Sym) :=
  match optField j k with
  | none => pure none
  | some v => do pure (some (← jSym v))

def getOptRat (j : Json) (k : String) : Except String (Option Rat) :=
  match optField j k with
  | none => pure none
  | some v => do pure (some (← jRat v))

def getOptSyms (j : Json) (k : String) : Except String (Option (List Sym)) :=
  match optField j k with
  | none => pure none
  | some (.arr a) => do pure (some (← a.toList.mapM jSym))
  | some _ => throw s!"field {k}: list expected"

def getFormula (j : Json) (k : String) : Except String Formula :=
  match j.getObjVal? k with
  | .ok (.str "noX") => pure .noX
  | .ok (.str "syn") => pure .syntaxErr
  | .ok (.arr a) => do
    match ← a.toList.mapM jRat with
    | [p, q, r, s] => pure (.mob ⟨p, q, r, s⟩)
    | _ => throw s!"field {k}: four coefficients expected"
  | _ => throw s!"field {k}: formula expected"

def parseRegOp (j : Json) : Except String RegOp := do
  let k ← getStr j "k"
  match k with
  | "base" => pure (.addUnitBase (← getSArg j "qt") (← getSym j "name") (← getSArg j "unit"))
  | "unit" =>
    pure (.addUnit (← getSArg j "qt") (← getSym j "name") (← getSArg j "unit") (← getFormula j "fb")
      (← getFormula j "tb") (← getSym j "dc"))
  | "cat" =>
    let a : CatArgs := {
      category := ← getSArg j "c", qtype := ← getOptSym j "qt", validUnits := ← getOptSyms j "vu",
      override := ← getBool j "ov", defaultUnit := ← getOptSym j "du", defaultValue := ← getOptRat j "dv",
      minV := ← getOptRat j "min", maxV := ← getOptRat j "max", minExcl := ← getBool j "minx",
      maxExcl := ← getBool j "maxx", caption := ← getSym j "cap", fromCat := ← getOptSym j "from" }
    -- explicit `None` for is_min_exclusive / is_max_exclusive / caption (fields present only then)
    let flag := fun (k : String) => match j.getObjVal? k with | .ok (.bool b) => b | _ => false
    if flag "minxN" || flag "maxxN" || flag "capN" then
      pure (.addCategoryN a (flag "minxN") (flag "maxxN") (flag "capN"))
    else pure (.addCategory a)
  | _ => throw s!"unknown registration kind {k}"

def jEnt (v : Json) : Except String (Sym × Sym × Int) :=
  match v with
  | .arr #[c, u, .str e] => do
    match e.toInt? with
    | some n => pure (← jSym c, ← jSym u, n)
    | none => throw "exponent expected"
  | _ => throw "entry [category, unit, exponent] expected"

def getEnts (j : Json) : Except String (List (Sym × Sym × Int)) := do
  (← getArr j "ents").toList.mapM jEnt

def parseQuery (j : Json) : Except String Query := do
  let q ← getStr j "q"
  match q with
  | "check" => pure (.check (← getSym j "c") (← getSym j "u"))
  | "create" => pure (.create (← getSym j "c") (← getSym j "u"))
  | "createU" => pure (.createU (← getSym j "u"))
  | "createC" => pure (.createC (← getSym j "c"))
  | "convert" => pure (.convert (← getSym j "cq") (← getSym j "u") (← getSym j "v") (← getRat j "x"))
  | "objValidUnits" => pure (.objValidUnits (← getSym j "c") (← getSym j "u"))
  | "isValid" => pure (.isValid (← getSym j "c") (← getSym j "u") (← getRat j "x"))
  | "add" =>
    pure (.add (← getSym j "c1") (← getSym j "u1") (← getSym j "c2") (← getSym j "u2") (← getRat j "x")
      (← getRat j "y"))
  | "validUnits" => pure (.validUnits (← getSym j "c"))
  | "baseUnit" => pure (.baseUnit (← getSym j "qt"))
  | "units" => pure (.units (← getSym j "qt"))
  | "defaultCategory" => pure (.defaultCategory (← getSym j "u"))
  | "quantityType" => pure (.quantityType (← getSym j "u"))
  | "catInfo" => pure (.catInfo (← getSym j "c"))
  | "allUnits" => pure .allUnits
  | "allUnitNames" => pure .allUnitNames
  | "unitNames" => pure (.unitNames (← getSym j "qt"))
  | "quantityTypes" => pure .quantityTypes
  | "checkQuantityType" => pure (.checkQuantityType (← getSym j "qt"))
  | "categories" => pure .categories
  | "isValidCategory" => pure (.isValidCategory (← getSym j "c"))
  | "unitName" => pure (.unitName (← getSym j "qt") (← getSym j "u"))
  | "checkQtUnit" => pure (.checkQtUnit (← getSym j "qt") (← getSym j "u"))
  | "info" => pure (.info (← getSym j "qt") (← getSym j "u") (← getBool j "fu"))
  | "getValue" => pure (.getValue (← getSym j "c") (← getSym j "u") (← getSym j "v") (← getRat j "x"))
  | "mul" | "div" =>
    pure (.prod (if q == "mul" then .mul else .div) (← getSym j "c1") (← getSym j "u1") (← getSym j "c2")
      (← getSym j "u2") (← getRat j "x") (← getRat j "y"))
  | "sumd" =>
    let f ← getStr j "f"
    let e2 ← (← getArr j "ents2").toList.mapM jEnt
    pure (.sumd (if f == "add" then .add else .sub) (← getEnts j) e2 (← getRat j "x") (← getRat j "y"))
  | "defaultValue" => pure (.defaultValue (← getSym j "c"))
  | "defaultUnit" => pure (.defaultUnit (← getSym j "c"))
  | "findUnitCase" => pure (.findUnitCase (← getSym j "c") (← getSym j "u"))
  | "findSimilar" => pure (.findSimilar (← getSym j "u"))
  | "checkValueFor" => pure (.checkValueFor (← getSym j "c") (← getSym j "u") (← getRat j "x"))
  | "derived" => pure (.derived (← getEnts j))
  | "createDerived" => pure (.createDerived (← getEnts j))
  | _ => throw s!"unknown query {q}"

def parseCOp (j : Json) : Except String COp := do
  match j.getObjVal? "q" with
  | .ok _ => pure (.query (← parseQuery j))
  | .error _ => pure (.reg (← parseRegOp j))

/-- an arithmetic expression: `["s", c, u, x]`, `["u", u, x]`, `[op, a, b]` with op in mul/div/add/sub (fuel = nesting bound) -/
def parseVExpr : Nat → Json → Except String VExpr
  | 0, _ => throw "expression nested too deeply"
  | fuel + 1, j =>
    match j with
    | .arr #[.str "s", c, u, x] => do pure (.scalar (← jSym c) (← jSym u) (← jRat x))
    | .arr #[.str "u", u, x] => do pure (.scalarU (← jSym u) (← jRat x))
    | .arr #[.str op, a, b] => do
      let o ← match op with
        | "mul" => pure VBin.mul
        | "div" => pure VBin.div
        | "add" => pure VBin.add
        | "sub" => pure VBin.sub
        | _ => throw s!"unknown operator {op}"
      pure (.bin o (← parseVExpr fuel a) (← parseVExpr fuel b))
    | _ => throw "expression expected"

def parseXOp (j : Json) : Except String XOp := do
  match j.getObjVal? "q" with
  | .ok (.str "arith") => pure (.arith (← parseVExpr 64 (← j.getObjVal? "e")))
  | _ => pure (.base (← parseCOp j))

/-! ### encoding -/

def optJ {α : Type} (f : α → Json) : Option α → Json
  | none => .null
  | some a => f a

def symsJ (l : List Sym) : Json := Json.arr (l.map symJ).toArray

def catJ (ci : CatRow) : Json :=
  Json.arr #[symJ ci.name, symJ ci.qtype, optJ symsJ ci.validUnits, symJ ci.defaultUnit, ratJ ci.defaultValue,
    optJ ratJ ci.minV, optJ ratJ ci.maxV, .bool ci.minExcl, .bool ci.maxExcl, symJ ci.caption]

def points : List Rat := [1, 4, mkRat (-5) 2]

def evalJ (m : Mob) : Json :=
  Json.arr (points.map (fun x => match m.apply x with | .ok y => ratJ y | .error _ => Json.str "e")).toArray

def rowJ (w : UnitRow) : Json :=
  Json.arr #[symJ w.sym, symJ w.name, symJ w.defaultCat, symJ w.qtype, .bool w.hasConvTo, .bool w.hasConvFrom,
    evalJ w.toBase, evalJ w.fromBase]

def regJ (r : Registry) : Json :=
  Json.mkObj [
    ("types", Json.arr (r.types.map (fun t => Json.arr #[symJ t.1, Json.arr (t.2.map rowJ).toArray])).toArray),
    ("index", Json.arr (r.index.map (fun e => Json.arr #[symJ e.1, symJ e.2.sym, symJ e.2.qtype])).toArray),
    ("cats", Json.arr (r.cats.map catJ).toArray)]

def outJ : Except ErrKind Out → Json
  | .error e => errJ e
  | .ok .unit => Json.mkObj [("ok", .null)]
  | .ok (.cat ci) => Json.mkObj [("ok", catJ ci)]

/-- magnitude of the intermediates of a conversion (for the float comparison) -/
def convMag (r : Registry) (cq u _v : Sym) (x : Rat) : Rat :=
  match typeOf r cq with
  | .ok qt =>
    match getInfo lg r qt u true true with
    | .ok this => maxR (absR x) (absR (this.toBase.eval x))
    | .error _ => absR x
  | .error _ => absR x

def qMag (r : Registry) : Query → Rat
  | .convert cq u v x => convMag r cq u v x
  | .add _ _ c2 u2 x y =>
    let qt := match catGet r.cats c2 with | some ci => ci.qtype | none => c2
    maxR (absR x) (convMag r qt u2 u2 y)
  | .getValue c u _ x =>
    let qt := match catGet r.cats c with | some ci => ci.qtype | none => c
    convMag r qt u u x
  | .sumd _ e1 e2 x y =>
    -- the matched values (unit conversions inside and across the operands) bound the intermediates
    match matchList lg r (decide (1 < e1.length)) [] x e1 with
    | .ok (used, x', _) =>
      (match matchList lg r (decide (1 < e2.length)) used y e2 with
       | .ok (_, y', _) => maxR (maxR (maxR (absR x) (absR y)) (maxR (absR x') (absR y'))) 1000
       | .error _ => maxR (maxR (absR x) (absR y)) 1000)
    | .error _ => maxR (maxR (absR x) (absR y)) 1000
  | .prod _ _ _ c2 u2 x y =>
    let qt := match catGet r.cats c2 with | some ci => ci.qtype | none => c2
    maxR (absR x) (convMag r qt u2 u2 y)
  | _ => 0

/-- a derived (or simple) quantity: composing map, and the strings `GetUnit()`, `GetCategory()`,
`GetQuantityType()` rendered by the string engine (`Barril/Model/StrRender.lean`) -/
def descFields (d : DObj) : List (String × Json) :=
  [("ents", Json.arr (d.entries.map (fun e => Json.arr #[symJ e.1, symJ e.2.1, .str (toString e.2.2)])).toArray),
   ("unit", symJ (Sym.ofBytes (Barril.Str.renderUnit (Barril.Str.joinExps (d.entries.map (fun e => (Sym.bytes e.2.1, e.2.2))))))),
   ("category", symJ (Sym.ofBytes (Barril.Str.makeStr (d.entries.map (fun e => (Sym.bytes e.1, e.2.2)))))),
   ("qtype", symJ (Sym.ofBytes (Barril.Str.makeStr (d.qtypes.map (fun e => (Sym.bytes e.1, e.2))))))]

def ansJ (r : Registry) (q : Query) : Except ErrKind Ans → Json
  | .error e => errJ e
  | .ok .unit => Json.mkObj [("ok", .null)]
  | .ok (.quantity c u) => Json.mkObj [("ok", Json.mkObj [("cat", symJ c), ("unit", symJ u)])]
  | .ok (.qvalue c u x) =>
    Json.mkObj [("ok", Json.mkObj [("cat", symJ c), ("unit", symJ u), ("x", ratJ x),
      ("M", ratJ (maxR (qMag r q) (absR x)))])]
  | .ok (.number x) => Json.mkObj [("ok", Json.mkObj [("x", ratJ x), ("M", ratJ (maxR (qMag r q) (absR x)))])]
  | .ok (.syms l) => Json.mkObj [("ok", Json.mkObj [("l", symsJ l)])]
  | .ok (.sym s) => Json.mkObj [("ok", Json.mkObj [("s", symJ s)])]
  | .ok (.bool b) =>
    -- the converted value the verdict was computed from (for the near-tie rule of the harness)
    let y : Json := match q with
      | .isValid c u x =>
        (match (obtain lg (CState.fresh r) false c u).2 with
         | .ok o => (match convertScalarValue lg r o x o.info.defaultUnit with
                     | .ok y => ratJ y | .error _ => .null)
         | .error _ => .null)
      | _ => .null
    Json.mkObj [("ok", Json.mkObj [("b", .bool b), ("y", y)])]
  | .ok (.cat ci) => Json.mkObj [("ok", Json.mkObj [("ci", catJ ci)])]
  | .ok (.desc d) => Json.mkObj [("ok", Json.mkObj (descFields d))]
  | .ok (.descValue d x) =>
    Json.mkObj [("ok", Json.mkObj (descFields d ++ [("x", ratJ x), ("M", ratJ (maxR (qMag r q) (absR x)))]))]

def coutJ (r : Registry) (op : COp) : Except ErrKind COut → Json
  | .error e => errJ e
  | .ok (.reg o) => outJ (.ok o)
  | .ok (.ans a) =>
    match op with
    | .query q => ansJ r q (.ok a)
    | .reg _ => Json.null

/-! ### the two request kinds -/

def runReg : Registry → List RegOp → Registry × List Json
  | r, [] => (r, [])
  | r, op :: ops =>
    let (r1, o) := step lg r op
    let (r2, js) := runReg r1 ops
    (r2, outJ o :: js)

/-- per step: the outcome and whether the registry changed; at the end the state -/
def runC : CState → List COp → CState × List Json
  | s, [] => (s, [])
  | s, op :: ops =>
    let (s1, o) := cstep lg s op
    let j := coutJ s.reg op o
    let j := j.setObjVal! "changed" (.bool (decide (s1.reg ≠ s.reg)))
    let (s2, js) := runC s1 ops
    (s2, j :: js)

/-- the driver's stand-in for the uninterpreted arithmetic: it answers "what a database built from this registry
answers"; the harness evaluates that on the real code -/
def arU (_ : Registry) (_ : VExpr) : Unit := ()

def xoutJ (r : Registry) (op : XOp) : XOut Unit → Json
  | .val _ => Json.mkObj [("ok", Json.mkObj [("fresh", .bool true)])]
  | .base o =>
    match op with
    | .base cop => coutJ r cop o
    | .arith _ => Json.null

/-- the driver's stand-in for the uninterpreted failure detail (WHICH exception a failing query raises): it answers
"the class a database built from this registry raises"; the harness evaluates that on the real code -/
def edU (_ : Registry) (_ : Query) : Unit := ()

/-- the outcome of a step plus, for a failing query, the marker of the uninterpreted detail -/
def youtJ (r : Registry) (op : XOp) (o : XOut Unit × Option Unit) : Json :=
  match o.2 with
  | some _ => (xoutJ r op o.1).setObjVal! "detail" (.str "fresh")
  | none => xoutJ r op o.1

/-- sessions with arithmetic questions -/
def runX : CState → List XOp → CState × List Json
  | s, [] => (s, [])
  | s, op :: ops =>
    let (s1, o) := ystep lg arU edU s op
    let j := (youtJ s.reg op o).setObjVal! "changed" (.bool (decide (s1.reg ≠ s.reg)))
    let (s2, js) := runX s1 ops
    (s2, j :: js)

/-- a family of `n` databases; every step is addressed to one of them; `others` = the registry of a database
the step was NOT addressed to changed -/
def runXN (n : Nat) : (Nat → CState) → List (Nat × XOp) → (Nat → CState) × List Json
  | s, [] => (s, [])
  | s, op :: ops =>
    let (s1, o) := stepN (ystep lg arU edU) s op
    let j := (youtJ (s op.1).reg op.2 o).setObjVal! "changed" (.bool (decide ((s1 op.1).reg ≠ (s op.1).reg)))
    let j := j.setObjVal! "others" (.bool ((List.range n).any (fun i => i != op.1 && decide ((s1 i).reg ≠ (s i).reg))))
    let (s2, js) := runXN n s1 ops
    (s2, j :: js)

def memoJ (m : List ((Sym × Sym) × Bool)) : Json :=
  Json.arr (m.map (fun e => Json.arr #[symJ e.1.1, symJ e.1.2, .bool e.2])).toArray

def cacheJ (m : List ((Option Sym × Sym × Bool) × QObj)) : Json :=
  Json.arr (m.map (fun e => Json.arr #[optJ symJ e.1.1, symJ e.1.2.1, .bool e.1.2.2, symJ e.2.cat, symJ e.2.unit])).toArray

def getNat (j : Json) (k : String) : Except String Nat := do pure (← getInt j k).toNat

def tablesJ (s : CState) : List (String × Json) :=
  [("memo", memoJ s.memo), ("cache", cacheJ s.cache),
   ("dcache", Json.arr (s.dcache.map (fun e => Json.arr (e.1.map (fun t =>
      Json.arr #[symJ t.1, symJ t.2.1, .str (toString t.2.2)])).toArray)).toArray)]

def handle (j : Json) : Except String Json := do
  let op ← getStr j "op"
  match op with
  | "reghist" =>
    let ops ← (← getArr j "ops").toList.mapM parseRegOp
    let qs ← (← getArr j "queries").toList.mapM parseQuery
    let (r, outs) := runReg Registry.empty ops
    pure (Json.mkObj [("outs", Json.arr outs.toArray), ("reg", regJ r),
      ("answers", Json.arr (qs.map (fun q => ansJ r q (spec lg r q))).toArray)])
  | "chist" =>
    let ops ← (← getArr j "ops").toList.mapM parseXOp
    let (s, outs) := runX (CState.fresh Registry.empty) ops
    pure (Json.mkObj ([("outs", Json.arr outs.toArray)] ++ tablesJ s))
  | "chistN" =>
    let n ← getNat j "n"
    let ops ← (← getArr j "ops").toList.mapM (fun o => do pure ((← getNat o "db"), (← parseXOp o)))
    if ops.any (fun o => decide (n ≤ o.1)) then throw "database index out of range" else
    let (s, outs) := runXN n (fun _ => CState.fresh Registry.empty) ops
    pure (Json.mkObj [("outs", Json.arr outs.toArray),
      ("dbs", Json.arr ((List.range n).map (fun i => Json.mkObj (tablesJ (s i)))).toArray)])
  | "shipped" =>
    -- `defcat`: every unit that resolves to a default category resolves to a registered category of its own
    -- quantity type (so `Scalar(value, unit)` builds); all units do in the databases filled with categories
    let one := fun (db : Db) => Json.mkObj [("ok", .bool db.regOk), ("units", .num db.units.length),
      ("cats", .num db.cats.length),
      ("defcat", .bool (db.units.all (fun r => (Barril.Ctor.rowDefaultCategory db r).isNone || r.defaultCatOk db))),
      ("nodefcat", .num (db.units.filter (fun r => (Barril.Ctor.rowDefaultCategory db r).isNone)).length)]
    pure (Json.mkObj [("posc", one Gen.poscDb), ("nocat", one Gen.nocatDb), ("simple", one Gen.simpleDb)])
  | _ => throw s!"unknown op {op}"

def step' (j : Json) : Json :=
  match handle j with
  | .ok r => r
  | .error e => Json.mkObj [("bad", .str e)]

def main : IO Unit := do
  loop (← IO.getStdin) (← IO.getStdout) step'
