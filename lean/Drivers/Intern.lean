/- line-protocol driver of the C07 session model (`Barril/Model/Intern.lean`).
One line = one whole history; the answer lists, per step, the result, the new cache entries, the
new objects (cells, caption, joined exponents, equality row) and whether anything older changed. -/
import Barril.Model.Proto
import Barril.Model.Intern
import Barril.Gen.Dbs
open Lean Barril Barril.Proto Barril.Intern

def optField (j : Json) (k : String) : Option Json :=
  match j.getObjVal? k with
  | .ok .null => none
  | .ok v => some v
  | .error _ => none

def symOf (j : Json) : Except String Sym :=
  match j with
  | .str s => match s.toNat? with
    | some n => .ok n
    | none => .error s!"not a symbol code: {s}"
  | _ => .error "symbol code must be a string"

def optSym (j : Json) (k : String) : Except String (Option Sym) :=
  match optField j k with
  | none => .ok none
  | some v => (symOf v).map some

def intOf (j : Json) : Except String Int :=
  match j with
  | .num n => if n.exponent = 0 then .ok n.mantissa else .error "not an integer"
  | _ => .error "not an integer"

def boolOf (j : Json) : Except String Bool :=
  match j with
  | .bool b => .ok b
  | _ => .error "not a bool"

def natField (j : Json) (k : String) : Except String Nat := do
  let n ← getInt j k
  if n < 0 then throw s!"negative reference in {k}" else pure n.toNat

/-- `[cat, unit, exp, frozen]` -/
def itemOf (j : Json) : Except String (Sym × Cell) :=
  match j with
  | .arr #[c, u, e, f] => do pure (← symOf c, ⟨← symOf u, ← intOf e, ← boolOf f⟩)
  | _ => .error "item must be [cat, unit, exp, frozen]"

/-- `[unit, exp, frozen]` -/
def pairOf (j : Json) : Except String Cell :=
  match j with
  | .arr #[u, e, f] => do pure ⟨← symOf u, ← intOf e, ← boolOf f⟩
  | _ => .error "pair must be [unit, exp, frozen]"

/-- the harness builds `OrderedDict(pairs)` / `dict(pairs)` before calling barril -/
def itemsOf (a : Array Json) : Except String (List (Sym × Cell)) := do
  pure (odOfPairs (← a.toList.mapM itemOf))

def unitArgOf (j : Json) : Except String UnitArg :=
  match optField j "u" with
  | none => .ok .none
  | some v =>
    match optField v "s", optField v "l", optField v "d" with
    | some s, _, _ => do pure (.str (← symOf s))
    | _, some (.arr a), _ => do pure (.seq (← a.toList.mapM pairOf))
    | _, _, some (.arr a) => do pure (.dict (← itemsOf a) (← getBool v "od"))
    | _, _, _ => .error "bad unit argument"

def catArgOf (j : Json) : Except String CatArg :=
  match optField j "c" with
  | none => .ok .none
  | some v =>
    match optField v "s", optField v "q" with
    | some s, _ => do pure (.str (← symOf s))
    | _, some (.arr a) => do pure (.seq (← a.toList.mapM symOf) (← getBool v "tup"))
    | _, _ => .error "bad category argument"

def operandOf (j : Json) (k : String) : Except String Operand :=
  match j.getObjVal? k with
  | .ok (.str "e") => .ok .num
  | .ok (.num n) => if n.exponent = 0 ∧ n.mantissa ≥ 0 then .ok (.ref n.mantissa.toNat) else .error s!"bad operand {k}"
  | _ => .error s!"bad operand {k}"

/-- `{"s": [cat, unit|null]}` or `{"d": [[cat, unit, exp, frozen], …]}` -/
def initArgOf (j : Json) : Except String InitArg :=
  match optField j "a" with
  | none => .error "missing init argument"
  | some v =>
    match optField v "s", optField v "d" with
    | some (.arr #[c, .null]), _ => do pure (.simple (← symOf c) none)
    | some (.arr #[c, u]), _ => do pure (.simple (← symOf c) (some (← symOf u)))
    | _, some (.arr a) => do pure (.derived (← itemsOf a))
    | _, _ => .error "bad init argument"

def parseOp (j : Json) : Except String Op := do
  let k ← getStr j "k"
  match k with
  | "obtain" => pure (.obtain (← unitArgOf j) (← catArgOf j) (← optSym j "cap"))
  | "empty" => pure .empty
  | "derived" => pure (.derived (← itemsOf (← getArr j "items")) (← optSym j "cap"))
  | "mkcopy" => pure (.mkcopy (← natField j "q") (← itemsOf (← getArr j "items")))
  | "ident" => pure (.ident (← natField j "q"))
  | "pickle" => pure (.pickle (← natField j "q"))
  | "setcap" => pure (.setcap (← natField j "q") (← getSym j "cap"))
  | "withunit" => pure (.withunit (← natField j "q") (← getSym j "u"))
  | "same" => pure (.same (← operandOf j "a") (← operandOf j "b"))
  | "new" => pure (.new (← getBool j "div") (← operandOf j "a") (← operandOf j "b"))
  | "reinit" => pure (.reinit (← natField j "q") (← initArgOf j) (← optSym j "cap"))
  | _ => throw s!"unknown op kind {k}"

def optSymJ : Option Sym → Json
  | none => .null
  | some s => symJ s

def intJ (n : Int) : Json := .num ⟨n, 0⟩
def natJ (n : Nat) : Json := .num ⟨n, 0⟩

def keyJ : Key → Json
  | .simple c u cap => .arr #[.str "s", optSymJ c, optSymJ u, optSymJ cap]
  | .comp items cap =>
    .arr #[.str "d", .arr (items.map (fun i => Json.arr #[symJ i.1, symJ i.2.1, intJ i.2.2])).toArray, symJ cap]

def outJ : Out → Json
  | .ok i => .arr #[.str "ok", natJ i]
  | .err e => .arr #[.str "err", .str e.name]
  | .skip => .arr #[.str "skip"]

/-- in a long ("light") history the equality row is reported against the first `heldCount` objects
(the ones the history holds on to) and the object itself only -/
def heldCount : Nat := 12

/-- indices `j ≤ i` satisfying `p` -/
def rowOf (objs : List Quantity) (i : Nat) (light : Bool) (p : Quantity → Bool) : List Nat :=
  ((objs.take (i + 1)).zipIdx.filter (fun qi => (!light || qi.2 < heldCount || qi.2 == i) && p qi.1)).map (·.2)

def objJ (light : Bool) (s : State) (i : Nat) (q : Quantity) : Json :=
  let cs := (cellsOf s q)
  match cs with
  | none => Json.mkObj [("dangling", .bool true)]
  | some cs =>
    Json.mkObj [
      ("c", .arr (cs.map (fun kc => Json.arr #[symJ kc.1, symJ kc.2.unit, intJ kc.2.exp, .bool kc.2.frozen])).toArray),
      ("cap", symJ q.caption),
      ("d", .bool q.derived),
      ("j", .arr ((joined cs).map (fun ue => Json.arr #[symJ ue.1, intJ ue.2])).toArray),
      ("eq", .arr ((rowOf s.objs i light (qeq s.heap q)).map natJ).toArray),
      ("hq", .arr ((rowOf s.objs i light (contentEq s.heap q)).map natJ).toArray)]

/-- nothing older changed: objects and cache entries are a prefix of the new ones and every old
object shows the same view through the new heap -/
def stable (s s' : State) : Bool :=
  s'.objs.take s.objs.length == s.objs
  && s'.cache.take s.cache.length == s.cache
  && s.objs.all (fun q => view s'.heap q == view s.heap q)

/-- the same for long histories, in time linear in the state: the old heap, objects and cache are a
prefix of the new ones (every old object only refers to old cells) -/
def stableLight (s s' : State) : Bool :=
  s'.objs.take s.objs.length == s.objs
  && s'.cache.take s.cache.length == s.cache
  && s'.heap.take s.heap.length == s.heap

def stepJ (light : Bool) (s s' : State) (o : Out) : Json :=
  Json.mkObj [
    ("r", outJ o),
    ("st", .bool (if light then stableLight s s' else stable s s')),
    ("e", match s'.empty with | none => .null | some i => natJ i),
    ("nk", .arr ((s'.cache.drop s.cache.length).map (fun ki => Json.arr #[keyJ ki.1, natJ ki.2])).toArray),
    ("nq", .arr (((s'.objs.zipIdx).drop s.objs.length).map (fun qi => objJ light s' qi.2 qi.1)).toArray)]

def runOps (db : Db) (g : Guard) (light : Bool) : Session → List Op → List Json
  | _, [] => []
  | ss, op :: ops =>
    let r := step db g ss op
    stepJ light ss.st r.1.st r.2 :: runOps db g light r.1 ops

def handle (j : Json) : Except String Json := do
  let op ← getStr j "op"
  match op with
  | "history" =>
    let ops ← getArr j "ops"
    let ops ← ops.toList.mapM parseOp
    let g ← match j.getObjVal? "guard" with
      | .ok (.arr #[a, b]) => do
        let a ← intOf a
        let b ← intOf b
        pure (Guard.mk a.toNat b.toNat)
      | _ => throw "missing guard"
    let light := match j.getObjVal? "light" with
      | .ok (.bool b) => b
      | _ => false
    pure (Json.mkObj [("ok", Json.arr (runOps Gen.poscDb g light {} ops).toArray)])
  | _ => throw s!"unknown op {op}"

def step' (j : Json) : Json :=
  match handle j with
  | .ok r => r
  | .error e => Json.mkObj [("bad", .str e)]

def main : IO Unit := do
  loop (← IO.getStdin) (← IO.getStdout) step'
