/- line-protocol driver of the `Ctor` engine (C19): construction forms, `==`, `eval(repr)` -/
import Barril.Model.Proto
import Barril.Model.Ctor
import Barril.Gen.Dbs
open Lean Barril Barril.Proto Barril.Ctor

def absR (q : Rat) : Rat := if q < 0 then -q else q
def maxR (a b : Rat) : Rat := if a < b then b else a

def theDb : Db := Gen.poscDb

/-! ### decoding -/

def parseAtom (j : Json) : Except String Atom :=
  match j with
  | .null => .ok .none
  | _ =>
    match j.getObjVal? "b" with
    | .ok (.bool b) => .ok (.bool b)
    | _ =>
    match j.getObjVal? "s" with
    | .ok (.str code) =>
      match code.toNat? with
      | none => .error "bad symbol code"
      | some s =>
        match j.getObjVal? "f" with
        | .ok (.str q) =>
          match parseRat? q with
          | some f => .ok (.str s (some f))
          | none => .error "bad float of str"
        | _ => .ok (.str s none)
    | _ =>
      match j.getObjVal? "n" with
      | .ok (.str q) =>
        match parseRat? q with
        | some x =>
          let isInt := match j.getObjVal? "int" with
            | .ok (.bool b) => b
            | _ => false
          match j.getObjVal? "fl", j.getObjVal? "np" with
          | .ok (.str fl), _ =>
            -- an int no double holds exactly, with its float image
            match parseRat? fl with
            | some f => if x.den == 1 then .ok (.big x.num f) else .error "big int is not an integer"
            | none => .error "bad float image"
          | _, .ok (.str _) => if x.den == 1 then .ok (.npint x.num) else .error "numpy int is not an integer"
          | _, _ => .ok (.num x isInt)
        | none => .error "bad number"
      | _ => .error s!"not an atom: {j.compress}"

/-- an argument expression: evaluating it may already raise (`ObtainQuantity(…)`) -/
def parseArg (j : Json) : Except String (Except ErrKind PyVal) :=
  match j with
  | .null => .ok (.ok .none)
  | _ =>
    match j.getObjVal? "rows" with
    | .ok (.str kind) => do
      let k ← match kind with
        | "list" => pure SeqKind.list
        | "tuple" => pure SeqKind.tuple
        | _ => throw s!"bad rows kind {kind}"
      let items ← getArr j "items"
      let rows ← items.toList.mapM (fun r => match r with
        | .arr a => a.toList.mapM parseAtom
        | _ => .error "row is not an array")
      pure (.ok (.rows k rows))
    | _ =>
    match j.getObjVal? "seq" with
    | .ok (.str kind) => do
      let k ← match kind with
        | "list" => pure SeqKind.list
        | "tuple" => pure SeqKind.tuple
        | "nda" => pure SeqKind.nda
        | _ => throw s!"bad seq kind {kind}"
      let items ← getArr j "items"
      let atoms ← items.toList.mapM parseAtom
      pure (.ok (.seq k atoms))
    | _ =>
      match j.getObjVal? "fv" with
      | .ok (.arr a) =>
        match a.toList with
        | [.str n, .str f] =>
          match parseRat? n, parseRat? f with
          | some n, some f => .ok (.ok (.fv n f))
          | _, _ => .error "bad fv"
        | _ => .error "bad fv"
      | _ =>
        match j.getObjVal? "oq" with
        | .ok (.arr a) =>
          match a.toList with
          | [u, c] => do
            let u ← parseAtom u
            let c ← parseAtom c
            pure (match obtainQuantity theDb (.atom u) c with
                  | .ok q => .ok (.qty q)
                  | .error e => .error e)
          | _ => .error "bad oq"
        | _ => do
          let a ← parseAtom j
          pure (.ok (.atom a))

structure Form where
  cwq : Bool
  cls : String
  a1 : Except ErrKind PyVal
  a2 : Except ErrKind PyVal
  a3 : Atom
  dim : Int
  dimKw : Option Int
  kw : Bool

def optField (j : Json) (k : String) : Json :=
  match j.getObjVal? k with
  | .ok v => v
  | .error _ => .null

def parseForm (j : Json) : Except String Form := do
  let k ← getStr j "k"
  let cls ← getStr j "cls"
  let a1 ← parseArg (optField j "a1")
  let a2 ← parseArg (optField j "a2")
  let a3 ← parseAtom (optField j "a3")
  let dim ← match optField j "dim" with
    | .null => pure 0
    | _ => getInt j "dim"
  let dimKw ← match optField j "dimkw" with
    | .null => pure none
    | _ => (some <$> getInt j "dimkw")
  let kw := match optField j "kw" with
    | .bool b => b
    | _ => false
  if k != "ctor" && k != "cwq" then throw s!"bad form kind {k}"
  if !(["scalar", "array", "fixed", "fraction"].contains cls) then throw s!"bad class {cls}"
  pure ⟨k == "cwq", cls, a1, a2, a3, dim, dimKw, kw⟩

def clsOf (f : Form) : Cls :=
  match f.cls with
  | "scalar" => .scalar
  | "array" => .array
  | "fixed" => .fixed f.dim
  | _ => .fraction

/-- run one form on the model (arguments are evaluated left to right first) -/
def runForm (f : Form) : Except String (Except ErrKind Obj) :=
  match f.a1 with
  | .error e => .ok (.error e)
  | .ok a1 =>
    match f.a2 with
    | .error e => .ok (.error e)
    | .ok a2 =>
      if f.cwq then
        match a1 with
        | .qty q => .ok (createWithQuantity theDb (clsOf f) q a2 f.kw f.dimKw)
        | _ => .error "CreateWithQuantity form without a quantity"
      else .ok (construct theDb (clsOf f) a1 a2 f.a3)

/-! ### magnitudes for values that went through float arithmetic -/

def convMagRows (a b : UnitRow) (x y : Rat) : Rat :=
  let base := a.toBase.eval x
  let s := if b.fromBase.r = 0 then 0 else absR (b.fromBase.q / b.fromBase.r)
  let m1 := if a.toBase.r = 0 then 0 else s * ((absR a.toBase.p + absR (a.toBase.q * x)) / absR a.toBase.r)
  let m2 := if b.fromBase.r = 0 then 0 else (absR b.fromBase.p + absR (b.fromBase.q * base)) / absR b.fromBase.r
  maxR (maxR m1 m2) (absR y)

/-- the (category, value, unit) the shared constructor works with, for the forms that reach it
with a non-Quantity first argument -/
def juggled (f : Form) (a1 a2 : PyVal) : Option (Atom × PyVal × PyVal) :=
  match a1 with
  | .qty _ => none
  | .seq .tuple [a, b] => if f.cls == "scalar" then some (juggle (.atom a) (.atom b) .none) else some (juggle a1 a2 f.a3)
  | _ => some (juggle a1 a2 f.a3)

/-- `some M` when the value of the object came out of float arithmetic (a converted category
default, or `float(FractionValue)`) -/
def floatMag (f : Form) (o : Obj) : Option Rat :=
  match f.a1, f.a2 with
  | .ok a1, .ok a2 =>
    let fvMag : Option Rat :=
      if f.cls == "scalar" then
        match a1, a2 with
        | .fv n fr, _ => some (absR n + absR fr)
        | _, .fv n fr => some (absR n + absR fr)
        | _, _ => none
      else none
    let convM : Option Rat :=
      if f.cwq || !(f.cls == "scalar" || f.cls == "fraction") then none else
      match juggled f a1 a2 with
      | some (cat, v, .atom (.str u _)) =>
        if !v.isNone then none else
        match getCategoryInfo theDb cat with
        | .ok ci =>
          if u == ci.defaultUnit then none else
          match theDb.getInfo ci.qtype ci.defaultUnit true, theDb.getInfo ci.qtype u true with
          | .ok a, .ok b =>
            let y := match o.val with
              | .scalar y => y
              | .fraction y _ => y
              | _ => 0
            some (convMagRows a b ci.defaultValue y)
          | _, _ => some 0
        | .error _ => none
      | _ => none
    match convM with
    | some m => some m
    | none => fvMag
  | _, _ => none

/-! ### encoding -/

def canonAtom : Atom → Json
  | .none => .null
  | .str s _ => Json.mkObj [("s", symJ s)]
  | .num q _ => Json.mkObj [("n", ratJ q)]
  | .big n _ => Json.mkObj [("n", ratJ n)]
  | .npint n => Json.mkObj [("n", ratJ n)]
  | .bool b => Json.mkObj [("other", .str (if b then "True" else "False"))]

def kindName : SeqKind → String
  | .list => "list" | .tuple => "tuple" | .nda => "nda"

def canonArg : PyVal → Json
  | .atom a => canonAtom a
  | .seq k items => Json.mkObj [("seq", .str (kindName k)), ("items", Json.arr (items.map canonAtom).toArray)]
  | .rows k items => Json.mkObj [("seq", .str (kindName k)),
      ("items", Json.arr (items.map (fun r => Json.mkObj [("row", Json.arr (r.map canonAtom).toArray)])).toArray)]
  | .fv n f => Json.mkObj [("fv", Json.arr #[ratJ n, ratJ f])]
  | .qty q => Json.mkObj [("qty", Json.arr #[symJ q.cat, symJ q.unit])]

def qtypeOf (q : Qty) : Sym :=
  match theDb.catByName q.cat with
  | some ci => ci.qtype
  | none => 0

def canonObj (o : Obj) : Json :=
  let (cls, val, dim) : String × Json × Json := match o.val with
    | .scalar v => ("scalar", Json.mkObj [("n", ratJ v)], .null)
    | .fraction n f => ("fraction", Json.mkObj [("fv", Json.arr #[ratJ n, ratJ f])], .null)
    | .arr v => ("array", Json.mkObj [("any", canonArg v)], .null)
    | .fixed v d => ("fixed", Json.mkObj [("any", canonArg v)], .str (toString d))
  Json.mkObj [("cls", .str cls), ("cat", symJ o.q.cat), ("unit", symJ o.q.unit), ("qtype", symJ (qtypeOf o.q)),
    ("dim", dim), ("val", val)]

def eqJ (r : Except ErrKind Bool) : Json :=
  match r with
  | .ok b => .bool b
  | .error e => .str e.name

def reprJ (o : Obj) : Json :=
  match reprBack theDb o with
  | none => .null
  | some (.ok b) =>
    Json.mkObj [("back", Json.mkObj [("ok", canonObj b)]), ("eq", eqJ (Obj.eq b o)),
      ("unit", symJ o.q.unit), ("cat", symJ o.q.cat)]
  | some (.error e) =>
    Json.mkObj [("back", errJ e), ("eq", .null), ("unit", symJ o.q.unit), ("cat", symJ o.q.cat)]

def handle (j : Json) : Except String Json := do
  let op ← getStr j "op"
  match op with
  | "forms" =>
    let fjs ← getArr j "forms"
    let forms ← fjs.toList.mapM parseForm
    let wantRepr := match optField j "repr" with
      | .bool b => b
      | _ => false
    let outs ← forms.mapM (fun f => do let r ← runForm f; pure (f, r))
    let ref : Option Obj := outs.findSome? (fun (_, r) => match r with | .ok o => some o | .error _ => none)
    let res := outs.map (fun (f, r) => match r with
      | .ok o =>
        match floatMag f o with
        | some m => Json.mkObj [("ok", canonObj o), ("M", ratJ m)]
        | none => Json.mkObj [("ok", canonObj o)]
      | .error e => errJ e)
    let eqs := outs.map (fun (_, r) => match r, ref with
      | .ok o, some rf => Json.arr #[eqJ (Obj.eq o rf), eqJ (Obj.eq rf o)]
      | _, _ => .null)
    let reprs := if wantRepr then outs.map (fun (_, r) => match r with
      | .ok o => reprJ o
      | .error _ => .null) else []
    pure (Json.mkObj [("res", Json.arr res.toArray), ("eq", Json.arr eqs.toArray), ("repr", Json.arr reprs.toArray)])
  | "lit" =>
    let s ← getSym j "s"
    pure (Json.mkObj [("ok", .bool (parseLit (quoteLit (Sym.bytes s)) == some (Sym.bytes s)))])
  | "defcat" =>
    let u ← getSym j "unit"
    match getDefaultCategory theDb u with
    | .ok (some c) => pure (Json.mkObj [("ok", symJ c)])
    | .ok none => pure (Json.mkObj [("ok", .null)])
    | .error e => pure (errJ e)
  | "badrows" =>
    let bu := theDb.units.filter (fun r => !(r.defaultCatOk theDb && r.symPlain))
    let bc := theDb.cats.filter (fun c => !(c.defaultUnitOk theDb && c.namePlain))
    pure (Json.mkObj [("units", Json.arr (bu.map (fun r => symJ r.sym)).toArray),
      ("cats", Json.arr (bc.map (fun c => symJ c.name)).toArray)])
  | _ => throw s!"unknown op {op}"

def step (j : Json) : Json :=
  match handle j with
  | .ok r => r
  | .error e => Json.mkObj [("bad", .str e)]

def main : IO Unit := do
  loop (← IO.getStdin) (← IO.getStdout) step
