/- line-protocol driver of the `Ctor` engine (C19): construction forms, `==`, `eval(repr)`, on the default
database and along histories of registrations and questions on a private database -/
import Barril.Model.Proto
import Barril.Model.Ctor
import Barril.Gen.Dbs
open Lean Barril Barril.Proto Barril.Ctor

def absR (q : Rat) : Rat := if q < 0 then -q else q
def maxR (a b : Rat) : Rat := if a < b then b else a

def theDb : Db := Gen.poscDb

def lg : List (Sym × Sym) := Barril.Gen.legacyList

/-! ### decoding -/

def parseAtom (j : Json) : Except String Atom :=
  match j with
  | .null => .ok .none
  | _ =>
    match j.getObjVal? "b" with
    | .ok (.bool b) => .ok (.bool b)
    | _ =>
    match j.getObjVal? "s" with
    | .ok (.str code) =>
      match code.toNat? with
      | none => .error "bad symbol code"
      | some s =>
        match j.getObjVal? "f" with
        | .ok (.str q) =>
          match parseRat? q with
          | some f => .ok (.str s (some f))
          | none => .error "bad float of str"
        | _ => .ok (.str s none)
    | _ =>
      match j.getObjVal? "n" with
      | .ok (.str q) =>
        match parseRat? q with
        | some x =>
          let isInt := match j.getObjVal? "int" with
            | .ok (.bool b) => b
            | _ => false
          match j.getObjVal? "fl", j.getObjVal? "np" with
          | .ok (.str fl), _ =>
            -- an int no double holds exactly, with its float image
            match parseRat? fl with
            | some f => if x.den == 1 then .ok (.big x.num f) else .error "big int is not an integer"
            | none => .error "bad float image"
          | _, .ok (.str _) => if x.den == 1 then .ok (.npint x.num) else .error "numpy int is not an integer"
          | _, _ => .ok (.num x isInt)
        | none => .error "bad number"
      | _ => .error s!"not an atom: {j.compress}"

def parseItem (v : Json) : Except String (Sym × Sym × Int) :=
  match v with
  | .arr #[.str c, .str u, .str e] =>
    match c.toNat?, u.toNat?, e.toInt? with
    | some c, some u, some e => .ok (c, u, e)
    | _, _, _ => .error "bad composing entry"
  | _ => .error "composing entry [category, unit, exponent] expected"

def jSym' (v : Json) : Except String Sym :=
  match v with
  | .str s => match s.toNat? with
    | some n => pure n
    | none => throw s!"not a symbol code: {s}"
  | _ => throw "symbol code expected"

def optField (j : Json) (k : String) : Json :=
  match j.getObjVal? k with
  | .ok v => v
  | .error _ => .null

/-- an argument expression: a value, or a call that obtains a Quantity (evaluated when the form runs) -/
def parseArg (j : Json) : Except String QExpr :=
  match j with
  | .null => .ok (.val .none)
  | _ =>
    match j.getObjVal? "rows" with
    | .ok (.str kind) => do
      let k ← match kind with
        | "list" => pure SeqKind.list
        | "tuple" => pure SeqKind.tuple
        | _ => throw s!"bad rows kind {kind}"
      let items ← getArr j "items"
      let rows ← items.toList.mapM (fun r => match r with
        | .arr a => a.toList.mapM parseAtom
        | _ => .error "row is not an array")
      -- "rk": per row "is a list" (absent: every row is a tuple)
      match j.getObjVal? "rk" with
      | .ok (.arr ks) =>
        let flags ← ks.toList.mapM (fun b => match b with
          | .bool x => pure x
          | _ => .error "row kind is not a bool")
        if flags.length != rows.length then throw "rk length" else
        pure (.val (.nest k (flags.zip rows)))
      | _ => pure (.val (.rows k rows))
    | _ =>
    match j.getObjVal? "seq" with
    | .ok (.str kind) => do
      let k ← match kind with
        | "list" => pure SeqKind.list
        | "tuple" => pure SeqKind.tuple
        | "nda" => pure SeqKind.nda
        | _ => throw s!"bad seq kind {kind}"
      let items ← getArr j "items"
      let atoms ← items.toList.mapM parseAtom
      pure (.val (.seq k atoms))
    | _ =>
      match j.getObjVal? "fv" with
      | .ok (.arr a) =>
        match a.toList with
        | [.str n, .str f] =>
          match parseRat? n, parseRat? f with
          | some n, some f => .ok (.val (.fv n f))
          | _, _ => .error "bad fv"
        | _ => .error "bad fv"
      | _ =>
        match j.getObjVal? "oq" with
        | .ok (.arr a) =>
          match a.toList with
          | [u, c] => do
            let u ← parseAtom u
            let c ← parseAtom c
            pure (.oq (.atom u) c .none)
          | [u, c, cap] => do
            let u ← parseAtom u
            let c ← parseAtom c
            let cap ← parseAtom cap
            pure (.oq (.atom u) c cap)
          | _ => .error "bad oq"
        | _ =>
          match j.getObjVal? "nq" with
          | .ok (.arr a) =>
            match a.toList with
            | [c, u, cap] => do
              let c ← parseAtom c
              let u ← parseAtom u
              let cap ← parseAtom cap
              pure (.nq c u cap)
            | _ => .error "bad nq"
          | _ =>
          match j.getObjVal? "oql" with
          | .ok (.arr a) => do
            let pairs ← a.toList.mapM (fun v => match v with
              | .arr #[.str u, .str e] =>
                match u.toNat?, e.toInt? with
                | some u, some e => pure (u, e)
                | _, _ => throw "bad pair"
              | _ => throw "pair [unit, exponent] expected")
            let cs ← getArr j "cats"
            let cats ← cs.toList.mapM jSym'
            let cap ← parseAtom (optField j "cap")
            pure (.oql pairs cats cap)
          | _ =>
          match j.getObjVal? "dq" with
          | .ok (.arr a) => do
            let items ← a.toList.mapM parseItem
            let cap ← parseAtom (optField j "cap")
            pure (.dq items cap)
          | _ =>
            match j.getObjVal? "unk" with
            | .ok cap => do
              let cap ← parseAtom cap
              pure (.unk cap)
            | _ => do
              let a ← parseAtom j
              pure (.val (.atom a))

structure Form where
  kind : CallKind
  cls : String
  a1 : QExpr
  a2 : QExpr
  a3 : Atom
  dim : Int
  dimKw : Option Int
  kw : Bool

def parseForm (j : Json) : Except String Form := do
  let k ← getStr j "k"
  let cls ← getStr j "cls"
  let a1 ← parseArg (optField j "a1")
  let a2 ← parseArg (optField j "a2")
  let a3 ← parseAtom (optField j "a3")
  let dim ← match optField j "dim" with
    | .null => pure 0
    | _ => getInt j "dim"
  let dimKw ← match optField j "dimkw" with
    | .null => pure none
    | _ => (some <$> getInt j "dimkw")
  let kw := match optField j "kw" with
    | .bool b => b
    | _ => false
  let kind ← match k with
    | "ctor" => pure CallKind.ctor
    | "cwq" => pure CallKind.cwq
    | "empty" => pure CallKind.empty
    | "cwq2" => pure CallKind.cwq2
    | _ => throw s!"bad form kind {k}"
  if !(["scalar", "array", "fixed", "fraction"].contains cls) then throw s!"bad class {cls}"
  pure ⟨kind, cls, a1, a2, a3, dim, dimKw, kw⟩

def clsOf (f : Form) : Cls :=
  match f.cls with
  | "scalar" => .scalar
  | "array" => .array
  | "fixed" => .fixed f.dim
  | _ => .fraction

def callOf (f : Form) : Call := ⟨f.kind, clsOf f, f.a1, f.a2, f.a3, f.kw, f.dimKw⟩

/-- run one form on the model (`Ctor.runCall`: arguments are evaluated left to right first) -/
def runForm (db : Db) (f : Form) : Except String (Except ErrKind Obj) :=
  match runCall db (callOf f) with
  | some r => .ok r
  | none => .error "CreateWithQuantity form without a quantity"

/-! ### magnitudes for values that went through float arithmetic -/

def convMagRows (a b : UnitRow) (x y : Rat) : Rat :=
  let base := a.toBase.eval x
  let s := if b.fromBase.r = 0 then 0 else absR (b.fromBase.q / b.fromBase.r)
  let m1 := if a.toBase.r = 0 then 0 else s * ((absR a.toBase.p + absR (a.toBase.q * x)) / absR a.toBase.r)
  let m2 := if b.fromBase.r = 0 then 0 else (absR b.fromBase.p + absR (b.fromBase.q * base)) / absR b.fromBase.r
  maxR (maxR m1 m2) (absR y)

/-- the (category, value, unit) the shared constructor works with, for the forms that reach it
with a non-Quantity first argument -/
def juggled (f : Form) (a1 a2 : PyVal) : Option (Atom × PyVal × PyVal) :=
  match a1 with
  | .qty _ => none
  | .seq .tuple [a, b] => if f.cls == "scalar" then some (juggle (.atom a) (.atom b) .none) else some (juggle a1 a2 f.a3)
  | _ => some (juggle a1 a2 f.a3)

/-- `some M` when the value of the object came out of float arithmetic (a converted category
default, or `float(FractionValue)`) -/
def floatMag (db : Db) (f : Form) (o : Obj) : Option Rat :=
  match f.a1.eval db, f.a2.eval db with
  | .ok a1, .ok a2 =>
    let fvMag : Option Rat :=
      if f.cls == "scalar" then
        match a1, a2 with
        | .fv n fr, _ => some (absR n + absR fr)
        | _, .fv n fr => some (absR n + absR fr)
        | _, _ => none
      else none
    let convM : Option Rat :=
      if f.kind != .ctor || !(f.cls == "scalar" || f.cls == "fraction") then none else
      match juggled f a1 a2 with
      | some (cat, v, .atom (.str u _)) =>
        if !v.isNone then none else
        match getCategoryInfo db cat with
        | .ok ci =>
          if u == ci.defaultUnit then none else
          match db.getInfo ci.qtype ci.defaultUnit true, db.getInfo ci.qtype u true with
          | .ok a, .ok b =>
            let y := match o.val with
              | .scalar y => y
              | .fraction y _ => y
              | _ => 0
            some (convMagRows a b ci.defaultValue y)
          | _, _ => some 0
        | .error _ => none
      | _ => none
    match convM with
    | some m => some m
    | none => fvMag
  | _, _ => none

/-! ### encoding -/

def canonAtom : Atom → Json
  | .none => .null
  | .str s _ => Json.mkObj [("s", symJ s)]
  | .num q _ => Json.mkObj [("n", ratJ q)]
  | .big n _ => Json.mkObj [("n", ratJ n)]
  | .npint n => Json.mkObj [("n", ratJ n)]
  | .bool b => Json.mkObj [("other", .str (if b then "True" else "False"))]

def kindName : SeqKind → String
  | .list => "list" | .tuple => "tuple" | .nda => "nda"

def canonArg : PyVal → Json
  | .atom a => canonAtom a
  | .seq k items => Json.mkObj [("seq", .str (kindName k)), ("items", Json.arr (items.map canonAtom).toArray)]
  | .rows k items => Json.mkObj [("seq", .str (kindName k)),
      ("items", Json.arr (items.map (fun r => Json.mkObj [("row", Json.arr (r.map canonAtom).toArray)])).toArray)]
  | .nest k items => Json.mkObj [("seq", .str (kindName k)),
      ("items", Json.arr (items.map (fun r =>
        Json.mkObj [(if r.1 then "lrow" else "row", Json.arr (r.2.map canonAtom).toArray)])).toArray)]
  | .fv n f => Json.mkObj [("fv", Json.arr #[ratJ n, ratJ f])]
  | .qty q => Json.mkObj [("qty", Json.arr #[symJ q.cat, symJ q.unit])]

def qtypeOf (db : Db) (q : Qty) : Sym :=
  if q.isDerived then 0 else
  match db.catByName q.cat with
  | some ci => ci.qtype
  | none => 0

def compJ : Option (List (Sym × Sym × Int)) → Json
  | none => .null
  | some l => Json.arr (l.map (fun e => Json.arr #[symJ e.1, symJ e.2.1, .str (toString e.2.2)])).toArray

def canonObj (db : Db) (o : Obj) : Json :=
  let (cls, val, dim) : String × Json × Json := match o.val with
    | .scalar v => ("scalar", Json.mkObj [("n", ratJ v)], .null)
    | .fraction n f => ("fraction", Json.mkObj [("fv", Json.arr #[ratJ n, ratJ f])], .null)
    | .arr v => ("array", Json.mkObj [("any", canonArg v)], .null)
    | .fixed v d => ("fixed", Json.mkObj [("any", canonArg v)], .str (toString d))
  Json.mkObj [("cls", .str cls), ("cat", symJ o.q.cat), ("unit", symJ o.q.unit), ("qtype", symJ (qtypeOf db o.q)),
    ("cap", symJ o.q.caption), ("comp", compJ o.q.comp), ("dim", dim), ("val", val)]

def eqJ (r : Except ErrKind Bool) : Json :=
  match r with
  | .ok b => .bool b
  | .error e => .str e.name

def reprJ (db : Db) (o : Obj) : Json :=
  match reprBack db o with
  | none => .null
  | some (.ok b) =>
    Json.mkObj [("back", Json.mkObj [("ok", canonObj db b)]), ("eq", eqJ (Obj.eq b o)),
      ("unit", symJ o.q.unit), ("cat", symJ o.q.cat)]
  | some (.error e) =>
    Json.mkObj [("back", errJ e), ("eq", .null), ("unit", symJ o.q.unit), ("cat", symJ o.q.cat)]

/-- a group of forms on the database `db`: per form the result, `==` against the first object built (both
directions), and `eval(repr)` when asked for -/
def formsJ (db : Db) (j : Json) : Except String Json := do
  let fjs ← getArr j "forms"
  let forms ← fjs.toList.mapM parseForm
  let wantRepr := match optField j "repr" with
    | .bool b => b
    | _ => false
  let outs ← forms.mapM (fun f => do let r ← runForm db f; pure (f, r))
  let ref : Option Obj := outs.findSome? (fun (_, r) => match r with | .ok o => some o | .error _ => none)
  let res := outs.map (fun (f, r) => match r with
    | .ok o =>
      match floatMag db f o with
      | some m => Json.mkObj [("ok", canonObj db o), ("M", ratJ m)]
      | none => Json.mkObj [("ok", canonObj db o)]
    | .error e => errJ e)
  let eqs := outs.map (fun (_, r) => match r, ref with
    | .ok o, some rf => Json.arr #[eqJ (Obj.eq o rf), eqJ (Obj.eq rf o)]
    | _, _ => .null)
  let reprs := if wantRepr then outs.map (fun (_, r) => match r with
    | .ok o => reprJ db o
    | .error _ => .null) else []
  pure (Json.mkObj [("res", Json.arr res.toArray), ("eq", Json.arr eqs.toArray), ("repr", Json.arr reprs.toArray)])

/-! ### registrations (the encoding of `harness/props/_reg_common.py`, as in `Drivers/Reg.lean`) -/

open Barril.Reg in
def getSArg (j : Json) (k : String) : Except String SArg := do
  let s ← getStr j k
  if s == "n" then pure .none
  else if s == "b" then pure .bad
  else match (s.drop 1).toString.toNat? with
    | some n => if s.startsWith "s" then pure (.str n) else throw s!"bad string argument {s}"
    | none => throw s!"bad string argument {s}"

def optField? (j : Json) (k : String) : Option Json :=
  match j.getObjVal? k with
  | .ok .null => none
  | .ok v => some v
  | .error _ => none

def jSym (v : Json) : Except String Sym :=
  match v with
  | .str s => match s.toNat? with
    | some n => pure n
    | none => throw s!"not a symbol code: {s}"
  | _ => throw "symbol code expected"

def jRat (v : Json) : Except String Rat :=
  match v with
  | .str s => match parseRat? s with
    | some q => pure q
    | none => throw s!"not a rational: {s}"
  | _ => throw "rational expected"

def getOptSym (j : Json) (k : String) : Except String (Option Sym) :=
  match optField? j k with
  | none => pure none
  | some v => do pure (some (← jSym v))

def getOptRat (j : Json) (k : String) : Except String (Option Rat) :=
  match optField? j k with
  | none => pure none
  | some v => do pure (some (← jRat v))

def getOptSyms (j : Json) (k : String) : Except String (Option (List Sym)) :=
  match optField? j k with
  | none => pure none
  | some (.arr a) => do pure (some (← a.toList.mapM jSym))
  | some _ => throw s!"field {k}: list expected"

open Barril.Reg in
def getFormula (j : Json) (k : String) : Except String Formula :=
  match j.getObjVal? k with
  | .ok (.str "noX") => pure .noX
  | .ok (.str "syn") => pure .syntaxErr
  | .ok (.arr a) => do
    match ← a.toList.mapM jRat with
    | [p, q, r, s] => pure (.mob ⟨p, q, r, s⟩)
    | _ => throw s!"field {k}: four coefficients expected"
  | _ => throw s!"field {k}: formula expected"

open Barril.Reg in
def parseRegOp (j : Json) : Except String RegOp := do
  let k ← getStr j "k"
  match k with
  | "base" => pure (.addUnitBase (← getSArg j "qt") (← getSym j "name") (← getSArg j "unit"))
  | "unit" =>
    pure (.addUnit (← getSArg j "qt") (← getSym j "name") (← getSArg j "unit") (← getFormula j "fb")
      (← getFormula j "tb") (← getSym j "dc"))
  | "cat" =>
    pure (.addCategory {
      category := ← getSArg j "c", qtype := ← getOptSym j "qt", validUnits := ← getOptSyms j "vu",
      override := ← getBool j "ov", defaultUnit := ← getOptSym j "du", defaultValue := ← getOptRat j "dv",
      minV := ← getOptRat j "min", maxV := ← getOptRat j "max", minExcl := ← getBool j "minx",
      maxExcl := ← getBool j "maxx", caption := ← getSym j "cap", fromCat := ← getOptSym j "from" })
  | _ => throw s!"unknown registration kind {k}"

def optJ {α : Type} (f : α → Json) : Option α → Json
  | none => .null
  | some a => f a

def symsJ (l : List Sym) : Json := Json.arr (l.map symJ).toArray

def catJ (ci : CatRow) : Json :=
  Json.arr #[symJ ci.name, symJ ci.qtype, optJ symsJ ci.validUnits, symJ ci.defaultUnit, ratJ ci.defaultValue,
    optJ ratJ ci.minV, optJ ratJ ci.maxV, .bool ci.minExcl, .bool ci.maxExcl, symJ ci.caption]

def regOutJ : Except ErrKind Barril.Reg.Out → Json
  | .error e => errJ e
  | .ok .unit => Json.mkObj [("ok", .null)]
  | .ok (.cat ci) => Json.mkObj [("ok", catJ ci)]

def defcatJ : Except ErrKind (Option Sym) → Json
  | .ok (some c) => Json.mkObj [("ok", symJ c)]
  | .ok none => Json.mkObj [("ok", .null)]
  | .error e => errJ e

def parseMut (j : Json) : Except String Mut := do
  let m ← getStr j "m"
  match m with
  | "append" => pure (.append (← parseAtom (optField j "x")))
  | "extend" =>
    let xs ← getArr j "xs"
    pure (.extend (← xs.toList.mapM parseAtom))
  | "set" =>
    let i ← getStr j "i"
    match i.toNat? with
    | some n => pure (.setItem n (← parseAtom (optField j "x")))
    | none => throw "bad index"
  | "scale" => pure (.scale (← getRat j "k"))
  | _ => throw s!"unknown mutation {m}"

def resJ (db : Db) : Option (Except ErrKind Obj) → Except String Json
  | some (.ok o) => pure (Json.mkObj [("ok", canonObj db o)])
  | some (.error e) => pure (errJ e)
  | none => throw "step outside the model (mutation of this container / CreateWithQuantity without quantity)"

/-- a history on a private database, one answer per step: the state is the registry (`Ctor.hstep`:
registrations through `Reg.step`; questions and groups of forms are answered from `dbOf` of the
registry as it is at that step) -/
def runHist : Barril.Reg.Registry → List Json → Except String (List Json)
  | _, [] => pure []
  | r, j :: js => do
    match j.getObjVal? "q" with
    | .ok (.str "defcat") =>
      let u ← getSym j "unit"
      let out := match (hstep lg r (.defcat u)).2 with
        | .defcat d => defcatJ d
        | _ => .null
      pure (out :: (← runHist r js))
    | .ok (.str "forms") =>
      let out ← formsJ (dbOf lg r) j
      pure (out :: (← runHist r js))
    | .ok (.str "mut") =>
      let f ← parseForm (optField j "form")
      let ms ← (← getArr j "muts").toList.mapM parseMut
      match (hstep lg r (.mut (callOf f) ms)).2 with
      | .mut built after =>
        let b ← resJ (dbOf lg r) built
        let a ← match built with
          | some (.ok _) => resJ (dbOf lg r) after
          | _ => pure Json.null
        pure (Json.mkObj [("built", b), ("after", a)] :: (← runHist r js))
      | _ => throw "hstep"
    | .ok _ => throw "unknown question"
    | .error _ =>
      let op ← parseRegOp j
      let (r1, o) := hstep lg r (.reg op)
      let out := match o with
        | .reg x => regOutJ x
        | _ => .null
      pure (out :: (← runHist r1 js))

def handle (j : Json) : Except String Json := do
  let op ← getStr j "op"
  match op with
  | "forms" => formsJ theDb j
  | "hist" =>
    let steps ← getArr j "steps"
    let outs ← runHist Barril.Reg.Registry.empty steps.toList
    pure (Json.mkObj [("outs", Json.arr outs.toArray)])
  | "lit" =>
    let s ← getSym j "s"
    pure (Json.mkObj [("ok", .bool (parseLit (quoteLit (Sym.bytes s)) == some (Sym.bytes s)))])
  | "defcat" =>
    let u ← getSym j "unit"
    match getDefaultCategory theDb u with
    | .ok (some c) => pure (Json.mkObj [("ok", symJ c)])
    | .ok none => pure (Json.mkObj [("ok", .null)])
    | .error e => pure (errJ e)
  | "badrows" =>
    let bu := theDb.units.filter (fun r => !(r.defaultCatOk theDb && r.symPlain))
    let bc := theDb.cats.filter (fun c => !(c.defaultUnitOk theDb && c.namePlain))
    pure (Json.mkObj [("units", Json.arr (bu.map (fun r => symJ r.sym)).toArray),
      ("cats", Json.arr (bc.map (fun c => symJ c.name)).toArray)])
  | _ => throw s!"unknown op {op}"

def step (j : Json) : Json :=
  match handle j with
  | .ok r => r
  | .error e => Json.mkObj [("bad", .str e)]

def main : IO Unit := do
  loop (← IO.getStdin) (← IO.getStdout) step
