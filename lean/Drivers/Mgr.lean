/- line-protocol driver of the C17 manager model (`Barril/Model/Mgr.lean`); protocol: harness/props/C17.py

One line = one history `{"op":"history","ops":[…]}` run from `Mgr.init`; the answer lists, per step,
the result `r`, the callbacks fired `ev` and the full observable state `s`.  Object references of
the harness (`{"kept":id}` = the object the last successful `add` of `id` returned, `{"cur":true}` =
what `GetCurrent()` returns now) are resolved to heap addresses here; a reference to an object that
does not exist yet is answered `{"skip":true}` and changes nothing.  Value objects are numbered in the order of
the `reg` operations (every one is accepted); an operation on an object that does not exist yet or that died is
skipped.  The session starts with the observer's two listeners registered (`Session.__init__` does that), and
`ev` is what the observer receives (`seen`). -/
import Barril.Model.Proto
import Barril.Model.Mgr
import Barril.Gen.Dbs
open Lean Barril Barril.Proto Barril.Mgr

def absR (q : Rat) : Rat := if q < 0 then -q else q
def maxR (a b : Rat) : Rat := if a < b then b else a

/-- an object reference as the harness writes it -/
inductive Ref
  | nil
  | kept (id : Sym)
  | cur

inductive POp
  | template (mp : List (Sym × Sym))
  | add (id cap : Sym) (mp : Option (List (Sym × Sym))) (ro : Bool)
  | remove (id : Sym)
  | byid (id : Sym)
  | setcur (r : Ref)
  | setdef (r : Ref) (c u : Sym)
  | rmcat (r : Ref) (c : Sym)
  | getdef (r : Ref) (c : Sym)
  | eq (r r2 : Ref)
  | noop
  | conv (c u : Sym) (x : Rat)
  | sconv (c u : Sym) (x : Rat)
  | catdef (c : Sym)
  | qdef (c u : Sym)
  | newid
  | systems
  | getcur
  | reg (c u : Sym)
  | rereg (i : Nat)
  | kill (i : Nat)
  | objunit (i : Nat) (u : Sym)
  | update
  | reset
  | obscur
  | obsunit
  | setcap (r : Ref) (cap : Sym)
  | setro (r : Ref) (b : Bool)
  | eqother (r : Ref)
  | setclass (ok : Bool)
  /-- raising one of the module's error classes directly: both are `RuntimeError`s (no manager involved) -/
  | excls

def symOfJson : Json → Except String Sym
  | .str s => match s.toNat? with
    | some n => pure n
    | none => throw "symbol code expected"
  | _ => throw "symbol code expected"

def parsePairs : Json → Except String (List (Sym × Sym))
  | .arr a => a.toList.mapM (fun p => match p with
    | .arr #[c, u] => do pure (← symOfJson c, ← symOfJson u)
    | _ => throw "pair expected")
  | _ => throw "list of pairs expected"

def parseMap (j : Json) (k : String) : Except String (Option (List (Sym × Sym))) :=
  match j.getObjVal? k with
  | .ok .null => pure none
  | .ok v => do pure (some (← parsePairs v))
  | .error _ => throw s!"missing field {k}"

def parseRef (j : Json) (k : String) : Except String Ref :=
  match j.getObjVal? k with
  | .ok .null => pure .nil
  | .ok v =>
    match v.getObjVal? "kept" with
    | .ok s => do pure (.kept (← symOfJson s))
    | .error _ => match v.getObjVal? "cur" with
      | .ok _ => pure .cur
      | .error _ => throw s!"bad reference in {k}"
  | .error _ => throw s!"missing field {k}"

def parseOp (j : Json) : Except String POp := do
  let k ← getStr j "k"
  match k with
  | "template" =>
    match ← parseMap j "map" with
    | some mp => pure (.template mp)
    | none => throw "template needs a map"
  | "add" => pure (.add (← getSym j "id") (← getSym j "cap") (← parseMap j "map") (← getBool j "ro"))
  | "remove" => pure (.remove (← getSym j "id"))
  | "byid" => pure (.byid (← getSym j "id"))
  | "setcur" => pure (.setcur (← parseRef j "ref"))
  | "setdef" => pure (.setdef (← parseRef j "ref") (← getSym j "cat") (← getSym j "unit"))
  | "rmcat" => pure (.rmcat (← parseRef j "ref") (← getSym j "cat"))
  | "getdef" => pure (.getdef (← parseRef j "ref") (← getSym j "cat"))
  | "eq" => pure (.eq (← parseRef j "ref") (← parseRef j "ref2"))
  | "noop" => pure .noop
  | "conv" => pure (.conv (← getSym j "cat") (← getSym j "unit") (← getRat j "x"))
  | "sconv" => pure (.sconv (← getSym j "cat") (← getSym j "unit") (← getRat j "x"))
  | "catdef" => pure (.catdef (← getSym j "cat"))
  | "qdef" => pure (.qdef (← getSym j "cat") (← getSym j "unit"))
  | "newid" => pure .newid
  | "systems" => pure .systems
  | "getcur" => pure .getcur
  | "reg" => pure (.reg (← getSym j "cat") (← getSym j "unit"))
  | "rereg" => pure (.rereg (← getInt j "i").toNat)
  | "kill" => pure (.kill (← getInt j "i").toNat)
  | "objunit" => pure (.objunit (← getInt j "i").toNat (← getSym j "unit"))
  | "update" => pure .update
  | "reset" => pure .reset
  | "obscur" => pure .obscur
  | "obsunit" => pure .obsunit
  | "setcap" => pure (.setcap (← parseRef j "ref") (← getSym j "cap"))
  | "setro" => pure (.setro (← parseRef j "ref") (← getBool j "ro"))
  | "eqother" => pure (.eqother (← parseRef j "ref"))
  | "excls" => pure .excls
  | "setclass" => pure (.setclass (← getBool j "ok"))
  | _ => throw s!"unknown op kind {k}"

/-- harness-side variables: `kept[id]` -/
abbrev Kept := List (Sym × Nat)

def keptGet (k : Kept) (id : Sym) : Option Nat := (k.find? (·.1 == id)).map (·.2)

/-- `none` = the referenced object does not exist yet; `some none` = Python `None` -/
def resolve (m : Mgr) (k : Kept) : Ref → Option (Option Nat)
  | .nil => some none
  | .kept id => (keptGet k id).map some
  | .cur => some (some m.currentAddr)

def resolveObj (m : Mgr) (k : Kept) (r : Ref) : Option Nat :=
  match resolve m k r with
  | some (some a) => some a
  | _ => none

/-- the harness still holds value object `i` -/
def liveObj (m : Mgr) (i : Nat) : Bool :=
  match m.objs[i]? with
  | some o => o.alive
  | none => false

/-- the model operation of a protocol operation (`none` = skipped) -/
def toOp (m : Mgr) (k : Kept) : POp → Option Op
  | .template mp => some (.setTemplate mp)
  | .add id cap mp ro => some (.add id cap mp ro)
  | .remove id => some (.remove id)
  | .byid id => some (.getById id)
  | .setcur r => (resolve m k r).map Op.setCurrent
  | .setdef r c u => (resolveObj m k r).map (fun a => Op.setDefaultUnit a c u)
  | .rmcat r c => (resolveObj m k r).map (fun a => Op.removeCategory a c)
  | .getdef r c => (resolveObj m k r).map (fun a => Op.getDefaultUnit a c)
  | .eq r r2 =>
    match resolveObj m k r, resolveObj m k r2 with
    | some a, some b => some (.sysEq a b)
    | _, _ => none
  | .noop => none
  | .conv c u x => some (.convertToCurrent c u x)
  | .sconv c u x => some (.convertScalarToCurrent c u x)
  | .catdef c => some (.getCategoryDefaultUnit c)
  | .qdef c u => some (.getQuantityDefaultUnit c u)
  | .newid => some .getNewId
  | .systems => some .getUnitSystems
  | .getcur => some .getCurrent
  | .reg c u => some (.register c u)
  | .rereg i => if liveObj m i then some (.registerAgain i) else none
  | .kill i => if liveObj m i then some (.kill i) else none
  | .objunit i u => if liveObj m i then some (.objSetUnit i u) else none
  | .update => some .updateObjects
  | .reset => some .resetInstance
  | .obscur => some .observeCurrent
  | .obsunit => some .observeUnit
  | .setcap r cap => (resolveObj m k r).map (fun a => Op.setCaption a cap)
  | .setro r b => (resolveObj m k r).map (fun a => Op.setReadOnly a b)
  | .eqother r => (resolveObj m k r).map Op.sysEqOther
  | .excls => none
  | .setclass ok => some (.setSystemClass ok)

def optSymJ : Option Sym → Json
  | none => .null
  | some s => symJ s

def pairsJ (d : List (Sym × Sym)) : Json := .arr (d.map (fun p => Json.arr #[symJ p.1, symJ p.2])).toArray

def regJ (r : List (Sym × Nat)) : Json := .arr (r.map (fun p => Json.arr #[symJ p.1, toJson p.2])).toArray

def inputMag : POp → Rat
  | .conv _ _ x => absR x
  | .sconv _ _ x => absR x
  | _ => 0

def outJ (p : POp) : Except ErrKind Out → Json
  | .error e => errJ e
  | .ok .none => Json.mkObj [("ok", .null)]
  | .ok (.sys a) => Json.mkObj [("ok", Json.mkObj [("ref", toJson a)])]
  | .ok (.unit u) => Json.mkObj [("ok", Json.mkObj [("unit", optSymJ u)])]
  | .ok (.bool b) => Json.mkObj [("ok", Json.mkObj [("bool", .bool b)])]
  | .ok (.value x u) =>
    Json.mkObj [("ok", Json.mkObj [("x", ratJ x), ("M", ratJ (maxR (inputMag p) (absR x))), ("unit", symJ u)])]
  | .ok (.scalar x u c) =>
    Json.mkObj [("ok", Json.mkObj [("x", ratJ x), ("M", ratJ (maxR (inputMag p) (absR x))), ("unit", symJ u),
      ("cat", symJ c)])]
  | .ok (.newId s) => Json.mkObj [("ok", Json.mkObj [("newid", symJ s)])]
  | .ok (.systems l) => Json.mkObj [("ok", Json.mkObj [("systems", regJ l)])]

def eventJ : Event → Json
  | .current a => Json.arr #[.str "cur", toJson a]
  | .unitChanged c u => Json.arr #[.str "unit", symJ c, optSymJ u]

def sysJ (o : USys) : Json :=
  Json.arr #[optSymJ o.id, symJ o.caption, pairsJ o.mapping, .bool o.readOnly, .bool o.listening]

def objJ (o : VObj) : Json := Json.arr #[symJ o.cat, symJ o.unit, .bool o.alive, toJson (if o.alive then o.wraps else 0)]

/-- wraps in `_object_refs` whose referent is gone (0 in every reachable state: `reachable_ObjsWf`) -/
def deadRefs (m : Mgr) : Nat := (m.objs.map (fun o => if o.alive then 0 else o.wraps)).sum

def snapJ (m : Mgr) : Json :=
  Json.mkObj [("reg", regJ m.reg), ("heap", .arr (m.heap.map sysJ).toArray), ("cur", toJson m.currentAddr),
    ("tmpl", match m.tmpl with
      | none => .null
      | some t => pairsJ t.mapping),
    ("objs", .arr (m.objs.map objJ).toArray), ("deadrefs", toJson (deadRefs m)),
    ("obs", Json.arr #[.bool m.obsCur, .bool m.obsUnit])]

def stepJ (r : Json) (ev : List Event) (m : Mgr) : Json :=
  Json.mkObj [("r", r), ("ev", .arr (ev.map eventJ).toArray), ("s", snapJ m)]

def keptSet (k : Kept) (id : Sym) (a : Nat) : Kept := (id, a) :: k.filter (·.1 != id)

def runOps (db : Db) : Mgr → Kept → List POp → List Json
  | _, _, [] => []
  | m, k, p :: ps =>
    match p, toOp m k p with
    | .excls, _ => stepJ (errJ .runtime) [] m :: runOps db m k ps
    | _, none => stepJ (Json.mkObj [("skip", .bool true)]) [] m :: runOps db m k ps
    | _, some op =>
      let r := step db m op
      let k' := match p, r.out with
        | .add id _ _ _, .ok (.sys a) => keptSet k id a
        | _, _ => k
      stepJ (outJ p r.out) (seen m r.log) r.mgr :: runOps db r.mgr k' ps

/-- `UnitSystemManager()` followed by the observer registering its two listeners -/
def sessionInit : Mgr := (step Gen.poscDb (step Gen.poscDb Mgr.init .observeCurrent).mgr .observeUnit).mgr

def handle (j : Json) : Except String Json := do
  let op ← getStr j "op"
  match op with
  | "history" =>
    let ops ← getArr j "ops"
    let ops ← ops.toList.mapM parseOp
    pure (Json.mkObj [("steps", Json.arr (runOps Gen.poscDb sessionInit [] ops).toArray)])
  | _ => throw s!"unknown op {op}"

def step' (j : Json) : Json :=
  match handle j with
  | .ok r => r
  | .error e => Json.mkObj [("bad", .str e)]

def main : IO Unit := do
  loop (← IO.getStdin) (← IO.getStdout) step'
