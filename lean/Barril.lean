-- root of the `Barril` library: model, generated tables, proofs and property theorems
import Barril.Model.Basic
import Barril.Model.Legacy
import Barril.Model.Conv
import Barril.Gen.All
