-- root of the `Barril` library: model, generated tables, proofs and property theorems
import Barril.Model.Basic
import Barril.Model.Legacy
import Barril.Model.Conv
import Barril.Gen.All
import Barril.Model.Proto
import Barril.Model.Fail
import Barril.Proofs.ConvLemmas
import Barril.Proofs.FailLemmas
import Barril.Props.C01
import Barril.Props.C05
import Barril.Model.Mgr
import Barril.Proofs.MgrLemmas
import Barril.Props.C17
import Barril.Model.Str
import Barril.Model.StrRender
import Barril.Proofs.StrLemmas
import Barril.Props.C20
