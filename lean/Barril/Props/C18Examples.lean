/- Non-vacuity examples of C18 (moved out of Props/C18.lean by tools/split_examples.py: they evaluate
concrete instances, many over the regenerated tables, and must not be able to stop the theorem module from
building).  Not property theorems: the check builds this module separately and only records the outcome. -/
import Barril.Props.C18
import Barril.Proofs.FracLemmas
import Barril.Proofs.FracText
import Barril.Proofs.FracCF
import Barril.Proofs.FracDigits
import Barril.Props.C01

namespace Barril.Frac
open Barril Barril.Gen

example : obtain poscDb (Sym.ofString "temperature") (Sym.ofString "degC")
    = .ok ⟨Sym.ofString "temperature", Sym.ofString "degC"⟩ := by decide +kernel
/-- 5 1/2 degC = 278.15 + 1/2 K = 278.65 K (the repaired defect #23) -/
example : convertFV poscDb (Sym.ofString "temperature") (Sym.ofString "degC") (Sym.ofString "K") ⟨5, ⟨1 / 2⟩⟩
    = .ok ⟨R 27815 100, ⟨1 / 2⟩⟩ := by decide +kernel
example : (⟨Sym.ofString "temperature", Sym.ofString "degC"⟩ : Qty).convertScalarValue poscDb (Sym.ofString "K") (11 / 2)
    = .ok (R 27865 100) := by decide +kernel
example : convertFV poscDb (Sym.ofString "length") (Sym.ofString "in") (Sym.ofString "mm") ⟨5, ⟨3 / 4⟩⟩
    = .ok ⟨127, ⟨R 381 20⟩⟩ := by decide +kernel
example : convertFV poscDb (Sym.ofString "pressure") (Sym.ofString "psig") (Sym.ofString "Pa") ⟨0, ⟨1 / 2⟩⟩
    = .ok ⟨101325, ⟨R 6894757 2000⟩⟩ := by decide +kernel

/-- the direct classmethod call with the target-unit quantity: 2 1/2 cm = 25 mm (20 mm + 10/2 mm), and
degC → degF with a degF quantity keeps the offset: 2 1/2 degC = 36.5 degF -/
example : convertFractionValue poscDb (.quantity ⟨Sym.ofString "length", Sym.ofString "mm"⟩)
    (Sym.ofString "cm") (Sym.ofString "mm") ⟨2, ⟨1 / 2⟩⟩ = .ok ⟨20, ⟨5⟩⟩ := by decide +kernel
example : (convertFractionValue poscDb (.quantity ⟨Sym.ofString "temperature", Sym.ofString "degF"⟩)
    (Sym.ofString "degC") (Sym.ofString "degF") ⟨2, ⟨1 / 2⟩⟩).map FV.value = .ok (R 73 2) := by decide +kernel
example : convertFractionValue poscDb (.qtype (Sym.ofString "length"))
    (Sym.ofString "cm") (Sym.ofString "mm") ⟨2, ⟨1 / 2⟩⟩ = .ok ⟨20, ⟨5⟩⟩ := by decide +kernel

example : Printable (21 / 4) := Or.inr ⟨525000, 5, by norm_num, by norm_num, by norm_num, by norm_num⟩
example : Printable (-3 / 10000) := Or.inr ⟨300000, 9, by norm_num, by norm_num, by norm_num, by
  rw [abs_of_neg (by norm_num)]; norm_num⟩
example : (⟨21 / 4, ⟨-3 / 4⟩⟩ : FV).str = ['5', '.', '2', '5', ' ', '-', '3', '/', '4'] := by decide +kernel
example : parse ['5', '.', '2', '5', ' ', '-', '3', '/', '4'] = .ok ⟨21 / 4, ⟨-3 / 4⟩⟩ := by decide +kernel
/-- the regular expression backtracks: "1.25.5/4" is read as 1.2 and 5.5/4 -/
example : parse ['1', '.', '2', '5', '.', '5', '/', '4'] = .ok ⟨6 / 5, ⟨11 / 8⟩⟩ := by decide +kernel
example : parse ['1', '/', '0'] = .error .assertion := by decide +kernel
example : parse ['5', ',', '5', ' ', '1', '/', '2'] = .error .value := by decide +kernel

/-- the hypotheses of `createFromFloat_exact` on -2.75 (two decimal places) -/
example : ∃ v, createFromFloat (-11 / 4) = .ok v ∧ v.value = -11 / 4 :=
  createFromFloat_exact (-11 / 4) 2 (by norm_num) (by norm_num)
    (by rw [abs_of_neg (by norm_num)]; norm_num) (by rw [abs_of_neg (by norm_num)]; norm_num)
example : createFromFloat (3 / 8) = .ok ⟨0, ⟨3 / 8⟩⟩ := by decide +kernel
example : createFromFloat (-11 / 4) = .ok ⟨-2, ⟨-3 / 4⟩⟩ := by decide +kernel
example : createFromFloat (12345678 / 100000000) = .ok ⟨0, ⟨6172839 / 50000000⟩⟩ := by decide +kernel
example : decParts (|(-11 / 4 : Rat)|) = some ⟨275, 3, 1⟩ := by decide +kernel
example : getFractionalPart (|(-11 / 4 : Rat)|) ⟨275, 3, 1⟩ = 3 / 4 := by decide +kernel
example : decParts (3 / 4) = some ⟨75, 2, 0⟩ ∧ getMaxNumerator ⟨75, 2, 0⟩ = 75 := by decide +kernel


/-! ### witnesses over the shipped table (machine-checked on the tree they were written for; a changed table
value can change them without touching a property theorem, hence here and not in the theorem module) -/

/-- **the bound is attained: below `SMALL` the fraction is lost.**  `0 1/2 um` converts to `0 km`
although `0.5 um = 5·10⁻¹⁰ km` (known finding `tiny-increment`; the full-strength statement
"`r.value = y` for all units" is false) -/
theorem fs_convert_tiny_counterexample :
    convertFV poscDb (Sym.ofString "length") (Sym.ofString "um") (Sym.ofString "km") ⟨0, ⟨1 / 2⟩⟩
      = .ok ⟨0, ⟨0⟩⟩
    ∧ (⟨Sym.ofString "length", Sym.ofString "um"⟩ : Qty).convertScalarValue poscDb (Sym.ofString "km") (1 / 2)
      = .ok (1 / 2000000000) := by
  constructor <;> decide +kernel

end Barril.Frac
