/- Non-vacuity examples of C17 (moved out of Props/C17.lean by tools/split_examples.py: they evaluate
concrete instances, many over the regenerated tables, and must not be able to stop the theorem module from
building).  Not property theorems: the check builds this module separately and only records the outcome. -/
import Barril.Props.C17
import Barril.Proofs.MgrLemmas
import Barril.Gen.Dbs

namespace Barril.Mgr
open Barril

example : twoSystems.cur = some 1 ∧ twoSystems.reg = [(97, 1), (98, 2)] := by decide
example : MgrInv twoSystems :=
  run_preserves_MgrInv_partial db0 _ init_inv ⟨trivial, trivial, trivial⟩
example : DictsWf twoSystems := reachable_DictsWf db0 _
example : (1 : Sym) ∈ dkeys [((1 : Sym), (2 : Sym))] ∧ twoSystems.heap[1]?.map (·.mapping) = some [(1, 2)] := by decide
example : Guarded db0 Mgr.init [.add 97 65 none false, .add 98 66 none false, .setCurrent (some 2), .setCurrent none] :=
  ⟨trivial, trivial, ⟨98, by decide⟩, trivial, trivial⟩
example : ¬ Guarded db0 Mgr.init [.add 97 65 none false, .remove 97, .setCurrent (some 1)] := by
  rintro ⟨_, _, ⟨id, h⟩, _⟩
  exact absurd h (by simp [step, addUnitSystem, removeUnitSystem, regHas, regErase, Mgr.init, resolveMapping,
    setCurrent, Mgr.register, Mgr.unregister, Mgr.currentId, nextCurrent, unregisterCurrent, setListening,
    nullSys, USys.new, dofList])
example : (step db0 Mgr.init (.add 97 65 none false)).out = .ok (.sys 1) ∧ Mgr.init.cur = none := ⟨rfl, rfl⟩
example : (step db0 twoSystems (.add 99 67 none false)).out = .ok (.sys 3) ∧
    (step db0 twoSystems (.add 99 67 none false)).log = [] := ⟨rfl, rfl⟩
example : twoSystems.cur = some 1 ∧ (97, 1) ∈ twoSystems.reg := by decide
example : (step db0 twoSystems (.remove 97)).mgr.cur = some 2 ∧
    (step db0 twoSystems (.remove 97)).log = [.current 2] := by decide
example : (run db0 twoSystems [.remove 97, .remove 98]).cur = none ∧
    runLog db0 twoSystems [.remove 97, .remove 98] = [.current 2, .current 0] := by decide
example : (step db0 twoSystems (.remove 98)).mgr.cur = some 1 ∧ (step db0 twoSystems (.remove 98)).log = [] := by
  decide
example : (step db0 twoSystems (.add 97 65 none false)).out = .error .key := rfl
example : (run db0 twoSystems [.remove 98, .setTemplate [(1, 2)]]).tmpl.isSome = true ∧
    (step db0 (run db0 twoSystems [.remove 98, .setTemplate [(1, 2)]]) (.add 99 67 (some [(3, 4)]) false)).out
      = .error .key ∧
    (step db0 (run db0 twoSystems [.remove 98, .setTemplate [(1, 2)]]) (.add 99 67 (some [(3, 4), (1, 7)]) false)).out
      = .ok (.sys 3) := ⟨rfl, rfl, rfl⟩
example : (step db0 twoSystems (.setTemplate [(1, 2)])).out = .error .runtime := rfl   -- "b" is empty
example : (step db0 (step db0 twoSystems (.remove 98)).mgr (.setTemplate [(1, 2)])).out = .ok .none := rfl
example : (step db0 twoSystems (.remove 100)).out = .error .key := rfl
example : (step db0 twoSystems (.setDefaultUnit 1 5 6)).log = [.unitChanged 5 (some 6)] := by decide
example : (step db0 twoSystems (.setDefaultUnit 2 5 6)).log = [] := by decide
example : (step db0 twoSystems (.removeCategory 1 1)).log = [.unitChanged 1 none] := by decide
example : (step db0 twoSystems (.removeCategory 1 9)).log = [] := by decide
example : (step db0 (step db0 twoSystems (.add (newIdCandidate 1) 0 none false)).mgr .getNewId).out
    = .ok (.newId (Sym.ofBytes [115, 121, 115, 116, 101, 109, 32, 50])) := by decide +kernel
open Barril.Gen in
example :
    let m := (step poscDb Mgr.init (.add 97 65 (some [(Sym.ofString "length", Sym.ofString "km")]) false)).mgr
    (step poscDb m (.convertToCurrent (Sym.ofString "length") (Sym.ofString "m") 1500)).out
        = .ok (.value (3 / 2) (Sym.ofString "km")) ∧
    (step poscDb m (.convertToCurrent (Sym.ofString "time") (Sym.ofString "s") 7)).out
        = .ok (.value 7 (Sym.ofString "s")) ∧
    (step poscDb (step poscDb m (.setDefaultUnit 1 (Sym.ofString "time") (Sym.ofString "m"))).mgr
        (.convertToCurrent (Sym.ofString "time") (Sym.ofString "s") 7)).out = .error .units := by
  decide +kernel

/-! ### value objects, observers, flags (categories 1, 3; units 2, 5, 7, 8, 9 are just symbols here) -/

/-- object 0 (category 1, unit 7) is registered before any system exists; "a" (1 ↦ 2) is added and becomes
current; then object 1 (category 3, unit 8) and object 2 (category 1, unit 9) are registered -/
def withObjects : Mgr := run db0 Mgr.init [.register 1 7, .add 97 65 (some [(1, 2)]) false, .register 3 8, .register 1 9]

-- object 0 followed the first system, object 1 has no default, object 2 was brought to "a" at Register
example : withObjects.objs = [⟨1, 2, 1, true⟩, ⟨3, 8, 1, true⟩, ⟨1, 2, 1, true⟩] ∧ withObjects.cur = some 1 := by decide
example : (run db0 Mgr.init [.register 1 7]).objs = [⟨1, 7, 1, true⟩] := by decide
example : ObjsWf withObjects ∧ MgrWf withObjects := ⟨reachable_ObjsWf db0 _, reachable_MgrWf db0 _⟩
-- `objects_follow_on_current`: SetCurrent(None) notifies and leaves the objects; a second system selected: they follow
example : (step db0 withObjects (.setCurrent none)).log = [.current 0] ∧
    (step db0 withObjects (.setCurrent none)).mgr.objs = withObjects.objs := by decide
example : (run db0 withObjects [.add 98 66 (some [(1, 5), (3, 6)]) false, .setCurrent (some 2)]).objs
    = [⟨1, 5, 1, true⟩, ⟨3, 6, 1, true⟩, ⟨1, 5, 1, true⟩] := by decide
example : specUnit withObjects ⟨1, 7, 1, true⟩ = 2 ∧ specUnit withObjects ⟨3, 7, 1, true⟩ = 7 ∧
    specUnit withObjects ⟨1, 7, 0, false⟩ = 7 ∧ specUnit Mgr.init ⟨1, 7, 1, true⟩ = 7 := by decide
-- `default_unit_change_keeps_objects`, `updateObjects_propagates_default` (its hypotheses hold for object 0)
example : (step db0 withObjects (.setDefaultUnit 1 1 5)).log = [.unitChanged 1 (some 5)] ∧
    (step db0 withObjects (.setDefaultUnit 1 1 5)).mgr.objs = withObjects.objs ∧
    (run db0 withObjects [.setDefaultUnit 1 1 5, .updateObjects]).objs
      = [⟨1, 5, 1, true⟩, ⟨3, 8, 1, true⟩, ⟨1, 5, 1, true⟩] := by decide
example : withObjects.cur = some 1 ∧ (1 : Sym) ≠ 0 ∧ withObjects.objs[0]? = some ⟨1, 2, 1, true⟩ := by decide
-- the null system may hold a default while none is current: objects are not touched
example : (run db0 Mgr.init [.setDefaultUnit 0 1 5, .register 1 7, .updateObjects, .setCurrent none]).objs
    = [⟨1, 7, 1, true⟩] := by decide
-- a second Register of the same object is a second wrap; both leave when the object dies; a dead object stays as it is
example : (step db0 withObjects (.registerAgain 2)).mgr.objs[2]? = some ⟨1, 2, 2, true⟩ := by decide
example : (run db0 withObjects [.registerAgain 0, .kill 0]).objs[0]? = some ⟨1, 2, 0, false⟩ := by decide
example : (run db0 withObjects [.kill 0, .setDefaultUnit 1 1 5, .updateObjects, .setCurrent (some 1)]).objs
    = [⟨1, 2, 0, false⟩, ⟨3, 8, 1, true⟩, ⟨1, 5, 1, true⟩] := by decide
example : (step db0 (step db0 withObjects (.kill 0)).mgr (.registerAgain 0)).out = .error .other ∧
    (step db0 (step db0 withObjects (.kill 0)).mgr (.objSetUnit 0 9)).out = .error .other := by decide
example : (step db0 withObjects (.objSetUnit 1 9)).mgr.objs[1]? = some ⟨3, 9, 1, true⟩ := by decide
-- `updateObjects_after_setCurrent_id` is not about a trivial situation: without the SetCurrent the call does change objects
example : updateObjects (step db0 withObjects (.setDefaultUnit 1 1 5)).mgr ≠ (step db0 withObjects (.setDefaultUnit 1 1 5)).mgr := by
  decide

/-- the observer registered on both callbacks (what the harness does right after construction) -/
def observed : Mgr := run db0 withObjects [.observeCurrent, .observeUnit]

example : observed.obsCur = true ∧ observed.obsUnit = true ∧ Mgr.init.obsCur = false := by decide
example : seen observed (step db0 observed (.setDefaultUnit 1 1 5)).log = [.unitChanged 1 (some 5)] ∧
    seen withObjects (step db0 withObjects (.setDefaultUnit 1 1 5)).log = [] := by decide
-- `reset_silences`: the manager still invokes its callbacks (its own listener on "a" stayed), nobody receives them
example : runLog db0 (step db0 observed .resetInstance).mgr [.setDefaultUnit 1 1 5, .setCurrent none]
      = [.unitChanged 1 (some 5), .current 0] ∧
    runSeen db0 (step db0 observed .resetInstance).mgr [.setDefaultUnit 1 1 5, .setCurrent none] = [] ∧
    runSeen db0 (step db0 observed .resetInstance).mgr [.observeCurrent, .setDefaultUnit 1 1 5, .setCurrent none]
      = [.current 0] ∧
    runSeen db0 observed [.setDefaultUnit 1 1 5, .setCurrent none] = [.unitChanged 1 (some 5), .current 0] := by decide
example : (step db0 observed .resetInstance).mgr.heap = observed.heap ∧ (step db0 observed .resetInstance).mgr.cur = some 1 ∧
    (step db0 observed .resetInstance).mgr.objs = observed.objs := by decide
-- caption / read-only flag: the null system is read-only and takes a default unit all the same
example : Mgr.init.heap[0]? = some nullSys ∧ nullSys.readOnly = true ∧
    (step db0 Mgr.init (.setDefaultUnit 0 1 2)).out = .ok .none ∧
    (step db0 Mgr.init (.setDefaultUnit 0 1 2)).mgr.heap[0]?.map (·.mapping) = some [(1, 2)] := by decide
example : (step db0 twoSystems (.setReadOnly 2 false)).mgr.heap[2]?.map (·.readOnly) = some false ∧
    twoSystems.heap[2]?.map (·.readOnly) = some true ∧
    (step db0 twoSystems (.setCaption 1 66)).mgr.heap[1]?.map (·.caption) = some 66 ∧
    (step db0 twoSystems (.setCaption 7 66)).out = .error .other := by decide
example : (step db0 twoSystems (.sysEq 1 1)).out = .ok (.bool true) ∧ (step db0 twoSystems (.sysEq 1 2)).out = .ok (.bool false) ∧
    (step db0 twoSystems (.sysEqOther 1)).out = .ok (.bool false) := by decide
-- the error classes: a rejected template names the system that misses a category
example : (step db0 twoSystems (.setTemplate [(1, 2)])).out = .error .runtime ∧ invalidSystems twoSystems [1] = [some 98] := by
  decide
example : (step db0 Mgr.init (.setSystemClass false)).out = .error .assertion ∧
    (step db0 Mgr.init (.setSystemClass true)).out = .ok .none := by decide

end Barril.Mgr
