/- Non-vacuity examples of C17 (moved out of Props/C17.lean by tools/split_examples.py: they evaluate
concrete instances, many over the regenerated tables, and must not be able to stop the theorem module from
building).  Not property theorems: the check builds this module separately and only records the outcome. -/
import Barril.Props.C17
import Barril.Proofs.MgrLemmas
import Barril.Gen.Dbs

namespace Barril.Mgr
open Barril

example : twoSystems.cur = some 1 ∧ twoSystems.reg = [(97, 1), (98, 2)] := by decide
example : MgrInv twoSystems :=
  run_preserves_MgrInv_partial db0 _ init_inv ⟨trivial, trivial, trivial⟩
example : DictsWf twoSystems := reachable_DictsWf db0 _
example : (1 : Sym) ∈ dkeys [((1 : Sym), (2 : Sym))] ∧ twoSystems.heap[1]?.map (·.mapping) = some [(1, 2)] := by decide
example : Guarded db0 Mgr.init [.add 97 65 none false, .add 98 66 none false, .setCurrent (some 2), .setCurrent none] :=
  ⟨trivial, trivial, ⟨98, by decide⟩, trivial, trivial⟩
example : ¬ Guarded db0 Mgr.init [.add 97 65 none false, .remove 97, .setCurrent (some 1)] := by
  rintro ⟨_, _, ⟨id, h⟩, _⟩
  exact absurd h (by simp [step, addUnitSystem, removeUnitSystem, regHas, regErase, Mgr.init, resolveMapping,
    setCurrent, Mgr.register, Mgr.unregister, Mgr.currentId, nextCurrent, unregisterCurrent, setListening,
    nullSys, USys.new, dofList])
example : (step db0 Mgr.init (.add 97 65 none false)).out = .ok (.sys 1) ∧ Mgr.init.cur = none := ⟨rfl, rfl⟩
example : (step db0 twoSystems (.add 99 67 none false)).out = .ok (.sys 3) ∧
    (step db0 twoSystems (.add 99 67 none false)).log = [] := ⟨rfl, rfl⟩
example : twoSystems.cur = some 1 ∧ (97, 1) ∈ twoSystems.reg := by decide
example : (step db0 twoSystems (.remove 97)).mgr.cur = some 2 ∧
    (step db0 twoSystems (.remove 97)).log = [.current 2] := by decide
example : (run db0 twoSystems [.remove 97, .remove 98]).cur = none ∧
    runLog db0 twoSystems [.remove 97, .remove 98] = [.current 2, .current 0] := by decide
example : (step db0 twoSystems (.remove 98)).mgr.cur = some 1 ∧ (step db0 twoSystems (.remove 98)).log = [] := by
  decide
example : (step db0 twoSystems (.add 97 65 none false)).out = .error .key := rfl
example : (run db0 twoSystems [.remove 98, .setTemplate [(1, 2)]]).tmpl.isSome = true ∧
    (step db0 (run db0 twoSystems [.remove 98, .setTemplate [(1, 2)]]) (.add 99 67 (some [(3, 4)]) false)).out
      = .error .key ∧
    (step db0 (run db0 twoSystems [.remove 98, .setTemplate [(1, 2)]]) (.add 99 67 (some [(3, 4), (1, 7)]) false)).out
      = .ok (.sys 3) := ⟨rfl, rfl, rfl⟩
example : (step db0 twoSystems (.setTemplate [(1, 2)])).out = .error .runtime := rfl   -- "b" is empty
example : (step db0 (step db0 twoSystems (.remove 98)).mgr (.setTemplate [(1, 2)])).out = .ok .none := rfl
example : (step db0 twoSystems (.remove 100)).out = .error .key := rfl
example : (step db0 twoSystems (.setDefaultUnit 1 5 6)).log = [.unitChanged 5 (some 6)] := by decide
example : (step db0 twoSystems (.setDefaultUnit 2 5 6)).log = [] := by decide
example : (step db0 twoSystems (.removeCategory 1 1)).log = [.unitChanged 1 none] := by decide
example : (step db0 twoSystems (.removeCategory 1 9)).log = [] := by decide
example : (step db0 (step db0 twoSystems (.add (newIdCandidate 1) 0 none false)).mgr .getNewId).out
    = .ok (.newId (Sym.ofBytes [115, 121, 115, 116, 101, 109, 32, 50])) := by decide +kernel
open Barril.Gen in
example :
    let m := (step poscDb Mgr.init (.add 97 65 (some [(Sym.ofString "length", Sym.ofString "km")]) false)).mgr
    (step poscDb m (.convertToCurrent (Sym.ofString "length") (Sym.ofString "m") 1500)).out
        = .ok (.value (3 / 2) (Sym.ofString "km")) ∧
    (step poscDb m (.convertToCurrent (Sym.ofString "time") (Sym.ofString "s") 7)).out
        = .ok (.value 7 (Sym.ofString "s")) ∧
    (step poscDb (step poscDb m (.setDefaultUnit 1 (Sym.ofString "time") (Sym.ofString "m"))).mgr
        (.convertToCurrent (Sym.ofString "time") (Sym.ofString "s") 7)).out = .error .units := by
  decide +kernel

end Barril.Mgr
