/- Non-vacuity examples of C19 (moved out of Props/C19.lean by tools/split_examples.py: they evaluate
concrete instances, many over the regenerated tables, and must not be able to stop the theorem module from
building).  Not property theorems: the check builds this module separately and only records the outcome. -/
import Barril.Props.C19
import Barril.Proofs.CtorLemmas
import Barril.Gen.ThmDefcatPosc
import Barril.Gen.ThmDefunitPosc
import Barril.Gen.ThmSymplainPosc
import Barril.Gen.ThmCatplainPosc

namespace Barril.Ctor
open Barril Barril.Gen

example : getDefaultCategory poscDb (Sym.ofString "m") = .ok (some (Sym.ofString "length")) := by decide +kernel
example : getDefaultCategory poscDb (Sym.ofString "1000ft3/d") = getDefaultCategory poscDb (Sym.ofString "Mcf/d") := by
  decide +kernel
example : newQuantity poscDb (.str (Sym.ofString "length") none) (Sym.ofString "m")
    = .ok (Qty.simple (Sym.ofString "length") (Sym.ofString "m")) := by decide +kernel
example : construct poscDb .scalar (.num (5/2)) (.str (Sym.ofString "m")) .none
    = .ok ⟨(Qty.simple (Sym.ofString "length") (Sym.ofString "m")), .scalar (5/2)⟩ := by decide +kernel
example : construct poscDb .scalar (.str (Sym.ofString "length")) (.num (5/2)) (.str (Sym.ofString "m") none)
    = construct poscDb .scalar (.seq .tuple [.num (5/2) false, .str (Sym.ofString "m") none]) .none .none := by
  decide +kernel
example : construct poscDb .scalar (.num 1) (.str (Sym.ofString "m")) (.str (Sym.ofString "depth") none)
    ≠ construct poscDb .scalar (.num 1) (.str (Sym.ofString "m")) .none := by decide +kernel
example : construct poscDb .scalar (.str (Sym.ofString "length")) (.num 1) .none = .error .assertion := by
  decide +kernel
example : construct poscDb .scalar (.num 1) (.str (Sym.ofString "s")) (.str (Sym.ofString "length") none)
    = .error .units := by decide +kernel
example : construct poscDb (.fixed 1) (.seq .list [.num 1 true]) (.str (Sym.ofString "m")) .none = .error .value := by
  decide +kernel
example : construct poscDb (.fixed 2) (.seq .list [.num 1 true, .num 2 true]) (.str (Sym.ofString "m")) .none
    = createWithQuantity poscDb (.fixed 0) (Qty.simple (Sym.ofString "length") (Sym.ofString "m"))
        (.seq .list [.num 1 true, .num 2 true]) true none := by decide +kernel
example : construct poscDb (.fixed 3) (.seq .list [.num 1 true, .num 2 true]) (.str (Sym.ofString "m")) .none
    = .error .value := by decide +kernel
example : parseLit (quoteLit (Sym.bytes (Sym.ofString "m'"))) = none := by decide +kernel
example : reprBack poscDb ⟨(Qty.simple (Sym.ofString "length") (Sym.ofString "m")), .scalar (5/2)⟩
    = some (.ok ⟨(Qty.simple (Sym.ofString "length") (Sym.ofString "m")), .scalar (5/2)⟩) := by decide +kernel
example : Obj.eq ⟨(Qty.simple 1 2), .arr (.seq .list [.num 2 true])⟩ ⟨(Qty.simple 1 2), .arr (.seq .tuple [.num 2 false])⟩ = .ok true := by
  decide
example : Obj.eq ⟨(Qty.simple 1 2), .arr (.seq .list [.num 2 true, .num 3 true])⟩
    ⟨(Qty.simple 1 2), .fixed (.seq .list [.num 2 true, .num 3 true]) 2⟩ = .ok false := by decide
example : Obj.eq ⟨(Qty.simple 1 2), .arr (.num 5)⟩ ⟨(Qty.simple 1 2), .arr (.num 5)⟩ = .error .type := by decide

-- an int that no double holds: every form stores the float image, and the int itself is != to it
example : construct poscDb .scalar (.atom (.big (2^53 + 1) (2^53))) (.str (Sym.ofString "m")) .none
    = .ok ⟨(Qty.simple (Sym.ofString "length") (Sym.ofString "m")), .scalar (2^53)⟩ := by decide +kernel
example : createWithQuantity poscDb .scalar (Qty.simple (Sym.ofString "length") (Sym.ofString "m")) (.atom (.big (2^53 + 1) (2^53))) false none
    = construct poscDb .scalar (.atom (.big (2^53 + 1) (2^53))) (.str (Sym.ofString "m")) .none := by decide +kernel
example : atomEq (.big (2^53 + 1) (2^53)) (.num (2^53) false) = false := by decide +kernel
example : atomEq (.bool true) (.num 1 false) = true := by decide +kernel
example : construct poscDb .fraction (.atom (.bool true)) (.str (Sym.ofString "m")) .none
    = .ok ⟨(Qty.simple (Sym.ofString "length") (Sym.ofString "m")), .fraction 1 0⟩ := by decide +kernel

-- a list of 2 tuples of size 3: the FixedArray dimension is 2 in every form, CreateWithQuantity included
example : createWithQuantity poscDb (.fixed 0) (Qty.simple (Sym.ofString "length") (Sym.ofString "m"))
      (.rows .list [[.num 1 true, .num 2 true, .num 3 true], [.num 4 true, .num 5 true, .num 6 true]]) false none
    = construct poscDb (.fixed 2)
      (.rows .list [[.num 1 true, .num 2 true, .num 3 true], [.num 4 true, .num 5 true, .num 6 true]])
      (.str (Sym.ofString "m")) .none := by decide +kernel
example : (construct poscDb (.fixed 2) (.rows .list [[.num 1 true], [.num 4 true, .num 5 true]])
      (.str (Sym.ofString "m")) .none).toBool = true := by decide +kernel
example : construct poscDb (.fixed 3) (.rows .list [[.num 1 true, .num 2 true, .num 3 true], [.num 4 true, .num 5 true, .num 6 true]])
      (.str (Sym.ofString "m")) .none = .error .value := by decide +kernel
-- `[("m", 1)]` as a unit is "a simple case" and stands for `m`
example : obtainQuantity poscDb (.rows .list [[.str (Sym.ofString "m") none, .num 1 true]]) (.str (Sym.ofString "length") none)
    = .ok (Qty.simple (Sym.ofString "length") (Sym.ofString "m")) := by decide +kernel
example : elemsEq [.row [.num 1 true, .num 2 false]] [.row [.num 1 false, .num 2 true]] = true := by decide +kernel
example : elemsEq [.row [.num 1 true]] [.atom (.num 1 true)] = false := by decide +kernel

end Barril.Ctor
