/- Non-vacuity examples of C19 (moved out of Props/C19.lean by tools/split_examples.py: they evaluate
concrete instances, many over the regenerated tables, and must not be able to stop the theorem module from
building).  Not property theorems: the check builds this module separately and only records the outcome. -/
import Barril.Props.C19
import Barril.Proofs.CtorLemmas
import Barril.Gen.ThmDefcatPosc
import Barril.Gen.ThmDefunitPosc
import Barril.Gen.ThmSymplainPosc
import Barril.Gen.ThmCatplainPosc

namespace Barril.Ctor
open Barril Barril.Gen

example : getDefaultCategory poscDb (Sym.ofString "m") = .ok (some (Sym.ofString "length")) := by decide +kernel
example : getDefaultCategory poscDb (Sym.ofString "1000ft3/d") = getDefaultCategory poscDb (Sym.ofString "Mcf/d") := by
  decide +kernel
example : newQuantity poscDb (.str (Sym.ofString "length") none) (Sym.ofString "m")
    = .ok (Qty.simple (Sym.ofString "length") (Sym.ofString "m")) := by decide +kernel
example : construct poscDb .scalar (.num (5/2)) (.str (Sym.ofString "m")) .none
    = .ok ⟨(Qty.simple (Sym.ofString "length") (Sym.ofString "m")), .scalar (5/2)⟩ := by decide +kernel
example : construct poscDb .scalar (.str (Sym.ofString "length")) (.num (5/2)) (.str (Sym.ofString "m") none)
    = construct poscDb .scalar (.seq .tuple [.num (5/2) false, .str (Sym.ofString "m") none]) .none .none := by
  decide +kernel
example : construct poscDb .scalar (.num 1) (.str (Sym.ofString "m")) (.str (Sym.ofString "depth") none)
    ≠ construct poscDb .scalar (.num 1) (.str (Sym.ofString "m")) .none := by decide +kernel
example : construct poscDb .scalar (.str (Sym.ofString "length")) (.num 1) .none = .error .assertion := by
  decide +kernel
example : construct poscDb .scalar (.num 1) (.str (Sym.ofString "s")) (.str (Sym.ofString "length") none)
    = .error .units := by decide +kernel
example : construct poscDb (.fixed 1) (.seq .list [.num 1 true]) (.str (Sym.ofString "m")) .none = .error .value := by
  decide +kernel
example : construct poscDb (.fixed 2) (.seq .list [.num 1 true, .num 2 true]) (.str (Sym.ofString "m")) .none
    = createWithQuantity poscDb (.fixed 0) (Qty.simple (Sym.ofString "length") (Sym.ofString "m"))
        (.seq .list [.num 1 true, .num 2 true]) true none := by decide +kernel
example : construct poscDb (.fixed 3) (.seq .list [.num 1 true, .num 2 true]) (.str (Sym.ofString "m")) .none
    = .error .value := by decide +kernel
example : parseLit (quoteLit (Sym.bytes (Sym.ofString "m'"))) = none := by decide +kernel
example : reprBack poscDb ⟨(Qty.simple (Sym.ofString "length") (Sym.ofString "m")), .scalar (5/2)⟩
    = some (.ok ⟨(Qty.simple (Sym.ofString "length") (Sym.ofString "m")), .scalar (5/2)⟩) := by decide +kernel
example : Obj.eq ⟨(Qty.simple 1 2), .arr (.seq .list [.num 2 true])⟩ ⟨(Qty.simple 1 2), .arr (.seq .tuple [.num 2 false])⟩ = .ok true := by
  decide
example : Obj.eq ⟨(Qty.simple 1 2), .arr (.seq .list [.num 2 true, .num 3 true])⟩
    ⟨(Qty.simple 1 2), .fixed (.seq .list [.num 2 true, .num 3 true]) 2⟩ = .ok false := by decide
example : Obj.eq ⟨(Qty.simple 1 2), .arr (.num 5)⟩ ⟨(Qty.simple 1 2), .arr (.num 5)⟩ = .error .type := by decide

-- an int that no double holds: every form stores the float image, and the int itself is != to it
example : construct poscDb .scalar (.atom (.big (2^53 + 1) (2^53))) (.str (Sym.ofString "m")) .none
    = .ok ⟨(Qty.simple (Sym.ofString "length") (Sym.ofString "m")), .scalar (2^53)⟩ := by decide +kernel
example : createWithQuantity poscDb .scalar (Qty.simple (Sym.ofString "length") (Sym.ofString "m")) (.atom (.big (2^53 + 1) (2^53))) false none
    = construct poscDb .scalar (.atom (.big (2^53 + 1) (2^53))) (.str (Sym.ofString "m")) .none := by decide +kernel
example : atomEq (.big (2^53 + 1) (2^53)) (.num (2^53) false) = false := by decide +kernel
example : atomEq (.bool true) (.num 1 false) = true := by decide +kernel
example : construct poscDb .fraction (.atom (.bool true)) (.str (Sym.ofString "m")) .none
    = .ok ⟨(Qty.simple (Sym.ofString "length") (Sym.ofString "m")), .fraction 1 0⟩ := by decide +kernel

-- a list of 2 tuples of size 3: the FixedArray dimension is 2 in every form, CreateWithQuantity included
example : createWithQuantity poscDb (.fixed 0) (Qty.simple (Sym.ofString "length") (Sym.ofString "m"))
      (.rows .list [[.num 1 true, .num 2 true, .num 3 true], [.num 4 true, .num 5 true, .num 6 true]]) false none
    = construct poscDb (.fixed 2)
      (.rows .list [[.num 1 true, .num 2 true, .num 3 true], [.num 4 true, .num 5 true, .num 6 true]])
      (.str (Sym.ofString "m")) .none := by decide +kernel
example : (construct poscDb (.fixed 2) (.rows .list [[.num 1 true], [.num 4 true, .num 5 true]])
      (.str (Sym.ofString "m")) .none).toBool = true := by decide +kernel
example : construct poscDb (.fixed 3) (.rows .list [[.num 1 true, .num 2 true, .num 3 true], [.num 4 true, .num 5 true, .num 6 true]])
      (.str (Sym.ofString "m")) .none = .error .value := by decide +kernel
-- `[("m", 1)]` as a unit is "a simple case" and stands for `m`
example : obtainQuantity poscDb (.rows .list [[.str (Sym.ofString "m") none, .num 1 true]]) (.str (Sym.ofString "length") none)
    = .ok (Qty.simple (Sym.ofString "length") (Sym.ofString "m")) := by decide +kernel
example : elemsEq [.row [.num 1 true, .num 2 false]] [.row [.num 1 false, .num 2 true]] = true := by decide +kernel
example : elemsEq [.row [.num 1 true]] [.atom (.num 1 true)] = false := by decide +kernel

-- quantities with an unknown-unit caption: ObtainQuantity keeps it, the quantity-first forms keep it, `==` sees it
example : obtainQuantityC poscDb (.atom (.str (Sym.ofString "m") none)) (.str (Sym.ofString "length") none)
      (.str (Sym.ofString "Feeeet") none)
    = .ok ⟨Sym.ofString "length", Sym.ofString "m", Sym.ofString "Feeeet", none⟩ := by decide +kernel
example : unknownQuantity poscDb (.str (Sym.ofString "Feeeet") none)
    = .ok ⟨Sym.ofString "Unknown", Sym.ofString "<unknown>", Sym.ofString "Feeeet", none⟩ := by decide +kernel
example : unknownQuantity poscDb .none = .ok (Qty.simple (Sym.ofString "Unknown") (Sym.ofString "<unknown>")) := by
  decide +kernel
example : construct poscDb .scalar (.qty ⟨Sym.ofString "length", Sym.ofString "m", Sym.ofString "Feeeet", none⟩) (.num (5/2)) .none
    = createWithQuantity poscDb .scalar ⟨Sym.ofString "length", Sym.ofString "m", Sym.ofString "Feeeet", none⟩ (.num (5/2)) false none := by
  decide +kernel
example : (construct poscDb .scalar (.qty ⟨Sym.ofString "length", Sym.ofString "m", Sym.ofString "Feeeet", none⟩) (.num (5/2)) .none).toOption.map (·.q.caption)
    = some (Sym.ofString "Feeeet") := by decide +kernel
example : Obj.eq ⟨⟨1, 2, 7, none⟩, .scalar 1⟩ ⟨⟨1, 2, 0, none⟩, .scalar 1⟩ = .ok false := by decide
example : Obj.eq ⟨⟨1, 2, 7, none⟩, .arr (.seq .list [.num 1 true])⟩ ⟨⟨1, 2, 7, none⟩, .arr (.seq .tuple [.num 1 false])⟩ = .ok true := by
  decide
-- a derived quantity (two entries), the one-entry dict that is a simple quantity, the empty quantity
example : obtainDict poscDb [(Sym.ofString "length", Sym.ofString "m", 1), (Sym.ofString "time", Sym.ofString "s", -2)] .none
    = .ok ⟨0, 0, 0, some [(Sym.ofString "length", Sym.ofString "m", 1), (Sym.ofString "time", Sym.ofString "s", -2)]⟩ := by
  decide +kernel
example : obtainDict poscDb [(Sym.ofString "length", Sym.ofString "m", 1)] (.str 7 none)
    = .ok ⟨Sym.ofString "length", Sym.ofString "m", 7, none⟩ := by decide +kernel
example : obtainDict poscDb [] .none = .ok Qty.empty := by decide +kernel
example : createEmpty poscDb .scalar (.num 3) = createWithQuantity poscDb .scalar Qty.empty (.num 3) true none := by
  decide +kernel
-- a bad caption is rejected before anything else
example : obtainQuantityC poscDb (.atom (.str (Sym.ofString "m") none)) (.str (Sym.ofString "length") none) (.num 3 true)
    = .error .assertion := by decide +kernel

-- a history on a private database: a unit asked about before its category exists, then the category
-- is registered: the second answer comes from the registry as it is then, and the unit-only form builds
def exBase : HOp := .reg (.addUnitBase (.str 11) 1 (.str 21))
def exUnit : HOp := .reg (.addUnit (.str 11) 2 (.str 22) (.mob ⟨0, 100, 1, 0⟩) (.mob ⟨0, 1, 100, 0⟩) 0)
def exCat : HOp := .reg (.addCategory ⟨.str 11, some 11, none, false, none, none, none, none, false, false, 0, none⟩)
def exCall : Call := ⟨.ctor, .scalar, .val (.num 3), .val (.str 22), .none, false, none⟩

example : houts [] Reg.Registry.empty [exBase, exUnit, .defcat 22, exCat, .defcat 22]
    = [.reg (.ok .unit), .reg (.ok .unit), .defcat (.ok none),
       (hstep [] (hrun [] Reg.Registry.empty [exBase, exUnit]) exCat).2, .defcat (.ok (some 11))] := by
  decide +kernel
example : (houts [] Reg.Registry.empty [exBase, exUnit, .calls [exCall], exCat, .calls [exCall]]).getLast?
    = some (.calls [some (.ok ⟨Qty.simple 11 22, .scalar 3⟩)]) := by decide +kernel
example : (houts [] Reg.Registry.empty [exBase, exUnit, .calls [exCall]]).getLast?
    = some (.calls [some (.error .units)]) := by decide +kernel
example : regsOf [exBase, .defcat 22, exUnit, .calls [exCall], exCat]
    = [.addUnitBase (.str 11) 1 (.str 21), .addUnit (.str 11) 2 (.str 22) (.mob ⟨0, 100, 1, 0⟩) (.mob ⟨0, 1, 100, 0⟩) 0,
       .addCategory ⟨.str 11, some 11, none, false, none, none, none, none, false, false, 0, none⟩] := by decide +kernel

-- the list form of a composition: zipped into the dict form; one pair with exponent 1 is the simple quantity; a
-- repeated category keeps its place and takes the last pair; no category for the simple case is an IndexError
example : obtainPairs poscDb [(Sym.ofString "m", 1), (Sym.ofString "s", -2)] [Sym.ofString "length", Sym.ofString "time"] .none
    = obtainDict poscDb [(Sym.ofString "length", Sym.ofString "m", 1), (Sym.ofString "time", Sym.ofString "s", -2)] .none := by
  decide +kernel
example : obtainPairs poscDb [(Sym.ofString "m", 1)] [Sym.ofString "length"] (.str 7 none)
    = .ok ⟨Sym.ofString "length", Sym.ofString "m", 7, none⟩ := by decide +kernel
example : obtainPairs poscDb [(Sym.ofString "m", 1)] [] .none = .error .index := by decide +kernel
example : odictZip [1, 2, 1] [(5, 1), (6, 2), (7, 3)] = [(1, 7, 3), (2, 6, 2)] := by decide
-- the value twice
example : createWithQuantityBoth .array (Qty.simple 1 2) (.seq .list [.num 1 true]) (.num 2 false) none = .error .value := by decide
example : createWithQuantityBoth .array (Qty.simple 1 2) (.seq .list [.num 1 true]) .none none
    = .ok ⟨Qty.simple 1 2, .arr (.seq .list [.num 1 true])⟩ := by decide

-- the legacy constructor called directly
example : quantityInit poscDb (.str (Sym.ofString "length") none) (.str (Sym.ofString "m") none) (.str 7 none)
    = .ok ⟨Sym.ofString "length", Sym.ofString "m", 7, none⟩ := by decide +kernel
example : quantityInit poscDb (.str (Sym.ofString "length") none) .none .none
    = .ok (Qty.simple (Sym.ofString "length") (Sym.ofString "m")) := by decide +kernel
example : quantityInit poscDb (.str (Sym.ofString "length") none) (.num 3 true) .none = .error .type := by decide +kernel

-- a unit asked about before it exists, then registered: found from then on
def exUnit3 : HOp := .reg (.addUnit (.str 11) 3 (.str 23) (.mob ⟨0, 1, 1000, 0⟩) (.mob ⟨0, 1000, 1, 0⟩) 0)
example : (houts [] Reg.Registry.empty [exBase, exCat, .defcat 23, .calls [⟨.ctor, .scalar, .val (.num 3), .val (.str 23), .none, false, none⟩],
      exUnit3, .defcat 23]).map (fun o => match o with | .defcat d => some d | _ => none)
    = [none, none, some (.ok none), none, none, some (.ok (some 11))] := by decide +kernel

-- a list of LISTS is held as given by `__init__` and by `CreateWithQuantity` alike, and is not the list of tuples
example : construct poscDb .array (.nest .list [(true, [.num 1 false, .num 2 false]), (true, [.num 3 false, .num (9/2) false])])
      (.str (Sym.ofString "m")) .none
    = .ok ⟨Qty.simple (Sym.ofString "length") (Sym.ofString "m"),
        .arr (.nest .list [(true, [.num 1 false, .num 2 false]), (true, [.num 3 false, .num (9/2) false])])⟩ := by decide +kernel
example : createWithQuantity poscDb .array (Qty.simple (Sym.ofString "length") (Sym.ofString "m"))
      (.nest .list [(true, [.num 7 false])]) false none
    = construct poscDb .array (.nest .list [(true, [.num 7 false])]) (.str (Sym.ofString "m")) .none := by decide +kernel
example : Obj.eq ⟨Qty.simple 1 2, .arr (.nest .list [(true, [.num 1 false, .num 2 false])])⟩
      ⟨Qty.simple 1 2, .arr (.rows .list [[.num 1 false, .num 2 false]])⟩ = .ok false := by decide
example : Obj.eq ⟨Qty.simple 1 2, .arr (.nest .list [(true, [.num 1 false]), (false, [.num 2 true])])⟩
      ⟨Qty.simple 1 2, .arr (.nest .tuple [(true, [.num 1 true]), (false, [.num 2 false])])⟩ = .ok true := by decide

-- build from the category alone, fill the list the object handed out, build again: the second object is empty
-- again and equals the explicit form; the first one holds what was appended
def exArr : Call := ⟨.ctor, .array, .val (.str 11), .val .none, .none, false, none⟩
def exArrExplicit : Call := ⟨.ctor, .array, .val (.seq .list []), .val (.str 21), .str 11 none, false, none⟩
example : (houts [] Reg.Registry.empty [exBase, exCat, .mut exArr [.append (.num 1 false), .extend [.num 2 false]],
      .calls [exArr, exArrExplicit]]).drop 2
    = [.mut (some (.ok ⟨Qty.simple 11 21, .arr (.seq .list [])⟩))
         (some (.ok ⟨Qty.simple 11 21, .arr (.seq .list [.num 1 false, .num 2 false])⟩)),
       .calls [some (.ok ⟨Qty.simple 11 21, .arr (.seq .list [])⟩), some (.ok ⟨Qty.simple 11 21, .arr (.seq .list [])⟩)]] := by
  decide +kernel
example : mutAll ⟨Qty.simple 1 2, .fixed (.seq .list [.num 0 false, .num 0 false]) 2⟩ [.setItem 1 (.num 5 false), .setItem 2 (.num 5 false)]
    = some (.error .index) := by decide
example : mutAll ⟨Qty.simple 1 2, .arr (.seq .nda [.num 1 false, .num 3 false])⟩ [.scale 2, .setItem 0 (.num 5 true)]
    = some (.ok ⟨Qty.simple 1 2, .arr (.seq .nda [.num 5 false, .num 6 false])⟩) := by decide +kernel
example : mutAll ⟨Qty.simple 1 2, .arr (.seq .tuple [.num 1 false])⟩ [.append (.num 1 false)] = some (.error .other) := by decide

end Barril.Ctor
