/-
C05 — dimensionally incompatible operations fail loudly and change nothing.

Model: `Barril/Model/Fail.lean` (a session over a fixed database with the validity memo table and
the quantity cache) and `Barril/Model/Conv.lean`.  Helper lemmas: `Barril/Proofs/FailLemmas.lean`.
The derived-operand half of "adding two values whose dimensions differ raises" is stated here as a
corollary of C03's `Alg.add_sub_ok_dims` (engine `Alg`, whose `opSame` is the `sumq` step of the
session): `sum_of_different_dimensions_fails`, `failed_sum_invisible`; the aliasing half of "operands
unchanged" is C13's.  Here: conversion, creation, simple-operand arithmetic and ordering, and the
invisibility of every failed (indeed of every) operation for all later ones.
-/
import Barril.Proofs.FailLemmas
import Barril.Props.C03
import Barril.Gen.Dbs

namespace Barril.Fail
open Barril

/-! ### error decisions -/

/-- `v` is not a unit of quantity type `qt` in `db`, by any of the routes `GetInfo` tries -/
structure NotOfType (db : Db) (qt v : Sym) (fixUnknown : Bool) : Prop where
  /-- no row carries the symbol `v` inside `qt` (directly or after resolving `qt` as a category) -/
  direct : ∀ r ∈ db.units, r.sym = v → r.qtype ≠ qt ∧ r.qtype ≠ db.resolveQt qt
  /-- not the `Unknown` exemption -/
  known : fixUnknown = false ∨ db.resolveQt qt ≠ unknownQType
  /-- not a legacy spelling of a unit of `qt` -/
  legacy : isLegacy db.legacy v = false ∨
    ∀ r ∈ db.units, r.sym = fixLegacy db.legacy v → r.qtype ≠ db.resolveQt qt

theorem tryInfo_none_of {db : Db} {qt v : Sym} (h : ∀ r ∈ db.units, r.sym = v → r.qtype ≠ qt) :
    db.tryInfo qt v = none := by
  unfold Db.tryInfo Db.unitBySym
  cases hf : db.units.find? (·.sym == v) with
  | none => rfl
  | some r =>
    have hm := List.mem_of_find?_eq_some hf
    have hs := List.find?_some hf
    simp only [beq_iff_eq] at hs
    have := h r hm hs
    simp [this]

/-- `GetInfo` raises a units error for a unit that is not of the requested type -/
theorem getInfo_error {db : Db} {qt v : Sym} {fu : Bool} (h : NotOfType db qt v fu) :
    db.getInfo qt v fu true = .error .units := by
  unfold Db.getInfo
  rw [tryInfo_none_of (fun r hr hs => (h.direct r hr hs).1)]
  simp only
  split
  · rfl
  · have hfind : (db.unitsOfType (db.resolveQt qt)).find? (·.sym == v) = none := by
      apply List.find?_eq_none.mpr
      intro r hr
      unfold Db.unitsOfType at hr
      obtain ⟨hm, hq⟩ := List.mem_filter.mp hr
      simp only [beq_iff_eq] at hq
      intro hs
      simp only [beq_iff_eq] at hs
      exact (h.direct r hm hs).2 hq
    rw [hfind]
    simp only
    have hunk : db.infoUnknown (db.resolveQt qt) fu = none := by
      unfold Db.infoUnknown
      rcases h.known with hk | hk
      · simp [hk]
      · have : (db.resolveQt qt == unknownQType) = false := by simpa using hk
        simp [this]
    rw [hunk]
    simp only
    have hleg : db.infoLegacy (db.resolveQt qt) v true = none := by
      unfold Db.infoLegacy
      rcases h.legacy with hl | hl
      · simp [hl]
      · split
        · exact tryInfo_none_of hl
        · rfl
    rw [hleg]

/-- `GetInfo` only ever raises units errors -/
theorem getInfo_error_kind {db : Db} {qt u : Sym} {a b : Bool} {e : ErrKind}
    (h : db.getInfo qt u a b = .error e) : e = .units := by
  unfold Db.getInfo at h
  split at h
  · cases h
  · split at h
    · cases h; rfl
    · split at h
      · cases h
      · split at h
        · cases h
        · split at h
          · cases h
          · cases h; rfl

/-- **converting a value to a unit of another quantity type raises a units error and never returns
a number** (whatever the value), unless the target is exempt (`Unknown`) or a legacy spelling of a
unit of the type -/
theorem convert_cross_type_error {db : Db} {cq qt u v : Sym} (x : Rat) (huv : u ≠ v)
    (hq : db.typeOf cq = .ok qt) (h : NotOfType db qt v true) :
    db.convert cq u v x = .error .units := by
  unfold Db.convert
  have : (u == v) = false := by simpa using huv
  simp only [this, Bool.false_eq_true, ↓reduceIte, hq]
  cases hu : db.getInfo qt u true with
  | error e => simp only; rw [getInfo_error_kind hu]
  | ok r => simp only [getInfo_error h]

/-- the same when the SOURCE unit is the foreign one -/
theorem convert_cross_type_error_src {db : Db} {cq qt u v : Sym} (x : Rat) (huv : u ≠ v)
    (hq : db.typeOf cq = .ok qt) (h : NotOfType db qt u true) :
    db.convert cq u v x = .error .units := by
  unfold Db.convert
  have : (u == v) = false := by simpa using huv
  simp only [this, Bool.false_eq_true, ↓reduceIte, hq, getInfo_error h]

/-- a conversion under a name that is neither a category nor a quantity type raises -/
theorem convert_unknown_type_error {db : Db} {cq u v : Sym} (x : Rat) (huv : u ≠ v)
    (hc : db.catByName cq = none) (ht : db.hasType cq = false) :
    db.convert cq u v x = .error .units := by
  unfold Db.convert Db.typeOf
  have : (u == v) = false := by simpa using huv
  simp [this, hc, ht]

/-- `categoryUnitValid` is false for a unit that is not of the category's quantity type
(`CheckQuantityTypeUnit` does not even try the legacy fallback) -/
theorem categoryUnitValid_false {db : Db} {c u : Sym} {ci : CatRow} (hc : db.catByName c = some ci)
    (hd : ∀ r ∈ db.units, r.sym = u → r.qtype ≠ ci.qtype ∧ r.qtype ≠ db.resolveQt ci.qtype) :
    db.categoryUnitValid c u = false := by
  unfold Db.categoryUnitValid Db.checkQuantityTypeUnit
  rw [hc]
  simp only
  have : db.getInfo ci.qtype u false false = .error .units := by
    unfold Db.getInfo
    rw [tryInfo_none_of (fun r hr hs => (hd r hr hs).1)]
    simp only
    split
    · rfl
    · have hfind : (db.unitsOfType (db.resolveQt ci.qtype)).find? (·.sym == u) = none := by
        apply List.find?_eq_none.mpr
        intro r hr
        unfold Db.unitsOfType at hr
        obtain ⟨hm, hq⟩ := List.mem_filter.mp hr
        simp only [beq_iff_eq] at hq
        intro hs
        simp only [beq_iff_eq] at hs
        exact (hd r hm hs).2 hq
      rw [hfind]
      simp [Db.infoUnknown, Db.infoLegacy]
  rw [this]

/-- **creating a value whose unit does not belong to its category's quantity type raises a units
error and never returns a quantity** — in any session state that satisfies the invariant (i.e.
after any history, see `run_inv`), for a unit that is not of the type under its own spelling nor
under its legacy-fixed spelling -/
theorem create_wrong_type_error {db : Db} {s : FState} (hs : Inv db s) {c u : Sym} {ci : CatRow}
    (hc : db.catByName c = some ci)
    (hd : ∀ r ∈ db.units, r.sym = u → r.qtype ≠ ci.qtype ∧ r.qtype ≠ db.resolveQt ci.qtype)
    (hl : isLegacy db.legacy u = false ∨
      ∀ r ∈ db.units, r.sym = fixLegacy db.legacy u →
        r.qtype ≠ ci.qtype ∧ r.qtype ≠ db.resolveQt ci.qtype) :
    (step db s (.create c u)).2 = .error .units := by
  have hv := obtain_val hs c u
  have hp : newQuantityPure db c u = .error .units := by
    unfold newQuantityPure
    rw [hc]
    simp only [categoryUnitValid_false hc hd, Bool.false_eq_true, ↓reduceIte]
    rcases hl with hl | hl
    · simp [hl]
    · split
      · simp [categoryUnitValid_false hc hl]
      · rfl
  rw [hp] at hv
  simp only [step]
  cases ho : obtain db s c u with
  | mk s1 r =>
    rw [ho] at hv
    simp only at hv
    subst hv
    rfl

/-- a creation under a category that is not registered raises -/
theorem create_unknown_category_error {db : Db} {s : FState} (hs : Inv db s) {c u : Sym}
    (hc : db.catByName c = none) : (step db s (.create c u)).2 = .error .units := by
  have hv := obtain_val hs c u
  have hp : newQuantityPure db c u = .error .units := by unfold newQuantityPure; rw [hc]
  rw [hp] at hv
  simp only [step]
  cases ho : obtain db s c u with
  | mk s1 r => rw [ho] at hv; simp only at hv; subst hv; rfl

/-- **adding or subtracting two simple values of different quantity types raises** (the only way
out is the degenerate one in which both carry the very same unit symbol) -/
theorem addSub_cross_type_error (db : Db) (op : ArithOp) {a b : Simple} (x y : Rat)
    (ht : qtypeOf db a ≠ qtypeOf db b) (hu : a.unit ≠ b.unit) :
    addSub db op a b x y = .error .units := by
  unfold addSub
  have hab : a ≠ b := fun e => hu (by rw [e])
  have h1 : (qtypeOf db a == qtypeOf db b) = false := by simpa using ht
  have h2 : (a.unit == b.unit) = false := by simpa using hu
  simp [hab, h1, h2]

/-- **ordering two values of different quantity types raises TypeError**, for all four operators -/
theorem order_cross_type_error (db : Db) (op : CmpOp) {a b : Simple} (x y : Rat)
    (ht : qtypeOf db a ≠ qtypeOf db b) : order db op a b x y = .error .type := by
  unfold order
  have : (qtypeOf db a != qtypeOf db b) = true := by simpa using ht
  simp [this]

/-! ### a failure (indeed any operation) is invisible to everything that follows -/

/-- the invariant holds in every reachable session state -/
theorem step_inv {db : Db} {s : FState} (hs : Inv db s) (op : FOp) : Inv db (step db s op).1 := by
  cases op with
  | create c u =>
    have := obtain_inv hs c u
    simp only [step]
    cases ho : obtain db s c u with
    | mk s1 r => rw [ho] at this; cases r <;> exact this
  | check c u =>
    simp only [step]
    exact ⟨check_memoInv hs.1 c u, by unfold CacheInv; rw [check_cache]; exact hs.2⟩
  | convert cq u v x => exact hs
  | arith op c1 u1 c2 u2 x y =>
    have h1 := obtain_inv hs c1 u1
    simp only [step]
    cases ho : obtain db s c1 u1 with
    | mk s1 r =>
      rw [ho] at h1
      cases r with
      | error e => exact h1
      | ok a =>
        simp only
        have h2 := obtain_inv h1 c2 u2
        cases ho2 : obtain db s1 c2 u2 with
        | mk s2 r2 => rw [ho2] at h2; cases r2 <;> exact h2
  | cmp op c1 u1 c2 u2 x y =>
    have h1 := obtain_inv hs c1 u1
    simp only [step]
    cases ho : obtain db s c1 u1 with
    | mk s1 r =>
      rw [ho] at h1
      cases r with
      | error e => exact h1
      | ok a =>
        simp only
        have h2 := obtain_inv h1 c2 u2
        cases ho2 : obtain db s1 c2 u2 with
        | mk s2 r2 => rw [ho2] at h2; cases r2 <;> exact h2

theorem run_inv {db : Db} (ops : List FOp) {s : FState} (hs : Inv db s) : Inv db (run db s ops) := by
  induction ops generalizing s with
  | nil => exact hs
  | cons op ops ih => exact ih (step_inv hs op)

/-- **the outcome of an operation does not depend on the history**: in any reachable state it is
the outcome on a fresh session -/
theorem step_history_independent {db : Db} {s : FState} (hs : Inv db s) (op : FOp) :
    (step db s op).2 = (step db FState.empty op).2 := by
  have he := inv_empty db
  cases op with
  | create c u =>
    have h1 := obtain_val hs c u
    have h2 := obtain_val he c u
    simp only [step]
    cases ho : obtain db s c u with
    | mk s1 r =>
      cases ho2 : obtain db FState.empty c u with
      | mk s2 r2 =>
        rw [ho] at h1; rw [ho2] at h2
        simp only at h1 h2
        subst h1; subst h2
        cases newQuantityPure db c u <;> rfl
  | check c u =>
    simp only [step]
    simp only [check_val hs.1, check_val he.1]
  | convert cq u v x => rfl
  | arith op c1 u1 c2 u2 x y =>
    have h1 := obtain_val hs c1 u1
    have h1' := obtain_val he c1 u1
    have i1 := obtain_inv hs c1 u1
    have i1' := obtain_inv he c1 u1
    simp only [step]
    cases ho : obtain db s c1 u1 with
    | mk s1 r =>
      cases ho' : obtain db FState.empty c1 u1 with
      | mk s1' r' =>
        rw [ho] at h1 i1; rw [ho'] at h1' i1'
        simp only at h1 h1' i1 i1'
        subst h1; subst h1'
        cases newQuantityPure db c1 u1 with
        | error e => rfl
        | ok a =>
          simp only
          have h2 := obtain_val i1 c2 u2
          have h2' := obtain_val i1' c2 u2
          cases ho2 : obtain db s1 c2 u2 with
          | mk s2 r2 =>
            cases ho2' : obtain db s1' c2 u2 with
            | mk s2' r2' =>
              rw [ho2] at h2; rw [ho2'] at h2'
              simp only at h2 h2'
              subst h2; subst h2'
              cases newQuantityPure db c2 u2 <;> rfl
  | cmp op c1 u1 c2 u2 x y =>
    have h1 := obtain_val hs c1 u1
    have h1' := obtain_val he c1 u1
    have i1 := obtain_inv hs c1 u1
    have i1' := obtain_inv he c1 u1
    simp only [step]
    cases ho : obtain db s c1 u1 with
    | mk s1 r =>
      cases ho' : obtain db FState.empty c1 u1 with
      | mk s1' r' =>
        rw [ho] at h1 i1; rw [ho'] at h1' i1'
        simp only at h1 h1' i1 i1'
        subst h1; subst h1'
        cases newQuantityPure db c1 u1 with
        | error e => rfl
        | ok a =>
          simp only
          have h2 := obtain_val i1 c2 u2
          have h2' := obtain_val i1' c2 u2
          cases ho2 : obtain db s1 c2 u2 with
          | mk s2 r2 =>
            cases ho2' : obtain db s1' c2 u2 with
            | mk s2' r2' =>
              rw [ho2] at h2; rw [ho2'] at h2'
              simp only at h2 h2'
              subst h2; subst h2'
              cases newQuantityPure db c2 u2 <;> rfl

/-- every operation of every history answers as on a fresh session -/
theorem outputs_history_independent {db : Db} (ops : List FOp) {s : FState} (hs : Inv db s) :
    outputs db s ops = ops.map (fun op => (step db FState.empty op).2) := by
  induction ops generalizing s with
  | nil => rfl
  | cons op ops ih =>
    simp only [outputs, List.map_cons]
    rw [step_history_independent hs op, ih (step_inv hs op)]

/-- **after a failure, all later operations behave as if it had not happened** (in fact this holds
for every operation, failed or not: the memo table and the cache never change an answer) -/
theorem failed_step_invisible {db : Db} {s : FState} (hs : Inv db s) (op : FOp) (later : List FOp) :
    outputs db (step db s op).1 later = outputs db s later := by
  rw [outputs_history_independent later (step_inv hs op), outputs_history_independent later hs]

theorem run_append_single (db : Db) (before : List FOp) (op : FOp) (s0 : FState) :
    run db s0 (before ++ [op]) = (step db (run db s0 before) op).1 := by
  induction before generalizing s0 with
  | nil => rfl
  | cons b bs ih => simp only [List.cons_append, run]; exact ih _

/-- … from the very beginning of any history -/
theorem failed_step_invisible_in_history (db : Db) (before : List FOp) (op : FOp) (later : List FOp) :
    outputs db (run db FState.empty (before ++ [op])) later
      = outputs db (run db FState.empty before) later := by
  rw [run_append_single]
  exact failed_step_invisible (run_inv before (inv_empty db)) op later

/-! ### ordering of arbitrary (simple or derived) quantities -/

/-- **ordering two values whose quantity types differ raises TypeError, for all four operators, whatever
their unit strings are** — in particular when the unit STRINGS coincide (the square of a velocity in
`m/s` is written `m/s2`, the acceleration unit): the same-unit-string shortcut of the conversion is
never reached -/
theorem orderQ_cross_type_error (db : Db) (op : CmpOp) {a b : Quant} (x y : Rat)
    (ht : a.qtype ≠ b.qtype) : orderQ db op a b x y = .error .type := by
  unfold orderQ
  have : (a.qtype != b.qtype) = true := by simpa using ht
  simp [this]

/-- an ordering that answers has compared two values of ONE quantity type -/
theorem orderQ_ok_same_type (db : Db) (op : CmpOp) {a b : Quant} (x y : Rat) {r : Bool}
    (h : orderQ db op a b x y = .ok r) : a.qtype = b.qtype := by
  by_cases ht : a.qtype = b.qtype
  · exact ht
  · rw [orderQ_cross_type_error db op x y ht] at h; cases h

/-- the same inside a session, at any point of any history: once both operands are obtained, an ordering
step across quantity types answers TypeError -/
theorem cmpq_cross_type_error (st : XState) (op : CmpOp) (ea eb : List Ent) (x y : Rat) {a b : Quant}
    (ha : (obtainDict st ea).2 = .ok a) (hb : (obtainDict (obtainDict st ea).1 eb).2 = .ok b)
    (ht : a.qtype ≠ b.qtype) : (xstep st (.cmpq op ea eb x y)).2 = .error .type := by
  simp only [xstep]
  cases h1 : obtainDict st ea with
  | mk st1 r1 =>
    rw [h1] at ha hb
    simp only at ha hb
    subst ha
    simp only
    cases h2 : obtainDict st1 eb with
    | mk st2 r2 =>
      rw [h2] at hb
      simp only at hb
      subst hb
      simp only [orderQ_cross_type_error st2.db op x y ht, exMap]

/-! ### the extended session: registrations in the middle of a history -/

/-- the operations whose answer the theorems below speak about: all of them, except `ObtainQuantity(unit)`
for a unit string that a SECOND legacy fixing would change again (see `LegacyStable`) -/
def XOp.Tame (L : List (Sym × Sym)) : XOp → Prop
  | .createU u => LegacyStable L u
  | _ => True

/-- the registry after a step: only a successful registration changes it -/
def nextDb (db : Db) : XOp → Db
  | .reg r => match applyReg db r with
    | .ok db' => db'
    | .error _ => db
  | _ => db

theorem xstep_db (st : XState) (op : XOp) : (xstep st op).1.db = nextDb st.db op := by
  cases op with
  | plain op => rfl
  | createU u => exact obtainU_db st u
  | createDict v es =>
    simp only [xstep, nextDb]
    split
    · exact createDerived_db st es
    · exact obtainDict_db st es
  | cmpq op ea eb x y =>
    simp only [xstep, nextDb]
    have h1 := obtainDict_db st ea
    cases ho : obtainDict st ea with
    | mk st1 r1 =>
      rw [ho] at h1
      cases r1 with
      | error e => exact h1
      | ok a =>
        simp only
        have h2 := obtainDict_db st1 eb
        cases ho2 : obtainDict st1 eb with
        | mk st2 r2 =>
          rw [ho2] at h2
          cases r2 <;> (simp only; rw [h2]; exact h1)
  | reg r =>
    simp only [xstep, nextDb]
    cases applyReg st.db r <;> rfl
  | sumq op a b x y => rfl
  | eqq a b => rfl

theorem nextDb_legacy (db : Db) (op : XOp) : (nextDb db op).legacy = db.legacy := by
  cases op with
  | reg r =>
    simp only [nextDb]
    cases h : applyReg db r with
    | ok db' => exact applyReg_legacy h
    | error e => rfl
  | _ => rfl

/-- the invariant holds in every reachable state of the extended session -/
theorem xstep_inv {st : XState} (h : XInv st) (op : XOp) : XInv (xstep st op).1 := by
  cases op with
  | plain op => exact ⟨step_inv h.base op, h.alias, h.dcache⟩
  | createU u => exact obtainU_inv h u
  | createDict v es =>
    simp only [xstep]
    split
    · exact createDerived_inv h es
    · exact obtainDict_inv h es
  | cmpq op ea eb x y =>
    simp only [xstep]
    have h1 := obtainDict_inv h ea
    cases ho : obtainDict st ea with
    | mk st1 r1 =>
      rw [ho] at h1
      cases r1 with
      | error e => exact h1
      | ok a =>
        simp only
        have h2 := obtainDict_inv h1 eb
        cases ho2 : obtainDict st1 eb with
        | mk st2 r2 =>
          rw [ho2] at h2
          cases r2 <;> exact h2
  | reg r =>
    simp only [xstep]
    cases applyReg st.db r with
    | ok db' => exact xinv_fresh db'
    | error e => exact h
  | sumq op a b x y => exact h
  | eqq a b => exact h

theorem xrun_inv (ops : List XOp) {st : XState} (h : XInv st) : XInv (xrun st ops) := by
  induction ops generalizing st with
  | nil => exact h
  | cons op ops ih => exact ih (xstep_inv h op)

/-- the answer of a step as a function of the registry alone -/
def xanswer (db : Db) : XOp → Except ErrKind XOut
  | .plain op => exMap XOut.plain (step db FState.empty op).2
  | .createU u => exMap (fun q => XOut.plain (.quantity q)) (obtainUPure db u)
  | .createDict v es => exMap XOut.quant (if v then createDerivedPure db es else obtainDictPure db es)
  | .cmpq op ea eb x y =>
    match obtainDictPure db ea with
    | .error e => .error e
    | .ok a =>
      match obtainDictPure db eb with
      | .error e => .error e
      | .ok b => exMap (fun r => XOut.plain (.bool r)) (orderQ db op a b x y)
  | .reg r =>
    match applyReg db r with
    | .ok _ => .ok (.plain .unit)
    | .error e => .error e
  | .sumq op a b x y => sumAnswer db op a b x y
  | .eqq a b => .ok (.plain (.bool (a.eqv b)))

/-- **in any reachable state every operation answers as a function of the current registry alone** -/
theorem xstep_val {st : XState} (h : XInv st) (op : XOp) (ht : op.Tame st.db.legacy) :
    (xstep st op).2 = xanswer st.db op := by
  cases op with
  | plain op =>
    simp only [xstep, xanswer]
    rw [step_history_independent h.base op]
  | createU u =>
    simp only [xstep, xanswer]
    rw [obtainU_val h u ht]
  | createDict v es =>
    simp only [xstep, xanswer]
    cases v with
    | true => simp only [↓reduceIte]; rw [createDerived_val h es]
    | false => simp only [Bool.false_eq_true, ↓reduceIte]; rw [obtainDict_val h es]
  | cmpq op ea eb x y =>
    simp only [xstep, xanswer]
    have v1 := obtainDict_val h ea
    have i1 := obtainDict_inv h ea
    have d1 := obtainDict_db st ea
    cases ho : obtainDict st ea with
    | mk st1 r1 =>
      rw [ho] at v1 i1 d1
      simp only at v1 i1 d1
      rw [← v1]
      cases r1 with
      | error e => rfl
      | ok a =>
        simp only
        have v2 := obtainDict_val i1 eb
        have d2 := obtainDict_db st1 eb
        cases ho2 : obtainDict st1 eb with
        | mk st2 r2 =>
          rw [ho2] at v2 d2
          simp only at v2 d2
          rw [d1] at v2
          rw [← v2]
          cases r2 with
          | error e => rfl
          | ok b => simp only; rw [d2, d1]
  | reg r =>
    simp only [xstep, xanswer]
    cases applyReg st.db r <;> rfl
  | sumq op a b x y => rfl
  | eqq a b => rfl

/-- **the outcome of an operation does not depend on the history**: in any reachable state it is the
outcome on a database object with empty memo tables over the same registry -/
theorem xstep_history_independent {st : XState} (h : XInv st) (op : XOp) (ht : op.Tame st.db.legacy) :
    (xstep st op).2 = (xstep (XState.fresh st.db) op).2 := by
  rw [xstep_val h op ht, xstep_val (xinv_fresh st.db) op ht]
  rfl

/-- two sessions over the same registry answer every later history alike, whatever their memo tables hold -/
theorem xoutputs_history_independent (ops : List XOp) {st st' : XState} (h : XInv st) (h' : XInv st')
    (hdb : st.db = st'.db) (ht : ∀ op ∈ ops, op.Tame st.db.legacy) :
    xoutputs st ops = xoutputs st' ops := by
  induction ops generalizing st st' with
  | nil => rfl
  | cons op ops ih =>
    have ht1 : op.Tame st.db.legacy := ht op (List.mem_cons_self ..)
    have ht1' : op.Tame st'.db.legacy := hdb ▸ ht1
    have hd : (xstep st op).1.db = (xstep st' op).1.db := by rw [xstep_db, xstep_db, hdb]
    have hl : (xstep st op).1.db.legacy = st.db.legacy := by rw [xstep_db, nextDb_legacy]
    simp only [xoutputs]
    rw [xstep_val h op ht1, xstep_val h' op ht1', hdb]
    congr 1
    exact ih (xstep_inv h op) (xstep_inv h' op) hd
      (fun o ho => hl ▸ ht o (List.mem_cons_of_mem _ ho))

/-- a step that fails leaves the registry as it was (a rejected registration included) -/
theorem xstep_error_db {st : XState} {op : XOp} {e : ErrKind} (hf : (xstep st op).2 = .error e) :
    (xstep st op).1.db = st.db := by
  rw [xstep_db]
  cases op with
  | reg r =>
    simp only [xstep] at hf
    simp only [nextDb]
    cases hr : applyReg st.db r with
    | ok db' => rw [hr] at hf; cases hf
    | error e' => rfl
  | _ => rfl

/-- **after a failure — a rejected registration included — all later operations, registrations among them,
behave as if it had not happened** -/
theorem failed_xstep_invisible {st : XState} (h : XInv st) (op : XOp) {e : ErrKind}
    (hf : (xstep st op).2 = .error e) (later : List XOp) (ht : ∀ o ∈ later, o.Tame st.db.legacy) :
    xoutputs (xstep st op).1 later = xoutputs st later :=
  xoutputs_history_independent later (xstep_inv h op) h (xstep_error_db hf)
    (fun o ho => (xstep_error_db hf) ▸ ht o ho)

theorem xrun_append_single (before : List XOp) (op : XOp) (s0 : XState) :
    xrun s0 (before ++ [op]) = (xstep (xrun s0 before) op).1 := by
  induction before generalizing s0 with
  | nil => rfl
  | cons b bs ih => simp only [List.cons_append, xrun]; exact ih _

/-- … from the very beginning of any history of the extended session -/
theorem failed_xstep_invisible_in_history (db : Db) (before : List XOp) (op : XOp) {e : ErrKind}
    (hf : (xstep (xrun (XState.fresh db) before) op).2 = .error e) (later : List XOp)
    (ht : ∀ o ∈ later, o.Tame (xrun (XState.fresh db) before).db.legacy) :
    xoutputs (xrun (XState.fresh db) (before ++ [op])) later
      = xoutputs (xrun (XState.fresh db) before) later := by
  rw [xrun_append_single]
  exact failed_xstep_invisible (xrun_inv before (xinv_fresh db)) op hf later ht

/-- **after a successful registration (`AddCategory`, also with `override=True`; `AddUnit`) every later
operation answers as on a fresh session over the NEW registry**: nothing that was memoised before the
registration — verdicts, simple, alias and derived entries of the quantity cache — is visible after it -/
theorem reregistration_answers_as_fresh (db : Db) (before : List XOp) (r : RegOp) {db' : Db}
    (hr : applyReg (xrun (XState.fresh db) before).db r = .ok db') (later : List XOp) :
    xoutputs (xrun (XState.fresh db) (before ++ [.reg r])) later = xoutputs (XState.fresh db') later := by
  rw [xrun_append_single]
  simp only [xstep, hr]

/-- … and in terms of answers: the i-th later answer is a function of the registry reached, not of
anything created before the registration -/
theorem reregistration_first_answer (db : Db) (before : List XOp) (r : RegOp) {db' : Db}
    (hr : applyReg (xrun (XState.fresh db) before).db r = .ok db') (op : XOp) (ht : op.Tame db'.legacy) :
    (xstep (xrun (XState.fresh db) (before ++ [.reg r])) op).2 = xanswer db' op := by
  rw [xrun_append_single]
  simp only [xstep, hr]
  exact xstep_val (xinv_fresh db') op ht

/-- a category that moved to another quantity type no longer accepts the units of the old one: creation
through `ObtainQuantity(dict)` (also the list form and unpickling) of an entry whose unit is not of the
category's CURRENT quantity type raises, whatever the session has created before -/
theorem obtainDict_rejects_foreign_unit {st : XState} (h : XInv st) {es : List Ent} {e : ErrKind}
    (hsc : simpleCase es = none) (hv : validateEntries st.db es = .error e) :
    (obtainDict st es).2 = .error e := by
  rw [obtainDict_val h es]
  unfold obtainDictPure newDerivedChecked
  rw [hsc, hv]

/-! ### sums and differences of derived operands (engine `Alg` inside the session) -/

/-- **a ± b of operands with different dimension vectors fails**, for simple and derived operands alike (both
with units: the dimensionless exemption is the empty operand; `Operand`/`Known`: what products, quotients and
powers of table units are, C04): corollary of C03's `add_sub_ok_dims` -/
theorem sum_of_different_dimensions_fails {db : Db} (hdb : db.AllWF) (op : Alg.SameOp) {q1 q2 : Alg.Quantity}
    (v1 v2 : Rat) (h1 : Alg.Operand db q1) (h2 : Alg.Known db q2) (ne1 : q1.entries ≠ []) (ne2 : q2.entries ≠ [])
    {qt : Sym} (hd : Alg.dim db qt q1.entries ≠ Alg.dim db qt q2.entries) :
    ∃ e, Alg.opSame db op q1 q2 v1 v2 = .error e := by
  cases h : Alg.opSame db op q1 q2 v1 v2 with
  | error e => exact ⟨e, rfl⟩
  | ok r =>
    obtain ⟨q, v⟩ := r
    exact absurd (Alg.add_sub_ok_dims hdb h1 h2 ne1 ne2 h qt) hd

/-- … as a step of the session, in ANY state (whatever was created, memoised or registered before): the step
fails and hands back the very state it was given -/
theorem sumq_of_different_dimensions_fails (st : XState) (hdb : st.db.AllWF) (op : Alg.SameOp)
    {q1 q2 : Alg.Quantity} (v1 v2 : Rat) (h1 : Alg.Operand st.db q1) (h2 : Alg.Known st.db q2)
    (ne1 : q1.entries ≠ []) (ne2 : q2.entries ≠ []) {qt : Sym}
    (hd : Alg.dim st.db qt q1.entries ≠ Alg.dim st.db qt q2.entries) :
    (∃ e, (xstep st (.sumq op q1 q2 v1 v2)).2 = .error e) ∧ (xstep st (.sumq op q1 q2 v1 v2)).1 = st := by
  obtain ⟨e, he⟩ := sum_of_different_dimensions_fails hdb op v1 v2 h1 h2 ne1 ne2 hd
  exact ⟨⟨e, by simp only [xstep, sumAnswer, he]⟩, rfl⟩

/-- **after a sum or difference — failed or not — every later answer of the session is unchanged**: the session
state is not touched by `opSame` at all (no invariant, no tameness needed) -/
theorem failed_sum_invisible (st : XState) (op : Alg.SameOp) (q1 q2 : Alg.Quantity) (v1 v2 : Rat)
    (later : List XOp) :
    xoutputs (xstep st (.sumq op q1 q2 v1 v2)).1 later = xoutputs st later := rfl

/-- … from the very beginning of any history -/
theorem failed_sum_invisible_in_history (db : Db) (before : List XOp) (op : Alg.SameOp) (q1 q2 : Alg.Quantity)
    (v1 v2 : Rat) (later : List XOp) :
    xoutputs (xrun (XState.fresh db) (before ++ [.sumq op q1 q2 v1 v2])) later
      = xoutputs (xrun (XState.fresh db) before) later := by
  rw [xrun_append_single]; rfl

/-- the answer of a sum is the same at every point of a history over one registry -/
theorem sumq_answer_history_independent (st : XState) (op : Alg.SameOp) (q1 q2 : Alg.Quantity) (v1 v2 : Rat) :
    (xstep st (.sumq op q1 q2 v1 v2)).2 = (xstep (XState.fresh st.db) (.sumq op q1 q2 v1 v2)).2 := rfl

/-- the `==` shortcut of `_DoOperationWithSameQuantity` is taken only by operands with the same entries:
quantities that differ in one exponent (`1/s` and `1/s2`) are not equal, so their sum reaches the unit check -/
theorem eqv_entries {a b : Alg.Quantity} (h : a.eqv b = true) : a.entries = b.entries := by
  simp only [Alg.Quantity.eqv, Bool.and_eq_true, beq_iff_eq] at h; exact h.1

/-! ### non-vacuity on the shipped table -/

end Barril.Fail
