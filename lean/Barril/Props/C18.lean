/-
C18 — fractional values keep their numeric meaning.

Property theorems only, about the executable model `Barril/Model/Frac.lean` (`Fraction`,
`FractionValue`, `FractionScalar` conversion, written after the Python function by function).
Helper lemmas: `Barril/Proofs/FracLemmas.lean`.  The database hypothesis `Db.AllWF` is the row
predicate of C01; `posc_allWF` (a generated `decide +kernel` table theorem) discharges it for the
shipped table, which is regenerated from /repo on every run.

Reading guide.  A Python float is the rational it denotes; "decimal with at most seven places" is
`m / 10^i`, `i ≤ 7`.  `small` is the constant `SMALL = 1e-8` of `_fraction.py`.
-/
import Barril.Proofs.FracLemmas
import Barril.Proofs.FracText
import Barril.Proofs.FracCF
import Barril.Proofs.FracDigits
import Barril.Proofs.FracPool
import Barril.Props.C01

namespace Barril.Frac
open Barril Barril.Gen

/-! ## 1. `Fraction`: the constructor denotes `a / b` -/

/-- **`Fraction(a, b)` is exactly `a / b`** for every integer or decimal `a` with at most seven
places and every `b ≠ 0` (either sign, int or float) -/
theorem fraction_init_decimal (m : Int) (i : Nat) (hi : i ≤ 7) (b : Rat) (hb : b ≠ 0) :
    Frac.init (.fin ((m : Rat) / 10 ^ i)) (some (.fin b)) = .ok ⟨(m : Rat) / 10 ^ i / b⟩ := by
  rw [init_fin_fin _ _ hb, normalise_decimal m i hi]

/-- the one-argument form `Fraction(a)` -/
theorem fraction_init_decimal_default (m : Int) (i : Nat) (hi : i ≤ 7) :
    Frac.init (.fin ((m : Rat) / 10 ^ i)) none = .ok ⟨(m : Rat) / 10 ^ i⟩ := by
  rw [init_fin_none, normalise_decimal m i hi]; simp

/-- **for every finite `a` and `b ≠ 0` whatsoever the constructor succeeds and is within
`SMALL / |b|` of `a / b`** (the class snaps a numerator that is within `SMALL` of an integer) -/
theorem fraction_init_near (a b : Rat) (hb : b ≠ 0) :
    ∃ f, Frac.init (.fin a) (some (.fin b)) = .ok f ∧ |f.x - a / b| ≤ small / |b| :=
  ⟨normalise a b, init_fin_fin a b hb, normalise_near a b hb⟩

/-- what the constructor rejects: a zero denominator, an infinite or non-numeric argument -/
theorem fraction_init_rejects (a : Rat) (n : Bool) (y : Option Num) :
    Frac.init (.fin a) (some (.fin 0)) = .error .assertion
    ∧ Frac.init (.inf n) y = .error .value
    ∧ Frac.init (.fin a) (some (.inf n)) = .error .value
    ∧ Frac.init .bad (some (.fin a)) = .error .assertion
    ∧ Frac.init (.fin a) (some .bad) = .error .assertion := by
  refine ⟨init_fin_zero a, ?_, rfl, rfl, rfl⟩
  cases y <;> rfl

/-! ## 2. `Fraction` arithmetic and comparison are the rationals' -/

/-- **`+ - * neg abs copy float` on two Fractions are exact rational arithmetic** (never fail) -/
theorem fraction_ops_exact (s o : Frac) :
    s.add (.frac o) = .ok ⟨s.x + o.x⟩ ∧ s.radd (.frac o) = .ok ⟨o.x + s.x⟩
    ∧ s.sub (.frac o) = .ok ⟨s.x - o.x⟩ ∧ s.rsub (.frac o) = .ok ⟨o.x - s.x⟩
    ∧ s.mul (.frac o) = .ok ⟨s.x * o.x⟩ ∧ s.rmul (.frac o) = .ok ⟨o.x * s.x⟩
    ∧ s.neg = .ok ⟨-s.x⟩ ∧ s.abs = .ok ⟨|s.x|⟩ ∧ s.copy = .ok s ∧ s.toFloat = s.x := by
  refine ⟨add_of_coerce (coerce_frac o), ?_, sub_frac s o, ?_, mul_of_coerce (coerce_frac o), ?_,
    neg_eq s, abs_eq s, copy_eq s, rfl⟩
  · unfold Frac.radd; rw [add_of_coerce (coerce_frac o), add_comm]
  · unfold Frac.rsub; rw [sub_frac]; simp only; rw [neg_eq]; simp
  · rw [rmul_of_coerce (coerce_frac o), mul_comm]

/-- **`/`, reflected `/`, `inv` and `%`**: exact when the divisor is non-zero … -/
theorem fraction_div_mod_exact (s o : Frac) (ho : o.x ≠ 0) :
    s.div (.frac o) = .ok ⟨s.x / o.x⟩ ∧ o.rdiv (.frac s) = .ok ⟨s.x / o.x⟩ ∧ o.inv = .ok ⟨1 / o.x⟩
    ∧ s.mod (.frac o) = .ok ⟨s.x - o.x * (⌊s.x / o.x⌋ : Rat)⟩ :=
  ⟨div_of_coerce (coerce_frac o) ho, rdiv_of_coerce (coerce_frac s) ho, inv_eq ho,
   mod_of_coerce (coerce_frac o) ho⟩

/-- … and an error (Python's `ZeroDivisionError`), never a number, when it is zero -/
theorem fraction_div_mod_zero (s o : Frac) (ho : o.x = 0) :
    s.div (.frac o) = .error .other ∧ o.rdiv (.frac s) = .error .other ∧ o.inv = .error .other
    ∧ s.mod (.frac o) = .error .other := by
  refine ⟨div_zero_of_coerce (coerce_frac o) ho, ?_, inv_zero ho, ?_⟩
  · unfold Frac.rdiv; rw [inv_zero ho]
  · unfold Frac.mod; rw [coerce_frac]; simp [ho]

/-- **a plain number operand (int or decimal with at most seven places) acts as the rational it
denotes**, on either side of the operator -/
theorem fraction_ops_number (s : Frac) (m : Int) (i : Nat) (hi : i ≤ 7) :
    let q : Rat := (m : Rat) / 10 ^ i
    s.add (.num (.fin q)) = .ok ⟨s.x + q⟩ ∧ s.radd (.num (.fin q)) = .ok ⟨s.x + q⟩
    ∧ s.sub (.num (.fin q)) = .ok ⟨s.x - q⟩ ∧ s.rsub (.num (.fin q)) = .ok ⟨q - s.x⟩
    ∧ s.mul (.num (.fin q)) = .ok ⟨s.x * q⟩ ∧ s.rmul (.num (.fin q)) = .ok ⟨s.x * q⟩
    ∧ (q ≠ 0 → s.div (.num (.fin q)) = .ok ⟨s.x / q⟩ ∧ s.mod (.num (.fin q)) = .ok ⟨pyMod s.x q⟩)
    ∧ (s.x ≠ 0 → s.rdiv (.num (.fin q)) = .ok ⟨q / s.x⟩) := by
  intro q
  have hc : coerce (.num (.fin q)) = .ok ⟨q⟩ := coerce_decimal m i hi
  have hn : coerce (.num (.fin (-q))) = .ok ⟨-q⟩ := by
    have := coerce_decimal (-m) i hi
    have e : ((-m : Int) : Rat) / 10 ^ i = -q := by push_cast; ring
    rwa [e] at this
  have hsub : s.sub (.num (.fin q)) = .ok ⟨s.x - q⟩ := by
    rw [sub_num_of_coerce hn]; simp [sub_eq_add_neg]
  refine ⟨add_of_coerce hc, add_of_coerce hc, hsub, ?_, mul_of_coerce hc, rmul_of_coerce hc, ?_, ?_⟩
  · unfold Frac.rsub; rw [hsub]; simp only; rw [neg_eq]; simp
  · intro hq; exact ⟨div_of_coerce hc hq, mod_of_coerce hc hq⟩
  · intro hs; exact rdiv_of_coerce hc hs

/-- **all six comparison operators on two Fractions are the comparisons of the rationals** -/
theorem fraction_cmp_exact (s o : Frac) (op : CmpOp) :
    s.cmp op (.frac o) = .ok (FV.cmpValue op s.x o.x) := cmp_frac s o op

/-- comparison with a plain number on the right (`f < 0.25`) and on the left (`0.25 < f`) -/
theorem fraction_cmp_number (s : Frac) (m : Int) (i : Nat) (hi : i ≤ 7) (op : CmpOp) :
    s.cmp op (.num (.fin ((m : Rat) / 10 ^ i))) = .ok (FV.cmpValue op s.x ((m : Rat) / 10 ^ i))
    ∧ s.rcmp op (.num (.fin ((m : Rat) / 10 ^ i))) = .ok (FV.cmpValue op.swap s.x ((m : Rat) / 10 ^ i)) := by
  have hc := coerce_decimal m i hi
  have key : ∀ op', s.cmp op' (.num (.fin ((m : Rat) / 10 ^ i)))
      = s.cmp op' (.frac ⟨(m : Rat) / 10 ^ i⟩) := by
    intro op'
    have ho : s.oldCmp (.num (.fin ((m : Rat) / 10 ^ i))) = s.oldCmp (.frac ⟨(m : Rat) / 10 ^ i⟩) := by
      rw [oldCmp_of_coerce hc (by intro n; simp), oldCmp_of_coerce (coerce_frac _) (by intro n; simp)]
    unfold Frac.cmp Frac.pyEq Frac.eqImpl Frac.ltImpl
    simp only [ho]
  exact ⟨by rw [key, cmp_frac], by unfold Frac.rcmp; rw [key, cmp_frac]⟩

/-- every Fraction is below `+inf` and above `-inf`; a non-number is unequal and unordered -/
theorem fraction_cmp_special (s : Frac) :
    s.cmp .lt (.num (.inf false)) = .ok true ∧ s.cmp .gt (.num (.inf true)) = .ok true
    ∧ s.cmp .eq (.num (.inf false)) = .ok false ∧ s.cmp .eq (.num .bad) = .ok false
    ∧ s.cmp .lt (.num .bad) = .error .type := by
  refine ⟨rfl, ?_, rfl, rfl, rfl⟩
  simp [Frac.cmp, Frac.ltImpl, Frac.oldCmp, Frac.pyEq, Frac.eqImpl]

/-! ## 3. `FractionValue`: value, order, equality, copy -/

/-- **`float(fv)` is `number + numerator / denominator`** -/
theorem fv_value (v : FV) : v.value = v.number + (v.frac.numerator : Rat) / (v.frac.denominator : Rat) := by
  unfold Frac.numerator Frac.denominator
  rw [fv_value_eq]; push_cast; rfl

/-- **the order operators order FractionValues by their amounts**, whatever the split between
number and fraction -/
theorem fv_order (a b : FV) :
    a.cmp .lt b = .ok (decide (a.value < b.value)) ∧ a.cmp .le b = .ok (decide (a.value ≤ b.value))
    ∧ a.cmp .gt b = .ok (decide (b.value < a.value)) ∧ a.cmp .ge b = .ok (decide (b.value ≤ a.value)) :=
  ⟨rfl, rfl, rfl, rfl⟩

/-- order against a plain number -/
theorem fv_order_number (a : FV) (y : Rat) (op : CmpOp) (ho : op.isOrder = true) :
    a.cmpNum op y = .ok (FV.cmpValue op a.value y) := by
  cases op <;> simp_all [FV.cmpNum, CmpOp.isOrder]

/-- `==` holds exactly for equal number and equal fraction (as rationals: `2/4 == 1/2`);
equal FractionValues have equal amounts -/
theorem fv_eq (a b : FV) :
    a.cmp .eq b = .ok (decide (a = b)) ∧ a.cmp .ne b = .ok (!decide (a = b))
    ∧ (a = b → a.value = b.value) := by
  refine ⟨fv_eq_iff a b, ?_, fun h => by rw [h]⟩
  simp only [FV.cmp, fv_eq_iff]

/-- **a copy is equal to the original (number, fraction and therefore amount)** -/
theorem fv_copy_eq (v : FV) : v.copy = .ok v := fv_copy v

/-- construction: the default fraction is zero, so `FractionValue(n)` denotes `n`; a pair is
normalised like `Fraction(a, b)` -/
theorem fv_init_value (n : Rat) (m : Int) (i : Nat) (hi : i ≤ 7) (b : Rat) (hb : b ≠ 0) :
    (∃ v, FV.init (some n) FracArg.default = .ok v ∧ v.value = n)
    ∧ (∃ v, FV.init (some n) (.pair (.fin ((m : Rat) / 10 ^ i)) (.fin b)) = .ok v
        ∧ v.value = n + (m : Rat) / 10 ^ i / b) := by
  constructor
  · refine ⟨⟨n, ⟨0⟩⟩, ?_, by simp [FV.value, Frac.toFloat]⟩
    have := fraction_init_decimal 0 0 (by omega) 1 (by norm_num)
    simp only [Int.cast_zero, pow_zero, div_one] at this
    simp [FV.init, setFraction, FracArg.default, this]
  · refine ⟨⟨n, ⟨(m : Rat) / 10 ^ i / b⟩⟩, ?_, rfl⟩
    simp [FV.init, setFraction, fraction_init_decimal m i hi b hb]

/-! ## 4. `FractionScalar` converts like a `Scalar` holding `float(value)` -/

/-- **the converted FractionValue denotes the converted amount up to `SMALL / denominator`**, for
every pair of units of a database of well-formed rows (affine units included: the numerator is
converted as an increment), every number, numerator and denominator; and the conversion never
fails for one value when it works for another.  `y` is what a `Scalar` holding `float(value)`
converts to. -/
theorem fs_convert_near {db : Db} (hdb : db.AllWF) {cat fromU toU : Sym} {q : Qty}
    (hq : obtain db cat fromU = .ok q) (fv : FV) {y : Rat}
    (hy : q.convertScalarValue db toU fv.value = .ok y) :
    ∃ r, convertFV db cat fromU toU fv = .ok r ∧ |r.value - y| ≤ small / (fv.frac.denominator : Rat) := by
  rcases csv_shape hdb q toU with ⟨A, B, _, hAB⟩ | ⟨e, he⟩
  · refine ⟨_, convertFV_eq hq hAB fv, ?_⟩
    rw [hAB] at hy
    cases hy
    have hd : (0 : Rat) < (fv.frac.x.den : Rat) := by exact_mod_cast fv.frac.x.den_pos
    have hn := normalise_near (B * (fv.frac.x.num : Rat)) 1 (by norm_num)
    simp only [abs_one, div_one] at hn
    have e : (⟨A + B * fv.number, ⟨(normalise (B * fv.frac.x.num) 1).x / (fv.frac.x.den : Rat)⟩⟩ : FV).value
        - (A + B * fv.value)
        = ((normalise (B * fv.frac.x.num) 1).x - B * fv.frac.x.num) / (fv.frac.x.den : Rat) := by
      rw [fv_value_eq fv]
      simp only [FV.value, Frac.toFloat]
      field_simp
      ring
    rw [e, abs_div, abs_of_pos hd]
    unfold Frac.denominator
    push_cast
    exact div_le_div_of_nonneg_right hn (le_of_lt hd)
  · rw [he] at hy; cases hy

/-- **exactly equal** whenever the converted numerator increment is an integer or a decimal with
at most seven places (e.g. inch → mm, m → cm, degC → K, every same-scale pair) -/
theorem fs_convert_exact {db : Db} (hdb : db.AllWF) {cat fromU toU : Sym} {q : Qty}
    (hq : obtain db cat fromU = .ok q) (fv : FV) {y a z : Rat}
    (hy : q.convertScalarValue db toU fv.value = .ok y)
    (ha : q.convertScalarValue db toU fv.frac.numerator = .ok a)
    (hz : q.convertScalarValue db toU 0 = .ok z)
    (m : Int) (i : Nat) (hi : i ≤ 7) (hinc : a - z = (m : Rat) / 10 ^ i) :
    ∃ r, convertFV db cat fromU toU fv = .ok r ∧ r.value = y := by
  rcases csv_shape hdb q toU with ⟨A, B, _, hAB⟩ | ⟨e, he⟩
  · refine ⟨_, convertFV_eq hq hAB fv, ?_⟩
    rw [hAB] at hy ha hz
    cases hy; cases ha; cases hz
    have hinc' : B * (fv.frac.x.num : Rat) = (m : Rat) / 10 ^ i := by
      rw [← hinc]; unfold Frac.numerator; ring
    rw [hinc', normalise_decimal m i hi, ← hinc']
    have hd : (fv.frac.x.den : Rat) ≠ 0 := by exact_mod_cast fv.frac.x.den_nz
    rw [fv_value_eq fv]
    simp only [FV.value, Frac.toFloat]
    field_simp
    ring
  · rw [he] at hy; cases hy

/-- converting to the unit the value already has changes nothing -/
theorem fs_convert_same_unit {db : Db} {cat u : Sym} {q : Qty}
    (hq : obtain db cat u = .ok q) (hu : q.unit = u) (fv : FV) : convertFV db cat u u fv = .ok fv := by
  have hAB : ∀ x, q.convertScalarValue db u x = .ok (0 + 1 * x) := by
    intro x; unfold Qty.convertScalarValue; simp [hu]
  rw [convertFV_eq hq hAB fv]
  have := normalise_int fv.frac.x.num 1
  simp only [one_mul, div_one] at this ⊢
  rw [this]
  cases fv with
  | mk n f =>
    cases f with
    | mk x => simp [Rat.num_div_den]

/-- a conversion fails for a FractionValue exactly when it fails for a plain float, with the same
error -/
theorem fs_convert_fails_like_scalar {db : Db} (hdb : db.AllWF) {cat fromU toU : Sym} {q : Qty}
    (hq : obtain db cat fromU = .ok q) (fv : FV) (e : ErrKind) :
    convertFV db cat fromU toU fv = .error e ↔ q.convertScalarValue db toU fv.value = .error e := by
  rcases csv_shape hdb q toU with ⟨A, B, _, hAB⟩ | ⟨e', he⟩
  · rw [convertFV_eq hq hAB fv, hAB]; simp
  · rw [convertFV_err hq he fv, he]
    simp

/-- **the public classmethod `ConvertFractionValue` converts from `from_unit`, whatever unit the
Quantity object passed to it is in** (only its category is used), so a direct call gives exactly what
the instance route `FractionScalar(value, from_unit, category).GetValue(to_unit)` gives; the
quantity-type-string form is the same conversion with the default category of `from_unit` -/
theorem convertFractionValue_source_is_from_unit (db : Db) (c u1 u2 fromU toU : Sym) (fv : FV) (s : FS) (qt : Sym) :
    convertFractionValue db (.quantity ⟨c, u1⟩) fromU toU fv = convertFractionValue db (.quantity ⟨c, u2⟩) fromU toU fv
    ∧ convertFractionValue db (.quantity ⟨c, u1⟩) fromU toU fv = convertFV db c fromU toU fv
    ∧ s.getValue db (some toU) = convertFractionValue db (.quantity ⟨s.q.cat, u1⟩) s.q.unit toU s.value
    ∧ (∀ c', defaultCategory db fromU = some c' →
        convertFractionValue db (.qtype qt) fromU toU fv = convertFV db c' fromU toU fv) := by
  refine ⟨rfl, rfl, rfl, ?_⟩
  intro c' h
  simp [convertFractionValue, h]

/-- hence the direct call denotes what a Scalar holding `float(value)` in `from_unit` converts to, up
to `SMALL / denominator`, for every Quantity argument of that category -/
theorem convertFractionValue_near {db : Db} (hdb : db.AllWF) {c uq fromU toU : Sym} {q : Qty}
    (hq : obtain db c fromU = .ok q) (fv : FV) {y : Rat}
    (hy : q.convertScalarValue db toU fv.value = .ok y) :
    ∃ r, convertFractionValue db (.quantity ⟨c, uq⟩) fromU toU fv = .ok r
      ∧ |r.value - y| ≤ small / (fv.frac.denominator : Rat) :=
  fs_convert_near hdb hq fv hy

/-- the shipped POSC table satisfies the hypothesis -/
theorem posc_fs_convert_near {cat fromU toU : Sym} {q : Qty} (hq : obtain poscDb cat fromU = .ok q) (fv : FV)
    {y : Rat} (hy : q.convertScalarValue poscDb toU fv.value = .ok y) :
    ∃ r, convertFV poscDb cat fromU toU fv = .ok r ∧ |r.value - y| ≤ small / (fv.frac.denominator : Rat) :=
  fs_convert_near posc_allWF hq fv hy

/-! ### non-vacuity: affine units, a scale pair, the hypotheses of the exact theorem -/

/-! ## 5. order and validity of FractionScalars = those of Scalars on `float(value)` -/

/-- **`<`, `<=`, `>`, `>=` of two FractionScalars give what the same operator gives on two Scalars
holding the floats**, as soon as the two amounts are further apart than `SMALL / denominator`
(of the right operand, in the left operand's unit) -/
theorem fs_order_eq_scalar {db : Db} (hdb : db.AllWF) {a b : FS} (hb : obtain db b.q.cat b.q.unit = .ok b.q)
    {op : CmpOp} (ho : op.isOrder = true) {y : Rat}
    (hy : b.q.convertScalarValue db a.q.unit b.value.value = .ok y)
    (hm : small / (b.value.frac.denominator : Rat) < |a.value.value - y|) :
    a.order db op b = scalarOrder db op a.q b.q a.value.value b.value.value := by
  unfold FS.order scalarOrder
  split
  · rfl
  · obtain ⟨r, hr, hbound⟩ := fs_convert_near hdb hb b.value hy
    simp only [FS.getValue, hr, hy]
    have : a.value.cmp op r = .ok (FV.cmpValue op a.value.value r.value) := by
      cases op <;> simp_all [FV.cmp, CmpOp.isOrder]
    rw [this, cmpValue_stable ho hbound hm]

/-- in one unit no margin is needed: the comparison is the comparison of the two amounts -/
theorem fs_order_same_unit {db : Db} {a b : FS} (hb : obtain db b.q.cat b.q.unit = .ok b.q)
    (hu : b.q.unit = a.q.unit) (ht : a.q.qtype db = b.q.qtype db) {op : CmpOp} (ho : op.isOrder = true) :
    a.order db op b = .ok (FV.cmpValue op a.value.value b.value.value)
    ∧ scalarOrder db op a.q b.q a.value.value b.value.value = .ok (FV.cmpValue op a.value.value b.value.value) := by
  unfold FS.order scalarOrder
  simp only [ht, bne_self_eq_false, Bool.false_eq_true, if_false, FS.getValue]
  rw [← hu, fs_convert_same_unit hb rfl]
  constructor
  · cases op <;> simp_all [FV.cmp, CmpOp.isOrder]
  · simp [Qty.convertScalarValue]

/-- FractionScalars of different quantity types are not comparable, exactly like Scalars; and a
failing conversion fails both comparisons with the same error -/
theorem fs_order_fails_like_scalar {db : Db} (hdb : db.AllWF) {a b : FS} (hb : obtain db b.q.cat b.q.unit = .ok b.q)
    (op : CmpOp) :
    (a.q.qtype db ≠ b.q.qtype db → a.order db op b = .error .type
        ∧ scalarOrder db op a.q b.q a.value.value b.value.value = .error .type)
    ∧ (∀ e, a.q.qtype db = b.q.qtype db → b.q.convertScalarValue db a.q.unit b.value.value = .error e →
        a.order db op b = .error e ∧ scalarOrder db op a.q b.q a.value.value b.value.value = .error e) := by
  constructor
  · intro h
    unfold FS.order scalarOrder
    simp [h]
  · intro e ht he
    unfold FS.order scalarOrder
    simp only [ht, bne_self_eq_false, Bool.false_eq_true, if_false, FS.getValue, he]
    rw [(fs_convert_fails_like_scalar hdb hb b.value e).mpr he]
    simp

/-- **`CheckValidity` of a FractionScalar is `CheckValue` of its quantity on `float(value)`**: the
verdict a Scalar with the same quantity holding that float gets, limits, exclusivity and unit
conversion included -/
theorem fs_validity_eq_scalar (db : Db) (s : FS) :
    s.checkValidity db = scalarCheckValidity db s.q s.value.value := rfl

/-- validity depends on the amount only: two FractionValues with equal `float()` get the same
verdict -/
theorem fs_validity_amount_only (db : Db) (q : Qty) (v w : FV) (h : v.value = w.value) :
    (⟨q, v⟩ : FS).checkValidity db = (⟨q, w⟩ : FS).checkValidity db := by
  unfold FS.checkValidity; rw [h]

/-- the conversion registered for `UnitDatabase.Convert` returns a FractionValue whose amount is the
amount of the converted value (it keeps no fraction) -/
theorem db_convert_value {db : Db} {cq fromU toU c : Sym} {fv r : FV} (hne : (fromU == toU) = false)
    {qt : Sym} (ht : db.typeOf cq = .ok qt) (hc : defaultCategory db fromU = some c)
    (hr : convertFV db c fromU toU fv = .ok r) :
    ∃ r', dbConvertFV db cq fromU toU fv = .ok r' ∧ r'.value = r.value ∧ r'.frac.x = 0 := by
  have h0 := fraction_init_decimal 0 0 (by omega) 1 (by norm_num)
  simp only [Int.cast_zero, pow_zero, div_one] at h0
  refine ⟨⟨r.value, ⟨0⟩⟩, ?_, by simp [FV.value, Frac.toFloat], rfl⟩
  unfold dbConvertFV
  simp [hne, ht, hc, hr, FV.init, setFraction, FracArg.default, h0]

/-! ## 6. formatting followed by parsing gives the value back -/

/-- **`CreateFromString(str(fv)) = fv` exactly** (number, numerator, denominator) for every number
with at most six significant digits and `1e-4 ≤ |number| < 1e6` or `0` (`Printable`: integers and
short decimals, either sign) and every fraction whose reduced numerator and denominator are below a
million.  `str` is the `%g` model, `parse` the two regular expressions as a backtracking matcher. -/
theorem parse_format (v : FV) (hn : Printable v.number) (hnum : v.frac.numerator.natAbs < 1000000)
    (hden : v.frac.denominator < 1000000) : parse v.str = .ok v := by
  apply parse_str v hn hnum
  unfold Frac.denominator at hden
  exact_mod_cast hden

/-- what `%g` prints for such a number: its digits in fixed notation, exactly (no rounding, no
exponent); integers below a million print as their decimal digits -/
theorem format_exact (q : Rat) (r s : Nat) (hr : 100000 ≤ r) (hr' : r < 1000000) (hs : s ≤ 9)
    (hq : |q| = (r : Rat) / 10 ^ s) (n : Nat) (hn : n < 1000000) :
    fmtG q = (if q < 0 then '-' :: renderFixed r s else renderFixed r s)
    ∧ readUnsigned (renderFixed r s) = .ok |q|
    ∧ fmtG (n : Rat) = natDigits n ∧ readDigits (natDigits n) = n := by
  refine ⟨fmtG_fixed q r s hr hr' hs hq, ?_, fmtG_nat n hn, readDigits_natDigits n⟩
  rw [hq]; exact readUnsigned_numText (renderFixed_numText r s)

/-- **outside that domain the statement is false: `%g` switches to exponent notation, which the
parser rejects** (known finding `g-exponent`): `str(FractionValue(1000000)) = "1e+06"` -/
theorem parse_format_exponent_counterexample :
    (⟨1000000, ⟨0⟩⟩ : FV).str = ['1', 'e', '+', '0', '6']
    ∧ parse (⟨1000000, ⟨0⟩⟩ : FV).str = .error .value := by
  constructor <;> decide +kernel

/-! ### non-vacuity -/

/-! ## 7. `CreateFromFloat` -/

/-- an integer-valued float becomes `FractionValue(value)` -/
theorem createFromFloat_int (z : Int) :
    ∃ v, createFromFloat (z : Rat) = .ok v ∧ v.value = z := by
  refine ⟨⟨z, ⟨0⟩⟩, createFromFloat_of_int (by simp), by simp [FV.value, Frac.toFloat]⟩

/-- **the continued-fraction loop in exact arithmetic returns the reduced fraction of its target**
`0 < t < 1` (numerator below `2^498`), whatever the numerator bound `maxNum ≥ t.num`: it never
stops on a repeated value, never divides by zero, never runs out of its 998 passes -/
theorem createFromFloat_loop_exact {t : Rat} (h0 : 0 < t) (h1 : t < 1) {maxNum : Int} (hmax : t.num ≤ maxNum)
    (hsize : t.num < 2 ^ 498) :
    cfLoop t maxNum 998 (cfInit t) = .ok (t.num, (t.den : Int)) := cfLoop_exact h0 h1 hmax hsize

/-- **`CreateFromFloat(d)` denotes `d` exactly** for every decimal `d` (any number of significant
digits up to 100 decimal places, either sign) with `1e-4 ≤ |d| < 1e16`, and for every integer:
`str(value)` is in fixed notation there, `GetFractionalPart` returns `d - floor d`,
`GetMaxNumerator` is the digit string read as a number and bounds every convergent's numerator,
and the loop ends on the reduced fraction of the fractional part.  (In exact arithmetic; the float
loop is tied to this model by the correspondence.) -/
theorem createFromFloat_exact (d : Rat) (k : Nat) (hk : k ≤ 100) (hd : (d * 10 ^ k).den = 1)
    (hlo : 1 / 10 ^ 4 ≤ |d|) (hhi : |d| < 10 ^ 16) : ∃ v, createFromFloat d = .ok v ∧ v.value = d :=
  createFromFloat_decimal d k hk hd hlo hhi

/-- **for `0 < |x| < 1e-4` the code is wrong** (known finding `repr-exponent`): `str(x)` is in
exponent notation and `GetFractionalPart` keeps the exponent: `CreateFromFloat(1.5e-07)` is `5e-08` -/
theorem createFromFloat_tiny_counterexample :
    createFromFloat (3 / 20000000) = .ok ⟨0, ⟨1 / 20000000⟩⟩ := by decide +kernel

/-! ### non-vacuity -/

/-! ## 8. objects are independent: whatever is done to one leaves the amount of every other

A program is a sequence of statements over the objects it has built so far (`Pool`): each statement
builds a new `Fraction`/`FractionValue`/`FractionScalar` (every constructor form, `CreateFromFloat`,
`CreateFromString`, copies, arithmetic, conversions — they may read other objects) or changes one object
in place (the `numerator`/`denominator` setters, `fraction[i] = …`, `reduce`, `SetNumber`, `SetFraction`,
on a FractionValue also through `fv.fraction`, on a FractionScalar through `fs.GetValue()`). -/

/-- **one statement changes at most the object it is aimed at**: every other object is exactly what
it was (number, fraction, unit), hence denotes the same amount; building a new object changes no
existing one -/
theorem pool_step_independent (db : Db) (p : Pool) (op : PoolOp) (j : Nat) (hj : j < p.length)
    (h : op.target ≠ some j) :
    (poolStep db p op).1[j]? = p[j]?
    ∧ ((poolStep db p op).1[j]?).map Obj.value = (p[j]?).map Obj.value := by
  rw [poolStep_get_other db p op j hj h]; exact ⟨rfl, rfl⟩

/-- **for every program, by induction over its statements: object `j` ends as what the in-place
statements aimed at `j` itself, applied to it alone, make of it** — no statement aimed at another
object, no construction, copy, conversion or arithmetic in between enters the result -/
theorem pool_run_projection (db : Db) (ops : List PoolOp) (p : Pool) (j : Nat) (o : Obj) (h : p[j]? = some o) :
    (poolRun db p ops)[j]? = some (o.mutateAll (mutsOf j ops)) := poolRun_projection db ops p j o h

/-- **an object no statement is aimed at keeps its parts and its amount through any program** -/
theorem pool_run_independent (db : Db) (ops : List PoolOp) (p : Pool) (j : Nat) (o : Obj) (h : p[j]? = some o)
    (hno : ∀ op ∈ ops, op.target ≠ some j) :
    (poolRun db p ops)[j]? = some o ∧ ((poolRun db p ops)[j]?).map Obj.value = some o.value := by
  have := poolRun_projection db ops p j o h
  rw [mutsOf_nil_of_no_target j ops hno] at this
  simp only [Obj.mutateAll] at this
  rw [this]; exact ⟨rfl, rfl⟩

/-- **a FractionValue built without a fraction argument (`FractionValue(n)`, `FractionValue()`,
`FractionValue(number=n)`) denotes `n`, and keeps denoting `n` whatever the program does afterwards
to the other objects** — whatever pool it was built into -/
theorem fv_without_fraction_denotes_number (db : Db) (p : Pool) (n : Rat) (ops : List PoolOp)
    (hno : ∀ op ∈ ops, op.target ≠ some p.length) :
    (poolRun db p (.new (.fvNew (some n) FracArg.default) :: ops))[p.length]? = some (.fv ⟨n, ⟨0⟩⟩)
    ∧ (Obj.fv ⟨n, ⟨0⟩⟩).value = n := by
  constructor
  · have hs : poolStep db p (.new (.fvNew (some n) FracArg.default)) = (p ++ [.fv ⟨n, ⟨0⟩⟩], .ok ()) :=
      poolStep_new db p _ _ (by simp [Ctor.eval, okFV, fvInit_default])
    simp only [poolRun, hs]
    exact (pool_run_independent db ops _ p.length _ (by simp) hno).1
  · simp [Obj.value, FV.value, Frac.toFloat]

/-- the same for a FractionValue built with an explicit fraction, by `CreateFromFloat`,
`CreateFromString`, a copy, a conversion …: whatever a construction built stays what it built -/
theorem pool_new_keeps (db : Db) (p : Pool) (c : Ctor) (o : Obj) (hc : c.eval db p = .ok (some o))
    (ops : List PoolOp) (hno : ∀ op ∈ ops, op.target ≠ some p.length) :
    (poolRun db p (.new c :: ops))[p.length]? = some o := by
  simp only [poolRun, poolStep_new db p c o hc]
  exact (pool_run_independent db ops _ p.length _ (by simp) hno).1

/-- **a FractionScalar built from a plain float `x` holds the FractionValue `x` (no fraction) in its
unit** — the amount a Scalar holding `x` has — **and keeps it through any program on other objects** -/
theorem fs_from_float_denotes_float (db : Db) (p : Pool) (cat unit : Sym) (q : Qty) (x : Rat)
    (hq : obtain db cat unit = .ok q) (ops : List PoolOp) (hno : ∀ op ∈ ops, op.target ≠ some p.length) :
    (poolRun db p (.new (.fsNew cat unit (.num x)) :: ops))[p.length]? = some (.fs ⟨q, ⟨x, ⟨0⟩⟩⟩)
    ∧ (Obj.fs ⟨q, ⟨x, ⟨0⟩⟩⟩).value = x := by
  constructor
  · exact pool_new_keeps db p _ _ (by simp [Ctor.eval, fvInit_default, FS.init, hq]) ops hno
  · simp [Obj.value, FV.value, Frac.toFloat]

/-- copies and arithmetic results are new objects: changing them later does not reach the original
(and the other way round) -/
theorem pool_copy_independent (db : Db) (p : Pool) (k : Nat) (v : FV) (hk : p[k]? = some (.fv v))
    (ops : List PoolOp) :
    (poolRun db p (.new (.fvCopy k) :: ops))[k]? = some ((Obj.fv v).mutateAll (mutsOf k ops))
    ∧ (poolRun db p (.new (.fvCopy k) :: ops))[p.length]? = some ((Obj.fv v).mutateAll (mutsOf p.length ops)) := by
  have hc : (Ctor.fvCopy k).eval db p = .ok (some (.fv v)) := by
    simp [Ctor.eval, Pool.fv?, hk, fv_copy, okFV]
  have hklt : k < p.length := (List.getElem?_eq_some_iff.mp hk).1
  simp only [poolRun, poolStep_new db p _ _ hc]
  constructor
  · exact poolRun_projection db ops _ k _ (by rw [List.getElem?_append_left hklt]; exact hk)
  · exact poolRun_projection db ops _ p.length _ (by simp)

/-! ## 9. the in-place setters and the sequence protocol of `Fraction` -/

/-- **`f.numerator = n` / `f.denominator = d` with ints give `n / denominator` and `numerator / d`
exactly** (`d = 0` is Python's `ZeroDivisionError`); infinite values are refused -/
theorem fraction_set_int (f : Frac) (n d : Int) (hd : d ≠ 0) (neg : Bool) :
    f.setNum (.int n) = .ok ⟨(n : Rat) / (f.denominator : Rat)⟩
    ∧ f.setDen (.int d) = .ok ⟨(f.numerator : Rat) / (d : Rat)⟩
    ∧ f.setDen (.int 0) = .error .other
    ∧ f.setNum (.inf neg) = .error .value ∧ f.setDen (.inf neg) = .error .value :=
  ⟨setNum_int f n, setDen_int f d hd, setDen_zero f, rfl, rfl⟩

/-- **a float argument (a decimal with at most seven places) acts as the rational it denotes** -/
theorem fraction_set_float (f : Frac) (m : Int) (i : Nat) (hi : i ≤ 7) :
    f.setNum (.float ((m : Rat) / 10 ^ i)) = .ok ⟨(m : Rat) / 10 ^ i / (f.denominator : Rat)⟩
    ∧ (m ≠ 0 → f.setDen (.float ((m : Rat) / 10 ^ i)) = .ok ⟨(f.numerator : Rat) / ((m : Rat) / 10 ^ i)⟩) :=
  ⟨setNum_decimal f m i hi, setDen_decimal f m i hi⟩

/-- `f[0] = n`, `f[-2] = n` set the numerator, `f[1] = d`, `f[-1] = d` the denominator (ints only);
`f[1] = 0` is refused by the assertion, other keys by the list -/
theorem fraction_setitem (f : Frac) (n d : Int) (hd : d ≠ 0) :
    f.setItem (some 0) (.int n) = f.setNum (.int n) ∧ f.setItem (some (-2)) (.int n) = f.setNum (.int n)
    ∧ f.setItem (some 1) (.int d) = f.setDen (.int d) ∧ f.setItem (some (-1)) (.int d) = f.setDen (.int d)
    ∧ f.setItem (some 1) (.int 0) = .error .assertion
    ∧ f.setItem (some 2) (.int n) = .error .index ∧ f.setItem none (.int d) = .error .type := by
  have hd' : (d != 0) = true := by simp [hd]
  refine ⟨?_, ?_, ?_, ?_, ?_, ?_, ?_⟩ <;>
    simp [Frac.setItem, Frac.setNum, Frac.setDen, PyNum.isNumber, PyNum.truthy, hd']

/-- **the sequence protocol shows the fraction itself**: `len(f) = 2`, `f[0]`/`f[-2]` the numerator,
`f[1]`/`f[-1]` the denominator, iteration both, and `f[0] / f[1]` is the amount -/
theorem fraction_sequence (f : Frac) :
    f.len = 2 ∧ f.getItem (some 0) = .ok f.numerator ∧ f.getItem (some 1) = .ok f.denominator
    ∧ f.getItem (some (-2)) = .ok f.numerator ∧ f.getItem (some (-1)) = .ok f.denominator
    ∧ f.getItem (some 2) = .error .index ∧ f.getItem none = .error .type
    ∧ f.iter = [f.numerator, f.denominator]
    ∧ (f.numerator : Rat) / (f.denominator : Rat) = f.x := by
  refine ⟨rfl, rfl, rfl, rfl, rfl, rfl, rfl, rfl, ?_⟩
  exact num_div_den' f.x

/-- setting a part in place and reading it back through a FractionValue: `fv.fraction.numerator = n`
changes the fraction only, `SetNumber` the number only -/
theorem fv_mutate_parts (v : FV) (n : Int) (x : Rat) :
    v.mutate (.setNum (.int n)) = .ok ⟨v.number, ⟨(n : Rat) / (v.frac.denominator : Rat)⟩⟩
    ∧ v.mutate (.setNumber (some x)) = .ok ⟨x, v.frac⟩ := by
  constructor
  · simp [FV.mutate, Frac.mutate, setNum_int]
  · rfl

/-! ## 10. `Fraction.__pow__` agrees with exact rational arithmetic for integer exponents -/

/-- **`f ** k` is `f.x ^ k` for every integer `k ≥ 0`, the reciprocal power for `k < 0` and `f ≠ 0`
(an int or an integral float exponent alike); `0 ** k` for `k < 0` is refused** -/
theorem fraction_pow_exact (s : Frac) (k : Nat) :
    s.pow (.int k) = .ok ⟨s.x ^ k⟩ ∧ s.pow (.float k) = .ok ⟨s.x ^ k⟩
    ∧ (0 < k → s.x ≠ 0 → s.pow (.int (-(k : Int))) = .ok ⟨(s.x ^ k)⁻¹⟩ ∧ s.pow (.float (-(k : Int))) = .ok ⟨(s.x ^ k)⁻¹⟩)
    ∧ (0 < k → s.x = 0 → s.pow (.int (-(k : Int))) = .error .assertion) :=
  ⟨powInt_nonneg s k, powInt_nonneg s k, fun hk hx => ⟨powInt_neg s k hk hx, powInt_neg s k hk hx⟩,
   fun hk hx => powInt_neg_zero s k hk hx⟩

/-- in one formula: `f ** k = f.x ^ k` with the integer power of the rationals (`zpow`) -/
theorem fraction_pow_zpow (s : Frac) (k : Int) (hx : s.x ≠ 0) : s.pow (.int k) = .ok ⟨s.x ^ k⟩ := by
  rcases Int.eq_nat_or_neg k with ⟨n, rfl | rfl⟩
  · rw [zpow_natCast]; exact powInt_nonneg s n
  · rcases Nat.eq_zero_or_pos n with rfl | hn
    · simpa [Frac.pow] using powInt_nonneg s 0
    · rw [zpow_neg, zpow_natCast]; exact powInt_neg s n hn hx

/-- an infinite exponent: `float(f) ** ±inf` is 1, 0 or infinite, and an infinite value is refused -/
theorem fraction_pow_inf (s : Frac) (neg : Bool) (h : |s.x| ≠ 1) :
    s.pow (.inf neg) = (if (decide (1 < |s.x|)) != neg then .error .value else .ok ⟨0⟩) := by
  have h0 := normalise_int 0 1
  simp only [Int.cast_zero, div_one] at h0
  simp [Frac.pow, Frac.powInf, absR_eq_abs, h, init_fin_none, h0]

/-! ## 11. the localized texts and the other argument forms -/

/-- **`GetLocalizedString()` is `str()` (C locale), so parsing it gives the value back under the
hypotheses of `parse_format`, with either setting of `consider_locale`; `GetLocalizedFraction()` is
the fraction part of that text** -/
theorem localized_parse (v : FV) (hn : Printable v.number) (hnum : v.frac.numerator.natAbs < 1000000)
    (hden : v.frac.denominator < 1000000) (cl : Bool) :
    parseWith cl v.localizedString = .ok v
    ∧ v.str = (if v.frac.toFloat = 0 then fmtG v.number else fmtG v.number ++ ' ' :: v.localizedFraction) := by
  refine ⟨parse_format v hn hnum hden, ?_⟩
  unfold FV.str FV.localizedFraction
  split <;> rfl

/-- `CreateFromFloat(None)` is `None`, a non-number a `TypeError`, a number what section 7 says -/
theorem createFromFloat_arguments (d : Rat) :
    createFromFloatPy .none = .ok none ∧ createFromFloatPy .bad = .error .type
    ∧ createFromFloatPy (.num d) = (createFromFloat d).map some := by
  refine ⟨rfl, rfl, ?_⟩
  simp only [createFromFloatPy]
  cases h : createFromFloat d <;> simp [Except.map]

end Barril.Frac
