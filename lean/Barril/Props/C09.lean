/-
C09 — plain numbers act as dimensionless operands and never strip the unit.

Model: `Barril/Model/Ops.lean` (`Scalar._DoOperation`, `Array._DoOperation`, `_ValueGenerator`,
`IsNumber`, the database operations, Python's operator dispatch).  Lemmas: `Barril/Proofs/OpsLemmas.lean`.

All statements are for every database `env` that satisfies the one law `Env.Lawful` ("Convert to the
same unit returns the value", true of `Env.ofDb db` for every table `db`), every operand value, every
container of every length.  The `Array` statements and the `k / x`, `k // x` statements go through the
database operations with `Quantity.CreateEmpty()`; they hold for quantities in normal form
(`Normal`: the form every operation result has).  A hand-built dict with two units of one quantity
type is converted by `_MatchQuantities` first (engine `Alg`, C03/C04); see
`array_mul_num_unmatched_counterexample`.

`d` is `numpyDefers`: whether numpy hands `numpy_scalar op x` / `ndarray op x` over to x's reflected
operator.  With a Python number on the left it is irrelevant; with a numpy operand on the left the
statements need `d = true` (observed on the real code by the correspondence), and
`numpy_left_not_deferring_strips_unit` shows what the repaired defect was.
-/
import Barril.Proofs.OpsLemmas

namespace Barril.Ops
open Barril

/-! ### Scalar: `x*k x/k x//k x+k x-k` and `k*x k+x k-x` keep the quantity -/

/-- `x op k` for all five operators: the Scalar's own quantity, the operation applied to the value
(a zero divisor is the `ZeroDivisionError` of `vop`) -/
theorem scalar_op_num (env : Env) (d : Bool) (op : Op) (q : Quantity) (v : Rat) (np : Bool) (k : Rat) :
    binop env d op (.scalar q v) (.num np k) = (vop op v k).map (Out.scalar q) := by
  cases op <;> simp [binop, scalarDoOp, isNumber, isDivision, Except.map] <;> split <;> simp_all

/-- `k op x` for `+ - *`, any kind of number on the left -/
theorem num_op_scalar (env : Env) (d : Bool) (op : Op) (q : Quantity) (v : Rat) (np : Bool) (k : Rat)
    (hop : isDivision op = false) (hd : np = true → d = true) :
    binop env d op (.num np k) (.scalar q v) = .ok (.scalar q (vval op k v)) := by
  have hb : (np && !d) = false := by cases np <;> cases d <;> simp_all
  cases op <;> simp_all [binop, scalarDoOp, isNumber, isDivision, vop, vval]

/-! ### Scalar: `k / x` and `k // x` have the reciprocal quantity and the value `k / v` -/

theorem num_div_scalar {env : Env} (hl : env.Lawful) (d : Bool) (op : Op) {q : Quantity} (hq : Normal env q)
    (v : Rat) (np : Bool) (k : Rat) (hop : isDivision op = true) (hd : np = true → d = true) :
    binop env d op (.num np k) (.scalar q v) = (vop op k v).map (Out.scalar (recipQ q)) := by
  have hb : ¬ (np = true ∧ d = false) := by cases np <;> cases d <;> simp_all
  have hf : opFunc env op emptyQ q = .ok (recipQ q, Tr.ident, Tr.ident) := by
    cases op <;> simp_all [opFunc, isDivision, opNew_div_empty_left hl hq]
  cases op <;> simp_all [binop, scalarDoOp, isNumber, isDivision, quantityOf, valueOf, applyOp_ident, Except.map]
  all_goals
    rw [if_neg (by cases np <;> cases d <;> simp_all)]
    generalize vop _ k v = r
    cases r <;> rfl

/-- in particular `k / x = Scalar(k / v)` with every exponent negated when `v ≠ 0` -/
theorem num_truediv_scalar {env : Env} (hl : env.Lawful) {q : Quantity} (hq : Normal env q) (v k : Rat) (hv : v ≠ 0) :
    binop env true .div (.num false k) (.scalar q v) = .ok (.scalar (recipQ q) (k / v)) := by
  rw [num_div_scalar hl true .div hq v false k rfl (by simp)]
  simp [vop, hv, Except.map]

/-! ### Array: the same, for every container kind and every length -/

/-- `x op k` on an Array over a list, a tuple or an ndarray of ANY length: the Array's quantity, the
same container kind, the operation applied to every value -/
theorem array_op_num {env : Env} (hl : env.Lawful) (d : Bool) (op : Op) {q : Quantity} (hq : Normal env q)
    (kind : Kind) (vs : List Rat) (np : Bool) (k : Rat) :
    binop env d op (.array q kind vs) (.num np k) =
      (mapE (fun x => vop op x k) vs).map (Out.array q kind) := by
  simp only [binop, arrayDoOp, rawOf, valuesOf, quantityOf]
  rw [arrayCompute_ident _ _ (opFunc_empty_right hl op hq)]
  cases kind <;> simp [genIsNumpy, Raw.isNumpy, broadcastPairs, genPairs, genIsTuple, Raw.iterates, Raw.isTuple, mapE_map]

/-- with a non-zero divisor: the values are exactly `vs.map (· op k)` -/
theorem array_op_num_values {env : Env} (hl : env.Lawful) (d : Bool) (op : Op) {q : Quantity} (hq : Normal env q)
    (kind : Kind) (vs : List Rat) (np : Bool) (k : Rat) (hk : isDivision op = true → k ≠ 0) :
    binop env d op (.array q kind vs) (.num np k) = .ok (.array q kind (vs.map (fun x => vval op x k))) := by
  rw [array_op_num hl d op hq]
  have : (fun x => vop op x k) = (fun x => .ok (vval op x k)) := by funext x; exact vop_ok hk
  rw [this, mapE_total]; rfl

/-- `k op x` for `+ - *` -/
theorem num_op_array {env : Env} (hl : env.Lawful) (d : Bool) (op : Op) {q : Quantity} (hq : Normal env q)
    (kind : Kind) (vs : List Rat) (np : Bool) (k : Rat) (hop : isDivision op = false) (hd : np = true → d = true) :
    binop env d op (.num np k) (.array q kind vs) = .ok (.array q kind (vs.map (fun x => vval op k x))) := by
  have hb : (np && !d) = false := by cases np <;> cases d <;> simp_all
  simp only [binop, hb, arrayDoOp, rawOf, valuesOf, quantityOf]
  rw [arrayCompute_ident _ _ (opFunc_empty_left hl op hq hop)]
  have : (fun x => vop op k x) = (fun x => .ok (vval op k x)) := by funext x; exact vop_ok (by simp [hop])
  cases kind <;> simp [genIsNumpy, Raw.isNumpy, broadcastPairs, genPairs, genIsTuple, Raw.iterates, Raw.isTuple,
    mapE_map, this, mapE_total, Except.map]

/-- `k / x`, `k // x` on an Array: the reciprocal quantity, the container kind of x, `k / v` for every value -/
theorem num_div_array {env : Env} (hl : env.Lawful) (d : Bool) (op : Op) {q : Quantity} (hq : Normal env q)
    (kind : Kind) (vs : List Rat) (np : Bool) (k : Rat) (hop : isDivision op = true) (hd : np = true → d = true) :
    binop env d op (.num np k) (.array q kind vs) =
      (mapE (fun x => vop op k x) vs).map (Out.array (recipQ q) kind) := by
  have hb : (np && !d) = false := by cases np <;> cases d <;> simp_all
  simp only [binop, hb, arrayDoOp, rawOf, valuesOf, quantityOf]
  rw [arrayCompute_ident _ _ (opFunc_div_empty_left hl op hq hop)]
  cases kind <;> simp [genIsNumpy, Raw.isNumpy, broadcastPairs, genPairs, genIsTuple, Raw.iterates, Raw.isTuple, mapE_map]

/-- an ndarray of the same length as the plain operand, on either side: x's quantity (the reciprocal
one for `ndarray / x`), an ndarray of the elementwise results -/
theorem array_op_ndarray {env : Env} (hl : env.Lawful) (d : Bool) (op : Op) {q : Quantity} (hq : Normal env q)
    (kind : Kind) (vs ks : List Rat) (hlen : vs.length = ks.length) :
    binop env d op (.array q kind vs) (.ndarr ks) =
      (mapE (fun p => vop op p.1 p.2) (vs.zip ks)).map (Out.array q .nd) := by
  simp only [binop, arrayDoOp, rawOf, valuesOf, quantityOf]
  rw [arrayCompute_ident _ _ (opFunc_empty_right hl op hq)]
  cases kind <;> simp [genIsNumpy, Raw.isNumpy, broadcastPairs, hlen]

theorem ndarray_op_array {env : Env} (hl : env.Lawful) (op : Op) {q : Quantity} (hq : Normal env q)
    (kind : Kind) (vs ks : List Rat) (hlen : ks.length = vs.length) :
    binop env true op (.ndarr ks) (.array q kind vs) =
      (mapE (fun p => vop op p.1 p.2) (ks.zip vs)).map
        (Out.array (if isDivision op then recipQ q else q) .nd) := by
  simp only [binop, arrayDoOp, rawOf, valuesOf, quantityOf]
  cases hop : isDivision op
  · simp only [Bool.not_true, Bool.and_false, Bool.false_eq_true, ↓reduceIte]
    rw [arrayCompute_ident _ _ (opFunc_empty_left hl op hq hop)]
    cases kind <;> simp [genIsNumpy, Raw.isNumpy, broadcastPairs, hlen]
  · simp only [Bool.not_true, Bool.and_false, Bool.false_eq_true, ↓reduceIte]
    rw [arrayCompute_ident _ _ (opFunc_div_empty_left hl op hq hop)]
    cases kind <;> simp [genIsNumpy, Raw.isNumpy, broadcastPairs, hlen]

/-! ### the legacy operator `Array.__rdiv__` and Arrays whose `values` is a bare number -/

/-- `x.__rdiv__(k)` is `k / x` (the body of `__rtruediv__`), for every kind of `k` that is not itself a barril
object on the left: numbers, ndarrays, malformed operands -/
theorem array_rdiv_eq_rtruediv (env : Env) (q : Quantity) (kind : Kind) (vs : List Rat) (k : Operand)
    (hk : k.isBarril = false) :
    arrayRDiv env (.array q kind vs) k = binop env true .div k (.array q kind vs) := by
  cases k <;> simp_all [arrayRDiv, binop, Operand.isBarril]

/-- hence `x.__rdiv__(k)` has the reciprocal quantity, x's container kind and `k / v` for every value -/
theorem array_rdiv_num {env : Env} (hl : env.Lawful) {q : Quantity} (hq : Normal env q)
    (kind : Kind) (vs : List Rat) (np : Bool) (k : Rat) :
    arrayRDiv env (.array q kind vs) (.num np k) =
      (mapE (fun x => vop .div k x) vs).map (Out.array (recipQ q) kind) := by
  rw [array_rdiv_eq_rtruediv env q kind vs (.num np k) rfl]
  exact num_div_array hl true .div hq kind vs np k rfl (by simp)

/-- an Array whose `values` is a bare number `v` (`_ValueGenerator` iterates neither side): `x op k` is a list
Array of the one value `v op k`, with x's quantity -/
theorem array0_op_num {env : Env} (hl : env.Lawful) (d : Bool) (op : Op) {q : Quantity} (hq : Normal env q)
    (v : Rat) (np : Bool) (k : Rat) :
    binop env d op (.array0 q v) (.num np k) = (vop op v k).map (fun z => Out.array q .list [z]) := by
  simp only [binop, arrayDoOp, rawOf, valuesOf, quantityOf]
  rw [arrayCompute_ident _ _ (opFunc_empty_right hl op hq)]
  simp only [genIsNumpy, Raw.isNumpy, Bool.or_self, Bool.false_eq_true, ↓reduceIte, genPairs, genIsTuple,
    Raw.iterates, Bool.and_self, mapE]
  cases vop op v k <;> rfl

/-- `k op x` for `+ - *` on such an Array, and `k / x`, `k // x` with the reciprocal quantity -/
theorem num_op_array0 {env : Env} (hl : env.Lawful) (d : Bool) (op : Op) {q : Quantity} (hq : Normal env q)
    (v : Rat) (np : Bool) (k : Rat) (hd : np = true → d = true) :
    binop env d op (.num np k) (.array0 q v) =
      (vop op k v).map (fun z => Out.array (if isDivision op then recipQ q else q) .list [z]) := by
  have hb : (np && !d) = false := by cases np <;> cases d <;> simp_all
  simp only [binop, hb, arrayDoOp, rawOf, valuesOf, quantityOf]
  cases hop : isDivision op
  · rw [arrayCompute_ident _ _ (opFunc_empty_left hl op hq hop)]
    simp only [genIsNumpy, Raw.isNumpy, Bool.or_self, Bool.false_eq_true, ↓reduceIte, genPairs, genIsTuple,
      Raw.iterates, Bool.and_self, mapE]
    cases vop op k v <;> rfl
  · rw [arrayCompute_ident _ _ (opFunc_div_empty_left hl op hq hop)]
    simp only [genIsNumpy, Raw.isNumpy, Bool.or_self, Bool.false_eq_true, ↓reduceIte, genPairs, genIsTuple,
      Raw.iterates, Bool.and_self, mapE]
    cases vop op k v <;> rfl

/-- two barril operands one of which holds a bare number as its `values`: `len()` of a number is a `TypeError`,
whatever the other Array holds -/
theorem array0_op_array_type_error (env : Env) (d : Bool) (op : Op) (q1 q2 : Quantity) (v : Rat) (kind : Kind)
    (vs : List Rat) :
    binop env d op (.array0 q1 v) (.array q2 kind vs) = .error .type ∧
    binop env d op (.array q2 kind vs) (.array0 q1 v) = .error .type := by
  simp [binop, arrayDoOp, rawOf, valuesOf, rawLen]

/-! ### the result is always a barril object carrying a quantity -/

/-- **whichever operand stands on the left**, when one operand is a Scalar or an Array and numpy
defers, a successful operation returns a Scalar or an Array, i.e. an object that carries a quantity;
never a bare number or ndarray -/
theorem result_is_barril_object (env : Env) (op : Op) (lhs rhs : Operand) (o : Out)
    (hb : lhs.isBarril = true ∨ rhs.isBarril = true) (h : binop env true op lhs rhs = .ok o) :
    ∃ q, o.quantity? = some q := by
  have key : (∃ q' v', o = .scalar q' v') ∨ (∃ q' k' vs', o = .array q' k' vs') := by
    unfold binop at h
    cases lhs <;> cases rhs <;> simp [Operand.isBarril] at hb <;> simp at h <;>
      first
        | exact Or.inl (scalarDoOp_quantity h)
        | exact Or.inr (arrayDoOp_quantity h)
  rcases key with ⟨q', v', rfl⟩ | ⟨q', k', vs', rfl⟩ <;> exact ⟨q', rfl⟩

/-- the defect repaired by 82f5449, as a statement about the parameter: a numpy operand on the left
that does not defer yields a bare result, whatever the Array holds -/
theorem numpy_left_not_deferring_strips_unit (env : Env) (op : Op) (ks : List Rat) (q : Quantity) (kind : Kind)
    (vs : List Rat) (k : Rat) :
    binop env false op (.ndarr ks) (.array q kind vs) = .ok .bare ∧
    binop env false op (.num true k) (.array q kind vs) = .ok .bare := by
  simp [binop]

/-! ### non-vacuity: concrete instances over the example database of `OpsLemmas` -/

/-- why `Normal` is needed for Arrays: a hand-built dict with two units (12 = 1/100 of 11) of one
quantity type is converted by `_MatchQuantities` even when the other operand is a number.
This is the model-side witness of the KNOWN FINDING `C09-array-number-mixed-units-of-one-type`
(known_findings.json; real-code witness: `Array.CreateWithQuantity(ObtainQuantity(OrderedDict([('length',
['m',1]),('depth',['cm',1])])), [1.0, 2.0]) * 2` is `[0.02, 0.04] m2`): the full-strength statement
"`array_op_num` for every quantity" is false for the code as it is, so the proved theorems keep the
hypothesis `Normal`, and `harness/props/C09.py` excuses exactly this input class (`CLASS_MIXED`). -/
theorem array_mul_num_unmatched_counterexample :
    binop exEnv true .mul (.array [⟨101, 11, 1⟩, ⟨102, 12, 1⟩] .list [1, 2]) (.num false 2)
      = .ok (.array [⟨101, 11, 1⟩, ⟨102, 11, 1⟩] .list [1 / 50, 1 / 25]) := by
  decide +kernel

/-- the same known finding for `+` (the replay case of the entry): `x + 1` neither keeps x's quantity
(unit 12 of the second item became 11) nor adds 1 to the values `[1, 2]` — 1 is added after the
conversion, in the other unit -/
theorem array_add_num_unmatched_counterexample :
    binop exEnv true .sum (.array [⟨101, 11, 1⟩, ⟨102, 12, 1⟩] .list [1, 2]) (.num false 1)
      = .ok (.array [⟨101, 11, 1⟩, ⟨102, 11, 1⟩] .list [101 / 100, 51 / 50]) ∧
    ¬ Normal exEnv [⟨101, 11, 1⟩, ⟨102, 12, 1⟩] := by
  refine ⟨by decide +kernel, fun h => ?_⟩
  have := h.same ⟨101, 11, 1⟩ (by simp) ⟨102, 12, 1⟩ (by simp) (by decide +kernel)
  simp at this

/-! ### the caption of an unknown unit (`ObtainQuantity('<unknown>', None, 'furlongs')`) -/

/-- a plain number never strips the only name an unknown unit has: in the eight forms that keep x's quantity the
result of `Scalar._DoOperation` carries x's caption (it is x's quantity object itself) -/
theorem scalar_num_keeps_caption (cap : Sym) (q : Quantity) (v : Rat) (np : Bool) (k : Rat) (op : Op) :
    scalarNumCaption cap (.scalar q v) (.num np k) op = cap ∧
    (isDivision op = false → scalarNumCaption cap (.num np k) (.scalar q v) op = cap) := by
  constructor
  · cases op <;> rfl
  · intro h
    cases op <;> first | rfl | simp [isDivision] at h

/-- `k / x`, `k // x` build the reciprocal quantity from the dict: no caption -/
theorem num_div_scalar_caption (cap : Sym) (q : Quantity) (v : Rat) (np : Bool) (k : Rat) (op : Op)
    (h : isDivision op = true) : scalarNumCaption cap (.num np k) (.scalar q v) op = 0 := by
  cases op <;> first | rfl | simp [isDivision] at h

end Barril.Ops
