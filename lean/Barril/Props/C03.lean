/-
C03 — addition and subtraction are physically sound, also for derived units.

Property theorems only, about `Alg.opSame` (`_DoOperationWithSameQuantity`: Sum, Subtract) of
Barril/Model/Alg.lean, for EVERY database whose rows are well-formed (`Db.AllWF`, proved for the shipped
databases in Props/C01), operands with entry lists of any length and all rational values.
Helper lemmas: Barril/Proofs/AlgLemmas.lean (`matchOne_spec`: the invariant of the matching loop, `matchOne_id`,
`opSame_shape`).

Vocabulary (AlgLemmas): `Operand db q` = known table units, one unit per quantity type inside the operand
(what products, quotients and powers produce: `C04.opNew_closed`/`opNew_spec`; simple quantities are
operands), derived flag as `ObtainQuantity` sets it; `Known db q` = known table units only (the right operand
may hold several units of one quantity type); `dim`, `mag`, `baseMag`, `ScaleOnlyQ`, `Scales` as in C04:
`Scales db q1 q2` = the right operand is not of the simple shape (one entry with exponent 1), or neither
operand has a unit with an offset.  Since the repair of `_ConvertMatchingExp` every entry of a derived right
operand is scaled by its unit ratio ** exponent, offsets or not; only a SIMPLE right operand is converted with
its offset (that is the property's first sentence for simple operands, and the known finding for b+a).
-/
import Barril.Proofs.AlgLemmas
import Barril.Props.C01

namespace Barril.Alg
open Barril Barril.Gen

/-! ### the result has the left operand's units and categories -/

/-- **a ± b has the left operand's units, categories and caption** (for a left operand that has units at all;
an empty left operand takes over the right one's quantity, see `opSame_empty_left`) -/
theorem add_sub_left_quantity {db : Db} (hdb : db.AllWF) {op : SameOp} {q1 q2 q : Quantity} {v1 v2 v : Rat}
    (h1 : Operand db q1) (h2 : Known db q2) (hne : q1.entries ≠ [])
    (h : opSame db op q1 q2 v1 v2 = .ok (q, v)) : q = q1 := by
  obtain ⟨used, e2', w2, _, _, _, _, hshape⟩ :=
    opSame_shape hdb (fun _ => True) v2 h1 h2 (fun _ _ => trivial) (fun _ _ => trivial)
  rw [hshape op v1] at h
  split at h
  · injection h with h; injection h with h; exact h.symm
  · unfold withValue at h
    split at h
    · cases h
    · rename_i qq hp
      injection h with h; injection h with h; subst h
      unfold pickSame at hp
      split at hp
      · injection hp with hp; exact hp.symm
      · split at hp
        · rename_i hemp
          exact absurd ((joined_isEmpty_iff _).mp hemp) hne
        · split at hp
          · injection hp with hp; exact hp.symm
          · cases hp

/-! ### the value: a.value ± b's value re-expressed in a's units -/

/-- **two simple quantities of one quantity type (units with offsets included): the value is
`a.value ± Convert(b.unit → a.unit)(b.value)`, exactly the table conversion** -/
theorem add_sub_value_simple {db : Db} (hdb : db.AllWF) (op : SameOp) {c1 u1 cap1 c2 u2 cap2 : Sym} {r1 r2 : UnitRow}
    (hu1 : UnitOK db u1 r1) (hu2 : UnitOK db u2 r2) (hc1 : catQType db c1 = .ok r1.qtype)
    (hc2 : catQType db c2 = .ok r1.qtype) (hq : r2.qtype = r1.qtype) (v1 v2 : Rat) :
    opSame db op ⟨[⟨c1, u1, 1⟩], cap1, false⟩ ⟨[⟨c2, u2, 1⟩], cap2, false⟩ v1 v2
      = .ok (⟨[⟨c1, u1, 1⟩], cap1, false⟩, applySame op v1 (convVal r2 r1 v2)) := by
  have k1 : ∀ e ∈ [(⟨c1, u1, 1⟩ : Entry)], EntryOK db e := by
    intro e he; simp only [List.mem_singleton] at he; subst he; exact ⟨r1, hu1, hc1⟩
  have hconv := convertMatchingExp_rows hdb hu2 hu1 hq.symm 1 v2 false
  rw [hq] at hconv
  simp only [and_self, or_true, ↓reduceIte] at hconv
  have k2 : ∀ e ∈ [(⟨c2, u1, 1⟩ : Entry)], EntryOK db e := by
    intro e he; simp only [List.mem_singleton] at he; subst he; exact ⟨r1, hu1, hc2⟩
  unfold opSame
  split
  · rename_i heq
    simp only [Quantity.eqv, Bool.and_eq_true, beq_iff_eq, List.cons.injEq, Entry.mk.injEq, and_true] at heq
    obtain ⟨⟨_, hu⟩, _⟩ := heq
    subst hu
    have : r2 = r1 := by have a := hu2.row; rw [hu1.row] at a; injection a with a; exact a.symm
    subst this
    rw [convVal_self (hdb _ (unitBySym_mem hu1.row))]
  · have hd : isDerivedDict [(⟨c2, u2, 1⟩ : Entry)] = false := by simp [isDerivedDict]
    simp only [matchQuantities, matchOne, hc1, hc2, lookupU, beq_self_eq_true, ↓reduceIte, hd, hconv]
    rw [obtainFromDict_known _ cap1 k1, obtainFromDict_known _ cap2 k2]
    simp [isSimpleShape, pickSame, joined, joinedFrom, addJoined, sameSet]

/-- **derived operands: the right value is re-expressed ONCE, by scaling with each unit ratio raised to that
unit's exponent.**  `e2'` is the right operand's dict with the same categories and exponents and, for every
quantity type, the unit the left operand uses; the value that is added/subtracted is
`b.value · Π slope(b's unit)^exp / Π slope(a's unit)^exp`. -/
theorem add_sub_value_reexpressed {db : Db} (hdb : db.AllWF) {q1 q2 : Quantity} (v2 : Rat)
    (h1 : Operand db q1) (h2 : Known db q2) (hs : Scales db q1 q2) (hneq : q1.eqv q2 = false) :
    ∃ e2' : List Entry, e2'.map catExp = q2.entries.map catExp
      ∧ (∀ e' ∈ e2', ∀ e ∈ q1.entries, ∀ qt, hasType db qt e = true → hasType db qt e' = true → e'.unit = e.unit)
      ∧ mag db e2' ≠ 0
      ∧ ∀ op v1 q v, opSame db op q1 q2 v1 v2 = .ok (q, v) →
          v = applySame op v1 (v2 * mag db q2.entries / mag db e2') := by
  obtain ⟨used, e2', w2, hce, hgood, hmag, hshape⟩ := opSame_scaled hdb v2 h1 h2 hs
  have hU := unified_of_good hgood
  have hm0 : mag db e2' ≠ 0 := mag_ne_zero _ (fun e he => by
    obtain ⟨r, hr, _⟩ := hgood e (List.mem_append_right _ he); exact slope_ne_zero hdb hr)
  refine ⟨e2', hce, ?_, hm0, ?_⟩
  · intro e' he' e he qt ht ht'
    exact (hU e (List.mem_append_left _ he) e' (List.mem_append_right _ he') qt ht).mp ht'
  · intro op v1 q v h
    rw [hshape op v1, hneq] at h
    simp only [Bool.false_eq_true, ↓reduceIte] at h
    unfold withValue at h
    split at h
    · cases h
    · injection h with h; injection h with h1' h2'
      rw [← h2']
      have := hmag
      congr 1
      field_simp
      linarith

/-- **physical soundness: in base units, a ± b is the sum/difference of the two amounts** (matching
dimensions, units without offset; derived units of any exponent, several categories and units per type) -/
theorem add_sub_phys {db : Db} (hdb : db.AllWF) {op : SameOp} {q1 q2 q : Quantity} {v1 v2 v : Rat}
    (h1 : Operand db q1) (h2 : Known db q2) (hs : Scales db q1 q2)
    (hd : ∀ qt, dim db qt q1.entries = dim db qt q2.entries)
    (h : opSame db op q1 q2 v1 v2 = .ok (q, v)) :
    baseMag db q1 v = applySame op (baseMag db q1 v1) (baseMag db q2 v2) := by
  obtain ⟨used, e2', w2, hce, hgood, hmag, hshape⟩ := opSame_scaled hdb v2 h1 h2 hs
  rw [hshape op v1] at h
  split at h
  · rename_i heq
    injection h with h; injection h with _ hv
    have he : q1.entries = q2.entries := by
      simp only [Quantity.eqv, Bool.and_eq_true, beq_iff_eq] at heq; exact heq.1
    unfold baseMag; rw [← hv, ← he]
    cases op <;> simp [applySame] <;> ring
  · unfold withValue at h
    split at h
    · cases h
    · injection h with h; injection h with _ hv
      have hd' : ∀ qt, dim db qt q1.entries = dim db qt e2' := by
        intro qt; rw [hd qt, dim_of_catExp _ _ hce]
      have hsl : ∀ e ∈ q1.entries ++ e2', slope db e.unit ≠ 0 := by
        intro e he; obtain ⟨r, hr, _⟩ := hgood e he; exact slope_ne_zero hdb hr
      have hmm : mag db e2' = mag db q1.entries :=
        mag_congr_totals' q1.entries e2' hsl (fun u => (unitTotal_eq_of_dims hgood hd' u).symm)
      have hw := hmag
      rw [hmm] at hw
      unfold baseMag; rw [← hv, ← hw]
      cases op <;> simp [applySame] <;> ring

/-! ### matching dimensions: the operation succeeds -/

/-- **for matching dimensions a ± b succeeds**, with the left operand's quantity (operands in which every
quantity type that occurs has a non-zero exponent: `NonZeroDims`, what `C04.no_zero_dimension` proves of every
product, quotient and power).  The comparison of the joined composing units in the code is by unit symbol;
it agrees with the comparison of dimensions because after matching a quantity type has one unit. -/
theorem add_sub_succeeds {db : Db} (hdb : db.AllWF) (op : SameOp) {q1 q2 : Quantity} (v1 v2 : Rat)
    (h1 : Operand db q1) (h2 : Known db q2) (n1 : NonZeroDims db q1) (n2 : NonZeroDims db q2)
    (hd : ∀ qt, dim db qt q1.entries = dim db qt q2.entries) :
    ∃ v, opSame db op q1 q2 v1 v2 = .ok (q1, v) := by
  obtain ⟨used, e2', w2, hce, hgood, _, _, hshape⟩ :=
    opSame_shape hdb (fun _ => True) v2 h1 h2 (fun _ _ => trivial) (fun _ _ => trivial)
  rw [hshape op v1]
  split
  · exact ⟨_, rfl⟩
  · have hs : sameSet (joined q1.entries) (joined e2') = true := sameSet_of_dims hgood hce hd n1 n2
    refine ⟨applySame op v1 w2, ?_⟩
    unfold withValue pickSame
    simp only [hs, ↓reduceIte]

/-- conversely, **different dimensions are rejected** (`InvalidOperationError`) whenever both operands have
units: if the operation succeeds on two non-empty operands of this kind, their dimensions are equal -/
theorem add_sub_ok_dims {db : Db} (hdb : db.AllWF) {op : SameOp} {q1 q2 q : Quantity} {v1 v2 v : Rat}
    (h1 : Operand db q1) (h2 : Known db q2) (ne1 : q1.entries ≠ []) (ne2 : q2.entries ≠ [])
    (h : opSame db op q1 q2 v1 v2 = .ok (q, v)) (qt : Sym) :
    dim db qt q1.entries = dim db qt q2.entries := by
  obtain ⟨used, e2', w2, hce, hgood, _, _, hshape⟩ :=
    opSame_shape hdb (fun _ => True) v2 h1 h2 (fun _ _ => trivial) (fun _ _ => trivial)
  rw [← dim_of_catExp _ _ hce]
  apply dim_eq_of_totals hgood
  intro u
  rw [hshape op v1] at h
  split at h
  · rename_i heq
    have he : q1.entries = q2.entries := by
      simp only [Quantity.eqv, Bool.and_eq_true, beq_iff_eq] at heq; exact heq.1
    -- equal quantities: the matching of the right operand against the left one changes no unit total
    have hd : ∀ qt, dim db qt q1.entries = dim db qt e2' := fun qt => by rw [he, dim_of_catExp _ _ hce]
    exact unitTotal_eq_of_dims hgood hd u
  · unfold withValue at h
    split at h
    · cases h
    · rename_i qq hp
      unfold pickSame at hp
      have hne2 : e2' ≠ [] := by
        intro h0; rw [h0] at hce; simp at hce; exact ne2 hce
      split at hp
      · rename_i hs
        -- the two joined lists have the same members
        unfold sameSet at hs
        simp only [Bool.and_eq_true, List.all_eq_true, List.contains_iff_mem] at hs
        by_cases hex : ∃ e ∈ q1.entries, e.unit = u
        · have := hs.1 (u, unitTotal u q1.entries) ((mem_joined _ _ _).mpr ⟨hex, rfl⟩)
          exact ((mem_joined _ _ _).mp this).2
        · by_cases hex2 : ∃ e ∈ e2', e.unit = u
          · have := hs.2 (u, unitTotal u e2') ((mem_joined _ _ _).mpr ⟨hex2, rfl⟩)
            exact absurd ((mem_joined _ _ _).mp this).1 hex
          · rw [unitTotal_zero_of_notin u _ (fun e he h => hex ⟨e, he, h⟩),
              unitTotal_zero_of_notin u _ (fun e he h => hex2 ⟨e, he, h⟩)]
      · split at hp
        · rename_i hemp; exact absurd ((joined_isEmpty_iff _).mp hemp) ne1
        · split at hp
          · rename_i hemp; exact absurd ((joined_isEmpty_iff _).mp hemp) hne2
          · cases hp

/-! ### hence: (a+b)-b denotes a, a+b and b+a denote the same amount -/

/-- **(a+b)-b is a, exactly** (also for units with offsets: the right operand is re-expressed the same way
both times) -/
theorem add_sub_cancel {db : Db} (hdb : db.AllWF) {q1 q2 q : Quantity} {v1 v2 v : Rat}
    (h1 : Operand db q1) (h2 : Known db q2) (hne : q1.entries ≠ [])
    (h : opSame db .add q1 q2 v1 v2 = .ok (q, v)) : opSame db .sub q q2 v v2 = .ok (q1, v1) := by
  have hq := add_sub_left_quantity hdb h1 h2 hne h
  subst hq
  obtain ⟨used, e2', w2, _, _, _, _, hshape⟩ :=
    opSame_shape hdb (fun _ => True) v2 h1 h2 (fun _ _ => trivial) (fun _ _ => trivial)
  rw [hshape .add v1] at h
  rw [hshape .sub v]
  split at h
  · rename_i heq
    injection h with h; injection h with _ hv
    simp only [heq, ↓reduceIte, ← hv, applySame]
    congr 2; ring
  · rename_i heq
    simp only [heq]
    unfold withValue at h ⊢
    split at h
    · cases h
    · rename_i qq hp
      injection h with h; injection h with hq hv
      simp only [Bool.false_eq_true, ↓reduceIte, hq, ← hv, applySame]
      congr 2; ring

/-
Full statement (FALSE, known finding C03-affine-offset-commutativity):
  theorem add_comm_phys : a+b and b+a denote the same physical amount for all dimension-compatible operands.
For two simple operands whose units have different offsets (degC + K) the first sentence of the property fixes
a+b = a.value + Convert(b → a's unit) in a's unit, which is not symmetric: see the counterexample below.
Proved: the statement whenever both re-expressions scale (`Scales` in both directions: both operands derived -
offsets allowed - or no unit with an offset at all), and the counterexample.  Not covered besides the known
finding: one SIMPLE operand with an offset unit facing a derived operand of the same dimension (e.g. K against
degC2/degC): the simple side is converted with its offset, the derived side is scaled.
-/
/-- **a+b and b+a denote the same amount** (both operands derived, or no unit with an offset) -/
theorem add_comm_phys_partial {db : Db} (hdb : db.AllWF) {q1 q2 q q' : Quantity} {v1 v2 v v' : Rat}
    (h1 : Operand db q1) (h2 : Operand db q2) (s12 : Scales db q1 q2) (s21 : Scales db q2 q1)
    (n1 : q1.entries ≠ []) (n2 : q2.entries ≠ [])
    (hd : ∀ qt, dim db qt q1.entries = dim db qt q2.entries)
    (hab : opSame db .add q1 q2 v1 v2 = .ok (q, v)) (hba : opSame db .add q2 q1 v2 v1 = .ok (q', v')) :
    baseMag db q v = baseMag db q' v' := by
  have e1 := add_sub_left_quantity hdb h1 h2.known n1 hab
  have e2 := add_sub_left_quantity hdb h2 h1.known n2 hba
  subst e1; subst e2
  rw [add_sub_phys hdb h1 h2.known s12 hd hab, add_sub_phys hdb h2 h1.known s21 (fun qt => (hd qt).symm) hba]
  simp only [applySame]; ring

section examples
private def S (s : String) : Sym := Sym.ofString s
private def qDegC : Quantity := ⟨[⟨S "temperature", S "degC", 1⟩], 0, false⟩
private def qK : Quantity := ⟨[⟨S "temperature", S "K", 1⟩], 0, false⟩
private def qM : Quantity := ⟨[⟨S "length", S "m", 1⟩], 0, false⟩
private def qM2 : Quantity := ⟨[⟨S "length", S "m", 2⟩], 0, true⟩
private def qCm2 : Quantity := ⟨[⟨S "length", S "cm", 2⟩], 0, true⟩
private def qPerS : Quantity := ⟨[⟨S "time", S "s", -1⟩], 0, true⟩
private def qPerMin : Quantity := ⟨[⟨S "time", S "min", -1⟩], 0, true⟩
private def qDegCm : Quantity := ⟨[⟨S "temperature", S "degC", 1⟩, ⟨S "length", S "m", 1⟩], 0, true⟩
private def qmK : Quantity := ⟨[⟨S "length", S "m", 1⟩, ⟨S "temperature", S "K", 1⟩], 0, true⟩

-- non-vacuity: the hypotheses are met by derived operands of the POSC table, and the model computes the
-- repaired behaviour of the two examples of the property text
-- 1 m2 + 10000 cm2 = 2 m2 ; 1/(2 s) + 1/(2 min) = 0.508333… 1/s ; and back
-- different dimensions fail with a units error
end examples

end Barril.Alg
