/- Non-vacuity examples of C05 (moved out of Props/C05.lean by tools/split_examples.py: they evaluate
concrete instances, many over the regenerated tables, and must not be able to stop the theorem module from
building).  Not property theorems: the check builds this module separately and only records the outcome. -/
import Barril.Props.C05
import Barril.Proofs.FailLemmas
import Barril.Gen.Dbs

namespace Barril.Fail
open Barril

open Barril.Gen in
example : poscDb.convert (Sym.ofString "length") (Sym.ofString "m") (Sym.ofString "s") 1
    = .error .units := by decide +kernel
open Barril.Gen in
example : (step poscDb FState.empty (.create (Sym.ofString "length") (Sym.ofString "s"))).2
    = .error .units := by decide +kernel
open Barril.Gen in
example : (step poscDb FState.empty
    (.arith .add (Sym.ofString "length") (Sym.ofString "m") (Sym.ofString "time") (Sym.ofString "s") 1 2)).2
    = .error .units := by decide +kernel
open Barril.Gen in
example : (step poscDb FState.empty
    (.cmp .lt (Sym.ofString "length") (Sym.ofString "m") (Sym.ofString "time") (Sym.ofString "s") 1 2)).2
    = .error .type := by decide +kernel
open Barril.Gen in
example : (step poscDb FState.empty
    (.arith .add (Sym.ofString "length") (Sym.ofString "m") (Sym.ofString "depth") (Sym.ofString "cm") 1 200)).2
    = .ok (.qnumber ⟨Sym.ofString "length", Sym.ofString "m"⟩ 3) := by decide +kernel

/-! ordering across quantity types whose unit strings coincide -/

def okFlags (l : List (Except ErrKind XOut)) : List (Option ErrKind) :=
  l.map (fun r => match r with | .ok _ => none | .error e => some e)

/-- the square of a velocity in `m/s` is written `m/s2`, the unit of acceleration -/
def velSq : List Ent := [⟨Sym.ofString "velocity", Sym.ofString "m/s", 2⟩]
def acc : List Ent := [⟨Sym.ofString "acceleration linear", Sym.ofString "m/s2", 1⟩]

open Barril.Gen in
example : (match newDerived poscDb velSq with | .ok q => q.unit | .error _ => 0) = Sym.ofString "m/s2" := by
  decide +kernel
open Barril.Gen in
example : okFlags (xoutputs (XState.fresh poscDb)
    [.cmpq .lt velSq acc 3 2, .cmpq .ge acc velSq 2 3, .cmpq .le velSq velSq 3 4, .cmpq .gt acc acc 3 4])
    = [some .type, some .type, none, none] := by decide +kernel

/-! a category that moves to another quantity type in the middle of a history -/

def strokeSpeed : List Ent :=
  [⟨Sym.ofString "stroke", Sym.ofString "m", 1⟩, ⟨Sym.ofString "time", Sym.ofString "s", -1⟩]

open Barril.Gen in
example : okFlags (xoutputs (XState.fresh poscDb)
    [.reg (.addCategory (Sym.ofString "stroke") (Sym.ofString "length") false),
     .reg (.addUnit (Sym.ofString "length") (Sym.ofString "smoot") (Sym.ofString "smoot") (Sym.ofString "stroke") (17018/10000)),
     .createU (Sym.ofString "smoot"),
     .createDict false strokeSpeed,
     .reg (.addCategory (Sym.ofString "stroke") (Sym.ofString "time") false),     -- rejected: registered already
     .createDict false strokeSpeed,
     .reg (.addCategory (Sym.ofString "stroke") (Sym.ofString "time") true),
     .createU (Sym.ofString "smoot"),
     .createDict false strokeSpeed,
     .createDict true strokeSpeed,
     .plain (.create (Sym.ofString "stroke") (Sym.ofString "m")),
     .plain (.create (Sym.ofString "stroke") (Sym.ofString "s"))])
    = [none, none, none, none, some .units, none, none, some .units, some .units, some .units, some .units, none] := by
  decide +kernel
open Barril.Gen in
example : LegacyStable poscDb.legacy (Sym.ofString "smoot") ∧ LegacyStable poscDb.legacy (Sym.ofString "m3/d") := by
  decide +kernel

end Barril.Fail
