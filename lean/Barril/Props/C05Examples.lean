/- Non-vacuity examples of C05 (moved out of Props/C05.lean by tools/split_examples.py: they evaluate
concrete instances, many over the regenerated tables, and must not be able to stop the theorem module from
building).  Not property theorems: the check builds this module separately and only records the outcome. -/
import Barril.Props.C05
import Barril.Proofs.FailLemmas
import Barril.Gen.Dbs

namespace Barril.Fail
open Barril

open Barril.Gen in
example : poscDb.convert (Sym.ofString "length") (Sym.ofString "m") (Sym.ofString "s") 1
    = .error .units := by decide +kernel
open Barril.Gen in
example : (step poscDb FState.empty (.create (Sym.ofString "length") (Sym.ofString "s"))).2
    = .error .units := by decide +kernel
open Barril.Gen in
example : (step poscDb FState.empty
    (.arith .add (Sym.ofString "length") (Sym.ofString "m") (Sym.ofString "time") (Sym.ofString "s") 1 2)).2
    = .error .units := by decide +kernel
open Barril.Gen in
example : (step poscDb FState.empty
    (.cmp .lt (Sym.ofString "length") (Sym.ofString "m") (Sym.ofString "time") (Sym.ofString "s") 1 2)).2
    = .error .type := by decide +kernel
open Barril.Gen in
example : (step poscDb FState.empty
    (.arith .add (Sym.ofString "length") (Sym.ofString "m") (Sym.ofString "depth") (Sym.ofString "cm") 1 200)).2
    = .ok (.qnumber ⟨Sym.ofString "length", Sym.ofString "m"⟩ 3) := by decide +kernel

/-! ordering across quantity types whose unit strings coincide -/

def okFlags (l : List (Except ErrKind XOut)) : List (Option ErrKind) :=
  l.map (fun r => match r with | .ok _ => none | .error e => some e)

/-- the square of a velocity in `m/s` is written `m/s2`, the unit of acceleration -/
def velSq : List Ent := [⟨Sym.ofString "velocity", Sym.ofString "m/s", 2⟩]
def acc : List Ent := [⟨Sym.ofString "acceleration linear", Sym.ofString "m/s2", 1⟩]

open Barril.Gen in
example : (match newDerived poscDb velSq with | .ok q => q.unit | .error _ => 0) = Sym.ofString "m/s2" := by
  decide +kernel
open Barril.Gen in
example : okFlags (xoutputs (XState.fresh poscDb)
    [.cmpq .lt velSq acc 3 2, .cmpq .ge acc velSq 2 3, .cmpq .le velSq velSq 3 4, .cmpq .gt acc acc 3 4])
    = [some .type, some .type, none, none] := by decide +kernel

/-! a category that moves to another quantity type in the middle of a history -/

def strokeSpeed : List Ent :=
  [⟨Sym.ofString "stroke", Sym.ofString "m", 1⟩, ⟨Sym.ofString "time", Sym.ofString "s", -1⟩]

open Barril.Gen in
example : okFlags (xoutputs (XState.fresh poscDb)
    [.reg (.addCategory (Sym.ofString "stroke") (Sym.ofString "length") false),
     .reg (.addUnit (Sym.ofString "length") (Sym.ofString "smoot") (Sym.ofString "smoot") (Sym.ofString "stroke") (17018/10000)),
     .createU (Sym.ofString "smoot"),
     .createDict false strokeSpeed,
     .reg (.addCategory (Sym.ofString "stroke") (Sym.ofString "time") false),     -- rejected: registered already
     .createDict false strokeSpeed,
     .reg (.addCategory (Sym.ofString "stroke") (Sym.ofString "time") true),
     .createU (Sym.ofString "smoot"),
     .createDict false strokeSpeed,
     .createDict true strokeSpeed,
     .plain (.create (Sym.ofString "stroke") (Sym.ofString "m")),
     .plain (.create (Sym.ofString "stroke") (Sym.ofString "s"))])
    = [none, none, none, none, some .units, none, none, some .units, some .units, some .units, some .units, none] := by
  decide +kernel
open Barril.Gen in
example : LegacyStable poscDb.legacy (Sym.ofString "smoot") ∧ LegacyStable poscDb.legacy (Sym.ofString "m3/d") := by
  decide +kernel

/-! sums and differences of derived operands of different dimensions -/

section sums
open Barril.Gen
private def S (s : String) : Sym := Sym.ofString s
/-- `Scalar(2,'m','length') * Scalar(300,'cm','depth')`: one quantity type through two categories -/
private def qLenDepth : Alg.Quantity := ⟨[⟨S "length", S "m", 1⟩, ⟨S "depth", S "m", 1⟩], 0, true⟩
private def qLen : Alg.Quantity := ⟨[⟨S "length", S "m", 1⟩], 0, false⟩
private def qLenSq : Alg.Quantity := ⟨[⟨S "length", S "m", 2⟩], 0, true⟩
private def qPerS : Alg.Quantity := ⟨[⟨S "time", S "s", -1⟩], 0, true⟩
private def qPerS2 : Alg.Quantity := ⟨[⟨S "time", S "s", -2⟩], 0, true⟩

example : Alg.opSame poscDb .add qLenDepth qLen 6 2 = .error .units := by decide +kernel
example : Alg.opSame poscDb .sub qLen qLenDepth 2 6 = .error .units := by decide +kernel
example : Alg.opSame poscDb .add qLenDepth qLenSq 6 2 = .ok (qLenDepth, 8) := by decide +kernel
example : Alg.opSame poscDb .add qPerS qPerS2 (1/2) (1/4) = .error .units := by decide +kernel
example : Alg.opSame poscDb .sub qPerS2 qPerS (1/4) (1/2) = .error .units := by decide +kernel
example : qPerS.eqv qPerS2 = false ∧ qPerS.eqv qPerS = true := by decide
/-- the hypotheses of `sum_of_different_dimensions_fails` are met by these operands -/
example : Alg.Operand poscDb qPerS ∧ Alg.Known poscDb qPerS2 :=
  ⟨⟨Alg.known_of_b (by decide +kernel), Alg.unified_of_single _ _, by decide⟩, Alg.known_of_b (by decide +kernel)⟩
example : Alg.dim poscDb (S "time") qPerS.entries ≠ Alg.dim poscDb (S "time") qPerS2.entries := by decide +kernel
example : Alg.Known poscDb qLenDepth ∧ Alg.Operand poscDb qLen :=
  ⟨Alg.known_of_b (by decide +kernel), ⟨Alg.known_of_b (by decide +kernel), Alg.unified_of_single _ _, by decide⟩⟩
example : Alg.dim poscDb (S "length") qLen.entries ≠ Alg.dim poscDb (S "length") qLenDepth.entries := by
  decide +kernel
/-- inside a history: the failed sums change no later answer -/
example : okFlags (xoutputs (XState.fresh poscDb)
    [.sumq .add qLenDepth qLen 6 2, .eqq qPerS qPerS2, .sumq .add qPerS qPerS2 (1/2) (1/4),
     .plain (.arith .add (S "length") (S "m") (S "depth") (S "cm") 1 200), .sumq .add qLenDepth qLenSq 6 2])
    = [some .units, none, some .units, none, none] := by decide +kernel
end sums

end Barril.Fail
