/- Non-vacuity examples of C05 (moved out of Props/C05.lean by tools/split_examples.py: they evaluate
concrete instances, many over the regenerated tables, and must not be able to stop the theorem module from
building).  Not property theorems: the check builds this module separately and only records the outcome. -/
import Barril.Props.C05
import Barril.Proofs.FailLemmas
import Barril.Gen.Dbs

namespace Barril.Fail
open Barril

open Barril.Gen in
example : poscDb.convert (Sym.ofString "length") (Sym.ofString "m") (Sym.ofString "s") 1
    = .error .units := by decide +kernel
open Barril.Gen in
example : (step poscDb FState.empty (.create (Sym.ofString "length") (Sym.ofString "s"))).2
    = .error .units := by decide +kernel
open Barril.Gen in
example : (step poscDb FState.empty
    (.arith .add (Sym.ofString "length") (Sym.ofString "m") (Sym.ofString "time") (Sym.ofString "s") 1 2)).2
    = .error .units := by decide +kernel
open Barril.Gen in
example : (step poscDb FState.empty
    (.cmp .lt (Sym.ofString "length") (Sym.ofString "m") (Sym.ofString "time") (Sym.ofString "s") 1 2)).2
    = .error .type := by decide +kernel
open Barril.Gen in
example : (step poscDb FState.empty
    (.arith .add (Sym.ofString "length") (Sym.ofString "m") (Sym.ofString "depth") (Sym.ofString "cm") 1 200)).2
    = .ok (.qnumber ⟨Sym.ofString "length", Sym.ofString "m"⟩ 3) := by decide +kernel

end Barril.Fail
