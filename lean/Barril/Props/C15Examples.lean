/- Non-vacuity examples of C15 (moved out of Props/C15.lean by tools/split_examples.py: they evaluate
concrete instances, many over the regenerated tables, and must not be able to stop the theorem module from
building).  Not property theorems: the check builds this module separately and only records the outcome. -/
import Barril.Props.C15
import Barril.Proofs.RegCacheLemmas

namespace Barril.Reg
open Barril

variable (lg : List (Sym × Sym))

example : negativeVerdictHistory.all (opClean []) = true := by decide +kernel
example : coutputs [] (CState.fresh Registry.empty) negativeVerdictHistory
    = [.ok (.reg .unit), .ok (.reg .unit), .error .units, .error .units,
       .ok (.reg (.cat ⟨5, 1, none, 2, 0, none, none, false, false, 5⟩)),
       .ok (.ans .unit), .ok (.ans (.quantity 5 3)), .error .units, .error .units] := by decide +kernel
/-- the memo tables really are populated (and then emptied by the registration) -/
example : (crun [] (CState.fresh Registry.empty) (negativeVerdictHistory.take 4)).memo = [((5, 3), false)] := by
  decide +kernel
example : (crun [] (CState.fresh Registry.empty) (negativeVerdictHistory.take 7)).cache.length = 1 := by
  decide +kernel

example : (coutputs [] (CState.fresh Registry.empty) bothOrdersHistory).drop 3
    = [.ok (.ans (.descValue ⟨[(5, 2, 1), (7, 2, 1)], [(1, 2)]⟩ 6)),
       .ok (.ans (.descValue ⟨[(7, 2, 1), (5, 2, 1)], [(1, 2)]⟩ 6)),
       .ok (.ans (.desc ⟨[(7, 2, 1), (5, 2, -1)], [(1, 0)]⟩)),
       .ok (.ans (.desc ⟨[(5, 2, -1), (7, 2, 1)], [(1, 0)]⟩)),
       .ok (.ans (.descValue ⟨[], []⟩ 2))] := by decide +kernel
example : (crun [] (CState.fresh Registry.empty) bothOrdersHistory).dcache.length = 5 := by decide +kernel

/-- the repeated sum answers the same both times (201/100 m.m), the cached first operand still
says cm for its second category -/
example : (coutputs [] (CState.fresh Registry.empty) repeatedSumHistory).drop 4
    = [.ok (.ans (.descValue ⟨[(7, 2, 1), (5, 2, 1)], [(1, 2)]⟩ (201 / 100))),
       .ok (.ans (.descValue ⟨[(7, 2, 1), (5, 2, 1)], [(1, 2)]⟩ (201 / 100))),
       .ok (.ans (.descValue ⟨[(7, 2, 1), (5, 2, 1)], [(1, 2)]⟩ (-95 / 100))),
       .ok (.ans (.desc ⟨[(7, 2, 1), (5, 3, 1)], [(1, 2)]⟩))] := by decide +kernel

/-- the hypotheses of `xwarm_eq_fresh_partial` are met by a history with arithmetic questions, and with a
(toy) meaning of the arithmetic that does look at the registry the outcomes are not trivial -/
example : arithHistory.all (xopClean []) = true := by decide +kernel
example : ((xoutputs [] (fun r _ => r.cats.length) (CState.fresh Registry.empty) arithHistory).map
    (fun o => match o with | .val n => n | .base _ => 100)) = [100, 100, 100, 1, 1, 100, 1] := by decide +kernel
example : (xrun [] (fun r _ => r.cats.length) (CState.fresh Registry.empty) arithHistory).memo = [((5, 3), true)] := by
  decide +kernel

/-- the hypotheses of `ywarm_eq_fresh_partial` / `error_detail_ignores_caches` are met by a history that asks a failing
question twice and once more after a registration (`negativeVerdictHistory`: check(5, 3) with the category 5 not
registered, memoised negatively); with a (toy) failure detail that does look at the registry — the number of
registered categories — the details are present exactly at the failing queries, and the second asking, a memo HIT,
reports what the first one, a memo MISS, reported -/
example : (negativeVerdictHistory.map XOp.base).all (xopClean []) = true := by decide +kernel
example : ((youtputs [] (fun _ _ => ()) (fun r (_ : Query) => r.cats.length) (CState.fresh Registry.empty)
      (negativeVerdictHistory.map XOp.base)).map (·.2))
    = [none, none, some 0, some 0, none, none, none, some 1, some 1] := by decide +kernel
example : ((youtputs [] (fun _ _ => ()) (fun r (_ : Query) => r.cats.length) (CState.fresh Registry.empty)
      [.base (.reg (.addUnitBase (.str 1) 10 (.str 2))), .base (.query (.check 5 2)), .base (.query (.check 5 2)),
       .base (.query (.create 5 2)), .base (.query (.check 5 2))]).map (·.2))
    = [none, some 0, some 0, some 0, some 0] := by decide +kernel
example : (xrun [] (fun _ _ => ()) (CState.fresh Registry.empty)
      [.base (.reg (.addUnitBase (.str 1) 10 (.str 2))), .base (.query (.check 5 2)), .base (.query (.check 5 2))]).memo
    = [((5, 2), false)] := by decide +kernel

end Barril.Reg
