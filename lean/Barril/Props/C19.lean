/-
C19 — equivalent construction forms build equal objects.

Property theorems only (helper lemmas: `Barril/Proofs/CtorLemmas.lean`).  The model is
`Barril/Model/Ctor.lean`: the shared constructor with its positional-argument juggling, the
class-specific constructors, `CreateWithQuantity`, `ObtainQuantity`/`GetDefaultCategory`, `==` and
`Scalar.__repr__` read back.

Generic part (any database `db`): every documented form computes `create db cls q x` — FixedArray's
dimension check followed by `_InternalCreateWithQuantity(q, x)` — for the one quantity `q` that
`Quantity(category, unit)` builds; so the forms agree on *every* value argument, failures included,
and on numbers/containers they build the same object, which `==` accepts.  The no-category forms
need the unit's default category to resolve; the category-only form needs the category to accept
its own default unit; `eval(repr(s))` needs unit and category to be free of quotes, backslashes and
line breaks.  Table part: the generated `decide +kernel` theorems show these three hypotheses for
every row of the default (POSC) database that the translator read from /repo's current source.

Quantity-first forms: `Cls(q, x)` and `Cls.CreateWithQuantity(q, x)` compute `create db cls q x` for
EVERY quantity `q` — with an unknown-unit caption, derived, empty — and the object holds exactly `q`;
`==` compares the caption; `ObtainQuantity(u, c, caption)` / `GetUnknownQuantity(caption)` /
`Quantity(c, u, caption)` carry the caption.  Histories on a private database: questions and (failed)
constructions never change the state, every answer is a function of the registry the registrations
built, a category or a unit registered late is found, and the forms agree in every reachable state.
-/
import Barril.Proofs.CtorLemmas
import Barril.Gen.ThmDefcatPosc
import Barril.Gen.ThmDefunitPosc
import Barril.Gen.ThmSymplainPosc
import Barril.Gen.ThmCatplainPosc

namespace Barril.Ctor
open Barril Barril.Gen

/-! ### the forms that name the category -/

/-- **`Cls(x, u, c)` = `Cls(c, x, u)` = `Cls(ObtainQuantity(u, c), x)` = create(q, x)** for every
class, every category `c` that accepts the unit `u` (`Quantity(c, u)` builds `q`) and every value
argument `x` — equal results, errors included (e.g. a FixedArray value of the wrong length is
rejected by all forms alike). -/
theorem forms_with_category_agree {db : Db} {c u : Sym} {q : Qty} (f g : Option Rat) (cls : Cls) (x : PyVal)
    (hq : newQuantity db (.str c none) u = .ok q) (hx : x.isValueFor cls = true) :
    construct db cls x (.atom (.str u g)) (.str c f) = create db cls q x
    ∧ construct db cls (.atom (.str c f)) x (.str u g) = create db cls q x
    ∧ obtainQuantity db (.atom (.str u g)) (.str c f) = .ok q
    ∧ construct db cls (.qty q) x .none = create db cls q x := by
  have hob : obtainQuantity db (.atom (.str u g)) (.str c f) = .ok q := hq
  have hn := isValueFor_notNone hx
  have ht : cls = .scalar → x.isTuple = false := fun e => isValueFor_notTuple (e ▸ hx)
  refine ⟨?_, ?_, hob, ?_⟩
  · rw [construct_eq db cls _ _ _ ht, create_eq, abstractInit_value_first db cls cls hx,
      initNamed_given db cls _ hn rfl hob]
  · rw [construct_eq db cls _ _ _ (fun _ => rfl), create_eq, abstractInit_category_first,
      initNamed_given db cls _ hn rfl hob]
  · rw [construct_eq db cls _ _ _ (fun _ => rfl), create_eq, abstractInit_quantity_first,
      initQuantity_given db cls q hn]

/-! ### the forms that leave the category out -/

/-- **`Cls(x, u)` = create(q, x) where `q` is built from the unit's default category**: whenever
`GetDefaultCategory(u)` answers a non-empty name `c` and `Quantity(c, u)` builds `q`, the form without a
category computes exactly what the forms with `c` compute (previous theorem). -/
theorem form_without_category_agrees {db : Db} {c u : Sym} {q : Qty} (g : Option Rat) (cls : Cls) (x : PyVal)
    (hc : getDefaultCategory db u = .ok (some c)) (hc0 : c ≠ 0)
    (hq : newQuantity db (.str c none) u = .ok q) (hx : x.isValueFor cls = true) :
    construct db cls x (.atom (.str u g)) .none = create db cls q x
    ∧ obtainQuantity db (.atom (.str u g)) .none = .ok q := by
  have hob : obtainQuantity db (.atom (.str u g)) .none = .ok q := by
    rw [obtainQuantity_default g hc hc0, hq]
  have hn := isValueFor_notNone hx
  have ht : cls = .scalar → x.isTuple = false := fun e => isValueFor_notTuple (e ▸ hx)
  refine ⟨?_, hob⟩
  rw [construct_eq db cls _ _ _ ht, create_eq, abstractInit_value_first db cls cls hx,
    initNamed_given db cls _ hn rfl hob]

/-- **`Scalar((v, u))` = `Scalar(v, u)`** for a number `v` (the tuple form exists for Scalar only) -/
theorem scalar_tuple_form_agrees (db : Db) (u : Sym) (g : Option Rat) (v : Rat) (i : Bool) :
    construct db .scalar (.seq .tuple [.num v i, .str u g]) .none .none
      = construct db .scalar (.atom (.num v i)) (.atom (.str u g)) .none := rfl

/-- a tuple that is not a pair is rejected, and so is a tuple followed by more arguments -/
theorem scalar_tuple_form_rejects (db : Db) (items : List Atom) (a2 : PyVal) (a3 : Atom) :
    (items.length ≠ 2 → a2.isNone = true → a3.isNone = true →
        construct db .scalar (.seq .tuple items) a2 a3 = .error .value)
    ∧ ((a2.isNone && a3.isNone) = false → construct db .scalar (.seq .tuple items) a2 a3 = .error .assertion) := by
  constructor
  · intro hl h2 h3
    simp only [construct, scalarInit, scalarTupleForm, h2, h3, Bool.and_self, Bool.not_true, Bool.false_eq_true,
      ↓reduceIte]
    match items, hl with
    | [], _ => rfl
    | [_], _ => rfl
    | [_, _], hl => simp at hl
    | _ :: _ :: _ :: _, _ => rfl
  · intro h
    simp [construct, scalarInit, scalarTupleForm, h]

/-! ### `CreateWithQuantity` -/

/-- **`Cls.CreateWithQuantity(q, x)` / `(q, value=x)` = create(q, x)**; for FixedArray with the
dimension given by keyword, or taken from `len(x)` -/
theorem createWithQuantity_agrees (db : Db) (q : Qty) (x : PyVal) (kw : Bool) (hx : x.isNone = false) :
    createWithQuantity db .scalar q x kw none = create db .scalar q x
    ∧ createWithQuantity db .fraction q x kw none = create db .fraction q x
    ∧ createWithQuantity db .array q x kw none = create db .array q x
    ∧ (∀ d d' : Int, createWithQuantity db (.fixed d') q x kw (some d) = create db (.fixed d) q x)
    ∧ (∀ d d' : Int, pyLen x = .ok d → createWithQuantity db (.fixed d') q x kw none = create db (.fixed d) q x) := by
  refine ⟨rfl, rfl, ?_, ?_, ?_⟩
  · cases kw <;> simp [createWithQuantity, create, internalCreate, arrayInternal, pickValues_left hx,
      pickValues_right hx]
  · intro d d'
    cases kw <;> simp [createWithQuantity, create, internalCreate, fixedInternal, fixedDimension,
      pickValues_left hx, pickValues_right hx] <;> omega
  · intro d d' hl
    cases kw <;> simp [createWithQuantity, create, internalCreate, fixedInternal, fixedDimension,
      pickValues_left hx, pickValues_right hx, hl] <;> omega

/-! ### what is created, and that `==` accepts it -/

/-- the object every form builds from a quantity `q` (of a registered category) and a value:
Scalar from a number; FractionScalar from a number or a FractionValue; Array from anything but
`None`; FixedArray from a container of exactly `d ≥ 2` elements -/
theorem create_builds (db : Db) (q : Qty) :
    (∀ (v : Rat) (i : Bool), create db .scalar q (.atom (.num v i)) = .ok ⟨q, .scalar v⟩)
    ∧ (∀ (v : Rat) (i : Bool), create db .fraction q (.atom (.num v i)) = .ok ⟨q, .fraction v 0⟩)
    ∧ (∀ n f : Rat, create db .fraction q (.fv n f) = .ok ⟨q, .fraction n f⟩)
    ∧ (∀ x : PyVal, x.isNone = false → create db .array q x = .ok ⟨q, .arr x⟩)
    ∧ (∀ (x : PyVal) (d : Int), x.isNone = false → 2 ≤ d → pyLen x = .ok d →
        create db (.fixed d) q x = .ok ⟨q, .fixed x d⟩) := by
  refine ⟨fun v i => rfl, fun v i => rfl, fun n f => rfl, ?_, ?_⟩
  · intro x hx
    simp [create, internalCreate, arrayInternal, pickValues_left hx]
  · intro x d hx hd hl
    have : ¬ d < 2 := by omega
    simp [create, internalCreate, fixedInternal, fixedDimension, pickValues_left hx, this, checkValues, hl]

/-- **`o == o` is `True`** for every Scalar and FractionScalar, and for every Array/FixedArray whose
value is a list, tuple or 1-d array (of any length) -/
theorem eq_self (q : Qty) :
    (∀ v : Rat, Obj.eq ⟨q, .scalar v⟩ ⟨q, .scalar v⟩ = .ok true)
    ∧ (∀ n f : Rat, Obj.eq ⟨q, .fraction n f⟩ ⟨q, .fraction n f⟩ = .ok true)
    ∧ (∀ (k : SeqKind) (items : List Atom), Obj.eq ⟨q, .arr (.seq k items)⟩ ⟨q, .arr (.seq k items)⟩ = .ok true)
    ∧ (∀ (k : SeqKind) (items : List Atom) (d : Int),
        Obj.eq ⟨q, .fixed (.seq k items) d⟩ ⟨q, .fixed (.seq k items) d⟩ = .ok true) := by
  refine ⟨fun v => by simp [Obj.eq, pyEq_refl], fun n f => by simp [Obj.eq, pyEq_refl], fun k items => ?_,
    fun k items d => ?_⟩
  · simp [Obj.eq, arrayEq, pyTuple, elemsEq_refl, pyEq_refl]
  · simp [Obj.eq, arrayEq, pyTuple, elemsEq_refl, pyEq_refl]

/-- `o == o` is `True` as well for every Array/FixedArray whose value is a list or tuple of tuples
(`[(100, 150), (50, 50)]`; any number of tuples of any sizes, ragged included) -/
theorem eq_self_rows (q : Qty) (k : SeqKind) (rows : List (List Atom)) :
    Obj.eq ⟨q, .arr (.rows k rows)⟩ ⟨q, .arr (.rows k rows)⟩ = .ok true
    ∧ (∀ d : Int, Obj.eq ⟨q, .fixed (.rows k rows) d⟩ ⟨q, .fixed (.rows k rows) d⟩ = .ok true) := by
  constructor
  · simp [Obj.eq, arrayEq, pyTuple, elemsEq_refl, pyEq_refl]
  · intro d; simp [Obj.eq, arrayEq, pyTuple, elemsEq_refl, pyEq_refl]

/-- **`a == b` and `b == a` always give the same answer** (the same truth value, or a `TypeError`
from `tuple(values)` on either side), for any two value objects of any classes -/
theorem eq_symm (a b : Obj) : Obj.eq a b = Obj.eq b a := by
  obtain ⟨qa, va⟩ := a
  obtain ⟨qb, vb⟩ := b
  cases va <;> cases vb <;> simp only [Obj.eq]
  · rw [pyEq_symm qa qb]; rename_i x y; rw [@BEq.comm _ _ _ x y]
  · rename_i n f m g; rw [pyEq_symm qa qb, @BEq.comm _ _ _ n m, @BEq.comm _ _ _ f g]
  · exact arrayEq_symm ..
  · rename_i v d w e; rw [arrayEq_symm, @BEq.comm _ _ _ d e]

/-- **all six Scalar forms of the property text build one object, and it equals itself**: for a
unit `u` whose default category is `c` (with `Quantity(c, u)` = `q`) and a number `v` -/
theorem scalar_forms_equal {db : Db} {c u : Sym} {q : Qty} (f g : Option Rat) (v : Rat) (i kw : Bool)
    (hc : getDefaultCategory db u = .ok (some c)) (hc0 : c ≠ 0)
    (hq : newQuantity db (.str c none) u = .ok q) :
    let o : Obj := ⟨q, .scalar v⟩
    construct db .scalar (.atom (.num v i)) (.atom (.str u g)) .none = .ok o
    ∧ construct db .scalar (.atom (.num v i)) (.atom (.str u g)) (.str c f) = .ok o
    ∧ construct db .scalar (.atom (.str c f)) (.atom (.num v i)) (.str u g) = .ok o
    ∧ construct db .scalar (.seq .tuple [.num v i, .str u g]) .none .none = .ok o
    ∧ obtainQuantity db (.atom (.str u g)) (.str c f) = .ok q
    ∧ construct db .scalar (.qty q) (.atom (.num v i)) .none = .ok o
    ∧ createWithQuantity db .scalar q (.atom (.num v i)) kw none = .ok o
    ∧ Obj.eq o o = .ok true := by
  intro o
  have hx : (PyVal.atom (.num v i)).isValueFor .scalar = true := rfl
  obtain ⟨h1, h2, h3, h4⟩ := forms_with_category_agree f g .scalar _ hq hx
  obtain ⟨h0, _⟩ := form_without_category_agrees g .scalar _ hc hc0 hq hx
  have hb := (create_builds db q).1 v i
  refine ⟨h0.trans hb, h1.trans hb, h2.trans hb, ?_, h3, h4.trans hb, ?_, (eq_self q).1 v⟩
  · rw [scalar_tuple_form_agrees]; exact h0.trans hb
  · exact ((createWithQuantity_agrees db q _ kw rfl).1).trans hb

/-- **Scalar and FractionScalar store `float(x)`, whatever `x` is**: a Python int that no double holds
exactly (`2**53 + 1`, `10**23`), a bool, a numpy integer, a string of digits, a FractionValue (for
Scalar) — the created object carries the float image, never the argument itself -/
theorem create_stores_float (db : Db) (q : Qty) (x : PyVal) (v : Rat) (hx : x.isNone = false)
    (hv : pyFloat x = .ok v) :
    create db .scalar q x = .ok ⟨q, .scalar v⟩
    ∧ ((∀ n f, x ≠ .fv n f) → create db .fraction q x = .ok ⟨q, .fraction v 0⟩) := by
  constructor
  · simp [create, internalCreate, scalarInternal, hx, hv]
  · intro hfv
    cases x with
    | fv n f => exact absurd rfl (hfv n f)
    | atom a => simp [create, internalCreate, fractionInternal, hv]
    | seq k l => simp [create, internalCreate, fractionInternal, hv]
    | rows k l => simp [create, internalCreate, fractionInternal, hv]
    | nest k l => simp [create, internalCreate, fractionInternal, hv]
    | qty q' => simp [create, internalCreate, fractionInternal, hv]

/-- **all Scalar forms build one object holding `float(a)`, for every kind of number `a`** (floats,
ints of any size with their float image, bools, numpy integers): the generalisation of
`scalar_forms_equal` from `.num` to any atom that is a value and converts to float.  In particular
`Scalar.CreateWithQuantity(q, 2**53 + 1)` equals `Scalar(2**53 + 1, u)`. -/
theorem scalar_forms_store_float {db : Db} {c u : Sym} {q : Qty} (f g : Option Rat) (a : Atom) (v : Rat) (kw : Bool)
    (ha : (PyVal.atom a).isValueFor .scalar = true) (hv : pyFloat (.atom a) = .ok v)
    (hc : getDefaultCategory db u = .ok (some c)) (hc0 : c ≠ 0)
    (hq : newQuantity db (.str c none) u = .ok q) :
    let o : Obj := ⟨q, .scalar v⟩
    construct db .scalar (.atom a) (.atom (.str u g)) .none = .ok o
    ∧ construct db .scalar (.atom a) (.atom (.str u g)) (.str c f) = .ok o
    ∧ construct db .scalar (.atom (.str c f)) (.atom a) (.str u g) = .ok o
    ∧ construct db .scalar (.seq .tuple [a, .str u g]) .none .none = .ok o
    ∧ construct db .scalar (.qty q) (.atom a) .none = .ok o
    ∧ createWithQuantity db .scalar q (.atom a) kw none = .ok o
    ∧ Obj.eq o o = .ok true := by
  intro o
  have hn := isValueFor_notNone ha
  obtain ⟨h1, h2, _, h4⟩ := forms_with_category_agree f g .scalar _ hq ha
  obtain ⟨h0, _⟩ := form_without_category_agrees g .scalar _ hc hc0 hq ha
  have hb := (create_stores_float db q _ v hn hv).1
  refine ⟨h0.trans hb, h1.trans hb, h2.trans hb, ?_, h4.trans hb, ?_, (eq_self q).1 v⟩
  · have : construct db .scalar (.seq .tuple [a, .str u g]) .none .none
        = construct db .scalar (.atom a) (.atom (.str u g)) .none := rfl
    rw [this]; exact h0.trans hb
  · exact ((createWithQuantity_agrees db q _ kw hn).1).trans hb

/-- the same for FractionScalar: every form holds `FractionValue(float(a))` -/
theorem fraction_forms_store_float {db : Db} {c u : Sym} {q : Qty} (f g : Option Rat) (a : Atom) (v : Rat) (kw : Bool)
    (ha : (PyVal.atom a).isValueFor .fraction = true) (hv : pyFloat (.atom a) = .ok v)
    (hc : getDefaultCategory db u = .ok (some c)) (hc0 : c ≠ 0)
    (hq : newQuantity db (.str c none) u = .ok q) :
    let o : Obj := ⟨q, .fraction v 0⟩
    construct db .fraction (.atom a) (.atom (.str u g)) .none = .ok o
    ∧ construct db .fraction (.atom a) (.atom (.str u g)) (.str c f) = .ok o
    ∧ construct db .fraction (.atom (.str c f)) (.atom a) (.str u g) = .ok o
    ∧ construct db .fraction (.qty q) (.atom a) .none = .ok o
    ∧ createWithQuantity db .fraction q (.atom a) kw none = .ok o
    ∧ Obj.eq o o = .ok true := by
  intro o
  have hn := isValueFor_notNone ha
  obtain ⟨h1, h2, _, h4⟩ := forms_with_category_agree f g .fraction _ hq ha
  obtain ⟨h0, _⟩ := form_without_category_agrees g .fraction _ hc hc0 hq ha
  have hb := (create_stores_float db q _ v hn hv).2 (fun n f' h => by cases h)
  exact ⟨h0.trans hb, h1.trans hb, h2.trans hb, h4.trans hb,
    ((createWithQuantity_agrees db q _ kw hn).2.1).trans hb, (eq_self q).2.1 v 0⟩

/-- **the FractionScalar forms build one object**, for a number and for a FractionValue -/
theorem fraction_forms_equal {db : Db} {c u : Sym} {q : Qty} (f g : Option Rat) (x : PyVal) (o : Obj) (kw : Bool)
    (hc : getDefaultCategory db u = .ok (some c)) (hc0 : c ≠ 0)
    (hq : newQuantity db (.str c none) u = .ok q)
    (hx : (∃ v i, x = .atom (.num v i) ∧ o = ⟨q, .fraction v 0⟩) ∨ (∃ n fr, x = .fv n fr ∧ o = ⟨q, .fraction n fr⟩)) :
    construct db .fraction x (.atom (.str u g)) .none = .ok o
    ∧ construct db .fraction x (.atom (.str u g)) (.str c f) = .ok o
    ∧ construct db .fraction (.atom (.str c f)) x (.str u g) = .ok o
    ∧ construct db .fraction (.qty q) x .none = .ok o
    ∧ createWithQuantity db .fraction q x kw none = .ok o
    ∧ Obj.eq o o = .ok true := by
  have hv : x.isValueFor .fraction = true := by
    rcases hx with ⟨v, i, rfl, _⟩ | ⟨n, fr, rfl, _⟩ <;> rfl
  have hn : x.isNone = false := isValueFor_notNone hv
  have hb : create db .fraction q x = .ok o := by
    rcases hx with ⟨v, i, rfl, rfl⟩ | ⟨n, fr, rfl, rfl⟩
    · exact (create_builds db q).2.1 v i
    · exact (create_builds db q).2.2.1 n fr
  have he : Obj.eq o o = .ok true := by
    rcases hx with ⟨v, i, _, rfl⟩ | ⟨n, fr, _, rfl⟩ <;> exact (eq_self q).2.1 _ _
  obtain ⟨h1, h2, _, h4⟩ := forms_with_category_agree f g .fraction _ hq hv
  obtain ⟨h0, _⟩ := form_without_category_agrees g .fraction _ hc hc0 hq hv
  exact ⟨h0.trans hb, h1.trans hb, h2.trans hb, h4.trans hb,
    ((createWithQuantity_agrees db q _ kw hn).2.1).trans hb, he⟩

/-- **the Array forms build one object** from a list, tuple or 1-d array of any length -/
theorem array_forms_equal {db : Db} {c u : Sym} {q : Qty} (f g : Option Rat) (k : SeqKind) (items : List Atom)
    (kw : Bool) (hc : getDefaultCategory db u = .ok (some c)) (hc0 : c ≠ 0)
    (hq : newQuantity db (.str c none) u = .ok q) :
    let x : PyVal := .seq k items
    let o : Obj := ⟨q, .arr x⟩
    construct db .array x (.atom (.str u g)) .none = .ok o
    ∧ construct db .array x (.atom (.str u g)) (.str c f) = .ok o
    ∧ construct db .array (.atom (.str c f)) x (.str u g) = .ok o
    ∧ construct db .array (.qty q) x .none = .ok o
    ∧ createWithQuantity db .array q x kw none = .ok o
    ∧ Obj.eq o o = .ok true := by
  intro x o
  have hv : x.isValueFor .array = true := by cases k <;> rfl
  have hn : x.isNone = false := rfl
  have hb := (create_builds db q).2.2.2.1 x hn
  obtain ⟨h1, h2, _, h4⟩ := forms_with_category_agree f g .array _ hq hv
  obtain ⟨h0, _⟩ := form_without_category_agrees g .array _ hc hc0 hq hv
  exact ⟨h0.trans hb, h1.trans hb, h2.trans hb, h4.trans hb,
    ((createWithQuantity_agrees db q _ kw hn).2.2.1).trans hb, (eq_self q).2.2.1 k items⟩

/-- **the FixedArray forms build one object** from a container of `d ≥ 2` elements, with the
dimension given positionally, by keyword to `CreateWithQuantity`, or left to `len(values)` -/
theorem fixed_forms_equal {db : Db} {c u : Sym} {q : Qty} (f g : Option Rat) (k : SeqKind) (items : List Atom)
    (kw : Bool) (d' : Int) (hd : 2 ≤ items.length)
    (hc : getDefaultCategory db u = .ok (some c)) (hc0 : c ≠ 0)
    (hq : newQuantity db (.str c none) u = .ok q) :
    let d : Int := items.length
    let x : PyVal := .seq k items
    let o : Obj := ⟨q, .fixed x d⟩
    construct db (.fixed d) x (.atom (.str u g)) .none = .ok o
    ∧ construct db (.fixed d) x (.atom (.str u g)) (.str c f) = .ok o
    ∧ construct db (.fixed d) (.atom (.str c f)) x (.str u g) = .ok o
    ∧ construct db (.fixed d) (.qty q) x .none = .ok o
    ∧ createWithQuantity db (.fixed d') q x kw none = .ok o
    ∧ createWithQuantity db (.fixed d') q x kw (some d) = .ok o
    ∧ Obj.eq o o = .ok true := by
  intro d x o
  have hv : x.isValueFor (.fixed d) = true := by cases k <;> rfl
  have hn : x.isNone = false := rfl
  have hl : pyLen x = .ok d := rfl
  have hd2 : (2 : Int) ≤ d := by simp only [d]; omega
  have hb := (create_builds db q).2.2.2.2 x d hn hd2 hl
  obtain ⟨h1, h2, _, h4⟩ := forms_with_category_agree f g (.fixed d) _ hq hv
  obtain ⟨h0, _⟩ := form_without_category_agrees g (.fixed d) _ hc hc0 hq hv
  have hcw := createWithQuantity_agrees db q x kw hn
  exact ⟨h0.trans hb, h1.trans hb, h2.trans hb, h4.trans hb,
    (hcw.2.2.2.2 d d' hl).trans hb, (hcw.2.2.2.1 d d').trans hb, (eq_self q).2.2.2 k items d⟩

/-- **the Array and FixedArray forms build one object from a list (or tuple) of tuples**, whatever
the number `n` of tuples and their sizes (square, non-square, ragged): the FixedArray dimension is the
number of tuples, `len(values)`, also when `CreateWithQuantity` infers it -/
theorem rows_forms_equal {db : Db} {c u : Sym} {q : Qty} (f g : Option Rat) (k : SeqKind) (rows : List (List Atom))
    (kw : Bool) (d' : Int)
    (hc : getDefaultCategory db u = .ok (some c)) (hc0 : c ≠ 0)
    (hq : newQuantity db (.str c none) u = .ok q) :
    (construct db .array (.rows k rows) (.atom (.str u g)) .none = .ok ⟨q, .arr (.rows k rows)⟩
      ∧ construct db .array (.rows k rows) (.atom (.str u g)) (.str c f) = .ok ⟨q, .arr (.rows k rows)⟩
      ∧ construct db .array (.atom (.str c f)) (.rows k rows) (.str u g) = .ok ⟨q, .arr (.rows k rows)⟩
      ∧ construct db .array (.qty q) (.rows k rows) .none = .ok ⟨q, .arr (.rows k rows)⟩
      ∧ createWithQuantity db .array q (.rows k rows) kw none = .ok ⟨q, .arr (.rows k rows)⟩
      ∧ Obj.eq ⟨q, .arr (.rows k rows)⟩ ⟨q, .arr (.rows k rows)⟩ = .ok true)
    ∧ (2 ≤ rows.length →
      construct db (.fixed rows.length) (.rows k rows) (.atom (.str u g)) .none = .ok ⟨q, .fixed (.rows k rows) rows.length⟩
      ∧ construct db (.fixed rows.length) (.rows k rows) (.atom (.str u g)) (.str c f)
          = .ok ⟨q, .fixed (.rows k rows) rows.length⟩
      ∧ construct db (.fixed rows.length) (.atom (.str c f)) (.rows k rows) (.str u g)
          = .ok ⟨q, .fixed (.rows k rows) rows.length⟩
      ∧ construct db (.fixed rows.length) (.qty q) (.rows k rows) .none = .ok ⟨q, .fixed (.rows k rows) rows.length⟩
      ∧ createWithQuantity db (.fixed d') q (.rows k rows) kw none = .ok ⟨q, .fixed (.rows k rows) rows.length⟩
      ∧ createWithQuantity db (.fixed d') q (.rows k rows) kw (some rows.length)
          = .ok ⟨q, .fixed (.rows k rows) rows.length⟩
      ∧ Obj.eq ⟨q, .fixed (.rows k rows) rows.length⟩ ⟨q, .fixed (.rows k rows) rows.length⟩ = .ok true) := by
  have hx : ∃ x : PyVal, x = .rows k rows := ⟨_, rfl⟩
  obtain ⟨x, hxe⟩ := hx
  rw [← hxe]
  have hn : x.isNone = false := by rw [hxe]; rfl
  have hcw := createWithQuantity_agrees db q x kw hn
  constructor
  · have hv : x.isValueFor .array = true := by rw [hxe]; cases k <;> rfl
    have hb := (create_builds db q).2.2.2.1 x hn
    obtain ⟨h1, h2, _, h4⟩ := forms_with_category_agree f g .array _ hq hv
    obtain ⟨h0, _⟩ := form_without_category_agrees g .array _ hc hc0 hq hv
    exact ⟨h0.trans hb, h1.trans hb, h2.trans hb, h4.trans hb, (hcw.2.2.1).trans hb, hxe ▸ (eq_self_rows q k rows).1⟩
  · intro hd
    have hd' : ∃ d : Int, d = rows.length := ⟨_, rfl⟩
    obtain ⟨d, hde⟩ := hd'
    rw [← hde]
    have hv : x.isValueFor (.fixed d) = true := by rw [hxe]; cases k <;> rfl
    have hl : pyLen x = .ok d := by rw [hxe, hde]; rfl
    have hd2 : (2 : Int) ≤ d := by omega
    have hb := (create_builds db q).2.2.2.2 x d hn hd2 hl
    obtain ⟨h1, h2, _, h4⟩ := forms_with_category_agree f g (.fixed d) _ hq hv
    obtain ⟨h0, _⟩ := form_without_category_agrees g (.fixed d) _ hc hc0 hq hv
    exact ⟨h0.trans hb, h1.trans hb, h2.trans hb, h4.trans hb,
      (hcw.2.2.2.2 d d' hl).trans hb, (hcw.2.2.2.1 d d').trans hb, hxe ▸ (eq_self_rows q k rows).2 d⟩

/-- `o == o` is `True` as well for every Array/FixedArray whose value is a list or tuple of lists, or
of lists and tuples mixed (`[[1.0, 2.0], [3.0, 4.5]]`, `([7.0],)`, `[[1.0], (2.0, 3.0)]`) -/
theorem eq_self_nested (q : Qty) (k : SeqKind) (rows : List (Bool × List Atom)) :
    Obj.eq ⟨q, .arr (.nest k rows)⟩ ⟨q, .arr (.nest k rows)⟩ = .ok true
    ∧ (∀ d : Int, Obj.eq ⟨q, .fixed (.nest k rows) d⟩ ⟨q, .fixed (.nest k rows) d⟩ = .ok true) := by
  constructor
  · simp [Obj.eq, arrayEq, pyTuple, elemsEq_refl, pyEq_refl]
  · intro d; simp [Obj.eq, arrayEq, pyTuple, elemsEq_refl, pyEq_refl]

/-- **a row given as a list is not the row given as a tuple**: two Arrays on the same quantity whose
values differ only in the kind of one row (`[[1.0, 2.0]]` against `[(1.0, 2.0)]`) compare unequal — an
object that stored another container than the one it was given is another object -/
theorem list_row_differs_from_tuple_row (q : Qty) (k k' : SeqKind) (r : List Atom)
    (pre post : List (Bool × List Atom)) :
    Obj.eq ⟨q, .arr (.nest k (pre ++ (true, r) :: post))⟩ ⟨q, .arr (.nest k' (pre ++ (false, r) :: post))⟩ = .ok false := by
  have h : ∀ pre : List (Bool × List Atom),
      elemsEq ((pre ++ (true, r) :: post).map rowElem) ((pre ++ (false, r) :: post).map rowElem) = false := by
    intro pre
    induction pre with
    | nil => simp [elemsEq, rowElem, elemEq]
    | cons a as ih => simp only [List.cons_append, List.map_cons, elemsEq, ih, Bool.and_false]
  simp only [Obj.eq, arrayEq, pyTuple, h pre, Bool.false_and]

/-- **the Array and FixedArray forms hold exactly the container they were given, also a list (or
tuple) of LISTS or of lists and tuples mixed**: every `__init__` form and `CreateWithQuantity` build the
one object whose value is that very container (row kinds included), whatever the number of rows and
their sizes; the FixedArray dimension is the number of rows -/
theorem nested_forms_equal {db : Db} {c u : Sym} {q : Qty} (f g : Option Rat) (k : SeqKind)
    (rows : List (Bool × List Atom)) (kw : Bool) (d' : Int)
    (hc : getDefaultCategory db u = .ok (some c)) (hc0 : c ≠ 0)
    (hq : newQuantity db (.str c none) u = .ok q) :
    (construct db .array (.nest k rows) (.atom (.str u g)) .none = .ok ⟨q, .arr (.nest k rows)⟩
      ∧ construct db .array (.nest k rows) (.atom (.str u g)) (.str c f) = .ok ⟨q, .arr (.nest k rows)⟩
      ∧ construct db .array (.atom (.str c f)) (.nest k rows) (.str u g) = .ok ⟨q, .arr (.nest k rows)⟩
      ∧ construct db .array (.qty q) (.nest k rows) .none = .ok ⟨q, .arr (.nest k rows)⟩
      ∧ createWithQuantity db .array q (.nest k rows) kw none = .ok ⟨q, .arr (.nest k rows)⟩
      ∧ Obj.eq ⟨q, .arr (.nest k rows)⟩ ⟨q, .arr (.nest k rows)⟩ = .ok true)
    ∧ (2 ≤ rows.length →
      construct db (.fixed rows.length) (.nest k rows) (.atom (.str u g)) .none = .ok ⟨q, .fixed (.nest k rows) rows.length⟩
      ∧ construct db (.fixed rows.length) (.nest k rows) (.atom (.str u g)) (.str c f)
          = .ok ⟨q, .fixed (.nest k rows) rows.length⟩
      ∧ construct db (.fixed rows.length) (.atom (.str c f)) (.nest k rows) (.str u g)
          = .ok ⟨q, .fixed (.nest k rows) rows.length⟩
      ∧ construct db (.fixed rows.length) (.qty q) (.nest k rows) .none = .ok ⟨q, .fixed (.nest k rows) rows.length⟩
      ∧ createWithQuantity db (.fixed d') q (.nest k rows) kw none = .ok ⟨q, .fixed (.nest k rows) rows.length⟩
      ∧ createWithQuantity db (.fixed d') q (.nest k rows) kw (some rows.length)
          = .ok ⟨q, .fixed (.nest k rows) rows.length⟩
      ∧ Obj.eq ⟨q, .fixed (.nest k rows) rows.length⟩ ⟨q, .fixed (.nest k rows) rows.length⟩ = .ok true) := by
  have hx : ∃ x : PyVal, x = .nest k rows := ⟨_, rfl⟩
  obtain ⟨x, hxe⟩ := hx
  rw [← hxe]
  have hn : x.isNone = false := by rw [hxe]; rfl
  have hcw := createWithQuantity_agrees db q x kw hn
  constructor
  · have hv : x.isValueFor .array = true := by rw [hxe]; cases k <;> rfl
    have hb := (create_builds db q).2.2.2.1 x hn
    obtain ⟨h1, h2, _, h4⟩ := forms_with_category_agree f g .array _ hq hv
    obtain ⟨h0, _⟩ := form_without_category_agrees g .array _ hc hc0 hq hv
    exact ⟨h0.trans hb, h1.trans hb, h2.trans hb, h4.trans hb, (hcw.2.2.1).trans hb, hxe ▸ (eq_self_nested q k rows).1⟩
  · intro hd
    have hd' : ∃ d : Int, d = rows.length := ⟨_, rfl⟩
    obtain ⟨d, hde⟩ := hd'
    rw [← hde]
    have hv : x.isValueFor (.fixed d) = true := by rw [hxe]; cases k <;> rfl
    have hl : pyLen x = .ok d := by rw [hxe, hde]; rfl
    have hd2 : (2 : Int) ≤ d := by omega
    have hb := (create_builds db q).2.2.2.2 x d hn hd2 hl
    obtain ⟨h1, h2, _, h4⟩ := forms_with_category_agree f g (.fixed d) _ hq hv
    obtain ⟨h0, _⟩ := form_without_category_agrees g (.fixed d) _ hc hc0 hq hv
    exact ⟨h0.trans hb, h1.trans hb, h2.trans hb, h4.trans hb,
      (hcw.2.2.2.2 d d' hl).trans hb, (hcw.2.2.2.1 d d').trans hb, hxe ▸ (eq_self_nested q k rows).2 d⟩

/-! ### the category alone -/

/-- **`Cls(c)` = `Cls(default value, default unit, c)`** for every registered category `c` whose
default unit it accepts (`Quantity(c, default_unit)` = `q`): Scalar and FractionScalar carry the
default value, Array the empty list, FixedArray of dimension `d ≥ 2` a list of `d` zeros. -/
theorem category_only_eq_default {db : Db} {c : Sym} {ci : CatRow} {q : Qty} (f g : Option Rat)
    (hci : db.catByName c = some ci) (hq : newQuantity db (.str c none) ci.defaultUnit = .ok q) :
    (construct db .scalar (.atom (.str c f)) .none .none = .ok ⟨q, .scalar ci.defaultValue⟩
      ∧ construct db .scalar (.num ci.defaultValue) (.atom (.str ci.defaultUnit g)) (.str c f)
          = .ok ⟨q, .scalar ci.defaultValue⟩)
    ∧ (construct db .fraction (.atom (.str c f)) .none .none = .ok ⟨q, .fraction ci.defaultValue 0⟩
      ∧ construct db .fraction (.num ci.defaultValue) (.atom (.str ci.defaultUnit g)) (.str c f)
          = .ok ⟨q, .fraction ci.defaultValue 0⟩)
    ∧ (construct db .array (.atom (.str c f)) .none .none = .ok ⟨q, .arr (.seq .list [])⟩
      ∧ construct db .array (.seq .list []) (.atom (.str ci.defaultUnit g)) (.str c f)
          = .ok ⟨q, .arr (.seq .list [])⟩)
    ∧ (∀ d : Int, 2 ≤ d →
        construct db (.fixed d) (.atom (.str c f)) .none .none
          = .ok ⟨q, .fixed (.seq .list (List.replicate d.toNat (.num 0 false))) d⟩
        ∧ construct db (.fixed d) (.seq .list (List.replicate d.toNat (.num 0 false)))
            (.atom (.str ci.defaultUnit g)) (.str c f)
          = .ok ⟨q, .fixed (.seq .list (List.replicate d.toNat (.num 0 false))) d⟩) := by
  have hob : obtainQuantity db (PyVal.str ci.defaultUnit) (.str c f) = .ok q := hq
  have hci' : getCategoryInfo db (.str c f) = .ok ci := by simp [getCategoryInfo, hci]
  have hb := create_builds db q
  have hdn : defaultNumber db ci (.atom .none) = .ok ci.defaultValue := by
    simp [defaultNumber, isNone_atom_none]
  have hdvs : defaultValue db .scalar ci (.atom .none) = .ok (.num ci.defaultValue) := by
    simp [defaultValue, hdn]
  have hdvf : defaultValue db .fraction ci (.atom .none) = .ok (.num ci.defaultValue) := by
    simp [defaultValue, hdn]
  refine ⟨⟨?_, ?_⟩, ⟨?_, ?_⟩, ⟨?_, ?_⟩, ?_⟩
  · rw [construct_eq db _ _ _ _ (fun _ => rfl), abstractInit_category_first,
      initNamed_category_only db .scalar c f hci' hdvs hob]
    rfl
  · exact ((forms_with_category_agree f g .scalar _ hq rfl).1).trans (hb.1 _ _)
  · rw [construct_eq db _ _ _ _ (fun h => by cases h), abstractInit_category_first,
      initNamed_category_only db .fraction c f hci' hdvf hob]
    rfl
  · exact ((forms_with_category_agree f g .fraction _ hq rfl).1).trans (hb.2.1 _ _)
  · rw [construct_eq db _ _ _ _ (fun h => by cases h), abstractInit_category_first,
      initNamed_category_only db .array c f hci' rfl hob]
    rfl
  · exact ((forms_with_category_agree f g .array _ hq rfl).1).trans (hb.2.2.2.1 _ rfl)
  · intro d hd
    have hlen : pyLen (.seq .list (List.replicate d.toNat (Atom.num 0 false))) = .ok d := by
      simp only [pyLen, List.length_replicate]
      rw [Int.toNat_of_nonneg (by omega)]
    have hcr := hb.2.2.2.2 (.seq .list (List.replicate d.toNat (Atom.num 0 false))) d rfl hd hlen
    constructor
    · rw [construct_eq db _ _ _ _ (fun h => by cases h), abstractInit_category_first,
        initNamed_category_only db (.fixed d) c f hci' rfl hob, ← create_eq]
      exact hcr
    · exact ((forms_with_category_agree f g (.fixed d) _ hq rfl).1).trans hcr

/-! ### repr -/

/-- **`eval(repr(s)) == s`** for every Scalar whose quantity was built by `Quantity(c, u)`, when unit
and category contain no quote, backslash or line break: the text reads back as the same unit and
category, the constructor builds the same quantity again, and the value is the printed number. -/
theorem repr_roundtrip {db : Db} {c u : Sym} {f : Option Rat} {q : Qty} (v : Rat)
    (hq : newQuantity db (.str c f) u = .ok q) (hu : litOk q.unit = true) (hc : litOk q.cat = true) :
    reprBack db ⟨q, .scalar v⟩ = some (.ok ⟨q, .scalar v⟩)
    ∧ Obj.eq ⟨q, .scalar v⟩ ⟨q, .scalar v⟩ = .ok true := by
  refine ⟨?_, (eq_self q).1 v⟩
  have h1 := (parseLit_quoteLit_iff (Sym.bytes q.unit)).mpr hu
  have h2 := (parseLit_quoteLit_iff (Sym.bytes q.cat)).mpr hc
  have hq' : newQuantity db (.str q.cat none) q.unit = .ok q := newQuantity_idem hq
  have hf := (forms_with_category_agree (db := db) none none .scalar (.num v) hq' rfl).1
  have hs : q.isDerived = false := by rw [Qty.isDerived, (newQuantity_simple hq).1]; rfl
  simp only [reprBack, hs, Bool.false_eq_true, ↓reduceIte, evalScalarRepr, scalarRepr, h1, h2, ofBytes_bytes]
  exact congrArg some (hf.trans ((create_builds db q).1 v false))

/-- the hypothesis is needed: when the unit or the category does not survive the quoting, the text
is not read back as that Scalar -/
theorem repr_needs_plain_symbols (db : Db) (q : Qty) (v : Rat) (hs : q.isDerived = false)
    (h : litOk q.unit = false ∨ litOk q.cat = false) :
    reprBack db ⟨q, .scalar v⟩ = some (.error .other) := by
  have key : parseLit (quoteLit (Sym.bytes q.unit)) = none ∨ parseLit (quoteLit (Sym.bytes q.cat)) = none := by
    rcases h with h | h
    · left
      cases hp : parseLit (quoteLit (Sym.bytes q.unit)) with
      | none => rfl
      | some t =>
        have := parseLit_quoteLit_eq _ _ hp; subst this
        have := (parseLit_quoteLit_iff _).mp hp
        simp [litOk, this] at h
    · right
      cases hp : parseLit (quoteLit (Sym.bytes q.cat)) with
      | none => rfl
      | some t =>
        have := parseLit_quoteLit_eq _ _ hp; subst this
        have := (parseLit_quoteLit_iff _).mp hp
        simp [litOk, this] at h
  simp only [reprBack, hs, Bool.false_eq_true, ↓reduceIte, evalScalarRepr, scalarRepr]
  rcases key with k | k
  · rw [k]
  · rw [k]; split <;> simp_all

/-! ### the default (POSC) database meets the hypotheses: generated `decide +kernel` table theorems -/

/-- **every unit row's default category is registered and has the row's quantity type**: the row's own
`default_category` entry, else its quantity type, is a non-empty name of a registered category whose
quantity type is the row's -/
theorem posc_default_category_registered : ∀ r ∈ poscDb.units,
    ∃ c ci, rowDefaultCategory poscDb r = some c ∧ c ≠ 0 ∧ poscDb.catByName c = some ci ∧ ci.qtype = r.qtype :=
  fun r hr => defaultCatOk_spec (List.all_eq_true.mp poscUnits_all_defcat r hr)

/-- **for every unit symbol of the table `GetDefaultCategory` resolves and `Quantity(category, unit)`
builds the quantity (category, unit)** -/
theorem posc_default_category_resolves : ∀ r ∈ poscDb.units,
    ∃ c, getDefaultCategory poscDb r.sym = .ok (some c) ∧ c ≠ 0
      ∧ newQuantity poscDb (.str c none) r.sym = .ok (Qty.simple c r.sym) := by
  intro r hr
  obtain ⟨r', hr'⟩ := unitBySym_of_mem hr
  have hm := (unitBySym_spec hr').1
  obtain ⟨c, _, hc, hc0, _, _, hq⟩ :=
    default_quantity_of_row hr' (List.all_eq_true.mp poscUnits_all_defcat r' hm)
  exact ⟨c, hc, hc0, hq⟩

/-- **every registered category accepts its own default unit**: `Quantity(c, default_unit)` builds
the quantity (c, default unit) -/
theorem posc_default_unit_accepted : ∀ c ci, poscDb.catByName c = some ci →
    newQuantity poscDb (.str c none) ci.defaultUnit = .ok (Qty.simple c ci.defaultUnit) :=
  fun _ ci hci => defaultUnitOk_spec hci (List.all_eq_true.mp poscCats_all_defunit ci (catByName_spec hci).1)

/-- **no unit symbol and no category name contains a quote, a backslash or a line break** -/
theorem posc_no_quote_chars :
    (∀ r ∈ poscDb.units, litOk r.sym = true) ∧ (∀ ci ∈ poscDb.cats, litOk ci.name = true) :=
  ⟨fun r hr => List.all_eq_true.mp poscUnits_all_symplain r hr,
   fun ci hci => List.all_eq_true.mp poscCats_all_catplain ci hci⟩

/-! ### C19 on the default database, for all units, all categories, all values -/

/-- for every unit: the six Scalar forms build the same object for every number -/
theorem posc_scalar_forms_equal : ∀ r ∈ poscDb.units, ∃ c, getDefaultCategory poscDb r.sym = .ok (some c) ∧
    ∀ (f g : Option Rat) (v : Rat) (i kw : Bool),
      let q : Qty := (Qty.simple c r.sym)
      let o : Obj := ⟨q, .scalar v⟩
      construct poscDb .scalar (.atom (.num v i)) (.atom (.str r.sym g)) .none = .ok o
      ∧ construct poscDb .scalar (.atom (.num v i)) (.atom (.str r.sym g)) (.str c f) = .ok o
      ∧ construct poscDb .scalar (.atom (.str c f)) (.atom (.num v i)) (.str r.sym g) = .ok o
      ∧ construct poscDb .scalar (.seq .tuple [.num v i, .str r.sym g]) .none .none = .ok o
      ∧ obtainQuantity poscDb (.atom (.str r.sym g)) (.str c f) = .ok q
      ∧ construct poscDb .scalar (.qty q) (.atom (.num v i)) .none = .ok o
      ∧ createWithQuantity poscDb .scalar q (.atom (.num v i)) kw none = .ok o
      ∧ Obj.eq o o = .ok true := by
  intro r hr
  obtain ⟨c, hc, hc0, hq⟩ := posc_default_category_resolves r hr
  exact ⟨c, hc, fun f g v i kw => scalar_forms_equal f g v i kw hc hc0 hq⟩

/-- for every unit and every kind of number (big ints, bools, numpy ints included): all Scalar forms,
`CreateWithQuantity` among them, hold `float(a)` and are one object -/
theorem posc_scalar_forms_store_float : ∀ r ∈ poscDb.units, ∃ c, getDefaultCategory poscDb r.sym = .ok (some c) ∧
    ∀ (f g : Option Rat) (a : Atom) (v : Rat) (kw : Bool),
      (PyVal.atom a).isValueFor .scalar = true → pyFloat (.atom a) = .ok v →
      let q : Qty := (Qty.simple c r.sym)
      let o : Obj := ⟨q, .scalar v⟩
      construct poscDb .scalar (.atom a) (.atom (.str r.sym g)) .none = .ok o
      ∧ construct poscDb .scalar (.atom a) (.atom (.str r.sym g)) (.str c f) = .ok o
      ∧ construct poscDb .scalar (.atom (.str c f)) (.atom a) (.str r.sym g) = .ok o
      ∧ construct poscDb .scalar (.seq .tuple [a, .str r.sym g]) .none .none = .ok o
      ∧ construct poscDb .scalar (.qty q) (.atom a) .none = .ok o
      ∧ createWithQuantity poscDb .scalar q (.atom a) kw none = .ok o
      ∧ Obj.eq o o = .ok true := by
  intro r hr
  obtain ⟨c, hc, hc0, hq⟩ := posc_default_category_resolves r hr
  exact ⟨c, hc, fun f g a v kw ha hv => scalar_forms_store_float f g a v kw ha hv hc hc0 hq⟩

/-- for every unit: the FractionScalar forms build the same object for every number -/
theorem posc_fraction_forms_equal : ∀ r ∈ poscDb.units, ∃ c, getDefaultCategory poscDb r.sym = .ok (some c) ∧
    ∀ (f g : Option Rat) (x : PyVal) (o : Obj) (kw : Bool),
      let q : Qty := (Qty.simple c r.sym)
      ((∃ v i, x = .atom (.num v i) ∧ o = ⟨q, .fraction v 0⟩) ∨ (∃ n fr, x = .fv n fr ∧ o = ⟨q, .fraction n fr⟩)) →
      construct poscDb .fraction x (.atom (.str r.sym g)) .none = .ok o
      ∧ construct poscDb .fraction x (.atom (.str r.sym g)) (.str c f) = .ok o
      ∧ construct poscDb .fraction (.atom (.str c f)) x (.str r.sym g) = .ok o
      ∧ construct poscDb .fraction (.qty q) x .none = .ok o
      ∧ createWithQuantity poscDb .fraction q x kw none = .ok o
      ∧ Obj.eq o o = .ok true := by
  intro r hr
  obtain ⟨c, hc, hc0, hq⟩ := posc_default_category_resolves r hr
  exact ⟨c, hc, fun f g x o kw hx => fraction_forms_equal f g x o kw hc hc0 hq hx⟩

/-- for every unit: the Array forms build the same object for every list/tuple/1-d array -/
theorem posc_array_forms_equal : ∀ r ∈ poscDb.units, ∃ c, getDefaultCategory poscDb r.sym = .ok (some c) ∧
    ∀ (f g : Option Rat) (k : SeqKind) (items : List Atom) (kw : Bool),
      let q : Qty := (Qty.simple c r.sym)
      let x : PyVal := .seq k items
      let o : Obj := ⟨q, .arr x⟩
      construct poscDb .array x (.atom (.str r.sym g)) .none = .ok o
      ∧ construct poscDb .array x (.atom (.str r.sym g)) (.str c f) = .ok o
      ∧ construct poscDb .array (.atom (.str c f)) x (.str r.sym g) = .ok o
      ∧ construct poscDb .array (.qty q) x .none = .ok o
      ∧ createWithQuantity poscDb .array q x kw none = .ok o
      ∧ Obj.eq o o = .ok true := by
  intro r hr
  obtain ⟨c, hc, hc0, hq⟩ := posc_default_category_resolves r hr
  exact ⟨c, hc, fun f g k items kw => array_forms_equal f g k items kw hc hc0 hq⟩

/-- for every unit: the FixedArray forms build the same object for every container of ≥ 2 elements -/
theorem posc_fixed_forms_equal : ∀ r ∈ poscDb.units, ∃ c, getDefaultCategory poscDb r.sym = .ok (some c) ∧
    ∀ (f g : Option Rat) (k : SeqKind) (items : List Atom) (kw : Bool) (d' : Int), 2 ≤ items.length →
      let q : Qty := (Qty.simple c r.sym)
      let d : Int := items.length
      let x : PyVal := .seq k items
      let o : Obj := ⟨q, .fixed x d⟩
      construct poscDb (.fixed d) x (.atom (.str r.sym g)) .none = .ok o
      ∧ construct poscDb (.fixed d) x (.atom (.str r.sym g)) (.str c f) = .ok o
      ∧ construct poscDb (.fixed d) (.atom (.str c f)) x (.str r.sym g) = .ok o
      ∧ construct poscDb (.fixed d) (.qty q) x .none = .ok o
      ∧ createWithQuantity poscDb (.fixed d') q x kw none = .ok o
      ∧ createWithQuantity poscDb (.fixed d') q x kw (some d) = .ok o
      ∧ Obj.eq o o = .ok true := by
  intro r hr
  obtain ⟨c, hc, hc0, hq⟩ := posc_default_category_resolves r hr
  exact ⟨c, hc, fun f g k items kw d' hd => fixed_forms_equal f g k items kw d' hd hc hc0 hq⟩

/-- for every unit: Array and FixedArray forms on lists/tuples of tuples (any shape) build one object,
with the FixedArray dimension = number of tuples in every form -/
theorem posc_rows_forms_equal : ∀ r ∈ poscDb.units, ∃ c, getDefaultCategory poscDb r.sym = .ok (some c) ∧
    ∀ (f g : Option Rat) (k : SeqKind) (rows : List (List Atom)) (kw : Bool) (d' : Int),
      (construct poscDb .array (.rows k rows) (.atom (.str r.sym g)) .none = .ok ⟨(Qty.simple c r.sym), .arr (.rows k rows)⟩
        ∧ createWithQuantity poscDb .array (Qty.simple c r.sym) (.rows k rows) kw none = .ok ⟨(Qty.simple c r.sym), .arr (.rows k rows)⟩)
      ∧ (2 ≤ rows.length →
        construct poscDb (.fixed rows.length) (.rows k rows) (.atom (.str r.sym g)) .none
          = .ok ⟨(Qty.simple c r.sym), .fixed (.rows k rows) rows.length⟩
        ∧ construct poscDb (.fixed rows.length) (.atom (.str c f)) (.rows k rows) (.str r.sym g)
          = .ok ⟨(Qty.simple c r.sym), .fixed (.rows k rows) rows.length⟩
        ∧ createWithQuantity poscDb (.fixed d') (Qty.simple c r.sym) (.rows k rows) kw none
          = .ok ⟨(Qty.simple c r.sym), .fixed (.rows k rows) rows.length⟩
        ∧ createWithQuantity poscDb (.fixed d') (Qty.simple c r.sym) (.rows k rows) kw (some rows.length)
          = .ok ⟨(Qty.simple c r.sym), .fixed (.rows k rows) rows.length⟩) := by
  intro r hr
  obtain ⟨c, hc, hc0, hq⟩ := posc_default_category_resolves r hr
  refine ⟨c, hc, fun f g k rows kw d' => ?_⟩
  have h := rows_forms_equal f g k rows kw d' hc hc0 hq
  exact ⟨⟨h.1.1, h.1.2.2.2.2.1⟩, fun hd => ⟨(h.2 hd).1, (h.2 hd).2.2.1, (h.2 hd).2.2.2.2.1, (h.2 hd).2.2.2.2.2.1⟩⟩

/-- for every unit and **every category that shares the unit's quantity** (any category that accepts
the unit): the forms naming the category agree on every value argument, for all four classes -/
theorem posc_forms_with_any_category_agree (c u : Sym) (q : Qty) (f g : Option Rat) (cls : Cls) (x : PyVal)
    (hq : newQuantity poscDb (.str c none) u = .ok q) (hx : x.isValueFor cls = true) :
    construct poscDb cls x (.atom (.str u g)) (.str c f) = create poscDb cls q x
    ∧ construct poscDb cls (.atom (.str c f)) x (.str u g) = create poscDb cls q x
    ∧ construct poscDb cls (.qty q) x .none = create poscDb cls q x :=
  have h := forms_with_category_agree f g cls x hq hx
  ⟨h.1, h.2.1, h.2.2.2⟩

/-- for every registered category name: the object built from the category alone is the one built
from its default value and default unit, for all four classes and every FixedArray dimension (every
row of the category table is registered under its name: `catByName_of_mem`) -/
theorem posc_category_only_eq_default : ∀ c ci, poscDb.catByName c = some ci → ∀ (f g : Option Rat),
    let q : Qty := (Qty.simple c ci.defaultUnit)
    (construct poscDb .scalar (.atom (.str c f)) .none .none = .ok ⟨q, .scalar ci.defaultValue⟩
      ∧ construct poscDb .scalar (.num ci.defaultValue) (.atom (.str ci.defaultUnit g)) (.str c f)
          = .ok ⟨q, .scalar ci.defaultValue⟩)
    ∧ (construct poscDb .fraction (.atom (.str c f)) .none .none = .ok ⟨q, .fraction ci.defaultValue 0⟩
      ∧ construct poscDb .fraction (.num ci.defaultValue) (.atom (.str ci.defaultUnit g)) (.str c f)
          = .ok ⟨q, .fraction ci.defaultValue 0⟩)
    ∧ (construct poscDb .array (.atom (.str c f)) .none .none = .ok ⟨q, .arr (.seq .list [])⟩
      ∧ construct poscDb .array (.seq .list []) (.atom (.str ci.defaultUnit g)) (.str c f)
          = .ok ⟨q, .arr (.seq .list [])⟩)
    ∧ (∀ d : Int, 2 ≤ d →
        construct poscDb (.fixed d) (.atom (.str c f)) .none .none
          = .ok ⟨q, .fixed (.seq .list (List.replicate d.toNat (.num 0 false))) d⟩
        ∧ construct poscDb (.fixed d) (.seq .list (List.replicate d.toNat (.num 0 false)))
            (.atom (.str ci.defaultUnit g)) (.str c f)
          = .ok ⟨q, .fixed (.seq .list (List.replicate d.toNat (.num 0 false))) d⟩) := by
  intro c ci hci f g
  exact category_only_eq_default f g hci (posc_default_unit_accepted c ci hci)

/-- all 328 rows of the category table are reachable by name, so the previous theorem covers them -/
theorem posc_every_category_registered : ∀ ci ∈ poscDb.cats, ∃ ci', poscDb.catByName ci.name = some ci' :=
  fun _ h => catByName_of_mem h

/-- `eval(repr(s)) == s` for every Scalar with a simple quantity that can be built on the default
database, whatever its value -/
theorem posc_repr_roundtrip (c u : Sym) (f : Option Rat) (q : Qty) (v : Rat)
    (hq : newQuantity poscDb (.str c f) u = .ok q) :
    reprBack poscDb ⟨q, .scalar v⟩ = some (.ok ⟨q, .scalar v⟩)
    ∧ Obj.eq ⟨q, .scalar v⟩ ⟨q, .scalar v⟩ = .ok true := by
  obtain ⟨⟨ci, hci, hcn⟩, ⟨r, hr, hrs⟩⟩ := newQuantity_rows hq
  exact repr_roundtrip v hq (hrs ▸ posc_no_quote_chars.1 r hr) (hcn ▸ posc_no_quote_chars.2 ci hci)

/-! ### the forms that are handed a Quantity: every quantity, caption included -/

/-- **`Cls(q, x)` = `Cls.CreateWithQuantity(q, x)` = `Cls.CreateWithQuantity(q, value=x)` = create(q, x)
for EVERY quantity `q`** — simple with or without unknown-unit caption, derived, empty — every class
and every value argument but `None` (equal results, errors included); for FixedArray with the
dimension given positionally, by keyword, or left to `len(x)` -/
theorem quantity_first_agrees (db : Db) (q : Qty) (x : PyVal) (kw : Bool) (hx : x.isNone = false) :
    (∀ cls : Cls, construct db cls (.qty q) x .none = create db cls q x)
    ∧ createWithQuantity db .scalar q x kw none = create db .scalar q x
    ∧ createWithQuantity db .fraction q x kw none = create db .fraction q x
    ∧ createWithQuantity db .array q x kw none = create db .array q x
    ∧ (∀ d d' : Int, createWithQuantity db (.fixed d') q x kw (some d) = create db (.fixed d) q x)
    ∧ (∀ d d' : Int, pyLen x = .ok d → createWithQuantity db (.fixed d') q x kw none = create db (.fixed d) q x) := by
  refine ⟨fun cls => ?_, createWithQuantity_agrees db q x kw hx⟩
  rw [construct_eq db cls _ _ _ (fun _ => rfl), create_eq, abstractInit_quantity_first, initQuantity_given db cls q hx]

/-- **the object holds exactly the quantity it was built from** (category, unit, composing map and
caption): whatever `Cls(q, x)` or `Cls.CreateWithQuantity(q, x)` builds has `GetQuantity() = q` -/
theorem created_object_holds_quantity (db : Db) (cls : Cls) (q : Qty) (x : PyVal) (kw : Bool) (dimKw : Option Int)
    (o : Obj) :
    (create db cls q x = .ok o → o.q = q)
    ∧ (construct db cls (.qty q) x .none = .ok o → x.isNone = false → o.q = q)
    ∧ (createWithQuantity db cls q x kw dimKw = .ok o → x.isNone = false → o.q = q) := by
  have hc : ∀ cls' : Cls, create db cls' q x = .ok o → o.q = q := fun cls' h => by
    rw [create_eq] at h; exact internalCreate_q (dimGuard_ok h)
  refine ⟨hc cls, fun h hx => ?_, fun h hx => ?_⟩
  · rw [(quantity_first_agrees db q x kw hx).1 cls] at h; exact hc cls h
  · have hcw := createWithQuantity_agrees db q x kw hx
    cases cls with
    | scalar =>
      cases dimKw with
      | none => rw [hcw.1] at h; exact hc _ h
      | some d => simp [createWithQuantity] at h
    | fraction =>
      cases dimKw with
      | none => rw [hcw.2.1] at h; exact hc _ h
      | some d => simp [createWithQuantity] at h
    | array =>
      cases dimKw with
      | none => rw [hcw.2.2.1] at h; exact hc _ h
      | some d => simp [createWithQuantity] at h
    | fixed d' =>
      cases dimKw with
      | some d => rw [hcw.2.2.2.1 d d'] at h; exact hc _ h
      | none =>
        -- the dimension is `len(x)`; when that fails nothing is built
        cases hl : pyLen x with
        | ok d => rw [hcw.2.2.2.2 d d' hl] at h; exact hc _ h
        | error e =>
          cases kw <;> simp [createWithQuantity, fixedInternal, fixedDimension, pickValues_left hx,
            pickValues_right hx, hl] at h

/-- **the caption is part of an object's identity**: `a == b` is `True` only when the two quantities
have the same composing map and the same unknown-unit caption -/
theorem eq_needs_same_caption (a b : Obj) (h : Obj.eq a b = .ok true) :
    a.q.caption = b.q.caption ∧ a.q.items = b.q.items := by
  have hp := objEq_pyEq h
  refine ⟨pyEq_caption hp, ?_⟩
  simp only [Qty.pyEq, Bool.and_eq_true, beq_iff_eq] at hp
  exact hp.1

/-- an object built on a quantity is never `==` to the object built on the same quantity with another
caption (Scalar shown; the other classes compare the quantities the same way) -/
theorem other_caption_other_object (q : Qty) (cap : Sym) (v w : Rat) (h : cap ≠ q.caption) :
    Obj.eq ⟨q, .scalar v⟩ ⟨q.withCaption cap, .scalar w⟩ = .ok false := by
  have : (q.caption == cap) = false := by simpa using fun e => h e.symm
  simp [Obj.eq, Qty.pyEq, Qty.withCaption, this]

/-- **`ObtainQuantity(unit, category, caption)`, `ObtainQuantity(OrderedDict(…), None, caption)` and
`units.GetUnknownQuantity(caption)` return a quantity carrying that caption** (`None` is stored as
`""`), so by the two theorems above `X(q, v)` and `X.CreateWithQuantity(q, v)` both carry it -/
theorem obtained_quantity_carries_caption (db : Db) (unit : PyVal) (category : Atom) (cap : Sym) (f : Option Rat)
    (items : List (Sym × Sym × Int)) (q : Qty) :
    (obtainQuantityC db unit category (.str cap f) = .ok q → q.caption = cap)
    ∧ (obtainQuantityC db unit category .none = .ok q → q.caption = 0)
    ∧ (obtainDict db items (.str cap f) = .ok q → q.caption = cap)
    ∧ (obtainDict db items .none = .ok q → q.caption = 0)
    ∧ (unknownQuantity db (.str cap f) = .ok q → q.caption = cap)
    ∧ (unknownQuantity db .none = .ok q → q.caption = 0) := by
  refine ⟨fun h => ?_, fun h => ?_, fun h => ?_, fun h => ?_, fun h => ?_, fun h => ?_⟩
  · have := obtainQuantityC_caption h; simp only [capOf, Except.ok.injEq] at this; exact this.symm
  · have := obtainQuantityC_caption h; simp only [capOf, Except.ok.injEq] at this; exact this.symm
  · have := obtainDict_caption h; simp only [capOf, Except.ok.injEq] at this; exact this.symm
  · have := obtainDict_caption h; simp only [capOf, Except.ok.injEq] at this; exact this.symm
  · unfold unknownQuantity at h
    by_cases hc : (Atom.str cap f).truthyStr = true
    · rw [if_pos hc] at h
      have := obtainQuantityC_caption h; simp only [capOf, Except.ok.injEq] at this; exact this.symm
    · rw [if_neg hc] at h
      have hc0 : cap = 0 := by simpa [Atom.truthyStr] using hc
      have h' : obtainQuantityC db (.atom (.str unknownUnit none)) (.str unknownQType none) .none = .ok q := h
      have := obtainQuantityC_caption h'; simp only [capOf, Except.ok.injEq] at this; rw [hc0]; exact this.symm
  · unfold unknownQuantity at h
    rw [if_neg (by simp [Atom.truthyStr])] at h
    have h' : obtainQuantityC db (.atom (.str unknownUnit none)) (.str unknownQType none) .none = .ok q := h
    have := obtainQuantityC_caption h'; simp only [capOf, Except.ok.injEq] at this; exact this.symm

/-- **all quantity-first forms build one object on a quantity with a caption (or a derived, or the empty
one), and it equals itself**: Scalar and FractionScalar from a number, Array and FixedArray from a
container -/
theorem quantity_first_forms_equal (db : Db) (q : Qty) (kw : Bool) :
    (∀ (v : Rat) (i : Bool),
        construct db .scalar (.qty q) (.atom (.num v i)) .none = .ok ⟨q, .scalar v⟩
        ∧ createWithQuantity db .scalar q (.atom (.num v i)) kw none = .ok ⟨q, .scalar v⟩
        ∧ construct db .fraction (.qty q) (.atom (.num v i)) .none = .ok ⟨q, .fraction v 0⟩
        ∧ createWithQuantity db .fraction q (.atom (.num v i)) kw none = .ok ⟨q, .fraction v 0⟩
        ∧ Obj.eq ⟨q, .scalar v⟩ ⟨q, .scalar v⟩ = .ok true
        ∧ Obj.eq ⟨q, .fraction v 0⟩ ⟨q, .fraction v 0⟩ = .ok true)
    ∧ (∀ (k : SeqKind) (items : List Atom),
        construct db .array (.qty q) (.seq k items) .none = .ok ⟨q, .arr (.seq k items)⟩
        ∧ createWithQuantity db .array q (.seq k items) kw none = .ok ⟨q, .arr (.seq k items)⟩
        ∧ Obj.eq ⟨q, .arr (.seq k items)⟩ ⟨q, .arr (.seq k items)⟩ = .ok true
        ∧ (2 ≤ items.length → ∀ d' : Int,
            construct db (.fixed items.length) (.qty q) (.seq k items) .none = .ok ⟨q, .fixed (.seq k items) items.length⟩
            ∧ createWithQuantity db (.fixed d') q (.seq k items) kw none = .ok ⟨q, .fixed (.seq k items) items.length⟩
            ∧ createWithQuantity db (.fixed d') q (.seq k items) kw (some items.length)
                = .ok ⟨q, .fixed (.seq k items) items.length⟩
            ∧ Obj.eq ⟨q, .fixed (.seq k items) items.length⟩ ⟨q, .fixed (.seq k items) items.length⟩ = .ok true)) := by
  have hb := create_builds db q
  constructor
  · intro v i
    have hq := quantity_first_agrees db q (.atom (.num v i)) kw rfl
    exact ⟨(hq.1 .scalar).trans (hb.1 v i), hq.2.1.trans (hb.1 v i), (hq.1 .fraction).trans (hb.2.1 v i),
      hq.2.2.1.trans (hb.2.1 v i), (eq_self q).1 v, (eq_self q).2.1 v 0⟩
  · intro k items
    have hq := quantity_first_agrees db q (.seq k items) kw rfl
    have ha := hb.2.2.2.1 (.seq k items) rfl
    refine ⟨(hq.1 .array).trans ha, hq.2.2.2.1.trans ha, (eq_self q).2.2.1 k items, fun hd d' => ?_⟩
    have hl : pyLen (.seq k items) = .ok (items.length : Int) := rfl
    have hf := hb.2.2.2.2 (.seq k items) items.length rfl (by omega) hl
    exact ⟨(hq.1 _).trans hf, (hq.2.2.2.2.2 _ d' hl).trans hf, (hq.2.2.2.2.1 _ d').trans hf,
      (eq_self q).2.2.2 k items _⟩

/-- **`ObtainQuantity([(unit, exponent), …], [category, …], caption)` is the dict form of the zipped
lists**, except for one pair with exponent 1, which is the simple quantity of `category[0]`; either
way the quantity carries the caption -/
theorem pairs_form_agrees (db : Db) (pairs : List (Sym × Int)) (cats : List Sym) (cap : Atom) (q : Qty) :
    ((∀ u, pairs ≠ [(u, 1)]) → obtainPairs db pairs cats cap = obtainDict db (odictZip cats pairs) cap)
    ∧ (∀ u c rest, obtainPairs db [(u, 1)] (c :: rest) cap = newQuantityC db (.str c none) u cap)
    ∧ (obtainPairs db pairs cats cap = .ok q → capOf cap = .ok q.caption) := by
  refine ⟨fun h => ?_, fun u c rest => rfl, fun h => ?_⟩
  · unfold obtainPairs
    split
    · rename_i u e
      split
      · rename_i he
        have : e = 1 := by simpa using he
        exact absurd (this ▸ rfl) (h u)
      · rfl
    · rfl
  · unfold obtainPairs at h
    split at h
    · split at h
      · split at h
        · exact newQuantityC_caption h
        · cases h
      · exact obtainDict_caption h
    · exact obtainDict_caption h

/-- **the legacy constructor `Quantity(c, u, caption)` builds the quantity `ObtainQuantity(u, c, caption)`
returns** (for a string unit and a named category), and `Quantity(c, None, caption)` the one of the
category's default unit; both carry the caption -/
theorem legacy_constructor_agrees (db : Db) (c u : Sym) (f g : Option Rat) (cap : Atom) (ci : CatRow) (q : Qty) :
    quantityInit db (.str c f) (.str u g) cap = obtainQuantityC db (.atom (.str u g)) (.str c f) cap
    ∧ (db.catByName c = some ci → capOf cap ≠ .error .assertion →
        quantityInit db (.str c f) .none cap = obtainQuantityC db (.atom .none) (.str c f) cap)
    ∧ (quantityInit db (.str c f) (.str u g) cap = .ok q → capOf cap = .ok q.caption) := by
  have h0 : quantityInit db (.str c f) (.str u g) cap = newQuantityC db (.str c f) u cap := rfl
  refine ⟨rfl, fun hci hcap => ?_, fun h => newQuantityC_caption (h0 ▸ h)⟩
  cases hc : capOf cap with
  | error e => cases cap <;> simp_all [capOf]
  | ok cp => simp [quantityInit, obtainQuantityC, obtainAtomC, obtainNonStrC, getCategoryInfo, hci, hc, Atom.isNone]

/-- **the value given twice** — positionally and as `value=` — is refused by `Array.CreateWithQuantity`
and `FixedArray.CreateWithQuantity` ("Duplicated values parameter given") and is a `TypeError` for
Scalar and FractionScalar; `value=None` next to the positional value is as if it was not given -/
theorem duplicated_values_rejected (db : Db) (q : Qty) (x : PyVal) (a : Atom) (dimKw : Option Int) (d : Int)
    (hx : x.isNone = false) :
    (a.isNone = false →
        createWithQuantityBoth .array q x a none = .error .value
        ∧ createWithQuantityBoth (.fixed d) q x a dimKw = .error .value)
    ∧ createWithQuantityBoth .array q x .none none = createWithQuantity db .array q x false none
    ∧ createWithQuantityBoth (.fixed d) q x .none dimKw = createWithQuantity db (.fixed d) q x false dimKw
    ∧ createWithQuantityBoth .scalar q x a dimKw = .error .type
    ∧ createWithQuantityBoth .fraction q x a dimKw = .error .type := by
  refine ⟨fun ha => ?_, rfl, rfl, rfl, rfl⟩
  have hn : (PyVal.atom a).isNone = false := by cases a <;> simp_all [PyVal.isNone, Atom.isNone]
  simp [createWithQuantityBoth, arrayInternal, fixedInternal, pickValues, hx, hn]

/-- **`eval(repr(s)) == s` does NOT hold for a Scalar whose simple quantity carries an unknown-unit
caption** (the code as it is): the printed text shows value, unit and category only, so the Scalar read
back has the caption `""` and `==` tells the two apart.  `repr_roundtrip` is about quantities
`Quantity(c, u)` builds, which have no caption. -/
theorem repr_forgets_caption {db : Db} {c u cap : Sym} {f g : Option Rat} {q : Qty} (v : Rat)
    (hq : newQuantityC db (.str c f) u (.str cap g) = .ok q) (hcap : cap ≠ 0)
    (hu : litOk q.unit = true) (hc : litOk q.cat = true) :
    reprBack db ⟨q, .scalar v⟩ = some (.ok ⟨q.withCaption 0, .scalar v⟩)
    ∧ Obj.eq ⟨q.withCaption 0, .scalar v⟩ ⟨q, .scalar v⟩ = .ok false := by
  rw [newQuantityC_eq db _ u _ cap rfl] at hq
  cases hq0 : newQuantity db (.str c f) u with
  | error e => rw [hq0] at hq; cases hq
  | ok q0 =>
    rw [hq0] at hq
    simp only [Except.ok.injEq] at hq
    subst hq
    have hs := newQuantity_simple hq0
    have hcap0 : q0.caption = 0 := by
      have := newQuantityC_caption (cap := .none) hq0; simp only [capOf, Except.ok.injEq] at this; exact this.symm
    have hw : (q0.withCaption cap).withCaption 0 = q0 := by
      cases q0; simp_all [Qty.withCaption]
    rw [hw]
    have hrt := repr_roundtrip (db := db) v hq0 hu hc
    constructor
    · have h1 : reprBack db ⟨q0.withCaption cap, .scalar v⟩ = reprBack db ⟨q0, .scalar v⟩ := by
        cases q0; rfl
      rw [h1]; exact hrt.1
    ·       simp [Obj.eq, Qty.pyEq, Qty.withCaption, Qty.items, hcap0, Ne.symm hcap]
/-! ### every reachable state of a private database -/

/-- **questions, failed constructions and constructions never change the database**: the state a
history reaches is the state its registrations alone reach -/
theorem history_state_is_its_registrations (lg : List (Sym × Sym)) (r : Reg.Registry) (ops : List HOp) :
    hrun lg r ops = Reg.run lg r (regsOf ops) := hrun_eq_run lg ops r

/-- **every answer is a function of the current registry only**: after any history, `GetDefaultCategory(u)`
and every construction call give what they give on the database built by the registrations of that
history alone — whatever was asked, tried or built before (no memory of earlier questions) -/
theorem history_answers_from_registry (lg : List (Sym × Sym)) (r : Reg.Registry) (ops : List HOp) (u : Sym)
    (cs : List Call) :
    houts lg r (ops ++ [.defcat u])
      = houts lg r ops ++ [.defcat (getDefaultCategory (dbOf lg (Reg.run lg r (regsOf ops))) u)]
    ∧ houts lg r (ops ++ [.calls cs])
      = houts lg r ops ++ [.calls (cs.map (runCall (dbOf lg (Reg.run lg r (regsOf ops)))))] := by
  constructor <;> rw [houts_append, hrun_eq_run] <;> rfl

/-- two histories with the same registrations (in the same order) reach the same database, so any
question or construction that follows gets the same answer in both -/
theorem same_registrations_same_answers (lg : List (Sym × Sym)) (r : Reg.Registry) (ops ops' : List HOp) (q : HOp)
    (h : regsOf ops = regsOf ops') :
    hrun lg r ops = hrun lg r ops' ∧ (hstep lg (hrun lg r ops) q).2 = (hstep lg (hrun lg r ops') q).2 := by
  have : hrun lg r ops = hrun lg r ops' := by rw [hrun_eq_run, hrun_eq_run, h]
  exact ⟨this, by rw [this]⟩

/-- **a category registered late is found**: once `AddCategory(c, …)` has been accepted, a registered
unit whose row has no `default_category` entry and whose quantity type is named `c` has default
category `c` — whatever the answer was before the registration -/
theorem default_category_after_registration (lg : List (Sym × Sym)) (r r' : Reg.Registry) (a : Reg.CatArgs)
    (ci : CatRow) (u : Sym) (w : UnitRow)
    (hreg : Reg.addCategory lg r a = (r', .ok ci))
    (hu : (dbOf lg r).unitBySym u = some w) (hd : w.defaultCat = 0) (hn : w.qtype = ci.name) :
    getDefaultCategory (dbOf lg r') u = .ok (some ci.name) := by
  have hr' : r'.types = r.types ∧ r'.cats = Reg.catSet r.cats ci := by
    simp only [Reg.addCategory] at hreg
    split at hreg
    · cases hreg
    · cases hreg
    · split at hreg
      · cases hreg
      · split at hreg
        · cases hreg
        · split at hreg
          · cases hreg
          · split at hreg
            · cases hreg
            · split at hreg
              · cases hreg
              · split at hreg
                · cases hreg
                · simp only [Prod.mk.injEq, Except.ok.injEq] at hreg
                  obtain ⟨h1, h2⟩ := hreg
                  subst h1; subst h2; exact ⟨rfl, rfl⟩
  have hu' : (dbOf lg r').unitBySym u = some w := by
    simp only [dbOf, Db.unitBySym, Reg.Registry.allRows, hr'.1] at hu ⊢; exact hu
  have hc : (dbOf lg r').catByName w.qtype = some ci := by
    simp only [dbOf, Db.catByName, hr'.2, hn]; exact catGet_catSet ci r.cats
  rw [hn] at hc
  simp [getDefaultCategory, defaultCategoryRow, hu', rowDefaultCategory, hd, hc, hn]

/-- **a unit registered late is found**: `AddUnit(qt, name, u, …)` (no `default_category`) accepted on a
database that did not know `u` and has a category named `qt`: from then on the default category of `u`
is `qt` — whatever `GetDefaultCategory(u)` answered before -/
theorem default_category_after_unit_registration (lg : List (Sym × Sym)) (r r' : Reg.Registry)
    (qt name u : Sym) (fb tb : Reg.Formula) (ci : CatRow)
    (hreg : Reg.addUnit r (.str qt) name (.str u) fb tb 0 = (r', .ok ()))
    (hnew : (dbOf lg r).unitBySym u = none) (hc : (dbOf lg r).catByName qt = some ci) :
    getDefaultCategory (dbOf lg r') u = .ok (some qt) := by
  simp only [Reg.addUnit, Reg.addInfo] at hreg
  split at hreg
  · cases hreg
  · rename_i info hmk
    split at hreg
    · cases hreg
    · split at hreg
      · cases hreg
      · simp only [Prod.mk.injEq, and_true] at hreg
        subst hreg
        have hinfo : info.qtype = qt ∧ info.sym = u ∧ info.defaultCat = 0 := by
          unfold Reg.mkInfo at hmk
          split at hmk
          · cases hmk
          · split at hmk
            · cases hmk
            · cases hmk; exact ⟨rfl, rfl, rfl⟩
        have hu' : (dbOf lg ⟨Reg.tlModify (· ++ [info]) (Reg.tlSetDefault r.types qt) qt,
            r.index ++ [(u, info)], r.cats⟩).unitBySym u = some info := by
          simp only [dbOf, Db.unitBySym, Reg.Registry.allRows] at hnew ⊢
          exact find_after_append _ info qt (by simp [hinfo.2.1]) r.types hnew
        have hc' : (dbOf lg ⟨Reg.tlModify (· ++ [info]) (Reg.tlSetDefault r.types qt) qt,
            r.index ++ [(u, info)], r.cats⟩).catByName qt = some ci := hc
        simp [getDefaultCategory, defaultCategoryRow, hu', rowDefaultCategory, hinfo.2.2, hinfo.1, hc']
/-- **the object built from a category alone (or from a quantity alone) does not depend on the history**:
after ANY history — registrations, questions, constructions, and in-place operations (`append`, `extend`,
item assignment, in-place numpy arithmetic) on the containers that earlier objects handed out — every
construction call gives what it gives on the database built by the registrations of that history alone.
In particular `Cls(c)` and `Cls(q)` are pure functions of (registry, class, category/quantity): an
earlier object's values never show up in a later one. -/
theorem categoryOnly_history_independent (lg : List (Sym × Sym)) (r : Reg.Registry) (ops : List HOp)
    (cls : Cls) (c : Atom) (q : Qty) (f : Call) :
    construct (dbOf lg (hrun lg r ops)) cls (.atom c) .none .none
      = construct (dbOf lg (Reg.run lg r (regsOf ops))) cls (.atom c) .none .none
    ∧ construct (dbOf lg (hrun lg r ops)) cls (.qty q) .none .none
      = construct (dbOf lg (Reg.run lg r (regsOf ops))) cls (.qty q) .none .none
    ∧ runCall (dbOf lg (hrun lg r ops)) f = runCall (dbOf lg (Reg.run lg r (regsOf ops))) f := by
  rw [hrun_eq_run]; exact ⟨rfl, rfl, rfl⟩

/-- **operating on a handed-out container changes that object only**: the step leaves the registry
alone, reports the object as built from the registry as it is, and two histories that differ only in
such steps (same registrations) answer every later step alike -/
theorem mutation_touches_only_its_object (lg : List (Sym × Sym)) (r : Reg.Registry) (c : Call) (ms : List Mut)
    (ops : List HOp) (q : HOp) :
    (hstep lg r (.mut c ms)).1 = r
    ∧ (∃ after, (hstep lg r (.mut c ms)).2 = .mut (runCall (dbOf lg r) c) after)
    ∧ (hstep lg (hrun lg r (ops ++ [.mut c ms])) q).2 = (hstep lg (hrun lg r ops) q).2 := by
  refine ⟨rfl, ⟨_, rfl⟩, ?_⟩
  rw [hrun_append]; rfl

/-- **the category alone equals (default value, default unit, category) in every reachable state**:
after ANY history (mutations of handed-out containers included), for a category `c` the registry
knows and whose default unit it accepts, `Array(c)` is `Array([], default_unit, c)` — the EMPTY list —
and `FixedArray(d, c)` is `FixedArray(d, [0.0] * d, default_unit, c)`, and they compare equal -/
theorem category_only_eq_default_in_every_reachable_state (lg : List (Sym × Sym)) (r : Reg.Registry)
    (ops : List HOp) {c : Sym} {ci : CatRow} {q : Qty} (f g : Option Rat) (d : Int) :
    let db := dbOf lg (Reg.run lg r (regsOf ops))
    db.catByName c = some ci → newQuantity db (.str c none) ci.defaultUnit = .ok q →
    let dbh := dbOf lg (hrun lg r ops)
    construct dbh .array (.atom (.str c f)) .none .none = .ok ⟨q, .arr (.seq .list [])⟩
    ∧ construct dbh .array (.seq .list []) (.atom (.str ci.defaultUnit g)) (.str c f) = .ok ⟨q, .arr (.seq .list [])⟩
    ∧ (2 ≤ d →
        construct dbh (.fixed d) (.atom (.str c f)) .none .none
          = .ok ⟨q, .fixed (.seq .list (List.replicate d.toNat (.num 0 false))) d⟩
        ∧ construct dbh (.fixed d) (.seq .list (List.replicate d.toNat (.num 0 false)))
            (.atom (.str ci.defaultUnit g)) (.str c f)
          = .ok ⟨q, .fixed (.seq .list (List.replicate d.toNat (.num 0 false))) d⟩) := by
  intro db hci hq dbh
  have : dbh = db := by simp only [dbh, db, hrun_eq_run]
  rw [this]
  have h := category_only_eq_default (db := db) f g hci hq
  exact ⟨h.2.2.1.1, h.2.2.1.2, fun hd => ⟨(h.2.2.2 d hd).1, (h.2.2.2 d hd).2⟩⟩

/-- **the forms agree in every reachable state**: after ANY history of registrations, questions and
(failed) constructions on a private database, if the registry now gives the unit `u` the default
category `c` and `Quantity(c, u)` exists, all Scalar forms build one object for every number (the
same holds for the other classes: the theorems above are stated for every database) -/
theorem forms_equal_in_every_reachable_state (lg : List (Sym × Sym)) (r : Reg.Registry) (ops : List HOp)
    {c u : Sym} {q : Qty} (f g : Option Rat) (v : Rat) (i kw : Bool) :
    let db := dbOf lg (Reg.run lg r (regsOf ops))
    getDefaultCategory db u = .ok (some c) → c ≠ 0 → newQuantity db (.str c none) u = .ok q →
    let dbh := dbOf lg (hrun lg r ops)
    let o : Obj := ⟨q, .scalar v⟩
    construct dbh .scalar (.atom (.num v i)) (.atom (.str u g)) .none = .ok o
    ∧ construct dbh .scalar (.atom (.num v i)) (.atom (.str u g)) (.str c f) = .ok o
    ∧ construct dbh .scalar (.atom (.str c f)) (.atom (.num v i)) (.str u g) = .ok o
    ∧ construct dbh .scalar (.seq .tuple [.num v i, .str u g]) .none .none = .ok o
    ∧ obtainQuantity dbh (.atom (.str u g)) (.str c f) = .ok q
    ∧ construct dbh .scalar (.qty q) (.atom (.num v i)) .none = .ok o
    ∧ createWithQuantity dbh .scalar q (.atom (.num v i)) kw none = .ok o
    ∧ Obj.eq o o = .ok true := by
  intro db hc hc0 hq dbh o
  have : dbh = db := by simp only [dbh, db, hrun_eq_run]
  rw [this]
  exact scalar_forms_equal f g v i kw hc hc0 hq

/-! ### non-vacuity: concrete instances on the default database -/

-- the default category of `m` is `length`, of `degF` it is `temperature`; a legacy spelling resolves
-- Scalar(2.5, 'm') = Scalar('length', 2.5, 'm') = Scalar((2.5, 'm')) (the documented example)
-- a category that shares the quantity type but is not the default one gives a different object
-- "Scalar('length', 1.0) is invalid", a unit of another quantity type is rejected, so is dimension 1
-- FixedArray: three forms, one object; a value of the wrong length is rejected
-- repr: a symbol with a quote is not read back; `m` is
-- `==`: 2 == 2.0 inside containers, list vs tuple; Array vs FixedArray is False in both directions
end Barril.Ctor
