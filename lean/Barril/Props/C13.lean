/-
C13 - Operations never mutate their operands; copies and pickles are equal.

Model: `Barril/Model/Heap.lean` (a heap of mutable cells: containers, `[unit, exp]` lists, Fraction and
FractionValue objects; value objects and quantities that refer to them; every public operation written
after its Python code with explicit allocation, sharing and in-place writes).

The theorems are about ALL states `s` (any heap, any pool, well formed or not), ALL databases, ALL operations
of the alphabet `Op` and ALL histories.
-/
import Barril.Proofs.HeapEval

namespace Barril.Heap
open Barril

/-! ## Frame theorems -/

/-- `op_frame`: one public operation (arithmetic, comparison, conversion, validation, formatting, copy,
pickle, indexing, construction) from ANY state: every cell allocated before the call is unchanged after it,
the heap only grows, and every quantity object and every pool member that existed is still the same
object.  The in-place writes of the code (`unit_exp[0] = …`, `unit_exp1[1] = …`, `fraction.numerator = …`,
`result.SetFraction`, `values[index] = …`) are all in the model; the theorem says they hit new cells only. -/
theorem op_frame (db : Db) (s : St) (op : Op) : Frame s.heap.length s (step db s op).1 := by
  unfold step
  cases h : exec db op s with
  | error e => exact Frame.refl _ _
  | ok p =>
    obtain ⟨o, s'⟩ := p
    exact ((exec_safe db op).run s o s' (Nat.le_refl _) h).1

/-- `op_frame`, cell by cell -/
theorem op_frame_cells (db : Db) (s : St) (op : Op) (r : Ref) (c : Cell) (h : s.heap[r]? = some c) :
    (step db s op).1.heap[r]? = some c :=
  (op_frame db s op).cell h

/-- quantities are never replaced or edited as objects -/
theorem op_frame_quants (db : Db) (s : St) (op : Op) (q : Nat) (o : QObj) (h : s.quants[q]? = some o) :
    (step db s op).1.quants[q]? = some o :=
  (op_frame db s op).quant h

/-- pool members are never replaced: results are NEW pool entries -/
theorem op_frame_objs (db : Db) (s : St) (op : Op) (i : Nat) (o : Obj) (h : s.objs[i]? = some o) :
    (step db s op).1.objs[i]? = some o :=
  (op_frame db s op).obj h

/-- a failed operation leaves no trace at all -/
theorem failed_op_no_trace (db : Db) (s : St) (op : Op) (e : ErrKind) (h : (step db s op).2 = .error e) :
    (step db s op).1 = s := by
  unfold step at *
  split <;> simp_all

/-- the frame property for whole histories (induction over the history) -/
theorem history_frame (db : Db) (ops : List Op) (s : St) : Frame s.heap.length s (run db s ops) := by
  induction ops generalizing s with
  | nil => exact Frame.refl _ _
  | cons op ops ih =>
    have h1 := op_frame db s op
    exact h1.trans ((ih (step db s op).1).mono h1.len)

/-! ## Snapshots: value(s), unit, category, dimension, container identity and contents -/

/-- every pool member's snapshot (its value or container kind/identity/contents, the `[unit, exp]` lists of
its quantity as they are now, caption, derived flag, cached unit strings, dimension, FractionValue number
and fraction) is the same after any operation -/
theorem op_snap_stable (db : Db) (s : St) (op : Op) (i : Nat) (v : Snap) (h : snap s i = some v) :
    snap (step db s op).1 i = some v :=
  snap_stable (op_frame db s op) h

/-- ... and after any sequence of operations: the quantifier of C13 -/
theorem history_snap_stable (db : Db) (ops : List Op) (s : St) (i : Nat) (v : Snap) (h : snap s i = some v) :
    snap (run db s ops) i = some v :=
  snap_stable (history_frame db ops s) h

/-- stepwise form: at every prefix of a history every earlier snapshot still holds -/
theorem history_snap_stable_prefix (db : Db) (ops1 ops2 : List Op) (s : St) (i : Nat) (v : Snap)
    (h : snap (run db s ops1) i = some v) : snap (run db (run db s ops1) ops2) i = some v :=
  history_snap_stable db ops2 _ i v h

end Barril.Heap
