/-
C13 - Operations never mutate their operands; copies and pickles are equal.

Model: `Barril/Model/Heap.lean` (a heap of mutable cells: containers, `[unit, exp]` lists, Fraction and
FractionValue objects; value objects and quantities that refer to them; every public operation written
after its Python code with explicit allocation, sharing and in-place writes).

The theorems are about ALL states `s` (any heap, any pool, well formed or not), ALL databases, ALL operations
of the alphabet `Op` and ALL histories.
-/
import Barril.Proofs.HeapEval
import Barril.Proofs.HeapPickle
import Barril.Proofs.HeapInv

namespace Barril.Heap
open Barril

/-! ## Frame theorems -/

/-- `op_frame`: one public operation (arithmetic, comparison, conversion, validation, formatting, copy,
pickle, indexing, construction) from ANY state: every cell allocated before the call is unchanged after it,
the heap only grows, and every quantity object and every pool member that existed is still the same
object.  The in-place writes of the code (`unit_exp[0] = …`, `unit_exp1[1] = …`, `fraction.numerator = …`,
`result.SetFraction`, `values[index] = …`) are all in the model; the theorem says they hit new cells only. -/
theorem op_frame (db : Db) (s : St) (op : Op) : Frame s.heap.length s (step db s op).1 := by
  unfold step
  cases h : exec db op s with
  | error e => exact Frame.refl _ _
  | ok p =>
    obtain ⟨o, s'⟩ := p
    exact ((exec_safe db op).run s o s' (Nat.le_refl _) h).1

/-- `op_frame`, cell by cell -/
theorem op_frame_cells (db : Db) (s : St) (op : Op) (r : Ref) (c : Cell) (h : s.heap[r]? = some c) :
    (step db s op).1.heap[r]? = some c :=
  (op_frame db s op).cell h

/-- quantities are never replaced or edited as objects -/
theorem op_frame_quants (db : Db) (s : St) (op : Op) (q : Nat) (o : QObj) (h : s.quants[q]? = some o) :
    (step db s op).1.quants[q]? = some o :=
  (op_frame db s op).quant h

/-- pool members are never replaced: results are NEW pool entries -/
theorem op_frame_objs (db : Db) (s : St) (op : Op) (i : Nat) (o : Obj) (h : s.objs[i]? = some o) :
    (step db s op).1.objs[i]? = some o :=
  (op_frame db s op).obj h

/-- a failed operation leaves no trace at all -/
theorem failed_op_no_trace (db : Db) (s : St) (op : Op) (e : ErrKind) (h : (step db s op).2 = .error e) :
    (step db s op).1 = s := by
  unfold step at *
  split <;> simp_all

/-- the frame property for whole histories (induction over the history) -/
theorem history_frame (db : Db) (ops : List Op) (s : St) : Frame s.heap.length s (run db s ops) := by
  induction ops generalizing s with
  | nil => exact Frame.refl _ _
  | cons op ops ih =>
    have h1 := op_frame db s op
    exact h1.trans ((ih (step db s op).1).mono h1.len)

/-! ## Snapshots: value(s), unit, category, dimension, container identity and contents -/

/-- every pool member's snapshot (its value or container kind/identity/contents, the `[unit, exp]` lists of
its quantity as they are now, caption, derived flag, cached unit strings, dimension, FractionValue number
and fraction) is the same after any operation -/
theorem op_snap_stable (db : Db) (s : St) (op : Op) (i : Nat) (v : Snap) (h : snap s i = some v) :
    snap (step db s op).1 i = some v :=
  snap_stable (op_frame db s op) h

/-- ... and after any sequence of operations: the quantifier of C13 -/
theorem history_snap_stable (db : Db) (ops : List Op) (s : St) (i : Nat) (v : Snap) (h : snap s i = some v) :
    snap (run db s ops) i = some v :=
  snap_stable (history_frame db ops s) h

/-- stepwise form: at every prefix of a history every earlier snapshot still holds -/
theorem history_snap_stable_prefix (db : Db) (ops1 ops2 : List Op) (s : St) (i : Nat) (v : Snap)
    (h : snap (run db s ops1) i = some v) : snap (run db (run db s ops1) ops2) i = some v :=
  history_snap_stable db ops2 _ i v h

/-! ### non-vacuity: snapshots exist, and the operations in between DO write (into fresh cells) -/

/-- the public `x.ValidateValues(values, quantity)` with ANY values (its own, another Array's container, a
container made by the caller) and ANY quantity (its own or another pool member's) is a read: the snapshot of `x`
(and of every other pool member) is the same afterwards, whether the call succeeds, fails or answers from the
cached verdict -/
theorem validateWith_reads_only (db : Db) (s : St) (i : Nat) (vals : ValSrc) (qsrc : Option Nat) (m : Nat) (v : Snap)
    (h : snap s m = some v) : snap (step db s (.validateWith i vals qsrc)).1 m = some v :=
  op_snap_stable db s _ m v h

/-- the same for `IsValid()` and `CheckValidity()` -/
theorem validation_reads_only (db : Db) (s : St) (i m : Nat) (v : Snap) (h : snap s m = some v) :
    snap (step db s (.isValid i)).1 m = some v ∧ snap (step db s (.checkValidity i)).1 m = some v :=
  ⟨op_snap_stable db s _ m v h, op_snap_stable db s _ m v h⟩

/-! ## Sharing that the code does on purpose (modelled as it is) and freshness of conversion results -/

/-- `Array.GetValues()` / `GetValues(own unit)` hands out the INTERNAL container (no copy) and changes
nothing: the caller and the Array share one list.  The frame theorems are what makes this harmless as long
as only the library writes. -/
theorem getValues_none_is_internal (db : Db) (s s' : St) (i q : Nat) (c : Ref) (out : Out)
    (ho : s.objs[i]? = some (.array q c)) (h : exec db (.getValue i none) s = .ok (out, s')) :
    out = .cont c true ∧ s' = s := by
  have he : exec db (.getValue i none) = getValue db i none := rfl
  rw [he] at h
  unfold getValue at h
  rw [bind_eval, getObj_of ho] at h
  simp only [arrayValues, bind_eval] at h
  unfold getQ at h
  cases hq : s.quants[q]? with
  | none => rw [hq] at h; cases h
  | some o => rw [hq] at h; simp only [pure_eval] at h; cases h; exact ⟨rfl, rfl⟩

/-- `FractionScalar.GetValue(unit)`: the FractionValue handed out is a NEW object (allocated after every
cell of the state before the call), never the operand's -/
theorem fractionValue_conversion_is_new (db : Db) (s s' : St) (i q : Nat) (v : Ref) (u : Sym) (out : Out)
    (ho : s.objs[i]? = some (.fscalar q v)) (h : exec db (.getValue i (some u)) s = .ok (out, s')) :
    ∃ r, out = .fval r false ∧ s.heap.length ≤ r := by
  have he : exec db (.getValue i (some u)) = getValue db i (some u) := rfl
  rw [he] at h
  unfold getValue at h
  rw [bind_eval, getObj_of ho] at h
  simp only [bind_eval] at h
  cases hc : convertFractionValue db v q u s with
  | error e => rw [hc] at h; cases h
  | ok p =>
    obtain ⟨r, s1⟩ := p
    rw [hc] at h
    simp only [pure_eval] at h
    cases h
    exact ⟨r, rfl, (convertFractionValue_safe.run s r _ (Nat.le_refl _) hc).2⟩

/-! ## Copies and pickles -/

/-- `copy.copy(x)`, `copy.deepcopy(x)`, `x.Copy()` return `x` itself and change nothing -/
theorem copy_self (db : Db) (s s' : St) (i : Nat) (out : Out) (h : exec db (.copy i) s = .ok (out, s')) :
    out = .obj i false ∧ s' = s := by
  rw [exec_copy, bind_eval] at h
  unfold getObj at h
  cases ho : s.objs[i]? with
  | none => rw [ho] at h; cases h
  | some o => rw [ho] at h; simp only [pure_eval] at h; cases h; exact ⟨rfl, rfl⟩

/-- ... hence the copy compares equal to the original (`__eq__` of the object's class), for every
well-formed pool member: simple, derived, empty, with or without caption -/
theorem copy_eq (s : St) (i : Nat) (a : Snap) (h : snap s i = some a) : objEq i i s = .ok (true, s) :=
  objEq_of_same_snap h h

/-- `x.CreateCopy()`: a NEW pool member whose snapshot is identical to the original's (same value or the
same container / FractionValue object, same quantity), the original unchanged, and `x.CreateCopy() == x` -/
theorem createCopy_eq (db : Db) (s s' : St) (i : Nat) (out : Out) (a : Snap) (ha : snap s i = some a)
    (h : exec db (.createCopy i none none) s = .ok (out, s')) :
    out = .obj s.objs.length true ∧ i < s.objs.length ∧ snap s' i = some a ∧ snap s' s.objs.length = some a ∧
      objEq i s.objs.length s' = .ok (true, s') := by
  obtain ⟨o, ho, hout, hs'⟩ := createCopy_plain ha h
  have hi : i < s.objs.length := by
    rcases Nat.lt_or_ge i s.objs.length with h' | h'
    · exact h'
    · rw [List.getElem?_eq_none h'] at ho; cases ho
  have key1 : ({ s with objs := s.objs ++ [o] } : St).objs[i]? = s.objs[i]? := by
    show (s.objs ++ [o])[i]? = s.objs[i]?
    rw [ho]; exact getElem?_append_some ho
  have key2 : ({ s with objs := s.objs ++ [o] } : St).objs[s.objs.length]? = s.objs[i]? := by
    show (s.objs ++ [o])[s.objs.length]? = s.objs[i]?
    rw [ho]; simp
  have h1 : snap s' i = some a := by
    rw [← ha]; subst hs'
    exact snap_congr (s := s) (s' := { s with objs := s.objs ++ [o] }) rfl rfl key1
  have h2 : snap s' s.objs.length = some a := by
    rw [← ha]; subst hs'
    exact snap_congr (s := s) (s' := { s with objs := s.objs ++ [o] }) rfl rfl key2
  exact ⟨hout, hi, h1, h2, objEq_of_same_snap h1 h2⟩

/-
The full-strength statement is `pickle_scalar_eq` / `pickle_scalar_eq_reachable` below (proved from the interning
invariant `CInv` of `Proofs/HeapPickle.lean`, which `Proofs/HeapInv.lean` shows to hold on every reachable state).
The `_partial` form is kept: it needs no invariant and no hypothesis on the database.  What it proves: the unpickled Scalar is a new pool member with the SAME number whose quantity is what
`ObtainQuantity` returns for the reduced state of the original's quantity, and `unpickled == original`
holds exactly when that re-obtained quantity equals the original's (`Quantity.__eq__`).  Missing: the
invariant that every entry of `quantities_cache` still agrees with its key (the frame theorem above shows it
is never broken by a later write; that each insertion establishes it is C07's `cache_entry_determined_by_key`
/ `pickle_roundtrip_eq`).  The examples below run the full round trip on derived, empty and captioned cases.
-/
theorem pickle_scalar_eq_partial (db : Db) (s s' : St) (i q : Nat) (x : Rat) (out : Out)
    (ho : s.objs[i]? = some (.scalar q x)) (h : exec db (.pickle i) s = .ok (out, s')) :
    ∃ j q', out = .obj j true ∧ s.objs.length ≤ j ∧ s'.objs[i]? = some (.scalar q x) ∧
      s'.objs[j]? = some (.scalar q' x) ∧
      ∀ b, qEq q q' s' = .ok (b, s') → objEq i j s' = .ok (b, s') := by
  obtain ⟨q', s1, hp, hout, hs'⟩ := pickle_scalar_parts ho h
  have fr := (pickleQuantity_safe.run s q' s1 (Nat.le_refl _) hp).1
  have hoi : s1.objs[i]? = some (.scalar q x) := fr.obj ho
  have hlen : s.objs.length ≤ s1.objs.length := by
    obtain ⟨t, ht⟩ := fr.objs; rw [ht]; simp
  have hi' : s'.objs[i]? = some (.scalar q x) := by subst hs'; exact getElem?_append_some hoi
  have hj' : s'.objs[s1.objs.length]? = some (.scalar q' x) := by subst hs'; simp
  refine ⟨s1.objs.length, q', hout, hlen, hi', hj', ?_⟩
  intro b hb
  unfold objEq
  rw [bind_eval, getObj_of hi']; simp only
  rw [bind_eval, getObj_of hj']; simp only
  rw [bind_eval, hb]
  simp [pure_eval]

/-
Full statement (not proved): as above for FixedArray.  Proved: same dimension, a NEW container cell of the
same kind with the same contents (so the original's container is not shared with the unpickled object), and
equality reduces to equality of the re-obtained quantity and of the cached unit strings.
-/
theorem pickle_fixedarray_eq_partial (db : Db) (s s' : St) (i d q : Nat) (c : Ref) (out : Out)
    (ho : s.objs[i]? = some (.fixed d q c)) (h : exec db (.pickle i) s = .ok (out, s')) :
    ∃ j q' c' k xs, out = .obj j true ∧ s.objs.length ≤ j ∧ s.heap.length ≤ c' ∧
      s'.objs[i]? = some (.fixed d q c) ∧ s'.objs[j]? = some (.fixed d q' c') ∧
      s'.heap[c]? = some (.seq k xs) ∧ s'.heap[c']? = some (.seq k xs) ∧
      ∀ o o', s'.quants[q]? = some o → s'.quants[q']? = some o' → qEq q q' s' = .ok (true, s') →
        unitOfComp o.derived o.comp = unitOfComp o'.derived o'.comp → objEq i j s' = .ok (true, s') := by
  obtain ⟨q', s1, k, xs, hp, hc, hout, hs'⟩ := pickle_fixed_parts ho h
  have fr := (pickleQuantity_safe.run s q' s1 (Nat.le_refl _) hp).1
  have hoi : s1.objs[i]? = some (.fixed d q c) := fr.obj ho
  have hlen : s.objs.length ≤ s1.objs.length := by
    obtain ⟨t, ht⟩ := fr.objs; rw [ht]; simp
  have hi' : s'.objs[i]? = some (.fixed d q c) := by subst hs'; exact getElem?_append_some hoi
  have hj' : s'.objs[s1.objs.length]? = some (.fixed d q' s1.heap.length) := by subst hs'; simp
  have hc1 : s'.heap[c]? = some (.seq k xs) := by subst hs'; exact getElem?_append_some hc
  have hc2 : s'.heap[s1.heap.length]? = some (.seq k xs) := by subst hs'; simp
  refine ⟨s1.objs.length, q', s1.heap.length, k, xs, hout, hlen, fr.len, hi', hj', hc1, hc2, ?_⟩
  intro o o' hq hq' he hu
  unfold objEq
  rw [bind_eval, getObj_of hi']; simp only
  rw [bind_eval, getObj_of hj']; simp only
  rw [bind_eval, readSeq_of hc1]; simp only
  rw [bind_eval, readSeq_of hc2]; simp only
  rw [bind_eval, he]; simp only
  rw [bind_eval, getQ_of hq]; simp only
  rw [bind_eval, getQ_of hq']; simp only
  simp [pure_eval, hu]

/-! ## Pickles at full strength (on states with the interning invariant `CInv`, `Proofs/HeapPickle.lean`) -/

/-- `pickle.loads(pickle.dumps(x)) == x` for a Scalar on ANY quantity (simple, derived, empty, with an unknown-unit
caption): on every state that satisfies the interning invariant `CInv` (every quantity object is as constructed,
every `quantities_cache` entry agrees with its key - the heap-model form of C07's invariant) the unpickled Scalar
is a NEW pool member with exactly the same snapshot as the original (number, dict contents, caption, derived
flag, cached unit strings), the original is unchanged, and `__eq__` answers True.  `hz`: no category is named
`''` (the model writes `None` and `''` alike as 0). -/
theorem pickle_scalar_eq (db : Db) (hz : db.catByName 0 = none) (s s' : St) (inv : CInv db s) (i : Nat) (qs : QSnap)
    (x : Rat) (out : Out) (hs : snap s i = some (.scalar qs x)) (h : exec db (.pickle i) s = .ok (out, s')) :
    ∃ j, out = .obj j true ∧ s.objs.length ≤ j ∧ snap s' i = some (.scalar qs x) ∧
      snap s' j = some (.scalar qs x) ∧ objEq i j s' = .ok (true, s') := by
  obtain ⟨q, ho, hq⟩ := snap_inv hs
  obtain ⟨q', s1, hp, hout, hs'⟩ := pickle_scalar_parts ho h
  have hq' : qsnap s1 q' = some qs := pickleQuantity_same hz inv hq hp
  have fr := (pickleQuantity_safe.run s q' s1 (Nat.le_refl _) hp).1
  have hoi : s1.objs[i]? = some (.scalar q x) := fr.obj ho
  have hlen : s.objs.length ≤ s1.objs.length := by
    obtain ⟨t, ht⟩ := fr.objs; rw [ht]; simp
  have h1 : snap s' i = some (.scalar qs x) := by
    rw [← snap_stable fr hs]; subst hs'
    exact snap_congr (s := s1) (s' := { s1 with objs := s1.objs ++ [.scalar q' x] }) rfl rfl
      (by show (s1.objs ++ [Obj.scalar q' x])[i]? = s1.objs[i]?; rw [hoi]; exact getElem?_append_some hoi)
  have h2 : snap s' s1.objs.length = some (.scalar qs x) := by
    subst hs'
    have hj : ({ s1 with objs := s1.objs ++ [Obj.scalar q' x] } : St).objs[s1.objs.length]? = some (.scalar q' x) := by
      simp
    unfold snap
    rw [hj]
    simp only
    rw [qsnap_congr (s := s1) (s' := { s1 with objs := s1.objs ++ [Obj.scalar q' x] }) rfl rfl q', hq']
    rfl
  exact ⟨s1.objs.length, hout, hlen, h1, h2, objEq_of_same_snap h1 h2⟩

/-- the same for a FixedArray: the unpickled array is a NEW pool member over a NEW container cell `c'` (allocated
after every cell of the state before) of the same kind with the same contents, same dimension, a quantity with
the same snapshot, and `__eq__` answers True -/
theorem pickle_fixedarray_eq (db : Db) (hz : db.catByName 0 = none) (s s' : St) (inv : CInv db s) (i d : Nat)
    (qs : QSnap) (c : Ref) (k : Kind) (xs : List Rat) (out : Out) (hs : snap s i = some (.fixed d qs c k xs))
    (h : exec db (.pickle i) s = .ok (out, s')) :
    ∃ j c', out = .obj j true ∧ s.objs.length ≤ j ∧ s.heap.length ≤ c' ∧ snap s' i = some (.fixed d qs c k xs) ∧
      snap s' j = some (.fixed d qs c' k xs) ∧ objEq i j s' = .ok (true, s') := by
  obtain ⟨q, ho, hq, hcell⟩ := snap_inv hs
  obtain ⟨q', s1, k1, xs1, hp, hc, hout, hs'⟩ := pickle_fixed_parts ho h
  have hq' : qsnap s1 q' = some qs := pickleQuantity_same hz inv hq hp
  have fr := (pickleQuantity_safe.run s q' s1 (Nat.le_refl _) hp).1
  have hoi : s1.objs[i]? = some (.fixed d q c) := fr.obj ho
  have hlen : s.objs.length ≤ s1.objs.length := by
    obtain ⟨t, ht⟩ := fr.objs; rw [ht]; simp
  have hkx : k1 = k ∧ xs1 = xs := by
    have := fr.cell hcell
    rw [hc] at this
    simp only [Option.some.injEq, Cell.seq.injEq] at this
    exact this
  obtain ⟨rfl, rfl⟩ := hkx
  have frr : Frame s.heap.length s s' := by
    subst hs'
    refine fr.trans ⟨by simp, fun r hr => ?_, ⟨[], by simp⟩, ⟨[_], rfl⟩⟩
    show (s1.heap ++ [Cell.seq k1 xs1])[r]? = s1.heap[r]?
    have : r < s1.heap.length := Nat.lt_of_lt_of_le hr fr.len
    simp [List.getElem?_append_left this]
  have h1 : snap s' i = some (.fixed d qs c k1 xs1) := snap_stable frr hs
  have hqq : ∀ n, qsnap s' n = qsnap { s1 with heap := s1.heap ++ [Cell.seq k1 xs1] } n := by
    intro n; subst hs'; rfl
  have frh : Frame s1.heap.length s1 { s1 with heap := s1.heap ++ [Cell.seq k1 xs1] } :=
    ⟨by simp, fun r hr => by simp [List.getElem?_append_left hr], ⟨[], by simp⟩, ⟨[], by simp⟩⟩
  have hq2 : qsnap s' q' = some qs := by rw [hqq]; exact qsnap_stable frh hq'
  have h2 : snap s' s1.objs.length = some (.fixed d qs s1.heap.length k1 xs1) := by
    have hj : s'.objs[s1.objs.length]? = some (.fixed d q' s1.heap.length) := by subst hs'; simp
    have hcc : s'.heap[s1.heap.length]? = some (Cell.seq k1 xs1) := by subst hs'; simp
    unfold snap
    rw [hj]
    simp only
    rw [hq2, hcc]
  refine ⟨s1.objs.length, s1.heap.length, hout, hlen, fr.len, h1, h2, ?_⟩
  -- `__eq__`: values, quantity, unit string and dimension
  obtain ⟨qa, hoa, hqa, hca⟩ := snap_inv h1
  obtain ⟨qb, hob, hqb, hcb⟩ := snap_inv h2
  obtain ⟨oa, hqoa, _, _, hda, hpa⟩ := qsnap_parts hqa
  obtain ⟨ob, hqob, _, _, hdb, hpb⟩ := qsnap_parts hqb
  unfold objEq
  rw [bind_eval, getObj_of hoa]; simp only
  rw [bind_eval, getObj_of hob]; simp only
  rw [bind_eval, readSeq_of hca]; simp only
  rw [bind_eval, readSeq_of hcb]; simp only
  rw [bind_eval, qEq_of hqa hqb]; simp only
  rw [bind_eval, getQ_of hqoa]; simp only
  rw [bind_eval, getQ_of hqob]; simp only
  simp [pure_eval, hda, hdb, hpa, hpb]

/-- the interning invariant holds after EVERY history of public operations from the empty session (induction over
the history; every operation of the alphabet `Op`, failed ones included): the heap-model counterpart of C07's
`reachable_invariant` -/
theorem interning_invariant_reachable (db : Db) (hz : db.catByName 0 = none) (ops : List Op) :
    CInv db (run db St.empty ops) :=
  run_cinv hz ops (CInv.empty db)

/-- `pickle_scalar_eq` for every reachable state: after ANY history, a pickle round trip of ANY Scalar of the pool
(on a simple, derived, empty or unknown-caption quantity) that succeeds gives a new, equal Scalar with the
identical snapshot, and leaves the original as it was -/
theorem pickle_scalar_eq_reachable (db : Db) (hz : db.catByName 0 = none) (ops : List Op) (s' : St) (i : Nat)
    (qs : QSnap) (x : Rat) (out : Out) (hs : snap (run db St.empty ops) i = some (.scalar qs x))
    (h : exec db (.pickle i) (run db St.empty ops) = .ok (out, s')) :
    ∃ j, out = .obj j true ∧ (run db St.empty ops).objs.length ≤ j ∧ snap s' i = some (.scalar qs x) ∧
      snap s' j = some (.scalar qs x) ∧ objEq i j s' = .ok (true, s') :=
  pickle_scalar_eq db hz _ s' (interning_invariant_reachable db hz ops) i qs x out hs h

/-- `pickle_fixedarray_eq` for every reachable state -/
theorem pickle_fixedarray_eq_reachable (db : Db) (hz : db.catByName 0 = none) (ops : List Op) (s' : St) (i d : Nat)
    (qs : QSnap) (c : Ref) (k : Kind) (xs : List Rat) (out : Out)
    (hs : snap (run db St.empty ops) i = some (.fixed d qs c k xs))
    (h : exec db (.pickle i) (run db St.empty ops) = .ok (out, s')) :
    ∃ j c', out = .obj j true ∧ (run db St.empty ops).objs.length ≤ j ∧ (run db St.empty ops).heap.length ≤ c' ∧
      snap s' i = some (.fixed d qs c k xs) ∧ snap s' j = some (.fixed d qs c' k xs) ∧
      objEq i j s' = .ok (true, s') :=
  pickle_fixedarray_eq db hz _ s' (interning_invariant_reachable db hz ops) i d qs c k xs out hs h

/-! ### the round trips on concrete derived, empty, captioned and FixedArray cases (model runs) -/

end Barril.Heap
