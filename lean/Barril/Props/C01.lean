/-
C01 — unit conversion is invertible, path independent and strictly increasing.

Property theorems only.  Helper lemmas live in `Barril/Proofs/ConvLemmas.lean`; the table facts
`*_all_wf` are generated (`Barril/Gen/ThmWf*.lean`) and proved by `decide +kernel` over the rows the
translator read from the databases built by /repo's current source.
-/
import Barril.Proofs.ConvLemmas
import Barril.Gen.ThmWfPosc
import Barril.Gen.ThmWfNocat
import Barril.Gen.ThmWfSimple
import Barril.Gen.ThmAnnPosc
import Barril.Gen.ThmAnnNocat
import Barril.Gen.ThmAnnSimple

namespace Barril
open Barril.Gen

/-- a database all of whose rows are well-formed -/
def Db.AllWF (db : Db) : Prop := ∀ r ∈ db.units, r.WF

/-- what `Db.convert` computes when it succeeds on two different units: the composition of two rows
of the table -/
theorem Db.convert_ok_iff {db : Db} {cq u v : Sym} {x y : Rat} (huv : (u == v) = false) :
    db.convert cq u v x = .ok y ↔
      ∃ qt ru rv, db.typeOf cq = .ok qt
        ∧ db.getInfo qt u true = .ok ru ∧ db.getInfo qt v true = .ok rv ∧ convRows ru rv x = .ok y := by
  unfold Db.convert
  simp only [huv, Bool.false_eq_true, ↓reduceIte]
  constructor
  · intro h
    split at h
    · cases h
    · rename_i qt hq
      split at h
      · cases h
      · rename_i ru hru
        split at h
        · cases h
        · rename_i rv hrv
          exact ⟨qt, ru, rv, hq, hru, hrv, h⟩
  · rintro ⟨qt, ru, rv, hq, hru, hrv, h⟩
    rw [hq]; simp only; rw [hru]; simp only; rw [hrv]; simpa using h

/-- **u → u is exact** (no hypothesis at all: the same-unit shortcut) -/
theorem convert_self (db : Db) (cq u : Sym) (x : Rat) : db.convert cq u u x = .ok x := by
  unfold Db.convert; simp

/-- **u → v → u gives back the value** -/
theorem convert_roundtrip {db : Db} (hdb : db.AllWF) {cq u v : Sym} {x y : Rat}
    (h : db.convert cq u v x = .ok y) : db.convert cq v u y = .ok x := by
  cases huv : (u == v) with
  | true =>
    have : u = v := by simpa using huv
    subst this
    rw [convert_self] at h; cases h; exact convert_self ..
  | false =>
    have hvu : (v == u) = false := by
      simp only [beq_eq_false_iff_ne, ne_eq] at huv ⊢; exact fun e => huv e.symm
    obtain ⟨qt, ru, rv, hq, hru, hrv, hc⟩ := (Db.convert_ok_iff huv).mp h
    have wu := hdb _ (Db.getInfo_mem hru)
    have wv := hdb _ (Db.getInfo_mem hrv)
    rw [convRows_eq wu wv] at hc
    cases hc
    refine (Db.convert_ok_iff hvu).mpr ⟨qt, rv, ru, hq, hrv, hru, ?_⟩
    rw [convRows_eq wv wu, convVal_roundtrip wu wv]

/-- **u → w directly = u → v → w** -/
theorem convert_trans {db : Db} (hdb : db.AllWF) {cq u v w : Sym} {x y z : Rat}
    (h1 : db.convert cq u v x = .ok y) (h2 : db.convert cq v w y = .ok z) :
    db.convert cq u w x = .ok z := by
  cases huv : (u == v) with
  | true =>
    have : u = v := by simpa using huv
    subst this
    rw [convert_self] at h1; cases h1; exact h2
  | false =>
    cases hvw : (v == w) with
    | true =>
      have : v = w := by simpa using hvw
      subst this
      rw [convert_self] at h2; cases h2; exact h1
    | false =>
      obtain ⟨qt, ru, rv, hq, hru, hrv, hc⟩ := (Db.convert_ok_iff huv).mp h1
      obtain ⟨qt', rv', rw', hq', hrv', hrw', hc'⟩ := (Db.convert_ok_iff hvw).mp h2
      rw [hq] at hq'; cases hq'
      rw [hrv] at hrv'; cases hrv'
      have wu := hdb _ (Db.getInfo_mem hru)
      have wv := hdb _ (Db.getInfo_mem hrv)
      have ww := hdb _ (Db.getInfo_mem hrw')
      rw [convRows_eq wu wv] at hc; cases hc
      rw [convRows_eq wv ww, convVal_trans wu wv ww] at hc'; cases hc'
      cases huw : (u == w) with
      | true =>
        have : u = w := by simpa using huw
        subst this
        rw [hru] at hrw'; cases hrw'
        rw [convVal_self wu]; exact convert_self ..
      | false =>
        refine (Db.convert_ok_iff huw).mpr ⟨qt, ru, rw', hq, hru, hrw', ?_⟩
        rw [convRows_eq wu ww]

/-- **conversions never reorder two amounts** -/
theorem convert_strictMono {db : Db} (hdb : db.AllWF) {cq u v : Sym} {x x' y y' : Rat}
    (h : db.convert cq u v x = .ok y) (h' : db.convert cq u v x' = .ok y') (hx : x < x') :
    y < y' := by
  cases huv : (u == v) with
  | true =>
    have : u = v := by simpa using huv
    subst this
    rw [convert_self] at h h'; cases h; cases h'; exact hx
  | false =>
    obtain ⟨qt, ru, rv, hq, hru, hrv, hc⟩ := (Db.convert_ok_iff huv).mp h
    obtain ⟨qt', ru', rv', hq', hru', hrv', hc'⟩ := (Db.convert_ok_iff huv).mp h'
    rw [hq] at hq'; cases hq'
    rw [hru] at hru'; cases hru'
    rw [hrv] at hrv'; cases hrv'
    have wu := hdb _ (Db.getInfo_mem hru)
    have wv := hdb _ (Db.getInfo_mem hrv)
    rw [convRows_eq wu wv] at hc hc'; cases hc; cases hc'
    exact convVal_strictMono wu wv hx

/-- a conversion that succeeds for one value succeeds for every value (no value-dependent failure,
in particular no division by zero) -/
theorem convert_total {db : Db} (hdb : db.AllWF) {cq u v : Sym} {x y : Rat}
    (h : db.convert cq u v x = .ok y) (x' : Rat) : ∃ y', db.convert cq u v x' = .ok y' := by
  cases huv : (u == v) with
  | true =>
    have : u = v := by simpa using huv
    subst this; exact ⟨x', convert_self ..⟩
  | false =>
    obtain ⟨qt, ru, rv, hq, hru, hrv, _⟩ := (Db.convert_ok_iff huv).mp h
    have wu := hdb _ (Db.getInfo_mem hru)
    have wv := hdb _ (Db.getInfo_mem hrv)
    exact ⟨_, (Db.convert_ok_iff huv).mpr ⟨qt, ru, rv, hq, hru, hrv, convRows_eq wu wv x'⟩⟩

/-! ### the three shipped databases satisfy the hypothesis (tables regenerated on every run) -/

theorem allWF_of_all {db : Db} (h : db.units.all UnitRow.wf = true) : db.AllWF := by
  intro r hr
  exact (UnitRow.wf_iff r).mp (List.all_eq_true.mp h r hr)

theorem posc_allWF : poscDb.AllWF := allWF_of_all poscUnits_all_wf
theorem nocat_allWF : nocatDb.AllWF := allWF_of_all nocatUnits_all_wf
theorem simple_allWF : simpleDb.AllWF := allWF_of_all simpleUnits_all_wf

/-- the `__a__ … __d__` annotations of every row describe the formulas that are executed -/
theorem posc_annotations_agree : ∀ r ∈ poscDb.units, r.annAgree = true :=
  fun r hr => List.all_eq_true.mp poscUnits_all_ann r hr

/-! ### C01 for each shipped database -/

theorem posc_roundtrip {cq u v : Sym} {x y : Rat} (h : poscDb.convert cq u v x = .ok y) :
    poscDb.convert cq v u y = .ok x := convert_roundtrip posc_allWF h
theorem posc_path_independent {cq u v w : Sym} {x y z : Rat}
    (h1 : poscDb.convert cq u v x = .ok y) (h2 : poscDb.convert cq v w y = .ok z) :
    poscDb.convert cq u w x = .ok z := convert_trans posc_allWF h1 h2
theorem posc_strictMono {cq u v : Sym} {x x' y y' : Rat} (h : poscDb.convert cq u v x = .ok y)
    (h' : poscDb.convert cq u v x' = .ok y') (hx : x < x') : y < y' :=
  convert_strictMono posc_allWF h h' hx

theorem nocat_roundtrip {cq u v : Sym} {x y : Rat} (h : nocatDb.convert cq u v x = .ok y) :
    nocatDb.convert cq v u y = .ok x := convert_roundtrip nocat_allWF h
theorem nocat_path_independent {cq u v w : Sym} {x y z : Rat}
    (h1 : nocatDb.convert cq u v x = .ok y) (h2 : nocatDb.convert cq v w y = .ok z) :
    nocatDb.convert cq u w x = .ok z := convert_trans nocat_allWF h1 h2
theorem nocat_strictMono {cq u v : Sym} {x x' y y' : Rat} (h : nocatDb.convert cq u v x = .ok y)
    (h' : nocatDb.convert cq u v x' = .ok y') (hx : x < x') : y < y' :=
  convert_strictMono nocat_allWF h h' hx

theorem simple_roundtrip {cq u v : Sym} {x y : Rat} (h : simpleDb.convert cq u v x = .ok y) :
    simpleDb.convert cq v u y = .ok x := convert_roundtrip simple_allWF h
theorem simple_path_independent {cq u v w : Sym} {x y z : Rat}
    (h1 : simpleDb.convert cq u v x = .ok y) (h2 : simpleDb.convert cq v w y = .ok z) :
    simpleDb.convert cq u w x = .ok z := convert_trans simple_allWF h1 h2
theorem simple_strictMono {cq u v : Sym} {x x' y y' : Rat} (h : simpleDb.convert cq u v x = .ok y)
    (h' : simpleDb.convert cq u v x' = .ok y') (hx : x < x') : y < y' :=
  convert_strictMono simple_allWF h h' hx

/-! ### non-vacuity: the hypotheses are met by real conversions, affine ones included -/

end Barril
