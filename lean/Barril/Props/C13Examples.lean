/- Non-vacuity examples of C13 (moved out of Props/C13.lean by tools/split_examples.py: they evaluate
concrete instances, many over the regenerated tables, and must not be able to stop the theorem module from
building).  Not property theorems: the check builds this module separately and only records the outcome. -/
import Barril.Props.C13
import Barril.Proofs.HeapEval
import Barril.Gen.Dbs

namespace Barril.Heap
open Barril

/-- `2 m + 3 cm`: `_MatchQuantities` rewrites the copied `[cm, 1]` list to `[m, 1]` in place; the operand
`3 cm` (pool member 1) still has its `[cm, 1]` list and its value, and the sum is `2.03 m` -/
example :
    let s := run exDb St.empty [.mkScalar 2 exM exLength, .mkScalar 3 exCm exLength, .arith .add (.obj 0) (.obj 1)]
    snap s 1 = some (.scalar ⟨[(exLength, exCm, 1)], 0, false, [(exLength, exCm, 1)]⟩ 3) ∧
    snap s 2 = some (.scalar ⟨[(exLength, exM, 1)], 0, false, [(exLength, exM, 1)]⟩ (203 / 100)) := by
  decide +kernel

/-- `FractionScalar(5 3/4 m).GetValue('cm')`: the numerator of a COPY of the fraction is written
(result `500 75/1`), the operand keeps `5 3/4` -/
example :
    let ops := [Op.mkFScalar 5 3 4 exM exLength, .getValue 0 (some exCm)]
    let s := run exDb St.empty ops
    snap s 0 = some (.fscalar ⟨[(exLength, exM, 1)], 0, false, [(exLength, exM, 1)]⟩ 1 5 0 (3 / 4)) ∧
    s.heap[4]? = some (.fv 500 5) ∧ s.heap[5]? = some (.frac 75) := by
  decide +kernel

/-- two Arrays over ONE list (the caller's container is kept by reference), arithmetic on them, a
`ChangingIndex` on a FixedArray: the shared container cell 0 is still `[1, 2]` -/
example :
    let ops := [Op.mkArray .list [1, 2] exM exLength, .mkArrayFrom 0 exCm exLength, .arith .mul (.obj 0) (.obj 1),
                .mkFixed 2 .list [1, 2] exM exLength, .changingIndex 3 (-1) (.num 7) true]
    let s := run exDb St.empty ops
    s.heap[0]? = some (.seq .list [1, 2]) ∧ s.objs[0]? = some (.array 0 0) ∧ s.objs[1]? = some (.array 1 0) ∧
    (snap s 4).isSome := by
  decide +kernel

/-- validation in a category WITH limits (0 ≤ x ≤ 100 m): `IsValid()` / `CheckValidity()` scan the unsorted
container `[3, 1, 2]` (valid) and `[300, 1] cm`, `[3, 200]` (the second one invalid), cache the verdict on the
object (the memo table) and leave container 0 exactly as it was; the second `CheckValidity()` answers from the
memo -/
example :
    let ops := [Op.mkArray .ndarray [3, 1, 2] exM exLim, .isValid 0, .checkValidity 0, .mkArray .list [3, 200] exM exLim,
                .isValid 1, .checkValidity 1, .checkValidity 1, .mkArray .tuple [300, 1] exCm exLim, .isValid 2]
    let s := run exDbLim St.empty ops
    let outs := outputs exDbLim St.empty ops
    s.heap[0]? = some (.seq .ndarray [3, 1, 2]) ∧ outIs outs[1]? (.bool true) ∧ outIs outs[2]? .unit ∧
    outIs outs[4]? (.bool false) ∧ outIs outs[5]? (.raised .value) ∧ outIs outs[6]? (.raised .value) ∧
    outIs outs[8]? (.bool true) ∧ s.valid = [(2, none), (1, some .value), (0, none)] := by
  decide +kernel

/-- the caller writes into the list it got from `GetValues('cm')`: that list is a new cell (5), the Array's
own container (cell 0) and a later `GetValues('cm')` (cell 6) are unaffected -/
example :
    let ops := [Op.mkArray .list [1, 2] exM exLength, .scribble 0 (some exCm) .clear, .getValue 0 (some exCm)]
    let s := run exDb St.empty ops
    s.heap[0]? = some (.seq .list [1, 2]) ∧ s.heap[2]? = some (.seq .list []) ∧
    s.heap[3]? = some (.seq .list [100, 200]) := by
  decide +kernel

/-- derived `m/s` Scalar: pickle, CreateCopy and copy are `==` to the original -/
example :
    let ops := [Op.mkScalar 2 exM exLength, .mkScalar 3 exS exTime, .arith .div (.obj 0) (.obj 1), .pickle 2,
                .eq 2 3, .createCopy 2 none none, .eq 2 4, .copy 2]
    let outs := outputs exDb St.empty ops
    outIs outs[4]? (.bool true) ∧ outIs outs[6]? (.bool true) ∧ outIs outs[7]? (.obj 2 false) := by
  decide +kernel

/-- empty quantity and unknown-caption quantity -/
example :
    let ops := [Op.mkEmptyScalar 2, .pickle 0, .eq 0 1, .mkCaptionScalar 3 exM exCap, .pickle 2, .eq 2 3,
                .createCopy 2 none none, .eq 2 4]
    let outs := outputs exDb St.empty ops
    outIs outs[2]? (.bool true) ∧ outIs outs[5]? (.bool true) ∧ outIs outs[7]? (.bool true) := by
  decide +kernel

/-- FixedArray over a tuple with a derived quantity (`m2`): pickle and CreateCopy -/
example :
    let ops := [Op.mkFixed 2 .tuple [1, 2] exM exLength, .arith .mul (.obj 0) (.obj 0), .pickle 1, .eq 1 2,
                .createCopy 1 none none, .eq 1 3]
    let outs := outputs exDb St.empty ops
    outIs outs[3]? (.bool true) ∧ outIs outs[5]? (.bool true) := by
  decide +kernel

/-- `x.ValidateValues(foreign values, foreign quantity)`: Array 0 (`[3, 1, 2] m`, category with limits) is asked
to validate the container of Array 1 in Array 1's quantity (passes), caches "valid" and is unchanged: container
cell 0, its quantity and its class are as before; `IsValid()` then answers from the memo -/
example :
    let ops := [Op.mkArray .ndarray [3, 1, 2] exM exLim, .mkArray .list [50, 60, 70, 80] exCm exLength,
                .validateWith 0 (.member 1) (some 1), .isValid 0, .validateWith 1 (.literal .tuple [500]) (some 0)]
    let s := run exDbLim St.empty ops
    let outs := outputs exDbLim St.empty ops
    s.heap[0]? = some (.seq .ndarray [3, 1, 2]) ∧ s.objs[0]? = some (.array 0 0) ∧ outIs outs[2]? .unit ∧
    outIs outs[3]? (.bool true) ∧ outIs outs[4]? (.raised .value) ∧ s.valid = [(1, some .value), (0, none)] := by
  decide +kernel

/-- the hypothesis `hz` of the full-strength pickle theorems (no category is named `''`) holds for the shipped POSC
table and for the example database -/
example : Barril.Gen.poscDb.catByName 0 = none := by decide +kernel
example : exDb.catByName 0 = none := by decide +kernel

/-- the hypotheses of `pickle_scalar_eq_reachable` / `pickle_fixedarray_eq_reachable` are met by real histories:
after building `2 m / 3 s` the pool member 2 has a snapshot on a DERIVED quantity and its pickle succeeds; the same
for a FixedArray on `m2`, for the empty quantity and for an unknown-unit caption -/
example :
    let s := run exDb St.empty [Op.mkScalar 2 exM exLength, .mkScalar 3 exS exTime, .arith .div (.obj 0) (.obj 1),
                                .mkFixed 2 .tuple [1, 2] exM exLength, .arith .mul (.obj 3) (.obj 3),
                                .mkEmptyScalar 2, .mkCaptionScalar 3 exM exCap]
    (snap s 2).isSome ∧ (exec exDb (.pickle 2) s).toOption.isSome ∧
    (snap s 4).isSome ∧ (exec exDb (.pickle 4) s).toOption.isSome ∧
    (snap s 5).isSome ∧ (exec exDb (.pickle 5) s).toOption.isSome ∧
    (snap s 6).isSome ∧ (exec exDb (.pickle 6) s).toOption.isSome := by
  decide +kernel

/-- `x ** 3` (Scalar.__pow__): two `Multiply` steps on copies (`8 m3`), `x` still `2 m`; `x ** 1` and `x ** 0` ARE
`x` (no new pool member); an Array has no `__pow__` -/
example :
    let ops := [Op.mkScalar 2 exM exLength, .pow 0 3, .pow 0 1, .pow 0 0, .mkArray .list [1, 2] exM exLength, .pow 2 2]
    let s := run exDb St.empty ops
    let outs := outputs exDb St.empty ops
    snap s 0 = some (.scalar ⟨[(exLength, exM, 1)], 0, false, [(exLength, exM, 1)]⟩ 2) ∧
    snap s 1 = some (.scalar ⟨[(exLength, exM, 3)], 0, true, [(exLength, exM, 3)]⟩ 8) ∧
    outIs outs[2]? (.obj 0 false) ∧ outIs outs[3]? (.obj 0 false) ∧ errIs outs[5]? .type ∧ s.objs.length = 3 := by
  decide +kernel

end Barril.Heap
