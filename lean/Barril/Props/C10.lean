/-
C10 — Array results equal elementwise Scalar results for every container kind.

Model: `Barril/Model/Ops.lean`.  Lemmas: `Barril/Proofs/OpsLemmas.lean` (`array_op_array_ok_iff` is the
characterisation of `Array op Array` by the database operation and `mapE` over the zipped values).

Every statement is for ALL databases `env` (no law needed), ALL pairs of quantities — simple, derived,
matched or not: Scalar and Array call the same database function, which is why the property holds —
all five operators, all nine container combinations, lists of ANY length and all values.
`d` (`numpyDefers`) is irrelevant here because the left operand is a barril object.
-/
import Barril.Proofs.OpsLemmas
import Barril.Proofs.OpsRegistryLemmas
import Barril.Props.C09

namespace Barril.Ops
open Barril

/-! ### elementwise = Scalar arithmetic (per-element branch and vectorised branch alike) -/

/-- **If `Array op Array` returns, then** the operands have the same length, the result has that
length, its container is `resultKind`, and every element AND the result's quantity are exactly what
the same operator returns on the corresponding Scalars. -/
theorem array_op_elementwise (env : Env) (d : Bool) (op : Op) (q1 q2 : Quantity) (k1 k2 : Kind)
    (xs ys : List Rat) (q : Quantity) (k : Kind) (zs : List Rat)
    (h : binop env d op (.array q1 k1 xs) (.array q2 k2 ys) = .ok (.array q k zs)) :
    xs.length = ys.length ∧ zs.length = xs.length ∧ k = resultKind k1 k2 ∧
    ∀ i (h1 : i < xs.length) (h2 : i < ys.length) (h3 : i < zs.length),
      binop env d op (.scalar q1 xs[i]) (.scalar q2 ys[i]) = .ok (.scalar q zs[i]) := by
  obtain ⟨hlen, q', t1, t2, zs', hf, _, hm, heq⟩ := (array_op_array_ok_iff env d op q1 q2 k1 k2 xs ys _).mp h
  cases heq
  obtain ⟨hl, hall⟩ := (mapE_eq_ok_iff _ _ _).mp hm
  have hzl : zs.length = xs.length := by rw [hl, List.length_zip]; omega
  refine ⟨hlen, hzl, rfl, fun i h1 h2 h3 => ?_⟩
  have := hall i (by rw [List.length_zip]; omega) h3
  rw [List.getElem_zip] at this
  exact (scalar_op_scalar_ok_iff env d op q1 q2 _ _ q zs[i]).mpr ⟨t1, t2, hf, this⟩

/-- **Conversely**: equal lengths, the Scalar operator succeeds with one quantity `q` on every pair of
corresponding elements ⇒ the Array operator succeeds with exactly those elements, that quantity and the
container `resultKind`.  Nothing is dropped, reordered or truncated.  Only for operands WITHOUT values the
Scalar operator must also succeed on `(1.0, 1.0)` (since repair 4829052 the per-element branch evaluates these
dummy amounts only when there is no value to take the quantity from). -/
theorem array_op_of_scalars (env : Env) (d : Bool) (op : Op) (q1 q2 : Quantity) (k1 k2 : Kind)
    (xs ys : List Rat) (q : Quantity) (zs : List Rat)
    (hlen : xs.length = ys.length) (hz : zs.length = xs.length)
    (hprobe : xs = [] → ∃ z1, binop env d op (.scalar q1 1) (.scalar q2 1) = .ok (.scalar q z1))
    (hall : ∀ i (h1 : i < xs.length) (h2 : i < ys.length) (h3 : i < zs.length),
      binop env d op (.scalar q1 xs[i]) (.scalar q2 ys[i]) = .ok (.scalar q zs[i])) :
    binop env d op (.array q1 k1 xs) (.array q2 k2 ys) = .ok (.array q (resultKind k1 k2) zs) := by
  -- the database operation: from the first pair of values, or from the dummy amounts when there is none
  have hf : ∃ t1 t2, opFunc env op q1 q2 = .ok (q, t1, t2) ∧ (xs = [] → ∃ z, applyOp op t1 t2 1 1 = .ok z) := by
    cases xs with
    | nil =>
      obtain ⟨z1, hp⟩ := hprobe rfl
      obtain ⟨t1, t2, hf, hp1⟩ := (scalar_op_scalar_ok_iff env d op q1 q2 1 1 q z1).mp hp
      exact ⟨t1, t2, hf, fun _ => ⟨z1, hp1⟩⟩
    | cons x xs' =>
      have h0 := hall 0 (by simp) (by simp at hlen; omega) (by simp at hz; omega)
      obtain ⟨t1, t2, hf, _⟩ := (scalar_op_scalar_ok_iff env d op q1 q2 _ _ q _).mp h0
      exact ⟨t1, t2, hf, fun h => by simp at h⟩
  obtain ⟨t1, t2, hf, hp⟩ := hf
  refine (array_op_array_ok_iff env d op q1 q2 k1 k2 xs ys _).mpr
    ⟨hlen, q, t1, t2, zs, hf, fun _ hx => hp hx, ?_, rfl⟩
  refine (mapE_eq_ok_iff _ _ _).mpr ⟨by rw [List.length_zip]; omega, fun i h1 h2 => ?_⟩
  rw [List.length_zip] at h1
  obtain ⟨t1', t2', hf', ha⟩ := (scalar_op_scalar_ok_iff env d op q1 q2 _ _ q _).mp
    (hall i (by omega) (by omega) h2)
  rw [hf] at hf'
  cases hf'
  rw [List.getElem_zip]
  exact ha

/-- the same with a plain number as the second operand (`x op k`, quantities in normal form, see C09):
every element of `Array op k` is `Scalar op k` on the corresponding Scalar, with the same quantity -/
theorem array_num_elementwise {env : Env} (hl : env.Lawful) (d : Bool) (op : Op) {q : Quantity} (hq : Normal env q)
    (kind : Kind) (vs : List Rat) (np : Bool) (k : Rat) (o : Out)
    (h : binop env d op (.array q kind vs) (.num np k) = .ok o) :
    ∃ zs, o = .array q kind zs ∧ zs.length = vs.length ∧
      ∀ i (h1 : i < vs.length) (h2 : i < zs.length),
        binop env d op (.scalar q vs[i]) (.num np k) = .ok (.scalar q zs[i]) := by
  rw [array_op_num hl d op hq] at h
  cases hm : mapE (fun x => vop op x k) vs with
  | error e => simp [hm, Except.map] at h
  | ok zs =>
    simp only [hm, Except.map, Except.ok.injEq] at h
    obtain ⟨hlen, hall⟩ := (mapE_eq_ok_iff _ _ _).mp hm
    refine ⟨zs, h.symm, hlen, fun i h1 h2 => ?_⟩
    rw [scalar_op_num, hall i h1 h2]
    rfl

/-! ### independence of the container kind -/

/-- the quantity and the values of the result do not depend on the container kinds of the operands -/
theorem array_op_kind_independent (env : Env) (d : Bool) (op : Op) (q1 q2 : Quantity)
    (k1 k2 k1' k2' : Kind) (xs ys : List Rat) (o o' : Out)
    (h : binop env d op (.array q1 k1 xs) (.array q2 k2 ys) = .ok o)
    (h' : binop env d op (.array q1 k1' xs) (.array q2 k2' ys) = .ok o') :
    o.quantity? = o'.quantity? ∧ o.values? = o'.values? := by
  obtain ⟨_, q, t1, t2, zs, hf, _, hm, rfl⟩ := (array_op_array_ok_iff env d op q1 q2 k1 k2 xs ys _).mp h
  obtain ⟨_, q', t1', t2', zs', hf', _, hm', rfl⟩ := (array_op_array_ok_iff env d op q1 q2 k1' k2' xs ys _).mp h'
  rw [hf] at hf'
  cases hf'
  rw [hm] at hm'
  cases hm'
  exact ⟨rfl, rfl⟩

/-- neither does success; only for operands WITHOUT values the operation must be defined on `(1.0, 1.0)` (the dummy
amounts of the per-element branch, which the vectorised branch does not evaluate) -/
theorem array_op_kind_independent_success (env : Env) (d : Bool) (op : Op) (q1 q2 : Quantity)
    (k1 k2 k1' k2' : Kind) (xs ys : List Rat) (o : Out)
    (hprobe : xs = [] → ∃ p, binop env d op (.scalar q1 1) (.scalar q2 1) = .ok p)
    (h : binop env d op (.array q1 k1 xs) (.array q2 k2 ys) = .ok o) :
    ∃ o', binop env d op (.array q1 k1' xs) (.array q2 k2' ys) = .ok o' := by
  obtain ⟨hlen, q, t1, t2, zs, hf, _, hm, rfl⟩ := (array_op_array_ok_iff env d op q1 q2 k1 k2 xs ys _).mp h
  refine ⟨_, (array_op_array_ok_iff env d op q1 q2 k1' k2' xs ys _).mpr
    ⟨hlen, q, t1, t2, zs, hf, fun _ hx => ?_, hm, rfl⟩⟩
  obtain ⟨p, hp⟩ := hprobe hx
  obtain ⟨qp, zp, rfl⟩ : ∃ qp zp, p = .scalar qp zp := by
    simp only [binop] at hp
    exact scalarDoOp_quantity hp
  obtain ⟨t1', t2', hf', hp1⟩ := (scalar_op_scalar_ok_iff env d op q1 q2 1 1 qp zp).mp hp
  rw [hf] at hf'
  cases hf'
  exact ⟨zp, hp1⟩

/-! ### different lengths are rejected, never truncated or broadcast -/

theorem array_len_mismatch_error (env : Env) (d : Bool) (op : Op) (q1 q2 : Quantity) (k1 k2 : Kind)
    (xs ys : List Rat) (h : xs.length ≠ ys.length) :
    binop env d op (.array q1 k1 xs) (.array q2 k2 ys) = .error .value := by
  rw [array_op_array]
  simp [h]

/-! ### empty Arrays -/

/-- two empty Arrays: an empty Array whose quantity is the quantity of the Scalar operation -/
theorem array_op_empty (env : Env) (d : Bool) (op : Op) (q1 q2 : Quantity) (k1 k2 : Kind) :
    (∀ q z, binop env d op (.scalar q1 1) (.scalar q2 1) = .ok (.scalar q z) →
      binop env d op (.array q1 k1 []) (.array q2 k2 []) = .ok (.array q (resultKind k1 k2) [])) ∧
    (∀ o, binop env d op (.array q1 k1 []) (.array q2 k2 []) = .ok o →
      o.values? = some [] ∧
      ∀ x y p, binop env d op (.scalar q1 x) (.scalar q2 y) = .ok p → p.quantity? = o.quantity?) := by
  constructor
  · intro q z hp
    exact array_op_of_scalars env d op q1 q2 k1 k2 [] [] q [] rfl rfl (fun _ => ⟨z, hp⟩) (fun i h1 => by simp at h1)
  · intro o h
    obtain ⟨_, q, t1, t2, zs, hf, _, hm, rfl⟩ := (array_op_array_ok_iff env d op q1 q2 k1 k2 [] [] _).mp h
    simp only [List.zip_nil_right, mapE, Except.ok.injEq] at hm
    subst hm
    refine ⟨rfl, fun x y p hp => ?_⟩
    obtain ⟨qp, zp, rfl⟩ : ∃ qp zp, p = .scalar qp zp := by
      simp only [binop] at hp
      exact scalarDoOp_quantity hp
    obtain ⟨t1', t2', hf', _⟩ := (scalar_op_scalar_ok_iff env d op q1 q2 x y qp zp).mp hp
    rw [hf] at hf'
    cases hf'
    rfl

/-! ### `Array.FromScalars` followed by indexing -/

theorem fromScalars_empty (env : Env) : fromScalars env [] = .ok (.array emptyQ .list []) := rfl

/-- the Array has the category and unit of the first Scalar, one value per Scalar, and position `i`
holds the amount of the `i`-th Scalar expressed in that unit (`Scalar.GetValue(unit)`); positions past
the end raise `IndexError` -/
theorem fromScalars_index (env : Env) (s0 : SimpleScalar) (ss : List SimpleScalar) (o : Out)
    (h : fromScalars env (s0 :: ss) = .ok o) :
    o.quantity? = some [⟨s0.cat, s0.unit, 1⟩] ∧
    (∀ i (hi : i < (s0 :: ss).length), ∃ v, o.index i = .ok v ∧ ((s0 :: ss)[i]).getValue env s0.unit = .ok v) ∧
    (∀ i, (s0 :: ss).length ≤ i → o.index i = .error .index) := by
  unfold fromScalars at h
  cases hm : mapE (fun s => SimpleScalar.getValue env s s0.unit) (s0 :: ss) with
  | error e => simp [hm] at h
  | ok vs =>
    simp only [hm] at h
    cases hc : env.checkCatUnit s0.cat s0.unit with
    | error e => simp [hc] at h
    | ok u =>
      simp only [hc, Except.ok.injEq] at h
      subst h
      obtain ⟨hl, hall⟩ := (mapE_eq_ok_iff _ _ _).mp hm
      refine ⟨rfl, fun i hi => ⟨vs[i]'(by omega), ?_, hall i hi (by omega)⟩, fun i hi => ?_⟩
      · simp [Out.index, List.getElem?_eq_getElem (show i < vs.length by omega)]
      · simp [Out.index, List.getElem?_eq_none (show vs.length ≤ i by omega)]

/-- Scalars that already carry the unit of the first one come back unchanged: exactly the original amounts -/
theorem fromScalars_index_same_unit (env : Env) (s0 : SimpleScalar) (ss : List SimpleScalar) (o : Out)
    (h : fromScalars env (s0 :: ss) = .ok o) (i : Nat) (hi : i < (s0 :: ss).length)
    (hu : ((s0 :: ss)[i]).unit = s0.unit) : o.index i = .ok ((s0 :: ss)[i]).v := by
  obtain ⟨v, h1, h2⟩ := (fromScalars_index env s0 ss o h).2.1 i hi
  simp only [SimpleScalar.getValue, hu, beq_self_eq_true, ↓reduceIte, Except.ok.injEq] at h2
  rw [h1, h2]

/-! ### `Array.FromScalars(scalars, unit=…, category=…)`: every argument form, simple, derived and empty quantities -/

/-- no Scalar and no keyword: `CreateEmptyArray()` -/
theorem fromScalarsKw_empty (env : Env) : fromScalarsKw env [] none none = .ok (.array emptyQ .list []) := rfl

/-- no Scalar, only `unit`: an empty Array of the unit's default category (when it has one and the pair is valid) -/
theorem fromScalarsKw_empty_unit (env : Env) (u c u' : Sym)
    (hc : env.defaultCategory u = .ok (some c)) (hq : env.obtainSimple c u = .ok u') :
    fromScalarsKw env [] (some u) none = .ok (.array [⟨c, u', 1⟩] .list []) := by
  simp [fromScalarsKw, fromScalarsNone, newArray, hc, hq]

/-- no Scalar but a `category`: rejected (with and without `unit`), never an Array of a guessed unit -/
theorem fromScalarsKw_empty_category (env : Env) (unit : Option Sym) (c : Sym) :
    fromScalarsKw env [] unit (some c) = .error .assertion := by
  cases unit <;> rfl

/-- **every argument form**: with `u = unit or first.unit`, `c = category or first.category`, a successful
`FromScalars` returns a list Array of the simple quantity `ObtainQuantity(u, c)`, one value per Scalar, and position `i`
holds the amount of the `i`-th Scalar re-expressed in `u` (`Scalar.GetValue(u)`); positions past the end raise
`IndexError`.  Scalars of simple, derived and empty quantities alike. -/
theorem fromScalarsKw_index (env : Env) (s0 : QScalar) (ss : List QScalar) (unit category : Option Sym) (o : Out)
    (h : fromScalarsKw env (s0 :: ss) unit category = .ok o) :
    ∃ u', env.obtainSimple (pyOr category (quantityCategory s0.q)) (pyOr unit (quantityUnit s0.q)) = .ok u' ∧
    o.quantity? = some [⟨pyOr category (quantityCategory s0.q), u', 1⟩] ∧
    (∀ i (hi : i < (s0 :: ss).length), ∃ v, o.index i = .ok v ∧
      ((s0 :: ss)[i]).getValue env (pyOr unit (quantityUnit s0.q)) = .ok v) ∧
    (∀ i, (s0 :: ss).length ≤ i → o.index i = .error .index) := by
  simp only [fromScalarsKw] at h
  cases hm : mapE (fun s => QScalar.getValue env s (pyOr unit (quantityUnit s0.q))) (s0 :: ss) with
  | error e => simp [hm] at h
  | ok vs =>
    simp only [hm, newArray] at h
    cases hc : env.obtainSimple (pyOr category (quantityCategory s0.q)) (pyOr unit (quantityUnit s0.q)) with
    | error e => simp [hc] at h
    | ok u' =>
      simp only [hc, Except.ok.injEq] at h
      subst h
      obtain ⟨hl, hall⟩ := (mapE_eq_ok_iff _ _ _).mp hm
      refine ⟨u', rfl, rfl, fun i hi => ⟨vs[i]'(by omega), ?_, hall i hi (by omega)⟩, fun i hi => ?_⟩
      · simp [Out.index, List.getElem?_eq_getElem (show i < vs.length by omega)]
      · simp [Out.index, List.getElem?_eq_none (show vs.length ≤ i by omega)]

/-- a Scalar whose unit string is the Array's unit comes back unchanged: exactly the original amount (this is the
only way a Scalar of a derived quantity is accepted) -/
theorem fromScalarsKw_index_same_unit (env : Env) (s0 : QScalar) (ss : List QScalar) (unit category : Option Sym)
    (o : Out) (h : fromScalarsKw env (s0 :: ss) unit category = .ok o) (i : Nat) (hi : i < (s0 :: ss).length)
    (hu : quantityUnit ((s0 :: ss)[i]).q = pyOr unit (quantityUnit s0.q)) : o.index i = .ok ((s0 :: ss)[i]).v := by
  obtain ⟨_, _, _, hidx, _⟩ := fromScalarsKw_index env s0 ss unit category o h
  obtain ⟨v, h1, h2⟩ := hidx i hi
  simp only [QScalar.getValue, hu, beq_self_eq_true, ↓reduceIte, Except.ok.injEq] at h2
  rw [h1, h2]

/-- without keywords the first Scalar always comes back unchanged, and the Array carries its unit and category -/
theorem fromScalarsKw_first (env : Env) (s0 : QScalar) (ss : List QScalar) (o : Out)
    (h : fromScalarsKw env (s0 :: ss) none none = .ok o) : o.index 0 = .ok s0.v :=
  fromScalarsKw_index_same_unit env s0 ss none none o h 0 (by simp) rfl

/-- Scalars of simple quantities: the amount at position `i` is the conversion of the `i`-th value from its own unit
to the Array's unit within its quantity type -/
theorem fromScalarsKw_index_simple (env : Env) (s0 : QScalar) (ss : List QScalar) (unit category : Option Sym)
    (o : Out) (h : fromScalarsKw env (s0 :: ss) unit category = .ok o) (i : Nat) (hi : i < (s0 :: ss).length)
    (c u : Sym) (hq : ((s0 :: ss)[i]).q = [⟨c, u, 1⟩]) :
    ∃ v, o.index i = .ok v ∧
      (⟨c, u, ((s0 :: ss)[i]).v⟩ : SimpleScalar).getValue env (pyOr unit (quantityUnit s0.q)) = .ok v := by
  obtain ⟨_, _, _, hidx, _⟩ := fromScalarsKw_index env s0 ss unit category o h
  obtain ⟨v, h1, h2⟩ := hidx i hi
  refine ⟨v, h1, ?_⟩
  simpa [QScalar.getValue, SimpleScalar.getValue, hq, quantityUnit] using h2

/-- Scalars of derived quantities are never converted: one whose unit string differs from the Array's unit makes
`FromScalars` fail (several composing units: `ComposedUnitError`; one with an exponent: `ValueError`) -/
theorem fromScalarsKw_derived_other_unit (env : Env) (s0 : QScalar) (ss : List QScalar) (unit category : Option Sym)
    (i : Nat) (hi : i < (s0 :: ss).length) (hd : isSimpleQ ((s0 :: ss)[i]).q = false) (hne : ((s0 :: ss)[i]).q ≠ [])
    (hu : quantityUnit ((s0 :: ss)[i]).q ≠ pyOr unit (quantityUnit s0.q)) :
    ∃ e, fromScalarsKw env (s0 :: ss) unit category = .error e := by
  cases h : fromScalarsKw env (s0 :: ss) unit category with
  | error e => exact ⟨e, rfl⟩
  | ok o =>
    exfalso
    obtain ⟨_, _, _, hidx, _⟩ := fromScalarsKw_index env s0 ss unit category o h
    obtain ⟨v, _, h2⟩ := hidx i hi
    have hb : (quantityUnit ((s0 :: ss)[i]).q == pyOr unit (quantityUnit s0.q)) = false := by simpa using hu
    simp only [QScalar.getValue, hb, Bool.false_eq_true, ↓reduceIte] at h2
    generalize ((s0 :: ss)[i]).q = q at hd hne h2
    match q, hd, hne, h2 with
    | [], _, hne, _ => exact hne rfl
    | [e], hd, _, h2 =>
      simp only [isSimpleQ] at hd
      simp [hd] at h2
    | _ :: _ :: _, _, _, h2 => simp at h2

/-! ### unit conversion of an Array is the conversion of its Scalars -/

/-- `Array.GetValues(u)` keeps the container kind and the length, and position `i` is
`Scalar(vs[i], unit, category).GetValue(u)`.  (`hcq`: converting under the category name and under
its quantity type are the same thing — `ofDb_convert_of_typeOf` for table databases.) -/
theorem getValues_elementwise (env : Env) (cat unit u qt : Sym) (kind kind' : Kind) (vs ws : List Rat)
    (hqt : env.qtype cat = .ok qt) (hcq : ∀ x, env.convert cat unit u x = env.convert qt unit u x)
    (h : arrayGetValues env cat unit kind vs u = .ok (kind', ws)) :
    kind' = kind ∧ ws.length = vs.length ∧
    ∀ i (h1 : i < vs.length) (h2 : i < ws.length),
      (⟨cat, unit, vs[i]⟩ : SimpleScalar).getValue env u = .ok ws[i] := by
  unfold arrayGetValues at h
  by_cases hu : (unit == u) = true
  · simp only [hu, ↓reduceIte, Except.ok.injEq, Prod.mk.injEq] at h
    obtain ⟨rfl, rfl⟩ := h
    exact ⟨rfl, rfl, fun i h1 h2 => by simp [SimpleScalar.getValue, hu]⟩
  · simp only [hu, Bool.false_eq_true, ↓reduceIte] at h
    cases hlk : env.convertLookup cat unit u with
    | error e => simp [hlk] at h
    | ok _ =>
      simp only [hlk] at h
      cases hm : mapE (env.convert cat unit u) vs with
      | error e => simp [hm] at h
      | ok ws' =>
        simp only [hm, Except.ok.injEq, Prod.mk.injEq] at h
        obtain ⟨rfl, rfl⟩ := h
        obtain ⟨hl, hall⟩ := (mapE_eq_ok_iff _ _ _).mp hm
        refine ⟨rfl, hl, fun i h1 h2 => ?_⟩
        simp only [SimpleScalar.getValue, hu, Bool.false_eq_true, ↓reduceIte, hqt, ← hcq]
        exact hall i h1 h2

/-- the same for an Array over a list / tuple of tuples (`IsListOfTuples`): the rows keep their number and their
lengths, and element `j` of row `i` is `Scalar(rows[i][j], unit, category).GetValue(u)` -/
theorem getValuesRows_elementwise (env : Env) (cat unit u qt : Sym) (rows out : List (List Rat))
    (hqt : env.qtype cat = .ok qt) (hcq : ∀ x, env.convert cat unit u x = env.convert qt unit u x)
    (h : arrayGetValuesRows env cat unit rows u = .ok out) :
    out.length = rows.length ∧
    ∀ i (h1 : i < rows.length) (h2 : i < out.length), (out[i]).length = (rows[i]).length ∧
      ∀ j (h3 : j < (rows[i]).length) (h4 : j < (out[i]).length),
        (⟨cat, unit, (rows[i])[j]⟩ : SimpleScalar).getValue env u = .ok (out[i])[j] := by
  unfold arrayGetValuesRows at h
  by_cases hu : (unit == u) = true
  · simp only [hu, ↓reduceIte, Except.ok.injEq] at h
    subst h
    exact ⟨rfl, fun i h1 h2 => ⟨rfl, fun j h3 h4 => by simp [SimpleScalar.getValue, hu]⟩⟩
  · simp only [hu, Bool.false_eq_true, ↓reduceIte] at h
    obtain ⟨hl, hall⟩ := (mapE_eq_ok_iff _ _ _).mp h
    refine ⟨hl, fun i h1 h2 => ?_⟩
    obtain ⟨hl2, hall2⟩ := (mapE_eq_ok_iff _ _ _).mp (hall i h1 h2)
    refine ⟨hl2, fun j h3 h4 => ?_⟩
    have hj := hall2 j h3 h4
    simp only [SimpleScalar.getValue, hu, Bool.false_eq_true, ↓reduceIte, hqt, ← hcq]
    cases hlk : env.convertLookup cat unit u with
    | error e => simp [hlk] at hj
    | ok _ => simpa [hlk] using hj

/-! ### non-vacuity (example database of `OpsLemmas`: unit 12 is 1/100 of unit 11) -/

/-! a unit with an offset (13 = unit 11 shifted by 273): outside a derived quantity the matched value is
shifted, inside a derived quantity it is scaled (repair 1e63d4c) — for every container combination, and
exactly as for the Scalars -/

/-! ### a database on which additional conversion types have been registered

`UnitDatabase.RegisterAdditionalConversionType` is public and its registry is shared by every database of the
process.  Model: `Barril/Model/OpsRegistry.lean` (`Registry.dispatch` = Python's `isinstance` loop at the head of
`UnitDatabase.Convert`; `arrayComputeReg`, `arrayOpArrayReg`, `arrayGetValuesReg` = the Array operations with the
registry as a parameter). -/

/-- **Registering a conversion for a class that is not a base class of the value's class changes nothing**: an entry
for a SUBCLASS of the container's class (an ndarray subclass, a list subclass) or for an unrelated class, put ANYWHERE
into the registry with ANY function, leaves every result of the operations of `Array._DoOperation` as it was (all
operators, quantities, containers, values; `c1`, `c2`: the classes of the two value containers, `numClass`: of their
elements). -/
theorem register_unrelated_invisible (env : Env) (r1 r2 : Registry) (e : RegEntry) (c1 c2 : PyClass) (op : Op)
    (q1 q2 : Quantity) (ra rb : Raw)
    (h1 : c1.isSub e.cls = false) (h2 : c2.isSub e.cls = false) (hn : numClass.isSub e.cls = false) :
    arrayComputeReg env (r1 ++ e :: r2) c1 c2 op q1 q2 ra rb = arrayComputeReg env (r1 ++ r2) c1 c2 op q1 q2 ra rb := by
  simp only [arrayComputeReg, convertReg_skip env r1 r2 e _ h1, convertReg_skip env r1 r2 e _ h2,
    convertReg_skip env r1 r2 e _ hn]

/-- the same for the unit conversion `Array.GetValues(unit)` / `CreateCopy(unit=…)` -/
theorem register_unrelated_invisible_getvalues (env : Env) (r1 r2 : Registry) (e : RegEntry) (c : PyClass)
    (cat unit u : Sym) (kind : Kind) (vs : List Rat) (h : c.isSub e.cls = false) :
    arrayGetValuesReg env (r1 ++ e :: r2) c cat unit kind vs u = arrayGetValuesReg env (r1 ++ r2) c cat unit kind vs u := by
  simp only [arrayGetValuesReg, convertReg_skip env r1 r2 e _ h]

/-- the two-step history: `RegisterAdditionalConversionType(k, fn)` succeeded, THEN the operation runs -/
theorem register_then_operate (env : Env) (reg reg' : Registry) (k : Nat) (fn : ConvFn) (c1 c2 : PyClass) (op : Op)
    (q1 q2 : Quantity) (ra rb : Raw) (hr : reg.register k fn = .ok reg')
    (h1 : c1.isSub k = false) (h2 : c2.isSub k = false) (hn : numClass.isSub k = false) :
    arrayComputeReg env reg' c1 c2 op q1 q2 ra rb = arrayComputeReg env reg c1 c2 op q1 q2 ra rb := by
  unfold Registry.register at hr
  cases hlk : reg.lookup k with
  | none =>
    simp only [hlk, Except.ok.injEq] at hr
    subst hr
    have := register_unrelated_invisible env reg [] ⟨k, fn⟩ c1 c2 op q1 q2 ra rb h1 h2 hn
    simpa using this
  | some g =>
    simp only [hlk] at hr
    split at hr
    · cases hr; rfl
    · cases hr

/-- **With a registry that values of the operands' classes cannot see** (no registered class is a base class, or the
first one that is carries the elementwise number conversion — after import: `numpy.ndarray` ↦ `ConvertNumpyArray`;
whatever has been registered for subclasses and unrelated classes), `Array op Array` IS the operation of the
registry-free model, so every C10 theorem above holds on such a database. -/
theorem registry_invisible_array_op {env : Env} (hl : env.Lawful) (d : Bool) (reg : Registry) (ndc : PyClass) (op : Op)
    (q1 q2 : Quantity) (k1 k2 : Kind) (xs ys : List Rat)
    (h1 : reg.Invisible (kindClass ndc k1)) (h2 : reg.Invisible (kindClass ndc k2)) (hn : reg.Invisible numClass) :
    arrayOpArrayReg env reg ndc op q1 k1 xs q2 k2 ys = binop env d op (.array q1 k1 xs) (.array q2 k2 ys) := by
  rw [array_op_array, arrayOpArrayReg, arrayComputeReg_plain hl h1 h2 hn]

theorem registry_invisible_getvalues {env : Env} (hl : env.Lawful) (reg : Registry) (c : PyClass)
    (cat unit u : Sym) (kind : Kind) (vs : List Rat) (h : reg.Invisible c) :
    arrayGetValuesReg env reg c cat unit kind vs u = arrayGetValues env cat unit kind vs u := by
  rw [arrayGetValuesReg, arrayGetValues, convertReg_plain hl h]
  split
  · rfl
  · cases env.convertLookup cat unit u with
    | error e => rfl
    | ok _ => simp only; cases mapE (env.convert cat unit u) vs <;> rfl

/-- elementwise = Scalar arithmetic on a database with registrations (Scalars never reach the registry) -/
theorem array_op_elementwise_registry {env : Env} (hl : env.Lawful) (d : Bool) (reg : Registry) (ndc : PyClass) (op : Op)
    (q1 q2 : Quantity) (k1 k2 : Kind) (xs ys : List Rat) (q : Quantity) (k : Kind) (zs : List Rat)
    (h1 : reg.Invisible (kindClass ndc k1)) (h2 : reg.Invisible (kindClass ndc k2)) (hn : reg.Invisible numClass)
    (h : arrayOpArrayReg env reg ndc op q1 k1 xs q2 k2 ys = .ok (.array q k zs)) :
    xs.length = ys.length ∧ zs.length = xs.length ∧ k = resultKind k1 k2 ∧
    ∀ i (h1 : i < xs.length) (h2 : i < ys.length) (h3 : i < zs.length),
      binop env d op (.scalar q1 xs[i]) (.scalar q2 ys[i]) = .ok (.scalar q zs[i]) := by
  rw [registry_invisible_array_op hl d reg ndc op q1 q2 k1 k2 xs ys h1 h2 hn] at h
  exact array_op_elementwise env d op q1 q2 k1 k2 xs ys q k zs h

/-- "neither depends on the container kind" on a database with registrations: whatever the registry holds for
subclasses and unrelated classes, list / tuple / ndarray operands give the same quantity and the same values -/
theorem array_op_kind_independent_registry {env : Env} (hl : env.Lawful) (reg : Registry) (ndc : PyClass) (op : Op)
    (q1 q2 : Quantity) (k1 k2 k1' k2' : Kind) (xs ys : List Rat) (o o' : Out)
    (hl' : reg.Invisible listClass) (ht : reg.Invisible tupleClass) (hnd : reg.Invisible ndc) (hn : reg.Invisible numClass)
    (h : arrayOpArrayReg env reg ndc op q1 k1 xs q2 k2 ys = .ok o)
    (h' : arrayOpArrayReg env reg ndc op q1 k1' xs q2 k2' ys = .ok o') :
    o.quantity? = o'.quantity? ∧ o.values? = o'.values? := by
  have hk : ∀ k, reg.Invisible (kindClass ndc k) := fun k => by cases k <;> assumption
  rw [registry_invisible_array_op hl true reg ndc op q1 q2 k1 k2 xs ys (hk _) (hk _) hn] at h
  rw [registry_invisible_array_op hl true reg ndc op q1 q2 k1' k2' xs ys (hk _) (hk _) hn] at h'
  exact array_op_kind_independent env true op q1 q2 k1 k2 k1' k2' xs ys o o' h h'

end Barril.Ops
