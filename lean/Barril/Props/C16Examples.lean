/- Non-vacuity examples of C16 (moved out of Props/C16.lean by tools/split_examples.py: they evaluate
concrete instances, many over the regenerated tables, and must not be able to stop the theorem module from
building).  Not property theorems: the check builds this module separately and only records the outcome. -/
import Barril.Props.C16
import Barril.Proofs.LegacyLemmas
import Barril.Gen.ThmLegfixPosc
import Barril.Gen.ThmLegfixNocat
import Barril.Gen.ThmLegfixSimple
import Barril.Gen.ThmLegderPosc
import Barril.Gen.ThmLegderNocat
import Barril.Gen.ThmLegderSimple

namespace Barril
open Barril.Gen

example : (Sym.ofString "1000ft3/d", Sym.ofString "Mcf/d") ∈ poscDb.derive := by decide +kernel
example : (Sym.ofString "lbmole/ft3", Sym.ofString "lbmol/ft3") ∈ poscDb.derive := by decide +kernel
example : poscDb.obtainQuantity (Sym.ofString "1000ft3/d") none
    = .ok ⟨Sym.ofString "volume flow rate", Sym.ofString "Mcf/d"⟩ := by decide +kernel
example : poscDb.convert (Sym.ofString "volume") (Sym.ofString "1000m3") (Sym.ofString "m3") 2
    = .ok 2000 := by decide +kernel
example : noFragment legacyList (Sym.bytes (fixLegacy legacyList (Sym.ofString "bbl/k(ft3)"))) = true := by
  decide +kernel
example : let L := [(Sym.ofString "lbmole", Sym.ofString "lbmol")]
    fixLegacy L (fixLegacy L (Sym.ofString "lbmolee")) ≠ fixLegacy L (Sym.ofString "lbmolee") := by
  decide +kernel
example : (poscDb.addCategory (Sym.ofString "my cat") (Sym.ofString "volume")
      (some [Sym.ofString "1000m3", Sym.ofString "m3"]) (some (Sym.ofString "M(m3)")) 1 false).toOption.map
      (fun d => (d.catByName (Sym.ofString "my cat")).map (fun c => (c.validUnits, c.defaultUnit)))
    = some (some (some [Sym.ofString "Mm3", Sym.ofString "m3"], Sym.ofString "MMm3")) := by
  decide +kernel

-- a category registered with a NON-ZERO default value (1000 m3/d, minimum 0): the value-less scalar
-- in the legacy spelling '1000m3/d' carries the converted default (1 Mm3/d), like the current spelling
example : ((poscDb.addCategoryFull (Sym.ofString "c16 gas rate") (Sym.ofString "volume flow rate") none
      (some (Sym.ofString "m3/d")) 1 false (some 1000) (some 0) none false false).toOption.map
      (fun d => (d.createDefault (Sym.ofString "c16 gas rate") (some (Sym.ofString "1000m3/d")),
                 d.createDefault (Sym.ofString "c16 gas rate") (some (Sym.ofString "Mm3/d")),
                 d.createDefault (Sym.ofString "c16 gas rate") none)))
    = some (.ok (⟨Sym.ofString "c16 gas rate", Sym.ofString "Mm3/d"⟩, 1),
            .ok (⟨Sym.ofString "c16 gas rate", Sym.ofString "Mm3/d"⟩, 1),
            .ok (⟨Sym.ofString "c16 gas rate", Sym.ofString "m3/d"⟩, 1000)) := by
  decide +kernel
-- the hypotheses of `posc_registered_exact_alias` are met by that registration
example : (poscDb.addCategoryFull (Sym.ofString "c16 gas rate") (Sym.ofString "volume flow rate") none
      (some (Sym.ofString "1000m3/d")) 1 false (some 1000) (some 0) none false false).toOption.isSome = true
    ∧ poscDb.units.all (fun r => Sym.ofString "c16 gas rate" != r.qtype) = true := by
  decide +kernel
-- value-less FixedArray of dimension 3 in a legacy spelling
example : poscDb.createDefaultList 3 (Sym.ofString "volume") (some (Sym.ofString "1000ft3"))
    = .ok (⟨Sym.ofString "volume", Sym.ofString "Mcf"⟩, [0, 0, 0]) := by decide +kernel
-- registration with limits: default below the minimum is an AssertionError, crossed limits a ValueError,
-- an exclusive limit without default value a RuntimeError
example : ((poscDb.addCategoryFull 7 (Sym.ofString "volume") none none 1 false (some 1) (some 2) none false false).toOption.isSome,
           (poscDb.addCategoryFull 7 (Sym.ofString "volume") none none 1 false (some 1) (some 2) (some 1) false false).toOption.isSome,
           (poscDb.addCategoryFull 7 (Sym.ofString "volume") none none 1 false none (some 2) none true false).toOption.isSome,
           (poscDb.addCategoryFull 7 (Sym.ofString "volume") none none 1 false none (some 2) none false false).toOption.map
              (fun d => (d.catByName 7).map (·.defaultValue)))
    = (false, false, false, some (some 2)) := by decide +kernel
example : poscDb.getUnitName (Sym.ofString "volume") (Sym.ofString "1000ft3")
    = poscDb.getUnitName (Sym.ofString "volume") (Sym.ofString "Mcf")
    ∧ (poscDb.getUnitName (Sym.ofString "volume") (Sym.ofString "Mcf")).toOption.isSome = true := by
  decide +kernel

-- the composing-mapping forms of `ObtainQuantity`: one entry of exponent 1 with a legacy spelling is the plain
-- form (the hypotheses of `obtainQuantity_legacy_mapping_ok` are met), for an ordered dict and for a plain dict
example : poscDb.obtainFromMapping true [⟨Sym.ofString "volume flow rate", Sym.ofString "1000ft3/d", 1⟩]
      = .ok (.simple ⟨Sym.ofString "volume flow rate", Sym.ofString "Mcf/d"⟩)
    ∧ poscDb.obtainFromMapping false [⟨Sym.ofString "volume", Sym.ofString "M(m3)", 1⟩]
      = .ok (.simple ⟨Sym.ofString "volume", Sym.ofString "MMm3"⟩)
    ∧ poscDb.obtainFromMapping false [⟨Sym.ofString "volume", Sym.ofString "MMm3", 1⟩]
      = .ok (.simple ⟨Sym.ofString "volume", Sym.ofString "MMm3"⟩) := by decide +kernel
-- the parallel-lists form, with a category list, a category string and no category
example : poscDb.obtainFromLists [(Sym.ofString "1000ft3/d", 1)] (.list [Sym.ofString "volume flow rate"])
      = .ok (.simple ⟨Sym.ofString "volume flow rate", Sym.ofString "Mcf/d"⟩)
    ∧ poscDb.obtainFromLists [(Sym.ofString "1000ft3/d", 1)] (.str (Sym.ofString "volume flow rate"))
      = .ok (.simple ⟨Sym.ofString "volume flow rate", Sym.ofString "Mcf/d"⟩)
    ∧ poscDb.obtainFromLists [(Sym.ofString "1000ft3/d", 1)] .none
      = .ok (.simple ⟨Sym.ofString "volume flow rate", Sym.ofString "Mcf/d"⟩)
    ∧ poscDb.obtainFromLists [(Sym.ofString "1000ft3/d", 1)] (.list []) = .error .index := by decide +kernel
-- a really composing mapping: current symbols give the derived quantity (ordered dict) or a TypeError (plain
-- dict); a legacy spelling is rejected (`obtainFromMapping_rejects_legacy`: its hypotheses are met)
example : poscDb.obtainFromMapping true [⟨Sym.ofString "volume", Sym.ofString "MMm3", 1⟩, ⟨Sym.ofString "time", Sym.ofString "s", -1⟩]
      = .ok (.derived [⟨Sym.ofString "volume", Sym.ofString "MMm3", 1⟩, ⟨Sym.ofString "time", Sym.ofString "s", -1⟩])
    ∧ poscDb.obtainFromMapping false [⟨Sym.ofString "volume", Sym.ofString "MMm3", 2⟩] = .error .type
    ∧ poscDb.obtainFromMapping true [⟨Sym.ofString "volume", Sym.ofString "M(m3)", 2⟩] = .error .units
    ∧ simpleCell [⟨Sym.ofString "volume", Sym.ofString "M(m3)", 2⟩] = none := by decide +kernel
-- zip truncation and a repeated category make a two-pair list a one-entry mapping again
example : poscDb.obtainFromLists [(Sym.ofString "M(m3)", 1), (Sym.ofString "s", -1)] (.list [Sym.ofString "volume"])
      = .ok (.simple ⟨Sym.ofString "volume", Sym.ofString "MMm3"⟩)
    ∧ poscDb.obtainFromLists [(Sym.ofString "m3", 2), (Sym.ofString "M(m3)", 1)]
        (.list [Sym.ofString "volume", Sym.ofString "volume"])
      = .ok (.simple ⟨Sym.ofString "volume", Sym.ofString "MMm3"⟩)
    ∧ poscDb.obtainFromLists [(Sym.ofString "m3", 2), (Sym.ofString "s", -1)] (.str (Sym.ofString "volume"))
      = .error .assertion := by decide +kernel

end Barril
