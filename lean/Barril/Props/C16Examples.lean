/- Non-vacuity examples of C16 (moved out of Props/C16.lean by tools/split_examples.py: they evaluate
concrete instances, many over the regenerated tables, and must not be able to stop the theorem module from
building).  Not property theorems: the check builds this module separately and only records the outcome. -/
import Barril.Props.C16
import Barril.Proofs.LegacyLemmas
import Barril.Gen.ThmLegfixPosc
import Barril.Gen.ThmLegfixNocat
import Barril.Gen.ThmLegfixSimple
import Barril.Gen.ThmLegderPosc
import Barril.Gen.ThmLegderNocat
import Barril.Gen.ThmLegderSimple

namespace Barril
open Barril.Gen

example : (Sym.ofString "1000ft3/d", Sym.ofString "Mcf/d") ∈ poscDb.derive := by decide +kernel
example : (Sym.ofString "lbmole/ft3", Sym.ofString "lbmol/ft3") ∈ poscDb.derive := by decide +kernel
example : poscDb.obtainQuantity (Sym.ofString "1000ft3/d") none
    = .ok ⟨Sym.ofString "volume flow rate", Sym.ofString "Mcf/d"⟩ := by decide +kernel
example : poscDb.convert (Sym.ofString "volume") (Sym.ofString "1000m3") (Sym.ofString "m3") 2
    = .ok 2000 := by decide +kernel
example : noFragment legacyList (Sym.bytes (fixLegacy legacyList (Sym.ofString "bbl/k(ft3)"))) = true := by
  decide +kernel
example : let L := [(Sym.ofString "lbmole", Sym.ofString "lbmol")]
    fixLegacy L (fixLegacy L (Sym.ofString "lbmolee")) ≠ fixLegacy L (Sym.ofString "lbmolee") := by
  decide +kernel
example : (poscDb.addCategory (Sym.ofString "my cat") (Sym.ofString "volume")
      (some [Sym.ofString "1000m3", Sym.ofString "m3"]) (some (Sym.ofString "M(m3)")) 1 false).toOption.map
      (fun d => (d.catByName (Sym.ofString "my cat")).map (fun c => (c.validUnits, c.defaultUnit)))
    = some (some (some [Sym.ofString "Mm3", Sym.ofString "m3"], Sym.ofString "MMm3")) := by
  decide +kernel

end Barril
