/- Non-vacuity examples of C20 (moved out of Props/C20.lean by tools/split_examples.py: they evaluate
concrete instances, many over the regenerated tables, and must not be able to stop the theorem module from
building).  Not property theorems: the check builds this module separately and only records the outcome. -/
import Barril.Props.C20
import Barril.Proofs.StrLemmas

namespace Barril.Str

example : renderUnit [([109], 1), ([115], -1), ([107, 103], -1)] = [109, 47, 115, 46, 107, 103] := by decide
example : parseUnit [109, 47, 115, 46, 107, 103] = some [([109], 1), ([115], -1), ([107, 103], -1)] := by decide
example : ∀ p ∈ [(([109] : Str), (1 : Int)), ([115], -1), ([107, 103], -1)], atomic p.1 = true := by decide
example : renderUnit [([115], -12), ([107, 103], 2), ([109], 1), ([75], -3)]
    = [107, 103, 50, 46, 109, 47, 115, 49, 50, 46, 75, 51] := by decide
example : parseUnit (renderUnit [([115], -12), ([107, 103], 2), ([109], 1), ([75], -3)])
    = some [([107, 103], 2), ([109], 1), ([115], -12), ([75], -3)] := by decide
example : renderUnit [([115], -2), ([109], -1)] = [49, 47, 115, 50, 46, 109] := by decide
example : makeStr [([108], 1), ([116], -1), ([109], -1)] = [108, 32, 47, 32, 116, 32, 42, 32, 109] := by decide
example : makeStr [([97], -2)] = [49, 32, 47, 32, 40, 97, 41, 32, 42, 42, 32, 50] := by decide
example : joinExps [([109], 1), ([115], -1), ([109], 1)] = [([109], 2), ([115], -1)] := by decide
example : renderUnit (joinExps [([109], 1), ([109], -1)]) = [] := by decide
example : (obtainFromDict ⟨[([108], [76]), ([116], [84])], []⟩ [⟨[108], [109], 1⟩, ⟨[116], [115], -2⟩]).map (·.unit)
    = .ok [109, 47, 115, 50] := by rfl
example : (obtainFromDict ⟨[([108], [76])], []⟩ [⟨[108], [109], 1⟩]).map (fun q => (q.derived, q.unit, q.category, q.qtype))
    = .ok (false, [109], [108], [76]) := by rfl
example : parseUnit [109, 47, 115, 47, 107] = none := by decide      -- "m/s/k"
example : parseUnit [109, 46, 46, 115] = none := by decide           -- "m..s"
example : parseUnit [109, 48] = none := by decide                    -- "m0"

-- products, quotients, powers from the operands.  Registry: category l -> type L, d -> type L, t -> type T
-- s * m lists the second first; m * s the metre first (no earlier result takes part)
example : (opQ ⟨[([108], [76]), ([116], [84])], []⟩ .mul
      ⟨[⟨[116], [115], 1⟩], false, [116], [84], [115]⟩ ⟨[⟨[108], [109], 1⟩], false, [108], [76], [109]⟩).map
        (fun q => (q.unit, q.category)) = .ok ([115, 46, 109], [116, 32, 42, 32, 108]) := by rfl
example : (opQ ⟨[([108], [76]), ([116], [84])], []⟩ .mul
      ⟨[⟨[108], [109], 1⟩], false, [108], [76], [109]⟩ ⟨[⟨[116], [115], 1⟩], false, [116], [84], [115]⟩).map
        (fun q => (q.unit, q.category)) = .ok ([109, 46, 115], [108, 32, 42, 32, 116]) := by rfl
-- (m/s) ** 4 = "m4/s4"; the hypotheses of `pow_unit_string` hold for m/s
example : (qpow ⟨[([108], [76]), ([116], [84])], []⟩
      ⟨[⟨[108], [109], 1⟩, ⟨[116], [115], -1⟩], true, [], [], [109, 47, 115]⟩ 4).map (·.unit)
        = .ok [109, 52, 47, 115, 52] := by rfl
example : matchOne ⟨[([108], [76]), ([116], [84])], []⟩ [] [⟨[108], [109], 1⟩, ⟨[116], [115], -1⟩]
    = .ok ([([84], [115]), ([76], [109])], [⟨[108], [109], 1⟩, ⟨[116], [115], -1⟩]) := by rfl
example : ∀ e ∈ [(⟨[108], [109], 1⟩ : Entry), ⟨[116], [115], -1⟩],
    e.exp ≠ 0 ∧ unitTotal e.unit [⟨[108], [109], 1⟩, ⟨[116], [115], -1⟩] ≠ 0 := by decide
-- q ** 1, q ** 0, q ** -2 are q itself (`range(exponent - 1)` is empty)
example : qpow ⟨[([108], [76])], []⟩ ⟨[⟨[108], [109], 1⟩], false, [108], [76], [109]⟩ 0
    = .ok ⟨[⟨[108], [109], 1⟩], false, [108], [76], [109]⟩ := by rfl
-- two categories of one quantity type with different units: the first unit seen is kept (m.ft -> m2)
example : (opQ ⟨[([108], [76]), ([100], [76])], []⟩ .mul
      ⟨[⟨[108], [109], 1⟩], false, [108], [76], [109]⟩ ⟨[⟨[100], [102, 116], 1⟩], false, [100], [76], [102, 116]⟩).map
        (fun q => (q.unit, q.entries)) = .ok ([109, 50], [⟨[108], [109], 1⟩, ⟨[100], [109], 1⟩]) := by rfl
-- m / m (one category) cancels: the empty quantity
example : (opQ ⟨[([108], [76])], []⟩ .div
      ⟨[⟨[108], [109], 1⟩], false, [108], [76], [109]⟩ ⟨[⟨[108], [109], 1⟩], false, [108], [76], [109]⟩).map (·.entries)
        = .ok [] := by rfl

/-! the caller edits the mapping it passed (seed C20-12's sequence): spec = {length: [m, 1], time: [s, -1]};
velocity = ObtainQuantity(spec); spec['time'][1] = -2; acceleration = ObtainQuantity(spec); velocity ** 2 -/
def exReg : Reg := ⟨[([108], [108]), ([116], [116])], [(([108], [109]), [77]), (([116], [115]), [83])]⟩
def exSpec : Req := .dict [⟨[108], [109], 1⟩, ⟨[116], [115], -1⟩]
def exRun : Caller := Caller.run exReg ⟨[], []⟩
  [.request exSpec, .edit 0 (.setExp 1 (-2)), .again 0, .arith 0 (fun q => qpow exReg q 2)]
-- velocity still is m/s, with unit name "M / S"; acceleration is m/s2; velocity ** 2 is m2/s2
example : (exRun.made.map (fun r => r.toOption.map (·.unit)))
    = [some [109, 47, 115], some [109, 47, 115, 50], some [109, 50, 47, 115, 50]] := by decide +kernel
example : (exRun.made[0]?.bind (fun r => r.toOption.map (fun q => (q.unitName exReg).toOption)))
    = some (some [77, 32, 47, 32, 83]) := by decide +kernel
example : exRun.held = [.dict [⟨[108], [109], 1⟩, ⟨[116], [115], -2⟩]] := by decide +kernel
example : (Edit.del 0).apply (.list [([109], 1), ([115], -1)] [[108], [116]]) = .list [([115], -1)] [[116]] := by decide
example : (Edit.add ⟨[116], [104], 3⟩).apply exSpec = .dict [⟨[108], [109], 1⟩, ⟨[116], [104], 3⟩] := by decide

end Barril.Str
