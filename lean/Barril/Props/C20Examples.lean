/- Non-vacuity examples of C20 (moved out of Props/C20.lean by tools/split_examples.py: they evaluate
concrete instances, many over the regenerated tables, and must not be able to stop the theorem module from
building).  Not property theorems: the check builds this module separately and only records the outcome. -/
import Barril.Props.C20
import Barril.Proofs.StrLemmas

namespace Barril.Str

example : renderUnit [([109], 1), ([115], -1), ([107, 103], -1)] = [109, 47, 115, 46, 107, 103] := by decide
example : parseUnit [109, 47, 115, 46, 107, 103] = some [([109], 1), ([115], -1), ([107, 103], -1)] := by decide
example : ∀ p ∈ [(([109] : Str), (1 : Int)), ([115], -1), ([107, 103], -1)], atomic p.1 = true := by decide
example : renderUnit [([115], -12), ([107, 103], 2), ([109], 1), ([75], -3)]
    = [107, 103, 50, 46, 109, 47, 115, 49, 50, 46, 75, 51] := by decide
example : parseUnit (renderUnit [([115], -12), ([107, 103], 2), ([109], 1), ([75], -3)])
    = some [([107, 103], 2), ([109], 1), ([115], -12), ([75], -3)] := by decide
example : renderUnit [([115], -2), ([109], -1)] = [49, 47, 115, 50, 46, 109] := by decide
example : makeStr [([108], 1), ([116], -1), ([109], -1)] = [108, 32, 47, 32, 116, 32, 42, 32, 109] := by decide
example : makeStr [([97], -2)] = [49, 32, 47, 32, 40, 97, 41, 32, 42, 42, 32, 50] := by decide
example : joinExps [([109], 1), ([115], -1), ([109], 1)] = [([109], 2), ([115], -1)] := by decide
example : renderUnit (joinExps [([109], 1), ([109], -1)]) = [] := by decide
example : (obtainFromDict ⟨[([108], [76]), ([116], [84])], []⟩ [⟨[108], [109], 1⟩, ⟨[116], [115], -2⟩]).map (·.unit)
    = .ok [109, 47, 115, 50] := by rfl
example : (obtainFromDict ⟨[([108], [76])], []⟩ [⟨[108], [109], 1⟩]).map (fun q => (q.derived, q.unit, q.category, q.qtype))
    = .ok (false, [109], [108], [76]) := by rfl
example : parseUnit [109, 47, 115, 47, 107] = none := by decide      -- "m/s/k"
example : parseUnit [109, 46, 46, 115] = none := by decide           -- "m..s"
example : parseUnit [109, 48] = none := by decide                    -- "m0"

end Barril.Str
