/-
C08 — comparisons are coherent: order follows the physical amount, equality is total.
-/
import Barril.Proofs.CmpLemmas
import Barril.Props.C01

namespace Barril
open Barril.Gen

/-! ## equality of any two objects -/

/-- `a == b` never raises, for any two objects of the nine classes and the unrelated builtins -/
theorem eq_never_raises (small : Rat) (a b : Obj) (same : Bool) : ∃ r, pyEq small a b same = .ok r := by
  obj_cases a <;> obj_cases b <;>
    simp [pyEq, methEq, richCompare, Ans.orElse, quantityEq, scalarEq, fscalarEq, fvalueEq, fractionEq, usysEq,
      curveEq_eq, fractionOldCmp, Obj.isNumberOrFraction, arrMethEq, arrayEq_eq, fixedArrayEq_eq, Arr.cls,
      Obj.isInstance, Obj.cls, Cls.isSubclass]

/-- `==` is symmetric -/
theorem eq_symm (small : Rat) (a b : Obj) (same : Bool) : pyEq small a b same = pyEq small b a same := by
  obj_cases a <;> obj_cases b <;>
    simp [pyEq, methEq, richCompare, Ans.orElse, quantityEq, scalarEq, fscalarEq, fvalueEq, fractionEq, usysEq,
      curveEq_eq, fractionOldCmp, Obj.isNumberOrFraction, arrMethEq, arrayEq_eq, fixedArrayEq_eq, Arr.cls,
      Obj.isInstance, Obj.cls, Cls.isSubclass, Qty.eq, FVal.eq, Arr.eqv, Arr.core, crossCmp_eq_zero]
  all_goals (first | (simp only [BEq.comm]) | exact eq_comm)

/-- `==` is reflexive (on the same object and on an equal copy) -/
theorem eq_refl (small : Rat) (a : Obj) (same : Bool) : pyEq small a a same = .ok true := by
  obj_cases a <;>
    simp [pyEq, methEq, richCompare, Ans.orElse, quantityEq, scalarEq, fscalarEq, fvalueEq, fractionEq, usysEq,
      curveEq_eq, fractionOldCmp, Obj.isNumberOrFraction, arrMethEq, arrayEq_eq, fixedArrayEq_eq, Arr.cls,
      Obj.isInstance, Obj.cls, Cls.isSubclass, Qty.eq, FVal.eq, Arr.eqv, Arr.core, crossCmp_eq_zero]

/-- `a != b` is `not (a == b)`; in particular it never raises either -/
theorem ne_is_not_eq (small : Rat) (a b : Obj) (same : Bool) :
    pyNe small a b same = (pyEq small a b same).map (fun r => !r) := by
  cases same <;> obj_cases a <;> obj_cases b <;>
    simp [pyNe, methNe, Cls.neIsNotEq, Ans.neg, Except.map,
      pyEq, methEq, richCompare, Ans.orElse, quantityEq, scalarEq, fscalarEq, fvalueEq, fractionEq, usysEq,
      curveEq_eq, fractionOldCmp, Obj.isNumberOrFraction, arrMethEq, arrayEq_eq, fixedArrayEq_eq, Arr.cls,
      Obj.isInstance, Obj.cls, Cls.isSubclass]

/-- `a != b` never raises -/
theorem ne_never_raises (small : Rat) (a b : Obj) (same : Bool) : ∃ r, pyNe small a b same = .ok r := by
  obtain ⟨r, hr⟩ := eq_never_raises small a b same
  exact ⟨!r, by rw [ne_is_not_eq, hr]; rfl⟩

/-- `!=` is symmetric -/
theorem ne_symm (small : Rat) (a b : Obj) (same : Bool) : pyNe small a b same = pyNe small b a same := by
  rw [ne_is_not_eq, ne_is_not_eq, eq_symm]

/-- equal hashable objects have equal hashes (`same` may only be claimed for one and the same object) -/
theorem eq_hash (small : Rat) (a b : Obj) (same : Bool) (hs : same = true → a = b)
    (h : pyEq small a b same = .ok true) {ka kb : HKey} (ha : pyHash a = .ok ka) (hb : pyHash b = .ok kb) :
    ka = kb := by
  obj_cases a <;> obj_cases b <;>
    simp [pyHash, Cls.hashSlot, Cls.definesHash, Cls.definesEq, Cls.abstractBase, Obj.cls, Arr.cls] at ha hb <;>
    simp [pyEq, methEq, richCompare, Ans.orElse, quantityEq, scalarEq, Obj.isInstance, Obj.cls, Cls.isSubclass,
      Qty.eq] at h <;>
    simp_all [Qty.hashItems]

/-! ## order of Scalars -/

/-- **order follows the physical amount**: for two Scalars of one quantity type every operator
succeeds and returns the comparison of the two base amounts -/
theorem scalar_order_iff_base {db : Db} (hdb : db.AllWF) {a b : Sc} (ha : a.q.Built db) (hb : b.q.Built db)
    (hq : a.q.qtype = b.q.qtype) (op : Op) :
    a.order db op b = .ok (op.apply (a.q.baseAmount a.v) (b.q.baseAmount b.v)) := by
  obtain ⟨y, hy, ey⟩ := convert_base hdb ha hb hq b.v
  unfold Sc.order Sc.valuesToCompare
  simp only [hq, bne_self_eq_false, Bool.false_eq_true, ↓reduceIte, hy]
  rw [Op.apply_base (ha.wf hdb) op a.v y]
  unfold SimpleQ.baseAmount at *
  rw [ey]

/-- `<` is exactly "less base amount" -/
theorem scalar_lt_iff_base {db : Db} (hdb : db.AllWF) {a b : Sc} (ha : a.q.Built db) (hb : b.q.Built db)
    (hq : a.q.qtype = b.q.qtype) :
    a.order db .lt b = .ok true ↔ a.q.baseAmount a.v < b.q.baseAmount b.v := by
  rw [scalar_order_iff_base hdb ha hb hq]; simp [Op.apply]

/-- `a <= b or b <= a` always holds -/
theorem scalar_le_total {db : Db} (hdb : db.AllWF) {a b : Sc} (ha : a.q.Built db) (hb : b.q.Built db)
    (hq : a.q.qtype = b.q.qtype) :
    a.order db .le b = .ok true ∨ b.order db .le a = .ok true := by
  rw [scalar_order_iff_base hdb ha hb hq, scalar_order_iff_base hdb hb ha hq.symm]
  simp only [Op.apply, Except.ok.injEq, decide_eq_true_eq]
  exact le_total _ _

/-- `a > b` and `b > a` are never both true (nor `a < b` and `b < a`) -/
theorem scalar_gt_asymm {db : Db} (hdb : db.AllWF) {a b : Sc} (ha : a.q.Built db) (hb : b.q.Built db)
    (hq : a.q.qtype = b.q.qtype) :
    ¬ (a.order db .gt b = .ok true ∧ b.order db .gt a = .ok true)
    ∧ ¬ (a.order db .lt b = .ok true ∧ b.order db .lt a = .ok true) := by
  rw [scalar_order_iff_base hdb ha hb hq, scalar_order_iff_base hdb hb ha hq.symm,
    scalar_order_iff_base hdb ha hb hq, scalar_order_iff_base hdb hb ha hq.symm]
  simp only [Op.apply, Except.ok.injEq, decide_eq_true_eq]
  exact ⟨fun h => lt_asymm h.1 h.2, fun h => lt_asymm h.1 h.2⟩

/-- `a <= b` is `not (a > b)` and `a >= b` is `not (a < b)`, whatever the operands (errors included) -/
theorem scalar_le_iff_not_gt (db : Db) (a b : Sc) :
    a.order db .le b = (a.order db .gt b).map (fun r => !r)
    ∧ a.order db .ge b = (a.order db .lt b).map (fun r => !r) := by
  unfold Sc.order
  cases a.valuesToCompare db b with
  | error e => simp [Except.map]
  | ok v => simp [Except.map, Op.apply, ← not_lt]

/-- the two directions agree: `a < b` iff `b > a`, `a <= b` iff `b >= a` -/
theorem scalar_swap {db : Db} (hdb : db.AllWF) {a b : Sc} (ha : a.q.Built db) (hb : b.q.Built db)
    (hq : a.q.qtype = b.q.qtype) :
    a.order db .lt b = b.order db .gt a ∧ a.order db .le b = b.order db .ge a := by
  rw [scalar_order_iff_base hdb ha hb hq, scalar_order_iff_base hdb hb ha hq.symm,
    scalar_order_iff_base hdb ha hb hq, scalar_order_iff_base hdb hb ha hq.symm]
  simp [Op.apply]

/-- ordering values of different quantity types raises `TypeError`, for every operator -/
theorem scalar_order_cross_type_error (db : Db) (op : Op) (a b : Sc) (h : a.q.qtype ≠ b.q.qtype) :
    a.order db op b = .error .type := by
  unfold Sc.order Sc.valuesToCompare
  simp [h]

/-! ## order of FractionScalars -/

/- The full statement
     fscalar_order_iff_base : db.AllWF → a.q.Built db → b.q.Built db → a.q.qtype = b.q.qtype →
       a.order db small op b = .ok (op.apply (a.q.baseAmount a.v.toFloat) (b.q.baseAmount b.v.toFloat))
   is FALSE for the code as it is: `ConvertFractionValue` passes the converted numerator through
   `Fraction(number)`, which keeps it only up to `SMALL = 1e-8` (see `fscalar_order_counterexample`).
   Proved: the statement for operands whose converted numerator survives (`FSc.NumeratorKept`). -/
theorem fscalar_order_iff_base_partial {db : Db} (hdb : db.AllWF) {small : Rat} {a b : FSc}
    (ha : a.q.Built db) (hb : b.q.Built db) (hq : a.q.qtype = b.q.qtype)
    (hk : b.NumeratorKept db small a.q.unit) (op : Op) :
    a.order db small op b = .ok (op.apply (a.q.baseAmount a.v.toFloat) (b.q.baseAmount b.v.toFloat)) := by
  obtain ⟨y, hy, ey⟩ := convertFractionValue_base hdb ha hb hq hk
  unfold FSc.order FSc.valuesToCompare
  simp only [hq, bne_self_eq_false, Bool.false_eq_true, ↓reduceIte, hy]
  rw [Op.apply_base (ha.wf hdb) op a.v.toFloat y.toFloat]
  unfold SimpleQ.baseAmount at *
  rw [ey]

/-- full strength when both operands are written in the same unit (whatever their categories): no
numerator is converted -/
theorem fscalar_same_unit_order_iff_base {db : Db} (hdb : db.AllWF) {small : Rat} (hs : 0 ≤ small)
    {a b : FSc} (ha : a.q.Built db) (hb : b.q.Built db) (hq : a.q.qtype = b.q.qtype)
    (hu : a.q.unit = b.q.unit) (op : Op) :
    a.order db small op b = .ok (op.apply (a.q.baseAmount a.v.toFloat) (b.q.baseAmount b.v.toFloat)) :=
  fscalar_order_iff_base_partial hdb ha hb hq (hu ▸ numeratorKept_same_unit hs b) op

theorem fscalar_le_total_partial {db : Db} (hdb : db.AllWF) {small : Rat} {a b : FSc}
    (ha : a.q.Built db) (hb : b.q.Built db) (hq : a.q.qtype = b.q.qtype)
    (hkb : b.NumeratorKept db small a.q.unit) (hka : a.NumeratorKept db small b.q.unit) :
    a.order db small .le b = .ok true ∨ b.order db small .le a = .ok true := by
  rw [fscalar_order_iff_base_partial hdb ha hb hq hkb, fscalar_order_iff_base_partial hdb hb ha hq.symm hka]
  simp only [Op.apply, Except.ok.injEq, decide_eq_true_eq]
  exact le_total _ _

theorem fscalar_gt_asymm_partial {db : Db} (hdb : db.AllWF) {small : Rat} {a b : FSc}
    (ha : a.q.Built db) (hb : b.q.Built db) (hq : a.q.qtype = b.q.qtype)
    (hkb : b.NumeratorKept db small a.q.unit) (hka : a.NumeratorKept db small b.q.unit) :
    ¬ (a.order db small .gt b = .ok true ∧ b.order db small .gt a = .ok true)
    ∧ ¬ (a.order db small .lt b = .ok true ∧ b.order db small .lt a = .ok true) := by
  rw [fscalar_order_iff_base_partial hdb ha hb hq hkb, fscalar_order_iff_base_partial hdb hb ha hq.symm hka,
    fscalar_order_iff_base_partial hdb ha hb hq hkb, fscalar_order_iff_base_partial hdb hb ha hq.symm hka]
  simp only [Op.apply, Except.ok.injEq, decide_eq_true_eq]
  exact ⟨fun h => lt_asymm h.1 h.2, fun h => lt_asymm h.1 h.2⟩

/-- `a <= b` is `not (a > b)` and `a >= b` is `not (a < b)`, whatever the operands -/
theorem fscalar_le_iff_not_gt (db : Db) (small : Rat) (a b : FSc) :
    a.order db small .le b = (a.order db small .gt b).map (fun r => !r)
    ∧ a.order db small .ge b = (a.order db small .lt b).map (fun r => !r) := by
  unfold FSc.order
  cases a.valuesToCompare db small b with
  | error e => simp [Except.map]
  | ok v => simp [Except.map, Op.apply, ← not_lt]

theorem fscalar_order_cross_type_error (db : Db) (small : Rat) (op : Op) (a b : FSc)
    (h : a.q.qtype ≠ b.q.qtype) : a.order db small op b = .error .type := by
  unfold FSc.order FSc.valuesToCompare
  simp [h]

/-! ## the shipped database (its rows are well-formed by the generated table theorems of C01) -/

theorem posc_scalar_order_iff_base {a b : Sc} (ha : a.q.Built poscDb) (hb : b.q.Built poscDb)
    (hq : a.q.qtype = b.q.qtype) (op : Op) :
    a.order poscDb op b = .ok (op.apply (a.q.baseAmount a.v) (b.q.baseAmount b.v)) :=
  scalar_order_iff_base posc_allWF ha hb hq op

theorem posc_scalar_le_total {a b : Sc} (ha : a.q.Built poscDb) (hb : b.q.Built poscDb)
    (hq : a.q.qtype = b.q.qtype) : a.order poscDb .le b = .ok true ∨ b.order poscDb .le a = .ok true :=
  scalar_le_total posc_allWF ha hb hq

theorem posc_scalar_gt_asymm {a b : Sc} (ha : a.q.Built poscDb) (hb : b.q.Built poscDb)
    (hq : a.q.qtype = b.q.qtype) :
    ¬ (a.order poscDb .gt b = .ok true ∧ b.order poscDb .gt a = .ok true)
    ∧ ¬ (a.order poscDb .lt b = .ok true ∧ b.order poscDb .lt a = .ok true) :=
  scalar_gt_asymm posc_allWF ha hb hq

theorem posc_fscalar_order_iff_base_partial {small : Rat} {a b : FSc} (ha : a.q.Built poscDb)
    (hb : b.q.Built poscDb) (hq : a.q.qtype = b.q.qtype) (hk : b.NumeratorKept poscDb small a.q.unit) (op : Op) :
    a.order poscDb small op b = .ok (op.apply (a.q.baseAmount a.v.toFloat) (b.q.baseAmount b.v.toFloat)) :=
  fscalar_order_iff_base_partial posc_allWF ha hb hq hk op

/-! ## non-vacuity: concrete instances of the hypotheses and of the interesting branches -/

section examples
open Barril.Gen

private def sq (c u : String) : Except ErrKind SimpleQ := poscDb.simpleQuantity (Sym.ofString c) (Sym.ofString u)

private def qM : Qty := ⟨[⟨Sym.ofString "length", Sym.ofString "m", 1, false⟩], 0, Sym.ofString "m"⟩
private def qMtuple : Qty := ⟨[⟨Sym.ofString "length", Sym.ofString "m", 1, true⟩], 0, Sym.ofString "m"⟩

end examples

/-! ## any two operands: Scalar or FractionScalar, table unit / `<unknown>` / empty quantity -/

/-- ordering values of different quantity types raises `TypeError`: every operator, both classes and
their mixtures, the quantity type `Unknown` and the empty quantity included (the guard comes before
any conversion, so the `fix_unknown` identity conversion of `<unknown>` is never reached) -/
theorem operand_order_cross_type_error (db : Db) (small : Rat) (op : Op) (a b : Operand)
    (h : a.q.qtype ≠ b.q.qtype) : a.order db small op b = .error .type := by
  unfold Operand.order
  simp [h]

/-- on two Scalars with table units the general operator is `Sc.order` -/
theorem operand_order_scalar (db : Db) (small : Rat) (op : Op) (a b : Sc) :
    Operand.order db small op (.sc a.v (.simple a.q)) (.sc b.v (.simple b.q)) = a.order db op b := by
  unfold Operand.order Sc.order Sc.valuesToCompare
  simp only [Operand.q, OrdQ.qtype, OrdQ.unit, Operand.valueIn, Operand.own]
  by_cases h : a.q.qtype = b.q.qtype
  · cases hc : b.q.convertScalarValue db b.v a.q.unit <;> simp [h]
  · simp [h]

/-- on two FractionScalars with table units the general operator is `FSc.order` -/
theorem operand_order_fscalar (db : Db) (small : Rat) (op : Op) (a b : FSc) :
    Operand.order db small op (.fsc a.v (.simple a.q)) (.fsc b.v (.simple b.q)) = a.order db small op b := by
  unfold Operand.order FSc.order FSc.valuesToCompare
  simp only [Operand.q, OrdQ.qtype, OrdQ.unit, Operand.valueIn, Operand.own]
  by_cases h : a.q.qtype = b.q.qtype
  · cases hc : convertFractionValue db small b.v b.q a.q.unit <;> simp [h]
  · simp [h]

/-- two operands on the empty quantity: Scalars compare their numbers; a FractionScalar on the right
raises (as the code does: `ObtainQuantity('', ())`) -/
theorem operand_order_empty (db : Db) (small : Rat) (op : Op) (a : Operand) (ha : a.q = .empty) (v : Rat) :
    a.order db small op (.sc v .empty) = .ok (op.apply a.own v) := by
  unfold Operand.order
  rw [ha]
  simp [Operand.q, OrdQ.qtype, Operand.valueIn]

/-! ## comparisons asked after other operations: pooled objects that were hashed, used as operands of
`+ - * /`, compared, converted, copied and pickled first -/

/-- no operation performed with pooled objects alters a descriptor: after any history the pool is the pool -/
theorem stir_keeps_pool (s : Session) (ops : List StirOp) : (s.run ops).pool = s.pool :=
  Session.run_pool s ops

/-- `==` and `!=` after any history are `==` and `!=` asked before it -/
theorem stir_invisible_eq (s : Session) (ops : List StirOp) (small : Rat) (i j : Nat) :
    (s.run ops).eq small i j = s.eq small i j ∧ (s.run ops).ne small i j = s.ne small i j := by
  simp [Session.eq, Session.ne, Session.run_pool]

/-- `hash` after any history, the memoised `Quantity._hash` included, is the hash of the descriptor
(from any state whose memo is consistent with a well-formed pool) -/
theorem stir_invisible_hash_inv {s : Session} (h : s.Inv) (ops : List StirOp) (i : Nat) :
    ((s.run ops).hash i).1 = s.pureHash i := by
  rw [(Session.hash_spec (Session.run_inv h ops) i).1]
  unfold Session.pureHash
  rw [Session.run_pool]

/-- the same from the freshly built pool: nothing is memoised yet -/
theorem stir_invisible_hash {pool : List PObj} (hwf : poolWF pool = true) (ops : List StirOp) (i : Nat) :
    (((Session.fresh pool).run ops).hash i).1 = (Session.fresh pool).pureHash i :=
  stir_invisible_hash_inv (Session.fresh_inv hwf) ops i

/-- the verdicts after any history are a function of the two descriptors and of `a is b` only -/
theorem stirred_verdicts_of_descriptors {pool : List PObj} (hwf : poolWF pool = true) (ops : List StirOp)
    (small : Rat) {i j : Nat} {a b : PObj} (ha : pool[i]? = some a) (hb : pool[j]? = some b) :
    ((Session.fresh pool).run ops).eq small i j = pyEq small a.obj b.obj (a.oid == b.oid)
    ∧ ((Session.fresh pool).run ops).ne small i j = pyNe small a.obj b.obj (a.oid == b.oid)
    ∧ (((Session.fresh pool).run ops).hash i).1 = pyHash a.obj
    ∧ (((Session.fresh pool).run ops).hash j).1 = pyHash b.obj := by
  refine ⟨?_, ?_, ?_, ?_⟩
  · rw [(stir_invisible_eq _ ops small i j).1]; simp [Session.eq, Session.fresh, ha, hb]
  · rw [(stir_invisible_eq _ ops small i j).2]; simp [Session.ne, Session.fresh, ha, hb]
  · rw [stir_invisible_hash hwf]; simp [Session.pureHash, Session.fresh, ha]
  · rw [stir_invisible_hash hwf]; simp [Session.pureHash, Session.fresh, hb]

/-- after any history `==` of two pooled objects never raises -/
theorem stirred_eq_never_raises (s : Session) (ops : List StirOp) (small : Rat) {i j : Nat}
    (hi : i < s.pool.length) (hj : j < s.pool.length) : ∃ r, (s.run ops).eq small i j = .ok r := by
  rw [(stir_invisible_eq s ops small i j).1]
  unfold Session.eq
  rw [List.getElem?_eq_getElem hi, List.getElem?_eq_getElem hj]
  exact eq_never_raises small _ _ _

/-- after any history `==` is symmetric -/
theorem stirred_eq_symm (s : Session) (ops : List StirOp) (small : Rat) (i j : Nat) :
    (s.run ops).eq small i j = (s.run ops).eq small j i := by
  rw [(stir_invisible_eq s ops small i j).1, (stir_invisible_eq s ops small j i).1]
  unfold Session.eq
  cases s.pool[i]? <;> cases s.pool[j]? <;> try rfl
  rename_i a b
  show pyEq small a.obj b.obj (a.oid == b.oid) = pyEq small b.obj a.obj (b.oid == a.oid)
  rw [eq_symm, BEq.comm]

/-- after any history `==` is reflexive -/
theorem stirred_eq_refl (s : Session) (ops : List StirOp) (small : Rat) {i : Nat} (hi : i < s.pool.length) :
    (s.run ops).eq small i i = .ok true := by
  rw [(stir_invisible_eq s ops small i i).1]
  unfold Session.eq
  rw [List.getElem?_eq_getElem hi]
  exact eq_refl small _ _

/-- after any history `!=` is `not ==` -/
theorem stirred_ne_is_not_eq (s : Session) (ops : List StirOp) (small : Rat) (i j : Nat) :
    (s.run ops).ne small i j = ((s.run ops).eq small i j).map (fun r => !r) := by
  rw [(stir_invisible_eq s ops small i j).1, (stir_invisible_eq s ops small i j).2]
  unfold Session.eq Session.ne
  cases s.pool[i]? <;> cases s.pool[j]? <;> try rfl
  exact ne_is_not_eq small _ _ _

/-- after any history equal hashable pooled objects have equal hashes: a memoised `_hash` never
disagrees with what `==` looks at -/
theorem stirred_eq_hash {pool : List PObj} (hwf : poolWF pool = true) (ops : List StirOp) (small : Rat)
    (i j : Nat) (h : ((Session.fresh pool).run ops).eq small i j = .ok true) {ka kb : HKey}
    (ha : (((Session.fresh pool).run ops).hash i).1 = .ok ka)
    (hb : (((Session.fresh pool).run ops).hash j).1 = .ok kb) : ka = kb := by
  rw [stir_invisible_hash hwf] at ha hb
  rw [(stir_invisible_eq _ ops small i j).1] at h
  unfold Session.eq at h
  unfold Session.pureHash at ha hb
  simp only [Session.fresh] at h ha hb
  cases hi : pool[i]? with
  | none => rw [hi] at ha; cases ha
  | some a =>
    cases hj : pool[j]? with
    | none => rw [hj] at hb; cases hb
    | some b =>
      rw [hi, hj] at h
      rw [hi] at ha
      rw [hj] at hb
      refine eq_hash small a.obj b.obj (a.oid == b.oid) ?_ h ha hb
      intro hs
      exact PObj.compatible_obj (poolWF_compatible hwf (List.mem_of_getElem? hi) (List.mem_of_getElem? hj))
        (by simpa using hs)

/-- `hash(o)` never reaches `AbstractValueWithQuantityObject.__hash__` (NotImplementedError) for an object
of the nine classes: Scalar defines `__hash__`; Array, FixedArray and FractionScalar define `__eq__`
without `__hash__` and are unhashable (TypeError) -/
theorem hash_never_the_abstract_base (o : Obj) : o.cls.hashSlot ≠ .raises := by
  generalize o.cls = c
  cases c <;> decide

/-! ## order asked after other operations: pooled Scalars and FractionScalars whose `float()`, `str()`, `repr()`,
`GetValue(unit)` were taken, that were compared in either operand order, hashed, used in arithmetic and copied first -/

/-- whatever is done, a pooled operand keeps the descriptor it was created with -/
theorem ostir_keeps_pool (s : OSession) (ops : List OStirOp) {i : Nat} (hi : i < s.pool.length) :
    (s.run ops).pool[i]? = s.pool[i]? :=
  OSession.run_getElem? s ops hi

/-- every operand of the pool after a history is (a copy of) an operand of the pool before it -/
theorem ostir_only_copies (s : OSession) (ops : List OStirOp) {o : Operand} (h : o ∈ (s.run ops).pool) : o ∈ s.pool :=
  OSession.run_mem s ops h

/-- after ANY history the verdict (or error) of every order operator is the one on the fresh objects -/
theorem stir_invisible_order (s : OSession) (ops : List OStirOp) (db : Db) (small : Rat) (op : Op) {i j : Nat}
    (hi : i < s.pool.length) (hj : j < s.pool.length) :
    (s.run ops).order db small op i j = s.order db small op i j := by
  unfold OSession.order
  rw [OSession.run_getElem? s ops hi, OSession.run_getElem? s ops hj]

/-- after any history `GetValue(unit)` of a pooled operand is the value converted from its descriptor -/
theorem stir_invisible_value (s : OSession) (ops : List OStirOp) (db : Db) (small : Rat) {i : Nat} (u : Sym)
    (hi : i < s.pool.length) : (s.run ops).valueIn db small i u = s.valueIn db small i u := by
  unfold OSession.valueIn
  rw [OSession.run_getElem? s ops hi]

/-- the order verdicts after any history are a function of the two descriptors only -/
theorem stirred_order_of_descriptors {pool : List Operand} (ops : List OStirOp) (db : Db) (small : Rat) (op : Op)
    {i j : Nat} {a b : Operand} (ha : pool[i]? = some a) (hb : pool[j]? = some b) :
    ((OSession.mk pool).run ops).order db small op i j = a.order db small op b := by
  rw [stir_invisible_order _ ops db small op (List.getElem?_eq_some_iff.mp ha).1 (List.getElem?_eq_some_iff.mp hb).1]
  simp [OSession.order, ha, hb]

/-- a copy made at any moment orders as its original does, on either side, after any further history -/
theorem stirred_copy_orders_as_original (s : OSession) (ops : List OStirOp) (db : Db) (small : Rat) (op : Op)
    {k : Nat} (hk : k < s.pool.length) (j : Nat) :
    ((s.step (.copy k)).run ops).order db small op s.pool.length j = ((s.step (.copy k)).run ops).order db small op k j
    ∧ ((s.step (.copy k)).run ops).order db small op j s.pool.length = ((s.step (.copy k)).run ops).order db small op j k := by
  have hp : (s.step (.copy k)).pool = s.pool ++ [s.pool[k]] := by
    simp [OSession.step, List.getElem?_eq_getElem hk]
  have hl : (s.step (.copy k)).pool.length = s.pool.length + 1 := by rw [hp]; simp
  have e : ((s.step (.copy k)).run ops).pool[s.pool.length]? = ((s.step (.copy k)).run ops).pool[k]? := by
    rw [OSession.run_getElem? _ ops (by omega), OSession.run_getElem? _ ops (by omega), hp]
    simp [List.getElem?_append_left hk, List.getElem?_eq_getElem hk]
  unfold OSession.order
  rw [e]
  exact ⟨rfl, rfl⟩

/-- **order follows the physical amount after any history**: two pooled Scalars of one quantity type -/
theorem stirred_scalar_order_iff_base {db : Db} (hdb : db.AllWF) {pool : List Operand} (ops : List OStirOp)
    (small : Rat) {i j : Nat} {a b : Sc} (hi : pool[i]? = some a.toOperand) (hj : pool[j]? = some b.toOperand)
    (ha : a.q.Built db) (hb : b.q.Built db) (hq : a.q.qtype = b.q.qtype) (op : Op) :
    ((OSession.mk pool).run ops).order db small op i j
      = .ok (op.apply (a.q.baseAmount a.v) (b.q.baseAmount b.v)) := by
  rw [stirred_order_of_descriptors ops db small op hi hj]
  exact (operand_order_scalar db small op a b).trans (scalar_order_iff_base hdb ha hb hq op)

/-- after any history `a > b` and `b > a` (`a < b` and `b < a`) are never both true, and `a <= b` or `b <= a` holds -/
theorem stirred_scalar_coherent {db : Db} (hdb : db.AllWF) {pool : List Operand} (ops : List OStirOp)
    (small : Rat) {i j : Nat} {a b : Sc} (hi : pool[i]? = some a.toOperand) (hj : pool[j]? = some b.toOperand)
    (ha : a.q.Built db) (hb : b.q.Built db) (hq : a.q.qtype = b.q.qtype) :
    let s := (OSession.mk pool).run ops
    ¬ (s.order db small .gt i j = .ok true ∧ s.order db small .gt j i = .ok true)
    ∧ ¬ (s.order db small .lt i j = .ok true ∧ s.order db small .lt j i = .ok true)
    ∧ (s.order db small .le i j = .ok true ∨ s.order db small .le j i = .ok true) := by
  intro s
  simp only [s]
  rw [stirred_scalar_order_iff_base hdb ops small hi hj ha hb hq, stirred_scalar_order_iff_base hdb ops small hj hi hb ha hq.symm,
    stirred_scalar_order_iff_base hdb ops small hi hj ha hb hq, stirred_scalar_order_iff_base hdb ops small hj hi hb ha hq.symm,
    stirred_scalar_order_iff_base hdb ops small hi hj ha hb hq, stirred_scalar_order_iff_base hdb ops small hj hi hb ha hq.symm]
  simp only [Op.apply, Except.ok.injEq, decide_eq_true_eq]
  exact ⟨fun h => lt_asymm h.1 h.2, fun h => lt_asymm h.1 h.2, le_total _ _⟩

/-- the same for two pooled FractionScalars (with the hypothesis of `fscalar_order_iff_base_partial`: the converted
numerator survives `Fraction(number)`; for equal units it always does) -/
theorem stirred_fscalar_order_iff_base_partial {db : Db} (hdb : db.AllWF) {pool : List Operand} (ops : List OStirOp)
    {small : Rat} {i j : Nat} {a b : FSc} (hi : pool[i]? = some a.toOperand) (hj : pool[j]? = some b.toOperand)
    (ha : a.q.Built db) (hb : b.q.Built db) (hq : a.q.qtype = b.q.qtype)
    (hk : b.NumeratorKept db small a.q.unit) (op : Op) :
    ((OSession.mk pool).run ops).order db small op i j
      = .ok (op.apply (a.q.baseAmount a.v.toFloat) (b.q.baseAmount b.v.toFloat)) := by
  rw [stirred_order_of_descriptors ops db small op hi hj]
  exact (operand_order_fscalar db small op a b).trans (fscalar_order_iff_base_partial hdb ha hb hq hk op)

/-- after any history ordering two pooled operands of different quantity types raises `TypeError` -/
theorem stirred_order_cross_type_error {pool : List Operand} (ops : List OStirOp) (db : Db) (small : Rat) (op : Op)
    {i j : Nat} {a b : Operand} (ha : pool[i]? = some a) (hb : pool[j]? = some b) (h : a.q.qtype ≠ b.q.qtype) :
    ((OSession.mk pool).run ops).order db small op i j = .error .type := by
  rw [stirred_order_of_descriptors ops db small op ha hb]
  exact operand_order_cross_type_error db small op a b h

end Barril
