/- Non-vacuity examples of C06 (moved out of Props/C06.lean by tools/split_examples.py: they evaluate
concrete instances, many over the regenerated tables, and must not be able to stop the theorem module from
building).  Not property theorems: the check builds this module separately and only records the outcome. -/
import Barril.Props.C06
import Barril.Proofs.CompoundLemmas
import Barril.Proofs.CompoundAlgLemmas
import Barril.Proofs.CompoundIndexLemmas
import Barril.Gen.ThmC06Posc
import Barril.Gen.ThmIdxPosc
import Barril.Gen.ThmCorePosc
import Barril.Gen.Dbs

namespace Barril
open Barril.Gen

private def look0 : Sym → Option CRow := fun s => lookL s poscC
private def rowOf (s : String) : Option CRow := lookL (Sym.ofString s) poscC

/-- `ft/s` is read as `ft` over `s` and agrees exactly -/
example : (rowOf "ft/s").map (fun c => ((reading look0 c).map (fun rd => (expected rd).map (·.1)), c.slope))
    = some (some (some (R 381 1250)), R 381 1250) := by decide +kernel
/-- `1/galUK`, `psi2.d/cP.ft3`, `lbm/ft3` and `L/100km` (a decimal multiplier) are read as compounds -/
example : ((rowOf "1/galUK").map (isCompound look0), (rowOf "psi2.d/cP.ft3").map (isCompound look0),
    (rowOf "lbm/ft3").map (isCompound look0), (rowOf "L/100km").map (isCompound look0))
    = (some true, some true, some true, some true) := by decide +kernel
/-- `kPa` is kilo·`Pa`, `pS` is pico·`S`, `Mm` is mega·`m` (by symbol and by registered name) -/
example : ((rowOf "kPa").bind (fun c => (siReading look0 c).map (fun p => (p.1.sym, p.2))),
    (rowOf "pS").bind (fun c => (siReading look0 c).map (fun p => (p.1.sym, p.2))),
    (rowOf "Mm").bind (fun c => (siReading look0 c).map (fun p => (p.1.sym, p.2))))
    = (some (Sym.ofString "Pa", 3), some (Sym.ofString "S", -12), some (Sym.ofString "m", 6)) := by decide +kernel
/-- an atomic base unit is not read at all (the predicate is not vacuously about everything) -/
example : (rowOf "m").map (covered look0) = some false := by decide +kernel

end Barril
