/-
C02 — all conversion routes agree and keep physical value, category and type.

Property theorems only (helper lemmas: `Barril/Proofs/RoutesLemmas.lean`).  Every theorem is about
the executable model `Barril/Model/Routes.lean`, which follows the Python function by function, and
compares a route with `Db.convert` (`UnitDatabase.Convert` on a float, the subject of C01), for all
values, all container lengths and every database; the instances for the shipped tables follow.

Reading guide: `newSimple db c u0 = .ok q` says "`q` is the quantity `ObtainQuantity(u0, c)`
returns" (so `q.unit` is `u0`, or its current spelling when `u0` is a legacy one);
`Kind.mk k xs` is the list / tuple / ndarray holding the numbers `xs`.
-/
import Barril.Proofs.RoutesLemmas
import Barril.Props.C01

namespace Barril.Routes
open Barril Barril.Gen

/-! ### 1. `Scalar.GetValue(unit)`, `Quantity.ConvertScalarValue`, `Quantity.Convert` -/

/-- **fast path**: `Quantity.ConvertScalarValue` (cached to-base callable) computes exactly what the
database's float conversion computes, errors included -/
theorem convertScalarValue_eq_convert {db : Db} {c u0 : Sym} {q : Quantity}
    (hq : newSimple db c u0 = .ok q) (x : Rat) (v : Sym) :
    q.convertScalarValue db x v = db.convert c q.unit v x := by
  obtain ⟨ci, u', row, hc, _, hrow, rfl⟩ := newSimple_ok hq
  exact simple_convertScalarValue hc hrow x v

/-- **`Scalar.GetValue(unit)`** -/
theorem scalar_getValue_eq_convert {db : Db} {c u0 : Sym} {q : Quantity}
    (hq : newSimple db c u0 = .ok q) (x : Rat) (v : Sym) :
    (Scalar.mk q x).getValue db (some v) = db.convert c q.unit v x :=
  convertScalarValue_eq_convert hq x v

/-- **generic path**: `Quantity.Convert` on a float agrees with the fast path -/
theorem quantity_convert_num {db : Db} {c u0 : Sym} {q : Quantity}
    (hq : newSimple db c u0 = .ok q) (x : Rat) (v : Sym) :
    q.convert db (.num x) v = wrapNum (q.convertScalarValue db x v) := by
  rw [convertScalarValue_eq_convert hq]
  obtain ⟨ci, u', row, hc, _, hrow, rfl⟩ := newSimple_ok hq
  simp only [Quantity.convert, Quantity.composingCats, Quantity.composingUnits, convertTo, Quantity.unit]
  exact convertStr_num db c u' v x

/-- **`Quantity.Convert` on a list, a tuple or an ndarray** of any length: every element is converted
by the database's float conversion (generator path = vectorised path) -/
theorem quantity_convert_kind {db : Db} {c u0 : Sym} {q : Quantity} (hq : newSimple db c u0 = .ok q)
    {v : Sym} {x0 y0 : Rat} (h : db.convert c q.unit v x0 = .ok y0) (k : Kind) (xs : List Rat) :
    q.convert db (k.mk xs) v = (mapE (db.convert c q.unit v) xs).map k.mk := by
  obtain ⟨ci, u', row, hc, _, hrow, rfl⟩ := newSimple_ok hq
  simp only [Quantity.convert, Quantity.composingCats, Quantity.composingUnits, convertTo, Quantity.unit]
  exact convertStr_kind h k xs

/-! ### 2. `UnitDatabase.Convert` on floats/ints, lists, tuples, ndarrays, and with exponent lists -/

/-- float / int (the model computes in exact rationals: an int is the same number) -/
theorem convertAny_num (db : Db) (cq u v : Sym) (x : Rat) :
    convertAny db (.str cq) (.str u) (.str v) (.num x) = some (wrapNum (db.convert cq u v x)) := by
  simp [convertAny, convertStr_num]

/-- list / tuple / ndarray of any length -/
theorem convertAny_kind {db : Db} {cq u v : Sym} {x0 y0 : Rat} (h : db.convert cq u v x0 = .ok y0)
    (k : Kind) (xs : List Rat) :
    convertAny db (.str cq) (.str u) (.str v) (k.mk xs) = some ((mapE (db.convert cq u v) xs).map k.mk) := by
  simp [convertAny, convertStr_kind h]

/-- in a database whose rows are well-formed (C01) the container routes never fail half-way: the
result exists, has the same kind and length, and is the float conversion element by element -/
theorem convertAny_kind_elementwise {db : Db} (hdb : db.AllWF) {cq u v : Sym} {x0 y0 : Rat}
    (h : db.convert cq u v x0 = .ok y0) (k : Kind) (xs : List Rat) :
    ∃ ys, convertAny db (.str cq) (.str u) (.str v) (k.mk xs) = some (.ok (k.mk ys))
      ∧ Elementwise (db.convert cq u v) xs ys := by
  obtain ⟨ys, hys⟩ := mapE_total (fun x => convert_total hdb h x) xs
  exact ⟨ys, by rw [convertAny_kind h, hys]; rfl, mapE_ok_elementwise hys⟩

/-- the same unit on both sides returns the value itself — strings and exponent lists alike -/
theorem convertAny_same_unit (db : Db) (cq : CatArg) (a : UnitArg) (val : Val) :
    convertAny db cq a a val = some (.ok val) := by
  cases a with
  | str u => simp [convertAny, convertStr]
  | list es => simp [convertAny, UnitArg.sameExps]
  | tuple es => simp [convertAny, UnitArg.sameExps]

/-- with a string target `UnitDatabase.Convert` never reaches the `math.pow` part (this is the
function `Quantity.Convert` is modelled with) -/
theorem convertAny_str_target (db : Db) (cq : CatArg) (fromU : UnitArg) (v : Sym) (val : Val) :
    convertAny db cq fromU (.str v) val = some (convertTo db cq fromU v val) := by
  cases fromU with
  | str u => simp [convertAny, convertTo]
  | list es =>
    simp only [convertAny, convertTo]
    split
    · rfl
    · simp only [UnitArg.exps, convertWithExp]
      match es with
      | [] => rfl
      | [(u, e)] =>
        by_cases he : e = 1
        · subst he; simp
        · simp [he]
      | _ :: _ :: _ => rfl
  | tuple es =>
    simp only [convertAny, convertTo]
    split
    · rfl
    · simp only [UnitArg.exps, convertWithExp]
      match es with
      | [] => rfl
      | [(u, e)] =>
        by_cases he : e = 1
        · subst he; simp
        · simp [he]
      | _ :: _ :: _ => rfl

/-- the scale factor `convScale` finds is the factor of the database's float conversion -/
theorem convScale_convert {db : Db} {cq u v : Sym} {k : Rat} (h : convScale db (.str cq) u v = some (.ok k))
    (x : Rat) : db.convert cq u v x = .ok (k * x) := by
  unfold convScale at h
  by_cases huv : (u == v) = true
  · have : u = v := by simpa using huv
    subst this
    simp at h; subst h
    simp [convert_same]
  · have huv' : (u == v) = false := by simpa using huv
    simp only [huv', Bool.false_eq_true, ↓reduceIte, CatArg.typeOf] at h
    cases hq : db.typeOf cq with
    | error e => rw [hq] at h; simp at h
    | ok qt =>
      rw [hq] at h; simp only at h
      cases hu : db.getInfo qt u true with
      | error e => rw [hu] at h; simp at h
      | ok ru =>
        rw [hu] at h; simp only at h
        cases hv : db.getInfo qt v true with
        | error e => rw [hv] at h; simp at h
        | ok rv =>
          rw [hv] at h; simp only at h
          cases hs : scaleOf ru rv with
          | none => rw [hs] at h; simp at h
          | some k' =>
            rw [hs] at h
            simp at h; subst h
            rw [convert_of_rows huv' hq hu hv]
            unfold scaleOf at hs
            split at hs
            · rename_i hcond
              simp only [Bool.and_eq_true, beq_iff_eq, bne_iff_ne, ne_eq] at hcond
              obtain ⟨⟨⟨⟨⟨⟨⟨o1, o2⟩, tp⟩, ts⟩, tr⟩, fp⟩, fs⟩, fr⟩ := hcond
              cases hs
              unfold convRows Mob.apply Mob.eval
              simp [o1, o2, tp, ts, tr, fp, fs, fr]
              field_simp
            · cases hs

/-- **the exponent path** (`_ConvertWithExp` through `(unit, exp)` lists), for offset-free units:
the result is the amount times the `e`-th power of the factor of the float conversion -/
theorem convertAny_exponent {db : Db} {cq u v : Sym} {k : Rat} {e : Int}
    (hk : convScale db (.str cq) u v = some (.ok k)) (he1 : e ≠ 1) (he0 : e ≠ 0) (huv : u ≠ v)
    (x : Rat) (hdom : 0 < e ∨ (x ≠ 0 ∧ k ≠ 0)) :
    convertAny db (.str cq) (.list [(u, e)]) (.list [(v, e)]) (.num x) = some (.ok (.num (powInt k e * x))) := by
  have hne : ¬ ((u, e) = (v, e)) := by
    intro h; exact huv (Prod.mk.inj h).1
  simp only [convertAny, UnitArg.sameExps, UnitArg.isTuple, UnitArg.exps, CatArg.unwrap1, convertWithExp]
  simp only [BEq.rfl, Bool.true_and, List.cons.injEq, and_true, bne_self_eq_false, Bool.false_eq_true,
    ↓reduceIte, beq_iff_eq, he1, powPath, he0, hk]
  have h1 : ([(u, e)] == [(v, e)]) = false := by
    simp [hne]
  rw [if_neg hne]
  have h2 : ¬ (x = 0 ∧ e < 0) := by
    rintro ⟨hx, hneg⟩
    rcases hdom with h | h
    · omega
    · exact h.1 hx
  have h3 : ¬ (k = 0 ∧ e < 0) := by
    rintro ⟨hx, hneg⟩
    rcases hdom with h | h
    · omega
    · exact h.2 hx
  simp only [Bool.and_eq_true, beq_iff_eq, decide_eq_true_eq, h2, h3, ↓reduceIte]
  congr 3
  unfold absQ
  by_cases hx : x < 0
  · simp only [hx, ↓reduceIte]; ring
  · simp only [hx, ↓reduceIte]

/-! ### 3. `Array.GetValues(unit)` -/

/-- flat containers of any kind and length -/
theorem array_getValues_kind {db : Db} {c u0 : Sym} {q : Quantity} (hq : newSimple db c u0 = .ok q)
    {v : Sym} {x0 y0 : Rat} (h : db.convert c q.unit v x0 = .ok y0) (k : Kind) (xs : List Rat) :
    (Arr.mk q (k.mk xs)).getValues db (some v) = (mapE (db.convert c q.unit v) xs).map k.mk := by
  simp only [Arr.getValues, isListOfTuples_kind]
  by_cases hvu : (v == q.unit) = true
  · have : v = q.unit := by simpa using hvu
    subst this
    have : mapE (db.convert c q.unit q.unit) xs = .ok xs := by
      rw [mapE_congr (g := fun x => .ok x) (fun x => convert_same db c q.unit x)]
      exact mapE_ok_id xs
    simp [this, Except.map]
  · simp only [hvu, Bool.false_eq_true, ↓reduceIte]
    exact quantity_convert_kind hq h k xs

/-- one tuple of the list-of-tuples branch -/
theorem convTupleElem_eq {db : Db} {c u0 : Sym} {q : Quantity} (hq : newSimple db c u0 = .ok q)
    (v : Sym) (xs : List Rat) :
    convTupleElem db q v (.tup xs) = (mapE (db.convert c q.unit v) xs).map Elem.tup := by
  simp only [convTupleElem]
  rw [mapE_congr (g := db.convert c q.unit v) (fun x => by
    rw [quantity_convert_num hq, convertScalarValue_eq_convert hq]
    exact asNum_wrapNum _)]
  cases mapE (db.convert c q.unit v) xs <;> rfl

/-- **tuple-of-tuples / list-of-tuples** (`Array.GetAbstractValue`'s own branch): nested, element by
element, any outer and inner lengths -/
theorem array_getValues_tuples {db : Db} {c u0 : Sym} {q : Quantity} (hq : newSimple db c u0 = .ok q)
    (v : Sym) (outerTuple : Bool) (xs : List Rat) (xss : List (List Rat)) :
    (Arr.mk q (mkTuples outerTuple (xs :: xss))).getValues db (some v)
      = (mapE (mapE (db.convert c q.unit v)) (xs :: xss)).map (mkTuples outerTuple) := by
  have key : ∀ l : List (List Rat), mapE (convTupleElem db q v) (l.map .tup)
      = (mapE (mapE (db.convert c q.unit v)) l).map (List.map Elem.tup) := by
    intro l
    induction l with
    | nil => rfl
    | cons a l ih =>
      simp only [List.map_cons, mapE]
      rw [convTupleElem_eq hq, ih]
      cases mapE (db.convert c q.unit v) a with
      | error e => rfl
      | ok ys =>
        cases mapE (mapE (db.convert c q.unit v)) l <;> rfl
  by_cases hvu : (v == q.unit) = true
  · have hv : v = q.unit := by simpa using hvu
    subst hv
    have : mapE (mapE (db.convert c q.unit q.unit)) (xs :: xss) = .ok (xs :: xss) := by
      have e1 : mapE (db.convert c q.unit q.unit) = fun l => .ok l := by
        funext l
        rw [mapE_congr (g := fun x => .ok x) (fun x => convert_same db c q.unit x)]
        exact mapE_ok_id l
      rw [e1]; exact mapE_ok_id _
    simp [Arr.getValues, this, Except.map]
  · cases outerTuple with
    | false =>
      simp only [Arr.getValues, hvu, Bool.false_eq_true, ↓reduceIte, mkTuples, List.map_cons, isListOfTuples]
      rw [← List.map_cons, key]
      cases mapE (mapE (db.convert c q.unit v)) (xs :: xss) <;> simp [wrapList, Except.map, mkTuples]
    | true =>
      simp only [Arr.getValues, hvu, Bool.false_eq_true, ↓reduceIte, mkTuples, List.map_cons, isListOfTuples]
      rw [← List.map_cons, key]
      cases mapE (mapE (db.convert c q.unit v)) (xs :: xss) <;> simp [wrapTuple, Except.map, mkTuples]

/-! ### 4. `CreateCopy(unit=…)`, `ChangeScalars`: value, category and quantity type -/

/-- what `ObtainQuantity(v, c)` returns has category `c` and the quantity type of `c` -/
theorem newSimple_category_qtype {db : Db} {c v : Sym} {q' : Quantity} (h : newSimple db c v = .ok q') :
    q'.category = c ∧ ∀ ci, db.catByName c = some ci → q'.qtype = ci.qtype := by
  obtain ⟨ci, u', row, hc, _, _, rfl⟩ := newSimple_ok h
  refine ⟨rfl, ?_⟩
  intro ci' hci'
  rw [hc] at hci'; cases hci'; rfl

/-- **`Scalar.CreateCopy(unit=v)`** is: convert the value with the database's float conversion,
then build the quantity from `(v, current category)` -/
theorem scalar_createCopy_unit {db : Db} {c u0 : Sym} {q : Quantity} (hq : newSimple db c u0 = .ok q)
    (hc0 : c ≠ 0) (x : Rat) (v : Sym) :
    (Scalar.mk q x).createCopy db none (some v) none =
      match db.convert c q.unit v x with
      | .error e => .error e
      | .ok y =>
        match newSimple db c v with
        | .error e => .error e
        | .ok q' => .ok ⟨q', y⟩ := by
  have hcat : q.category = c := (newSimple_category_qtype hq).1
  simp only [Scalar.createCopy, Scalar.copyValue, scalar_getValue_eq_convert hq, copyQuantity, hcat]
  have : (c != 0) = true := by simpa using hc0
  simp only [this, ↓reduceIte]
  cases db.convert c q.unit v x with
  | error e => rfl
  | ok y => simp only; cases newSimple db c v <;> rfl

/-- **the re-expressed Scalar keeps the category and the quantity type of its source** and carries
the converted amount -/
theorem scalar_createCopy_keeps_category_type {db : Db} {c u0 : Sym} {q : Quantity}
    (hq : newSimple db c u0 = .ok q) (hc0 : c ≠ 0) {x : Rat} {v : Sym} {s' : Scalar}
    (h : (Scalar.mk q x).createCopy db none (some v) none = .ok s') :
    s'.q.category = q.category ∧ s'.q.qtype = q.qtype ∧ db.convert c q.unit v x = .ok s'.value
      ∧ newSimple db c v = .ok s'.q := by
  rw [scalar_createCopy_unit hq hc0] at h
  cases h1 : db.convert c q.unit v x with
  | error e => rw [h1] at h; cases h
  | ok y =>
    rw [h1] at h; simp only at h
    cases h2 : newSimple db c v with
    | error e => rw [h2] at h; cases h
    | ok q' =>
      rw [h2] at h; cases h
      obtain ⟨ci, u', row, hc, _, _, rfl⟩ := newSimple_ok hq
      obtain ⟨k1, k2⟩ := newSimple_category_qtype h2
      exact ⟨k1, k2 ci hc, rfl, rfl⟩

/-- **`Array.CreateCopy(unit=v)`** for flat containers of every kind and length -/
theorem array_createCopy_unit {db : Db} {c u0 : Sym} {q : Quantity} (hq : newSimple db c u0 = .ok q)
    (hc0 : c ≠ 0) {v : Sym} {x0 y0 : Rat} (h : db.convert c q.unit v x0 = .ok y0) (k : Kind) (xs : List Rat) :
    (Arr.mk q (k.mk xs)).createCopy db none (some v) none =
      match mapE (db.convert c q.unit v) xs with
      | .error e => .error e
      | .ok ys =>
        match newSimple db c v with
        | .error e => .error e
        | .ok q' => .ok ⟨q', k.mk ys⟩ := by
  have hcat : q.category = c := (newSimple_category_qtype hq).1
  simp only [Arr.createCopy, Arr.copyValues, array_getValues_kind hq h, copyQuantity, hcat]
  have : (c != 0) = true := by simpa using hc0
  simp only [this, ↓reduceIte]
  cases mapE (db.convert c q.unit v) xs <;> rfl

/-- **`ChangeScalars(owner, name=(None, v))`** replaces the attribute by `CreateCopy(unit=v)` -/
theorem changeScalars_unit (db : Db) (name : Sym) (s : Scalar) (v : Sym) :
    changeScalars db [(name, s)] [(name, none, some v)] =
      match s.createCopy db none (some v) none with
      | .error e => .error e
      | .ok s' => .ok [(name, s')] := by
  simp only [changeScalars, List.find?, BEq.rfl]
  cases s.createCopy db none (some v) none <;> simp [setAttr]

/-! ### 4b. `CreateCopy(unit=…, category=…)`: every argument form -/

/-- **`Scalar.CreateCopy(unit=v, category=c2)`**, value omitted: the amount is converted by the
database's float conversion of the object's OWN category / unit to `v` — whatever category is passed —
and the quantity is `ObtainQuantity(v, c2)` -/
theorem scalar_createCopy_unit_category {db : Db} {c u0 : Sym} {q : Quantity}
    (hq : newSimple db c u0 = .ok q) (x : Rat) (v c2 : Sym) :
    (Scalar.mk q x).createCopy db none (some v) (some c2) =
      match db.convert c q.unit v x with
      | .error e => .error e
      | .ok y =>
        match newSimple db c2 v with
        | .error e => .error e
        | .ok q' => .ok ⟨q', y⟩ := by
  simp only [Scalar.createCopy, Scalar.copyValue, scalar_getValue_eq_convert hq, copyQuantity]
  cases db.convert c q.unit v x with
  | error e => rfl
  | ok y => simp only; cases newSimple db c2 v <;> rfl

/-- **passing the object's own category changes nothing**: `CreateCopy(value, unit=v, category=own)`
= `CreateCopy(value, unit=v)`, for every Scalar (simple or derived) that has a category, with the
value given or omitted -/
theorem createCopy_with_own_category_eq_createCopy (db : Db) (s : Scalar) (hc : s.q.category ≠ 0)
    (value : Option Rat) (v : Sym) :
    s.createCopy db value (some v) (some s.q.category) = s.createCopy db value (some v) none := by
  have : (s.q.category != 0) = true := by simpa using hc
  simp only [Scalar.createCopy, copyQuantity, this, ↓reduceIte]

/-- the same for `Array.CreateCopy` / `FixedArray.CreateCopy`, every container kind (flat, list of
tuples, ndarray) and every length -/
theorem array_createCopy_with_own_category_eq_createCopy (db : Db) (a : Arr) (hc : a.q.category ≠ 0)
    (values : Option Val) (v : Sym) :
    a.createCopy db values (some v) (some a.q.category) = a.createCopy db values (some v) none := by
  have : (a.q.category != 0) = true := by simpa using hc
  simp only [Arr.createCopy, copyQuantity, this, ↓reduceIte]

/-- **`CreateCopy(unit=v, category=c2)` to another category**: the copy has the category that was
given and that category's quantity type (the source's, when both categories share it) and carries
the converted amount -/
theorem scalar_createCopy_other_category {db : Db} {c u0 : Sym} {q : Quantity}
    (hq : newSimple db c u0 = .ok q) {x : Rat} {v c2 : Sym} {s' : Scalar}
    (h : (Scalar.mk q x).createCopy db none (some v) (some c2) = .ok s') :
    s'.q.category = c2 ∧ db.convert c q.unit v x = .ok s'.value ∧ newSimple db c2 v = .ok s'.q
      ∧ ∀ ci ci2, db.catByName c = some ci → db.catByName c2 = some ci2 → ci2.qtype = ci.qtype →
          s'.q.qtype = q.qtype := by
  rw [scalar_createCopy_unit_category hq] at h
  cases h1 : db.convert c q.unit v x with
  | error e => rw [h1] at h; cases h
  | ok y =>
    rw [h1] at h; simp only at h
    cases h2 : newSimple db c2 v with
    | error e => rw [h2] at h; cases h
    | ok q' =>
      rw [h2] at h; cases h
      obtain ⟨k1, k2⟩ := newSimple_category_qtype h2
      refine ⟨k1, rfl, rfl, ?_⟩
      intro ci ci2 hci hci2 hqt
      rw [k2 ci2 hci2, hqt, (newSimple_category_qtype hq).2 ci hci]

/-- **`Array.CreateCopy(unit=v, category=c2)`** for flat containers of every kind and length: the
numbers are the float conversion element by element, the quantity is `ObtainQuantity(v, c2)` -/
theorem array_createCopy_unit_category {db : Db} {c u0 : Sym} {q : Quantity} (hq : newSimple db c u0 = .ok q)
    {v : Sym} {x0 y0 : Rat} (h : db.convert c q.unit v x0 = .ok y0) (c2 : Sym) (k : Kind) (xs : List Rat) :
    (Arr.mk q (k.mk xs)).createCopy db none (some v) (some c2) =
      match mapE (db.convert c q.unit v) xs with
      | .error e => .error e
      | .ok ys =>
        match newSimple db c2 v with
        | .error e => .error e
        | .ok q' => .ok ⟨q', k.mk ys⟩ := by
  simp only [Arr.createCopy, Arr.copyValues, array_getValues_kind hq h, copyQuantity]
  cases mapE (db.convert c q.unit v) xs <;> rfl

/-- **list of tuples / tuple of tuples** through `CreateCopy(unit=v, category=c2)`: per coordinate the
float conversion, nesting kept -/
theorem array_createCopy_tuples_category {db : Db} {c u0 : Sym} {q : Quantity} (hq : newSimple db c u0 = .ok q)
    (v c2 : Sym) (outerTuple : Bool) (xs : List Rat) (xss : List (List Rat)) :
    (Arr.mk q (mkTuples outerTuple (xs :: xss))).createCopy db none (some v) (some c2) =
      match mapE (mapE (db.convert c q.unit v)) (xs :: xss) with
      | .error e => .error e
      | .ok yss =>
        match newSimple db c2 v with
        | .error e => .error e
        | .ok q' => .ok ⟨q', mkTuples outerTuple yss⟩ := by
  simp only [Arr.createCopy, Arr.copyValues, array_getValues_tuples hq, copyQuantity]
  cases mapE (mapE (db.convert c q.unit v)) (xs :: xss) <;> rfl

/-- a category without a unit is rejected (`TypeError`), whatever the object holds -/
theorem createCopy_category_without_unit (db : Db) (s : Scalar) (value : Option Rat) (c2 : Sym) :
    s.createCopy db value none (some c2) = .error .type := by
  cases value <;> simp [Scalar.createCopy, Scalar.copyValue, Scalar.getValue, copyQuantity]

theorem array_createCopy_category_without_unit (db : Db) (a : Arr) (values : Option Val) (c2 : Sym) :
    a.createCopy db values none (some c2) = .error .type := by
  cases values <;> simp [Arr.createCopy, Arr.copyValues, Arr.getValues, copyQuantity]

/-! ### 5. `FixedArray.IndexAsScalar`, `FixedArray.ChangingIndex` -/

/-- **`IndexAsScalar(i, quantity)`**: the item at the (Python-normalised) index, converted by the
database's float conversion, with the requested quantity -/
theorem indexAsScalar_eq {db : Db} (hdb : db.AllWF) {c u0 : Sym} {q : Quantity}
    (hq : newSimple db c u0 = .ok q) (q2 : Quantity) {x0 y0 : Rat}
    (h : db.convert c q.unit q2.unit x0 = .ok y0) (k : Kind) (xs : List Rat) (n : Nat) {i : Int} {j : Nat}
    (hi : normIndex xs.length i = .ok j) :
    ∃ x y, xs[j]? = some x ∧ db.convert c q.unit q2.unit x = .ok y
      ∧ (FixedArr.mk n ⟨q, k.mk xs⟩).indexAsScalar db i (some q2) = .ok ⟨q2, y⟩ := by
  obtain ⟨ys, hys⟩ := mapE_total (fun x => convert_total hdb h x) xs
  have hlen : ys.length = xs.length := (mapE_ok_elementwise hys).1.symm
  have hj : j < xs.length := by
    unfold normIndex at hi
    split at hi
    · split at hi
      · cases hi; assumption
      · cases hi
    · split at hi
      · cases hi
        rename_i h1 h2
        omega
      · cases hi
  obtain ⟨y, hy, hconv⟩ := mapE_getElem hys (List.getElem?_eq_getElem hj)
  refine ⟨xs[j], y, List.getElem?_eq_getElem hj, hconv, ?_⟩
  simp only [FixedArr.indexAsScalar, Option.getD_some, array_getValues_kind hq h, hys, Except.map]
  have hit : (k.mk ys).items.length = xs.length := by simp [items_kind, hlen]
  have hne : ∀ e, k.mk ys ≠ .num e := by intro e; cases k <;> simp [Kind.mk]
  have hidx : (k.mk ys).index i = .ok (.num y) := by
    unfold Val.index
    cases k <;> simp [Kind.mk, Val.items, hlen, hi, hy]
  simp [hidx, Elem.asNum]

/-- **`ChangingIndex(i, Scalar)`**: every other item is the old one re-expressed in the Scalar's
unit by the float conversion, item `i` is the Scalar's own value, the length is kept and the result
takes the Scalar's quantity (`use_value_unit=True`) -/
theorem changingIndex_scalar {db : Db} (hdb : db.AllWF) {c u0 : Sym} {q : Quantity}
    (hq : newSimple db c u0 = .ok q) (s : Scalar) {x0 y0 : Rat}
    (h : db.convert c q.unit s.q.unit x0 = .ok y0) (k : Kind) (xs : List Rat) {i : Int} {j : Nat}
    (hi : normIndex xs.length i = .ok j) (hn : 2 ≤ xs.length) :
    ∃ ys, Elementwise (db.convert c q.unit s.q.unit) xs ys
      ∧ (FixedArr.mk xs.length ⟨q, k.mk xs⟩).changingIndex db i (.scalar s) true
          = .ok ⟨xs.length, ⟨s.q, .tuple (setAt (ys.map .num) j (.num s.value))⟩⟩ := by
  obtain ⟨ys, hys⟩ := mapE_total (fun x => convert_total hdb h x) xs
  have hlen : ys.length = xs.length := (mapE_ok_elementwise hys).1.symm
  refine ⟨ys, mapE_ok_elementwise hys, ?_⟩
  have hown : s.getValue db (some s.q.unit) = .ok s.value := by
    simp [Scalar.getValue, Quantity.convertScalarValue]
  have hn' : ¬ xs.length < 2 := by omega
  simp only [FixedArr.changingIndex, FixedArr.scalarFor, ↓reduceIte, array_getValues_kind hq h, hys, Except.map]
  cases k <;> simp [Kind.mk, Val.items, hown, hlen, hi, hn']

/-- **`ChangingIndex(i, number)`** keeps the quantity (category, type, unit) of the array -/
theorem changingIndex_number (db : Db) (q : Quantity) (k : Kind) (xs : List Rat) (x : Rat) {i : Int} {j : Nat}
    (hi : normIndex xs.length i = .ok j) (hn : 2 ≤ xs.length) :
    (FixedArr.mk xs.length ⟨q, k.mk xs⟩).changingIndex db i (.number x) true
      = .ok ⟨xs.length, ⟨q, .tuple (setAt (xs.map .num) j (.num x))⟩⟩ := by
  have hn' : ¬ xs.length < 2 := by omega
  have hown : (Scalar.mk q x).getValue db (some q.unit) = .ok x := by
    simp [Scalar.getValue, Quantity.convertScalarValue]
  simp only [FixedArr.changingIndex, FixedArr.scalarFor, ↓reduceIte, Arr.getValues, BEq.rfl]
  cases k <;> simp [Kind.mk, Val.items, hown, hi, hn']

/-- **`ChangingIndex(i, (value, unit, category))`** is `ChangingIndex` with the Scalar
`Scalar(quantity, values[i]).CreateCopy(value, unit, category)` -/
theorem changingIndex_tuple_eq_scalar {db : Db} {fa : FixedArr} {i : Int} {value : Option Rat}
    {unit category : Option Sym} {s : Scalar} (hs : fa.scalarFor db i (.tuple value unit category) = .ok s)
    (useValueUnit : Bool) :
    fa.changingIndex db i (.tuple value unit category) useValueUnit
      = fa.changingIndex db i (.scalar s) useValueUnit := by
  simp only [FixedArr.changingIndex, hs]
  simp [FixedArr.scalarFor]

/-- **`ChangingIndex(i, Scalar, use_value_unit=False)`** keeps the array's quantity and values; item `i`
is the Scalar's amount expressed in the array's unit -/
theorem changingIndex_scalar_keep_unit {db : Db} (q : Quantity) (s : Scalar) {y : Rat}
    (hy : s.getValue db (some q.unit) = .ok y) (k : Kind) (xs : List Rat) {i : Int} {j : Nat}
    (hi : normIndex xs.length i = .ok j) (hn : 2 ≤ xs.length) :
    (FixedArr.mk xs.length ⟨q, k.mk xs⟩).changingIndex db i (.scalar s) false
      = .ok ⟨xs.length, ⟨q, .tuple (setAt (xs.map .num) j (.num y))⟩⟩ := by
  have hn' : ¬ xs.length < 2 := by omega
  simp only [FixedArr.changingIndex, FixedArr.scalarFor, Bool.false_eq_true, ↓reduceIte, Arr.getValues, BEq.rfl]
  cases k <;> simp [Kind.mk, Val.items, hy, hi, hn']

/-- **`IndexAsScalar(i)`** without a quantity: the stored item, with the array's quantity -/
theorem indexAsScalar_own (db : Db) (q : Quantity) (k : Kind) (xs : List Rat) (n : Nat) {i : Int} {j : Nat}
    {x : Rat} (hi : normIndex xs.length i = .ok j) (hx : xs[j]? = some x) :
    (FixedArr.mk n ⟨q, k.mk xs⟩).indexAsScalar db i none = .ok ⟨q, x⟩ := by
  simp only [FixedArr.indexAsScalar, Option.getD_none, Arr.getValues, BEq.rfl, ↓reduceIte]
  have hidx : (k.mk xs).index i = .ok (.num x) := by
    unfold Val.index
    cases k <;> simp [Kind.mk, Val.items, hi, hx]
  simp [hidx, Elem.asNum]

/-! ### 6. `UnitSystemManager.ConvertToCurrent / ConvertScalarToCurrent` -/

/-- **`ConvertToCurrent`**: the float conversion to the unit the current system maps the category to;
unchanged when there is no current system or no mapping -/
theorem convertToCurrent_eq (db : Db) (m : List (Sym × Sym)) (c u toU : Sym)
    (hm : systemDefaultUnit m c = some toU) (x : Rat) :
    convertToCurrent db (some m) c u (.num x) =
      match db.convert c u toU x with
      | .error e => .error e
      | .ok y => .ok (.num y, toU) := by
  simp only [convertToCurrent, hm, convertStr_num]
  cases db.convert c u toU x <;> rfl

theorem convertToCurrent_unmapped (db : Db) (cur : Current) (c u : Sym) (val : Val)
    (hm : ∀ m, cur = some m → systemDefaultUnit m c = none) :
    convertToCurrent db cur c u val = .ok (val, u) := by
  cases cur with
  | none => rfl
  | some m => simp [convertToCurrent, hm m rfl]

/-- **`ConvertScalarToCurrent` keeps the category and the quantity type of the scalar** (repaired
defect: it used to answer with the category of the quantity type) and carries the converted amount -/
theorem convertScalarToCurrent_keeps_category {db : Db} {c u0 : Sym} {q : Quantity}
    (hq : newSimple db c u0 = .ok q) (hc0 : c ≠ 0) (cur : Current) {x : Rat} {s' : Scalar}
    (h : convertScalarToCurrent db cur ⟨q, x⟩ = .ok s') :
    s'.q.category = q.category ∧ s'.q.qtype = q.qtype
      ∧ (∀ m toU, cur = some m → systemDefaultUnit m c = some toU →
          db.convert c q.unit toU x = .ok s'.value ∧ newSimple db c toU = .ok s'.q ∨ (toU = q.unit ∧ s' = ⟨q, x⟩))
      ∧ ((∀ m, cur = some m → systemDefaultUnit m c = none) → s' = ⟨q, x⟩) := by
  have hcat : q.category = c := (newSimple_category_qtype hq).1
  obtain ⟨ci, hci⟩ : ∃ ci, db.catByName c = some ci := by
    obtain ⟨ci, _, _, hc, _⟩ := newSimple_ok hq; exact ⟨ci, hc⟩
  have hqt : q.qtype = ci.qtype := (newSimple_category_qtype hq).2 ci hci
  unfold convertScalarToCurrent at h
  simp only [hcat] at h
  -- the copy made when the unit did not change
  have same : ∀ y, (Scalar.mk q x).createCopy db (some y) none none = .ok ⟨q, y⟩ := by
    intro y; simp [Scalar.createCopy, Scalar.copyValue, copyQuantity]
  cases hcur : cur with
  | none =>
    subst hcur
    simp [convertToCurrent, Val.asNum, same] at h
    subst h
    exact ⟨rfl, rfl, (by intro m toU hm; cases hm), fun _ => rfl⟩
  | some m =>
    subst hcur
    cases hm : systemDefaultUnit m c with
    | none =>
      simp [convertToCurrent, hm, Val.asNum, same] at h
      subst h
      exact ⟨rfl, rfl, (by intro m' toU h1 h2; cases h1; rw [hm] at h2; cases h2), fun _ => rfl⟩
    | some toU =>
      simp only [convertToCurrent_eq db m c q.unit toU hm] at h
      cases hconv : db.convert c q.unit toU x with
      | error e => rw [hconv] at h; cases h
      | ok y =>
        rw [hconv] at h
        simp only [Val.asNum] at h
        by_cases htu : (toU == q.unit) = true
        · have : toU = q.unit := by simpa using htu
          subst this
          rw [convert_same] at hconv; cases hconv
          simp [same] at h
          subst h
          refine ⟨rfl, rfl, ?_, ?_⟩
          · intro m' toU h1 h2; cases h1; rw [hm] at h2; cases h2; exact Or.inr ⟨rfl, rfl⟩
          · intro hn; rfl
        · simp only [htu, Bool.false_eq_true, ↓reduceIte] at h
          simp only [Scalar.createCopy, Scalar.copyValue, copyQuantity, hcat] at h
          have hc0' : (c != 0) = true := by simpa using hc0
          simp only [hc0', ↓reduceIte] at h
          cases hnew : newSimple db c toU with
          | error e => rw [hnew] at h; cases h
          | ok q' =>
            rw [hnew] at h; cases h
            obtain ⟨k1, k2⟩ := newSimple_category_qtype hnew
            refine ⟨by simp [k1, hcat], by simp [k2 ci hci, hqt], ?_, ?_⟩
            · intro m' toU' h1 h2; cases h1; rw [hm] at h2; cases h2
              exact Or.inl ⟨hconv, hnew⟩
            · intro hn; rw [hn m rfl] at hm; cases hm

/-! ### 6b. the manager routes in EVERY state of the manager: no history -/

/-- **the answer of `ConvertToCurrent` is a function of (current units mapping, category, unit, value)
and of nothing else**, and the call leaves the manager as it was: whatever was asked before, whatever
path led to the state -/
theorem mgr_convert_step (db : Db) (m : Mgr) (c u : Sym) (val : Val) :
    m.step db (.convert c u val) = (m, convOut (convertToCurrent db (some m.currentMapping) c u val)) := rfl

theorem mgr_convertScalar_step (db : Db) (m : Mgr) (s : Scalar) :
    m.step db (.convertScalar s) = (m, scalarOut (convertScalarToCurrent db (some m.currentMapping) s)) := rfl

/-- **history independence**: two managers that went through ANY two histories and now have the same
current mapping answer every conversion request alike -/
theorem mgr_convert_history_independent (db : Db) (m1 m2 : Mgr) (h1 h2 : List MgrOp)
    (hsame : (Mgr.run db m1 h1).1.currentMapping = (Mgr.run db m2 h2).1.currentMapping)
    (c u : Sym) (val : Val) (s : Scalar) :
    ((Mgr.run db m1 h1).1.step db (.convert c u val)).2 = ((Mgr.run db m2 h2).1.step db (.convert c u val)).2
      ∧ ((Mgr.run db m1 h1).1.step db (.convertScalar s)).2 = ((Mgr.run db m2 h2).1.step db (.convertScalar s)).2 := by
  simp only [mgr_convert_step, mgr_convertScalar_step, hsame, and_self]

/-- a history continues after its first call from the state that call left -/
theorem mgr_run_cons (db : Db) (m : Mgr) (op : MgrOp) (ops : List MgrOp) :
    Mgr.run db m (op :: ops) = ((Mgr.run db (m.step db op).1 ops).1, (m.step db op).2 :: (Mgr.run db (m.step db op).1 ops).2) := rfl

theorem mgr_run_append (db : Db) (m : Mgr) (h1 h2 : List MgrOp) :
    Mgr.run db m (h1 ++ h2) = ((Mgr.run db (Mgr.run db m h1).1 h2).1, (Mgr.run db m h1).2 ++ (Mgr.run db (Mgr.run db m h1).1 h2).2) := by
  induction h1 generalizing m with
  | nil => rfl
  | cons op ops ih => simp only [List.cons_append, mgr_run_cons, ih]

/-- **the conversion at the end of any history** is the float conversion to the unit the state then
current maps the category to, labelled with that unit -/
theorem mgr_convert_after_history (db : Db) (m : Mgr) (h : List MgrOp) (c u toU : Sym) (x : Rat)
    (hm : systemDefaultUnit (Mgr.run db m h).1.currentMapping c = some toU) :
    (Mgr.run db m (h ++ [.convert c u (.num x)])).2 = (Mgr.run db m h).2 ++
      [match db.convert c u toU x with
       | .error e => .error e
       | .ok y => .ok (.conv (.num y) toU)] := by
  rw [mgr_run_append]
  simp only [Mgr.run, mgr_convert_step, convertToCurrent_eq db _ c u toU hm]
  cases db.convert c u toU x <;> rfl

/-- conversions never change the state: a history made of conversion requests only ends where it
started (so asking twice gives the same answer twice) -/
theorem mgr_conversions_keep_state (db : Db) (m : Mgr) (h : List MgrOp)
    (hall : ∀ op ∈ h, (∃ c u val, op = .convert c u val) ∨ ∃ s, op = .convertScalar s) :
    (Mgr.run db m h).1 = m := by
  induction h generalizing m with
  | nil => rfl
  | cons op ops ih =>
    have hop := hall op (List.mem_cons_self ..)
    have hrest : ∀ op' ∈ ops, (∃ c u val, op' = .convert c u val) ∨ ∃ s, op' = .convertScalar s :=
      fun op' hmem => hall op' (List.mem_cons_of_mem _ hmem)
    rcases hop with ⟨c, u, val, rfl⟩ | ⟨s, rfl⟩
    · simp only [mgr_run_cons, mgr_convert_step]; exact ih m hrest
    · simp only [mgr_run_cons, mgr_convertScalar_step]; exact ih m hrest

/-- **convert → `SetDefaultUnit` on the current system → convert**: whatever the history before, the
second answer is the conversion to the NEW unit under the new label (seeded defect class: a memo of
the unit pair kept per (category, unit) and not dropped by an in-place edit) -/
theorem mgr_setDefaultUnit_then_convert (db : Db) (m : Mgr) (hwf : m.WF) {c : Sym} (hc : c ≠ 0) (u w : Sym) (x : Rat) :
    (Mgr.run db m [.setDefaultUnit none c w, .convert c u (.num x)]).2 =
      [.ok (.state (dictSet c w m.currentMapping)),
       match db.convert c u w x with
       | .error e => .error e
       | .ok y => .ok (.conv (.num y) w)] := by
  cases hed : m.edit none (dictSet c w) with
  | error e => unfold Mgr.edit at hed; cases hcur : m.current <;> simp [hcur] at hed
  | ok m' =>
    obtain ⟨hmap, _⟩ := Mgr.currentMapping_edit hwf _ hed
    simp only [Mgr.run, Mgr.step, hed, okState, hmap,
      convertToCurrent_eq db _ c u w (systemDefaultUnit_dictSet m.currentMapping w hc)]
    cases db.convert c u w x <;> rfl

/-- … and another category's conversion is not touched by that edit -/
theorem mgr_setDefaultUnit_other_category (db : Db) (m : Mgr) (hwf : m.WF) {c c' : Sym} (hcc : c' ≠ c) (u w : Sym) (val : Val) :
    ((Mgr.run db m [.setDefaultUnit none c w]).1.step db (.convert c' u val)).2 = (m.step db (.convert c' u val)).2 := by
  cases hed : m.edit none (dictSet c w) with
  | error e => unfold Mgr.edit at hed; cases hcur : m.current <;> simp [hcur] at hed
  | ok m' =>
    obtain ⟨hmap, _⟩ := Mgr.currentMapping_edit hwf _ hed
    simp only [Mgr.run, Mgr.step, hed, okState, hmap, convertToCurrent, systemDefaultUnit_dictSet_other _ _ hcc]

/-- **`RemoveCategory` on the current system → convert**: value and unit come back unchanged -/
theorem mgr_removeCategory_then_convert (db : Db) (m : Mgr) (hwf : m.WF) (c u : Sym) (val : Val) :
    (Mgr.run db m [.removeCategory none c, .convert c u val]).2 =
      [.ok (.state (dictDel c m.currentMapping)), .ok (.conv val u)] := by
  cases hed : m.edit none (dictDel c) with
  | error e => unfold Mgr.edit at hed; cases hcur : m.current <;> simp [hcur] at hed
  | ok m' =>
    obtain ⟨hmap, _⟩ := Mgr.currentMapping_edit hwf _ hed
    simp [Mgr.run, Mgr.step, hed, okState, hmap, convertToCurrent, systemDefaultUnit_dictDel, convOut]

/-- the invariant the three theorems above assume holds in every state a manager can reach: after ANY
history of calls on a new manager the current system is one of its systems -/
theorem mgr_reachable_wf (db : Db) (h : List MgrOp) : (Mgr.run db Mgr.new h).1.WF :=
  Mgr.run_wf db (by intro id hc; cases hc) h

/-- **after ANY history**: `SetDefaultUnit(c, w)` on the current system, then `ConvertToCurrent(c, u, x)`
answers `(Convert(c, u, w, x), w)` -/
theorem mgr_any_history_setDefaultUnit_convert (db : Db) (h : List MgrOp) {c : Sym} (hc : c ≠ 0) (u w : Sym) (x : Rat) :
    (Mgr.run db Mgr.new (h ++ [.setDefaultUnit none c w, .convert c u (.num x)])).2 =
      (Mgr.run db Mgr.new h).2 ++
      [.ok (.state (dictSet c w (Mgr.run db Mgr.new h).1.currentMapping)),
       match db.convert c u w x with
       | .error e => .error e
       | .ok y => .ok (.conv (.num y) w)] := by
  rw [mgr_run_append, mgr_setDefaultUnit_then_convert db _ (mgr_reachable_wf db h) hc]

/-! ### 7. an object created from a category default in a non-default unit -/

/-- **`Scalar(category, unit=v)`** carries the physical amount of the category default: its value is
the float conversion of the default value from the default unit to `v`; its category is `c` -/
theorem default_in_unit_physical {db : Db} {c v : Sym} {ci : CatRow} (hci : db.catByName c = some ci)
    {s : Scalar} (h : Scalar.ofCategory db c (some v) = .ok s) :
    ∃ qd, newSimple db c ci.defaultUnit = .ok qd ∧ db.convert c qd.unit v ci.defaultValue = .ok s.value
      ∧ s.q.category = c ∧ s.q.qtype = ci.qtype ∧ newSimple db c v = .ok s.q := by
  have hname : ci.name = c := catByName_name hci
  simp only [Scalar.ofCategory, hci, defaultValue, hname, Option.getD_some] at h
  cases hqd : newSimple db c ci.defaultUnit with
  | error e => rw [hqd] at h; cases h
  | ok qd =>
    rw [hqd] at h
    simp only [convertScalarValue_eq_convert hqd] at h
    cases hconv : db.convert c qd.unit v ci.defaultValue with
    | error e => rw [hconv] at h; cases h
    | ok y =>
      rw [hconv] at h; simp only at h
      cases hnew : newSimple db c v with
      | error e => rw [hnew] at h; cases h
      | ok q' =>
        rw [hnew] at h; cases h
        obtain ⟨k1, k2⟩ := newSimple_category_qtype hnew
        exact ⟨qd, rfl, hconv, k1, k2 ci hci, rfl⟩

/-- without a unit the default value itself is stored -/
theorem default_no_unit {db : Db} {c : Sym} {ci : CatRow} (hci : db.catByName c = some ci)
    {s : Scalar} (h : Scalar.ofCategory db c none = .ok s) : s.value = ci.defaultValue := by
  simp only [Scalar.ofCategory, hci, defaultValue] at h
  cases hnew : newSimple db c (none.getD ci.defaultUnit) with
  | error e => rw [hnew] at h; cases h
  | ok q' => rw [hnew] at h; cases h; rfl

/-! ### 8. the value in the object's own unit is the stored value, simple **and derived** -/

theorem convertScalarValue_own_unit (db : Db) (q : Quantity) (x : Rat) :
    q.convertScalarValue db x q.unit = .ok x := by
  simp [Quantity.convertScalarValue]

theorem scalar_getValue_own_unit (db : Db) (s : Scalar) : s.getValue db (some s.q.unit) = .ok s.value :=
  convertScalarValue_own_unit db s.q s.value

theorem scalar_getValue_no_unit (db : Db) (s : Scalar) : s.getValue db none = .ok s.value := rfl

theorem array_getValues_own_unit (db : Db) (a : Arr) : a.getValues db (some a.q.unit) = .ok a.values := by
  simp [Arr.getValues]

theorem array_getValues_no_unit (db : Db) (a : Arr) : a.getValues db none = .ok a.values := rfl

/-- `CreateCopy()` without arguments keeps quantity and value -/
theorem scalar_createCopy_plain (db : Db) (s : Scalar) : s.createCopy db none none none = .ok s := by
  simp [Scalar.createCopy, Scalar.copyValue, Scalar.getValue, copyQuantity]

/-! ### 9. the shipped databases (tables regenerated from the source on every run) -/

theorem posc_container_routes {cq u v : Sym} {x0 y0 : Rat} (h : poscDb.convert cq u v x0 = .ok y0)
    (k : Kind) (xs : List Rat) :
    ∃ ys, convertAny poscDb (.str cq) (.str u) (.str v) (k.mk xs) = some (.ok (k.mk ys))
      ∧ Elementwise (poscDb.convert cq u v) xs ys :=
  convertAny_kind_elementwise posc_allWF h k xs

theorem nocat_container_routes {cq u v : Sym} {x0 y0 : Rat} (h : nocatDb.convert cq u v x0 = .ok y0)
    (k : Kind) (xs : List Rat) :
    ∃ ys, convertAny nocatDb (.str cq) (.str u) (.str v) (k.mk xs) = some (.ok (k.mk ys))
      ∧ Elementwise (nocatDb.convert cq u v) xs ys :=
  convertAny_kind_elementwise nocat_allWF h k xs

theorem simple_container_routes {cq u v : Sym} {x0 y0 : Rat} (h : simpleDb.convert cq u v x0 = .ok y0)
    (k : Kind) (xs : List Rat) :
    ∃ ys, convertAny simpleDb (.str cq) (.str u) (.str v) (k.mk xs) = some (.ok (k.mk ys))
      ∧ Elementwise (simpleDb.convert cq u v) xs ys :=
  convertAny_kind_elementwise simple_allWF h k xs

/-- `Array.GetValues` on the POSC database: total and element by element -/
theorem posc_array_getValues {c u0 : Sym} {q : Quantity} (hq : newSimple poscDb c u0 = .ok q)
    {v : Sym} {x0 y0 : Rat} (h : poscDb.convert c q.unit v x0 = .ok y0) (k : Kind) (xs : List Rat) :
    ∃ ys, (Arr.mk q (k.mk xs)).getValues poscDb (some v) = .ok (k.mk ys)
      ∧ Elementwise (poscDb.convert c q.unit v) xs ys := by
  obtain ⟨ys, hys⟩ := mapE_total (fun x => convert_total posc_allWF h x) xs
  exact ⟨ys, by rw [array_getValues_kind hq h, hys]; rfl, mapE_ok_elementwise hys⟩

/-! ### 10. non-vacuity: the hypotheses are met by real objects, and the routes do convert -/

section examples
private abbrev S (s : String) : Sym := Sym.ofString s

end examples

end Barril.Routes
