/-
C11 — size invariants: FixedArray dimension (>= 2) and Curve image/domain length.

Model: `Barril/Model/Fixed.lean` (the internal constructor as an automaton over class attribute /
instance attribute / `dimension` keyword / `len(values)`; `__init__` in all positional forms,
`CreateWithQuantity`, `CreateEmptyArray`, `CreateCopy`, copy, pickle, `Array._DoOperation`,
`ChangingIndex`, `IndexAsScalar`; `Curve`).  Helper lemmas, `Inv`, `CInv`, `accepts`:
`Barril/Proofs/FixedLemmas.lean`.

Sections 6 and 7 cover the rest of the public surface: `len` / iteration / indexing / slicing / the public
`CheckValues` / `==` / `FromScalars` / extra keywords of `CreateCopy` on a FixedArray, and reading a Curve
(`curve[i]`, `curve[a:b:c]`, `GetLength()`, `repr`).

`Inv fa` is `len(values) == dimension >= 2`.  Arithmetic is proved for ANY `operation_func`
(`F : OpFunc`), so derived results (array*array …) are covered although the driver only runs the
simple ones.  Objects are immutable values in the model: "leaves its source unchanged" is the
statement that the store of all arrays obtained so far only ever grows at its end.
-/
import Barril.Proofs.FixedLemmas
import Barril.Gen.Dbs

namespace Barril.Fixed
open Barril

/-! ### 1. every construction route -/

/-- **every route** (`FixedArray(...)` in every positional form, `CreateWithQuantity` with any
combination of keywords, `CreateEmptyArray`, the bare internal constructor with any class / instance
attribute), on every class, for every container, returns an error or an array with
`len(values) == dimension >= 2` -/
theorem route_inv (db : Db) (r : Route) (o : Obj) (h : runRoute db r = .ok o) : Inv o.st :=
  runRoute_inv h

/-- the same as a statement about the outcome -/
theorem route_error_or_inv (db : Db) (r : Route) :
    (∃ e, runRoute db r = .error e) ∨ ∃ o, runRoute db r = .ok o ∧ Inv o.st := by
  cases h : runRoute db r with
  | error e => exact .inl ⟨e, rfl⟩
  | ok o => exact .inr ⟨o, rfl, runRoute_inv h⟩

/-- **the constructor automaton, exactly**: given a container of length `n` (through `values` or
`value`), the internal constructor stores it with dimension `n` when `n >= 2` and every stated
dimension — the keyword, a class or instance attribute that is not `None` — equals `n`; in every
other case it raises `ValueError` (an absent attribute needs the keyword) -/
theorem internalCreate_spec (cls : ClsAttr) (inst : Option Int) (q : Qty) (values value : Option ValArg)
    (dimension : Option Int) (v : Vals)
    (hm : mergeValue values value = .ok (.sized v))
    (hattr : lookupDim cls inst = .absent → dimension ≠ none) :
    internalCreate cls inst q values dimension value =
      if accepts (lookupDim cls inst) dimension v.xs.length then .ok ⟨v.xs.length, v, q⟩ else .error .value :=
  internalCreate_sized hm hattr

/-- `FixedArray(dimension, …)` with a dimension below 2 raises `ValueError` before anything else -/
theorem init_small_dimension (db : Db) (cls : ClsAttr) (dim : Int) (args : InitArgs) (h : dim < 2) :
    init db cls dim args = .error .value := by
  simp [init, h]

/-- `FixedArray(dimension, …)` whose arguments name a quantity and a container: accepted exactly when
the length is the dimension, stored as given; `ValueError` otherwise -/
theorem init_sized_spec (db : Db) (cls : ClsAttr) (dim : Int) (args : InitArgs) (q : Qty) (v : Vals)
    (hq : initQuantity db dim args = .ok (q, .sized v)) :
    init db cls dim args =
      if 2 ≤ dim ∧ (v.xs.length : Int) = dim then .ok ⟨cls, ⟨dim, v, q⟩⟩ else .error .value := by
  unfold init
  by_cases hd : dim < 2
  · have : ¬ (2 ≤ dim ∧ (v.xs.length : Int) = dim) := by omega
    simp [hd, this]
  · simp only [hd, ↓reduceIte, hq]
    rw [internalCreate_sized (v := v) rfl (by simp [lookupDim])]
    by_cases hl : (v.xs.length : Int) = dim
    · have h2 : 2 ≤ v.xs.length := by omega
      have hacc : accepts (lookupDim cls (some dim)) none v.xs.length = true := by
        simp [accepts, agrees, lookupDim, Attr.pinned, h2, hl]
      have : 2 ≤ dim ∧ (v.xs.length : Int) = dim := ⟨by omega, hl⟩
      simp [hacc, this]
    · have hacc : accepts (lookupDim cls (some dim)) none v.xs.length = false := by
        have : ¬ dim = (v.xs.length : Int) := fun h => hl h.symm
        simp [accepts, agrees, lookupDim, Attr.pinned, this]
      have : ¬ (2 ≤ dim ∧ (v.xs.length : Int) = dim) := fun h => hl h.2
      simp [hacc, this]

/-- `CreateWithQuantity(quantity, values, dimension=…)` on a class of the hierarchy: accepted exactly
when the length is at least 2 and equals the keyword and the class's pinned dimension (where given);
`ValueError` otherwise.  This is the route arithmetic results, `CreateCopy` and `CreateEmptyArray`
take. -/
theorem createWithQuantity_spec (cls : ClsAttr) (q : Qty) (values value : Option ValArg)
    (dimension : Option Int) (v : Vals) (hm : mergeValue values value = .ok (.sized v))
    (hc : cls = .missing → dimension ≠ none) :
    createWithQuantity cls q values dimension value =
      if accepts (lookupDim cls none) dimension v.xs.length then .ok ⟨cls, ⟨v.xs.length, v, q⟩⟩
      else .error .value := by
  unfold createWithQuantity
  rw [internalCreate_sized hm (by
    intro h
    apply hc
    cases cls <;> simp [lookupDim] at h ⊢)]
  cases accepts (lookupDim cls none) dimension v.xs.length <;> simp

/-- `CreateCopy` with new values of another length raises `ValueError` (whenever the unit/category
arguments themselves are fine) -/
theorem createCopy_wrong_length (db : Db) (o : Obj) (v : Vals) (unit category : Option Sym) (q : Qty)
    (hq : copyQuantity db o.st.q unit category = .ok q) (hlen : (v.xs.length : Int) ≠ o.st.dim) :
    createCopy db o (some (.sized v)) unit category = .error .value := by
  unfold createCopy
  simp only [hq]
  rw [createWithQuantity_spec o.cls q none (some (.sized v)) (some o.st.dim) v rfl (by simp)]
  have : accepts (lookupDim o.cls none) (some o.st.dim) v.xs.length = false := by
    have : ¬ o.st.dim = (v.xs.length : Int) := fun h => hlen h.symm
    simp [accepts, agrees, this]
  simp [this]

/-- `CreateCopy` that succeeds keeps class and dimension and stores exactly the new values -/
theorem createCopy_keeps_dimension (db : Db) (o r : Obj) (values : Option ValArg) (unit category : Option Sym)
    (h : createCopy db o values unit category = .ok r) :
    r.cls = o.cls ∧ r.st.dim = o.st.dim ∧ ∀ w, values = some w → w = .sized r.st.vals := by
  obtain ⟨q, v, _, hc, hv⟩ := createCopy_ok h
  obtain ⟨hcls, hi⟩ := createWithQuantity_ok hc
  obtain ⟨vs, hm, hr, hvs, _, _⟩ := internalCreate_ok hi
  simp only [mergeValue] at hm
  cases hm
  refine ⟨hcls, ?_, ?_⟩
  · simp only [resolveDim] at hr
    split at hr
    · split at hr
      · cases hr
      · exact (Except.ok.inj hr).symm
    · exact (Except.ok.inj hr).symm
  · intro w hw
    rw [← hv w hw]
    exact hvs

/-- arithmetic between two Arrays of different lengths raises `ValueError`, whatever the operation -/
theorem doOperation_length_mismatch (F : OpFunc) (self : Obj) (op : AOp) (v : Vals) (q : Qty) (l : Bool)
    (h : self.st.vals.xs.length ≠ v.xs.length) :
    doOperation F self op (.arr v q) l = .error .value := by
  simp [doOperation, lengthsAgree, h]

/-- a bare numpy operand whose length is neither 1 nor the array's cannot be broadcast: `ValueError`
(on either side, whatever the operation) -/
theorem doOperation_nd_length_mismatch (F : OpFunc) (self : Obj) (op : AOp) (xs : List Rat) (l : Bool)
    (h : xs.length ≠ self.st.vals.xs.length) (h1 : xs.length ≠ 1) (h2 : self.st.vals.xs.length ≠ 1) :
    doOperation F self op (.nd xs) l = .error .value := by
  have hb1 : broadcast self.st.vals.xs xs = .error .value := broadcast_error (Ne.symm h) h2 h1
  have hb2 : broadcast xs self.st.vals.xs = .error .value := broadcast_error h h1 h2
  cases l <;>
    simp [doOperation, lengthsAgree, operationValues, Operand.val, pairs, hb1, hb2]

/-- the result of an arithmetic operator — for ANY `operation_func`, any operand (number, bare
ndarray of any length, Array of any quantity) on either side — is an error or satisfies the invariant,
and has the class of `self` -/
theorem doOperation_inv_any (F : OpFunc) (self r : Obj) (op : AOp) (other : Operand) (l : Bool)
    (h : doOperation F self op other l = .ok r) : Inv r.st ∧ r.cls = self.cls := by
  obtain ⟨_, _, _, hc⟩ := doOperation_ok h
  exact ⟨createWithQuantity_inv hc, (createWithQuantity_ok hc).1⟩

/-- **arithmetic never changes the size** (no truncation, no stretching of `self`): on an array that
satisfies the invariant, the result of any operator with a number, a bare ndarray or an Array — for
any `operation_func`, on either side — has as many values as `self` and the same dimension -/
theorem doOperation_keeps_dimension (F : OpFunc) (self r : Obj) (op : AOp) (other : Operand) (l : Bool)
    (hs : Inv self.st) (h : doOperation F self op other l = .ok r) :
    r.st.vals.xs.length = self.st.vals.xs.length ∧ r.st.dim = self.st.dim := by
  have hr : Inv r.st := doOperation_inv h
  unfold doOperation at h
  split at h
  · cases h
  · rename_i hl
    have hl' : lengthsAgree self.st.vals.xs.length other = true := by simpa using hl
    split at h
    · cases h
    · rename_i q v hv
      obtain ⟨_, hi⟩ := createWithQuantity_ok h
      obtain ⟨vs, hm, _, hvs, _, _⟩ := internalCreate_ok hi
      simp only [mergeValue] at hm
      cases hm
      cases hvs
      have hn : 2 ≤ self.st.vals.xs.length := by
        have := hs.1
        have := hs.2
        omega
      have hlen : r.st.vals.xs.length = self.st.vals.xs.length := by
        cases l
        · simp only [Bool.false_eq_true, ↓reduceIte] at hv
          obtain ⟨ps, hp, hps⟩ := operationValues_ok hv
          rw [hps]
          exact pairs_length_self (l := false) hn hl' (by simpa using hp)
        · simp only [↓reduceIte] at hv
          obtain ⟨ps, hp, hps⟩ := operationValues_ok hv
          rw [hps]
          exact pairs_length_self (l := true) hn hl' (by simpa using hp)
      refine ⟨hlen, ?_⟩
      have h1 := hr.1
      have h2 := hs.1
      omega

/-- pickling round trip: the result, when there is one, is the same state on the base class -/
theorem reduce_spec (db : Db) (o r : Obj) (h : reduce db o = .ok r) : r = ⟨.none, o.st⟩ ∧ Inv o.st := by
  obtain ⟨hr, hl, hd⟩ := init_qty_ok h
  exact ⟨hr, hl, hd⟩

/-- … and an array that satisfies the invariant always survives it -/
theorem reduce_of_inv (db : Db) (o : Obj) (h : Inv o.st) : reduce db o = .ok ⟨.none, o.st⟩ := by
  unfold reduce
  rw [init_sized_spec db .none o.st.dim _ o.st.q o.st.vals rfl]
  simp [h.1, h.2]

/-! ### 2. chains of operations -/

/-- **the invariant over all chains**: whatever sequence of constructions, copies, `CreateCopy`,
pickle round trips, arithmetic (any `operation_func`), `ChangingIndex` and `IndexAsScalar` calls —
accepted or rejected, on any earlier array — is run, every array ever obtained satisfies
`len(values) == dimension >= 2` -/
theorem reachable_inv (db : Db) (F : OpFunc) (cmds : List Cmd) : ∀ o ∈ run db F [] cmds, Inv o.st :=
  run_inv cmds (by simp)

/-- the same for the value each command returns -/
theorem outputs_inv_all (db : Db) (F : OpFunc) (cmds : List Cmd) (r : Obj)
    (h : .ok (.obj r) ∈ outputs db F [] cmds) : Inv r.st :=
  outputs_inv cmds (by simp) r h

/-- one more command on a store of arrays that satisfy the invariant keeps it (the induction step,
for any store) -/
theorem step_preserves_inv (db : Db) (F : OpFunc) (store : List Obj) (c : Cmd)
    (hs : ∀ o ∈ store, Inv o.st) : ∀ o ∈ (step db F store c).1, Inv o.st :=
  step_inv hs

/-- **a failed operation leaves everything as it was** -/
theorem step_failed_leaves_store (db : Db) (F : OpFunc) (store : List Obj) (c : Cmd) (e : ErrKind)
    (h : (step db F store c).2 = .error e) : (step db F store c).1 = store := by
  simp only [step] at h ⊢
  rw [h]
  rfl

/-- no operation, accepted or rejected, changes an array obtained earlier (sources included) -/
theorem step_keeps_sources (db : Db) (F : OpFunc) (store : List Obj) (c : Cmd) (i : Nat) (o : Obj)
    (h : store[i]? = some o) : (step db F store c).1[i]? = some o := by
  obtain ⟨t, ht⟩ := push_prefix store (runCmd db F store c)
  simp only [step]
  rw [ht, List.getElem?_append_left (List.getElem?_eq_some_iff.mp h).1]
  exact h

theorem run_keeps_sources (db : Db) (F : OpFunc) (store : List Obj) (cmds : List Cmd) (i : Nat) (o : Obj)
    (h : store[i]? = some o) : (run db F store cmds)[i]? = some o := by
  obtain ⟨t, ht⟩ := run_prefix (db := db) (F := F) cmds store
  rw [ht, List.getElem?_append_left (List.getElem?_eq_some_iff.mp h).1]
  exact h

/-- there is no mutator: assigning to `dimension`, `values`, `unit`, `category` or `quantity_type` of a
FixedArray raises (`AttributeError`) whatever is assigned, and by `step_failed_leaves_store` changes nothing -/
theorem assign_rejected (db : Db) (F : OpFunc) (store : List Obj) (src : Obj) (a : ReadOnlyAttr) :
    runOp db F store src (.assign a) = .error .other := rfl

/-! ### 3. ChangingIndex -/

/-- **Python's index normalisation**: `normIndex n i = some j` iff `i` is a valid index of a sequence
of length `n` and `j` is the position it denotes (`i` itself, or `n + i` for a negative index) -/
theorem normIndex_spec (n : Nat) (i : Int) (j : Nat) :
    normIndex n i = some j ↔
      (0 ≤ i ∧ i < n ∧ (j : Int) = i) ∨ (i < 0 ∧ -(n : Int) ≤ i ∧ (j : Int) = n + i) := by
  unfold normIndex
  constructor
  · intro h
    split at h
    · split at h
      · cases h; left; omega
      · cases h
    · split at h
      · cases h; right; omega
      · cases h
  · intro h
    rcases h with ⟨h1, h2, h3⟩ | ⟨h1, h2, h3⟩
    · have : i.toNat < n := by omega
      simp only [h1, ↓reduceIte, this]
      congr 1
      omega
    · have h0 : ¬ 0 ≤ i := by omega
      have : (-i).toNat ≤ n := by omega
      simp only [h0, ↓reduceIte, this]
      congr 1
      omega

/-- **`ChangingIndex`**: the result is a new base-class FixedArray (a tuple) of the same dimension
and length whose quantity is the Scalar's (with `use_value_unit`) or the array's own; at the
(normalised) index it holds the supplied amount expressed in the unit of the result, and every other
element is the source's element re-expressed in that unit — nothing else differs -/
theorem changingIndex_spec (db : Db) (o r : Obj) (i : Int) (value : CIValue) (uvu : Bool)
    (h : changingIndex db o i value uvu = .ok r) :
    ∃ sc j,
      ciScalar db o i value = .ok sc ∧
      normIndex o.st.vals.xs.length i = some j ∧
      r.cls = .none ∧ r.st.dim = o.st.dim ∧ r.st.vals.kind = .tuple ∧
      r.st.q = (if uvu then sc.q else o.st.q) ∧
      r.st.vals.xs.length = o.st.vals.xs.length ∧
      (∃ a, sc.q.convertScalarValue db sc.v r.st.q.unit = .ok a ∧ r.st.vals.xs[j]? = some a) ∧
      (∀ (k : Nat) x, k ≠ j → o.st.vals.xs[k]? = some x →
        ∃ y, o.st.q.convertScalarValue db x r.st.q.unit = .ok y ∧ r.st.vals.xs[k]? = some y) := by
  obtain ⟨sc, vals, amount, ys, hsc, hvals, hamount, hys, hinit⟩ := changingIndex_ok h
  obtain ⟨hr, _, _⟩ := init_qty_ok hinit
  obtain ⟨j, hj, hset⟩ := pySet_ok hys
  obtain ⟨_, hlen, helem⟩ := getValues_ok hvals
  subst hr
  subst hset
  have hjlt : j < vals.xs.length := normIndex_lt hj
  refine ⟨sc, j, hsc, by rw [← hlen]; exact hj, rfl, rfl, rfl, rfl, by simp [hlen], ?_, ?_⟩
  · exact ⟨amount, hamount, by simp [hjlt]⟩
  · intro k x hk hx
    obtain ⟨y, hy, hky⟩ := helem k x hx
    refine ⟨y, hy, ?_⟩
    simp only
    rw [List.getElem?_set_ne (Ne.symm hk)]
    exact hky

/-- the Scalar `ChangingIndex` works with: the number in the array's quantity; the Scalar itself; for
a tuple `(value, unit, category)` the element at the index as a Scalar, copied with the given value
(taken as it is, in the new unit) or, without one, with its own amount re-expressed in `unit` -/
theorem ciScalar_spec (db : Db) (o : Obj) (i : Int) (value : CIValue) (sc : Scalar)
    (h : ciScalar db o i value = .ok sc) :
    match value with
    | .num x => sc = ⟨o.st.q, x⟩
    | .scalar s => sc = s
    | .tup v u c =>
      ∃ x, pyGet o.st.vals.xs i = .ok x ∧ copyQuantity db o.st.q u c = .ok sc.q ∧
        (match v, u with
         | some a, _ => sc.v = a
         | none, none => sc.v = x
         | none, some u' => o.st.q.convertScalarValue db x u' = .ok sc.v) := by
  cases value with
  | num x => simp only [ciScalar] at h; cases h; rfl
  | scalar s => simp only [ciScalar] at h; cases h; rfl
  | tup v u c =>
    simp only [ciScalar] at h
    split at h
    · cases h
    · rename_i x hx
      refine ⟨x, hx, ?_⟩
      unfold Scalar.createCopy at h
      simp only at h
      split at h
      · cases h
      · rename_i a ha
        split at h
        · cases h
        · rename_i q hq
          cases h
          refine ⟨hq, ?_⟩
          cases v with
          | some a' => simp only at ha; cases ha; rfl
          | none =>
            cases u with
            | none => simp only [Scalar.getValue] at ha; cases ha; rfl
            | some u' => simpa [Scalar.getValue] using ha

/-- **a plain number keeps the quantity of the array** (in both `use_value_unit` modes) and replaces
exactly the element at the index by that number; nothing is converted -/
theorem changingIndex_plain_number (db : Db) (o r : Obj) (i : Int) (x : Rat) (uvu : Bool)
    (h : changingIndex db o i (.num x) uvu = .ok r) :
    r.st.q = o.st.q ∧ r.st.dim = o.st.dim ∧
      ∃ j, normIndex o.st.vals.xs.length i = some j ∧ r.st.vals.xs = o.st.vals.xs.set j x := by
  obtain ⟨sc, vals, amount, ys, hsc, hvals, hamount, hys, hinit⟩ := changingIndex_ok h
  simp only [ciScalar] at hsc
  cases hsc
  have hq : (if uvu then o.st.q else o.st.q) = o.st.q := by cases uvu <;> rfl
  simp only [hq] at hvals hamount hinit
  rw [getValues_own_unit] at hvals
  cases hvals
  simp only [Scalar.getValue, convertScalarValue_own_unit] at hamount
  cases hamount
  obtain ⟨hr, _, _⟩ := init_qty_ok hinit
  obtain ⟨j, hj, hset⟩ := pySet_ok hys
  subst hr
  exact ⟨rfl, rfl, j, hj, hset⟩

/-- an index outside the array never yields an array … -/
theorem changingIndex_bad_index (db : Db) (o : Obj) (i : Int) (value : CIValue) (uvu : Bool)
    (hi : normIndex o.st.vals.xs.length i = none) (r : Obj) : changingIndex db o i value uvu ≠ .ok r := by
  intro h
  obtain ⟨_, j, _, hj, _⟩ := changingIndex_spec db o r i value uvu h
  rw [hi] at hj
  cases hj

/-- … and with a plain number it is precisely `IndexError` -/
theorem changingIndex_num_bad_index (db : Db) (o : Obj) (i : Int) (x : Rat) (uvu : Bool)
    (hi : normIndex o.st.vals.xs.length i = none) : changingIndex db o i (.num x) uvu = .error .index := by
  have hq : (if uvu then o.st.q else o.st.q) = o.st.q := by cases uvu <;> rfl
  simp only [changingIndex, ciScalar, hq, getValues_own_unit, Scalar.getValue, convertScalarValue_own_unit,
    pySet, hi]

/-- **every array derived from a source has the source's dimension**: copy, `CreateCopy` (any
arguments), pickle round trip, arithmetic (any `operation_func`, any operand, either side) and
`ChangingIndex` all return an array of dimension `src.dimension` (or fail) -/
theorem runOp_keeps_dimension (db : Db) (F : OpFunc) (store : List Obj) (src r : Obj) (o : Op)
    (hs : Inv src.st) (h : runOp db F store src o = .ok (.obj r)) : r.st.dim = src.st.dim := by
  cases o with
  | copy => simp only [runOp] at h; cases h; rfl
  | createCopy values unit category => exact (createCopy_keeps_dimension db src r _ _ _ (outObj_ok h)).2.1
  | pickle => rw [(reduce_spec db src r (outObj_ok h)).1]
  | arith op rhs =>
    cases rhs with
    | other idx =>
      simp only [runOp] at h
      split at h
      · cases h
      · exact (doOperation_keeps_dimension F src r op _ true hs (outObj_ok h)).2
    | operand p l => exact (doOperation_keeps_dimension F src r op p l hs (outObj_ok h)).2
  | changingIndex index value uvu =>
    obtain ⟨_, _, _, _, _, hd, _⟩ := changingIndex_spec db src r index value uvu (outObj_ok h)
    exact hd
  | indexAsScalar index quantity =>
    simp only [runOp] at h
    split at h <;> cases h
  | assign a => simp only [runOp] at h; cases h
  | createCopyKw values unit category extra =>
    cases extra with
    | dimension => simp only [runOp, createCopyKw, outObj] at h; cases h
    | value => simp only [runOp, createCopyKw, outObj] at h; cases h
    | unitDatabase => exact (createCopy_keeps_dimension db src r _ _ _ (outObj_ok h)).2.1
  | len => simp only [runOp] at h; cases h
  | iter => simp only [runOp] at h; cases h
  | getItem index =>
    simp only [runOp] at h
    split at h <;> cases h
  | getSlice s =>
    simp only [runOp] at h
    split at h <;> cases h
  | checkValues values dimension =>
    simp only [runOp] at h
    split at h <;> cases h
  | eq other =>
    cases other with
    | store idx =>
      simp only [runOp] at h
      split at h <;> cases h
    | foreign => simp only [runOp] at h; cases h

/-! ### 4. IndexAsScalar -/

/-- **`IndexAsScalar(i, quantity)`** is a Scalar of the requested quantity (the array's own when none
is given) whose value is the element at the normalised index, expressed in the requested unit -/
theorem indexAsScalar_spec (db : Db) (o : Obj) (i : Int) (quantity : Option Qty) (s : Scalar)
    (h : indexAsScalar db o i quantity = .ok s) :
    s.q = quantity.getD o.st.q ∧
      ∃ j x, normIndex o.st.vals.xs.length i = some j ∧ o.st.vals.xs[j]? = some x ∧
        o.st.q.convertScalarValue db x s.q.unit = .ok s.v := by
  unfold indexAsScalar at h
  simp only at h
  split at h
  · cases h
  · rename_i vals hvals
    split at h
    · cases h
    · rename_i y hy
      cases h
      obtain ⟨_, hlen, helem⟩ := getValues_ok hvals
      obtain ⟨j, hj, hyj⟩ := pyGet_ok hy
      refine ⟨rfl, ?_⟩
      have hjlt : j < o.st.vals.xs.length := by rw [← hlen]; exact normIndex_lt hj
      obtain ⟨x, hx⟩ : ∃ x, o.st.vals.xs[j]? = some x := ⟨o.st.vals.xs[j], by simp [hjlt]⟩
      obtain ⟨y', hy', hk⟩ := helem j x hx
      rw [hyj] at hk
      cases hk
      exact ⟨j, x, by rw [← hlen]; exact hj, hx, hy'⟩

/-- without a quantity it is the stored element itself -/
theorem indexAsScalar_own (db : Db) (o : Obj) (i : Int) :
    indexAsScalar db o i none = (match pyGet o.st.vals.xs i with
      | .error e => .error e
      | .ok x => .ok ⟨o.st.q, x⟩) := by
  simp only [indexAsScalar, getValues_own_unit, Option.getD]
  cases pyGet o.st.vals.xs i <;> rfl

/-- read after write: after `ChangingIndex(i, x)` with a plain number, `IndexAsScalar(i)` is `x` in the
array's quantity -/
theorem changingIndex_then_indexAsScalar (db : Db) (o r : Obj) (i : Int) (x : Rat) (uvu : Bool)
    (h : changingIndex db o i (.num x) uvu = .ok r) : indexAsScalar db r i none = .ok ⟨o.st.q, x⟩ := by
  obtain ⟨hq, _, j, hj, hxs⟩ := changingIndex_plain_number db o r i x uvu h
  have hjlt : j < o.st.vals.xs.length := normIndex_lt hj
  have hget : pyGet r.st.vals.xs i = .ok x := by
    simp only [pyGet, hxs, List.length_set, hj, List.getElem?_set_self hjlt]
  rw [indexAsScalar_own, hget]
  simp only [hq]

/-- an index outside the array never yields a Scalar -/
theorem indexAsScalar_bad_index (db : Db) (o : Obj) (i : Int) (quantity : Option Qty)
    (hi : normIndex o.st.vals.xs.length i = none) (s : Scalar) : indexAsScalar db o i quantity ≠ .ok s := by
  intro h
  obtain ⟨_, j, _, hj, _⟩ := indexAsScalar_spec db o i quantity s h
  rw [hi] at hj
  cases hj

/-! ### 5. Curve -/

/-- `Curve(image, domain)` succeeds exactly for equal lengths (and then holds what it was given);
otherwise `ValueError` -/
theorem curve_new_spec (image domain : ArrRef) :
    Curve.new image domain = if image.len = domain.len then .ok ⟨image, domain⟩ else .error .value := by
  unfold Curve.new checkLen
  by_cases h : image.len = domain.len <;> simp [h]

/-- what is compared is the number of POINTS (`len` of the outer container), for every container shape:
a flat sequence counts its numbers, a list of tuples / 2-D array counts its rows — never its scalars -/
theorem curve_new_points (image domain : ArrRef) :
    (∃ c, Curve.new image domain = .ok c) ↔ image.shape.len = domain.shape.len := by
  rw [curve_new_spec]
  simp only [ArrRef.len]
  by_cases h : image.shape.len = domain.shape.len <;> simp [h]

/-- agreeing in the number of scalars is neither needed nor enough: for any width `w ≥ 2` and any
`n ≥ 1`, `n·w` flat values against `n` points of width `w` have equal `size` and are rejected, while
`n` flat values against `n` such points differ in `size` and are accepted -/
theorem curve_size_is_not_the_measure (n w : Nat) (hn : 1 ≤ n) (hw : 2 ≤ w) (i j : Nat) :
    Shape.size (.flat (n * w)) = Shape.size (.points n w) ∧
    Curve.new ⟨i, .flat (n * w)⟩ ⟨j, .points n w⟩ = .error .value ∧
    Shape.size (.flat n) ≠ Shape.size (.points n w) ∧
    Curve.new ⟨i, .flat n⟩ ⟨j, .points n w⟩ = .ok ⟨⟨i, .flat n⟩, ⟨j, .points n w⟩⟩ := by
  have h1 : n * w ≠ n := by
    intro h
    have : n * 2 ≤ n * w := Nat.mul_le_mul_left n hw
    omega
  refine ⟨rfl, ?_, ?_, ?_⟩
  · simp [curve_new_spec, ArrRef.len, Shape.len, h1]
  · simp only [Shape.size]
    exact fun h => h1 h.symm
  · simp [curve_new_spec, ArrRef.len, Shape.len]

/-- a setter is accepted exactly when the new array has the length of the other one; a rejected
setter raises `ValueError` -/
theorem curve_setter_spec (c : Curve) (s : Setter) :
    c.apply s = (match s with
      | .image a => if a.len = c.domain.len then .ok ⟨a, c.domain⟩ else .error .value
      | .domain a => if c.image.len = a.len then .ok ⟨c.image, a⟩ else .error .value) := by
  cases s with
  | image a =>
    simp only [Curve.apply, Curve.setImage, checkLen]
    by_cases h : a.len = c.domain.len <;> simp [h]
  | domain a =>
    simp only [Curve.apply, Curve.setDomain, checkLen]
    by_cases h : c.image.len = a.len <;> simp [h]

/-- a rejected setter leaves the curve as it was -/
theorem curve_rejected_unchanged (c : Curve) (s : Setter) (e : ErrKind) (h : c.apply s = .error e) :
    c.after s = c ∧ e = .value := by
  refine ⟨by simp [Curve.after, h], ?_⟩
  rw [curve_setter_spec] at h
  cases s <;> simp only at h <;> split at h <;> cases h <;> rfl

/-- one setter call, accepted or rejected, keeps image and domain the same length -/
theorem curve_after_inv (c : Curve) (s : Setter) (h : CInv c) : CInv (c.after s) := by
  unfold Curve.after
  rw [curve_setter_spec]
  cases s with
  | image a =>
    simp only
    by_cases hl : a.len = c.domain.len
    · simp only [hl, ↓reduceIte]; exact hl
    · simp only [hl, ↓reduceIte]; exact h
  | domain a =>
    simp only
    by_cases hl : c.image.len = a.len
    · simp only [hl, ↓reduceIte]; exact hl
    · simp only [hl, ↓reduceIte]; exact h

/-- **a Curve never holds an image and a domain of different lengths** (numbers of points, whatever
the container shapes): from its construction on, after any sequence of `SetImage` / `SetDomain` calls,
accepted or rejected -/
theorem curve_inv (image domain : ArrRef) (c : Curve) (h : Curve.new image domain = .ok c)
    (ss : List Setter) : CInv (c.runSetters ss) := by
  have h0 : CInv c := by
    rw [curve_new_spec] at h
    split at h
    · cases h; assumption
    · cases h
  clear h
  induction ss generalizing c with
  | nil => exact h0
  | cons s ss ih => exact ih (c.after s) (curve_after_inv c s h0)

/-! ### 6. the rest of the public surface of a FixedArray -/

/-- the branch `if values is None: values = [0.0] * dimension` of the internal constructor is never
taken: a call without `values` and without `value` has already failed the `assert values is not None`,
on every class, with every keyword -/
theorem internalCreate_needs_values (cls : ClsAttr) (inst : Option Int) (q : Qty) (dimension : Option Int) :
    internalCreate cls inst q none dimension none = .error .assertion := rfl

/-- `FixedArray.FromScalars(...)` (inherited from `Array`) is no route to a FixedArray: for every list of
Scalars and every unit / category it raises — the classmethod calls the constructor without `dimension` -/
theorem fromScalars_never (db : Db) (cls : ClsAttr) (scalars : List Scalar) (unit category : Option Sym) :
    ∃ e, fromScalars db cls scalars unit category = .error e := by
  cases h : fromScalars db cls scalars unit category with
  | error e => exact ⟨e, rfl⟩
  | ok o => exact absurd h fromScalars_never_ok

/-- extra keywords of `CreateCopy`: `dimension=` and `value=` collide with the keywords the method adds
itself (`TypeError`, whatever else is passed); `unit_database=` changes nothing -/
theorem createCopyKw_spec (db : Db) (o : Obj) (values : Option ValArg) (unit category : Option Sym) :
    createCopyKw db o values unit category .dimension = .error .type ∧
    createCopyKw db o values unit category .value = .error .type ∧
    createCopyKw db o values unit category .unitDatabase = createCopy db o values unit category :=
  ⟨rfl, rfl, rfl⟩

/-- **`len(array) == array.dimension`, and iterating yields exactly that many numbers**, for every array
ever obtained by any chain of operations -/
theorem len_is_dimension (db : Db) (F : OpFunc) (cmds : List Cmd) (store : List Obj) :
    ∀ o ∈ run db F [] cmds,
      runOp db F store o .len = .ok (.int o.st.dim) ∧
      ∃ xs, runOp db F store o .iter = .ok (.vals ⟨.list, xs⟩) ∧ (xs.length : Int) = o.st.dim ∧
        xs = o.st.vals.xs := by
  intro o ho
  have hi := reachable_inv db F cmds o ho
  refine ⟨?_, o.st.vals.xs, rfl, hi.1, rfl⟩
  simp only [runOp]
  rw [hi.1]

/-- **`array[i]`** on an array that satisfies the invariant: the element at the normalised index for
`-dimension ≤ i < dimension`, `IndexError` for every other index -/
theorem getItem_spec (db : Db) (F : OpFunc) (store : List Obj) (o : Obj) (i : Int) (hi : Inv o.st) :
    (∀ j, normIndex o.st.dim.toNat i = some j →
        ∃ x, o.st.vals.xs[j]? = some x ∧ runOp db F store o (.getItem i) = .ok (.num x)) ∧
    (normIndex o.st.dim.toNat i = none → runOp db F store o (.getItem i) = .error .index) := by
  have hl : o.st.dim.toNat = o.st.vals.xs.length := by
    have := hi.1
    omega
  rw [hl]
  constructor
  · intro j hj
    obtain ⟨x, hx, hp⟩ := pyIndex_some hj
    exact ⟨x, hx, by simp only [runOp, hp]⟩
  · intro hn
    simp only [runOp, pyIndex_none hn]

/-- **`array[start:stop:step]`** is a plain container of the array's kind, NOT a FixedArray (so no length
is owed to the invariant): `ValueError` for a zero step, otherwise the elements at the positions of
`slice.indices(len)`, every one of them inside the array -/
theorem getSlice_spec (db : Db) (F : OpFunc) (store : List Obj) (o : Obj) (s : PySlice) :
    (s.step = some 0 → runOp db F store o (.getSlice s) = .error .value) ∧
    (s.step ≠ some 0 → ∃ idx ys, sliceIndices o.st.vals.xs.length s = .ok idx ∧
      runOp db F store o (.getSlice s) = .ok (.vals ⟨o.st.vals.kind, ys⟩) ∧ ys.length = idx.length ∧
      ∀ (k : Nat) i, idx[k]? = some i →
        0 ≤ i ∧ i < (o.st.vals.xs.length : Int) ∧ ys[k]? = o.st.vals.xs[i.toNat]?) := by
  obtain ⟨h0, h1⟩ := pySlice_spec o.st.vals.xs s
  constructor
  · intro h
    simp only [runOp, h0 h]
  · intro h
    obtain ⟨idx, ys, hidx, hys, hl, he⟩ := h1 h
    exact ⟨idx, ys, hidx, by simp only [runOp, hys], hl, he⟩

/-- the public **`CheckValues(values)`** of an array accepts exactly the containers of `dimension`
elements (`ValueError` for any other length, `TypeError` for an object without a length); with the
`dimension` keyword it is that number the length is compared with -/
theorem checkValues_spec (o : Obj) (values : ValArg) (dimension : Option Int) :
    checkValuesPublic o values dimension =
      (match values with
       | .unsized => .error .type
       | .sized v => if (v.xs.length : Int) = dimension.getD o.st.dim then .ok () else .error .value) := by
  unfold checkValuesPublic checkValues
  cases values with
  | unsized => rfl
  | sized v =>
    by_cases h : (v.xs.length : Int) = dimension.getD o.st.dim <;> simp [h]

/-- `a == b` between FixedArrays holds only for equal dimensions and equally many values; an array equals
itself, and nothing that is not a FixedArray -/
theorem fixedEq_spec (a b : FixedArr) :
    (fixedEq a b = true → a.dim = b.dim ∧ a.vals.xs.length = b.vals.xs.length ∧ a.q = b.q) ∧
    fixedEq a a = true := by
  constructor
  · intro h
    simp only [fixedEq, Bool.and_eq_true, beq_iff_eq] at h
    exact ⟨h.2, by rw [h.1.1], h.1.2⟩
  · simp [fixedEq]

/-- a pickle round trip and a `CreateCopy()` without arguments compare equal to their source -/
theorem copies_compare_equal (db : Db) (o r : Obj) :
    (reduce db o = .ok r → fixedEq o.st r.st = true) ∧
    (createCopy db o none none none = .ok r → fixedEq o.st r.st = true) := by
  constructor
  · intro h
    rw [(reduce_spec db o r h).1]
    exact (fixedEq_spec o.st o.st).2
  · intro h
    obtain ⟨q, v, hq, hc, _⟩ := createCopy_ok h
    simp only [copyQuantity] at hq
    cases hq
    obtain ⟨_, hi⟩ := createWithQuantity_ok hc
    obtain ⟨vs, hm, hr, hvs, hqq, _⟩ := internalCreate_ok hi
    have hd := (createCopy_keeps_dimension db o r none none none h).2.1
    unfold createCopy at h
    simp only [getValues] at h
    obtain ⟨_, hi'⟩ := createWithQuantity_ok h
    obtain ⟨vs', hm', _, hvs', _, _⟩ := internalCreate_ok hi'
    simp only [mergeValue] at hm'
    cases hm'
    have hv : o.st.vals = r.st.vals := by injection hvs'
    simp [fixedEq, hv, hqq, hd]

/-! ### 7. reading a Curve -/

/-- **any sequence of calls** — `SetImage` / `SetDomain` (accepted or rejected), `curve[i]`, `curve[a:b:c]`,
`GetLength()`, `repr(curve)` — leaves image and domain the same length; only a setter can change the curve -/
theorem curve_ops_inv (image domain : ArrRef) (c : Curve) (h : Curve.new image domain = .ok c)
    (os : List CurveOp) : CInv (c.runOps os) := by
  have h0 : CInv c := curve_inv image domain c h []
  exact curve_runOps_inv os c h0

/-- a call that is not a setter returns the very same curve -/
theorem curve_reads_change_nothing (c : Curve) (o : CurveOp) (h : ∀ s, o ≠ .set s) : c.next o = c := by
  cases o with
  | set s => exact absurd rfl (h s)
  | getItem i => rfl
  | getSlice s => rfl
  | length => rfl
  | repr => rfl

/-- **`curve[i]`** on a curve whose image and domain have the same length `n` (every curve, by
`curve_ops_inv`): for `-n ≤ i < n` the pair `(domain[j], image[j])` at the normalised index `j` — the
domain element FIRST, as the code has it —, `IndexError` for every other index -/
theorem curve_getitem_spec (h : Content) (c : Curve) (i : Int) (hf : Faithful h) (hc : CInv c) :
    (∀ j, normIndex c.length i = some j →
        ∃ d im, (h c.domain).elems[j]? = some d ∧ (h c.image).elems[j]? = some im ∧
          c.getItem h i = .ok (d, im)) ∧
    (normIndex c.length i = none → c.getItem h i = .error .index) := by
  have hli : (h c.image).elems.length = c.length := hf c.image
  have hld : (h c.domain).elems.length = c.length := by
    rw [hf c.domain]
    exact hc.symm
  constructor
  · intro j hj
    obtain ⟨d, hd, hpd⟩ := pyIndex_some (xs := (h c.domain).elems) (i := i) (j := j) (by rw [hld]; exact hj)
    obtain ⟨im, him, hpi⟩ := pyIndex_some (xs := (h c.image).elems) (i := i) (j := j) (by rw [hli]; exact hj)
    exact ⟨d, im, hd, him, by simp only [Curve.getItem, hpd, hpi]⟩
  · intro hn
    have : pyIndex (h c.domain).elems i = .error .index := pyIndex_none (by rw [hld]; exact hn)
    simp only [Curve.getItem, this]

/-- **`curve[start:stop:step]`** builds no Curve: it is the pair of the two containers sliced on their own
(domain first, each keeping its container kind).  On a curve whose image and domain have the same length the
two slices visit the same positions: equally long, and the `k`-th elements are `domain[p]` and `image[p]` for
one and the same position `p`.  A zero step is `ValueError`. -/
theorem curve_slice_spec (h : Content) (c : Curve) (s : PySlice) (hf : Faithful h) (hc : CInv c) :
    (s.step = some 0 → c.getSlice h s = .error .value) ∧
    (s.step ≠ some 0 → ∃ idx d im, sliceIndices c.length s = .ok idx ∧
      c.getSlice h s = .ok (((h c.domain).kind, d), ((h c.image).kind, im)) ∧
      d.length = idx.length ∧ im.length = idx.length ∧
      ∀ (k : Nat) p, idx[k]? = some p → 0 ≤ p ∧ p < (c.length : Int) ∧
        d[k]? = (h c.domain).elems[p.toNat]? ∧ im[k]? = (h c.image).elems[p.toNat]?) := by
  have hli : (h c.image).elems.length = c.length := hf c.image
  have hld : (h c.domain).elems.length = c.length := by
    rw [hf c.domain]
    exact hc.symm
  obtain ⟨d0, d1⟩ := pySlice_spec (h c.domain).elems s
  obtain ⟨i0, i1⟩ := pySlice_spec (h c.image).elems s
  constructor
  · intro hs
    simp only [Curve.getSlice, d0 hs]
  · intro hs
    obtain ⟨idx, d, hidx, hd, hdl, hde⟩ := d1 hs
    obtain ⟨idx', im, hidx', him, hil, hie⟩ := i1 hs
    rw [hld] at hidx
    rw [hli] at hidx'
    rw [hidx] at hidx'
    cases hidx'
    refine ⟨idx, d, im, hidx, by simp only [Curve.getSlice, hd, him], hdl, hil, ?_⟩
    intro k p hk
    obtain ⟨h0, h1, h2⟩ := hde k p hk
    obtain ⟨_, _, h3⟩ := hie k p hk
    rw [hld] at h1
    exact ⟨h0, h1, h2, h3⟩

/-- **`repr(curve)`** shows the units of image and domain (in this order) and the pairs
`(image[k], domain[k])` for `k < 21`, followed by the ellipsis exactly when there are more than 21 points -/
theorem curve_repr_spec (h : Content) (c : Curve) (hf : Faithful h) (hc : CInv c) :
    (c.repr h).imageUnit = (h c.image).unit ∧ (c.repr h).domainUnit = (h c.domain).unit ∧
    (c.repr h).items = ((h c.image).elems.zip (h c.domain).elems).take 21 ∧
    (c.repr h).items.length = min c.length 21 ∧
    ((c.repr h).ellipsis = true ↔ 21 < c.length) := by
  have hli : (h c.image).elems.length = c.length := hf c.image
  have hld : (h c.domain).elems.length = c.length := by
    rw [hf c.domain]
    exact hc.symm
  have hz : ((h c.image).elems.zip (h c.domain).elems).length = c.length := by
    simp [List.length_zip, hli, hld]
  have hr := reprLoop_spec ((h c.image).elems.zip (h c.domain).elems) 0 (by omega)
  refine ⟨rfl, rfl, ?_, ?_, ?_⟩
  · simp only [Curve.repr, hr]
  · simp only [Curve.repr, hr, List.length_take, hz]
    omega
  · simp only [Curve.repr, hr, hz]
    simp

/-- element access **after any history**: on the curve a constructor call and any sequence of setter calls
(accepted or rejected) and reads have led to, `curve[i]` is `(domain[j], image[j])` for every index of the
curve — `n = GetLength()` is the length of BOTH — and `IndexError` for every other `i` -/
theorem curve_getitem_after_any_history (h : Content) (hf : Faithful h) (image domain : ArrRef) (c : Curve)
    (hnew : Curve.new image domain = .ok c) (os : List CurveOp) (i : Int) :
    (c.runOps os).length = (c.runOps os).domain.len ∧
    (∀ j, normIndex (c.runOps os).length i = some j →
        ∃ d im, (h (c.runOps os).domain).elems[j]? = some d ∧ (h (c.runOps os).image).elems[j]? = some im ∧
          (c.runOps os).getItem h i = .ok (d, im)) ∧
    (normIndex (c.runOps os).length i = none → (c.runOps os).getItem h i = .error .index) := by
  have hc := curve_ops_inv image domain c hnew os
  exact ⟨hc, curve_getitem_spec h (c.runOps os) i hf hc⟩

/-- `GetLength()` is the common length of image and domain -/
theorem curve_length_spec (c : Curve) (hc : CInv c) : c.length = c.image.len ∧ c.length = c.domain.len :=
  ⟨rfl, hc⟩

/-! ### non-vacuity: concrete instances (the POSC database; `m` = 109, `cm`, `length`, `depth`) -/

section Examples

private def uM : Sym := Sym.ofBytes [109]
private def uCm : Sym := Sym.ofBytes [99, 109]
private def cLength : Sym := Sym.ofBytes [108, 101, 110, 103, 116, 104]
private def cDepth : Sym := Sym.ofBytes [100, 101, 112, 116, 104]
private def db0 : Db := ⟨[], [], []⟩

end Examples

end Barril.Fixed
