/-
C12 — limit validation depends only on the physical amount.

Property theorems only.  Model: `Barril/Model/Valid.lean` (`Quantity.CheckValue`, the Scalar /
FractionScalar / Array validation with the NaN-skipping scan, the tuple branch and the cached
verdict, `IsValid`, `UnitDatabase.AddCategory`); helper lemmas: `Barril/Proofs/ValidLemmas.lean`.
The hypothesis `RowsOK` on the unit table (every row well-formed and of the modelled formula shape)
is discharged for the POSC tables by generated `decide +kernel` theorems at the end.
-/
import Barril.Proofs.ValidLemmas
import Barril.Gen.ThmWfPosc
import Barril.Gen.ThmWfNocat
import Barril.Gen.ThmValshapePosc
import Barril.Gen.ThmValshapeNocat

namespace Barril.Valid
open Barril

/-! ### what "the amount satisfies the limits" means (IEEE semantics of the three special values) -/

/-- a value (already in the default unit) satisfies the limits of a category -/
def Sat (c : CatInfo) : Val → Prop
  | .fin y => (∀ m, c.minV = some m → if c.minExcl then m < y else m ≤ y)
              ∧ (∀ M, c.maxV = some M → if c.maxExcl then y < M else y ≤ M)
  | .posInf => c.maxV = none
  | .negInf => c.minV = none
  | .nan => c.minV = none ∧ c.maxV = none

/-- the two comparisons made by `CheckValue` accept exactly the values that satisfy the limits, in
all four exclusivity configurations -/
theorem checkLimits_iff_sat (c : CatInfo) (v : Val) : checkLimits c v = .ok () ↔ Sat c v := by
  rw [checkLimits_ok_iff, checkMin_ok_iff, checkMax_ok_iff]
  cases v with
  | fin y =>
    simp only [Sat]
    constructor
    · rintro ⟨h1, h2⟩
      refine ⟨fun m hm => ?_, fun m hm => ?_⟩
      · have := h1 m hm; cases hx : c.minExcl <;> simp_all [Val.lt, Val.le]
      · have := h2 m hm; cases hx : c.maxExcl <;> simp_all [Val.lt, Val.le]
    · rintro ⟨h1, h2⟩
      refine ⟨fun m hm => ?_, fun m hm => ?_⟩
      · have := h1 m hm; cases hx : c.minExcl <;> simp_all [Val.lt, Val.le]
      · have := h2 m hm; cases hx : c.maxExcl <;> simp_all [Val.lt, Val.le]
  | posInf =>
    simp only [Sat]
    cases c.maxV <;> cases c.minExcl <;> cases c.maxExcl <;> simp [Val.lt, Val.le]
  | negInf =>
    simp only [Sat]
    cases c.minV <;> cases c.minExcl <;> cases c.maxExcl <;> simp [Val.lt, Val.le]
  | nan =>
    simp only [Sat]
    cases c.minV <;> cases c.maxV <;> cases c.minExcl <;> cases c.maxExcl <;> simp [Val.lt, Val.le]

/-- **`CheckValue` accepts exactly when the amount, converted to the default unit, satisfies the
limits** (a category with a limit; `convToDefault` is the identity when the unit is the default
unit) -/
theorem checkValue_spec (g : Reg) {c : CatInfo} (unit : Sym) (this : UnitRow) (v : Val)
    (hl : c.limited = true) :
    checkValue g (.simple c unit this) v = .ok () ↔
      ∃ v', convToDefault g c unit this v = .ok v' ∧ Sat c v' := by
  rw [checkValue_simple hl]
  cases h : convToDefault g c unit this v with
  | error e => simp
  | ok v' => simp [checkLimits_iff_sat]

/-- no limits, or a derived quantity: everything is accepted (NaN included) -/
theorem checkValue_unlimited (g : Reg) {c : CatInfo} (unit : Sym) (this : UnitRow) (v : Val)
    (hl : c.limited = false) : checkValue g (.simple c unit this) v = .ok () := by
  simp [checkValue, hl]

theorem checkValue_derived (g : Reg) (v : Val) : checkValue g .derived v = .ok () := rfl

/-- a limit that is reported as violated -/
def Violated (c : CatInfo) (op : CmpOp) (m : Rat) (w : Val) : Prop :=
  match op with
  | .gt => c.minV = some m ∧ c.minExcl = true ∧ Val.lt (.fin m) w = false
  | .ge => c.minV = some m ∧ c.minExcl = false ∧ Val.le (.fin m) w = false
  | .lt => c.maxV = some m ∧ c.maxExcl = true ∧ Val.lt w (.fin m) = false
  | .le => c.maxV = some m ∧ c.maxExcl = false ∧ Val.le w (.fin m) = false

/-- **a rejection reports the violated limit and operator** (and the converted amount); the minimum
is reported before the maximum -/
theorem checkValue_error_spec (g : Reg) {c : CatInfo} (unit : Sym) (this : UnitRow) (v : Val)
    {op : CmpOp} {m : Rat} {w : Val}
    (h : checkValue g (.simple c unit this) v = .error (.validation op m w)) :
    convToDefault g c unit this v = .ok w ∧ Violated c op m w ∧ ¬ Sat c w := by
  have hl : c.limited = true := by
    cases hl : c.limited with
    | true => rfl
    | false => rw [checkValue_unlimited g unit this v hl] at h; cases h
  rw [checkValue_simple hl] at h
  cases hc : convToDefault g c unit this v with
  | error e => rw [hc] at h; cases h
  | ok v' =>
    rw [hc] at h
    simp only at h
    have hv : v' = w ∧ Violated c op m w := by
      unfold checkLimits at h
      cases h1 : checkMin c v' with
      | error e =>
        rw [h1] at h
        simp only at h
        obtain ⟨m', hm, hcase⟩ := checkMin_error h1
        rcases hcase with ⟨hx, he, hf⟩ | ⟨hx, he, hf⟩ <;>
          (rw [he] at h; injection h with h; injection h with h1 h2 h3; subst h1 h2 h3
           simp [Violated, hm, hx, hf])
      | ok u =>
        rw [h1] at h
        simp only at h
        obtain ⟨m', hm, hcase⟩ := checkMax_error h
        rcases hcase with ⟨hx, he, hf⟩ | ⟨hx, he, hf⟩ <;>
          (injection he with h1 h2 h3; subst h1 h2 h3
           simp [Violated, hm, hx, hf])
    obtain ⟨rfl, hv⟩ := hv
    refine ⟨rfl, hv, ?_⟩
    rw [← checkLimits_iff_sat, h]
    intro hh; cases hh

/-- **a NaN Scalar satisfies no limit**: whatever the unit and the rows, it is never accepted by a
category that has a limit -/
theorem scalar_nan_rejected_when_limited (g : Reg) {c : CatInfo} (unit : Sym) (this : UnitRow)
    (hl : c.limited = true) : checkValue g (.simple c unit this) .nan ≠ .ok () := by
  rw [checkValue_simple hl]
  have hap : ∀ m : Mob, m.applyV .nan = .ok .nan ∨ ∃ e, m.applyV .nan = .error e := by
    intro m
    unfold Mob.applyV
    by_cases hs : m.s = 0
    · by_cases hr : m.r = 0
      · exact Or.inr ⟨.other, by simp [hs, hr, Val.mul, Val.add, Val.div]⟩
      · exact Or.inl (by simp [hs, hr, Val.mul, Val.add, Val.div])
    · exact Or.inl (by simp [hs, Val.mul, Val.add, Val.div])
  have : convToDefault g c unit this .nan = .ok .nan ∨ ∃ e, convToDefault g c unit this .nan = .error e := by
    unfold convToDefault
    split
    · exact Or.inl rfl
    · split
      · exact Or.inr ⟨_, rfl⟩
      · rename_i other _
        unfold convRowsV toBaseV fromBaseV
        split
        · exact Or.inr ⟨_, rfl⟩
        · cases this.hasConvTo <;> cases other.hasConvFrom <;>
            simp only [↓reduceIte, Bool.false_eq_true]
          · exact Or.inl trivial
          · exact hap _
          · rcases hap this.toBase with h | ⟨e, h⟩ <;> rw [h]
            · first | exact Or.inl rfl | exact Or.inl trivial
            · exact Or.inr ⟨e, rfl⟩
          · rcases hap this.toBase with h | ⟨e, h⟩ <;> rw [h]
            · exact hap _
            · exact Or.inr ⟨e, rfl⟩
  rcases this with h | ⟨e, h⟩
  · rw [h]; exact checkLimits_nan hl
  · rw [h]; intro hh; cases hh

/-! ### the Array scan -/

/-- **the loop returns the minimum and the maximum of the non-NaN elements** (lists of any length);
it returns nothing exactly when every element is NaN -/
theorem scan_minmax (vs : List Val) :
    (scan vs = none ↔ ∀ v ∈ vs, v.isNan = true)
    ∧ ∀ mn mx, scan vs = some (mn, mx) →
        mn ∈ vs ∧ mx ∈ vs ∧ mn.isNan = false ∧ mx.isNan = false
        ∧ ∀ v ∈ vs, v.isNan = false → Val.le mn v = true ∧ Val.le v mx = true :=
  ⟨scan_none_iff vs, fun _ _ h =>
    let r := scan_some_spec h; ⟨r.mn_mem, r.mx_mem, r.mn_num, r.mx_num, r.bounds⟩⟩

/-- the scan does not depend on the order of the elements -/
theorem scan_perm {vs ws : List Val} (p : vs.Perm ws) : scan vs = scan ws := by
  cases h1 : scan vs with
  | none =>
    have := (scan_none_iff vs).mp h1
    exact ((scan_none_iff ws).mpr (fun v hv => this v (p.mem_iff.mpr hv))).symm
  | some ab =>
    obtain ⟨a, b⟩ := ab
    cases h2 : scan ws with
    | none =>
      have := (scan_none_iff ws).mp h2
      have r := scan_some_spec h1
      have := this a (p.mem_iff.mp r.mn_mem)
      rw [r.mn_num] at this; cases this
    | some ab' =>
      obtain ⟨a', b'⟩ := ab'
      obtain ⟨rfl, rfl⟩ := ((scan_some_spec h1).of_perm p).unique (scan_some_spec h2)
      rfl

/-- **a flat Array is valid iff every non-NaN element is valid as a Scalar** (any length; NaN
elements are skipped) -/
theorem array_valid_iff_all {g : Reg} (hg : RowsOK g.units) {c : CatInfo} {unit : Sym} {this : UnitRow}
    (ht : this ∈ g.units) (kind : Container) (vs : List Val) :
    doValidate g (.simple c unit this) (.flat kind vs) = .ok () ↔
      ∀ v ∈ vs, v.isNan = false → checkValue g (.simple c unit this) v = .ok () := by
  cases hl : c.limited with
  | false =>
    simp only [doValidate, hl, Bool.not_false, ↓reduceIte, true_iff]
    intro v _ _; exact checkValue_unlimited g unit this v hl
  | true =>
    simp only [doValidate, hl, Bool.not_true, Bool.false_eq_true, ↓reduceIte, checkFlat]
    cases hs : scan vs with
    | none =>
      simp only [true_iff]
      intro v hv hn
      rw [(scan_none_iff vs).mp hs v hv] at hn; cases hn
    | some ab =>
      obtain ⟨mn, mx⟩ := ab
      have r := scan_some_spec hs
      simp only
      constructor
      · intro h v hv hn
        cases h1 : checkValue g (.simple c unit this) mn with
        | error e => rw [h1] at h; cases h
        | ok u =>
          cases u
          rw [h1] at h
          simp only at h
          obtain ⟨b1, b2⟩ := r.bounds v hv hn
          exact checkValue_between hg ht hl h1 h b1 b2
      · intro h
        rw [h mn r.mn_mem r.mn_num]
        simp only
        exact h mx r.mx_mem r.mx_num

/-- **element order does not matter**: a permutation of the values gets the same verdict and, when
rejected, the same error -/
theorem valid_perm_invariant (g : Reg) (q : Quant) (kind : Container) {vs ws : List Val}
    (p : vs.Perm ws) : doValidate g q (.flat kind vs) = doValidate g q (.flat kind ws) := by
  cases q with
  | derived => rfl
  | simple c unit this => simp only [doValidate, checkFlat, scan_perm p]

/-- **the container kind does not matter** (list, tuple, numpy array) -/
theorem valid_container_invariant (g : Reg) (q : Quant) (k k' : Container) (vs : List Val) :
    doValidate g q (.flat k vs) = doValidate g q (.flat k' vs) := by
  cases q <;> rfl

/-- Scalar and FractionScalar with the same float value get the same answer, and it is the
`CheckValue` verdict of that value -/
theorem scalar_fraction_same (g : Reg) (q : Quant) (v : Val) :
    (checkValidity g q (.scalar v)).2 = checkValue g q v
    ∧ (checkValidity g q (.fraction v)).2 = checkValue g q v := ⟨rfl, rfl⟩

/-- an Array of one non-NaN value and the Scalar of that value get the same verdict -/
theorem singleton_array_as_scalar {g : Reg} (hg : RowsOK g.units) {c : CatInfo} {unit : Sym}
    {this : UnitRow} (ht : this ∈ g.units) (kind : Container) {v : Val} (hv : v.isNan = false) :
    doValidate g (.simple c unit this) (.flat kind [v]) = .ok () ↔
      checkValue g (.simple c unit this) v = .ok () := by
  rw [array_valid_iff_all hg ht]
  simp [hv]

/-! ### the tuple-of-tuples branch -/

/-- the tuples of a nested container -/
def tuplesOf : List Item → List (List Val)
  | [] => []
  | .num _ :: r => tuplesOf r
  | .tup vs :: r => vs :: tuplesOf r

/-- **a container whose first element is a tuple is valid iff every element of every tuple is
valid as a Scalar** (NaN is not skipped here; elements that are not tuples are passed over by the
code, which the model reproduces) -/
theorem tuples_branch_spec (g : Reg) {c : CatInfo} (unit : Sym) (this : UnitRow) (hl : c.limited = true)
    (kind : Container) (first : List Val) (rest : List Item) :
    doValidate g (.simple c unit this) (.nested kind first rest) = .ok () ↔
      ∀ t ∈ first :: tuplesOf rest, ∀ v ∈ t, checkValue g (.simple c unit this) v = .ok () := by
  have hall : ∀ vs : List Val, checkAll g (.simple c unit this) vs = .ok () ↔
      ∀ v ∈ vs, checkValue g (.simple c unit this) v = .ok () := by
    intro vs
    induction vs with
    | nil => simp [checkAll]
    | cons v vs ih =>
      unfold checkAll
      cases h : checkValue g (.simple c unit this) v with
      | error e => simp [h]
      | ok u => cases u; simp [h, ih]
  have hitems : ∀ items : List Item, checkItems g (.simple c unit this) items = .ok () ↔
      ∀ t ∈ tuplesOf items, ∀ v ∈ t, checkValue g (.simple c unit this) v = .ok () := by
    intro items
    induction items with
    | nil => simp [checkItems, tuplesOf]
    | cons it r ih =>
      cases it with
      | num x => simp only [checkItems, tuplesOf, ih]
      | tup vs =>
        unfold checkItems
        cases h : checkAll g (.simple c unit this) vs with
        | error e =>
          simp only [tuplesOf, List.mem_cons, forall_eq_or_imp]
          constructor
          · intro hh; cases hh
          · intro h1
            rw [(hall vs).mpr h1.1] at h; cases h
        | ok u =>
          cases u
          simp only [tuplesOf, List.mem_cons, forall_eq_or_imp, ih]
          constructor
          · intro h2; exact ⟨(hall vs).mp h, h2⟩
          · intro h2; exact h2.2
  simp only [doValidate, hl, Bool.not_true, Bool.false_eq_true, ↓reduceIte]
  rw [hitems]
  simp [tuplesOf]

/-! ### the cached verdict -/

/-- the answer of one call when nothing is cached -/
def uncached (g : Reg) (q : Quant) (a : ArrVal) : Call → CallOut
  | .check => .checked (doValidate g q a)
  | .isValid =>
    match q with
    | .derived => .valid (.ok true)
    | .simple _ _ _ =>
      match doValidate g q a with
      | .ok _ => .valid (.ok true)
      | .error e => if e.isValueError then .valid (.ok false) else .valid (.error e)

/-- the cache holds nothing, or the verdict of `doValidate` -/
def CacheOK (g : Reg) (q : Quant) (a : ArrVal) (k : Cache) : Prop :=
  k = Cache.fresh ∨ (k = ⟨some true, none⟩ ∧ doValidate g q a = .ok ())
    ∨ ∃ e, k = ⟨some false, some e⟩ ∧ doValidate g q a = .error e

/-- **cached verdicts are the real verdicts**: any sequence of `CheckValidity` / `IsValid` calls on
one Array answers every call as a fresh computation would (histories of any length) -/
theorem cached_verdict_stable (g : Reg) (q : Quant) (a : ArrVal) (cs : List Call) :
    calls g q (.array a Cache.fresh) cs = cs.map (uncached g q a) := by
  have step : ∀ k, CacheOK g q a k →
      (validateValues g q a k).2 = doValidate g q a ∧ CacheOK g q a (validateValues g q a k).1 := by
    intro k hk
    rcases hk with rfl | ⟨rfl, h⟩ | ⟨e, rfl, h⟩
    · unfold validateValues Cache.fresh
      cases h : doValidate g q a with
      | error e => simp [CacheOK, h]
      | ok u => cases u; simp [CacheOK, h]
    · simp [validateValues, h, CacheOK]
    · simp [validateValues, h, CacheOK]
  have main : ∀ cs k, CacheOK g q a k → calls g q (.array a k) cs = cs.map (uncached g q a) := by
    intro cs
    induction cs with
    | nil => intro k _; rfl
    | cons c cs ih =>
      intro k hk
      obtain ⟨h1, h2⟩ := step k hk
      cases c with
      | check =>
        simp only [calls, call, checkValidity, List.map_cons, uncached, h1]
        rw [ih _ h2]
      | isValid =>
        cases q with
        | derived =>
          simp only [calls, call, isValid, List.map_cons, uncached]
          rw [ih _ hk]
        | simple c' u t =>
          simp only [calls, call, isValid, checkValidity, List.map_cons, uncached]
          rw [h1]
          cases hd : doValidate g (.simple c' u t) a with
          | ok u => simp only; rw [ih _ h2]
          | error e =>
            simp only
            cases e.isValueError <;> simp only [Bool.false_eq_true, ↓reduceIte] <;> rw [ih _ h2]
  exact main cs _ (Or.inl rfl)

/-- calls on an Array leave it the same Array (only the memo changes) -/
theorem afterCalls_array (g : Reg) (q : Quant) (a : ArrVal) (cs : List Call) :
    ∀ k, ∃ k', afterCalls g q (.array a k) cs = .array a k' := by
  induction cs with
  | nil => intro k; exact ⟨k, rfl⟩
  | cons c cs ih =>
    intro k
    cases c with
    | check => simp only [afterCalls, call, checkValidity]; exact ih _
    | isValid =>
      cases q with
      | derived => simp only [afterCalls, call, isValid]; exact ih _
      | simple c' u t =>
        simp only [afterCalls, call, isValid, checkValidity]
        cases (validateValues g (.simple c' u t) a k).2 with
        | ok _ => exact ih _
        | error e => cases he : e.isValueError <;> simp only [he, Bool.false_eq_true, ↓reduceIte] <;> exact ih _

/-- **a copy does not depend on what was asked of its source**: `CreateCopy` after any sequence of
validity calls on the source (any memoised verdict) gives the same object as `CreateCopy` on the
untouched source -/
theorem copy_independent_of_source_history (g : Reg) (q : Quant) (a : ArrVal) (cs : List Call)
    (unit cat : Option Sym) :
    ∃ k', afterCalls g q (.array a Cache.fresh) cs = .array a k'
      ∧ createCopy g q a k' unit cat = createCopy g q a Cache.fresh unit cat := by
  obtain ⟨k', hk⟩ := afterCalls_array g q a cs Cache.fresh
  exact ⟨k', hk, by cases q <;> rfl⟩

/-- **a copy is judged on its own amounts and its own category**: it holds the source's values
written in the requested unit, carries no memo, and every sequence of calls on it answers as a fresh
computation for the copy's quantity (so with the limits of the copy's category) -/
theorem copy_judged_on_its_own {g : Reg} {q q' : Quant} {a : ArrVal} {k : Cache} {unit cat : Option Sym}
    {o' : Obj} (h : createCopy g q a k unit cat = .ok (q', o')) :
    ∃ c u t a', q = .simple c u t ∧ valuesIn g c.name u unit a = .ok a' ∧ o' = .array a' Cache.fresh
      ∧ ∀ cs, calls g q' o' cs = cs.map (uncached g q' a') := by
  cases q with
  | derived => simp [createCopy] at h
  | simple c u t =>
    unfold createCopy at h
    simp only at h
    cases hv : valuesIn g c.name u unit a with
    | error e => rw [hv] at h; cases h
    | ok a' =>
      rw [hv] at h
      simp only at h
      have fin : ∀ q'' : Quant, (Except.ok (q'', Obj.array a' Cache.fresh) : Except ErrKind (Quant × Obj))
          = .ok (q', o') →
          ∃ c0 u0 t0 a0, Quant.simple c u t = .simple c0 u0 t0 ∧ valuesIn g c0.name u0 unit a = .ok a0
            ∧ o' = .array a0 Cache.fresh ∧ ∀ cs, calls g q' o' cs = cs.map (uncached g q' a0) := by
        intro q'' he
        injection he with he
        injection he with h1 h2
        subst h1 h2
        exact ⟨c, u, t, a', rfl, hv, rfl, fun cs => cached_verdict_stable g _ a' cs⟩
      cases unit with
      | none =>
        cases cat with
        | none => exact fin _ h
        | some c' => cases h
      | some u' =>
        cases cat with
        | some c' =>
          simp only at h
          cases hm : mkQuant g c' u' with
          | error e => rw [hm] at h; cases h
          | ok q'' => rw [hm] at h; exact fin _ h
        | none =>
          simp only at h
          split at h
          · cases h
          · cases hm : mkQuant g c.name u' with
            | error e => rw [hm] at h; cases h
            | ok q'' => rw [hm] at h; exact fin _ h

/-- `IsValid` answers True exactly when `CheckValidity` raises nothing -/
theorem isValid_iff_check (g : Reg) {c : CatInfo} (unit : Sym) (this : UnitRow) (o : Obj) :
    (isValid g (.simple c unit this) o).2 = .ok true ↔
      (checkValidity g (.simple c unit this) o).2 = .ok () := by
  unfold isValid
  cases h : checkValidity g (.simple c unit this) o with
  | mk o' r =>
    cases r with
    | ok u => simp
    | error e => cases he : e.isValueError <;> simp [he]

/-! ### the unit the amount is written in -/

/-- an amount written in the first unit, rewritten in the second: `convVal r1 r2` (the exact
conversion of C01) on finite amounts; an infinity stays that infinity (every conversion is increasing),
NaN stays NaN -/
def rewriteIn (r1 r2 : UnitRow) : Val → Val := liftV (convVal r1 r2)

/-- **physically equal amounts get the same answer, whatever the units they are written in** — for ALL
values, the infinities and NaN included: same verdict and, when rejected, the same operator, limit and
reported amount -/
theorem valid_unit_invariant {g : Reg} (hg : RowsOK g.units) {c : CatInfo} {u1 u2 : Sym}
    {r1 r2 : UnitRow} (h1 : g.db.getInfo c.qtype u1 true = .ok r1)
    (h2 : g.db.getInfo c.qtype u2 true = .ok r2) (v : Val) :
    checkValue g (.simple c u1 r1) v = checkValue g (.simple c u2 r2) (rewriteIn r1 r2 v) := by
  cases hl : c.limited with
  | false => rw [checkValue_unlimited _ _ _ _ hl, checkValue_unlimited _ _ _ _ hl]
  | true =>
    rw [checkValue_simple hl, checkValue_simple hl]
    obtain ⟨w1, s1⟩ := hg r1 (Db.getInfo_mem h1)
    obtain ⟨w2, s2⟩ := hg r2 (Db.getInfo_mem h2)
    have fin_case : ∀ x, convToDefault g c u1 r1 (.fin x)
        = convToDefault g c u2 r2 (.fin (convVal r1 r2 x)) := by
      intro x
      unfold convToDefault
      cases e1 : u1 == c.defaultUnit <;> cases e2 : u2 == c.defaultUnit <;>
        simp only [Bool.false_eq_true, ↓reduceIte]
      · cases hd : g.db.getInfo c.qtype c.defaultUnit true with
        | error e => rfl
        | ok other =>
          obtain ⟨wo, so⟩ := hg other (Db.getInfo_mem hd)
          simp only
          rw [convRowsV_fin w1 wo s1 so, convRowsV_fin w2 wo s2 so, convVal_trans w1 w2 wo]
      · have : u2 = c.defaultUnit := by simpa using e2
        subst this
        rw [h2]
        simp only
        rw [convRowsV_fin w1 w2 s1 s2]
      · have : u1 = c.defaultUnit := by simpa using e1
        subst this
        rw [h1]
        simp only
        rw [convRowsV_fin w2 w1 s2 s1, convVal_roundtrip w1 w2]
      · have a1 : u1 = c.defaultUnit := by simpa using e1
        have a2 : u2 = c.defaultUnit := by simpa using e2
        subst a1
        rw [a2, h1] at h2
        cases h2
        rw [convVal_self w1]
    have nf_case : ∀ w : Val, (∀ x, w ≠ .fin x) →
        convToDefault g c u1 r1 w = convToDefault g c u2 r2 w := by
      intro w hw
      unfold convToDefault
      cases e1 : u1 == c.defaultUnit <;> cases e2 : u2 == c.defaultUnit <;>
        simp only [Bool.false_eq_true, ↓reduceIte]
      · cases hd : g.db.getInfo c.qtype c.defaultUnit true with
        | error e => rfl
        | ok other =>
          obtain ⟨wo, _⟩ := hg other (Db.getInfo_mem hd)
          simp only
          rw [convRowsV_nonfinite w1 wo hw, convRowsV_nonfinite w2 wo hw]
      · have : u2 = c.defaultUnit := by simpa using e2
        subst this
        rw [h2]
        simp only
        rw [convRowsV_nonfinite w1 w2 hw]
      · have : u1 = c.defaultUnit := by simpa using e1
        subst this
        rw [h1]
        simp only
        rw [convRowsV_nonfinite w2 w1 hw]
    have key : convToDefault g c u1 r1 v = convToDefault g c u2 r2 (rewriteIn r1 r2 v) := by
      cases v with
      | fin x => exact fin_case x
      | posInf => exact nf_case _ (by intro x h; cases h)
      | negInf => exact nf_case _ (by intro x h; cases h)
      | nan => exact nf_case _ (by intro x h; cases h)
    rw [key]

/-- the same for the verdict of `IsValid` of two Scalars -/
theorem scalar_isValid_unit_invariant {g : Reg} (hg : RowsOK g.units) {c : CatInfo} {u1 u2 : Sym}
    {r1 r2 : UnitRow} (h1 : g.db.getInfo c.qtype u1 true = .ok r1)
    (h2 : g.db.getInfo c.qtype u2 true = .ok r2) (v : Val) :
    (isValid g (.simple c u1 r1) (.scalar v)).2
      = (isValid g (.simple c u2 r2) (.scalar (rewriteIn r1 r2 v))).2 := by
  have key : ∀ (u : Sym) (r : UnitRow) (v : Val), (isValid g (.simple c u r) (.scalar v)).2 =
      (match checkValue g (.simple c u r) v with
       | .ok _ => .ok true
       | .error e => if e.isValueError then .ok false else .error e) := by
    intro u r v
    simp only [isValid, checkValidity]
    cases checkValue g (.simple c u r) v with
    | ok _ => rfl
    | error e => cases he : e.isValueError <;> simp [he]
  rw [key, key, valid_unit_invariant hg h1 h2 v]

/-- **an infinite amount is judged as an infinity in every unit**: accepted exactly when no limit
lies on its side — in the default unit and in any other unit of the type alike -/
theorem infinity_any_unit {g : Reg} (hg : RowsOK g.units) {c : CatInfo} {unit : Sym} {this other : UnitRow}
    (ht : this ∈ g.units) (hl : c.limited = true)
    (hd : g.db.getInfo c.qtype c.defaultUnit true = .ok other) :
    (checkValue g (.simple c unit this) .posInf = .ok () ↔ c.maxV = none)
    ∧ (checkValue g (.simple c unit this) .negInf = .ok () ↔ c.minV = none) := by
  obtain ⟨wt, _⟩ := hg this ht
  obtain ⟨wo, _⟩ := hg other (Db.getInfo_mem hd)
  have conv : ∀ w : Val, (∀ x, w ≠ .fin x) → convToDefault g c unit this w = .ok w := by
    intro w hw
    unfold convToDefault
    split
    · rfl
    · rw [hd]; simp only; exact convRowsV_nonfinite wt wo hw
  constructor
  · rw [checkValue_spec g _ _ _ hl, conv _ (by intro x h; cases h)]
    simp [Sat]
  · rw [checkValue_spec g _ _ _ hl, conv _ (by intro x h; cases h)]
    simp [Sat]

/-! ### `AddCategory` -/

/-- **registering a category never yields a default unit or a default value that violates the
category's own constraints**: whenever `AddCategory` accepts (any arguments, `from_category`
included), the default unit is a unit of the category's quantity type (and, when it was not given and a
non-empty list of valid units was, one of these), every valid unit is a unit of the type, and the
default value satisfies the limits that were registered (so the limits are not contradictory) -/
theorem addCategory_default_ok {g g' : Reg} {a : AddArgs} {info : CatInfo}
    (h : addCategory g a = .ok (g', info)) :
    (∃ qunits, g.unitsOf info.qtype = .ok qunits ∧ info.defaultUnit ∈ qunits
        ∧ (∀ vs, info.validUnits = some vs → ∀ u ∈ vs, u ∈ qunits))
    ∧ checkLimits info info.defaultValue = .ok ()
    ∧ Sat info info.defaultValue
    ∧ g'.cats = info :: g.cats ∧ g'.units = g.units ∧ info.name = a.category := by
  -- the core, on merged arguments
  have core : ∀ a' : AddArgs, addCategoryCore g a' = .ok info →
      (a'.defaultValue = none → limitsCrossed a' = false) →
      (∃ qunits, g.unitsOf info.qtype = .ok qunits ∧ info.defaultUnit ∈ qunits
        ∧ (∀ vs, info.validUnits = some vs → ∀ u ∈ vs, u ∈ qunits))
      ∧ checkLimits info info.defaultValue = .ok () ∧ info.name = a'.category := by
    intro a' hc hcross
    unfold addCategoryCore at hc
    cases hq : a'.qtype with
    | none => rw [hq] at hc; cases hc
    | some qt =>
      rw [hq] at hc
      simp only at hc
      cases hveq : fixValidOpt g qt a'.validUnits with
      | error e => rw [hveq] at hc; cases hc
      | ok valid =>
      have hvmem : ∀ vs, valid = some vs → ∃ qunits, g.unitsOf qt = .ok qunits ∧ ∀ u ∈ vs, u ∈ qunits := by
        unfold fixValidOpt at hveq
        cases hv : a'.validUnits with
        | none => rw [hv] at hveq; cases hveq; intro vs h; cases h
        | some vs =>
          rw [hv] at hveq
          simp only at hveq
          cases hu : g.unitsOf qt with
          | error e => rw [hu] at hveq; cases hveq
          | ok qunits =>
            rw [hu] at hveq
            simp only at hveq
            cases hf : fixValidUnits g qunits vs with
            | error e => rw [hf] at hveq; cases hveq
            | ok r =>
              rw [hf] at hveq
              cases hveq
              intro vs' h'
              cases h'
              exact ⟨qunits, rfl, fixValidUnits_mem hf⟩
      rw [hveq] at hc
      simp only at hc
      cases hdu : pickDefaultUnit g qt valid a'.defaultUnit with
      | error e => rw [hdu] at hc; cases hc
      | ok du =>
        rw [hdu] at hc
        simp only at hc
        cases hdv : pickDefaultValue a'.minV a'.maxV a'.minExcl a'.maxExcl a'.defaultValue with
        | error e => rw [hdv] at hc; cases hc
        | ok dv =>
          rw [hdv] at hc
          simp only [Except.ok.injEq] at hc
          subst hc
          simp only
          refine ⟨?_, ?_, trivial⟩
          · -- default unit
            unfold pickDefaultUnit at hdu
            cases hgiven : a'.defaultUnit with
            | some d =>
              rw [hgiven] at hdu
              simp only at hdu
              cases hu : g.unitsOf qt with
              | error e => rw [hu] at hdu; cases hdu
              | ok qunits =>
                rw [hu] at hdu
                simp only at hdu
                split at hdu
                · rename_i hc'
                  cases hdu
                  refine ⟨qunits, rfl, by simpa using hc', ?_⟩
                  intro vs hvs u huu
                  obtain ⟨q', hq', hm⟩ := hvmem vs hvs
                  rw [hu] at hq'; cases hq'
                  exact hm u huu
                · cases hdu
            | none =>
              rw [hgiven] at hdu
              simp only at hdu
              cases hu : g.unitsOf qt with
              | error e => rw [hu] at hdu; cases hdu
              | ok qunits =>
                rw [hu] at hdu
                have hvm : ∀ vs, valid = some vs → ∀ u ∈ vs, u ∈ qunits := by
                  intro vs hvs u huu
                  obtain ⟨q', hq', hm⟩ := hvmem vs hvs
                  rw [hu] at hq'; cases hq'
                  exact hm u huu
                cases qunits with
                | nil => cases hdu
                | cons base rest =>
                  simp only at hdu
                  refine ⟨base :: rest, rfl, ?_, hvm⟩
                  cases valid with
                  | none => simp only at hdu; cases hdu; exact List.mem_cons_self
                  | some vl =>
                    cases vl with
                    | nil => simp only at hdu; cases hdu; exact List.mem_cons_self
                    | cons v0 vs =>
                      simp only at hdu
                      split at hdu
                      · cases hdu; exact List.mem_cons_self
                      · cases hdu; exact hvm _ rfl _ List.mem_cons_self
          · -- default value
            unfold pickDefaultValue at hdv
            cases hgiven : a'.defaultValue with
            | some d =>
              rw [hgiven] at hdv
              simp only at hdv
              split at hdv
              · rename_i hassert
                cases hdv
                unfold assertDefault at hassert
                simp only [Bool.and_eq_true] at hassert
                rw [checkLimits_ok_iff, checkMin_ok_iff, checkMax_ok_iff]
                constructor
                · intro m hm
                  have hm' : a'.minV = some m := hm
                  have := hassert.1
                  rw [hm'] at this
                  cases hx : a'.minExcl <;> simp_all [Val.gt, Val.ge]
                · intro m hm
                  have hm' : a'.maxV = some m := hm
                  have := hassert.2
                  rw [hm'] at this
                  cases hx : a'.maxExcl <;> simp_all
              · cases hdv
            | none =>
              rw [hgiven] at hdv
              simp only at hdv
              have hcr := hcross hgiven
              split at hdv
              · cases hdv
              · rename_i hex
                simp only [Bool.or_eq_true, not_or, Bool.not_eq_true] at hex
                rw [checkLimits_ok_iff, checkMin_ok_iff, checkMax_ok_iff]
                simp only [hex.1, hex.2, Bool.false_eq_true, ↓reduceIte]
                unfold limitsCrossed at hcr
                cases hm : a'.minV <;> cases hM : a'.maxV <;> simp only [hm, hM] at hdv hcr <;>
                  cases hdv <;> simp_all [Val.le]
  unfold addCategory at h
  split at h
  · cases h
  · split at h
    · cases h
    · split at h
      · cases h
      · rename_i hcross
        cases hm : mergeArgs g a with
        | error e => rw [hm] at h; cases h
        | ok a' =>
          rw [hm] at h
          simp only at h
          cases hc : addCategoryCore g a' with
          | error e => rw [hc] at h; cases h
          | ok info' =>
            rw [hc] at h
            simp only [Except.ok.injEq, Prod.mk.injEq] at h
            obtain ⟨rfl, rfl⟩ := h
            have hcat : a'.category = a.category ∧ (a'.defaultValue = none → limitsCrossed a' = false) := by
              unfold mergeArgs at hm
              cases hf : truthyName a.fromCategory with
              | none =>
                rw [hf] at hm
                cases hm
                exact ⟨rfl, fun _ => by simpa using hcross⟩
              | some f =>
                rw [hf] at hm
                simp only at hm
                cases hs : g.cat? f with
                | none => rw [hs] at hm; cases hm
                | some src =>
                  rw [hs] at hm
                  cases hm
                  refine ⟨rfl, fun h0 => ?_⟩
                  exfalso
                  revert h0
                  unfold mergeFrom
                  cases a.defaultValue <;> simp
            obtain ⟨p1, p2, p3⟩ := core a' hc hcat.2
            exact ⟨p1, p2, (checkLimits_iff_sat _ _).mp p2, rfl, rfl, p3.trans hcat.1⟩

/-- consequently `Scalar(category)` — default value in the default unit — is valid right after
the registration -/
theorem default_scalar_valid {g g' : Reg} {a : AddArgs} {info : CatInfo}
    (h : addCategory g a = .ok (g', info)) (this : UnitRow) :
    checkValue g' (.simple info info.defaultUnit this) info.defaultValue = .ok () := by
  obtain ⟨_, h2, _⟩ := addCategory_default_ok h
  cases hl : info.limited with
  | false => exact checkValue_unlimited _ _ _ _ hl
  | true =>
    rw [checkValue_simple hl]
    simp [convToDefault, h2]

/-! ### registration histories and constructed quantities -/

/-- a history of `AddCategory` calls (rejected calls leave the registry as it is) -/
def runAdds (g : Reg) : List AddArgs → Reg
  | [] => g
  | a :: as =>
    match addCategory g a with
    | .ok (g', _) => runAdds g' as
    | .error _ => runAdds g as

/-- a category whose defaults respect its own constraints -/
def CatInfo.DefaultsOK (units : List UnitRow) (c : CatInfo) : Prop :=
  (∃ r ∈ units, r.qtype = c.qtype ∧ r.sym = c.defaultUnit) ∧ Sat c c.defaultValue

/-- **after any history of registrations (any length, accepted and rejected calls mixed,
overrides and `from_category` included) every category of the registry has a default unit that is a
unit of its quantity type and a default value inside its limits** -/
theorem registry_defaults_ok (as : List AddArgs) : ∀ (g : Reg),
    (∀ c ∈ g.cats, c.DefaultsOK g.units) →
    (runAdds g as).units = g.units ∧ ∀ c ∈ (runAdds g as).cats, c.DefaultsOK g.units := by
  induction as with
  | nil => intro g h; exact ⟨rfl, h⟩
  | cons a as ih =>
    intro g h
    unfold runAdds
    cases ha : addCategory g a with
    | error e => exact ih g h
    | ok r =>
      obtain ⟨g', info⟩ := r
      obtain ⟨⟨qunits, hq, hdu, _⟩, _, hsat, hcats, hunits, _⟩ := addCategory_default_ok ha
      have hinfo : info.DefaultsOK g.units := by
        refine ⟨?_, hsat⟩
        unfold Reg.unitsOf at hq
        split at hq
        · cases hq
          obtain ⟨r, hr, hs⟩ := List.mem_map.mp hdu
          have := List.mem_filter.mp hr
          exact ⟨r, this.1, by simpa using this.2, hs⟩
        · cases hq
      have h' : ∀ c ∈ g'.cats, c.DefaultsOK g'.units := by
        rw [hcats, hunits]
        intro c hc
        rcases List.mem_cons.mp hc with rfl | hc
        · exact hinfo
        · exact h c hc
      obtain ⟨i1, i2⟩ := ih g' h'
      rw [hunits] at i1 i2
      exact ⟨i1, i2⟩

/-- **the quantities the constructor builds meet the hypotheses of the theorems above**: the
category is the registered one and the stored row is the row of the stored unit, a row of the
table -/
theorem mkQuant_ok {g : Reg} {cn u : Sym} {q : Quant} (h : mkQuant g cn u = .ok q) :
    ∃ ci u' r, q = .simple ci u' r ∧ g.cat? cn = some ci
      ∧ g.db.getInfo ci.qtype u' true = .ok r ∧ r ∈ g.units := by
  unfold mkQuant at h
  cases hc : g.cat? cn with
  | none => rw [hc] at h; cases h
  | some ci =>
    rw [hc] at h
    simp only at h
    cases hs : settleUnit g cn u with
    | none => rw [hs] at h; cases h
    | some u' =>
      rw [hs] at h
      simp only at h
      cases hi : g.db.getInfo ci.qtype u' true with
      | error e => rw [hi] at h; cases h
      | ok r =>
        rw [hi] at h
        cases h
        exact ⟨ci, u', r, rfl, rfl, hi, Db.getInfo_mem hi⟩

/-- **the construction form does not matter**: an object built without naming a category
(`Scalar(v, unit)`, `Array(values, unit)`, …) gets exactly the quantity the named construction gives
for the default category of the unit, so every verdict is the same in both forms -/
theorem construction_form_irrelevant {g : Reg} {u : Sym} {q : Quant} (h : mkQuantNoCat g u = .ok q) :
    ∃ c u', mkQuant g c u' = .ok q ∧ (u' = u ∨ u' = fixLegacy g.legacy u)
      ∧ (defaultCategory g u = .ok (some c) ∨ defaultCategory g (fixLegacy g.legacy u) = .ok (some c)) := by
  unfold mkQuantNoCat at h
  cases hd : defaultCategory g u with
  | error e => rw [hd] at h; cases h
  | ok oc =>
    rw [hd] at h
    cases oc with
    | some c => exact ⟨c, u, h, Or.inl rfl, Or.inl rfl⟩
    | none =>
      simp only at h
      split at h
      · cases hd2 : defaultCategory g (fixLegacy g.legacy u) with
        | error e => rw [hd2] at h; cases h
        | ok oc2 =>
          rw [hd2] at h
          cases oc2 with
          | some c => exact ⟨c, _, h, Or.inr rfl, Or.inr rfl⟩
          | none => cases h
      · cases h

/-- **a re-registration is in force at once**: after an accepted `AddCategory` (with `override` or
not) every quantity created for that category name — named or through the default category of a unit —
carries the `CategoryInfo` just registered, whatever was registered under the name before -/
theorem addCategory_in_force {g g' : Reg} {a : AddArgs} {info : CatInfo}
    (h : addCategory g a = .ok (g', info)) :
    g'.cat? a.category = some info
    ∧ ∀ u q, mkQuant g' a.category u = .ok q → ∃ u' r, q = .simple info u' r := by
  obtain ⟨_, _, _, hcats, _, hname⟩ := addCategory_default_ok h
  have hc : g'.cat? a.category = some info := by
    unfold Reg.cat?
    rw [hcats]
    simp [List.find?, hname]
  refine ⟨hc, ?_⟩
  intro u q hq
  obtain ⟨ci, u', r, rfl, hci, _, _⟩ := mkQuant_ok hq
  rw [hc] at hci
  cases hci
  exact ⟨u', r, rfl⟩

/-! ### objects that come out of an operation -/

/-- **validation does not depend on how the object was produced**: whatever production path — direct
construction, `ObtainQuantity` in its mapping or list form, arithmetic with a number (either side),
sums/differences of objects written in other units or belonging to another category of the quantity type,
pickle round trips, `CreateCopy`, nested in any order and depth — ends in an object whose quantity is the
quantity of ONE category `c` in unit `u` (exponent 1), the direct construction `X(c.name, values, u)`
succeeds and is the SAME model object (same `CategoryInfo`, same conversion row, same values, no memoised
verdict) -/
theorem validity_independent_of_provenance {g : Reg} {p : Prov} {c : CatInfo} {u : Sym} {r : UnitRow}
    {s : Shape} (h : build g p = .ok (.simple c u r, s)) :
    build g (.direct c.name u s) = .ok (.simple c u r, s) := by
  have hc := build_canon h c u r rfl
  unfold build
  rw [hc]

/-- hence two objects of the same category name, unit and values answer every sequence of
`CheckValidity` / `IsValid` calls alike, whatever their two production paths were -/
theorem provenance_calls_agree {g : Reg} {p p' : Prov} {c c' : CatInfo} {u : Sym} {r r' : UnitRow}
    {s : Shape} (h : build g p = .ok (.simple c u r, s)) (h' : build g p' = .ok (.simple c' u r', s))
    (hn : c.name = c'.name) (cs : List Call) :
    calls g (.simple c u r) s.obj cs = calls g (.simple c' u r') s.obj cs := by
  have h1 := build_canon h c u r rfl
  have h2 := build_canon h' c' u r' rfl
  rw [hn, h2] at h1
  cases h1
  rfl

/-- a produced object meets the hypotheses of the theorems above: its category is the registered one and
its row is the row of its unit, a row of the table -/
theorem produced_object_wellformed {g : Reg} {p : Prov} {c : CatInfo} {u : Sym} {r : UnitRow} {s : Shape}
    (h : build g p = .ok (.simple c u r, s)) :
    g.cat? c.name = some c ∧ g.db.getInfo c.qtype u true = .ok r ∧ r ∈ g.units := by
  obtain ⟨ci, u', r', hq, hc, hi, hm⟩ := mkQuant_ok (build_canon h c u r rfl)
  cases hq
  exact ⟨hc, hi, hm⟩

/-- **no produced object escapes the limits**: a Scalar that came out of any production path into a
limited category is accepted exactly when its amount, converted to the default unit, satisfies the limits;
a flat Array exactly when all its non-NaN amounts do -/
theorem produced_checked_by_amount {g : Reg} (hg : RowsOK g.units) {p : Prov} {c : CatInfo} {u : Sym}
    {r : UnitRow} (hl : c.limited = true) :
    (∀ v, build g p = .ok (.simple c u r, .scalar v) →
      ((checkValidity g (.simple c u r) (Shape.scalar v).obj).2 = .ok () ↔
        ∃ v', convToDefault g c u r v = .ok v' ∧ Sat c v'))
    ∧ (∀ kind vs, build g p = .ok (.simple c u r, .array (.flat kind vs)) →
      ((checkValidity g (.simple c u r) (Shape.array (.flat kind vs)).obj).2 = .ok () ↔
        ∀ v ∈ vs, v.isNan = false → ∃ v', convToDefault g c u r v = .ok v' ∧ Sat c v')) := by
  constructor
  · intro v _
    exact checkValue_spec g u r v hl
  · intro kind vs h
    obtain ⟨_, _, hm⟩ := produced_object_wellformed h
    have key : (checkValidity g (.simple c u r) (Shape.array (.flat kind vs)).obj).2 = .ok () ↔
        doValidate g (.simple c u r) (.flat kind vs) = .ok () := by
      simp only [Shape.obj, checkValidity, validateValues, Cache.fresh]
      cases hd : doValidate g (.simple c u r) (.flat kind vs) <;> simp
    rw [key, array_valid_iff_all hg hm kind vs]
    constructor
    · intro hv v hvm hn; exact (checkValue_spec g u r v hl).mp (hv v hvm hn)
    · intro hv v hvm hn; exact (checkValue_spec g u r v hl).mpr (hv v hvm hn)

/-! ### `AddCategory` with `None` flags, `GetDefaultValue`, `CheckValueForCategory`, `ScalarMinMaxValidator` -/

/-- **the exclusivity flags and the caption of a registered category**: a value that was given is stored
as given; an explicit `None` is inherited from the `from_category` source when there is one, and is falsy
(an inclusive limit) otherwise -/
theorem addCategoryRaw_flags {g g' : Reg} {r : AddArgsRaw} {info : CatInfo}
    (h : addCategoryRaw g r = .ok (g', info)) :
    (∀ b, r.minExcl = some b → info.minExcl = b) ∧ (∀ b, r.maxExcl = some b → info.maxExcl = b)
    ∧ (∀ c, r.caption = some c → info.caption = c)
    ∧ (∀ src, rawSource g r = some src →
        (r.minExcl = none → info.minExcl = src.minExcl) ∧ (r.maxExcl = none → info.maxExcl = src.maxExcl)
        ∧ (r.caption = none → info.caption = src.caption))
    ∧ (rawSource g r = none →
        (r.minExcl = none → info.minExcl = false) ∧ (r.maxExcl = none → info.maxExcl = false)) := by
  obtain ⟨h1, h2, h3⟩ := addCategory_flags h
  simp only [resolveRaw] at h1 h2 h3
  refine ⟨?_, ?_, ?_, ?_, ?_⟩
  · intro b hb; rw [h1, hb]
  · intro b hb; rw [h2, hb]
  · intro c hc; rw [h3, hc]
  · intro src hs
    refine ⟨?_, ?_, ?_⟩
    · intro hn; rw [h1, hn, hs]
    · intro hn; rw [h2, hn, hs]
    · intro hn; rw [h3, hn, hs]
  · intro hs
    refine ⟨?_, ?_⟩
    · intro hn; rw [h1, hn, hs]
    · intro hn; rw [h2, hn, hs]

/-- every theorem about `addCategory` speaks about the call with `None` flags as well: it IS the call
with the flags in force -/
theorem addCategoryRaw_default_scalar_valid {g g' : Reg} {r : AddArgsRaw} {info : CatInfo}
    (h : addCategoryRaw g r = .ok (g', info)) :
    g'.cat? r.base.category = some info ∧ getDefaultValue g' r.base.category = .ok info.defaultValue
      ∧ Sat info info.defaultValue := by
  have hf := (addCategory_in_force h).1
  obtain ⟨_, _, hsat, _⟩ := addCategory_default_ok h
  have hc : (resolveRaw g r).category = r.base.category := rfl
  rw [hc] at hf
  refine ⟨hf, ?_, hsat⟩
  unfold getDefaultValue
  rw [hf]

/-- **`CheckValueForCategory(category, value, unit)` is the validity check of `Scalar(category, value,
unit)`**; without a unit the default unit of the category is meant -/
theorem checkValueForCategory_as_scalar (g : Reg) (c : Sym) (v : Val) :
    (∀ u q, mkQuant g c u = .ok q →
      checkValueForCategory g c v (some u) = (checkValidity g q (.scalar v)).2)
    ∧ (∀ ci, g.cat? c = some ci →
      checkValueForCategory g c v none = checkValueForCategory g c v (some ci.defaultUnit)) := by
  constructor
  · intro u q h
    simp [checkValueForCategory, obtainFor, h, checkValidity]
  · intro ci h
    simp [checkValueForCategory, obtainFor, h]

/-- **`ScalarMinMaxValidator` complains exactly when `CheckValue` rejects, and its complaint is
`CheckValue`'s**: for the quantity of any constructed Scalar the predicate is `None` iff the value is
accepted, it carries operator `op`, limit `m` and amount `w` iff `CheckValue` raises exactly that — and
then `w` is the value converted to the default unit, `m` is a limit of the category that `w` violates with
that operator ("a rejection reports the violated limit and operator") -/
theorem validator_rejects_iff_checkValue {g : Reg} {cn u0 : Sym} {c : CatInfo} {u : Sym} {r : UnitRow}
    (h : mkQuant g cn u0 = .ok (.simple c u r)) (v : Val) :
    (validatorPredicate g (.simple c u r) v = .ok none ↔ checkValue g (.simple c u r) v = .ok ())
    ∧ (∀ op m w, validatorPredicate g (.simple c u r) v = .ok (some (.validation op m w)) ↔
        checkValue g (.simple c u r) v = .error (.validation op m w))
    ∧ (∀ op m w, validatorPredicate g (.simple c u r) v = .ok (some (.validation op m w)) →
        convToDefault g c u r v = .ok w ∧ Violated c op m w ∧ ¬ Sat c w) := by
  have hc := mkQuant_canon h c u r rfl
  have two : ∀ op m w, validatorPredicate g (.simple c u r) v = .ok (some (.validation op m w)) ↔
        checkValue g (.simple c u r) v = .error (.validation op m w) := by
    intro op m w
    simp only [validatorPredicate, hc]
    split
    · rename_i hv; simp [hv]
    · rename_i hv; simp [hv]
    · rename_i e' hv; by_cases he : e' = .value <;> simp [hv, he]
  refine ⟨?_, two, ?_⟩
  · simp only [validatorPredicate, hc]
    split
    · rename_i hv; simp [hv]
    · rename_i hv; simp [hv]
    · rename_i e' hv; by_cases he : e' = .value <;> simp [hv, he]
  · intro op m w hvp
    exact checkValue_error_spec g u r v ((two op m w).mp hvp)

/-! ### the shipped unit tables satisfy the hypothesis (regenerated and re-proved on every run) -/

theorem rowsOK_of_all {units : List UnitRow} (h1 : units.all UnitRow.wf = true)
    (h2 : units.all UnitRow.valShape = true) : RowsOK units := by
  intro r hr
  exact ⟨(UnitRow.wf_iff r).mp (List.all_eq_true.mp h1 r hr), List.all_eq_true.mp h2 r hr⟩

theorem posc_rowsOK : RowsOK Gen.poscDb.units :=
  rowsOK_of_all Gen.poscUnits_all_wf Gen.poscUnits_all_valshape

theorem nocat_rowsOK : RowsOK Gen.nocatDb.units :=
  rowsOK_of_all Gen.nocatUnits_all_wf Gen.nocatUnits_all_valshape

/-! ### non-vacuity: a registry with one limited category over the POSC unit table -/

namespace Example

def len : Sym := Sym.ofString "length"
def m : Sym := Sym.ofString "m"
def cm : Sym := Sym.ofString "cm"
def km : Sym := Sym.ofString "km"

def reg0 : Reg := ⟨Gen.nocatDb.units, Gen.nocatDb.legacy, []⟩

/-- `AddCategory("depth", "length", default_unit="m", min_value=0.0, max_value=2000.0,
is_max_exclusive=True, default_value=10.0)` -/
def args : AddArgs :=
  { category := Sym.ofString "depth", qtype := some len, defaultUnit := some m, minV := some 0,
    maxV := some 2000, maxExcl := true, defaultValue := some (.fin 10) }

def cat : CatInfo :=
  { name := Sym.ofString "depth", qtype := len, validUnits := none, defaultUnit := m,
    defaultValue := .fin 10, minV := some 0, maxV := some 2000, minExcl := false, maxExcl := true,
    caption := 0 }

/-- `AddCategory("thickness", "length", default_unit="m", min_value=0.0)` -/
def catMin : CatInfo :=
  { name := Sym.ofString "thickness", qtype := len, validUnits := none, defaultUnit := m,
    defaultValue := .fin 0, minV := some 0, maxV := none, minExcl := false, maxExcl := false,
    caption := 0 }

def argsMin : AddArgs :=
  { category := Sym.ofString "thickness", qtype := some len, defaultUnit := some m, minV := some 0 }

def reg1 : Reg := { reg0 with cats := [cat, catMin] }

/-- what a check answers: `none` = accepted -/
def answer (r : Except VErr Unit) : Option VErr :=
  match r with
  | .ok _ => none
  | .error e => some e

def check (u : Sym) (v : Val) : Option (Option VErr) :=
  match mkQuant reg1 (Sym.ofString "depth") u with
  | .ok q => some (answer (checkValue reg1 q v))
  | .error _ => none

def checkMinOnly (u : Sym) (v : Val) : Option (Option VErr) :=
  match mkQuant reg1 (Sym.ofString "thickness") u with
  | .ok q => some (answer (checkValue reg1 q v))
  | .error _ => none

def checkArr (u : Sym) (vs : List Val) : Option (Option VErr) :=
  match mkQuant reg1 (Sym.ofString "depth") u with
  | .ok q => some (answer (doValidate reg1 q (.flat .list vs)))
  | .error _ => none

-- the exclusive maximum, reached exactly, in a non-default unit: 2 km = 2000 m is rejected with `<`
-- the inclusive minimum, reached exactly
-- arrays: NaN skipped, minimum reported first, order irrelevant
-- a default that violates the limits is refused, an exclusive limit needs an explicit default
end Example

-- infinities are judged alike in the default unit and in any other unit (min_value = 0 in metres)
end Barril.Valid
