/- Non-vacuity examples of C14 (moved out of Props/C14.lean by tools/split_examples.py: they evaluate
concrete instances, many over the regenerated tables, and must not be able to stop the theorem module from
building).  Not property theorems: the check builds this module separately and only records the outcome. -/
import Barril.Props.C14
import Barril.Proofs.RegLemmas
import Barril.Proofs.RegCacheLemmas
import Barril.Proofs.RegTableLemmas
import Barril.Proofs.RegIndexLemmas
import Barril.Gen.ThmReg14ctPosc
import Barril.Gen.ThmIdxPosc
import Barril.Gen.ThmCorePosc
import Barril.Gen.ThmReg14uSimple
import Barril.Gen.ThmReg14cSimple
import Barril.Proofs.CtorLemmas
import Barril.Gen.ThmDefcatPosc

namespace Barril.Reg
open Barril

variable (lg : List (Sym × Sym))

example : (outputs [] Registry.empty sampleHistory).map (fun o => match o with | .ok _ => true | .error _ => false)
    = [true, true, false, true, true] := by decide +kernel
example : Disciplined [] Registry.empty sampleHistory := by
  unfold sampleHistory
  simp only [Disciplined]
  decide +kernel
example : getBaseUnit (run [] Registry.empty sampleHistory) 1 = .ok 2 := by decide +kernel
example : spec [] (run [] Registry.empty sampleHistory) (.createC 5) = .ok (.qvalue 5 3 0) := by decide +kernel
example : spec [] (run [] Registry.empty sampleHistory) (.create 6 3) = .ok (.quantity 6 3) := by decide +kernel
example : (step [] (run [] Registry.empty sampleHistory)
    (.addCategory ⟨.str 5, some 9, none, true, none, none, none, none, false, false, 0, none⟩)).2 = .error .units := by
  decide +kernel

/-- two databases used alternately: database 1 refuses (5, 3) and builds (5, 4); database 0 the other way round -/
example : (outputsN (cstep []) (fun _ => CState.fresh Registry.empty) twoDatabases).drop 6
    = [(1, .error .units), (0, .ok (.ans (.quantity 5 3))), (0, .error .units), (1, .ok (.ans (.quantity 5 4)))] := by
  decide +kernel
example : partOf 0 twoDatabases ≠ partOf 1 twoDatabases := by decide +kernel
example : (runN (cstep []) (fun _ => CState.fresh Registry.empty) twoDatabases 1).memo = [((5, 4), true), ((5, 3), false)] := by
  decide +kernel

/-- explicit `None` for the exclusivity flags and the caption with `from_category`: copied from the source
(category 5: min 0 exclusive, caption 7); without `from_category` they stay falsy -/
example : (step [] (run [] Registry.empty
      [.addUnitBase (.str 1) 10 (.str 2),
       .addCategory ⟨.str 5, some 1, none, false, none, some 1, some 0, none, true, false, 7, none⟩])
    (.addCategoryN ⟨.str 6, none, none, false, none, none, none, none, false, false, 0, some 5⟩ true true true)).2
    = .ok (.cat ⟨6, 1, none, 2, 1, some 0, none, true, false, 7⟩) := by decide +kernel
example : (step [] (run [] Registry.empty [.addUnitBase (.str 1) 10 (.str 2)])
    (.addCategoryN ⟨.str 6, some 1, none, false, none, none, some 0, none, false, false, 0, none⟩ true true true)).2
    = .ok (.cat ⟨6, 1, none, 2, 0, some 0, none, false, false, titleCaption 6⟩) := by decide +kernel
example : findUnitCase (run [] Registry.empty sampleHistory) 5 3 = .ok 3 := by decide +kernel

/-- contradictory limits with a ZERO on either side are rejected with `ValueError` (min 0 / max -5, min 5 / max 0),
also when they would replace a good category; consistent limits with a zero-valued bound are accepted and the
default is derived from the zero-valued minimum -/
example : (step [] (run [] Registry.empty [.addUnitBase (.str 1) 10 (.str 2)])
    (.addCategory ⟨.str 6, some 1, none, false, none, none, some 0, some (-5), false, false, 0, none⟩)).2 = .error .value := by
  decide +kernel
example : (step [] (run [] Registry.empty [.addUnitBase (.str 1) 10 (.str 2)])
    (.addCategory ⟨.str 6, some 1, none, true, none, none, some 5, some 0, false, false, 0, none⟩)).2 = .error .value := by
  decide +kernel
example : (step [] (run [] Registry.empty [.addUnitBase (.str 1) 10 (.str 2)])
    (.addCategory ⟨.str 6, some 1, none, false, none, none, some 0, some 10, false, false, 7, none⟩)).2
    = .ok (.cat ⟨6, 1, none, 2, 0, some 0, some 10, false, false, 7⟩) := by decide +kernel
/-- a default just outside a zero-valued bound is an `AssertionError` -/
example : (step [] (run [] Registry.empty [.addUnitBase (.str 1) 10 (.str 2)])
    (.addCategory ⟨.str 6, some 1, none, false, none, some (-1/2), some 0, some 10, false, false, 7, none⟩)).2
    = .error .assertion := by decide +kernel
example : (step [] (run [] Registry.empty [.addUnitBase (.str 1) 10 (.str 2)])
    (.addCategory ⟨.str 6, some 1, none, false, none, some 0, some 0, none, true, false, 7, none⟩)).2
    = .error .assertion := by decide +kernel

end Barril.Reg
