/- Non-vacuity examples of C14 (moved out of Props/C14.lean by tools/split_examples.py: they evaluate
concrete instances, many over the regenerated tables, and must not be able to stop the theorem module from
building).  Not property theorems: the check builds this module separately and only records the outcome. -/
import Barril.Props.C14
import Barril.Proofs.RegLemmas
import Barril.Proofs.RegCacheLemmas
import Barril.Proofs.RegTableLemmas
import Barril.Proofs.RegIndexLemmas
import Barril.Gen.ThmReg14ctPosc
import Barril.Gen.ThmIdxPosc
import Barril.Gen.ThmCorePosc
import Barril.Gen.ThmReg14uSimple
import Barril.Gen.ThmReg14cSimple
import Barril.Proofs.CtorLemmas
import Barril.Gen.ThmDefcatPosc

namespace Barril.Reg
open Barril

variable (lg : List (Sym × Sym))

example : (outputs [] Registry.empty sampleHistory).map (fun o => match o with | .ok _ => true | .error _ => false)
    = [true, true, false, true, true] := by decide +kernel
example : Disciplined [] Registry.empty sampleHistory := by
  unfold sampleHistory
  simp only [Disciplined]
  decide +kernel
example : getBaseUnit (run [] Registry.empty sampleHistory) 1 = .ok 2 := by decide +kernel
example : spec [] (run [] Registry.empty sampleHistory) (.createC 5) = .ok (.qvalue 5 3 0) := by decide +kernel
example : spec [] (run [] Registry.empty sampleHistory) (.create 6 3) = .ok (.quantity 6 3) := by decide +kernel
example : (step [] (run [] Registry.empty sampleHistory)
    (.addCategory ⟨.str 5, some 9, none, true, none, none, none, none, false, false, 0, none⟩)).2 = .error .units := by
  decide +kernel

end Barril.Reg
