/- Non-vacuity examples of C09 (moved out of Props/C09.lean by tools/split_examples.py: they evaluate
concrete instances, many over the regenerated tables, and must not be able to stop the theorem module from
building).  Not property theorems: the check builds this module separately and only records the outcome. -/
import Barril.Props.C09
import Barril.Proofs.OpsLemmas

namespace Barril.Ops
open Barril

example : Normal exEnv exQ := exQ_normal

example : binop exEnv true .mul (.num true 3) (.array exQ .tuple [1, 5 / 2]) = .ok (.array exQ .tuple [3, 15 / 2]) := by
  decide +kernel

example : binop exEnv true .floordiv (.array exQ .list [7, -7]) (.num false 2) = .ok (.array exQ .list [3, -4]) := by
  decide +kernel

example : binop exEnv true .div (.num false 1) (.scalar exQ 4) = .ok (.scalar [⟨101, 12, -1⟩, ⟨103, 21, 2⟩] (1 / 4)) := by
  decide +kernel

example : binop exEnv true .sub (.ndarr [10, 20]) (.array exQ .list [1, 2]) = .ok (.array exQ .nd [9, 18]) := by
  decide +kernel

example : binop exEnv true .div (.array exQ .nd [1, 2]) (.num false 0) = .error .other := by decide +kernel

/-! the legacy operator called directly; an Array whose `values` is a bare number -/

example : arrayRDiv exEnv (.array exQ .tuple [2, 4]) (.num false 1)
    = .ok (.array [⟨101, 12, -1⟩, ⟨103, 21, 2⟩] .tuple [1 / 2, 1 / 4]) := by decide +kernel

example : arrayRDiv exEnv (.array exQ .list [2, 4]) (.scalar exQ 1) = .error .other := by decide +kernel

example : binop exEnv true .mul (.array0 exQ 3) (.num false 2) = .ok (.array exQ .list [6]) := by decide +kernel

example : binop exEnv true .floordiv (.num true 7) (.array0 exQ 2)
    = .ok (.array [⟨101, 12, -1⟩, ⟨103, 21, 2⟩] .list [3]) := by decide +kernel

example : binop exEnv true .sum (.ndarr [1, 2]) (.array0 exQ 3) = .ok (.array exQ .nd [4, 5]) := by decide +kernel

example : binop exEnv true .sum (.array0 exQ 3) (.array exQ .list [1]) = .error .type := by decide +kernel

end Barril.Ops
