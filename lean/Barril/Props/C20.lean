/-
C20 — derived unit, category and type strings render every factor unambiguously.

Property theorems only, about the model `Barril/Model/Str.lean` (grammar parser) and
`Barril/Model/StrRender.lean` (`_MakeStr`, `_CreateUnitsWithJoinedExponentsString`,
`GetComposingUnitsJoiningExponents`, `GetUnitName`, the two branches of `Quantity.__init__`, repr/str
of value objects).  Helper lemmas and the specification vocabulary (`layout`, `nums`, `dens`,
`unitTerm`, `strTerm`, `expSum`, `keys`) live in `Barril/Proofs/StrLemmas.lean`.

Strings are byte lists: 109 = 'm', 115 = 's', 107 103 = "kg", 46 = '.', 47 = '/', 49 = '1', 32 = ' ',
42 = '*', 40/41 = '(' ')'.
-/
import Barril.Proofs.StrLemmas
import Barril.Proofs.StrCallerLemmas
import Barril.Gen.ThmNameownPosc
import Barril.Gen.Dbs

namespace Barril.Str

/-! ### the unit string -/

/-- **the unit string follows the table's grammar**: numerator factors joined by '.', ONE '/', the
denominator factors joined by '.', `1/` for a pure reciprocal, exponents as decimal suffixes; for any
number of factors and any exponents (factors with exponent 0 are not written) -/
theorem unit_string_layout (j : List (Str × Int)) (h : ∀ p ∈ j, atomic p.1 = true) :
    renderUnit j = layout [cDot] [cSlash] [cOne, cSlash] ((nums j).map unitTerm) ((dens j).map unitTerm) :=
  renderUnit_layout j (fun p hp _ => ((atomic_iff p.1).mp (h p hp)).ne)

/-- **parse ∘ render**: parsing the rendered unit string recovers exactly the factors and exponents
that were rendered (numerator factors in order, then denominator factors in order), for ANY number
of numerator and denominator factors and ANY integer exponents over atomic symbols -/
theorem parse_render (j : List (Str × Int)) (h : ∀ p ∈ j, atomic p.1 = true) :
    parseUnit (renderUnit j) = some (nums j ++ dens j) := by
  have hA : ∀ p ∈ j, Atomic p.1 := fun p hp => (atomic_iff p.1).mp (h p hp)
  rw [renderUnit_layout j (fun p hp _ => (hA p hp).ne)]
  exact parse_layout (nums j) (dens j) (side_nums j hA) (side_dens j hA)

/-- an atomic symbol is its own unit string and parses as one factor with exponent 1 -/
theorem parse_atomic (u : Str) (h : atomic u = true) : parseUnit u = some [(u, 1)] := by
  have := parse_render [(u, 1)] (by simpa using h)
  simpa [renderUnit, renderUnitNum, renderUnitDen, nums, dens] using this

/-- hence the rendering is unambiguous: two factor lists with the same unit string write the same
factors with the same exponents -/
theorem render_unambiguous (j j' : List (Str × Int)) (h : ∀ p ∈ j, atomic p.1 = true)
    (h' : ∀ p ∈ j', atomic p.1 = true) (heq : renderUnit j = renderUnit j') :
    nums j ++ dens j = nums j' ++ dens j' := by
  have h1 := parse_render j h
  rw [heq, parse_render j' h'] at h1
  exact (Option.some.inj h1).symm

/-- what is written is every factor with a non-zero exponent, each exactly once -/
theorem written_factors_perm (j : List (Str × Int)) :
    (nums j ++ dens j).Perm (j.filter (fun p => decide (p.2 ≠ 0))) := by
  induction j with
  | nil => exact List.Perm.refl _
  | cons p rest ih =>
    obtain ⟨u, e⟩ := p
    by_cases hpos : 0 < e
    · have hneg : ¬ e < 0 := by omega
      have hnz : e ≠ 0 := by omega
      simp only [nums, dens, List.filter_cons, hpos, hneg, hnz, decide_true, decide_false, ↓reduceIte,
        ne_eq, not_false_eq_true, List.cons_append, Bool.false_eq_true] at ih ⊢
      exact List.Perm.cons _ ih
    · by_cases hneg : e < 0
      · have hnz : e ≠ 0 := by omega
        simp only [nums, dens, List.filter_cons, hpos, hneg, hnz, decide_true, decide_false, ↓reduceIte,
          ne_eq, not_false_eq_true, Bool.false_eq_true] at ih ⊢
        exact List.perm_middle.trans (List.Perm.cons _ ih)
      · have hz : e = 0 := by omega
        subst hz
        simpa [nums, dens, List.filter_cons] using ih

/-! ### joined composing units (`GetComposingUnitsJoiningExponents`) -/

/-- every unit symbol occurs once in the joined list -/
theorem joined_keys_nodup (ps : List (Str × Int)) : (keys (joinExps ps)).Nodup :=
  nodup_joinExpsFrom [] ps (by simp [keys_nil])

/-- exactly the composing unit symbols occur -/
theorem joined_keys (ps : List (Str × Int)) (k : Str) : k ∈ keys (joinExps ps) ↔ k ∈ keys ps := by
  unfold joinExps; rw [mem_keys_joinExpsFrom]; simp [keys_nil]

/-- in the order of their first occurrence -/
theorem joined_keys_order (ps : List (Str × Int)) : keys (joinExps ps) = dedupFrom [] (keys ps) := by
  unfold joinExps; rw [keys_joinExpsFrom]; simp [keys_nil]

/-- with the sum of the exponents of all entries that carry this symbol -/
theorem joined_exponent (ps : List (Str × Int)) (k : Str) (e : Int) (h : (k, e) ∈ joinExps ps) :
    e = expSum k ps := by
  have h1 := expSum_of_mem_nodup (joinExps ps) (joined_keys_nodup ps) k e h
  have h2 := expSum_joinExpsFrom k [] ps
  simp only [expSum, Int.zero_add] at h2
  unfold joinExps at h1
  omega

/-! ### the strings of a quantity built from an entry list (`ObtainQuantity(OrderedDict)`) -/

/-- which entry lists give a simple quantity -/
theorem obtain_simple_iff (reg : Reg) (entries : List Entry) (q : Quantity)
    (hq : obtainFromDict reg entries = .ok q) :
    q.derived = false ↔ ∃ c u, entries = [⟨c, u, 1⟩] := by
  have hder : ∀ q', newDerived reg entries = .ok q' → q'.derived = true := by
    intro q' h
    unfold newDerived at h
    split at h
    · cases h
    · cases h; rfl
  unfold obtainFromDict at hq
  split at hq
  · rename_i e
    split at hq
    · rename_i he
      unfold newSimple at hq
      split at hq
      · cases hq
      · cases hq
        obtain ⟨c, u, x⟩ := e
        simp only at he; subst he
        simp
    · rename_i he
      rw [hder q hq]
      simp only [Bool.true_eq_false, false_iff]
      rintro ⟨c, u, h⟩
      simp only [List.cons.injEq, and_true] at h
      subst h
      exact he rfl
  · rename_i hne
    rw [hder q hq]
    simp only [Bool.true_eq_false, false_iff]
    rintro ⟨c, u, h⟩
    exact hne _ h

/-- **a simple quantity's strings are exactly its registered category, quantity type and unit**, and
its unit name is the registered name of the unit -/
theorem simple_strings_verbatim (reg : Reg) (c u : Str) (q : Quantity)
    (hq : obtainFromDict reg [⟨c, u, 1⟩] = .ok q) :
    q.derived = false ∧ q.category = c ∧ q.unit = u ∧ reg.qtypeOf c = .ok q.qtype
      ∧ q.entries = [⟨c, u, 1⟩]
      ∧ q.unitName reg = reg.unitName q.qtype u := by
  simp only [obtainFromDict, ↓reduceIte, newSimple] at hq
  split at hq
  · cases hq
  · rename_i qt hqt
    cases hq
    refine ⟨rfl, rfl, rfl, hqt, rfl, ?_⟩
    simp only [Quantity.unitName, namePairs, hqt]
    cases hn : reg.unitName qt u with
    | error e => rfl
    | ok n =>
      simp [joinExps, joinExpsFrom, addExp, makeStr, makeStrNum, makeStrDen]

/-- **the unit string of a derived quantity parses back to its joined composing units**: numerators
in order, then denominators in order, each with its total exponent -/
theorem unit_string_roundtrip (reg : Reg) (entries : List Entry) (q : Quantity)
    (hq : obtainFromDict reg entries = .ok q) (hd : q.derived = true)
    (hat : ∀ e ∈ entries, atomic e.unit = true) :
    q.entries = entries ∧
    parseUnit q.unit = some (nums (joinedUnits entries) ++ dens (joinedUnits entries)) := by
  have hnd : newDerived reg entries = .ok q := by
    unfold obtainFromDict at hq
    split at hq
    · split at hq
      · unfold newSimple at hq
        split at hq
        · cases hq
        · cases hq; cases hd
      · exact hq
    · exact hq
  unfold newDerived at hnd
  split at hnd
  · cases hnd
  · cases hnd
    refine ⟨rfl, ?_⟩
    apply parse_render
    intro p hp
    have hk : p.1 ∈ keys (unitPairs entries) :=
      (joined_keys (unitPairs entries) p.1).mp (List.mem_map.mpr ⟨p, hp, rfl⟩)
    obtain ⟨pe, hpe, hpe1⟩ := List.mem_map.mp hk
    obtain ⟨en, hen, hen1⟩ := List.mem_map.mp hpe
    subst hen1
    rw [← hpe1]
    exact hat en hen

/-! ### `_MakeStr`: category, quantity-type and unit-name strings -/

/-- **`_MakeStr` lists every factor with its exponent**: the factors with a positive exponent in
order, joined by `" * "`; ONE `" / "`; the factors with a negative exponent in order, joined by
`" * "`; `"1 / "` when there is no numerator; a factor is its text or `(text) ** |e|` -/
theorem renderStr_lists_every_factor (items : List (Str × Int)) (h : ∀ p ∈ items, 0 < p.2 → p.1 ≠ []) :
    makeStr items = layout sepMul sepDiv oneDiv ((nums items).map strTerm) ((dens items).map strTerm) :=
  makeStr_layout items h

/-- the category string of a derived quantity lists every entry's category with its exponent; the
quantity-type string lists every quantity type with the sum of its exponents -/
theorem derived_category_and_type_strings (reg : Reg) (entries : List Entry) (q : Quantity)
    (hq : newDerived reg entries = .ok q) (hc : ∀ e ∈ entries, e.cat ≠ [])
    (ht : ∀ p ∈ reg.cats, p.2 ≠ []) :
    q.category = layout sepMul sepDiv oneDiv ((nums (catPairs entries)).map strTerm)
                   ((dens (catPairs entries)).map strTerm)
    ∧ ∃ tps, typePairs reg entries = .ok tps
        ∧ q.qtype = layout sepMul sepDiv oneDiv ((nums (joinExps tps)).map strTerm)
                      ((dens (joinExps tps)).map strTerm) := by
  unfold newDerived at hq
  split at hq
  · cases hq
  · rename_i tps htps
    cases hq
    refine ⟨?_, tps, htps, ?_⟩
    · apply makeStr_layout
      intro p hp _
      obtain ⟨e, he, rfl⟩ := List.mem_map.mp hp
      exact hc e he
    · apply makeStr_layout
      intro p hp _
      -- every key of the joined list is a quantity type found in the registry
      have hk : p.1 ∈ keys tps := (joined_keys tps p.1).mp (List.mem_map.mpr ⟨p, hp, rfl⟩)
      have hall : ∀ (es : List Entry) (ts : List (Str × Int)), typePairs reg es = .ok ts →
          ∀ k ∈ keys ts, k ≠ [] := by
        intro es
        induction es with
        | nil => intro ts h k hk; cases h; simp [keys_nil] at hk
        | cons e rest ih =>
          intro ts h k hk
          unfold typePairs at h
          split at h
          · cases h
          · rename_i qt hqt
            split at h
            · cases h
            · rename_i ps hps
              cases h
              rw [keys_cons] at hk
              rcases List.mem_cons.mp hk with hk | hk
              · subst hk
                unfold Reg.qtypeOf at hqt
                split at hqt
                · rename_i pr hpr
                  cases hqt
                  exact ht pr (List.mem_of_find?_eq_some hpr)
                · cases hqt
              · exact ih ps hps k hk
      exact hall entries tps htps p.1 hk

/-- `GetUnitName` lists every registered unit name with the sum of its exponents -/
theorem unit_name_lists_every_factor (reg : Reg) (q : Quantity) (s : Str)
    (hq : q.unitName reg = .ok s) (hn : ∀ p ∈ reg.names, p.2 ≠ []) :
    ∃ nps, namePairs reg q.entries = .ok nps
      ∧ s = layout sepMul sepDiv oneDiv ((nums (joinExps nps)).map strTerm) ((dens (joinExps nps)).map strTerm) := by
  unfold Quantity.unitName at hq
  split at hq
  · cases hq
  · rename_i nps hnps
    cases hq
    refine ⟨nps, hnps, ?_⟩
    apply makeStr_layout
    intro p hp _
    have hk : p.1 ∈ keys nps := (joined_keys nps p.1).mp (List.mem_map.mpr ⟨p, hp, rfl⟩)
    have hall : ∀ (es : List Entry) (ts : List (Str × Int)), namePairs reg es = .ok ts →
        ∀ k ∈ keys ts, k ≠ [] := by
      intro es
      induction es with
      | nil => intro ts h k hk; cases h; simp [keys_nil] at hk
      | cons e rest ih =>
        intro ts h k hk
        unfold namePairs at h
        split at h
        · cases h
        · rename_i qt hqt
          split at h
          · cases h
          · rename_i n hnm
            split at h
            · cases h
            · rename_i ps hps
              cases h
              rw [keys_cons] at hk
              rcases List.mem_cons.mp hk with hk | hk
              · subst hk
                unfold Reg.unitName at hnm
                split at hnm
                · rename_i pr hpr
                  cases hnm
                  exact hn pr (List.mem_of_find?_eq_some hpr)
                · cases hnm
              · exact ih ps hps k hk
    exact hall q.entries nps hnps p.1 hk

/-! ### the list / tuple form of `ObtainQuantity` (a quantity re-obtained from its own composing units) -/

/-- a request of `(unit, exponent)` pairs with a parallel list of pairwise different categories builds the
quantity of the ordered dict of those entries -/
theorem obtain_list_eq_dict (reg : Reg) (pairs : List (Str × Int)) (cats : List Str)
    (hlen : cats.length = pairs.length) (hnd : cats.Nodup) :
    obtainFromList reg pairs cats = obtainFromDict reg (zipEntries cats pairs) := by
  have hod : odictOf (zipEntries cats pairs) = zipEntries cats pairs :=
    odictOf_nodup _ (by rw [zipEntries_cats cats pairs hlen]; exact hnd)
  unfold obtainFromList
  split
  · rename_i u e
    split
    · rename_i he
      subst he
      match cats, hlen with
      | [c], _ => simp [zipEntries, obtainFromDict]
    · rw [hod]
  · rw [hod]

/-- **only a single factor with exponent 1 is a simple quantity**: `[(m, 2)]` and `[(s, -3)]` stay derived -/
theorem obtain_list_simple_iff (reg : Reg) (pairs : List (Str × Int)) (cats : List Str) (q : Quantity)
    (hlen : cats.length = pairs.length) (hnd : cats.Nodup)
    (hq : obtainFromList reg pairs cats = .ok q) :
    q.derived = false ↔ ∃ u, pairs = [(u, 1)] := by
  rw [obtain_list_eq_dict reg pairs cats hlen hnd] at hq
  rw [obtain_simple_iff reg _ q hq]
  constructor
  · rintro ⟨c, u, h⟩
    have := zipEntries_unitPairs cats pairs hlen
    rw [h] at this
    exact ⟨u, by simpa [unitPairs] using this.symm⟩
  · rintro ⟨u, h⟩
    subst h
    match cats, hlen with
    | [c], _ => exact ⟨c, u, by simp [zipEntries]⟩

/-- **the unit string of a quantity obtained from a list of factors parses back to exactly the joined requested
factors** (numerators in order, then denominators, each with its total exponent) -/
theorem obtain_list_unit_string_roundtrip (reg : Reg) (pairs : List (Str × Int)) (cats : List Str) (q : Quantity)
    (hlen : cats.length = pairs.length) (hnd : cats.Nodup)
    (hq : obtainFromList reg pairs cats = .ok q) (hd : q.derived = true)
    (hat : ∀ p ∈ pairs, atomic p.1 = true) :
    parseUnit q.unit = some (nums (joinExps pairs) ++ dens (joinExps pairs)) := by
  rw [obtain_list_eq_dict reg pairs cats hlen hnd] at hq
  have hu := zipEntries_unitPairs cats pairs hlen
  have := (unit_string_roundtrip reg (zipEntries cats pairs) q hq hd (by
    intro e he
    have : (e.unit, e.exp) ∈ unitPairs (zipEntries cats pairs) := List.mem_map.mpr ⟨e, he, rfl⟩
    rw [hu] at this
    exact hat _ this)).2
  simpa [joinedUnits, hu] using this

/-! ### unit names: one name factor per unit factor -/

/-- when the registered names of the composing units are pairwise different (as far as the units are), the
factor list behind the unit-name string IS the joined composing units with every symbol replaced by its
registered name: the same factors, in the same order, with the same exponents -/
theorem unit_name_factors_match_units (reg : Reg) (entries : List Entry) (nps : List (Str × Int)) (f : Str → Str)
    (h : namePairs reg entries = .ok nps)
    (hf : ∀ e ∈ entries, ∀ qt, reg.qtypeOf e.cat = .ok qt → reg.unitName qt e.unit = .ok (f e.unit))
    (hinj : ∀ e ∈ entries, ∀ e' ∈ entries, f e.unit = f e'.unit → e.unit = e'.unit) :
    joinExps nps = (joinedUnits entries).map (fun p => (f p.1, p.2)) := by
  have hn : ∀ (es : List Entry) (ts : List (Str × Int)), (∀ e ∈ es, e ∈ entries) → namePairs reg es = .ok ts →
      ts = (unitPairs es).map (fun p => (f p.1, p.2)) := by
    intro es
    induction es with
    | nil => intro ts _ h; cases h; rfl
    | cons e rest ih =>
      intro ts hsub h
      unfold namePairs at h
      split at h
      · cases h
      · rename_i qt hqt
        split at h
        · cases h
        · rename_i n hnm
          split at h
          · cases h
          · rename_i ps hps
            cases h
            have he := hf e (hsub e (by simp)) qt hqt
            rw [he] at hnm
            cases hnm
            rw [ih ps (fun x hx => hsub x (by simp [hx])) hps]
            simp [unitPairs]
  rw [hn entries nps (fun e he => he) h]
  unfold joinedUnits
  apply joinExps_rename
  intro a ha b hb hab
  obtain ⟨pa, hpa, rfl⟩ := List.mem_map.mp ha
  obtain ⟨ea, hea, rfl⟩ := List.mem_map.mp hpa
  obtain ⟨pb, hpb, rfl⟩ := List.mem_map.mp hb
  obtain ⟨eb, heb, rfl⟩ := List.mem_map.mp hpb
  exact hinj ea hea eb heb hab

/-- **the shipped table never gives one name to units of different quantity types** (so the units of a derived
quantity that arithmetic produces - one unit per quantity type - have pairwise different names); regenerated
from /repo and checked by `decide +kernel` on every run -/
theorem posc_unit_names_distinguish_types :
    ∀ r ∈ Barril.Gen.poscDb.units, ∀ r' ∈ Barril.Gen.poscDb.units, r.name = r'.name → r.qtype = r'.qtype := by
  intro r hr r' hr' hname
  have h := List.all_eq_true.mp Barril.Gen.poscUnits_all_nameown r (by simpa [Barril.Gen.poscDb] using hr)
  have h2 := List.all_eq_true.mp h r' hr'
  simp only [Bool.or_eq_true, bne_iff_ne, ne_eq, beq_iff_eq] at h2
  rcases h2 with h2 | h2
  · exact absurd hname.symm h2
  · exact h2.symm

/-! ### value objects -/

/-- **repr/str of a value object show that unit** (and repr of a Scalar the category, of an Array the
quantity type): `Scalar(v, 'unit', 'category')`, `v [unit]`, `Array(qtype, [..], unit)` -/
theorem value_repr_shows_unit (cls val : Str) (q : Quantity) :
    scalarRepr cls val q = cls ++ [40] ++ val ++ [44, 32, 39] ++ q.unit ++ [39, 44, 32, 39] ++ q.category ++ [39, 41]
    ∧ valueStr val q = val ++ [32, 91] ++ q.unit ++ [93]
    ∧ arrayRepr cls val q = cls ++ [40] ++ q.qtype ++ [44, 32] ++ val ++ [44, 32] ++ q.unit ++ [41] := by
  simp [scalarRepr, scalarReprTail, valueStr, formattedSuffix, arrayRepr, arrayReprHead, arrayReprTail]

/-! ### products, quotients, powers: the strings of a result are decided by the factors of the OPERANDS

`opQ` is `a * b` / `a / b` on Quantities, Scalars and Arrays (the quantity of the result): its entry list is
computed from the entry lists of the two operands (`opEntries`: `_MatchQuantities`, the merge loop, the removal of
cancelled factors) and handed to `ObtainQuantity(dict)`; no earlier result takes part (the check runs histories on
one shared database with a warm cache against this). -/

/-- the strings of a product / quotient are those of the entry list built from the operands, and its unit string
parses back to exactly the joined factors of that list -/
theorem product_strings_from_operands (reg : Reg) (op : NewOp) (q1 q2 r : Quantity)
    (h : opQ reg op q1 q2 = .ok r) :
    ∃ es, opEntries reg op q1.entries q2.entries = .ok es ∧ obtainFromDict reg es = .ok r ∧ r.entries = es
      ∧ (r.derived = true → (∀ e ∈ es, atomic e.unit = true) →
          parseUnit r.unit = some (nums (joinedUnits es) ++ dens (joinedUnits es))) := by
  unfold opQ at h
  split at h
  · cases h
  · rename_i es hes
    refine ⟨es, hes, h, obtainFromDict_entries reg es r h, ?_⟩
    intro hd hat
    exact (unit_string_roundtrip reg es r h hd hat).2

/-- **the order of the factors**: the merge loop keeps every category of the left operand in its place and
appends the categories only the right operand has, in the right operand's order (first occurrence) -/
theorem product_factor_order (f : Int → Int → Int) (a b m : List Entry) (h : mergeAll f a b = .ok m) :
    cats m = cats a ++ dedupFrom (cats a) (cats b) :=
  cats_mergeAll f a b m h

/-- **`Quantity ** n` is the n-fold product** `q * (q * (... * q))` (`n - 1` multiplications; none for `n ≤ 1`:
the code returns `q` itself for the exponents 1, 0 and below) -/
theorem quantity_pow_eq_iterated_mul (reg : Reg) (q : Quantity) (n : Int) :
    qpow reg q n = nfoldProduct reg q (n - 1).toNat := by
  unfold qpow
  rw [qpowLoop_eq, nfoldProduct_eq]

/-- matching the units is idempotent: once the operands' units are matched (one unit per quantity type, the first
one seen), a further pass with the same dict changes nothing — the units of a result are stable under further
multiplication by the same operands -/
theorem matching_idempotent (reg : Reg) (es : List Entry) (used used' : List (Str × Str)) (es' : List Entry)
    (h : matchOne reg used es = .ok (used', es')) : matchOne reg used' es' = .ok (used', es') :=
  matchOne_idem reg es used used' es' h

/-- **the unit string of a power**: for a quantity whose units are matched (a matching pass changes nothing),
with distinct categories and no cancelling factor, `q ** n` (n ≥ 2) holds `q`'s entries with every exponent
multiplied by `n`, and its unit string renders `q`'s joined factors with the exponents multiplied by `n` -/
theorem pow_unit_string (reg : Reg) (q : Quantity) (n : Int) (used : List (Str × Str)) (hn : 2 ≤ n)
    (hm : matchOne reg [] q.entries = .ok (used, q.entries))
    (hnd : (q.entries.map (·.cat)).Nodup)
    (hkeep : ∀ e ∈ q.entries, e.exp ≠ 0 ∧ unitTotal e.unit q.entries ≠ 0) :
    ∃ r, qpow reg q n = .ok r ∧ r.entries = scaleEntries n q.entries ∧ r.derived = true
      ∧ r.unit = renderUnit ((joinedUnits q.entries).map (fun p => (p.1, p.2 * n))) := by
  obtain ⟨k, hk⟩ : ∃ k : Nat, (n - 1).toNat = k + 1 := ⟨(n - 1).toNat - 1, by omega⟩
  have hm' := matchOne_idem reg q.entries [] used q.entries hm
  have hloop := qpowLoop_scaled reg q used used hm hm' hnd hkeep k q 1 (by omega) (scaleEntries_one q.entries).symm
  have hn' : (1 : Int) + (k : Int) + 1 = n := by omega
  rw [hn'] at hloop
  obtain ⟨r, hr⟩ := newDerived_scaled_ok reg q used n hm
  obtain ⟨h1, h2, h3⟩ := newDerived_entries reg _ r hr
  refine ⟨r, ?_, h1, h2, ?_⟩
  · unfold qpow
    rw [hk, hloop, hr]
  · rw [h3, joinedUnits_scale]

/-- and parsing that unit string recovers the base's joined factors with the exponents multiplied by `n` -/
theorem pow_unit_string_parses (reg : Reg) (q : Quantity) (n : Int) (used : List (Str × Str)) (hn : 2 ≤ n)
    (hm : matchOne reg [] q.entries = .ok (used, q.entries))
    (hnd : (q.entries.map (·.cat)).Nodup)
    (hkeep : ∀ e ∈ q.entries, e.exp ≠ 0 ∧ unitTotal e.unit q.entries ≠ 0)
    (hat : ∀ e ∈ q.entries, atomic e.unit = true) :
    ∃ r, qpow reg q n = .ok r ∧
      parseUnit r.unit = some (nums ((joinedUnits q.entries).map (fun p => (p.1, p.2 * n)))
                                ++ dens ((joinedUnits q.entries).map (fun p => (p.1, p.2 * n)))) := by
  obtain ⟨r, h1, _h2, _h3, h4⟩ := pow_unit_string reg q n used hn hm hnd hkeep
  refine ⟨r, h1, ?_⟩
  rw [h4]
  apply parse_render
  intro p hp
  obtain ⟨p0, hp0, rfl⟩ := List.mem_map.mp hp
  have hk : p0.1 ∈ keys (joinedUnits q.entries) := List.mem_map.mpr ⟨p0, hp0, rfl⟩
  unfold joinedUnits at hk
  rw [joined_keys] at hk
  obtain ⟨pu, hpu, hpe⟩ := List.mem_map.mp hk
  obtain ⟨e, he, rfl⟩ := List.mem_map.mp hpu
  simp only at hpe ⊢
  rw [← hpe]
  exact hat e he

/-- under the hypotheses of `pow_unit_string`, `Scalar ** n` (result * self) and `Quantity ** n` (self * result)
build the same quantity, for every integer exponent -/
theorem scalar_pow_eq_quantity_pow (reg : Reg) (q : Quantity) (n : Int) (used : List (Str × Str))
    (hm : matchOne reg [] q.entries = .ok (used, q.entries))
    (hnd : (q.entries.map (·.cat)).Nodup)
    (hkeep : ∀ e ∈ q.entries, e.exp ≠ 0 ∧ unitTotal e.unit q.entries ≠ 0) :
    spow reg q n = qpow reg q n := by
  unfold spow qpow
  cases hk : (n - 1).toNat with
  | zero => rfl
  | succ k =>
    rw [spowLoop_scaled reg q used hm hnd hkeep k q 1 (by omega) (scaleEntries_one q.entries).symm,
      qpowLoop_scaled reg q used used hm (matchOne_idem reg q.entries [] used q.entries hm) hnd hkeep k q 1 (by omega)
        (scaleEntries_one q.entries).symm]

/-! ### the caller keeps and edits what it passed (`Barril/Model/StrCaller.lean`)

A quantity is a value: no object of the caller is reachable from it (`Quantity.__init__` copies every
`[unit, exponent]` cell, the cache key is a tuple of tuples).  Trivial in the model BY CONSTRUCTION — the point of
stating it is the correspondence: the check edits the mapping / the lists it passed on the real code, re-reads all
strings of every quantity made before and compares them exactly with these values. -/

/-- **the strings of a quantity are the same whenever they are asked**: whatever the caller does afterwards — edits
the mapping or the lists it passed (exponent cell, unit cell, added / removed key), re-uses them for further requests,
makes other quantities — the `k`-th quantity made stays the value it was -/
theorem strings_stable_under_caller_mutation (reg : Reg) (s : Caller) (later : List CStep) (k : Nat)
    (r : Except ErrKind Quantity) (h : s.made[k]? = some r) :
    (s.run reg later).made[k]? = some r := by
  obtain ⟨t, ht⟩ := Caller.run_made_prefix reg later s
  rw [ht, List.getElem?_append_left (by
    have := (List.getElem?_eq_some_iff.mp h).1
    exact this)]
  exact h

/-- **and it is the quantity of the ORIGINAL request**: the quantity a request made is `ObtainQuantity` of the request
as it was when it was made, after any earlier and any later history (edits of that very mapping included) -/
theorem request_answered_from_original (reg : Reg) (s : Caller) (before later : List CStep) (r : Req) :
    (s.run reg (before ++ [CStep.request r] ++ later)).made[(s.run reg before).made.length]?
      = some (r.obtain reg) := by
  rw [Caller.run_append, Caller.run_append]
  apply strings_stable_under_caller_mutation
  simp [Caller.run, Caller.step]

/-- a request made again with the mapping the caller edited is answered from the mapping as it is THEN (the earlier
quantity is not handed out again, the cache key holds the cells' contents) -/
theorem edited_request_answered_as_edited (reg : Reg) (s : Caller) (i : Nat) (ed : Edit) (r : Req)
    (h : s.held[i]? = some r) :
    ((s.step reg (.edit i ed)).step reg (.again i)).made = s.made ++ [(ed.apply r).obtain reg] := by
  have hm : (modifyAt s.held i ed.apply)[i]? = some (ed.apply r) := by
    clear reg
    generalize s.held = l at h
    induction l generalizing i with
    | nil => simp at h
    | cons x xs ih =>
      cases i with
      | zero => simp at h; simp [modifyAt, h]
      | succ j => simp at h; simpa [modifyAt] using ih j h
  simp [Caller.step, hm]

/-- **arithmetic on a quantity uses the factors it was made with**: after any further history (edits of the mapping it
was requested with included), a product / quotient / power computed from the quantity of a request is the operation
applied to `ObtainQuantity` of the ORIGINAL request -/
theorem arithmetic_after_caller_mutation (reg : Reg) (s : Caller) (before later : List CStep) (r : Req) (q : Quantity)
    (f : Quantity → Except ErrKind Quantity) (h : r.obtain reg = .ok q) :
    (s.run reg (before ++ [CStep.request r] ++ later ++ [CStep.arith (s.run reg before).made.length f])).made.getLast?
      = some (f q) := by
  have h1 := request_answered_from_original reg s before later r
  rw [h] at h1
  rw [Caller.run_append, Caller.run_single, Caller.step_arith_ok reg _ _ f q h1]
  simp

/-! ### non-vacuity: concrete instances, among them the shape the test-suite never had (two and
three factors after the slash) -/

-- (m/s)/kg  →  "m/s.kg"  →  [(m,1),(s,-1),(kg,-1)]
-- kg2.m/s12.K3 : exponents with two digits
-- 1/s2.m
-- "length / time * mass"  and  "1 / (a) ** 2"
-- m * m (two categories, one unit) joins to m2; m / m cancels and is not written
-- a derived and a simple quantity from entry lists
-- the grammar refuses what is not in it
end Barril.Str
