/-
C07 — quantities are immutable values with sound equality, hash and copying.

Model: `Barril/Model/Intern.lean` (heap of `[unit, exp]` cells, objects by allocation index,
`quantities_cache` as an ordered association list; `ObtainQuantity` in all its forms, `CreateEmpty`,
`CreateDerived`, `MakeCopy`, `__reduce__/_ObtainReduced`, `__eq__/__hash__`, the two arithmetic
routines that edit copies).  Helper lemmas and the invariant `Inv`/`SInv`: `Barril/Proofs/InternLemmas.lean`.

"Reachable" below means: the state after ANY history of public operations (`Op`: creation in every
form, well- or ill-formed; CreateEmpty; CreateDerived; MakeCopy(map); copies/conversions/validations
(`ident`); pickling; SetUnknownCaption; CreateCopy(unit=); Sum/Subtract; Multiply/Divide with quantities
or plain numbers), started from the empty session, of any length (`run`, by induction).
-/
import Barril.Proofs.InternLemmas
import Barril.Gen.Dbs

namespace Barril.Intern
open Barril

/-- the session after a history, from a fresh database (empty cache, no `_EMPTY_QUANTITY`) -/
def reach (db : Db) (g : Guard) (ops : List Op) : Session := run db g {} ops

/-! ### the invariant over all histories -/

/-- after every history: no dangling reference, every simple quantity is one valid `[unit, 1]` list,
every derived quantity is interned under the key of its own composing map and caption, every
`(category, unit, caption)` entry points to what that request resolves to, and every step result
and `_EMPTY_QUANTITY` name live objects -/
theorem reachable_invariant (db : Db) (g : Guard) (ops : List Op) : SInv db (reach db g ops) :=
  (run_sinv ops (sinv_init db)).1

/-! ### immutability: nothing that exists is ever altered -/

/-- **cache entries are never removed, re-pointed or reordered**, whatever happens later (any further
history `later`, failed operations included): the cache after is the cache before plus new entries -/
theorem cache_entries_stable (db : Db) (g : Guard) (before later : List Op) :
    (∃ t, (run db g (reach db g before) later).st.cache = (reach db g before).st.cache ++ t) ∧
    ∀ k i, lookupKey (reach db g before).st.cache k = some i →
      lookupKey (run db g (reach db g before) later).st.cache k = some i := by
  have h := (run_sinv (g := g) later (reachable_invariant db g before)).2
  refine ⟨h.cache, fun k i hk => ?_⟩
  obtain ⟨t, ht⟩ := h.cache
  rw [ht]; exact lookupKey_append_of_some hk

/-- **every quantity alive at some point keeps its identity, its composing map (categories, units,
exponents, list/tuple), caption, derived flag — hence every getter — and its hash through every later
history** -/
theorem quantities_immutable (db : Db) (g : Guard) (before later : List Op) (i : Nat) (q : Quantity)
    (hq : (reach db g before).st.objs[i]? = some q) :
    (run db g (reach db g before) later).st.objs[i]? = some q ∧
    view (run db g (reach db g before) later).st.heap q = view (reach db g before).st.heap q ∧
    hashKey (run db g (reach db g before) later).st.heap q = hashKey (reach db g before).st.heap q := by
  have hs := reachable_invariant db g before
  have h := (run_sinv (g := g) later hs).2
  have wf := (hs.inv.objs i q hq).wf
  exact ⟨h.objs_get hq, view_ext h wf, hashKey_ext h wf⟩

/-- **the equality class of a quantity never changes**: `a == b` between two live quantities has
the same answer after any later history -/
theorem equality_stable (db : Db) (g : Guard) (before later : List Op) (i j : Nat) (a b : Quantity)
    (ha : (reach db g before).st.objs[i]? = some a) (hb : (reach db g before).st.objs[j]? = some b) :
    qeq (run db g (reach db g before) later).st.heap a b = qeq (reach db g before).st.heap a b := by
  have hs := reachable_invariant db g before
  exact qeq_ext (run_sinv (g := g) later hs).2 (hs.inv.objs i a ha).wf (hs.inv.objs j b hb).wf

/-- `Quantity._EMPTY_QUANTITY`, once set, is never re-pointed -/
theorem empty_quantity_stable (db : Db) (g : Guard) (before later : List Op) (i : Nat)
    (h : (reach db g before).st.empty = some i) : (run db g (reach db g before) later).st.empty = some i :=
  (run_sinv (g := g) later (reachable_invariant db g before)).2.empty i h

/-- **heap frame of the arithmetic routines**: `_DoOperationWithSameQuantity` (Sum, Subtract) writes
`unit_exp[0] = …` only into its deep copies: every cell that existed keeps its content, every object
and cache entry stays (the result may add interned quantities) -/
theorem arith_frame_same {db : Db} {s s' : State} (hs : Inv db s) (i1 i2 : Nat) {r : Except ErrKind Nat}
    (h : opSame db s i1 i2 = (s', r)) :
    (∀ a, a < s.heap.length → s'.heap[a]? = s.heap[a]?) ∧ (∃ t, s'.objs = s.objs ++ t) ∧
    (∃ t, s'.cache = s.cache ++ t) :=
  let g := opSame_good hs i1 i2 h
  ⟨g.ext.heap.2, g.ext.objs, g.ext.cache⟩

/-- the same for `_DoOperationResultingInNewQuantity` (Multiply, Divide), which also writes
`unit_exp1[1] = …` and adds entries to its copy of map 1 -/
theorem arith_frame_new {db : Db} {s s' : State} (hs : Inv db s) (div : Bool) (i1 i2 : Nat)
    {r : Except ErrKind Nat} (h : opNew db s div i1 i2 = (s', r)) :
    (∀ a, a < s.heap.length → s'.heap[a]? = s.heap[a]?) ∧ (∃ t, s'.objs = s.objs ++ t) ∧
    (∃ t, s'.cache = s.cache ++ t) :=
  let g := opNew_good hs div i1 i2 h
  ⟨g.ext.heap.2, g.ext.objs, g.ext.cache⟩

/-- **mutators raise ReadOnlyError** and change nothing -/
theorem mutators_readonly (db : Db) (g : Guard) (ss : Session) (q : Nat) (cap : Sym) :
    (stepState db g ss (.setcap q cap)).1 = ss.st ∧
    ((stepState db g ss (.setcap q cap)).2 = .err .readonly ∨ (stepState db g ss (.setcap q cap)).2 = .skip) := by
  simp only [stepState, setUnknownCaption]
  cases resolve ss.results q <;> simp

/-- **running the constructor again on an existing quantity changes nothing**: `q.__init__(…)` /
`Quantity.__init__(q, …)` with any arguments (a category and a unit, a category alone, a composing
`OrderedDict`, the empty one; any caption) on any quantity a session holds (simple, derived, empty,
unknown with a caption) leaves the whole state — every object, heap cell, cache entry and
`_EMPTY_QUANTITY` — as it was, and the caller still holds the same object -/
theorem reinit_changes_nothing (db : Db) (g : Guard) (ss : Session) (q : Nat) (a : InitArg) (cap : Option Sym) :
    (stepState db g ss (.reinit q a cap)).1 = ss.st ∧
    (∀ i, resolve ss.results q = some i → (stepState db g ss (.reinit q a cap)).2 = .ok i) ∧
    (resolve ss.results q = none → (stepState db g ss (.reinit q a cap)).2 = .skip) := by
  simp only [stepState, reInit]
  cases resolve ss.results q <;> simp

/-- **a repeated `__init__` in the middle of any history is not seen by anything that follows**: the
history with the call left out ends in the same state (cache, objects, heap, `_EMPTY_QUANTITY`), for
every history before it and every history after it that does not refer to step numbers (the results
list only gets one more entry) — stated on the state right after the call -/
theorem reinit_invisible (db : Db) (g : Guard) (before : List Op) (q : Nat) (a : InitArg) (cap : Option Sym) :
    (run db g (reach db g before) [.reinit q a cap]).st = (reach db g before).st :=
  (reinit_changes_nothing db g (reach db g before) q a cap).1

/-- every quantity alive before a repeated `__init__` (the one it is called on included) keeps its
identity, its view (composing map, caption, derived flag: every getter) and its hash through the call
and through whatever history follows it -/
theorem reinit_keeps_every_quantity (db : Db) (g : Guard) (before later : List Op) (r : Nat) (a : InitArg)
    (cap : Option Sym) (i : Nat) (q : Quantity) (hq : (reach db g before).st.objs[i]? = some q) :
    (run db g (reach db g before) (.reinit r a cap :: later)).st.objs[i]? = some q ∧
    view (run db g (reach db g before) (.reinit r a cap :: later)).st.heap q = view (reach db g before).st.heap q ∧
    hashKey (run db g (reach db g before) (.reinit r a cap :: later)).st.heap q =
      hashKey (reach db g before).st.heap q :=
  quantities_immutable db g before (.reinit r a cap :: later) i q hq

/-- **copy, deepcopy, Copy(), MakeCopy(), CreateCopyInstance(), abs, arithmetic with a number return
the identical object** and change nothing -/
theorem copy_is_self (db : Db) (g : Guard) (ss : Session) (q i : Nat) (h : resolve ss.results q = some i) :
    stepState db g ss (.ident q) = (ss.st, .ok i) := by
  simp [stepState, h, copyOf]

/-! ### interning: equality, hash, repeated requests -/

/-- **the same request repeated returns the identical object and leaves the state unchanged** (every
argument form, every state — no reachability needed) -/
theorem obtain_idempotent {db : Db} {s s1 : State} {u : UnitArg} {c : CatArg} {cap : Option Sym} {i : Nat}
    (h : obtain db s u c cap = (s1, .ok i)) : obtain db s1 u c cap = (s1, .ok i) := obtain_idem h

/-- repeated `CreateEmpty()` returns the identical object -/
theorem createEmpty_idempotent {db : Db} {s s1 : State} {i : Nat} (h : createEmpty db s = (s1, .ok i)) :
    createEmpty db s1 = (s1, .ok i) := by
  unfold createEmpty at h
  split at h
  · rename_i j hj
    simp only [Prod.mk.injEq, Except.ok.injEq] at h; obtain ⟨rfl, rfl⟩ := h
    simp [createEmpty, hj]
  · split at h
    · simp only [Prod.mk.injEq, Except.ok.injEq] at h; obtain ⟨rfl, rfl⟩ := h
      simp [createEmpty]
    · cases h

/-- **equal quantities have equal hashes** (what `__hash__` hashes is a function of what `__eq__` compares) -/
theorem eq_hash {h : Heap} {a b : Quantity} (he : qeq h a b = true) : hashKey h a = hashKey h b := qeq_hash he

/-- `==` is symmetric and transitive -/
theorem eq_symm (h : Heap) (a b : Quantity) : qeq h a b = qeq h b a := qeq_symm h a b

theorem eq_trans {h : Heap} {a b c : Quantity} (h1 : qeq h a b = true) (h2 : qeq h b c = true) :
    qeq h a c = true := qeq_trans h1 h2

/-- **every cell of every live quantity is a `[unit, exp]` list of the quantity's own** (never the
caller's tuple or list): whatever form a request had, after any history -/
theorem live_cells_are_lists (db : Db) (g : Guard) (ops : List Op) (i : Nat) (q : Quantity)
    (hq : (reach db g ops).st.objs[i]? = some q) :
    ∃ cs, readMap (reach db g ops).st.heap q.map = some cs ∧ ∀ kc ∈ cs, kc.2.frozen = false :=
  live_cells (reachable_invariant db g ops).inv hq

/-- **every quantity obtainable through `ObtainQuantity` (in any form, directly or through
`CreateDerived`, `MakeCopy`, pickling or arithmetic) has only units of its categories' quantity types**:
for every live quantity after any history, simple or derived, each `(category, [unit, exp])` entry passes
`CheckQuantityTypeUnit(GetCategoryQuantityType(category), unit)` -/
theorem live_units_of_their_categories (db : Db) (g : Guard) (ops : List Op) (i : Nat) (q : Quantity)
    (hq : (reach db g ops).st.objs[i]? = some q) :
    ∃ cs, readMap (reach db g ops).st.heap q.map = some cs ∧
      ∀ kc ∈ cs, db.categoryUnitValid kc.1 kc.2.unit = true :=
  live_units_valid (reachable_invariant db g ops).inv hq

/-- **on every reachable state two quantities are equal exactly when they have the same composing map
(categories, units, exponents, in order) and caption**: `__eq__` would tell a list cell from a tuple
cell, but live quantities only hold lists; requests that resolve differently give unequal quantities -/
theorem obtain_eq_iff (db : Db) (g : Guard) (ops : List Op) (i j : Nat) (a b : Quantity)
    (ha : (reach db g ops).st.objs[i]? = some a) (hb : (reach db g ops).st.objs[j]? = some b) :
    qeq (reach db g ops).st.heap a b = contentEq (reach db g ops).st.heap a b :=
  live_qeq_iff (reachable_invariant db g ops).inv ha hb

/-- **products, quotients and sums that hit a cached quantity never raise the tuple `TypeError`**
(`'tuple' object does not support item assignment`): on the working copies of any two live
quantities neither the unit matching (`unit_exp[0] = …`) nor the merge of the exponents
(`unit_exp1[1] = …`) can fail that way, whatever form the requests that created them had -/
theorem arith_no_tuple_error (db : Db) (g : Guard) (ops : List Op) (i1 i2 : Nat) (q1 q2 : Quantity)
    (hq1 : (reach db g ops).st.objs[i1]? = some q1) (hq2 : (reach db g ops).st.objs[i2]? = some q2)
    {h1 h2 : Heap} {m1 m2 : Map}
    (hc1 : copyMap (reach db g ops).st.heap q1.map = some (h1, m1)) (hc2 : copyMap h1 q2.map = some (h2, m2)) :
    matchQuantities db h2 m1 m2 ≠ .error .type ∧
    ∀ h3, matchQuantities db h2 m1 m2 = .ok h3 → ∀ div, mergePass div h3 m1 m2 ≠ .error .type :=
  copies_no_type (reachable_invariant db g ops).inv hq1 hq2 hc1 hc2

/-- **requests that resolve to the same category, unit and caption return equal quantities; requests
that resolve differently return unequal ones**: for two `(category, unit, caption)` entries of the
cache after any history (e.g. a legacy spelling and the current one, caption `None` and `""`), the
quantities are equal exactly when the units resolve alike (`CheckCategoryUnit` + legacy retry) and
the captions denote the same string -/
theorem same_resolution_equal (db : Db) (g : Guard) (ops : List Op) (cat u1 u2 : Sym) (cap1 cap2 : Option Sym)
    (i j : Nat)
    (h1 : lookupKey (reach db g ops).st.cache (.simple (some cat) (some u1) cap1) = some i)
    (h2 : lookupKey (reach db g ops).st.cache (.simple (some cat) (some u2) cap2) = some j) :
    ∃ a b, (reach db g ops).st.objs[i]? = some a ∧ (reach db g ops).st.objs[j]? = some b ∧
      (qeq (reach db g ops).st.heap a b = true ↔
        (resolveSimpleUnit db cat u1 = resolveSimpleUnit db cat u2 ∧ capStr cap1 = capStr cap2)) := by
  have hs := (reachable_invariant db g ops).inv
  obtain ⟨a, r1, v1, ha, _, ham, hah, har, hac⟩ := hs.simpleKey _ _ _ _ h1
  obtain ⟨b, r2, v2, hb, _, hbm, hbh, hbr, hbc⟩ := hs.simpleKey _ _ _ _ h2
  refine ⟨a, b, ha, hb, ?_⟩
  rw [har, hbr]
  simp only [qeq, ham, hbm, readMap, hah, hbh, hac, hbc, Bool.and_eq_true, beq_iff_eq, Except.ok.injEq,
    List.cons.injEq, Prod.mk.injEq, Cell.mk.injEq, and_true, true_and]

/-- **derived quantities are interned**: two live derived quantities with the same composing map and
caption are the identical object -/
theorem derived_identical (db : Db) (g : Guard) (ops : List Op) (i j : Nat) (a b : Quantity)
    (ha : (reach db g ops).st.objs[i]? = some a) (hb : (reach db g ops).st.objs[j]? = some b)
    (hd : a.derived = true) (h : contentEq (reach db g ops).st.heap a b = true) : i = j :=
  (contentEq_qeq (reachable_invariant db g ops).inv ha hb h).2 hd

/-- **a pickle round trip never fails and returns an equal quantity** (for a derived quantity the
identical object, with the state unchanged), for every quantity alive after any history: simple,
derived, empty, with or without caption -/
theorem pickle_roundtrip_eq (db : Db) (g : Guard) (ops : List Op) (i : Nat) (q : Quantity)
    (hq : (reach db g ops).st.objs[i]? = some q) :
    ∃ st s' j q', reduce (reach db g ops).st q = some st ∧
      obtainReduced db (reach db g ops).st st = (s', .ok j) ∧ s'.objs[j]? = some q' ∧
      qeq s'.heap q' q = true ∧ (q.derived = true → j = i ∧ s' = (reach db g ops).st) :=
  pickle_roundtrip (reachable_invariant db g ops).inv hq

/-! ### non-vacuity on the shipped table -/

section examples
open Barril.Gen

def exG : Guard := ⟨8, 8⟩
def sM : Sym := 109
def sCm : Sym := 28003
def sLength : Sym := 114849160783212
def sS : Sym := 115
def sTime : Sym := 1701669236

/-- m [length]; cm [length] with caption ""; (m, 2)(s, -1) as lists; m * cm; pickle of step 3;
m + cm; SetUnknownCaption; ObtainQuantity('m') -/
def exOps : List Op := [
  .obtain (.str sM) (.str sLength) none,
  .obtain (.str sCm) (.str sLength) (some 0),
  .obtain (.seq [⟨sM, 2, true⟩, ⟨sS, -1, false⟩]) (.seq [sLength, sTime] false) none,
  .new false (.ref 0) (.ref 1),
  .pickle 3,
  .same (.ref 0) (.ref 1),
  .setcap 0 7364963,
  .obtain (.str sM) .none none]

-- the history runs, creates 5 objects and 5 cache entries (the last request hits the resolved key)
-- m * cm is the derived quantity (length: m, 2), interned under its composing key
-- the same request repeated returns the identical object
-- a malformed request (list form without categories) raises and changes nothing
-- m + cm interned a second simple quantity (length, m, "") (object 4): another object than
-- (length, m, None) (object 0), equal to it, with the same hash
-- a new request creates the next object
-- a legacy spelling and the current one resolve alike: two objects, equal
def sVolume : Sym := 111520795881334
def sLegacy : Sym := 14483206056194097
def sMcf : Sym := 6710093
def exOps2 : List Op := [
  .obtain (.str sLegacy) (.str sVolume) none,
  .obtain (.str sMcf) (.str sVolume) (some 0)]
-- the tuple form no longer poisons the cache: (m, 1)(s, -1) as TUPLES, then (that) * cm succeeds
/-- (cm, -1)(h, 3) under (depth, time) — cm is a unit of depth, h of time; then the same with the
units swapped, which the dict form now rejects -/
def sDepth : Sym := 448630121828
def exGoodOp : Op := .obtain (.seq [⟨28003, -1, false⟩, ⟨104, 3, true⟩]) (.seq [sDepth, sTime] false) none
def exBadOp : Op := .obtain (.seq [⟨104, -1, false⟩, ⟨28003, 3, true⟩]) (.seq [sDepth, sTime] false) none
def exOps4 : List Op := [exGoodOp, exBadOp]
/-- m * m (derived); `__init__('time', 's')` on it; `__init__(OrderedDict(), None)` on it; m * m again -/
def exOps5 : List Op := [
  .obtain (.str sM) (.str sLength) none,
  .new false (.ref 0) (.ref 0),
  .reinit 1 (.simple sTime (some sS)) none,
  .reinit 1 (.derived []) (some 7364963),
  .new false (.ref 0) (.ref 0),
  .reinit 0 (.derived [(sTime, ⟨sS, -1, false⟩)]) none]
def exOps3 : List Op := [
  .obtain (.seq [⟨sM, 1, true⟩, ⟨sS, -1, true⟩]) (.seq [sLength, sTime] true) none,
  .obtain (.str sCm) (.str sLength) none,
  .new false (.ref 0) (.ref 1)]
end examples

end Barril.Intern
