/- Non-vacuity examples of C02 (moved out of Props/C02.lean by tools/split_examples.py: they evaluate
concrete instances, many over the regenerated tables, and must not be able to stop the theorem module from
building).  Not property theorems: the check builds this module separately and only records the outcome. -/
import Barril.Props.C02
import Barril.Proofs.RoutesLemmas
import Barril.Props.C01

namespace Barril.Routes
open Barril Barril.Gen

section examples
private abbrev S (s : String) : Sym := Sym.ofString s

/-- `ObtainQuantity('m', 'depth')` exists: category depth, quantity type length -/
example : (match newSimple poscDb (S "depth") (S "m") with
    | .ok q => q.category == S "depth" && q.qtype == S "length" && q.unit == S "m"
    | .error _ => false) = true := by decide +kernel

/-- a legacy spelling is accepted and rewritten (`1000ft3` → `Mcf`) -/
example : (match newSimple poscDb (S "volume") (S "1000ft3") with
    | .ok q => q.unit == S "Mcf"
    | .error _ => false) = true := by decide +kernel

/-- `Scalar(1000, 'm', 'depth').GetValue('ft')` -/
example : (match newSimple poscDb (S "depth") (S "m") with
    | .ok q => (Scalar.mk q 1000).getValue poscDb (some (S "ft")) == .ok (R 1250000 381)
    | .error _ => false) = true := by decide +kernel

/-- an affine pair through the Array route, tuple-of-tuples -/
example : (match newSimple poscDb (S "temperature") (S "degC") with
    | .ok q => (Arr.mk q (mkTuples true [[0, 100], [], [-40]])).getValues poscDb (some (S "degF"))
        == .ok (mkTuples true [[32, 212], [], [-40]])
    | .error _ => false) = true := by decide +kernel

/-- a derived quantity (`m2`): own unit unchanged, another unit is rejected as the code does -/
example : (match createDerived poscDb [⟨S "length", S "m", 2⟩] with
    | .ok q => q.isDerived && q.unit == S "m2" && q.category == S "(length) ** 2"
        && (Scalar.mk q 5).getValue poscDb (some (S "m2")) == .ok 5
        && (Scalar.mk q 5).getValue poscDb (some (S "cm2")) == .error .value
    | .error _ => false) = true := by decide +kernel

/-- `(m/s).GetValue('m/s')` (repaired defect #3): two entries, own unit -/
example : (match createDerived poscDb [⟨S "length", S "m", 1⟩, ⟨S "time", S "s", -1⟩] with
    | .ok q => q.unit == S "m/s" && q.qtype == S "length / time"
        && (Scalar.mk q 7).getValue poscDb (some (S "m/s")) == .ok 7
    | .error _ => false) = true := by decide +kernel

/-- the exponent path: 3 m² = 30000 cm² -/
example : convertAny poscDb (.str (S "length")) (.list [(S "m", 2)]) (.list [(S "cm", 2)]) (.num 3)
    = some (.ok (.num 30000)) := by decide +kernel

/-- … and it is outside the model for a unit with an offset -/
example : convertAny poscDb (.str (S "temperature")) (.list [(S "degC", 2)]) (.list [(S "K", 2)]) (.num 3)
    = none := by decide +kernel

/-- `ConvertScalarToCurrent` of a depth keeps `depth` (repaired defect #2) -/
example : (match newSimple poscDb (S "depth") (S "m") with
    | .ok q =>
      (match convertScalarToCurrent poscDb (some [(S "depth", S "ft")]) ⟨q, 1000⟩ with
       | .ok s => s.q.category == S "depth" && s.q.unit == S "ft" && s.value == R 1250000 381
       | .error _ => false)
    | .error _ => false) = true := by decide +kernel

/-- the default of `temperature` (0 in its default unit) asked for in another unit -/
example : (match Scalar.ofCategory poscDb (S "temperature") (some (S "degF")), poscDb.catByName (S "temperature") with
    | .ok s, some ci => (poscDb.convert (S "temperature") ci.defaultUnit (S "degF") ci.defaultValue == .ok s.value)
        && s.q.category == S "temperature" && s.q.unit == S "degF"
    | _, _ => false) = true := by decide +kernel

/-- `ChangingIndex` with a Scalar in another unit and category of the same quantity type -/
example : (match newSimple poscDb (S "length") (S "m"), newSimple poscDb (S "depth") (S "cm") with
    | .ok q, .ok qs =>
      (FixedArr.mk 3 ⟨q, Kind.list.mk [1, 2, 3]⟩).changingIndex poscDb (-1) (.scalar ⟨qs, 5⟩) true
        == .ok ⟨3, ⟨qs, .tuple [.num 100, .num 200, .num 5]⟩⟩
    | _, _ => false) = true := by decide +kernel

/-- `Scalar(3.048, 'm', 'length').CreateCopy(unit='ft', category='depth')`: 10 ft, category depth;
with the own category the same number as without a category -/
example : (match newSimple poscDb (S "length") (S "m") with
    | .ok q =>
      (match (Scalar.mk q (R 381 125)).createCopy poscDb none (some (S "ft")) (some (S "depth")),
             (Scalar.mk q (R 381 125)).createCopy poscDb none (some (S "ft")) (some (S "length")),
             (Scalar.mk q (R 381 125)).createCopy poscDb none (some (S "ft")) none with
       | .ok s, .ok s1, .ok s2 => s.q.category == S "depth" && s.q.qtype == S "length" && s.q.unit == S "ft"
           && s.value == 10 && s1.value == 10 && s1.q.category == S "length" && s1 == s2
       | _, _, _ => false)
    | .error _ => false) = true := by decide +kernel

/-- the Array form, list of tuples, other category -/
example : (match newSimple poscDb (S "temperature") (S "degC") with
    | .ok q =>
      (match (Arr.mk q (mkTuples false [[0, 100], [-40]])).createCopy poscDb none (some (S "degF"))
          (some (S "thermodynamic temperature")) with
       | .ok a => a.values == mkTuples false [[32, 212], [-40]] && a.q.category == S "thermodynamic temperature"
       | .error _ => false)
    | .error _ => false) = true := by decide +kernel

/-- a manager history: convert, `SetDefaultUnit` on the current system, the same request again, switch to
another system and back: 2.5 m is 250 cm, then 1/400 km, then 2500 mm, then 1/400 km again -/
example : (Mgr.run poscDb Mgr.new
      [.add (S "s1") [(S "length", S "cm")], .convert (S "length") (S "m") (.num (R 5 2)),
       .setDefaultUnit none (S "length") (S "km"), .convert (S "length") (S "m") (.num (R 5 2)),
       .add (S "s2") [(S "length", S "mm")], .setCurrent (some (S "s2")), .convert (S "length") (S "m") (.num (R 5 2)),
       .setCurrent (some (S "s1")), .convert (S "length") (S "m") (.list [.num (R 5 2)]),
       .removeCategory none (S "length"), .convert (S "length") (S "m") (.num (R 5 2))]).2
    = [.ok (.state [(S "length", S "cm")]), .ok (.conv (.num 250) (S "cm")),
       .ok (.state [(S "length", S "km")]), .ok (.conv (.num (R 1 400)) (S "km")),
       .ok (.state [(S "length", S "km")]), .ok (.state [(S "length", S "mm")]), .ok (.conv (.num 2500) (S "mm")),
       .ok (.state [(S "length", S "km")]), .ok (.conv (.list [.num (R 1 400)]) (S "km")),
       .ok (.state []), .ok (.conv (.num (R 5 2)) (S "m"))] := by decide +kernel

end examples

end Barril.Routes
