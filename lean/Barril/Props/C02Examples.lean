/- Non-vacuity examples of C02 (moved out of Props/C02.lean by tools/split_examples.py: they evaluate
concrete instances, many over the regenerated tables, and must not be able to stop the theorem module from
building).  Not property theorems: the check builds this module separately and only records the outcome. -/
import Barril.Props.C02
import Barril.Proofs.RoutesLemmas
import Barril.Props.C01

namespace Barril.Routes
open Barril Barril.Gen

section examples
private abbrev S (s : String) : Sym := Sym.ofString s

/-- `ObtainQuantity('m', 'depth')` exists: category depth, quantity type length -/
example : (match newSimple poscDb (S "depth") (S "m") with
    | .ok q => q.category == S "depth" && q.qtype == S "length" && q.unit == S "m"
    | .error _ => false) = true := by decide +kernel

/-- a legacy spelling is accepted and rewritten (`1000ft3` → `Mcf`) -/
example : (match newSimple poscDb (S "volume") (S "1000ft3") with
    | .ok q => q.unit == S "Mcf"
    | .error _ => false) = true := by decide +kernel

/-- `Scalar(1000, 'm', 'depth').GetValue('ft')` -/
example : (match newSimple poscDb (S "depth") (S "m") with
    | .ok q => (Scalar.mk q 1000).getValue poscDb (some (S "ft")) == .ok (R 1250000 381)
    | .error _ => false) = true := by decide +kernel

/-- an affine pair through the Array route, tuple-of-tuples -/
example : (match newSimple poscDb (S "temperature") (S "degC") with
    | .ok q => (Arr.mk q (mkTuples true [[0, 100], [], [-40]])).getValues poscDb (some (S "degF"))
        == .ok (mkTuples true [[32, 212], [], [-40]])
    | .error _ => false) = true := by decide +kernel

/-- a derived quantity (`m2`): own unit unchanged, another unit is rejected as the code does -/
example : (match createDerived poscDb [⟨S "length", S "m", 2⟩] with
    | .ok q => q.isDerived && q.unit == S "m2" && q.category == S "(length) ** 2"
        && (Scalar.mk q 5).getValue poscDb (some (S "m2")) == .ok 5
        && (Scalar.mk q 5).getValue poscDb (some (S "cm2")) == .error .value
    | .error _ => false) = true := by decide +kernel

/-- `(m/s).GetValue('m/s')` (repaired defect #3): two entries, own unit -/
example : (match createDerived poscDb [⟨S "length", S "m", 1⟩, ⟨S "time", S "s", -1⟩] with
    | .ok q => q.unit == S "m/s" && q.qtype == S "length / time"
        && (Scalar.mk q 7).getValue poscDb (some (S "m/s")) == .ok 7
    | .error _ => false) = true := by decide +kernel

/-- the exponent path: 3 m² = 30000 cm² -/
example : convertAny poscDb (.str (S "length")) (.list [(S "m", 2)]) (.list [(S "cm", 2)]) (.num 3)
    = some (.ok (.num 30000)) := by decide +kernel

/-- … and it is outside the model for a unit with an offset -/
example : convertAny poscDb (.str (S "temperature")) (.list [(S "degC", 2)]) (.list [(S "K", 2)]) (.num 3)
    = none := by decide +kernel

/-- `ConvertScalarToCurrent` of a depth keeps `depth` (repaired defect #2) -/
example : (match newSimple poscDb (S "depth") (S "m") with
    | .ok q =>
      (match convertScalarToCurrent poscDb (some [(S "depth", S "ft")]) ⟨q, 1000⟩ with
       | .ok s => s.q.category == S "depth" && s.q.unit == S "ft" && s.value == R 1250000 381
       | .error _ => false)
    | .error _ => false) = true := by decide +kernel

/-- the default of `temperature` (0 in its default unit) asked for in another unit -/
example : (match Scalar.ofCategory poscDb (S "temperature") (some (S "degF")), poscDb.catByName (S "temperature") with
    | .ok s, some ci => (poscDb.convert (S "temperature") ci.defaultUnit (S "degF") ci.defaultValue == .ok s.value)
        && s.q.category == S "temperature" && s.q.unit == S "degF"
    | _, _ => false) = true := by decide +kernel

/-- `ChangingIndex` with a Scalar in another unit and category of the same quantity type -/
example : (match newSimple poscDb (S "length") (S "m"), newSimple poscDb (S "depth") (S "cm") with
    | .ok q, .ok qs =>
      (FixedArr.mk 3 ⟨q, Kind.list.mk [1, 2, 3]⟩).changingIndex poscDb (-1) (.scalar ⟨qs, 5⟩) true
        == .ok ⟨3, ⟨qs, .tuple [.num 100, .num 200, .num 5]⟩⟩
    | _, _ => false) = true := by decide +kernel

end examples

end Barril.Routes
