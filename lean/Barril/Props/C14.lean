/-
C14 — the unit registry stays well-formed under any registration history.

Model: `Barril/Model/Reg.lean` (`AddUnit`, `AddUnitBase`, `AddCategory` with every argument, the
getters), `Barril/Model/RegCache.lean` (construction of value objects), `Barril/Model/RegTable.lean`
(the invariant as per-row predicates over the translated tables).  Helper lemmas and the definition
of `RegInv`: `Barril/Proofs/RegLemmas.lean`, `Barril/Proofs/RegCacheLemmas.lean`.

Property theorems only.  The full-strength identity-base clause ("the first-listed unit of EVERY
quantity type is an identity") is false on the real code — known finding C14-addunit-without-base —
so the invariant proved for all histories carries it in the weakened form `baseIdent`+`baseFirst`
(rows registered by `AddUnitBase` are identities and precede all other rows of their type), the
full clause is proved for all histories that open every quantity type with `AddUnitBase`
(`run_inv_disciplined`), and `run_inv_counterexample` refutes the unrestricted statement.
-/
import Barril.Proofs.RegLemmas
import Barril.Proofs.RegCacheLemmas
import Barril.Proofs.RegTableLemmas
import Barril.Proofs.RegIndexLemmas
import Barril.Gen.ThmReg14ctPosc
import Barril.Gen.ThmIdxPosc
import Barril.Gen.ThmCorePosc
import Barril.Gen.ThmReg14uSimple
import Barril.Gen.ThmReg14cSimple
import Barril.Proofs.CtorLemmas
import Barril.Gen.ThmDefcatPosc

namespace Barril.Reg
open Barril

variable (lg : List (Sym × Sym))

/-! ### the invariant is preserved by every step and every history -/

/-- every registration call, accepted or rejected, with any arguments, keeps the registry
well-formed -/
theorem step_preserves_RegInv {r : Registry} (h : RegInv r) (op : RegOp) : RegInv (step lg r op).1 :=
  step_inv lg h op

/-- … hence every history from a well-formed registry -/
theorem run_preserves_RegInv {r : Registry} (h : RegInv r) (ops : List RegOp) : RegInv (run lg r ops) := by
  induction ops generalizing r with
  | nil => exact h
  | cons op ops ih => exact ih (step_preserves_RegInv lg h op)

/- full statement (false, see `run_inv_counterexample`):
   theorem run_inv (ops : List RegOp) : FullInv (run lg Registry.empty ops) -/
/-- **after any sequence of registrations on a new database the registry is well-formed**: every
symbol is listed once and in one quantity type, the symbol index and the lists agree, every
category refers to an existing type with default and valid units drawn from it and a default value
inside its limits, and the units registered as base units are identities and head their lists.
Partial: the clause "the first-listed unit of every type is an identity" holds in this weakened
form only (known finding: AddUnit into a type without base unit). -/
theorem run_inv_partial (ops : List RegOp) : RegInv (run lg Registry.empty ops) :=
  run_preserves_RegInv lg regInv_empty ops

/-- the history of the known finding, `AddUnit('time', 'minutes', 'min', 'x/60', 'x*60')` on a new
database -/
def knownFindingHistory : List RegOp :=
  [.addUnit (.str (Sym.ofString "time")) (Sym.ofString "minutes") (.str (Sym.ofString "min"))
    (.mob ⟨0, 1, 60, 0⟩) (.mob ⟨0, 60, 1, 0⟩) 0]

/-- **the unrestricted statement is false**: the call is accepted and leaves a quantity type whose
first-listed unit is not an identity -/
theorem run_inv_counterexample : ¬ FullInv (run lg Registry.empty knownFindingHistory) := by
  intro h
  have hrun : run lg Registry.empty knownFindingHistory = run [] Registry.empty knownFindingHistory := rfl
  rw [hrun] at h
  have hl : tlGet (run [] Registry.empty knownFindingHistory).types (Sym.ofString "time")
      = some [⟨Sym.ofString "time", Sym.ofString "minutes", Sym.ofString "min", true, ⟨0, 60, 1, 0⟩,
          ⟨0, 1, 60, 0⟩, true, true, none, none, 0, 0⟩] := by decide +kernel
  obtain ⟨b, t, hbt, hid⟩ := h.2 _ _ hl
  cases hbt
  revert hid
  decide +kernel

/-- **for every history that opens each quantity type with `AddUnitBase` (as the shipped fillers
do) the registry is well-formed at full strength**: the first-listed unit of every quantity type
has identity to-base and from-base functions -/
theorem run_inv_disciplined (ops : List RegOp) (hd : Disciplined lg Registry.empty ops) :
    FullInv (run lg Registry.empty ops) := by
  have key : ∀ (ops : List RegOp) (r : Registry), RegInv r → HasBase r → Disciplined lg r ops →
      RegInv (run lg r ops) ∧ HasBase (run lg r ops) := by
    intro ops
    induction ops with
    | nil => intro r h hb _; exact ⟨h, hb⟩
    | cons op ops ih =>
      intro r h hb hd
      exact ih _ (step_preserves_RegInv lg h op) (step_preserves_HasBase lg h hb hd.1) hd.2
  have hb0 : HasBase Registry.empty := by intro qt l hl; simp [Registry.empty, tlGet] at hl
  obtain ⟨h, hb⟩ := key ops _ regInv_empty hb0 hd
  exact fullInv_of_hasBase h hb

/-! ### a rejected registration leaves the registry exactly as it was -/

/-- for every call and every argument combination: if the call raises, the three dictionaries are
unchanged.  (The hypothesis is needed: `AddUnit` performs its second duplicate check after writing
the symbol index; in a well-formed registry that check cannot fire.) -/
theorem rejected_step_id {r r' : Registry} (h : RegInv r) {op : RegOp} {e : ErrKind}
    (hs : step lg r op = (r', .error e)) : r' = r :=
  rejected_id lg h hs

/-- … at any point of any history -/
theorem rejected_step_id_in_history (before : List RegOp) {op : RegOp} {r' : Registry} {e : ErrKind}
    (hs : step lg (run lg Registry.empty before) op = (r', .error e)) :
    r' = run lg Registry.empty before :=
  rejected_step_id lg (run_inv_partial lg before) hs

/-! ### what the invariant says, in the words of the property -/

/-- every unit symbol belongs to exactly one quantity type (and is listed once) -/
theorem symbol_in_exactly_one_type (ops : List RegOp) {q1 q2 : Sym} {l1 l2 : List UnitRow}
    (h1 : tlGet (run lg Registry.empty ops).types q1 = some l1)
    (h2 : tlGet (run lg Registry.empty ops).types q2 = some l2) {w1 w2 : UnitRow}
    (m1 : w1 ∈ l1) (m2 : w2 ∈ l2) (hs : w1.sym = w2.sym) : q1 = q2 ∧ w1 = w2 :=
  (run_inv_partial lg ops).sym_one_type h1 h2 m1 m2 hs

/-- every category refers to an existing quantity type, with default and valid units drawn from
that type and a default value inside its limits -/
theorem category_well_formed (ops : List RegOp) {c : Sym} {ci : CatRow}
    (hc : catGet (run lg Registry.empty ops).cats c = some ci) :
    CatOk (run lg Registry.empty ops) ci :=
  (run_inv_partial lg ops).catsOk c ci hc

/-- **every registered category builds a valid Scalar**: `Scalar(c)` is created with the category,
its default unit and default value, and `IsValid()` holds for it -/
theorem every_category_builds_valid_scalar (ops : List RegOp) {c : Sym} {ci : CatRow}
    (hc : catGet (run lg Registry.empty ops).cats c = some ci) :
    spec lg (run lg Registry.empty ops) (.createC c) = .ok (.qvalue c ci.defaultUnit ci.defaultValue)
    ∧ spec lg (run lg Registry.empty ops) (.isValid c ci.defaultUnit ci.defaultValue) = .ok (.bool true) :=
  category_builds_scalar lg (run_inv_partial lg ops) hc

/-- **every registered unit builds a Scalar** under every category of its quantity type:
`Scalar(x, u, c)` is created with exactly that unit and category -/
theorem every_unit_builds_scalar (ops : List RegOp) {c : Sym} {ci : CatRow} {l : List UnitRow} {w : UnitRow}
    (hc : catGet (run lg Registry.empty ops).cats c = some ci)
    (hl : tlGet (run lg Registry.empty ops).types ci.qtype = some l) (hw : w ∈ l) :
    spec lg (run lg Registry.empty ops) (.create c w.sym) = .ok (.quantity c w.sym) :=
  unit_builds_scalar lg (run_inv_partial lg ops) hc hl hw

/-! ### the shipped tables (regenerated from /repo on every run) -/

/-- **the shipped POSC database satisfies the invariant** (1548 units, 328 categories today; the
table theorems are re-proved by `decide +kernel` whenever /repo changes) -/
theorem posc_RegInv : DbRegInv Gen.poscDb :=
  dbRegInv_of_index Gen.poscC_core Gen.poscTree_complete Gen.poscC_pos Gen.poscTree_sound Gen.poscBases_sound
    Gen.poscBases_complete Gen.poscBases_ident Gen.poscCats_all_reg14ct

/-- **every unit of the shipped POSC database can be used to build a Scalar without naming a
category**: its default category — its own `default_category` entry, else its quantity type's
name — is a registered category of the unit's OWN quantity type (per-row predicate
`UnitRow.defaultCatOk`, generated table theorem `poscUnits_all_defcat`) -/
theorem posc_units_default_category_of_own_type :
    ∀ w ∈ Gen.poscDb.units, ∃ c ci, Ctor.rowDefaultCategory Gen.poscDb w = some c ∧ c ≠ 0
      ∧ Gen.poscDb.catByName c = some ci ∧ ci.qtype = w.qtype :=
  fun w hw => Ctor.defaultCatOk_spec (List.all_eq_true.mp Gen.poscUnits_all_defcat w hw)

/-- … and so does the database built by `FillSimple` -/
theorem simple_RegInv : DbRegInv Gen.simpleDb :=
  dbRegInv_of_all Gen.simpleUnits_all_reg14u Gen.simpleCats_all_reg14c

/-! ### non-vacuity -/

/-- a history with a base unit, a unit, a category with limits, a rejected and an overriding call -/
def sampleHistory : List RegOp :=
  [.addUnitBase (.str 1) 10 (.str 2),
   .addUnit (.str 1) 11 (.str 3) (.mob ⟨0, 100, 1, 0⟩) (.mob ⟨0, 1, 100, 0⟩) 0,
   .addUnit (.str 1) 11 (.str 3) (.mob ⟨0, 100, 1, 0⟩) (.mob ⟨0, 1, 100, 0⟩) 0,
   .addCategory ⟨.str 5, some 1, some [3], false, none, none, some 0, some 10, false, false, 7, none⟩,
   .addCategory ⟨.str 6, none, none, true, some 2, none, none, none, false, false, 0, some 5⟩]

/-! ### several private databases alive at the same time -/

/-- **databases do not interact**: in any interleaving of histories (registrations, lookups, failing
operations, creations) addressed to a family of private databases, database `i` ends in the state,
and gives the outcomes, of its own history run alone — whatever the others were asked in between -/
theorem databases_do_not_interact (s : Nat → CState) (ops : List (Nat × COp)) (i : Nat) :
    runN (cstep lg) s ops i = crun lg (s i) (partOf i ops)
    ∧ partOf i (outputsN (cstep lg) s ops) = coutputs lg (s i) (partOf i ops) := by
  rw [runN_apply, outputsN_part, frun_cstep, fouts_cstep]
  exact ⟨rfl, rfl⟩

/-- … hence each of them stays well-formed, and every registered unit builds a Scalar through every
category of its quantity type in ITS database, after any interleaving -/
theorem every_database_stays_well_formed (ops : List (Nat × COp)) (i : Nat) :
    RegInv (runN (cstep lg) (fun _ => CState.fresh Registry.empty) ops i).reg := by
  rw [(databases_do_not_interact lg _ ops i).1]
  exact crun_regInv lg regInv_empty _

theorem every_unit_builds_scalar_in_its_database (ops : List (Nat × COp)) (i : Nat) {c : Sym} {ci : CatRow}
    {l : List UnitRow} {w : UnitRow}
    (hc : catGet (runN (cstep lg) (fun _ => CState.fresh Registry.empty) ops i).reg.cats c = some ci)
    (hl : tlGet (runN (cstep lg) (fun _ => CState.fresh Registry.empty) ops i).reg.types ci.qtype = some l)
    (hw : w ∈ l) :
    spec lg (runN (cstep lg) (fun _ => CState.fresh Registry.empty) ops i).reg (.create c w.sym)
      = .ok (.quantity c w.sym) :=
  unit_builds_scalar lg (every_database_stays_well_formed lg ops i) hc hl hw

/-! ### `AddCategory(..., from_category=src, is_min_exclusive=None, is_max_exclusive=None)` -/

/-- **explicit `None` for an exclusivity flag means "as in the source category"**: when the call is
accepted, the new category carries the source's `is_min_exclusive` / `is_max_exclusive` (for whichever
of the two was passed as `None`; a flag passed as a bool is kept) -/
theorem explicit_none_flags_copied_from_source {r r' : Registry} {a : CatArgs} {src : Sym} {ci info : CatRow}
    {minN maxN capN : Bool} (hf : a.fromCat = some src) (hs : src ≠ 0) (hc : catGet r.cats src = some ci)
    (h : step lg r (.addCategoryN a minN maxN capN) = (r', .ok (.cat info))) :
    info.minExcl = (if minN then ci.minExcl else a.minExcl) ∧ info.maxExcl = (if maxN then ci.maxExcl else a.maxExcl) := by
  simp only [step] at h
  cases hh : addCategory lg r (inheritFlags r a minN maxN capN) with
  | mk r1 o =>
    rw [hh] at h
    cases o with
    | error e => cases h
    | ok ci' =>
      simp only [Prod.mk.injEq, Except.ok.injEq, Out.cat.injEq] at h
      obtain ⟨_, rfl⟩ := h
      have := addCategory_flags hh
      have ht : truthy a.fromCat = true := by rw [hf]; simp [truthy, hs]
      have hg : getCategoryInfo r (a.fromCat.getD 0) = .ok ci := by rw [hf]; simp [getCategoryInfo, hc]
      simp only [inheritFlags, ht, hg, ↓reduceIte] at this
      exact this

/-- **contradictory limits are never registered — a ZERO-valued limit is a limit**: an `AddCategory` that
gives both limits with `max_value < min_value` (whatever the two numbers are: `min_value=0, max_value=-5`
and `min_value=5, max_value=0` included; with or without `override`, `from_category`, a default value) is
rejected in every registry and leaves the registry exactly as it was -/
theorem contradictory_limits_rejected (r : Registry) (a : CatArgs) {lo hi : Rat} (hmin : a.minV = some lo)
    (hmax : a.maxV = some hi) (h : hi < lo) :
    (∃ e, (step lg r (.addCategory a)).2 = .error e) ∧ (step lg r (.addCategory a)).1 = r := by
  have hl : limitsInverted a.minV a.maxV = true := by simp [limitsInverted, hmin, hmax, h]
  have key : ∃ e, addCategory lg r a = (r, .error e) := by
    unfold addCategory
    cases a.category with
    | none => exact ⟨_, rfl⟩
    | bad => exact ⟨_, rfl⟩
    | str c =>
      simp only [hl]
      by_cases h1 : (truthy a.fromCat && truthy a.qtype) = true
      · exact ⟨.value, by simp [h1]⟩
      · by_cases h2 : (!a.override && (catGet r.cats c).isSome) = true
        · exact ⟨.units, by simp [h1, h2]⟩
        · exact ⟨.value, by simp [h1, h2]⟩
  obtain ⟨e, he⟩ := key
  simp [step, he]

/-- two databases sharing the category 5 over the quantity type 1 with different units (database 0:
units 2, 3; database 1: units 2, 4), used alternately: database 1 refuses (5, 3), database 0 builds it -/
def twoDatabases : List (Nat × COp) :=
  [(0, .reg (.addUnitBase (.str 1) 10 (.str 2))),
   (1, .reg (.addUnitBase (.str 1) 10 (.str 2))),
   (0, .reg (.addUnit (.str 1) 11 (.str 3) (.mob ⟨0, 100, 1, 0⟩) (.mob ⟨0, 1, 100, 0⟩) 0)),
   (1, .reg (.addUnit (.str 1) 12 (.str 4) (.mob ⟨0, 1, 1000, 0⟩) (.mob ⟨0, 1000, 1, 0⟩) 0)),
   (0, .reg (.addCategory ⟨.str 5, some 1, none, false, none, none, none, none, false, false, 0, none⟩)),
   (1, .reg (.addCategory ⟨.str 5, some 1, none, false, none, none, none, none, false, false, 0, none⟩)),
   (1, .query (.create 5 3)),
   (0, .query (.create 5 3)),
   (0, .query (.create 5 4)),
   (1, .query (.create 5 4))]

end Barril.Reg
