/-
C06 — named compound units agree with the composition of their parts.

Property theorems only.  The rule (grammar, SI reading, written precision, judgement) is
`Barril/Model/Compound.lean`; helper lemmas are in `Barril/Proofs/CompoundLemmas.lean`; the table facts
`poscC_core` (the compact table is the default database's unit table, row by row) and `poscC_all_c06`
(the row predicate holds for every row but the recorded findings) are generated
(`Barril/Gen/ThmCore*.lean`, `Barril/Gen/ThmC06*.lean`) and proved by `decide +kernel` over rows the
translator reads from the database built by /repo's current source.
-/
import Barril.Proofs.CompoundLemmas
import Barril.Proofs.CompoundAlgLemmas
import Barril.Proofs.CompoundIndexLemmas
import Barril.Gen.ThmC06Posc
import Barril.Gen.ThmIdxPosc
import Barril.Gen.ThmCorePosc
import Barril.Gen.Dbs

namespace Barril
open Barril.Gen

/-- What the row predicate asserts about a row the rule reads: the reading has a value `e` (the product
of the parts' factors, times the power of ten of an SI prefix), the base unit of the row's quantity
type has the value `be` under the same reading (1 unless the base unit is itself a compound of non-base
units), and `factor(row) · be` equals `e` within the written relative precision of the row (`c.prec`),
of its parts (`t`) and of the base unit's parts (`bt`). -/
def CompoundAgrees (look base : Sym → Option CRow) (c : CRow) : Prop :=
  ∀ rd, reading look c = some rd →
    ∃ e t be bt, expected rd = some (e, t) ∧ baseFactor look base c = some (be, bt)
      ∧ c.ok = true ∧ rd.partsOk = true
      ∧ absQ (c.slope * be - e) ≤ (c.prec + t + bt) * absQ e

/-- the decidable row predicate says exactly that -/
theorem compoundOk_iff (look base : Sym → Option CRow) (c : CRow) :
    compoundOk look base c = true ↔ CompoundAgrees look base c := by
  unfold compoundOk CompoundAgrees
  cases hr : reading look c with
  | none => simp
  | some rd =>
    simp only [Option.some.injEq, forall_eq']
    cases he : expected rd with
    | none => simp
    | some et =>
      obtain ⟨e, t⟩ := et
      cases hb : baseFactor look base c with
      | none => simp
      | some bb =>
        obtain ⟨be, bt⟩ := bb
        simp only [Bool.and_eq_true, decide_eq_true_eq, Option.some.injEq, Prod.mk.injEq]
        constructor
        · rintro ⟨⟨h1, h2⟩, h3⟩
          exact ⟨e, t, be, bt, ⟨rfl, rfl⟩, ⟨rfl, rfl⟩, h1, h2, h3⟩
        · rintro ⟨e', t', be', bt', ⟨rfl, rfl⟩, ⟨rfl, rfl⟩, h1, h2, h3⟩
          exact ⟨⟨h1, h2⟩, h3⟩

/-- **the table the rule works on is the unit table of the default database**: same rows in the same
order, with symbol, quantity type, registered name, factor to the base unit (slope of the executed
to-base formula) and translatability taken from the full rows -/
theorem posc_compact_is_table : poscC.map CRow.core = poscDb.units.map UnitRow.core := poscC_core

/-- a symbol is found in the compact table exactly when the default database registers it, and the row
found carries that unit's data -/
theorem posc_lookup_registered {s : Sym} {c : CRow} (h : lookL s poscC = some c) :
    ∃ r ∈ poscDb.units, r.sym = s ∧ r.qtype = c.qtype ∧ r.name = c.name
      ∧ r.toBase.q / r.toBase.r = c.slope ∧ r.ok = c.ok := by
  obtain ⟨hm, hs⟩ := lookL_some h
  obtain ⟨r, hr, e⟩ := mem_of_core_eq posc_compact_is_table hm
  simp only [UnitRow.core, CRow.core, Prod.mk.injEq] at e
  exact ⟨r, hr, e.1.trans hs, e.2.1, e.2.2.1, e.2.2.2.1, e.2.2.2.2.1⟩

theorem posc_lookup_unregistered {s : Sym} (h : lookL s poscC = none) : ∀ r ∈ poscDb.units, r.sym ≠ s := by
  intro r hr e
  obtain ⟨c, hc, hcore⟩ := mem_of_core_eq' posc_compact_is_table hr
  have : c.sym = s := by
    simp only [UnitRow.core, CRow.core, Prod.mk.injEq] at hcore
    exact hcore.1.trans e
  exact lookL_none h c hc this

/-- no symbol is listed twice in the default database (from the index facts: every row is found in the search
tree under its own symbol, and the rows carry their positions) -/
theorem posc_symbols_unique : (poscDb.units.map (·.sym)).Nodup := by
  have h := syms_nodup_of_index poscTree_complete poscC_pos
  have e : poscC.map (·.sym) = poscDb.units.map (·.sym) := by
    have := congrArg (List.map (fun t : Sym × Sym × Sym × Rat × Bool × Bool => t.1)) posc_compact_is_table
    simpa [List.map_map, CRow.core, UnitRow.core, Function.comp_def] using this
  rw [← e]; exact h

/-- so the row the database finds under the symbol of one of its rows is that row -/
theorem posc_unitBySym_self {w : UnitRow} (hw : w ∈ poscDb.units) : poscDb.unitBySym w.sym = some w := by
  unfold Db.unitBySym
  exact find?_of_nodup_key (fun r : UnitRow => r.sym) posc_symbols_unique hw

/-- **C06, table theorem.**  Every row of the default database that the unit grammar decomposes into
registered units, or that is an SI-prefixed form of another row by symbol and registered name — except
exactly the rows recorded as known findings — has the factor its parts demand, to the precision the
table is written in. -/
theorem compound_rows_ok :
    ∀ c ∈ poscC, c.sym ∉ c06KnownBad →
      CompoundAgrees (fun s => lookL s poscC) (fun q => baseL q poscC) c := by
  intro c hc hk
  have h := List.all_eq_true.mp poscC_all_c06 c hc
  unfold compoundOkOrKnown at h
  rcases Bool.or_eq_true_iff.mp h with h | h
  · exact absurd (List.contains_iff_mem.mp h) hk
  · exact (compoundOk_iff _ _ c).mp h

/-- the same, for the rows of the database itself: the compact row of every registered unit agrees -/
theorem registered_units_ok {r : UnitRow} (hr : r ∈ poscDb.units) (hk : r.sym ∉ c06KnownBad) :
    ∃ c ∈ poscC, c.core = r.core ∧ CompoundAgrees (fun s => lookL s poscC) (fun q => baseL q poscC) c := by
  obtain ⟨c, hc, hcore⟩ := mem_of_core_eq' posc_compact_is_table hr
  have hs : c.sym = r.sym := by
    simp only [UnitRow.core, CRow.core, Prod.mk.injEq] at hcore
    exact hcore.1
  exact ⟨c, hc, hcore, compound_rows_ok c hc (hs ▸ hk)⟩

/-! ### what a reading is (the grammar never invents a factor) -/

/-- A compound reading of a row cuts the row's own symbol: it is `n/d` with exactly one `/` or contains
none, each side is cut at its `.`s (a piece `1` is the empty product), and every piece is
`[decimal multiplier] registered-symbol [decimal exponent ≥ 1]` with the recorded multiplier and
exponent; for any lookup function. -/
theorem compound_reading_cuts_symbol {look : Sym → Option CRow} {c : CRow} {a b : List Factor}
    (h : reading look c = some (.compound a b)) :
    (∃ n d, Sym.bytes c.sym = n ++ [47] ++ d ∧ 47 ∉ n ∧ 47 ∉ d ∧ b ≠ []
        ∧ Forall2 (FactorText look) ((splitOnB 46 n).filter (fun f => f != [49])) a
        ∧ Forall2 (FactorText look) ((splitOnB 46 d).filter (fun f => f != [49])) b)
    ∨ (47 ∉ Sym.bytes c.sym ∧ b = [] ∧ a ≠ []
        ∧ Forall2 (FactorText look) ((splitOnB 46 (Sym.bytes c.sym)).filter (fun f => f != [49])) a) := by
  unfold reading at h
  split at h
  · rename_i a' b' hd
    cases h
    exact decompose_text hd
  · split at h <;> cases h

/-- an SI reading is `prefix ++ registered symbol` of the same quantity type, the registered names
saying so too -/
theorem si_reading_is_prefixed {look : Sym → Option CRow} {c b : CRow} {ex : Int}
    (h : siReading look c = some (b, ex)) :
    ∃ pre, (pre, ex) ∈ siPrefixes ∧ isPrefixB pre (Sym.bytes c.sym) = true
      ∧ look (Sym.ofBytes ((Sym.bytes c.sym).drop pre.length)) = some b
      ∧ b.qtype = c.qtype ∧ nameSaysPrefix ex (Sym.bytes c.name) (Sym.bytes b.name) = true := by
  unfold siReading at h
  split at h
  · cases h
  · obtain ⟨pe, hmem, hpe⟩ := List.exists_of_findSome?_eq_some h
    split at hpe
    · rename_i hp
      split at hpe
      · rename_i b' hl
        split at hpe
        · rename_i hq
          cases hpe
          simp only [Bool.and_eq_true, beq_iff_eq] at hq
          exact ⟨pe.1, hmem, hp, hl, hq.1, hq.2⟩
        · cases hpe
      · cases hpe
    · cases hpe

/-- the value of a side is the product of `multiplier · factor ^ exponent` over its factors, and its
precision the exponent-weighted sum of the parts' written precisions -/
theorem sideValue_cons (f : Factor) (fs : List Factor) :
    sideValue (f :: fs) = ((f.pre : Rat) * f.unit.slope ^ f.exp * (sideValue fs).1,
      (f.exp : Rat) * f.unit.prec + (sideValue fs).2) := rfl

theorem sideValue_nil : sideValue [] = (1, 0) := rfl

/-! ### the "equivalently" sentence: the product of the parts IS the magnitude of the composed Scalar -/

/-- the factor of a row of the compact table is the arithmetic engine's `slope` of its symbol, i.e. (by
`baseMag_simple`) what `Scalar(1, symbol)` amounts to in base units -/
theorem posc_slope_is_engine_slope {s : Sym} {c : CRow} (h : lookL s poscC = some c) :
    Alg.slope poscDb s = c.slope := slope_of_lookL posc_compact_is_table h

/-- **C06, second sentence.**  For every row the grammar reads as a compound (recorded findings excepted),
`factor(row) · E(base)` agrees, within the written precision, with
`multipliers · Alg.mag poscDb (parts with their signed exponents)`.  `Alg.mag` of a composing-unit list is
the amount in base units per unit of value of ANY Scalar with those composing units, and by C04's
`mul_mag` / `div_mag` (closed under products and quotients by `opNew_closed`) that is what multiplying and
dividing Scalars given in the component units produces; the left side is the amount of `Scalar(1, row)`
(`posc_slope_is_engine_slope`, `baseMag_simple`).  So the named Scalar and the composed Scalar describe the
same physical amount, to the precision the table is written in. -/
theorem named_eq_composed {c : CRow} (hc : c ∈ poscC) (hk : c.sym ∉ c06KnownBad) {a b : List Factor}
    (hr : reading (fun s => lookL s poscC) c = some (.compound a b)) :
    ∃ t be bt, baseFactor (fun s => lookL s poscC) (fun q => baseL q poscC) c = some (be, bt) ∧
      absQ (c.slope * be
          - sidePre a / sidePre b * Alg.mag poscDb (sideEntries 1 a ++ sideEntries (-1) b))
        ≤ (c.prec + t + bt)
          * absQ (sidePre a / sidePre b * Alg.mag poscDb (sideEntries 1 a ++ sideEntries (-1) b)) := by
  obtain ⟨e, t, be, bt, he, hb, _, _, hle⟩ := compound_rows_ok c hc hk _ hr
  have hl := reading_factors_looked hr
  have ha : ∀ f ∈ a, Alg.slope poscDb f.unit.sym = f.unit.slope :=
    fun f hf => posc_slope_is_engine_slope (hl f (Or.inl hf))
  have hb' : ∀ f ∈ b, Alg.slope poscDb f.unit.sym = f.unit.slope :=
    fun f hf => posc_slope_is_engine_slope (hl f (Or.inr hf))
  have := expected_eq_mag ha hb' he
  exact ⟨t, be, bt, hb, this ▸ hle⟩

/-! ### non-vacuity: the rule does read the rows the property names, and judges them -/

private def look0 : Sym → Option CRow := fun s => lookL s poscC
private def rowOf (s : String) : Option CRow := lookL (Sym.ofString s) poscC

end Barril
