/-
C17 — the unit-system manager is a registry with exactly one current system.

Model: `Barril/Model/Mgr.lean` (`UnitSystemManager` + `UnitSystem` as the state machine `step` with the
callback log of every call).  Helper lemmas: `Barril/Proofs/MgrLemmas.lean`.

Reading guide (property text → theorem):
* "after any sequence of … : ids are unique" and each system is registered under its own id, exactly
  the current system is listened to → `MgrWf`, `step_preserves_MgrWf`, `run_preserves_MgrWf`,
  `reachable_MgrWf` (ALL histories, invalid calls included);
* "the current system is a registered system or the null system" → `MgrInv`;
  `step_preserves_MgrInv_partial` / `run_preserves_MgrInv_partial` (every `SetCurrent` argument is
  `None` or registered) — the unrestricted statement is FALSE for the code as it is
  (`setCurrent_unregistered_counterexample`, known finding C17-setcurrent-unregistered);
* "a system added while none is current becomes current" → `add_first_becomes_current`,
  `add_keeps_current`;  "removing the current one selects another or none" →
  `remove_current_selects_next_or_none`, `remove_other_keeps_current`;
* "a system is accepted only if it covers the template's categories" → `add_accepted_iff`,
  `template_accepted_iff` (acceptance-time conditions, not invariants), `remove_accepted_iff`;
* "listeners are notified exactly for …" → `notify_exact` (+ `current_change_is_notified`,
  `unit_event_only_from_current`);
* "ConvertToCurrent returns …" → `convertToCurrent_spec`;  "a rejected call changes nothing" →
  `rejected_step_id`;  `GetNewId` → `getNewId_fresh`;
* one system's default units never leak into another (repair b5b3988) → `setDefaultUnit_frame`,
  `removeCategory_effect`, `removeCategory_absent`; mappings stay proper dicts → `DictsWf`,
  `step_preserves_DictsWf`, `reachable_DictsWf`;
* value objects (`Register`, `UpdateObjects`, `_IdentityWrap`): "registered objects are updated exactly when
  (and to what) the callbacks fire" → `objects_follow_on_current` (`specUnit` says to what);
  `register_spec`, `registerAgain_spec`, `updateObjects_spec`, `kill_spec`; what the code does on a
  default-unit change → `default_unit_change_keeps_objects`, `updateObjects_propagates_default`,
  `updateObjects_after_setCurrent_id`; "an object that died is dropped" → `ObjsWf`,
  `step_preserves_ObjsWf`, `reachable_ObjsWf`, `dead_object_is_never_touched`,
  `run_dead_object_is_never_touched`;
* observers and `ResetInstance` → `resetInstance_spec`, `seen_exact`, `seen_all_of_observed`,
  `seen_nil_of_unobserved`, `observers_frame`, `reset_silences`;
* `SetCaption` / `SetReadOnly` → `setCaption_frame`, `setReadOnly_frame`, `readOnly_is_not_enforced`;
* the module's error classes → `template_rejected_names_a_system` (+ `add_rejected_is_key_error`).
  `UnitSystemManager.__init__` takes no arguments in this code base: `Mgr.init` is the only construction.
-/
import Barril.Proofs.MgrLemmas
import Barril.Gen.Dbs

namespace Barril.Mgr
open Barril

/-! ### the invariant, for every history -/

/-- every call — accepted or rejected, valid or not — keeps the manager well-formed: ids unique,
every system registered under its own id, `_current` an existing object, and the manager listening
to exactly the current system -/
theorem step_preserves_MgrWf (db : Db) {m : Mgr} (hw : MgrWf m) (op : Op) : MgrWf (step db m op).mgr := by
  cases op with
  | setTemplate mp => exact setTemplate_wf hw mp
  | add id cap mp ro => exact addUnitSystem_wf hw id cap mp ro
  | remove id => exact removeUnitSystem_wf hw id
  | setCurrent a =>
    cases a with
    | none => exact setCurrent_wf hw none (by intro a h; cases h)
    | some a =>
      simp only [step]
      split
      · rename_i h
        exact setCurrent_wf hw (some a) (by intro b hb; cases hb; exact h)
      · exact hw
  | setDefaultUnit a c u => exact setDefaultUnit_wf hw a c u
  | removeCategory a c => exact removeCategory_wf hw a c
  | getDefaultUnit a c => rw [(step_query db m (op := .getDefaultUnit a c) rfl).1]; exact hw
  | sysEq a b => rw [(step_query db m (op := .sysEq a b) rfl).1]; exact hw
  | convertToCurrent c u x => rw [(step_query db m (op := .convertToCurrent c u x) rfl).1]; exact hw
  | convertScalarToCurrent c u x => rw [(step_query db m (op := .convertScalarToCurrent c u x) rfl).1]; exact hw
  | getCategoryDefaultUnit c => rw [(step_query db m (op := .getCategoryDefaultUnit c) rfl).1]; exact hw
  | getQuantityDefaultUnit c u => rw [(step_query db m (op := .getQuantityDefaultUnit c u) rfl).1]; exact hw
  | getNewId => rw [(step_query db m (op := .getNewId) rfl).1]; exact hw
  | getById id => rw [(step_query db m (op := .getById id) rfl).1]; exact hw
  | getUnitSystems => rw [(step_query db m (op := .getUnitSystems) rfl).1]; exact hw
  | getCurrent => rw [(step_query db m (op := .getCurrent) rfl).1]; exact hw
  | sysEqOther a => rw [(step_query db m (op := .sysEqOther a) rfl).1]; exact hw
  | setSystemClass ok => rw [(step_query db m (op := .setSystemClass ok) rfl).1]; exact hw
  | register c u => exact step_aux_wf db hw (op := .register c u) rfl
  | registerAgain i => exact step_aux_wf db hw (op := .registerAgain i) rfl
  | kill i => exact step_aux_wf db hw (op := .kill i) rfl
  | objSetUnit i u => exact step_aux_wf db hw (op := .objSetUnit i u) rfl
  | updateObjects => exact step_aux_wf db hw (op := .updateObjects) rfl
  | resetInstance => exact step_aux_wf db hw (op := .resetInstance) rfl
  | observeCurrent => exact step_aux_wf db hw (op := .observeCurrent) rfl
  | observeUnit => exact step_aux_wf db hw (op := .observeUnit) rfl
  | setCaption a cap => exact step_aux_wf db hw (op := .setCaption a cap) rfl
  | setReadOnly a b => exact step_aux_wf db hw (op := .setReadOnly a b) rfl

theorem run_preserves_MgrWf (db : Db) (ops : List Op) {m : Mgr} (hw : MgrWf m) : MgrWf (run db m ops) := by
  induction ops generalizing m with
  | nil => exact hw
  | cons op ops ih => exact ih (step_preserves_MgrWf db hw op)

/-- after ANY history from a fresh manager -/
theorem reachable_MgrWf (db : Db) (ops : List Op) : MgrWf (run db Mgr.init ops) :=
  run_preserves_MgrWf db ops init_wf

/-- ids are unique after any history -/
theorem reachable_ids_unique (db : Db) (ops : List Op) : ((run db Mgr.init ops).reg.map (·.1)).Nodup :=
  (reachable_MgrWf db ops).ids_nodup

/-
Full statement (FALSE for the code as it is, see `setCurrent_unregistered_counterexample`):
  theorem step_preserves_MgrInv (db : Db) {m : Mgr} (h : MgrInv m) (op : Op) : MgrInv (step db m op).mgr
Missing: `SetCurrent(system)` does not check that `system` is registered.  Proved: the same for every
call except a `SetCurrent` whose argument is an unregistered system.
-/
theorem step_preserves_MgrInv_partial (db : Db) {m : Mgr} (h : MgrInv m) (op : Op) (hg : op.guarded m) :
    MgrInv (step db m op).mgr := by
  refine ⟨step_preserves_MgrWf db h.wf op, ?_⟩
  have hcr := h.cur_reg
  cases op with
  | setTemplate mp =>
    simp only [step, setTemplate]
    split
    · exact hcr
    · exact hcr
  | add id cap mp ro =>
    simp only [step, addUnitSystem]
    split
    · exact hcr
    · split
      · exact hcr
      · split
        · intro c hc
          rw [setCurrent_cur] at hc
          cases hc
          exact ⟨id, by rw [setCurrent_reg]; simp [Mgr.register]⟩
        · intro c hc
          obtain ⟨id', hm⟩ := hcr c hc
          exact ⟨id', by simp [Mgr.register, hm]⟩
  | remove id =>
    simp only [step, removeUnitSystem]
    split
    · exact hcr
    · split
      · intro c hc
        rw [setCurrent_cur] at hc
        rw [setCurrent_reg]
        exact nextCurrent_mem hc
      · rename_i hne
        intro c hc
        obtain ⟨id', hm⟩ := hcr c hc
        refine ⟨id', mem_regErase.mpr ⟨hm, ?_⟩⟩
        intro e
        subst e
        apply hne
        obtain ⟨o, ho, hoid⟩ := h.wf.reg_own id' c hm
        have hc' : m.cur = some c := hc
        simp [Mgr.currentId, hc', ho, hoid]
  | setCurrent a =>
    cases a with
    | none =>
      intro c hc
      simp only [step] at hc
      rw [setCurrent_cur] at hc
      cases hc
    | some a =>
      simp only [step]
      split
      · intro c hc
        rw [setCurrent_cur] at hc
        cases hc
        rw [setCurrent_reg]
        exact hg
      · exact hcr
  | setDefaultUnit a c u =>
    simp only [step, setDefaultUnit]
    split
    · exact hcr
    · exact hcr
  | removeCategory a c =>
    simp only [step, removeCategory]
    split
    · exact hcr
    · split
      · exact hcr
      · exact hcr
  | getDefaultUnit a c => rw [(step_query db m (op := .getDefaultUnit a c) rfl).1]; exact hcr
  | sysEq a b => rw [(step_query db m (op := .sysEq a b) rfl).1]; exact hcr
  | convertToCurrent c u x => rw [(step_query db m (op := .convertToCurrent c u x) rfl).1]; exact hcr
  | convertScalarToCurrent c u x => rw [(step_query db m (op := .convertScalarToCurrent c u x) rfl).1]; exact hcr
  | getCategoryDefaultUnit c => rw [(step_query db m (op := .getCategoryDefaultUnit c) rfl).1]; exact hcr
  | getQuantityDefaultUnit c u => rw [(step_query db m (op := .getQuantityDefaultUnit c u) rfl).1]; exact hcr
  | getNewId => rw [(step_query db m (op := .getNewId) rfl).1]; exact hcr
  | getById id => rw [(step_query db m (op := .getById id) rfl).1]; exact hcr
  | getUnitSystems => rw [(step_query db m (op := .getUnitSystems) rfl).1]; exact hcr
  | getCurrent => rw [(step_query db m (op := .getCurrent) rfl).1]; exact hcr
  | sysEqOther a => rw [(step_query db m (op := .sysEqOther a) rfl).1]; exact hcr
  | setSystemClass ok => rw [(step_query db m (op := .setSystemClass ok) rfl).1]; exact hcr
  | register c u => exact curRegistered_of_eq (step_aux db m (op := .register c u) rfl).1 (step_aux db m (op := .register c u) rfl).2.1 hcr
  | registerAgain i => exact curRegistered_of_eq (step_aux db m (op := .registerAgain i) rfl).1 (step_aux db m (op := .registerAgain i) rfl).2.1 hcr
  | kill i => exact curRegistered_of_eq (step_aux db m (op := .kill i) rfl).1 (step_aux db m (op := .kill i) rfl).2.1 hcr
  | objSetUnit i u => exact curRegistered_of_eq (step_aux db m (op := .objSetUnit i u) rfl).1 (step_aux db m (op := .objSetUnit i u) rfl).2.1 hcr
  | updateObjects => exact curRegistered_of_eq (step_aux db m (op := .updateObjects) rfl).1 (step_aux db m (op := .updateObjects) rfl).2.1 hcr
  | resetInstance => exact curRegistered_of_eq (step_aux db m (op := .resetInstance) rfl).1 (step_aux db m (op := .resetInstance) rfl).2.1 hcr
  | observeCurrent => exact curRegistered_of_eq (step_aux db m (op := .observeCurrent) rfl).1 (step_aux db m (op := .observeCurrent) rfl).2.1 hcr
  | observeUnit => exact curRegistered_of_eq (step_aux db m (op := .observeUnit) rfl).1 (step_aux db m (op := .observeUnit) rfl).2.1 hcr
  | setCaption a cap => exact curRegistered_of_eq (step_aux db m (op := .setCaption a cap) rfl).1 (step_aux db m (op := .setCaption a cap) rfl).2.1 hcr
  | setReadOnly a b => exact curRegistered_of_eq (step_aux db m (op := .setReadOnly a b) rfl).1 (step_aux db m (op := .setReadOnly a b) rfl).2.1 hcr

/-- a history in which every `SetCurrent` argument is `None` or a system registered at that moment -/
def Guarded (db : Db) : Mgr → List Op → Prop
  | _, [] => True
  | m, op :: ops => op.guarded m ∧ Guarded db (step db m op).mgr ops

/-- the invariant of the property text holds after every such history, of any length -/
theorem run_preserves_MgrInv_partial (db : Db) (ops : List Op) {m : Mgr} (h : MgrInv m) (hg : Guarded db m ops) :
    MgrInv (run db m ops) := by
  induction ops generalizing m with
  | nil => exact h
  | cons op ops ih => exact ih (step_preserves_MgrInv_partial db h op hg.1) hg.2

/-- the witness of the known finding: add "a"; remove "a"; SetCurrent(the removed object) — the
current system is then neither registered nor none -/
theorem setCurrent_unregistered_counterexample (db : Db) :
    ¬ CurRegistered (run db Mgr.init [.add 97 65 none false, .remove 97, .setCurrent (some 1)]) := by
  intro h
  obtain ⟨id, hm⟩ := h 1 rfl
  have : (run db Mgr.init [.add 97 65 none false, .remove 97, .setCurrent (some 1)]).reg = [] := rfl
  rw [this] at hm
  cases hm

/-! ### a rejected call changes nothing -/

/-- whatever the call and the state: an error leaves the manager, every unit system, the template
and the listeners exactly as they were, and notifies nobody -/
theorem rejected_step_id (db : Db) (m : Mgr) (op : Op) {e : ErrKind} (h : (step db m op).out = .error e) :
    (step db m op).mgr = m ∧ (step db m op).log = [] := by
  cases op with
  | setTemplate mp =>
    simp only [step, setTemplate] at h ⊢
    split
    · rename_i hc; simp [hc] at h
    · exact ⟨rfl, rfl⟩
  | add id cap mp ro =>
    simp only [step, addUnitSystem] at h ⊢
    split
    · exact ⟨rfl, rfl⟩
    · rename_i h1
      simp only [h1] at h
      split
      · exact ⟨rfl, rfl⟩
      · rename_i d hd
        simp only [hd] at h
        cases hc : m.cur <;> simp [hc] at h
  | remove id =>
    simp only [step, removeUnitSystem] at h ⊢
    split
    · exact ⟨rfl, rfl⟩
    · rename_i h1
      simp only [h1] at h
      by_cases hb : (m.cur.isSome && m.currentId == some id) = true <;> simp [hb] at h
  | setCurrent a =>
    cases a with
    | none => simp only [step] at h; cases h
    | some a =>
      simp only [step] at h ⊢
      split
      · rename_i h1; simp only [h1] at h; cases h
      · exact ⟨rfl, rfl⟩
  | setDefaultUnit a c u =>
    simp only [step, setDefaultUnit] at h ⊢
    split
    · exact ⟨rfl, rfl⟩
    · rename_i o ho; simp only [ho] at h; cases h
  | removeCategory a c =>
    simp only [step, removeCategory] at h ⊢
    split
    · exact ⟨rfl, rfl⟩
    · rename_i o ho
      simp only [ho] at h
      split
      · rename_i hd; simp only [hd] at h; cases h
      · exact ⟨rfl, rfl⟩
  | getDefaultUnit a c => exact step_query db m (op := .getDefaultUnit a c) rfl
  | sysEq a b => exact step_query db m (op := .sysEq a b) rfl
  | convertToCurrent c u x => exact step_query db m (op := .convertToCurrent c u x) rfl
  | convertScalarToCurrent c u x => exact step_query db m (op := .convertScalarToCurrent c u x) rfl
  | getCategoryDefaultUnit c => exact step_query db m (op := .getCategoryDefaultUnit c) rfl
  | getQuantityDefaultUnit c u => exact step_query db m (op := .getQuantityDefaultUnit c u) rfl
  | getNewId => exact step_query db m (op := .getNewId) rfl
  | getById id => exact step_query db m (op := .getById id) rfl
  | getUnitSystems => exact step_query db m (op := .getUnitSystems) rfl
  | getCurrent => exact step_query db m (op := .getCurrent) rfl
  | sysEqOther a => exact step_query db m (op := .sysEqOther a) rfl
  | setSystemClass ok => exact step_query db m (op := .setSystemClass ok) rfl
  | register c u => exact ⟨step_aux_rejected db m (op := .register c u) rfl h, (step_aux db m (op := .register c u) rfl).2.2.2⟩
  | registerAgain i => exact ⟨step_aux_rejected db m (op := .registerAgain i) rfl h, (step_aux db m (op := .registerAgain i) rfl).2.2.2⟩
  | kill i => exact ⟨step_aux_rejected db m (op := .kill i) rfl h, (step_aux db m (op := .kill i) rfl).2.2.2⟩
  | objSetUnit i u => exact ⟨step_aux_rejected db m (op := .objSetUnit i u) rfl h, (step_aux db m (op := .objSetUnit i u) rfl).2.2.2⟩
  | updateObjects => exact ⟨step_aux_rejected db m (op := .updateObjects) rfl h, (step_aux db m (op := .updateObjects) rfl).2.2.2⟩
  | resetInstance => exact ⟨step_aux_rejected db m (op := .resetInstance) rfl h, (step_aux db m (op := .resetInstance) rfl).2.2.2⟩
  | observeCurrent => exact ⟨step_aux_rejected db m (op := .observeCurrent) rfl h, (step_aux db m (op := .observeCurrent) rfl).2.2.2⟩
  | observeUnit => exact ⟨step_aux_rejected db m (op := .observeUnit) rfl h, (step_aux db m (op := .observeUnit) rfl).2.2.2⟩
  | setCaption a cap => exact ⟨step_aux_rejected db m (op := .setCaption a cap) rfl h, (step_aux db m (op := .setCaption a cap) rfl).2.2.2⟩
  | setReadOnly a b => exact ⟨step_aux_rejected db m (op := .setReadOnly a b) rfl h, (step_aux db m (op := .setReadOnly a b) rfl).2.2.2⟩

/-! ### acceptance decisions -/

/-- `AddUnitSystem(id, caption, mapping, read_only)` is accepted exactly when the id is unused and —
if a template is set and a mapping is given — the mapping covers the template's categories -/
theorem add_accepted_iff (db : Db) (m : Mgr) (id cap : Sym) (mp : Option (List (Sym × Sym))) (ro : Bool) :
    (∃ o, (step db m (.add id cap mp ro)).out = .ok o) ↔
      id ∉ m.reg.map (·.1) ∧
      (∀ t d, m.tmpl = some t → mp = some d → ∀ k ∈ dkeys t.mapping, k ∈ dkeys d) := by
  simp only [step, addUnitSystem_out]
  rw [← resolveMapping_ok_iff, ← regHas_false_iff]
  by_cases h1 : regHas m.reg id = true
  · simp [h1]
  · have h1' : regHas m.reg id = false := by simpa using h1
    simp only [h1', Bool.false_eq_true, ↓reduceIte, true_and]
    cases resolveMapping m.tmpl mp with
    | error e => simp
    | ok d => simp

/-- a rejected `AddUnitSystem` raises a `KeyError` (`UnitSystemIDError` / `UnitSystemCategoriesError`) -/
theorem add_rejected_is_key_error (db : Db) (m : Mgr) (id cap : Sym) (mp : Option (List (Sym × Sym))) (ro : Bool)
    {e : ErrKind} (h : (step db m (.add id cap mp ro)).out = .error e) : e = .key := by
  simp only [step, addUnitSystem_out] at h
  split at h
  · cases h; rfl
  · split at h
    · rename_i e' he
      cases h
      exact resolveMapping_error_kind he
    · cases h

/-- `SetTemplateUnitSystemByUnitsMapping(mapping)` is accepted exactly when every registered system
covers the mapping's categories (an acceptance-time condition: a later `RemoveCategory` may
legitimately break the covering, so it is not part of `MgrInv`) -/
theorem template_accepted_iff (db : Db) (m : Mgr) (mp : List (Sym × Sym)) :
    (∃ o, (step db m (.setTemplate mp)).out = .ok o) ↔
      ∀ id a o, (id, a) ∈ m.reg → m.heap[a]? = some o → ∀ k ∈ dkeys mp, k ∈ dkeys o.mapping := by
  simp only [step, setTemplate]
  have key : (invalidSystems m (dkeys mp)).isEmpty = true ↔
      ∀ id a o, (id, a) ∈ m.reg → m.heap[a]? = some o → ∀ k ∈ dkeys mp, k ∈ dkeys o.mapping := by
    unfold invalidSystems
    rw [List.isEmpty_iff, List.filterMap_eq_nil_iff]
    constructor
    · intro h id a o hm ho
      have := h (id, a) hm
      simp only [ho] at this
      by_cases hc : covers o.mapping (dkeys mp) = true
      · exact (covers_iff _ _).mp hc
      · simp [hc] at this
    · intro h p hp
      cases ho : m.heap[p.2]? with
      | none => rfl
      | some o =>
        have := (covers_iff _ _).mpr (h p.1 p.2 o hp ho)
        simp [this]
  rw [← key]
  by_cases hc : (invalidSystems m (dkeys mp)).isEmpty = true
  · simp [hc]
  · simp [hc, Res.reject]

/-- when it is accepted, the template becomes a read-only COPY of the given mapping and nothing else
changes -/
theorem template_accepted_effect (db : Db) (m : Mgr) (mp : List (Sym × Sym)) {o : Out}
    (h : (step db m (.setTemplate mp)).out = .ok o) :
    (step db m (.setTemplate mp)).mgr =
      { m with tmpl := some ⟨some symTemplate, symTemplateCaption, dofList mp, true, false⟩ } := by
  simp only [step, setTemplate] at h ⊢
  split
  · rfl
  · rename_i hc; simp [hc, Res.reject] at h

/-- `RemoveUnitSystem(id)` is accepted exactly when `id` is registered (otherwise `KeyError`) -/
theorem remove_accepted_iff (db : Db) (m : Mgr) (id : Sym) :
    (step db m (.remove id)).out = .ok .none ↔ id ∈ m.reg.map (·.1) := by
  simp only [step, removeUnitSystem_out]
  rw [← regHas_iff]
  by_cases h : regHas m.reg id = true <;> simp [h]

/-! ### which system is current -/

/-- **a system added while none is current becomes current**: the new object is returned, registered
under its id (and nothing else in the registry changes), it is the current system, the manager
listens to it, and `on_current` fires once with it -/
theorem add_first_becomes_current (db : Db) {m : Mgr} (hw : MgrWf m) (hc : m.cur = none) {id cap : Sym}
    {mp : Option (List (Sym × Sym))} {ro : Bool} {o : Out} (h : (step db m (.add id cap mp ro)).out = .ok o) :
    o = .sys m.heap.length ∧
    (step db m (.add id cap mp ro)).mgr.cur = some m.heap.length ∧
    (step db m (.add id cap mp ro)).mgr.reg = m.reg ++ [(id, m.heap.length)] ∧
    (step db m (.add id cap mp ro)).log = [.current m.heap.length] ∧
    ∃ s, (step db m (.add id cap mp ro)).mgr.heap[m.heap.length]? = some s ∧ s.id = some id ∧ s.listening = true := by
  have hacc := (add_accepted_iff db m id cap mp ro).mp ⟨o, h⟩
  have h1 : regHas m.reg id = false := (regHas_false_iff _ _).mpr hacc.1
  obtain ⟨d, h2⟩ := (resolveMapping_ok_iff m.tmpl mp).mpr hacc.2
  simp only [step] at h ⊢
  rw [addUnitSystem_accepted h1 h2] at h ⊢
  simp only [hc] at h ⊢
  have hwr := register_wf hw hacc.1 cap d ro
  refine ⟨by cases h; rfl, setCurrent_cur _ _, by rw [setCurrent_reg]; rfl, setCurrent_log _ _, ?_⟩
  refine ⟨{ USys.new (some id) cap d ro with listening := true }, ?_, rfl, rfl⟩
  rw [getElem?_setCurrent hwr]
  simp [Mgr.register]

/-- an accepted `AddUnitSystem` while some system is current leaves the current system alone and
notifies nobody -/
theorem add_keeps_current (db : Db) {m : Mgr} {c : Nat} (hc : m.cur = some c) {id cap : Sym}
    {mp : Option (List (Sym × Sym))} {ro : Bool} {o : Out} (h : (step db m (.add id cap mp ro)).out = .ok o) :
    o = .sys m.heap.length ∧
    (step db m (.add id cap mp ro)).mgr.cur = some c ∧
    (step db m (.add id cap mp ro)).mgr.reg = m.reg ++ [(id, m.heap.length)] ∧
    (step db m (.add id cap mp ro)).log = [] := by
  have hacc := (add_accepted_iff db m id cap mp ro).mp ⟨o, h⟩
  have h1 : regHas m.reg id = false := (regHas_false_iff _ _).mpr hacc.1
  obtain ⟨d, h2⟩ := (resolveMapping_ok_iff m.tmpl mp).mpr hacc.2
  simp only [step] at h ⊢
  rw [addUnitSystem_accepted h1 h2] at h ⊢
  simp only [hc] at h ⊢
  refine ⟨by cases h; rfl, ?_⟩
  simp [Mgr.register, hc]

/-- **removing the current system selects another or none**: the first system left in the registry,
or none when the registry became empty; `on_current` fires once with it (the null system, address 0,
when none); the selected system is still registered, under another id -/
theorem remove_current_selects_next_or_none (db : Db) {m : Mgr} (hw : MgrWf m) {id : Sym} {c : Nat}
    (hc : m.cur = some c) (hreg : (id, c) ∈ m.reg) :
    (step db m (.remove id)).out = .ok .none ∧
    (step db m (.remove id)).mgr.reg = regErase m.reg id ∧
    (step db m (.remove id)).mgr.cur = nextCurrent (regErase m.reg id) ∧
    (step db m (.remove id)).log = [.current (step db m (.remove id)).mgr.currentAddr] ∧
    (∀ a, (step db m (.remove id)).mgr.cur = some a →
      ∃ id', id' ≠ id ∧ (id', a) ∈ (step db m (.remove id)).mgr.reg) := by
  have hin : id ∈ m.reg.map (·.1) := List.mem_map.mpr ⟨(id, c), hreg, rfl⟩
  have hout := (remove_accepted_iff db m id).mpr hin
  have h1 : regHas m.reg id = true := (regHas_iff _ _).mpr hin
  have hcid : m.currentId = some id := (currentId_eq_iff hw hc ⟨id, hreg⟩).mpr hreg
  refine ⟨hout, ?_⟩
  simp only [step, removeUnitSystem, h1, hc, hcid, Bool.not_true, Bool.false_eq_true, ↓reduceIte, Option.isSome_some,
    beq_self_eq_true, Bool.and_self]
  refine ⟨by rw [setCurrent_reg]; rfl, by rw [setCurrent_cur]; rfl, ?_, ?_⟩
  · rw [setCurrent_log, currentAddr_setCurrent]
  · intro a ha
    rw [setCurrent_cur] at ha
    obtain ⟨id', hm⟩ := nextCurrent_mem ha
    rw [setCurrent_reg]
    exact ⟨id', (mem_regErase.mp hm).2, hm⟩

/-- removing a system that is not the current one leaves the current system alone and notifies nobody -/
theorem remove_other_keeps_current (db : Db) {m : Mgr} (h : MgrInv m) {id : Sym}
    (hin : id ∈ m.reg.map (·.1)) (hne : ∀ c, m.cur = some c → (id, c) ∉ m.reg) :
    (step db m (.remove id)).mgr = m.unregister id ∧ (step db m (.remove id)).log = [] := by
  have h1 : regHas m.reg id = true := (regHas_iff _ _).mpr hin
  have hcid : ¬ (m.cur.isSome && m.currentId == some id) = true := by
    intro hb
    simp only [Bool.and_eq_true, beq_iff_eq] at hb
    cases hc : m.cur with
    | none => rw [hc] at hb; simp at hb
    | some c => exact hne c hc ((currentId_eq_iff h.wf hc (h.cur_reg c hc)).mp hb.2)
  simp only [step, removeUnitSystem, h1, Bool.not_true, Bool.false_eq_true, ↓reduceIte, hcid]
  simp

/-! ### notifications -/

/-- `category in system._units_mapping` for the object at `a` -/
def hasCategory (m : Mgr) (a : Nat) (c : Sym) : Bool :=
  match m.heap[a]? with
  | some o => dhas o.mapping c
  | none => false

/-- The notifications the property text prescribes for an ACCEPTED call made in state `m` that led to
state `m'`: one `on_current` (with the system `GetCurrent()` now returns) per selection — every
`SetCurrent`, an add while none is current, a removal of the current system — and one
`on_unit_changed` per `SetDefaultUnit` / effective `RemoveCategory` on the CURRENT system; nothing
for any other system, nothing for any other call. -/
def specLog (m m' : Mgr) : Op → List Event
  | .setCurrent _ => [.current m'.currentAddr]
  | .add _ _ _ _ => if m.cur = none then [.current m'.currentAddr] else []
  | .remove id => if m.currentId = some id then [.current m'.currentAddr] else []
  | .setDefaultUnit a c u => if m.cur = some a then [.unitChanged c (some u)] else []
  | .removeCategory a c => if m.cur = some a ∧ hasCategory m a c = true then [.unitChanged c none] else []
  | _ => []

theorem notify_exact (db : Db) {m : Mgr} (hw : MgrWf m) (op : Op) :
    (step db m op).log =
      match (step db m op).out with
      | .ok _ => specLog m (step db m op).mgr op
      | .error _ => [] := by
  cases op with
  | setTemplate mp =>
    simp only [step, setTemplate]
    split <;> rfl
  | add id cap mp ro =>
    cases hout : (step db m (.add id cap mp ro)).out with
    | error e => exact (rejected_step_id db m _ hout).2
    | ok o =>
      simp only [specLog]
      cases hc : m.cur with
      | none =>
        obtain ⟨_, hcur, _, hlog, _⟩ := add_first_becomes_current db hw hc hout
        rw [hlog]
        simp [Mgr.currentAddr, hcur]
      | some c =>
        obtain ⟨_, _, _, hlog⟩ := add_keeps_current db hc hout
        rw [hlog]; simp
  | remove id =>
    cases hout : (step db m (.remove id)).out with
    | error e => exact (rejected_step_id db m _ hout).2
    | ok o =>
      simp only [specLog]
      simp only [step, removeUnitSystem_out] at hout
      have h1 : regHas m.reg id = true := by
        by_cases h : regHas m.reg id = true
        · exact h
        · simp [h] at hout
      by_cases hcid : m.currentId = some id
      · have hs := currentId_some_cur hcid
        simp only [step, removeUnitSystem, h1, hs, hcid, Bool.not_true, Bool.false_eq_true, ↓reduceIte,
          beq_self_eq_true, Bool.and_self]
        rw [setCurrent_log, currentAddr_setCurrent]
      · have : ¬ (m.cur.isSome && m.currentId == some id) = true := by
          simp only [Bool.and_eq_true, beq_iff_eq]; exact fun h => hcid h.2
        simp only [step, removeUnitSystem, h1, this, hcid, Bool.not_true, Bool.false_eq_true, ↓reduceIte]
  | setCurrent a =>
    cases a with
    | none => simp only [step, specLog]; rw [setCurrent_log, currentAddr_setCurrent]
    | some a =>
      simp only [step]
      split
      · simp only [specLog]; rw [setCurrent_log, currentAddr_setCurrent]
      · rfl
  | setDefaultUnit a c u =>
    simp only [step, setDefaultUnit]
    split
    · rfl
    · rename_i o ho
      simp only [specLog, USys.fire]
      have := hw.listen a o ho
      by_cases hl : o.listening = true
      · simp [hl, this.mp hl]
      · have hn : ¬ m.cur = some a := fun h => hl (this.mpr h)
        simp [hl, hn]
  | removeCategory a c =>
    simp only [step, removeCategory]
    split
    · rfl
    · rename_i o ho
      have := hw.listen a o ho
      split
      · rename_i hd
        simp only [specLog, USys.fire, hasCategory, ho, hd]
        by_cases hl : o.listening = true
        · simp [hl, this.mp hl]
        · have hn : ¬ m.cur = some a := fun h => hl (this.mpr h)
          simp [hl, hn]
      · rename_i hd
        simp [specLog, Res.answer, hasCategory, ho, hd]
  | getDefaultUnit a c => rw [(step_query db m (op := .getDefaultUnit a c) rfl).2]; split <;> rfl
  | sysEq a b => rw [(step_query db m (op := .sysEq a b) rfl).2]; split <;> rfl
  | convertToCurrent c u x => rw [(step_query db m (op := .convertToCurrent c u x) rfl).2]; split <;> rfl
  | convertScalarToCurrent c u x => rw [(step_query db m (op := .convertScalarToCurrent c u x) rfl).2]; split <;> rfl
  | getCategoryDefaultUnit c => rw [(step_query db m (op := .getCategoryDefaultUnit c) rfl).2]; split <;> rfl
  | getQuantityDefaultUnit c u => rw [(step_query db m (op := .getQuantityDefaultUnit c u) rfl).2]; split <;> rfl
  | getNewId => rw [(step_query db m (op := .getNewId) rfl).2]; split <;> rfl
  | getById id => rw [(step_query db m (op := .getById id) rfl).2]; split <;> rfl
  | getUnitSystems => rw [(step_query db m (op := .getUnitSystems) rfl).2]; split <;> rfl
  | getCurrent => rw [(step_query db m (op := .getCurrent) rfl).2]; split <;> rfl
  | sysEqOther a => rw [(step_query db m (op := .sysEqOther a) rfl).2]; split <;> rfl
  | setSystemClass ok => rw [(step_query db m (op := .setSystemClass ok) rfl).2]; split <;> rfl
  | register c u => rw [(step_aux db m (op := .register c u) rfl).2.2.2]; split <;> rfl
  | registerAgain i => rw [(step_aux db m (op := .registerAgain i) rfl).2.2.2]; split <;> rfl
  | kill i => rw [(step_aux db m (op := .kill i) rfl).2.2.2]; split <;> rfl
  | objSetUnit i u => rw [(step_aux db m (op := .objSetUnit i u) rfl).2.2.2]; split <;> rfl
  | updateObjects => rw [(step_aux db m (op := .updateObjects) rfl).2.2.2]; split <;> rfl
  | resetInstance => rw [(step_aux db m (op := .resetInstance) rfl).2.2.2]; split <;> rfl
  | observeCurrent => rw [(step_aux db m (op := .observeCurrent) rfl).2.2.2]; split <;> rfl
  | observeUnit => rw [(step_aux db m (op := .observeUnit) rfl).2.2.2]; split <;> rfl
  | setCaption a cap => rw [(step_aux db m (op := .setCaption a cap) rfl).2.2.2]; split <;> rfl
  | setReadOnly a b => rw [(step_aux db m (op := .setReadOnly a b) rfl).2.2.2]; split <;> rfl


/-- **every change of the current system is notified**: whenever a call leaves `_current` different
from what it was, `on_current` fired exactly once, with the system `GetCurrent()` now returns, and
nothing else was notified -/
theorem current_change_is_notified (db : Db) {m : Mgr} (hw : MgrWf m) (op : Op)
    (hne : (step db m op).mgr.cur ≠ m.cur) :
    (step db m op).log = [.current (step db m op).mgr.currentAddr] := by
  have hn := notify_exact db hw op
  cases hout : (step db m op).out with
  | error e => exact absurd (by rw [(rejected_step_id db m op hout).1]) hne
  | ok o =>
    rw [hout] at hn
    simp only at hn
    rw [hn]
    cases op with
    | setCurrent a => rfl
    | add id cap mp ro =>
      cases hc : m.cur with
      | none => simp [specLog, hc]
      | some c => exact absurd ((add_keeps_current db hc hout).2.1.trans hc.symm) hne
    | remove id =>
      by_cases hcid : m.currentId = some id
      · simp [specLog, hcid]
      · exfalso
        apply hne
        have : ¬ (m.cur.isSome && m.currentId == some id) = true := by
          simp only [Bool.and_eq_true, beq_iff_eq]; exact fun h => hcid h.2
        simp only [step, removeUnitSystem]
        split
        · rfl
        · rfl
    | setTemplate mp =>
      exfalso; apply hne
      simp only [step, setTemplate]; split <;> rfl
    | setDefaultUnit a c u =>
      exfalso; apply hne
      simp only [step, setDefaultUnit]; split <;> rfl
    | removeCategory a c =>
      exfalso; apply hne
      simp only [step, removeCategory]
      split
      · rfl
      · split <;> rfl
    | getDefaultUnit a c => exact absurd (by rw [(step_query db m (op := .getDefaultUnit a c) rfl).1]) hne
    | sysEq a b => exact absurd (by rw [(step_query db m (op := .sysEq a b) rfl).1]) hne
    | convertToCurrent c u x => exact absurd (by rw [(step_query db m (op := .convertToCurrent c u x) rfl).1]) hne
    | convertScalarToCurrent c u x =>
      exact absurd (by rw [(step_query db m (op := .convertScalarToCurrent c u x) rfl).1]) hne
    | getCategoryDefaultUnit c => exact absurd (by rw [(step_query db m (op := .getCategoryDefaultUnit c) rfl).1]) hne
    | getQuantityDefaultUnit c u =>
      exact absurd (by rw [(step_query db m (op := .getQuantityDefaultUnit c u) rfl).1]) hne
    | getNewId => exact absurd (by rw [(step_query db m (op := .getNewId) rfl).1]) hne
    | getById id => exact absurd (by rw [(step_query db m (op := .getById id) rfl).1]) hne
    | getUnitSystems => exact absurd (by rw [(step_query db m (op := .getUnitSystems) rfl).1]) hne
    | getCurrent => exact absurd (by rw [(step_query db m (op := .getCurrent) rfl).1]) hne
    | sysEqOther a => exact absurd (by rw [(step_query db m (op := .sysEqOther a) rfl).1]) hne
    | setSystemClass ok => exact absurd (by rw [(step_query db m (op := .setSystemClass ok) rfl).1]) hne
    | register c u => exact absurd (step_aux db m (op := .register c u) rfl).1 hne
    | registerAgain i => exact absurd (step_aux db m (op := .registerAgain i) rfl).1 hne
    | kill i => exact absurd (step_aux db m (op := .kill i) rfl).1 hne
    | objSetUnit i u => exact absurd (step_aux db m (op := .objSetUnit i u) rfl).1 hne
    | updateObjects => exact absurd (step_aux db m (op := .updateObjects) rfl).1 hne
    | resetInstance => exact absurd (step_aux db m (op := .resetInstance) rfl).1 hne
    | observeCurrent => exact absurd (step_aux db m (op := .observeCurrent) rfl).1 hne
    | observeUnit => exact absurd (step_aux db m (op := .observeUnit) rfl).1 hne
    | setCaption a cap => exact absurd (step_aux db m (op := .setCaption a cap) rfl).1 hne
    | setReadOnly a b => exact absurd (step_aux db m (op := .setReadOnly a b) rfl).1 hne

/-! ### default units, `ConvertToCurrent`, `GetNewId` -/

/-- `system.SetDefaultUnit(category, unit)` changes that one system and no other object (no two
systems share a mapping), keeps registry, current system and template, and makes `unit` the default
of `category` while every other category keeps its default -/
theorem setDefaultUnit_frame (db : Db) {m : Mgr} {a : Nat} {o : USys} (ho : m.heap[a]? = some o) (c u : Sym) :
    (step db m (.setDefaultUnit a c u)).out = .ok .none ∧
    (step db m (.setDefaultUnit a c u)).mgr.heap[a]? = some { o with mapping := dset o.mapping c u } ∧
    (∀ b, b ≠ a → (step db m (.setDefaultUnit a c u)).mgr.heap[b]? = m.heap[b]?) ∧
    (step db m (.setDefaultUnit a c u)).mgr.reg = m.reg ∧
    (step db m (.setDefaultUnit a c u)).mgr.cur = m.cur ∧
    (step db m (.setDefaultUnit a c u)).mgr.tmpl = m.tmpl ∧
    dget (dset o.mapping c u) c = some u ∧
    (∀ c2, c2 ≠ c → dget (dset o.mapping c u) c2 = dget o.mapping c2) := by
  have halt : a < m.heap.length := by
    rcases Nat.lt_or_ge a m.heap.length with h' | h'
    · exact h'
    · rw [List.getElem?_eq_none h'] at ho; cases ho
  have hstep : step db m (.setDefaultUnit a c u) =
      ⟨{ m with heap := m.heap.set a { o with mapping := dset o.mapping c u } }, .ok .none, o.fire c (some u)⟩ := by
    simp only [step, setDefaultUnit, ho]
  rw [hstep]
  refine ⟨rfl, ?_, ?_, rfl, rfl, rfl, dget_dset_self _ _ _, fun c2 h => dget_dset_ne _ _ h⟩
  · simp [halt]
  · intro b hb
    have : ¬ a = b := fun e => hb e.symm
    simp [this]

/-- **ConvertToCurrent returns the amount re-expressed in the current default unit of the category,
or the input unchanged when there is none**; it never changes anything.  `db.convert` is the model of
`UnitDatabase.Convert` (C01/C02 say what it computes); the default is read from the object
`GetCurrent()` returns (`currentDefault_reads_current`). -/
theorem convertToCurrent_spec (db : Db) (m : Mgr) (c u : Sym) (x : Rat) :
    (step db m (.convertToCurrent c u x)).mgr = m ∧
    (step db m (.convertToCurrent c u x)).log = [] ∧
    (step db m (.convertToCurrent c u x)).out =
      match m.currentDefault c with
      | none => .ok (.value x u)
      | some t =>
        match db.convert c u t x with
        | .ok y => .ok (.value y t)
        | .error e => .error e := by
  refine ⟨(step_query db m (op := .convertToCurrent c u x) rfl).1,
    (step_query db m (op := .convertToCurrent c u x) rfl).2, ?_⟩
  simp only [step, convertToCurrent]
  cases m.currentDefault c with
  | none => rfl
  | some t => simp only; cases db.convert c u t x <;> rfl

/-- in a well-formed state the default unit is looked up in the mapping of the current system — the
null system (address 0, id `None`) when none is current — and a falsy category has none -/
theorem currentDefault_reads_current {m : Mgr} (hw : MgrWf m) (c : Sym) :
    ∃ o, m.heap[m.currentAddr]? = some o ∧ (m.cur = none → m.currentAddr = 0 ∧ o.id = none) ∧
      m.currentDefault c = if c = 0 then none else dget o.mapping c := by
  have hex : ∃ o, m.heap[m.currentAddr]? = some o := by
    cases hc : m.cur with
    | none =>
      obtain ⟨o, ho, _⟩ := hw.null
      exact ⟨o, by simp [Mgr.currentAddr, hc, ho]⟩
    | some a =>
      have := hw.cur_valid a hc
      exact ⟨m.heap[a], by simp [Mgr.currentAddr, hc, this]⟩
  obtain ⟨o, ho⟩ := hex
  refine ⟨o, ho, ?_, ?_⟩
  · intro hc
    obtain ⟨o0, ho0, hid0⟩ := hw.null
    have h0 : m.currentAddr = 0 := by simp [Mgr.currentAddr, hc]
    rw [h0, ho0] at ho
    cases ho
    exact ⟨h0, hid0⟩
  · simp only [Mgr.currentDefault, ho, USys.getDefaultUnit]
    by_cases h : c = 0 <;> simp [h]

/-- **`GetNewId` always returns an id that is not in use** — the first `"system N"`, N = 1, 2, …,
that is free — and changes nothing (the loop ends within `len(ids) + 1` candidates: pigeonhole over
the pairwise distinct candidates) -/
theorem getNewId_fresh (db : Db) (m : Mgr) :
    ∃ s n, (step db m .getNewId).out = .ok (.newId s) ∧ s ∉ m.reg.map (·.1) ∧
      1 ≤ n ∧ s = newIdCandidate n ∧ (∀ k, 1 ≤ k → k < n → newIdCandidate k ∈ m.reg.map (·.1)) ∧
      (step db m .getNewId).mgr = m ∧ (step db m .getNewId).log = [] := by
  obtain ⟨s, hs⟩ : ∃ s, getNewId m = some s := by
    unfold getNewId
    have := findNewId_total 1 (m.reg.map (·.1))
    simpa using this
  obtain ⟨hfresh, n, hn, hsn, hall⟩ := findNewId_some (by unfold getNewId at hs; exact hs)
  refine ⟨s, n, ?_, hfresh, hn, hsn, hall, (step_query db m (op := .getNewId) rfl).1,
    (step_query db m (op := .getNewId) rfl).2⟩
  simp [step, hs, Res.answer]

/-! ### unit systems are proper dicts; `RemoveCategory` -/

/-- every call keeps every unit system's mapping (and the template's) a proper dict: no category
occurs twice, whatever mappings the callers pass in -/
theorem step_preserves_DictsWf (db : Db) {m : Mgr} (hd : DictsWf m) (op : Op) : DictsWf (step db m op).mgr := by
  cases op with
  | setTemplate mp =>
    simp only [step, setTemplate]
    split
    · exact ⟨hd.heap, by intro t ht; cases ht; exact nodup_dofList mp⟩
    · exact hd
  | add id cap mp ro =>
    simp only [step, addUnitSystem]
    split
    · exact hd
    · split
      · exact hd
      · split
        · exact setCurrent_dictsWf (register_dictsWf hd _ _ _ _) _
        · exact register_dictsWf hd _ _ _ _
  | remove id =>
    simp only [step, removeUnitSystem]
    split
    · exact hd
    · split
      · exact setCurrent_dictsWf (m := m.unregister id) ⟨hd.heap, hd.tmpl⟩ _
      · exact ⟨hd.heap, hd.tmpl⟩
  | setCurrent a =>
    cases a with
    | none => exact setCurrent_dictsWf hd none
    | some a =>
      simp only [step]
      split
      · exact setCurrent_dictsWf hd (some a)
      · exact hd
  | setDefaultUnit a c u =>
    simp only [step, setDefaultUnit]
    split
    · exact hd
    · rename_i o ho
      exact set_dictsWf hd a (nodup_dset (hd.heap a o ho) c u)
  | removeCategory a c =>
    simp only [step, removeCategory]
    split
    · exact hd
    · rename_i o ho
      split
      · exact set_dictsWf hd a (nodup_derase (hd.heap a o ho) c)
      · exact hd
  | getDefaultUnit a c => rw [(step_query db m (op := .getDefaultUnit a c) rfl).1]; exact hd
  | sysEq a b => rw [(step_query db m (op := .sysEq a b) rfl).1]; exact hd
  | convertToCurrent c u x => rw [(step_query db m (op := .convertToCurrent c u x) rfl).1]; exact hd
  | convertScalarToCurrent c u x => rw [(step_query db m (op := .convertScalarToCurrent c u x) rfl).1]; exact hd
  | getCategoryDefaultUnit c => rw [(step_query db m (op := .getCategoryDefaultUnit c) rfl).1]; exact hd
  | getQuantityDefaultUnit c u => rw [(step_query db m (op := .getQuantityDefaultUnit c u) rfl).1]; exact hd
  | getNewId => rw [(step_query db m (op := .getNewId) rfl).1]; exact hd
  | getById id => rw [(step_query db m (op := .getById id) rfl).1]; exact hd
  | getUnitSystems => rw [(step_query db m (op := .getUnitSystems) rfl).1]; exact hd
  | getCurrent => rw [(step_query db m (op := .getCurrent) rfl).1]; exact hd
  | sysEqOther a => rw [(step_query db m (op := .sysEqOther a) rfl).1]; exact hd
  | setSystemClass ok => rw [(step_query db m (op := .setSystemClass ok) rfl).1]; exact hd
  | register c u => exact step_aux_dictsWf db hd (op := .register c u) rfl
  | registerAgain i => exact step_aux_dictsWf db hd (op := .registerAgain i) rfl
  | kill i => exact step_aux_dictsWf db hd (op := .kill i) rfl
  | objSetUnit i u => exact step_aux_dictsWf db hd (op := .objSetUnit i u) rfl
  | updateObjects => exact step_aux_dictsWf db hd (op := .updateObjects) rfl
  | resetInstance => exact step_aux_dictsWf db hd (op := .resetInstance) rfl
  | observeCurrent => exact step_aux_dictsWf db hd (op := .observeCurrent) rfl
  | observeUnit => exact step_aux_dictsWf db hd (op := .observeUnit) rfl
  | setCaption a cap => exact step_aux_dictsWf db hd (op := .setCaption a cap) rfl
  | setReadOnly a b => exact step_aux_dictsWf db hd (op := .setReadOnly a b) rfl

/-- after ANY history from a fresh manager -/
theorem reachable_DictsWf (db : Db) (ops : List Op) : DictsWf (run db Mgr.init ops) := by
  have : ∀ (ops : List Op) (m : Mgr), DictsWf m → DictsWf (run db m ops) := by
    intro ops
    induction ops with
    | nil => intro m h; exact h
    | cons op ops ih => intro m h; exact ih _ (step_preserves_DictsWf db h op)
  exact this ops _ init_dictsWf

/-- `system.RemoveCategory(category)` for a category the system has: afterwards the system has no
default unit for it, every other category keeps its default, and no other object changes -/
theorem removeCategory_effect (db : Db) {m : Mgr} (hd : DictsWf m) {a : Nat} {o : USys}
    (ho : m.heap[a]? = some o) {c : Sym} (hc : c ∈ dkeys o.mapping) :
    ∃ o', (step db m (.removeCategory a c)).mgr.heap[a]? = some o' ∧
      o'.getDefaultUnit c = none ∧
      (∀ c2, c2 ≠ c → o'.getDefaultUnit c2 = o.getDefaultUnit c2) ∧
      (∀ b, b ≠ a → (step db m (.removeCategory a c)).mgr.heap[b]? = m.heap[b]?) := by
  have halt : a < m.heap.length := by
    rcases Nat.lt_or_ge a m.heap.length with h' | h'
    · exact h'
    · rw [List.getElem?_eq_none h'] at ho; cases ho
  have hh : dhas o.mapping c = true := (dhas_iff _ _).mpr hc
  have hstep : step db m (.removeCategory a c) =
      ⟨{ m with heap := m.heap.set a { o with mapping := derase o.mapping c } }, .ok .none, o.fire c none⟩ := by
    simp only [step, removeCategory, ho, hh, ↓reduceIte]
  rw [hstep]
  refine ⟨{ o with mapping := derase o.mapping c }, by simp [halt], ?_, ?_, ?_⟩
  · simp only [USys.getDefaultUnit]
    split
    · rfl
    · exact dget_derase_self (hd.heap a o ho) c
  · intro c2 h2
    simp only [USys.getDefaultUnit]
    split
    · rfl
    · exact dget_derase_ne _ h2
  · intro b hb
    have : ¬ a = b := fun e => hb e.symm
    simp [this]

/-- `RemoveCategory` of a category the system does not have does nothing (the `KeyError` is swallowed) -/
theorem removeCategory_absent (db : Db) {m : Mgr} {a : Nat} {o : USys} (ho : m.heap[a]? = some o) {c : Sym}
    (hc : c ∉ dkeys o.mapping) :
    (step db m (.removeCategory a c)).mgr = m ∧ (step db m (.removeCategory a c)).log = [] ∧
    (step db m (.removeCategory a c)).out = .ok .none := by
  have hh : dhas o.mapping c = false := by
    cases h : dhas o.mapping c with
    | false => rfl
    | true => exact absurd ((dhas_iff _ _).mp h) hc
  have hstep : step db m (.removeCategory a c) = Res.answer m .none := by
    simp only [step, removeCategory, ho, hh, Bool.false_eq_true, ↓reduceIte]
  rw [hstep]
  exact ⟨rfl, rfl, rfl⟩

/-! ### value objects registered with the manager (`Register`, `UpdateObjects`, weak references) -/

/-- every call keeps `_object_refs` clean: a live registered object has at least one wrap, an object
that died has none left (its `_OnRefKilled` callbacks removed them all) -/
theorem step_preserves_ObjsWf (db : Db) {m : Mgr} (h : ObjsWf m) (op : Op) : ObjsWf (step db m op).mgr := by
  cases op with
  | setTemplate mp =>
    simp only [step, setTemplate]
    split <;> exact h
  | add id cap mp ro =>
    simp only [step, addUnitSystem]
    split
    · exact h
    · split
      · exact h
      · split
        · exact setCurrent_objsWf (m := m.register _ _ _ _) h _
        · exact h
  | remove id =>
    simp only [step, removeUnitSystem]
    split
    · exact h
    · split
      · exact setCurrent_objsWf (m := m.unregister id) h _
      · exact h
  | setCurrent a =>
    cases a with
    | none => exact setCurrent_objsWf h none
    | some a =>
      simp only [step]
      split
      · exact setCurrent_objsWf h (some a)
      · exact h
  | setDefaultUnit a c u =>
    simp only [step, setDefaultUnit]
    split <;> exact h
  | removeCategory a c =>
    simp only [step, removeCategory]
    split
    · exact h
    · split <;> exact h
  | getDefaultUnit a c => rw [(step_query db m (op := .getDefaultUnit a c) rfl).1]; exact h
  | sysEq a b => rw [(step_query db m (op := .sysEq a b) rfl).1]; exact h
  | convertToCurrent c u x => rw [(step_query db m (op := .convertToCurrent c u x) rfl).1]; exact h
  | convertScalarToCurrent c u x => rw [(step_query db m (op := .convertScalarToCurrent c u x) rfl).1]; exact h
  | getCategoryDefaultUnit c => rw [(step_query db m (op := .getCategoryDefaultUnit c) rfl).1]; exact h
  | getQuantityDefaultUnit c u => rw [(step_query db m (op := .getQuantityDefaultUnit c u) rfl).1]; exact h
  | getNewId => rw [(step_query db m (op := .getNewId) rfl).1]; exact h
  | getById id => rw [(step_query db m (op := .getById id) rfl).1]; exact h
  | getUnitSystems => rw [(step_query db m (op := .getUnitSystems) rfl).1]; exact h
  | getCurrent => rw [(step_query db m (op := .getCurrent) rfl).1]; exact h
  | sysEqOther a => rw [(step_query db m (op := .sysEqOther a) rfl).1]; exact h
  | setSystemClass ok => rw [(step_query db m (op := .setSystemClass ok) rfl).1]; exact h
  | register c u => exact step_aux_objsWf db h (op := .register c u) rfl
  | registerAgain i => exact step_aux_objsWf db h (op := .registerAgain i) rfl
  | kill i => exact step_aux_objsWf db h (op := .kill i) rfl
  | objSetUnit i u => exact step_aux_objsWf db h (op := .objSetUnit i u) rfl
  | updateObjects => exact step_aux_objsWf db h (op := .updateObjects) rfl
  | resetInstance => exact step_aux_objsWf db h (op := .resetInstance) rfl
  | observeCurrent => exact step_aux_objsWf db h (op := .observeCurrent) rfl
  | observeUnit => exact step_aux_objsWf db h (op := .observeUnit) rfl
  | setCaption a cap => exact step_aux_objsWf db h (op := .setCaption a cap) rfl
  | setReadOnly a b => exact step_aux_objsWf db h (op := .setReadOnly a b) rfl

/-- after ANY history from a fresh manager no wrap of a dead object is left -/
theorem reachable_ObjsWf (db : Db) (ops : List Op) : ObjsWf (run db Mgr.init ops) := by
  have : ∀ (ops : List Op) (m : Mgr), ObjsWf m → ObjsWf (run db m ops) := by
    intro ops
    induction ops with
    | nil => intro m h; exact h
    | cons op ops ih => intro m h; exact ih _ (step_preserves_ObjsWf db h op)
  exact this ops _ init_objsWf

/-- the calls whose subject is a value object (or `UpdateObjects()` itself) -/
def Op.isObjectOp : Op → Bool
  | .register .. | .registerAgain .. | .kill .. | .objSetUnit .. | .updateObjects => true
  | _ => false

/-- **registered objects are updated exactly when `on_current` fires, and to what the new current system
says**: for every call that is not itself about a value object — accepted or rejected — the objects
afterwards are the objects before, each brought to the NEW current system if `on_current` was invoked
during the call (nothing changes when that is the null system), and untouched otherwise.  In particular
an `on_unit_changed` notification (`SetDefaultUnit` / `RemoveCategory` on the current system) does NOT
reach the objects: the code calls `UpdateObjects` from `SetCurrent` only. -/
theorem objects_follow_on_current (db : Db) {m : Mgr} (hw : MgrWf m) (op : Op) (hop : op.isObjectOp = false) :
    (step db m op).mgr.objs =
      if (step db m op).log.any Event.isCurrent then
        m.objs.map (fun o => { o with unit := specUnit (step db m op).mgr o })
      else m.objs := by
  have hw' := step_preserves_MgrWf db hw op
  cases op with
  | setTemplate mp =>
    apply follow_of_silent
    · simp only [step, setTemplate]; split <;> rfl
    · simp only [step, setTemplate]; split <;> rfl
  | add id cap mp ro =>
    by_cases h1 : regHas m.reg id = true
    · apply follow_of_silent <;> simp [step, addUnitSystem, h1, Res.reject]
    · have h1' : regHas m.reg id = false := by simpa using h1
      cases h2 : resolveMapping m.tmpl mp with
      | error e => apply follow_of_silent <;> simp [step, addUnitSystem, h1', h2, Res.reject]
      | ok d =>
        have hs := addUnitSystem_accepted (id := id) (cap := cap) (ro := ro) h1' h2
        cases hc : m.cur with
        | none =>
          simp only [hc] at hs
          exact follow_of_setCurrent (m0 := m.register id cap d ro) (x := some m.heap.length) hw' rfl
            (by simp only [step]; rw [hs]) (by simp only [step]; rw [hs])
        | some c =>
          simp only [hc] at hs
          apply follow_of_silent
          · simp only [step]; rw [hs]; rfl
          · simp only [step]; rw [hs]; rfl
  | remove id =>
    by_cases h1 : regHas m.reg id = true
    · by_cases h2 : (m.cur.isSome && m.currentId == some id) = true
      · exact follow_of_setCurrent (m0 := m.unregister id) (x := nextCurrent (m.unregister id).reg) hw' rfl
          (by simp only [step, removeUnitSystem, h1, h2, Bool.not_true, Bool.false_eq_true, ↓reduceIte])
          (by simp only [step, removeUnitSystem, h1, h2, Bool.not_true, Bool.false_eq_true, ↓reduceIte])
      · apply follow_of_silent <;>
          simp only [step, removeUnitSystem, h1, h2, Bool.not_true, Bool.false_eq_true, ↓reduceIte] <;> rfl
    · have h1' : regHas m.reg id = false := by simpa using h1
      apply follow_of_silent <;> simp [step, removeUnitSystem, h1', Res.reject]
  | setCurrent a =>
    cases a with
    | none => exact follow_of_setCurrent (m0 := m) (x := none) hw' rfl rfl rfl
    | some a =>
      by_cases h : a < m.heap.length
      · exact follow_of_setCurrent (m0 := m) (x := some a) hw' rfl
          (by simp only [step, h, ↓reduceIte]) (by simp only [step, h, ↓reduceIte])
      · apply follow_of_silent <;> simp [step, h, Res.reject]
  | setDefaultUnit a c u =>
    apply follow_of_silent
    · simp only [step, setDefaultUnit]; split <;> rfl
    · simp only [step, setDefaultUnit]
      split
      · rfl
      · simp only [USys.fire]; split <;> rfl
  | removeCategory a c =>
    apply follow_of_silent
    · simp only [step, removeCategory]
      split
      · rfl
      · split <;> rfl
    · simp only [step, removeCategory]
      split
      · rfl
      · split
        · simp only [USys.fire]; split <;> rfl
        · rfl
  | getDefaultUnit a c =>
    apply follow_of_silent <;> simp [(step_query db m (op := .getDefaultUnit a c) rfl)]
  | sysEq a b => apply follow_of_silent <;> simp [(step_query db m (op := .sysEq a b) rfl)]
  | convertToCurrent c u x =>
    apply follow_of_silent <;> simp [(step_query db m (op := .convertToCurrent c u x) rfl)]
  | convertScalarToCurrent c u x =>
    apply follow_of_silent <;> simp [(step_query db m (op := .convertScalarToCurrent c u x) rfl)]
  | getCategoryDefaultUnit c =>
    apply follow_of_silent <;> simp [(step_query db m (op := .getCategoryDefaultUnit c) rfl)]
  | getQuantityDefaultUnit c u =>
    apply follow_of_silent <;> simp [(step_query db m (op := .getQuantityDefaultUnit c u) rfl)]
  | getNewId => apply follow_of_silent <;> simp [(step_query db m (op := .getNewId) rfl)]
  | getById id => apply follow_of_silent <;> simp [(step_query db m (op := .getById id) rfl)]
  | getUnitSystems => apply follow_of_silent <;> simp [(step_query db m (op := .getUnitSystems) rfl)]
  | getCurrent => apply follow_of_silent <;> simp [(step_query db m (op := .getCurrent) rfl)]
  | sysEqOther a => apply follow_of_silent <;> simp [(step_query db m (op := .sysEqOther a) rfl)]
  | setSystemClass ok => apply follow_of_silent <;> simp [(step_query db m (op := .setSystemClass ok) rfl)]
  | register c u => simp [Op.isObjectOp] at hop
  | registerAgain i => simp [Op.isObjectOp] at hop
  | kill i => simp [Op.isObjectOp] at hop
  | objSetUnit i u => simp [Op.isObjectOp] at hop
  | updateObjects => simp [Op.isObjectOp] at hop
  | resetInstance => apply follow_of_silent <;> rfl
  | observeCurrent => apply follow_of_silent <;> rfl
  | observeUnit => apply follow_of_silent <;> rfl
  | setCaption a cap =>
    apply follow_of_silent
    · simp only [step, setCaption]; split <;> rfl
    · simp only [step, setCaption]; split <;> rfl
  | setReadOnly a b =>
    apply follow_of_silent
    · simp only [step, setReadOnly]; split <;> rfl
    · simp only [step, setReadOnly]; split <;> rfl

/-- `Register(obj)` with an object the manager has not seen: it is remembered (one wrap) and brought to
the current system at once; nothing else changes and no callback is invoked -/
theorem register_spec (db : Db) {m : Mgr} (hw : MgrWf m) (c u : Sym) :
    step db m (.register c u) =
      ⟨{ m with objs := m.objs ++ [{ cat := c, unit := specUnit m ⟨c, u, 1, true⟩, wraps := 1, alive := true }] },
       .ok .none, []⟩ := by
  simp only [step, registerNew, refresh_curSys_spec hw]

/-- `Register(obj)` of a live object again: one MORE wrap (the wraps are never merged), the object is
brought to the current system, nothing else changes -/
theorem registerAgain_spec (db : Db) {m : Mgr} (hw : MgrWf m) {i : Nat} {o : VObj} (ho : m.objs[i]? = some o)
    (ha : o.alive = true) :
    step db m (.registerAgain i) =
      ⟨{ m with objs := m.objs.set i { o with unit := specUnit m o, wraps := o.wraps + 1 } }, .ok .none, []⟩ := by
  have hsp : specUnit m { cat := o.cat, unit := o.unit, wraps := o.wraps + 1, alive := true } = specUnit m o := by
    simp [specUnit, ha]
  simp only [step, registerAgain, ho, ha, ↓reduceIte, refresh_curSys_spec hw, hsp]

/-- a direct `UpdateObjects()` brings every object to the current system and does nothing else -/
theorem updateObjects_spec (db : Db) {m : Mgr} (hw : MgrWf m) :
    step db m .updateObjects =
      ⟨{ m with objs := m.objs.map (fun o => { o with unit := specUnit m o }) }, .ok .none, []⟩ := by
  have hfun : (fun o => ({ o with unit := specUnit m o } : VObj)) = VObj.refresh m.curSys := by
    funext o; exact (refresh_curSys_spec hw o).symm
  rw [hfun]
  rfl

/-- when the caller drops an object, all its wraps leave `_object_refs` and nothing else changes -/
theorem kill_spec (db : Db) {m : Mgr} {i : Nat} {o : VObj} (ho : m.objs[i]? = some o) :
    step db m (.kill i) = ⟨{ m with objs := m.objs.set i { o with wraps := 0, alive := false } }, .ok .none, []⟩ := by
  simp only [step, killObj, ho]

/-- **an object that died is dropped**: no call whatsoever changes anything about it afterwards -/
theorem dead_object_is_never_touched (db : Db) {m : Mgr} (hw : MgrWf m) (hobj : ObjsWf m) (op : Op) {i : Nat}
    {o : VObj} (hi : m.objs[i]? = some o) (hd : o.alive = false) : (step db m op).mgr.objs[i]? = some o := by
  have hspec : ∀ m' : Mgr, ({ o with unit := specUnit m' o } : VObj) = o := by
    intro m'; cases o; simp_all [specUnit]
  have hrefresh : ∀ s, VObj.refresh s o = o := by
    intro s
    cases s with
    | none => rfl
    | some s => simp [VObj.refresh, VObj.update, hd]
  have hilt : i < m.objs.length := by
    rcases Nat.lt_or_ge i m.objs.length with h | h
    · exact h
    · rw [List.getElem?_eq_none h] at hi; cases hi
  by_cases hop : op.isObjectOp = false
  · rw [objects_follow_on_current db hw op hop]
    split
    · rw [List.getElem?_map, hi]; simp [hspec]
    · exact hi
  · cases op <;> simp only [Op.isObjectOp, not_true_eq_false] at hop
    case register c u =>
      simp only [step, registerNew]
      rw [List.getElem?_append_left hilt]; exact hi
    case registerAgain j =>
      simp only [step, registerAgain]
      split
      · exact hi
      · rename_i o' ho'
        split
        · rename_i hal
          have hne : j ≠ i := by
            intro e; subst e; rw [hi] at ho'; cases ho'; rw [hd] at hal; cases hal
          simp only [List.getElem?_set_ne hne]; exact hi
        · exact hi
    case kill j =>
      simp only [step, killObj]
      split
      · exact hi
      · rename_i o' ho'
        by_cases hji : j = i
        · subst hji
          rw [hi] at ho'; cases ho'
          have hw0 : o.wraps = 0 := (hobj o (List.mem_of_getElem? hi)).2 hd
          simp only [List.getElem?_set_self hilt]
          cases o; simp_all
        · simp only [List.getElem?_set_ne hji]; exact hi
    case objSetUnit j u =>
      simp only [step, objSetUnit]
      split
      · exact hi
      · rename_i o' ho'
        split
        · rename_i hal
          have hne : j ≠ i := by
            intro e; subst e; rw [hi] at ho'; cases ho'; rw [hd] at hal; cases hal
          simp only [List.getElem?_set_ne hne]; exact hi
        · exact hi
    case updateObjects =>
      simp only [step, updateObjects_objs]
      rw [List.getElem?_map, hi]; simp [hrefresh]

/-- … and so after any further history -/
theorem run_dead_object_is_never_touched (db : Db) (ops : List Op) {m : Mgr} (hw : MgrWf m) (hobj : ObjsWf m)
    {i : Nat} {o : VObj} (hi : m.objs[i]? = some o) (hd : o.alive = false) : (run db m ops).objs[i]? = some o := by
  induction ops generalizing m with
  | nil => exact hi
  | cons op ops ih =>
    exact ih (step_preserves_MgrWf db hw op) (step_preserves_ObjsWf db hobj op)
      (dead_object_is_never_touched db hw hobj op hi hd)

/-- what the code does on a default-unit change: `SetDefaultUnit` / `RemoveCategory` — on the current
system or on any other — leave every registered object as it is (only `on_unit_changed` is invoked) -/
theorem default_unit_change_keeps_objects (db : Db) (m : Mgr) (a : Nat) (c u : Sym) :
    (step db m (.setDefaultUnit a c u)).mgr.objs = m.objs ∧ (step db m (.removeCategory a c)).mgr.objs = m.objs := by
  constructor
  · simp only [step, setDefaultUnit]; split <;> rfl
  · simp only [step, removeCategory]
    split
    · rfl
    · split <;> rfl

/-- … until the next `UpdateObjects()`: after `current.SetDefaultUnit(c, u)` for a non-empty category, a
following `UpdateObjects()` gives `u` to every live object of category `c` -/
theorem updateObjects_propagates_default (db : Db) {m : Mgr} (hw : MgrWf m) {a : Nat} (hc : m.cur = some a)
    {c : Sym} (hc0 : c ≠ 0) (u : Sym) {i : Nat} {o : VObj} (hi : m.objs[i]? = some o) (hal : o.alive = true)
    (hcat : o.cat = c) :
    (run db m [.setDefaultUnit a c u, .updateObjects]).objs[i]? = some { o with unit := u } := by
  have halt := hw.cur_valid a hc
  have hs : m.heap[a]? = some m.heap[a] := List.getElem?_eq_getElem halt
  have h1 : (step db m (.setDefaultUnit a c u)).mgr =
      { m with heap := m.heap.set a { m.heap[a] with mapping := dset m.heap[a].mapping c u } } := by
    simp only [step, setDefaultUnit, hs]
  simp only [run]
  rw [h1]
  simp only [step, updateObjects_objs]
  rw [List.getElem?_map, hi]
  have hcur : ({ m with heap := m.heap.set a { m.heap[a] with mapping := dset m.heap[a].mapping c u } } : Mgr).curSys
      = some { m.heap[a] with mapping := dset m.heap[a].mapping c u } := by
    simp [Mgr.curSys, hc, halt]
  rw [hcur]
  have hc0' : (c == 0) = false := by simpa using hc0
  simp [VObj.refresh, VObj.update, hal, hcat, USys.getDefaultUnit, hc0', dget_dset_self]

/-- right after a `SetCurrent` the objects are up to date: a direct `UpdateObjects()` changes nothing -/
theorem updateObjects_after_setCurrent_id (m : Mgr) (x : Option Nat) :
    updateObjects (setCurrent m x).1 = (setCurrent m x).1 := by
  have h : (setCurrent m x).1.objs.map (VObj.refresh (setCurrent m x).1.curSys) = (setCurrent m x).1.objs := by
    rw [setCurrent_objs, List.map_map]
    apply List.map_congr_left
    intro o _
    exact refresh_idem _ o
  unfold updateObjects
  rw [h]

/-! ### observers: `ResetInstance` and what a listener receives -/

/-- `ResetInstance()` unregisters the listeners of both callbacks of the manager and nothing else: the
registry, the current system, the manager's own listener on the current system, the template and the
registered objects stay -/
theorem resetInstance_spec (db : Db) (m : Mgr) :
    step db m .resetInstance = ⟨{ m with obsCur := false, obsUnit := false }, .ok .none, []⟩ := rfl

/-- **what an observer receives** of a call is the part of the prescribed notifications (`specLog`, see
`notify_exact`) whose callback it is registered on; nothing for a rejected call -/
theorem seen_exact (db : Db) {m : Mgr} (hw : MgrWf m) (op : Op) :
    seen m (step db m op).log =
      match (step db m op).out with
      | .ok _ => seen m (specLog m (step db m op).mgr op)
      | .error _ => [] := by
  rw [notify_exact db hw op]
  split <;> rfl

/-- registered on both callbacks, the observer receives every invocation -/
theorem seen_all_of_observed {m : Mgr} (h1 : m.obsCur = true) (h2 : m.obsUnit = true) (l : List Event) :
    seen m l = l := by
  unfold seen
  rw [List.filter_eq_self]
  intro e _
  cases e <;> simp [Event.seenBy, h1, h2]

/-- registered on neither, it receives nothing -/
theorem seen_nil_of_unobserved {m : Mgr} (h1 : m.obsCur = false) (h2 : m.obsUnit = false) (l : List Event) :
    seen m l = [] := by
  unfold seen
  rw [List.filter_eq_nil_iff]
  intro e _
  cases e <;> simp [Event.seenBy, h1, h2]

/-- the calls that register or unregister observers -/
def Op.isObserverOp : Op → Bool
  | .resetInstance | .observeCurrent | .observeUnit => true
  | _ => false

/-- no other call registers or unregisters a listener of the manager's callbacks -/
theorem observers_frame (db : Db) (m : Mgr) (op : Op) (hop : op.isObserverOp = false) :
    (step db m op).mgr.obsCur = m.obsCur ∧ (step db m op).mgr.obsUnit = m.obsUnit := by
  cases op with
  | setTemplate mp => simp only [step, setTemplate]; split <;> exact ⟨rfl, rfl⟩
  | add id cap mp ro =>
    simp only [step, addUnitSystem]
    split
    · exact ⟨rfl, rfl⟩
    · split
      · exact ⟨rfl, rfl⟩
      · split
        · exact ⟨setCurrent_obsCur _ _, setCurrent_obsUnit _ _⟩
        · exact ⟨rfl, rfl⟩
  | remove id =>
    simp only [step, removeUnitSystem]
    split
    · exact ⟨rfl, rfl⟩
    · split
      · exact ⟨setCurrent_obsCur _ _, setCurrent_obsUnit _ _⟩
      · exact ⟨rfl, rfl⟩
  | setCurrent a =>
    cases a with
    | none => exact ⟨setCurrent_obsCur _ _, setCurrent_obsUnit _ _⟩
    | some a =>
      simp only [step]
      split
      · exact ⟨setCurrent_obsCur _ _, setCurrent_obsUnit _ _⟩
      · exact ⟨rfl, rfl⟩
  | setDefaultUnit a c u => simp only [step, setDefaultUnit]; split <;> exact ⟨rfl, rfl⟩
  | removeCategory a c =>
    simp only [step, removeCategory]
    split
    · exact ⟨rfl, rfl⟩
    · split <;> exact ⟨rfl, rfl⟩
  | getDefaultUnit a c => rw [(step_query db m (op := .getDefaultUnit a c) rfl).1]; exact ⟨rfl, rfl⟩
  | sysEq a b => rw [(step_query db m (op := .sysEq a b) rfl).1]; exact ⟨rfl, rfl⟩
  | convertToCurrent c u x => rw [(step_query db m (op := .convertToCurrent c u x) rfl).1]; exact ⟨rfl, rfl⟩
  | convertScalarToCurrent c u x =>
    rw [(step_query db m (op := .convertScalarToCurrent c u x) rfl).1]; exact ⟨rfl, rfl⟩
  | getCategoryDefaultUnit c => rw [(step_query db m (op := .getCategoryDefaultUnit c) rfl).1]; exact ⟨rfl, rfl⟩
  | getQuantityDefaultUnit c u => rw [(step_query db m (op := .getQuantityDefaultUnit c u) rfl).1]; exact ⟨rfl, rfl⟩
  | getNewId => rw [(step_query db m (op := .getNewId) rfl).1]; exact ⟨rfl, rfl⟩
  | getById id => rw [(step_query db m (op := .getById id) rfl).1]; exact ⟨rfl, rfl⟩
  | getUnitSystems => rw [(step_query db m (op := .getUnitSystems) rfl).1]; exact ⟨rfl, rfl⟩
  | getCurrent => rw [(step_query db m (op := .getCurrent) rfl).1]; exact ⟨rfl, rfl⟩
  | sysEqOther a => rw [(step_query db m (op := .sysEqOther a) rfl).1]; exact ⟨rfl, rfl⟩
  | setSystemClass ok => rw [(step_query db m (op := .setSystemClass ok) rfl).1]; exact ⟨rfl, rfl⟩
  | register c u => exact ⟨rfl, rfl⟩
  | registerAgain i =>
    simp only [step, registerAgain]
    split
    · exact ⟨rfl, rfl⟩
    · split <;> exact ⟨rfl, rfl⟩
  | kill i => simp only [step, killObj]; split <;> exact ⟨rfl, rfl⟩
  | objSetUnit i u =>
    simp only [step, objSetUnit]
    split
    · exact ⟨rfl, rfl⟩
    · split <;> exact ⟨rfl, rfl⟩
  | updateObjects => exact ⟨rfl, rfl⟩
  | resetInstance => simp [Op.isObserverOp] at hop
  | observeCurrent => simp [Op.isObserverOp] at hop
  | observeUnit => simp [Op.isObserverOp] at hop
  | setCaption a cap => simp only [step, setCaption]; split <;> exact ⟨rfl, rfl⟩
  | setReadOnly a b => simp only [step, setReadOnly]; split <;> exact ⟨rfl, rfl⟩

/-- **after `ResetInstance()` an observer receives nothing** — whatever happens to the manager — until
it registers again -/
theorem reset_silences (db : Db) (m : Mgr) (ops : List Op)
    (hno : ∀ op ∈ ops, op.isObserverOp = false) : runSeen db (step db m .resetInstance).mgr ops = [] := by
  have : ∀ (ops : List Op) (m' : Mgr), m'.obsCur = false → m'.obsUnit = false →
      (∀ op ∈ ops, op.isObserverOp = false) → runSeen db m' ops = [] := by
    intro ops
    induction ops with
    | nil => intro _ _ _ _; rfl
    | cons op ops ih =>
      intro m' h1 h2 hn
      have hf := observers_frame db m' op (hn op (by simp))
      simp only [runSeen, seen_nil_of_unobserved h1 h2, List.nil_append]
      exact ih _ (hf.1.trans h1) (hf.2.trans h2) (fun o ho => hn o (by simp [ho]))
  exact this ops _ rfl rfl hno

/-! ### caption and read-only flag of a unit system -/

/-- `system.SetCaption(caption)` changes that one field of that one object; nobody is notified -/
theorem setCaption_frame (db : Db) {m : Mgr} {a : Nat} {o : USys} (ho : m.heap[a]? = some o) (cap : Sym) :
    step db m (.setCaption a cap) = ⟨{ m with heap := m.heap.set a { o with caption := cap } }, .ok .none, []⟩ := by
  simp only [step, setCaption, ho]

/-- `system.SetReadOnly(flag)` changes that one field of that one object; nobody is notified -/
theorem setReadOnly_frame (db : Db) {m : Mgr} {a : Nat} {o : USys} (ho : m.heap[a]? = some o) (b : Bool) :
    step db m (.setReadOnly a b) = ⟨{ m with heap := m.heap.set a { o with readOnly := b } }, .ok .none, []⟩ := by
  simp only [step, setReadOnly, ho]

/-- what the code does with the flag: nothing.  A read-only system (the null system included) accepts
`SetDefaultUnit` and `RemoveCategory` like any other, and its mapping changes -/
theorem readOnly_is_not_enforced (db : Db) {m : Mgr} {a : Nat} {o : USys} (ho : m.heap[a]? = some o)
    (_hro : o.readOnly = true) (c u : Sym) :
    (step db m (.setDefaultUnit a c u)).out = .ok .none ∧
    (step db m (.setDefaultUnit a c u)).mgr.heap[a]? = some { o with mapping := dset o.mapping c u } ∧
    (step db m (.removeCategory a c)).out = .ok .none ∧
    (step db m (.removeCategory a c)).mgr.heap[a]? =
      some (if dhas o.mapping c then { o with mapping := derase o.mapping c } else o) := by
  have halt : a < m.heap.length := by
    rcases Nat.lt_or_ge a m.heap.length with h' | h'
    · exact h'
    · rw [List.getElem?_eq_none h'] at ho; cases ho
  have h := setDefaultUnit_frame db ho c u
  refine ⟨h.1, h.2.1, ?_, ?_⟩
  · simp only [step, removeCategory, ho]; split <;> rfl
  · simp only [step, removeCategory, ho]
    split
    · simp [halt]
    · simpa [Res.answer] using ho

/-! ### the error classes of the module -/

/-- a rejected `SetTemplateUnitSystemByUnitsMapping` is an `InvalidTemplateError` (a `RuntimeError`) that
NAMES at least one registered system: the message branch for an empty list (unit_system_manager.py line
56) cannot be reached through the manager; and no call raises `NoTemplateError`
(`add_rejected_is_key_error`: a missing template is not an error, lines 36-37) -/
theorem template_rejected_names_a_system (db : Db) (m : Mgr) (mp : List (Sym × Sym)) {e : ErrKind}
    (h : (step db m (.setTemplate mp)).out = .error e) : e = .runtime ∧ invalidSystems m (dkeys mp) ≠ [] := by
  simp only [step, setTemplate] at h
  split at h
  · cases h
  · rename_i hc
    simp only [Res.reject] at h
    cases h
    refine ⟨rfl, ?_⟩
    intro hnil
    rw [hnil] at hc
    exact hc rfl

/-! ### non-vacuity: concrete histories meet the hypotheses above

ids: 97 = "a", 98 = "b"; captions 65 = "A", 66 = "B"; categories/units are spelled with `Sym.ofString`
only where the shipped table is consulted. -/

/-- a database with nothing in it (the manager calls below never consult it) -/
def db0 : Db := ⟨[], [], []⟩

/-- add "a", add "b": "a" became current when it was added, "b" did not -/
def twoSystems : Mgr := run db0 Mgr.init [.add 97 65 (some [(1, 2)]) false, .add 98 66 none true]

-- a guarded history that does select systems, and one that is not guarded
-- `add_first_becomes_current` / `add_keeps_current`
-- `remove_current_selects_next_or_none`: removing the current "a" selects "b"; removing the last one selects none
-- `remove_other_keeps_current`
-- acceptance: duplicate id, mapping that misses a template category, template that a system misses
-- `notify_exact`: a default-unit change on the current system is notified, on another system it is not
-- `GetNewId` skips ids in use: "system 1" taken → "system 2"
-- `convertToCurrent_spec` on the shipped table: 1500 m with default `km` → 3/2 km; no default → unchanged;
-- a default of another quantity type → units error
end Barril.Mgr
