/- Non-vacuity examples of C01 (moved out of Props/C01.lean by tools/split_examples.py: they evaluate
concrete instances, many over the regenerated tables, and must not be able to stop the theorem module from
building).  Not property theorems: the check builds this module separately and only records the outcome. -/
import Barril.Props.C01
import Barril.Proofs.ConvLemmas
import Barril.Gen.ThmWfPosc
import Barril.Gen.ThmWfNocat
import Barril.Gen.ThmWfSimple
import Barril.Gen.ThmAnnPosc
import Barril.Gen.ThmAnnNocat
import Barril.Gen.ThmAnnSimple

namespace Barril
open Barril.Gen

example : poscDb.convert (Sym.ofString "length") (Sym.ofString "ft") (Sym.ofString "m") 1
    = .ok (R 3048 10000) := by decide +kernel
example : poscDb.convert (Sym.ofString "temperature") (Sym.ofString "degF") (Sym.ofString "degC") 212
    = .ok 100 := by decide +kernel
example : poscDb.convert (Sym.ofString "pressure") (Sym.ofString "psig") (Sym.ofString "Pa") 0
    = .ok 101325 := by decide +kernel
example : simpleDb.convert (Sym.ofString "length") (Sym.ofString "km") (Sym.ofString "cm") 2
    = .ok 200000 := by decide +kernel

end Barril
