/-
C04 — multiply/divide: dimension exponents add, base-unit magnitudes multiply.

Property theorems only, about `Alg.opNew` (`_DoOperationResultingInNewQuantity`: Multiply, Divide,
FloorDivide) and `Alg.pow` (`Scalar.__pow__`) of Barril/Model/Alg.lean, for EVERY database whose rows are
well-formed (`Db.AllWF`, proved for the three shipped databases in Props/C01 from the regenerated tables), all
operand shapes (entry lists of any length, several categories and several units per quantity type, any
integer exponents) and all rational values.  Helper lemmas: Barril/Proofs/AlgLemmas.lean; the key one is
`matchOne_spec`/`matchQuantities_spec`, the invariant of the matching loop by induction over the entry list.

Vocabulary (AlgLemmas): `dim db qt es` = sum of the exponents of the categories of quantity type `qt`;
`mag db es` = Π slope(unit)^exp; `baseMag db q v` = v · mag; `Known db q` = every unit of `q` is a table unit
of the quantity type of its category; `ScaleOnlyQ db q` = no unit of `q` has an offset (the property speaks
about scale-only units); `Scales db q1 q2` = the right operand is not of the simple shape (one entry with
exponent 1) or neither operand has a unit with an offset: then the matching scales (since the repair of
`_ConvertMatchingExp` every entry of a derived operand is scaled, offsets or not); `unitTotal u es` = the joined exponent of unit `u`;
`typeExps db es` (Model/AlgType.lean) = `rep_and_exp` of `Quantity.__init__`, the list the quantity-type string
(`GetQuantityType()`) is written from; `expOf qt l` = the exponent that list holds for `qt`; `reportedTypes` = its
entries with a non-zero exponent (what `_MakeStr` writes).
-/
import Barril.Proofs.AlgLemmas
import Barril.Proofs.AlgTypeLemmas
import Barril.Props.C01

namespace Barril.Alg
open Barril Barril.Gen

/-! ### exponents add -/

/-- **a*b: the exponent of every quantity type is the sum of the operands' exponents** -/
theorem mul_dim {db : Db} (hdb : db.AllWF) {q1 q2 q : Quantity} {v1 v2 v : Rat} (h1 : Known db q1) (h2 : Known db q2)
    (h : opNew db .mul q1 q2 v1 v2 = .ok (q, v)) (qt : Sym) :
    dim db qt q.entries = dim db qt q1.entries + dim db qt q2.entries := by
  have := (opNew_spec hdb (fun _ => True) h1 h2 (fun _ _ => trivial) (fun _ _ => trivial) h).1 qt
  simpa [sgn] using this

/-- **a/b: … the difference** -/
theorem div_dim {db : Db} (hdb : db.AllWF) {q1 q2 q : Quantity} {v1 v2 v : Rat} (h1 : Known db q1) (h2 : Known db q2)
    (h : opNew db .div q1 q2 v1 v2 = .ok (q, v)) (qt : Sym) :
    dim db qt q.entries = dim db qt q1.entries - dim db qt q2.entries := by
  have := (opNew_spec hdb (fun _ => True) h1 h2 (fun _ _ => trivial) (fun _ _ => trivial) h).1 qt
  simp only [sgn] at this; rw [this]; ring

/-- **a//b: the same quantity as a/b** (same matching, same merge, same deletion: only the value differs) -/
theorem floordiv_quantity (db : Db) (q1 q2 : Quantity) (v1 v2 : Rat) :
    (opNew db .floordiv q1 q2 v1 v2).map Prod.fst = (opNew db .div q1 q2 v1 v2).map Prod.fst := by
  have he : expOp .floordiv = expOp .div := by funext a b; rfl
  unfold opNew
  rw [he]
  cases matchQuantities db q1.entries q2.entries v1 v2 with
  | error e => rfl
  | ok r =>
    obtain ⟨e1, e2, w1, w2⟩ := r
    simp only
    cases mergeAll (expOp .div) e1 e2 with
    | error e => rfl
    | ok m =>
      simp only
      cases createDerived db (dropZero m) with
      | error e => rfl
      | ok q =>
        simp only [applyNew]
        by_cases hw : w2 = 0 <;> simp [hw, Except.map]

/-- **zero exponents disappear**: in a result no entry has exponent 0, no unit has joined exponent 0 … -/
theorem no_zero_exponent {db : Db} (hdb : db.AllWF) {op : NewOp} {q1 q2 q : Quantity} {v1 v2 v : Rat}
    (h1 : Known db q1) (h2 : Known db q2) (h : opNew db op q1 q2 v1 v2 = .ok (q, v)) :
    ∀ e ∈ q.entries, e.exp ≠ 0 ∧ unitTotal e.unit q.entries ≠ 0 :=
  (opNew_spec hdb (fun _ => True) h1 h2 (fun _ _ => trivial) (fun _ _ => trivial) h).2.2.2.2.1

/-- … **and every quantity type that still occurs has a non-zero exponent** (the per-unit total of the code
coincides with the per-type total because after matching a quantity type has one unit and a unit one type) -/
theorem no_zero_dimension {db : Db} (hdb : db.AllWF) {op : NewOp} {q1 q2 q : Quantity} {v1 v2 v : Rat}
    (h1 : Known db q1) (h2 : Known db q2) (h : opNew db op q1 q2 v1 v2 = .ok (q, v)) :
    ∀ e ∈ q.entries, ∀ qt, hasType db qt e = true → dim db qt q.entries ≠ 0 := by
  obtain ⟨_, _, _, hU, hnz, _, _⟩ := opNew_spec hdb (fun _ => True) h1 h2 (fun _ _ => trivial) (fun _ _ => trivial) h
  intro e he qt ht
  have hiff : ∀ x ∈ q.entries, hasType db qt x = (x.unit == e.unit) := by
    intro x hx
    have := hU e he x hx qt ht
    by_cases hh : hasType db qt x = true
    · rw [hh]; have := this.mp hh; simp [this]
    · have hne : x.unit ≠ e.unit := fun h => hh (this.mpr h)
      have : (x.unit == e.unit) = false := by simpa using hne
      rw [this]; simpa using hh
  rw [dim_eq_unitTotal q.entries hiff]
  exact (hnz e he).2

/-- the result of `* / //` is again an operand of the kind the theorems speak about (known units, scale-only
when the operands are, no caption), so the theorems chain over expression trees of any depth -/
theorem opNew_closed {db : Db} (hdb : db.AllWF) {op : NewOp} {q1 q2 q : Quantity} {v1 v2 v : Rat}
    (h1 : Known db q1) (h2 : Known db q2) (h : opNew db op q1 q2 v1 v2 = .ok (q, v)) :
    Known db q ∧ q.caption = 0 ∧ (ScaleOnlyQ db q1 → ScaleOnlyQ db q2 → ScaleOnlyQ db q) := by
  refine ⟨(opNew_spec hdb (fun _ => True) h1 h2 (fun _ _ => trivial) (fun _ _ => trivial) h).2.1,
    (opNew_spec hdb (fun _ => True) h1 h2 (fun _ _ => trivial) (fun _ _ => trivial) h).2.2.2.2.2.1, ?_⟩
  intro s1 s2
  exact (opNew_spec hdb (ScaleOnly db) h1 h2 s1 s2 h).2.2.1

/-- with known units the only way `* / //` can fail is a zero divisor (`ZeroDivisionError`): the
"This should've been covered already" `RuntimeError` and the validation in `CreateDerived` are unreachable -/
theorem opNew_total {db : Db} (hdb : db.AllWF) (op : NewOp) (q1 q2 : Quantity) (v1 v2 : Rat)
    (h1 : Known db q1) (h2 : Known db q2) :
    (∃ q v, opNew db op q1 q2 v1 v2 = .ok (q, v)) ∨ (op ≠ .mul ∧ opNew db op q1 q2 v1 v2 = .error .other) :=
  opNew_ok hdb op q1 q2 v1 v2 h1 h2

/-! ### base magnitudes multiply (scale-only units; and any units when the right operand is derived) -/

/-- **a*b: the base magnitude is the product** -/
theorem mul_mag {db : Db} (hdb : db.AllWF) {q1 q2 q : Quantity} {v1 v2 v : Rat} (h1 : Known db q1) (h2 : Known db q2)
    (hs : Scales db q1 q2) (h : opNew db .mul q1 q2 v1 v2 = .ok (q, v)) :
    baseMag db q v = baseMag db q1 v1 * baseMag db q2 v2 := by
  obtain ⟨w1, w2, M1, M2, hv, _, _, e1, e2, em⟩ := opNew_mag hdb h1 h2 hs h
  simp only [applyNew] at hv
  injection hv with hv
  unfold baseMag
  rw [← hv, em, ← e1, ← e2]
  simp only [sgn, zpow_one]
  ring

/-- **a/b: … the quotient** -/
theorem div_mag {db : Db} (hdb : db.AllWF) {q1 q2 q : Quantity} {v1 v2 v : Rat} (h1 : Known db q1) (h2 : Known db q2)
    (hs : Scales db q1 q2) (h : opNew db .div q1 q2 v1 v2 = .ok (q, v)) :
    baseMag db q v = baseMag db q1 v1 / baseMag db q2 v2 := by
  obtain ⟨w1, w2, M1, M2, hv, _, hM2, e1, e2, em⟩ := opNew_mag hdb h1 h2 hs h
  simp only [applyNew] at hv
  split at hv
  · cases hv
  · rename_i hw
    injection hv with hv
    unfold baseMag
    rw [← hv, em, ← e1, ← e2]
    simp only [sgn, zpow_neg_one]
    field_simp

/-- **a//b: the floor of a quotient whose base magnitude is the quotient of the base magnitudes** -/
theorem floordiv_mag {db : Db} (hdb : db.AllWF) {q1 q2 q : Quantity} {v1 v2 v : Rat} (h1 : Known db q1) (h2 : Known db q2)
    (hs : Scales db q1 q2) (h : opNew db .floordiv q1 q2 v1 v2 = .ok (q, v)) :
    ∃ quot : Rat, v = (quot.floor : Int) ∧ baseMag db q quot = baseMag db q1 v1 / baseMag db q2 v2 := by
  obtain ⟨w1, w2, M1, M2, hv, _, hM2, e1, e2, em⟩ := opNew_mag hdb h1 h2 hs h
  simp only [applyNew] at hv
  split at hv
  · cases hv
  · rename_i hw
    injection hv with hv
    refine ⟨w1 / w2, hv.symm, ?_⟩
    unfold baseMag
    rw [em, ← e1, ← e2]
    simp only [sgn, zpow_neg_one]
    field_simp

/-! ### corollaries: commutativity, cancellation, a/a -/

/-- **a*b and b*a are physically equal** (same exponents, same base magnitude) -/
theorem mul_comm_phys {db : Db} (hdb : db.AllWF) {q1 q2 q q' : Quantity} {v1 v2 v v' : Rat}
    (h1 : Known db q1) (h2 : Known db q2) (s12 : Scales db q1 q2) (s21 : Scales db q2 q1)
    (hab : opNew db .mul q1 q2 v1 v2 = .ok (q, v)) (hba : opNew db .mul q2 q1 v2 v1 = .ok (q', v')) :
    (∀ qt, dim db qt q.entries = dim db qt q'.entries) ∧ baseMag db q v = baseMag db q' v' := by
  refine ⟨fun qt => ?_, ?_⟩
  · rw [mul_dim hdb h1 h2 hab, mul_dim hdb h2 h1 hba, add_comm]
  · rw [mul_mag hdb h1 h2 s12 hab, mul_mag hdb h2 h1 s21 hba, mul_comm]

/-- **(a*b)/b is physically equal to a** -/
theorem mul_div_cancel_phys {db : Db} (hdb : db.AllWF) {q1 q2 q q' : Quantity} {v1 v2 v v' : Rat}
    (h1 : Known db q1) (h2 : Known db q2) (hs : Scales db q1 q2) (hv2 : v2 ≠ 0)
    (hab : opNew db .mul q1 q2 v1 v2 = .ok (q, v)) (hdiv : opNew db .div q q2 v v2 = .ok (q', v')) :
    (∀ qt, dim db qt q'.entries = dim db qt q1.entries) ∧ baseMag db q' v' = baseMag db q1 v1 := by
  obtain ⟨hk, _, hcl⟩ := opNew_closed hdb h1 h2 hab
  have hs' : Scales db q q2 := hs.imp id (fun ⟨s1, s2⟩ => ⟨hcl s1 s2, s2⟩)
  refine ⟨fun qt => ?_, ?_⟩
  · rw [div_dim hdb hk h2 hdiv, mul_dim hdb h1 h2 hab]; ring
  · rw [div_mag hdb hk h2 hs' hdiv, mul_mag hdb h1 h2 hs hab]
    have : baseMag db q2 v2 ≠ 0 := mul_ne_zero hv2 (h2.mag_ne_zero hdb)
    field_simp

/-- **a/a is dimensionless**: no entry is left (hence the empty unit string) and the value is 1 -/
theorem div_self_dimensionless {db : Db} (hdb : db.AllWF) {q q' : Quantity} {v v' : Rat} (hq : Known db q)
    (hs : Scales db q q) (hv : v ≠ 0) (h : opNew db .div q q v v = .ok (q', v')) :
    q'.entries = [] ∧ q'.caption = 0 ∧ v' = 1 := by
  have hent : q'.entries = [] := by
    cases he : q'.entries with
    | nil => rfl
    | cons e es =>
      exfalso
      have hmem : e ∈ q'.entries := by rw [he]; exact List.mem_cons_self ..
      obtain ⟨r, _, hc⟩ := (opNew_closed hdb hq hq h).1 e hmem
      have ht : hasType db r.qtype e = true := hasType_iff.mpr hc
      have := no_zero_dimension hdb hq hq h e hmem r.qtype ht
      rw [div_dim hdb hq hq h] at this
      exact this (sub_self _)
  refine ⟨hent, (opNew_closed hdb hq hq h).2.1, ?_⟩
  have hm := div_mag hdb hq hq hs h
  have hb : baseMag db q v ≠ 0 := mul_ne_zero hv (hq.mag_ne_zero hdb)
  rw [div_self hb] at hm
  unfold baseMag at hm
  rw [hent] at hm
  simpa [mag] using hm

/-! ### powers -/

/-- `a ** n` for n ≤ 1 is `a` itself (`range(n - 1)` is empty) -/
theorem pow_le_one (db : Db) (q : Quantity) (v : Rat) {n : Int} (hn : n ≤ 1) : pow db q v n = .ok (q, v) := by
  unfold pow
  have : (n - 1).toNat = 0 := by omega
  rw [this]; rfl

/-- **a ** (n+1) = (a ** n) * a** for n ≥ 1: the n-fold product, built from the left -/
theorem pow_succ {db : Db} (q : Quantity) (v : Rat) {n : Int} (hn : 1 ≤ n) :
    pow db q v (n + 1) = (match pow db q v n with
      | .error e => .error e
      | .ok (rq, rv) => opNew db .mul rq q rv v) := by
  unfold pow
  obtain ⟨k, rfl⟩ : ∃ k : Nat, n = k + 1 := ⟨(n - 1).toNat, by omega⟩
  have e1 : ((k : Int) + 1 + 1 - 1).toNat = k + 1 := by omega
  have e2 : ((k : Int) + 1 - 1).toNat = k := by omega
  rw [e1, e2]
  -- one more turn of the loop at the end = one more turn at the start
  have snoc : ∀ (k : Nat) (rq : Quantity) (rv : Rat),
      powLoop db q v (k + 1) rq rv = (match powLoop db q v k rq rv with
        | .error e => .error e
        | .ok (rq', rv') => opNew db .mul rq' q rv' v) := by
    intro k
    induction k with
    | zero =>
      intro rq rv
      simp only [powLoop]
      cases opNew db .mul rq q rv v with
      | error e => rfl
      | ok r => rfl
    | succ k ih =>
      intro rq rv
      rw [powLoop]
      cases h : opNew db .mul rq q rv v with
      | error e => simp only [powLoop, h]
      | ok r =>
        obtain ⟨rq1, rv1⟩ := r
        simp only
        rw [ih rq1 rv1]
        conv => rhs; rw [powLoop, h]
  exact snoc k q v

/-- **a ** n: exponents are n times those of a, the base magnitude is the n-th power** (n ≥ 1) -/
theorem pow_dim_mag {db : Db} (hdb : db.AllWF) {q q' : Quantity} {v v' : Rat} {n : Int} (hn : 1 ≤ n)
    (hq : Known db q) (hs : Scales db q q) (h : pow db q v n = .ok (q', v')) :
    (∀ qt, dim db qt q'.entries = n * dim db qt q.entries) ∧ baseMag db q' v' = baseMag db q v ^ n.toNat := by
  unfold pow at h
  obtain ⟨k, rfl⟩ : ∃ k : Nat, n = k + 1 := ⟨(n - 1).toNat, by omega⟩
  have e2 : ((k : Int) + 1 - 1).toNat = k := by omega
  rw [e2] at h
  obtain ⟨hd, hm⟩ : (∀ qt, dim db qt q'.entries = dim db qt q.entries + k * dim db qt q.entries)
      ∧ baseMag db q' v' = baseMag db q v * baseMag db q v ^ k := by
    rcases hs with hs | ⟨hs, _⟩
    · obtain ⟨a, b, _, _⟩ := powLoop_spec hdb (fun _ => True) hq (fun _ _ => trivial) (Or.inl hs) k q v q' v' hq
        (fun _ _ => trivial) h
      exact ⟨a, b⟩
    · obtain ⟨a, b, _, _⟩ := powLoop_spec hdb (ScaleOnly db) hq hs (Or.inr (fun _ hu => hu)) k q v q' v' hq hs h
      exact ⟨a, b⟩
  refine ⟨fun qt => ?_, ?_⟩
  · rw [hd qt]; ring
  · have : ((k : Int) + 1).toNat = k + 1 := by omega
    rw [hm, this, _root_.pow_succ]; ring

/-! ### the shipped POSC table satisfies the hypothesis `AllWF` (regenerated and re-proved on every run) -/

theorem posc_mul_dim {q1 q2 q : Quantity} {v1 v2 v : Rat} (h1 : Known poscDb q1) (h2 : Known poscDb q2)
    (h : opNew poscDb .mul q1 q2 v1 v2 = .ok (q, v)) (qt : Sym) :
    dim poscDb qt q.entries = dim poscDb qt q1.entries + dim poscDb qt q2.entries := mul_dim posc_allWF h1 h2 h qt

theorem posc_mul_mag {q1 q2 q : Quantity} {v1 v2 v : Rat} (h1 : Known poscDb q1) (h2 : Known poscDb q2)
    (hs : Scales poscDb q1 q2) (h : opNew poscDb .mul q1 q2 v1 v2 = .ok (q, v)) :
    baseMag poscDb q v = baseMag poscDb q1 v1 * baseMag poscDb q2 v2 := mul_mag posc_allWF h1 h2 hs h

theorem posc_div_mag {q1 q2 q : Quantity} {v1 v2 v : Rat} (h1 : Known poscDb q1) (h2 : Known poscDb q2)
    (hs : Scales poscDb q1 q2) (h : opNew poscDb .div q1 q2 v1 v2 = .ok (q, v)) :
    baseMag poscDb q v = baseMag poscDb q1 v1 / baseMag poscDb q2 v2 := div_mag posc_allWF h1 h2 hs h

/-! ### the exponent per quantity type as the result REPORTS it (its quantity-type string)

The Array operators apply the same per-number functions element by element (C10's theorems); nothing here depends
on the container. -/

/-- **the list the quantity-type string is written from holds, for every quantity type, exactly `dim`**: the sum
of the exponents of ALL categories of that type (two categories of one type are added, not overwritten) -/
theorem reported_type_exponent_eq_dim {db : Db} {es : List Entry} {l : List (Sym × Int)}
    (h : typeExps db es = .ok l) (qt : Sym) : expOf qt l = dim db qt es := by
  have := typeExpsFrom_expOf qt es [] l h
  simpa [expOf] using this

/-- every quantity type is listed at most once -/
theorem reported_types_distinct {db : Db} {es : List Entry} {l : List (Sym × Int)}
    (h : typeExps db es = .ok l) : (l.map Prod.fst).Nodup :=
  typeExpsFrom_keysNodup es [] l (by simp [KeysNodup]) h

/-- **what is written: exactly the quantity types whose `dim` is not 0, each with its `dim`** -/
theorem reported_types_iff {db : Db} {es : List Entry} {r : List (Sym × Int)}
    (h : reportedTypes db es = .ok r) (qt : Sym) (x : Int) :
    (qt, x) ∈ r ↔ x = dim db qt es ∧ x ≠ 0 := by
  unfold reportedTypes at h
  cases hl : typeExps db es with
  | error e => rw [hl] at h; cases h
  | ok l =>
    rw [hl] at h
    cases h
    have hn : KeysNodup l := typeExpsFrom_keysNodup es [] l (by simp [KeysNodup]) hl
    have hd := reported_type_exponent_eq_dim hl qt
    simp only [List.mem_filter, Bool.not_eq_true', beq_eq_false_iff_ne, ne_eq]
    constructor
    · rintro ⟨hm, hx⟩
      exact ⟨by rw [← hd, expOf_of_mem hn hm], hx⟩
    · rintro ⟨hx, h0⟩
      refine ⟨?_, h0⟩
      subst hx
      rw [← hd] at h0 ⊢
      exact mem_of_expOf_ne_zero h0

/-- **a*b reports, for every quantity type, the sum of what the operands report** -/
theorem mul_reported_types {db : Db} (hdb : db.AllWF) {q1 q2 q : Quantity} {v1 v2 v : Rat}
    (h1 : Known db q1) (h2 : Known db q2) (h : opNew db .mul q1 q2 v1 v2 = .ok (q, v))
    {l1 l2 l : List (Sym × Int)} (t1 : typeExps db q1.entries = .ok l1) (t2 : typeExps db q2.entries = .ok l2)
    (t : typeExps db q.entries = .ok l) (qt : Sym) : expOf qt l = expOf qt l1 + expOf qt l2 := by
  rw [reported_type_exponent_eq_dim t, reported_type_exponent_eq_dim t1, reported_type_exponent_eq_dim t2]
  exact mul_dim hdb h1 h2 h qt

/-- **a/b reports … the difference** -/
theorem div_reported_types {db : Db} (hdb : db.AllWF) {q1 q2 q : Quantity} {v1 v2 v : Rat}
    (h1 : Known db q1) (h2 : Known db q2) (h : opNew db .div q1 q2 v1 v2 = .ok (q, v))
    {l1 l2 l : List (Sym × Int)} (t1 : typeExps db q1.entries = .ok l1) (t2 : typeExps db q2.entries = .ok l2)
    (t : typeExps db q.entries = .ok l) (qt : Sym) : expOf qt l = expOf qt l1 - expOf qt l2 := by
  rw [reported_type_exponent_eq_dim t, reported_type_exponent_eq_dim t1, reported_type_exponent_eq_dim t2]
  exact div_dim hdb h1 h2 h qt

/-! ### non-vacuity: concrete operands of the POSC table meet the hypotheses; the model computes what the
repaired code computes (exponent honoured by the matching, both operand orders) -/

section examples
private def S (s : String) : Sym := Sym.ofString s
private def qM : Quantity := ⟨[⟨S "length", S "m", 1⟩], 0, false⟩
private def qCm : Quantity := ⟨[⟨S "length", S "cm", 1⟩], 0, false⟩
private def qM2 : Quantity := ⟨[⟨S "length", S "m", 2⟩], 0, true⟩
private def qDepthFt : Quantity := ⟨[⟨S "depth", S "ft", 1⟩], 0, false⟩
private def qS : Quantity := ⟨[⟨S "time", S "s", 1⟩], 0, false⟩

-- 1 m * 1 m = 1 m2
-- 1 cm * (1 m * 1 m) = 10000 cm3 and (1 m * 1 m) * 1 cm = 0.01 m3: physically equal
-- two categories of one quantity type stay apart, their units are unified: 2 m * 1 ft(depth)
-- m2 / m is the simple quantity m again; m / m is dimensionless; m // cm floors the matched quotient
-- a unit with an offset inside a derived right operand is scaled (K → degC: ratio 1), not shifted
end examples

end Barril.Alg
