/- Non-vacuity examples of C07 (moved out of Props/C07.lean by tools/split_examples.py: they evaluate
concrete instances, many over the regenerated tables, and must not be able to stop the theorem module from
building).  Not property theorems: the check builds this module separately and only records the outcome. -/
import Barril.Props.C07
import Barril.Proofs.InternLemmas
import Barril.Gen.Dbs

namespace Barril.Intern
open Barril

section examples
open Barril.Gen

example : (reach poscDb exG exOps).results = [some 0, some 1, some 2, some 3, some 3, some 4, none, some 0] := by
  decide +kernel
example : (reach poscDb exG exOps).st.objs.length = 5 ∧ (reach poscDb exG exOps).st.cache.length = 5 := by
  decide +kernel
example : ((reach poscDb exG exOps).st.objs[3]?.map (view (reach poscDb exG exOps).st.heap)) =
    some (some [(sLength, ⟨sM, 2, false⟩)], 0, true) := by decide +kernel
example : toOut (obtain poscDb (reach poscDb exG exOps).st (.str sCm) (.str sLength) (some 0)).2 = .ok 1 := by
  decide +kernel
example : (stepState poscDb exG (reach poscDb exG exOps) (.obtain (.seq [⟨sM, 2, false⟩]) .none none)).2 =
    .err .assertion := by decide +kernel
example : (do
    let a ← (reach poscDb exG exOps).st.objs[0]?
    let b ← (reach poscDb exG exOps).st.objs[4]?
    pure (qeq (reach poscDb exG exOps).st.heap a b,
          hashKey (reach poscDb exG exOps).st.heap a == hashKey (reach poscDb exG exOps).st.heap b)) =
    some (true, true) := by decide +kernel
example : (stepState poscDb exG (reach poscDb exG exOps) (.obtain (.str sCm) (.str sLength) none)).2 = .ok 5 := by
  decide +kernel

example : (reach poscDb exG exOps2).results = [some 0, some 1] ∧
    (do let a ← (reach poscDb exG exOps2).st.objs[0]?
        let b ← (reach poscDb exG exOps2).st.objs[1]?
        pure (qeq (reach poscDb exG exOps2).st.heap a b)) = some true ∧
    (match resolveSimpleUnit poscDb sVolume sLegacy with | .ok u => u == sMcf | .error _ => false) = true := by
  decide +kernel

example : (reach poscDb exG exOps3).results = [some 0, some 1, some 2] ∧
    ((reach poscDb exG exOps3).st.objs[2]?.map (view (reach poscDb exG exOps3).st.heap)) =
      some (some [(sLength, ⟨sM, 2, false⟩), (sTime, ⟨sS, -1, false⟩)], 0, true) := by decide +kernel

-- the dict form validates the units on a miss: the first request is accepted, the swapped one raises a
-- units error and stores nothing
example : (reach poscDb exG exOps4).results = [some 0, none] ∧ (reach poscDb exG exOps4).st.cache.length = 1 ∧
    (stepState poscDb exG (reach poscDb exG [exGoodOp]) exBadOp).2 = .err .units := by decide +kernel

-- a repeated __init__ on the derived m2 and on the simple m: same objects, two objects and two cache
-- entries in all, m2 still (length: m, 2), m * m still resolves to it
example : (reach poscDb exG exOps5).results = [some 0, some 1, some 1, some 1, some 1, some 0] ∧
    (reach poscDb exG exOps5).st.objs.length = 2 ∧ (reach poscDb exG exOps5).st.cache.length = 2 ∧
    ((reach poscDb exG exOps5).st.objs[1]?.map (view (reach poscDb exG exOps5).st.heap)) =
      some (some [(sLength, ⟨sM, 2, false⟩)], 0, true) := by decide +kernel

end examples

end Barril.Intern
